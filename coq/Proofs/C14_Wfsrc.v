(** C14 -> C03 link: every model that an edit script over ELFI's public API can reach from the empty
    model is a well-formed source net ([wfsrc], Proofs/C03_Twins.v), so the end-to-end theorems of
    C03 / C02 / C05 / C08 (which assume [wfsrc]) apply to every script-reachable model.

    The structural fields of [wfsrc] come from [Closed] (C14_Edit) and [uniq] (C14_Become); the
    state-shape fields (observable -> no output; observed keys distinct and on observable nodes;
    reserved names absent) come from the new invariant [Shaped] below.  The script guard
    [script_ok] collects exactly what is needed:
      - [EAddNode]: the state is one the node constructors produce ([class_state]), the name is
        not one of the reserved instruction-node names, observed data only with an observable
        state (only ObservableMixin accepts [observed=]);
      - [ESetObserved]: the key is an observable node of the edited model.
    No guard on [EAddEdge], [ERemove], [EBecome], [ESetParams], [ESetFlag], [ECopy], [ESaveLoad]. *)
From Coq Require Import List String Ascii ZArith Arith Bool Lia.
From Elfi Require Import Graph.Net Graph.Denote Graph.Edit Proofs.C03_Exec Proofs.C03_Compile
     Proofs.C14_Edit Proofs.C14_Become Proofs.C03_EndToEnd.
Import ListNotations.

(** ---- the node states the ELFI constructors produce ---- *)
Inductive nclass := KConstant | KOperation | KRandomVariable | KSimulator | KSummary | KDiscrepancy.

(** [_uses_meta] is free (InstructionsMapper setter), [_parameter] is free on random variables
    (Prior sets it, RandomVariable does not); [s_opid] is free. *)
Definition is_class (k : nclass) (st : sstate) : bool :=
  match k with
  | KConstant =>      (* dict(_output=value) *)
      match s_output st with Some _ => true | None => false end
      && negb (s_has_op st) && negb (s_stochastic st) && negb (s_observable st)
      && negb (s_uses_observed st) && negb (s_uses_batch_size st) && negb (s_parameter st)
  | KOperation =>     (* dict(_operation=fn) *)
      match s_output st with Some _ => false | None => true end
      && s_has_op st && negb (s_stochastic st) && negb (s_observable st)
      && negb (s_uses_observed st) && negb (s_uses_batch_size st) && negb (s_parameter st)
  | KRandomVariable =>  (* StochasticMixin; dict(_operation, _uses_batch_size=True); Prior: _parameter *)
      match s_output st with Some _ => false | None => true end
      && s_has_op st && s_stochastic st && negb (s_observable st)
      && negb (s_uses_observed st) && s_uses_batch_size st
  | KSimulator =>     (* StochasticMixin, ObservableMixin; dict(_operation=fn, _uses_batch_size=True) *)
      match s_output st with Some _ => false | None => true end
      && s_has_op st && s_stochastic st && s_observable st
      && negb (s_uses_observed st) && s_uses_batch_size st && negb (s_parameter st)
  | KSummary =>       (* ObservableMixin; dict(_operation=fn) *)
      match s_output st with Some _ => false | None => true end
      && s_has_op st && negb (s_stochastic st) && s_observable st
      && negb (s_uses_observed st) && negb (s_uses_batch_size st) && negb (s_parameter st)
  | KDiscrepancy =>   (* dict(_operation=discrepancy, _uses_observed=True) *)
      match s_output st with Some _ => false | None => true end
      && s_has_op st && negb (s_stochastic st) && negb (s_observable st)
      && s_uses_observed st && negb (s_uses_batch_size st) && negb (s_parameter st)
  end.

Definition all_classes : list nclass := [KConstant; KOperation; KRandomVariable; KSimulator; KSummary; KDiscrepancy].
Definition class_state (st : sstate) : bool := existsb (fun k => is_class k st) all_classes.

(** what of the class shape survives every edit (in-place flag writes change the other flags):
    an observable node has no fixed output, and a node has exactly one of output / operation *)
Definition shape_ok (st : sstate) : bool :=
  (negb (s_observable st) || match s_output st with None => true | Some _ => false end)
  && match s_output st with None => s_has_op st | Some _ => negb (s_has_op st) end.

Lemma class_state_shape st : class_state st = true -> shape_ok st = true.
Proof.
  destruct st as [o hop sto obs uo ub um par id]. unfold class_state, shape_ok, all_classes, is_class. simpl.
  destruct o, hop, sto, obs, uo, ub, par; simpl; intros H; try reflexivity; discriminate.
Qed.

Lemma shape_ok_spec st :
  shape_ok st = true ->
  (s_observable st = true -> s_output st = None)
  /\ (s_output st = None -> s_has_op st = true) /\ (s_output st <> None -> s_has_op st = false).
Proof.
  unfold shape_ok. destruct (s_observable st), (s_output st), (s_has_op st); simpl; intros H;
    try discriminate; repeat split; intros; try reflexivity; try discriminate; congruence.
Qed.

Lemma shape_set_flag st f b : shape_ok (set_flag st f b) = shape_ok st.
Proof. reflexivity. Qed.
Lemma shape_set_param st b : shape_ok (set_param st b) = shape_ok st.
Proof. reflexivity. Qed.

(** ---- the state-shape invariant of a model ---- *)
Record Shaped (m : snet) : Prop := {
  sh_states : forall n st, lookup n (s_nodes m) = Some st -> shape_ok st = true;
  sh_reserved : forall n, In n inames -> ~ In n (names m);
  sh_obs_nodup : NoDup (map fst (s_observed m));
  sh_obs_observable : forall k, In k (map fst (s_observed m)) -> flag m s_observable k = true
}.

Lemma Shaped_empty : Shaped empty_net.
Proof. constructor; simpl; [discriminate | intros ? _ [] | constructor | intros ? []]. Qed.

Lemma flag_spec m f k : flag m f k = true <-> exists st, lookup k (s_nodes m) = Some st /\ f st = true.
Proof.
  unfold flag, sstate_of. destruct (lookup k (s_nodes m)) as [st|].
  - split; [intros H; eauto | intros [st' [E H]]; congruence].
  - split; [discriminate | intros [st' [E _]]; discriminate].
Qed.

(** [Shaped] does not look at the edges *)
Lemma Shaped_ext m m' : s_nodes m' = s_nodes m -> s_observed m' = s_observed m -> Shaped m -> Shaped m'.
Proof.
  intros Hn Ho [A B C D]. constructor.
  - rewrite Hn. exact A.
  - unfold names. rewrite Hn. exact B.
  - rewrite Ho. exact C.
  - intros k Hk. rewrite Ho in Hk. specialize (D k Hk). unfold flag, sstate_of in *. rewrite Hn. exact D.
Qed.

(** ---- association-list facts ---- *)
Lemma lookup_app' {A} k (l1 l2 : list (name * A)) :
  lookup k (l1 ++ l2) = match lookup k l1 with Some a => Some a | None => lookup k l2 end.
Proof. induction l1 as [|[a x] r IH]; simpl; [reflexivity|]. destruct (String.eqb k a); [reflexivity | exact IH]. Qed.

Lemma lookup_None_notin {A} k (l : list (name * A)) : lookup k l = None <-> ~ In k (map fst l).
Proof.
  rewrite In_names_lookup. destruct (lookup k l).
  - split; [discriminate | intros H; exfalso; apply H; discriminate].
  - split; [intros _ H; now apply H | reflexivity].
Qed.

Lemma NoDup_set_keys {A} n (a : A) l : NoDup (map fst l) -> NoDup (map fst (set n a l)).
Proof.
  intros H. destruct (in_dec string_dec n (map fst l)) as [Hin|Hin].
  - now rewrite names_set_old.
  - rewrite names_set_new; [|exact Hin]. now apply NoDup_app_snoc.
Qed.

Lemma In_set_keys {A} k n (a : A) l : In k (map fst (set n a l)) -> k = n \/ In k (map fst l).
Proof.
  destruct (in_dec string_dec n (map fst l)) as [Hin|Hin].
  - rewrite names_set_old; auto.
  - rewrite names_set_new; [|exact Hin]. intros H. apply in_app_iff in H. destruct H as [H|[H|[]]]; auto.
Qed.

Lemma NoDup_filter_keys {A} (f : name * A -> bool) l : NoDup (map fst l) -> NoDup (map fst (filter f l)).
Proof.
  induction l as [|x r IH]; simpl; intros H; [constructor|]. inversion H as [|? ? Hx Hr]; subst.
  destruct (f x); simpl; [|auto]. constructor; [|auto].
  intros Hin. apply Hx. apply in_map_iff in Hin. destruct Hin as [y [Hy Hin]]. apply filter_In in Hin.
  apply in_map_iff. exists y. tauto.
Qed.

Lemma In_filter_keys {A} (f : name * A -> bool) k l : In k (map fst (filter f l)) -> In k (map fst l).
Proof.
  intros H. apply in_map_iff in H. destruct H as [y [Hy Hin]]. apply filter_In in Hin.
  apply in_map_iff. exists y. tauto.
Qed.

Lemma lookup_map_states (g : name -> sstate -> sstate) k : forall l : list (name * sstate),
  lookup k (map (fun ns : name * sstate => (fst ns, g (fst ns) (snd ns))) l) = option_map (g k) (lookup k l).
Proof.
  induction l as [|[a st] r IH]; simpl; [reflexivity|].
  destruct (String.eqb k a) eqn:E; [apply String.eqb_eq in E; subst; reflexivity | exact IH].
Qed.

Lemma In_lookup_nodup {A} k (a : A) l : NoDup (map fst l) -> In (k, a) l -> lookup k l = Some a.
Proof.
  induction l as [|[b x] r IH]; simpl; intros Hn Hin; [destruct Hin|].
  inversion Hn as [|? ? Hb Hr]; subst. destruct Hin as [Heq|Hin].
  - inversion Heq; subst. now rewrite String.eqb_refl.
  - destruct (String.eqb k b) eqn:E; [|now apply IH].
    apply String.eqb_eq in E. subst b. exfalso. apply Hb. apply in_map_iff. exists (k, a). split; [reflexivity | exact Hin].
Qed.

(** ---- observed data along [remove_node]: only entries disappear ---- *)
Definition obs_sub (m m' : snet) : Prop := exists f, s_observed m' = filter f (s_observed m).

Lemma obs_sub_refl m : obs_sub m m.
Proof. exists (fun _ => true). symmetry. apply filter_all. reflexivity. Qed.

Lemma filter_filter {A} (f g : A -> bool) l : filter g (filter f l) = filter (fun x => f x && g x) l.
Proof. induction l as [|x r IH]; simpl; [reflexivity|]. destruct (f x); simpl; [destruct (g x); now rewrite IH | exact IH]. Qed.

Lemma obs_sub_trans a b c : obs_sub a b -> obs_sub b c -> obs_sub a c.
Proof. intros [f Hf] [g Hg]. exists (fun x => f x && g x). now rewrite Hg, Hf, filter_filter. Qed.

Lemma obs_sub_fold (step : snet -> name -> snet) :
  (forall m p, obs_sub m (step m p)) -> forall l m, obs_sub m (fold_left step l m).
Proof.
  intros Hs. induction l as [|p r IH]; intros m; simpl; [apply obs_sub_refl|].
  eapply obs_sub_trans; [apply Hs | apply IH].
Qed.

Lemma remove_node_obs_sub : forall fuel m n, obs_sub m (remove_node fuel m n).
Proof.
  assert (Hbase : forall m n, obs_sub m (drop_node (with_observed m (remove n (s_observed m))) n)).
  { intros m n. exists (fun p => negb (String.eqb n (fst p))). reflexivity. }
  induction fuel as [|f IH]; intros m n; simpl; [apply Hbase|].
  eapply obs_sub_trans; [apply Hbase|]. apply obs_sub_fold. intros m' p.
  destruct (is_private p && has p (s_nodes m') && Nat.eqb (degree m' p) 0); [apply IH | apply obs_sub_refl].
Qed.

Lemma obs_sub_nodup m m' : obs_sub m m' -> NoDup (map fst (s_observed m)) -> NoDup (map fst (s_observed m')).
Proof. intros [f ->]. apply NoDup_filter_keys. Qed.

Lemma obs_sub_In m m' k : obs_sub m m' -> In k (map fst (s_observed m')) -> In k (map fst (s_observed m)).
Proof. intros [f ->]. apply In_filter_keys. Qed.

(** ---- frames of adding edges ---- *)
Lemma add_edge_m_frame m p c par m' :
  add_edge_m m p c par = Ok m' -> s_nodes m' = s_nodes m /\ s_observed m' = s_observed m.
Proof.
  unfold add_edge_m. intros H.
  destruct (has c (s_nodes m)); cbn [negb] in H; [|discriminate].
  destruct (has p (s_nodes m)); cbn [negb] in H; [|discriminate].
  inversion H; subst. split; reflexivity.
Qed.

Lemma fold_parents_frame n : forall parents (r : res snet) m2,
  fold_left (fun r p => do mm <- r; add_edge_m mm p n None) parents r = Ok m2 ->
  exists m1, r = Ok m1 /\ s_nodes m2 = s_nodes m1 /\ s_observed m2 = s_observed m1.
Proof.
  induction parents as [|p l IH]; intros r m2 H; simpl in H; [exists m2; auto|].
  apply IH in H. destruct H as [m1' [H1 [Hn Ho]]].
  destruct r as [m1|e]; simpl in H1; [|discriminate].
  apply add_edge_m_frame in H1. destruct H1 as [Hn1 Ho1]. exists m1. split; [reflexivity|]. split; congruence.
Qed.

(** ---- become: observed keys stay distinct ---- *)
Lemma update_node_obs_nodup m n u m' :
  update_node m n u = Ok m' -> NoDup (map fst (s_observed m)) -> NoDup (map fst (s_observed m')).
Proof.
  unfold update_node. intros H Hnd.
  destruct (has n (s_nodes m)); cbn [negb] in H; [|discriminate].
  destruct (has u (s_nodes m)); cbn [negb] in H; [|discriminate].
  destruct (lookup u (s_nodes _)) as [stu|]; [|discriminate].
  destruct (forallb _ _); cbn [negb] in H; [|discriminate].
  match type of H with Ok (match _ with Some v => with_observed ?m5 _ | None => _ end) = _ => set (mm := m5) in * end.
  assert (Hmm : NoDup (map fst (s_observed mm))).
  { unfold mm.
    match goal with |- NoDup (map fst (s_observed (remove_node ?f ?m4 u))) =>
      apply (obs_sub_nodup m4); [apply remove_node_obs_sub|] end.
    cbn [s_observed with_edges with_nodes].
    match goal with |- NoDup (map fst (s_observed (remove_node ?f ?m0 n))) =>
      apply (obs_sub_nodup m0); [apply remove_node_obs_sub|] end.
    cbn [s_observed with_observed]. now apply NoDup_remove. }
  inversion H; subst m'. destruct (lookup u (s_observed m)) as [v|]; [|exact Hmm].
  cbn [s_observed with_observed]. now apply NoDup_set_keys.
Qed.

(** ---- the script guard ---- *)
Definition wf_guard (m : snet) (o : eop) : bool :=
  match o with
  | EAddNode _ n st _ obs =>
      class_state st && negb (mem n inames)
      && match obs with Some _ => s_observable st | None => true end
  | ESetObserved _ n _ => flag m s_observable n
  | _ => true
  end.

Fixpoint wf_guards (ms : list snet) (ops : list eop) : bool :=
  match ops with
  | [] => true
  | o :: r =>
      match nth_error ms (handle_of o) with
      | None => true
      | Some m => wf_guard m o && match step ms o with Ok ms' => wf_guards ms' r | Err _ => true end
      end
  end.

(** the guard of a whole script, run from the empty model *)
Definition script_ok (ops : list eop) : bool := wf_guards [empty_net] ops.

(** the guards of [run_closed] follow from [wf_guard] (a successful become always leaves the node) *)
Lemma wf_guard_step_guard m o m' : wf_guard m o = true -> step_model m o = Ok m' -> step_guard m o = true.
Proof.
  intros Hg H. destruct o as [h n st parents obs|h p c par|h n|h n u|h ps|h n v|h|h|h n f b]; simpl in *; try reflexivity.
  - rewrite H. apply has_In. destruct (string_dec n u) as [->|Hnu]; [destruct (update_node_self _ _ _ H)|].
    eapply become_node_kept; eauto.
  - apply flag_spec in Hg. destruct Hg as [st [Hl _]]. unfold has. now rewrite Hl.
Qed.

(** ---- one step keeps the invariant ---- *)
Theorem step_model_shaped m o m' :
  Closed m -> Shaped m -> wf_guard m o = true -> step_model m o = Ok m' -> Closed m' /\ Shaped m'.
Proof.
  intros Hc Hs Hg H.
  assert (Hc' : Closed m') by (eapply step_model_closed; eauto using wf_guard_step_guard).
  split; [exact Hc'|].
  destruct o as [h n st parents obs|h p c par|h n|h n u|h ps|h n v|h|h|h n f b]; simpl in H, Hg.
  - (* EAddNode *)
    apply andb_true_iff in Hg. destruct Hg as [Hg Hobs]. apply andb_true_iff in Hg. destruct Hg as [Hcls Hres].
    destruct (add_node m n st) as [m1|] eqn:Ea; simpl in H; [|discriminate].
    destruct (fold_left _ parents (Ok m1)) as [m2|] eqn:Ef; simpl in H; [|discriminate].
    apply fold_parents_frame in Ef. destruct Ef as [m1' [E1 [Hn2 Ho2]]]. inversion E1; subst m1'. clear E1.
    unfold add_node in Ea. destruct (has n (s_nodes m)) eqn:Ehas; [discriminate|]. inversion Ea; subst m1. clear Ea.
    cbn [s_nodes s_observed with_nodes] in Hn2, Ho2.
    assert (Hfresh : lookup n (s_nodes m) = None) by (unfold has in Ehas; destruct (lookup n (s_nodes m)); [discriminate | reflexivity]).
    destruct Hs as [A B C D].
    assert (Hnodes : s_nodes m' = s_nodes m ++ [(n, st)]) by (inversion H; subst m'; destruct obs; exact Hn2).
    assert (Hlk : forall k st', lookup k (s_nodes m) = Some st' -> lookup k (s_nodes m') = Some st').
    { intros k st' Hl. now rewrite Hnodes, lookup_app', Hl. }
    assert (Hflag : forall k, flag m s_observable k = true -> flag m' s_observable k = true).
    { intros k Hk. apply flag_spec in Hk. destruct Hk as [st' [Hl Hf]]. apply flag_spec. exists st'. auto. }
    constructor.
    + intros k st' Hl. rewrite Hnodes, lookup_app' in Hl. destruct (lookup k (s_nodes m)) as [s0|] eqn:E0.
      * inversion Hl; subst. eapply A; eauto.
      * simpl in Hl. destruct (String.eqb k n); [|discriminate]. inversion Hl; subst. now apply class_state_shape.
    + intros k Hk Hin. unfold names in Hin. rewrite Hnodes, map_app in Hin. apply in_app_iff in Hin.
      destruct Hin as [Hin|[Heq|[]]]; [exact (B k Hk Hin)|]. simpl in Heq. subst k.
      change (negb (mem n inames) = true) in Hres.
      apply negb_true_iff in Hres. apply mem_In in Hk. rewrite Hk in Hres. discriminate.
    + inversion H; subst m'. destruct obs as [v|]; cbn [s_observed with_observed]; rewrite Ho2; [now apply NoDup_set_keys | exact C].
    + assert (Hobs' : forall k, In k (map fst (s_observed m)) -> flag m' s_observable k = true) by (intros; auto).
      inversion H; subst m'. destruct obs as [v|]; cbn [s_observed with_observed]; rewrite Ho2; [|exact Hobs'].
      intros k Hk. apply In_set_keys in Hk. destruct Hk as [->|Hk]; [|now apply Hobs'].
      apply flag_spec. exists st. split; [|exact Hobs].
      cbn [s_nodes with_observed]. rewrite Hn2, lookup_app', Hfresh. simpl. now rewrite String.eqb_refl.
  - (* EAddEdge *)
    apply add_edge_m_frame in H. destruct H. eapply Shaped_ext; eauto.
  - (* ERemove *)
    unfold remove_node_checked in H. destruct (has n (s_nodes m)); [|discriminate]. inversion H; subst m'. clear H.
    destruct Hs as [A B C D]. pose proof (remove_node_obs_sub (List.length (s_nodes m)) m n) as Hsub. constructor.
    + intros k st Hl. apply remove_node_keeps_state in Hl. eapply A; eauto.
    + intros k Hk Hin. apply remove_node_names_incl in Hin. exact (B k Hk Hin).
    + eapply obs_sub_nodup; eauto.
    + intros k Hk. assert (Hk' := Hk). apply (obs_sub_In _ _ _ Hsub) in Hk. apply D, flag_spec in Hk.
      destruct Hk as [st [Hl Hf]].
      apply in_map_iff in Hk'. destruct Hk' as [[k0 v] [Hk0 Hin]]. simpl in Hk0. subst k0.
      apply (cl_obs _ Hc') in Hin. apply In_names_lookup in Hin.
      destruct (lookup k (s_nodes (remove_node (List.length (s_nodes m)) m n))) as [st'|] eqn:El; [|congruence].
      apply flag_spec. exists st'. split; [exact El|].
      apply remove_node_keeps_state in El. congruence.
  - (* EBecome *)
    destruct (string_dec n u) as [->|Hnu]; [destruct (update_node_self _ _ _ H)|].
    destruct (update_node_spec _ _ _ _ H Hnu) as [stu [Hu [Hn [_ [_ [_ [Hl Ho]]]]]]].
    destruct Hs as [A B C D]. constructor.
    + intros k st Hk. rewrite Hl in Hk. destruct (String.eqb k u); [discriminate|].
      destruct (String.eqb k n); [inversion Hk; subst; eapply A; eauto|].
      destruct (cleaned_b m n k); [discriminate | eapply A; eauto].
    + intros k Hk Hin. apply (become_names _ _ _ _ H Hnu) in Hin. destruct Hin as [Hin _]. exact (B k Hk Hin).
    + eapply update_node_obs_nodup; eauto.
    + intros k Hk. apply In_names_lookup in Hk. rewrite Ho in Hk. apply flag_spec. rewrite Hl.
      destruct (String.eqb k u); [congruence|]. destruct (String.eqb k n).
      * exists stu. split; [reflexivity|].
        assert (Hd : flag m s_observable u = true) by (apply D, In_names_lookup; exact Hk).
        apply flag_spec in Hd. destruct Hd as [st' [E1 E2]]. congruence.
      * destruct (cleaned_b m n k); [congruence|].
        apply flag_spec. apply D, In_names_lookup. exact Hk.
  - (* ESetParams *)
    unfold set_parameter_names in H. destruct (forallb _ ps); [|discriminate]. inversion H; subst m'. clear H.
    destruct Hs as [A B C D].
    assert (Hl : forall k, lookup k (s_nodes (with_nodes m (map (fun ns : name * sstate => (fst ns, set_param (snd ns) (mem (fst ns) ps))) (s_nodes m))))
                           = option_map (fun st => set_param st (mem k ps)) (lookup k (s_nodes m))).
    { intros k. cbn [s_nodes with_nodes]. apply (lookup_map_states (fun a st => set_param st (mem a ps))). }
    constructor.
    + intros k st Hk. rewrite Hl in Hk. destruct (lookup k (s_nodes m)) as [s0|] eqn:E0; [|discriminate].
      inversion Hk; subst. rewrite shape_set_param. eapply A; eauto.
    + intros k Hk Hin. apply In_names_lookup in Hin. rewrite Hl in Hin.
      apply (B k Hk). apply In_names_lookup. destruct (lookup k (s_nodes m)); [discriminate | exact Hin].
    + exact C.
    + intros k Hk. specialize (D k Hk). apply flag_spec in D. destruct D as [st [E1 E2]].
      apply flag_spec. rewrite Hl, E1. simpl. eexists. split; [reflexivity | exact E2].
  - (* ESetObserved *)
    inversion H; subst m'. clear H. destruct Hs as [A B C D]. constructor; cbn [s_nodes s_observed with_observed]; auto.
    + now apply NoDup_set_keys.
    + intros k Hk. apply In_set_keys in Hk. destruct Hk as [->|Hk]; [exact Hg | now apply D].
  - inversion H; subst; exact Hs.
  - inversion H; subst; exact Hs.
  - (* ESetFlag *)
    unfold set_node_flag in H. destruct (has n (s_nodes m)); [|discriminate]. inversion H; subst m'. clear H.
    destruct Hs as [A B C D].
    assert (Hl : forall k, lookup k (s_nodes (write_flag m n f b)) =
                           if String.eqb k n then option_map (fun st => set_flag st f b) (lookup k (s_nodes m)) else lookup k (s_nodes m))
      by (intros k; apply write_flag_spec).
    constructor.
    + intros k st Hk. rewrite Hl in Hk. destruct (String.eqb k n); [|eapply A; eauto].
      destruct (lookup k (s_nodes m)) as [s0|] eqn:E0; [|discriminate].
      inversion Hk; subst. rewrite shape_set_flag. eapply A; eauto.
    + rewrite write_flag_names. exact B.
    + exact C.
    + intros k Hk. specialize (D k Hk). apply flag_spec in D. destruct D as [st [E1 E2]].
      apply flag_spec. rewrite Hl, E1. destruct (String.eqb k n); simpl; eexists; split; try reflexivity; exact E2.
Qed.

(** ---- scripts ---- *)
Definition Inv (m : snet) : Prop := Closed m /\ Shaped m.

Theorem run_shaped : forall ops ms ms',
  Forall Inv ms -> wf_guards ms ops = true -> run ms ops = Ok ms' -> Forall Inv ms'.
Proof.
  induction ops as [|o r IH]; intros ms ms' Hall Hg H; simpl in H.
  - inversion H; subst. exact Hall.
  - destruct (step ms o) as [ms1|] eqn:Es; simpl in H; [|discriminate].
    cbn [wf_guards] in Hg.
    assert (Hs := Es). unfold step in Hs.
    destruct (nth_error ms (handle_of o)) as [m|] eqn:En; [|discriminate].
    rewrite Es in Hg. apply andb_true_iff in Hg. destruct Hg as [Hg1 Hg2].
    destruct (step_model m o) as [m1|] eqn:Em; simpl in Hs; [|discriminate].
    assert (Hm : Inv m) by (rewrite Forall_forall in Hall; apply Hall; eapply nth_error_In; eauto).
    destruct Hm as [Hmc Hms].
    pose proof (step_model_shaped _ _ _ Hmc Hms Hg1 Em) as Hm1. fold (Inv m1) in Hm1.
    apply (IH ms1 ms'); auto.
    destruct o; inversion Hs; subst; try (apply Forall_set_nth; assumption);
      apply Forall_app; split; auto.
Qed.

(** ---- the link: invariants => [wfsrc] ---- *)
From Elfi Require Import Proofs.C03_Twins.

Lemma pairs_map_fst (es : list edge) : map fst es = pairs es.
Proof. unfold pairs. apply map_ext. intros [[a b] c]. reflexivity. Qed.

Theorem inv_wfsrc m : Closed m -> Shaped m -> uniq (s_edges m) -> wfsrc m.
Proof.
  intros [A B C] [S1 S2 S3 S4] Hu. constructor.
  - exact A.
  - intros e He. destruct (B e He) as [H1 H2]. split; apply C14_Edit.has_In; assumption.
  - rewrite pairs_map_fst. exact Hu.
  - intros n Hn. apply C14_Edit.has_false_In. exact (S2 n Hn).
  - intros n st Hin Ho. apply (In_lookup_nodup _ _ _ A) in Hin. apply S1 in Hin.
    apply shape_ok_spec in Hin. now apply Hin.
  - exact S3.
  - exact S4.
Qed.

(** Every model reachable from the empty model by a guarded script is a well-formed source net. *)
Theorem reachable_wfsrc ops ms :
  run [empty_net] ops = Ok ms -> script_ok ops = true -> Forall wfsrc ms.
Proof.
  intros H Hg.
  assert (Hinv : Forall Inv ms).
  { eapply run_shaped; [|exact Hg|exact H]. constructor; [split; [apply Closed_empty | apply Shaped_empty] | constructor]. }
  assert (Huq : Forall (fun m => uniq (s_edges m)) ms).
  { eapply run_uniq; [|exact H]. constructor; [constructor | constructor]. }
  rewrite Forall_forall in *. intros m Hm. destruct (Hinv m Hm). apply inv_wfsrc; auto.
Qed.

(** bonus: the OutputCompiler accepts every node of a reachable model (exactly one of output / operation) *)
Theorem reachable_one_of_output_operation ops ms :
  run [empty_net] ops = Ok ms -> script_ok ops = true ->
  Forall (fun m => forall n st, lookup n (s_nodes m) = Some st ->
                     (s_output st = None -> s_has_op st = true) /\ (s_output st <> None -> s_has_op st = false)) ms.
Proof.
  intros H Hg.
  assert (Hinv : Forall Inv ms).
  { eapply run_shaped; [|exact Hg|exact H]. constructor; [split; [apply Closed_empty | apply Shaped_empty] | constructor]. }
  eapply Forall_impl; [|exact Hinv]. intros m [_ [S1 _ _ _]] n st Hl. apply S1, shape_ok_spec in Hl. tauto.
Qed.

(** For every script-reachable model, whatever [generate] returns is the user-level dataflow
    meaning of the requested nodes and observed twins. *)
Theorem reachable_generate_sound ops ms m outs W out log :
  run [empty_net] ops = Ok ms -> script_ok ops = true -> In m ms ->
  NoDup (map fst W) -> (forall k, In k (map fst W) -> ~ In k inames) ->
  generate m outs W = Ok (out, log) ->
  forall o v, In (o, v) out ->
    (has o (s_nodes m) = true
     \/ exists x st, lookup x (s_nodes m) = Some st /\ o = observed_name x
                     /\ (s_observable st = true \/ s_uses_observed st = true)) ->
    den_name m W o = Some v.
Proof.
  intros H Hg Hm. pose proof (reachable_wfsrc _ _ H Hg) as Hwf. rewrite Forall_forall in Hwf.
  apply generate_sound. now apply Hwf.
Qed.

(** ---- the guards are needed: unguarded API calls that leave [wfsrc] ---- *)
Definition st_constant (v : value) : sstate :=
  {| s_output := Some v; s_has_op := false; s_stochastic := false; s_observable := false;
     s_uses_observed := false; s_uses_batch_size := false; s_uses_meta := false; s_parameter := false; s_opid := ""%string |}.

(** [elfi.Constant(1, name='_batch_size')]: an explicit name is not checked against the reserved
    instruction-node names ([NodeReference._give_name] returns it as is). *)
Example reserved_name_refuted :
  class_state (st_constant (VConst 1)) = true
  /\ match run [empty_net] [EAddNode 0 "_batch_size"%string (st_constant (VConst 1)) [] None] with
     | Ok [m] => wfsrc_b m = false /\ has "_batch_size"%string (s_nodes m) = true
     | _ => False
     end.
Proof. vm_compute. repeat split. Qed.

(** [m.observed['c'] = 1] for a constant [c]: [ElfiModel.observed] is a plain dict. *)
Example set_observed_on_constant_refuted :
  match run [empty_net] [EAddNode 0 "c"%string (st_constant (VConst 1)) [] None; ESetObserved 0 "c"%string (VConst 2)] with
  | Ok [m] => wfsrc_b m = false /\ consistent_b m = true /\ flag m s_observable "c"%string = false
  | _ => False
  end.
Proof. vm_compute. repeat split. Qed.
