(** End-to-end composition for C03 on nets WITH observed twins: for every well-formed source net,
    whatever ElfiModel.generate returns through compile (OutputCompiler, ObservedCompiler, the
    stochastic check, the three instruction compilers, the reduction) -> load (observed data,
    runtime nodes, supplied values) -> execute is the user-level dataflow meaning [den_name] of the
    requested node or observed twin. *)
From Coq Require Import List String Ascii ZArith Arith Bool Lia.
From Elfi Require Import Graph.Net Graph.Denote Proofs.C03_Exec Proofs.C03_Compile Proofs.C03_Ancestors
     Proofs.C02_Order Proofs.C05_Pool Proofs.C05_Cache Proofs.C03_EndToEnd.
Import ListNotations.

(** ---- strings: twin names ---- *)
Lemma str_app_length a b : String.length (String.append a b) = String.length a + String.length b.
Proof. induction a as [|c a IH]; simpl; [reflexivity | now rewrite IH]. Qed.

Lemma str_app_inj_r s : forall a b, String.append a s = String.append b s -> a = b.
Proof.
  induction a as [|c a IH]; intros [|d b] H; simpl in H.
  - reflexivity.
  - exfalso. apply (f_equal String.length) in H. simpl in H. rewrite str_app_length in H. lia.
  - exfalso. apply (f_equal String.length) in H. simpl in H. rewrite str_app_length in H. lia.
  - inversion H. f_equal. now apply IH.
Qed.

Lemma observed_name_inj a b : observed_name a = observed_name b -> a = b.
Proof. unfold observed_name. simpl. intros H. inversion H as [H1]. now apply str_app_inj_r in H1. Qed.

Lemma observed_name_length n : String.length (observed_name n) = String.length n + 10.
Proof. unfold observed_name. simpl. rewrite str_app_length. simpl. lia. Qed.

Lemma observed_name_not_reserved n : ~ In (observed_name n) inames.
Proof.
  unfold inames. cbn [In]. intros [H|[H|[H|[]]]];
    pose proof (f_equal String.length H) as HL; rewrite observed_name_length in HL; simpl in HL.
  - destruct n as [|c1 [|c2 n']]; simpl in HL; try lia. unfold observed_name in H. simpl in H. discriminate.
  - lia.
  - destruct n as [|c1 [|c2 [|c3 [|c4 n']]]]; simpl in HL; try lia. unfold observed_name in H. simpl in H. discriminate.
Qed.

(** ---- small list facts ---- *)
Lemma fold_left_ext_in {A B} (f f' : A -> B -> A) : forall l,
  (forall a b, In b l -> f a b = f' a b) -> forall a, fold_left f l a = fold_left f' l a.
Proof.
  induction l as [|b r IH]; intros H a; simpl; [reflexivity|].
  rewrite (H a b (or_introl eq_refl)). apply IH. intros a' b' Hb. apply H. now right.
Qed.

Lemma flat_map_nil {A B} (f : A -> list B) l : (forall a, In a l -> f a = []) -> flat_map f l = [].
Proof.
  induction l as [|x r IH]; intros H; simpl; [reflexivity|].
  rewrite (H x (or_introl eq_refl)). apply IH. intros a Ha. apply H. now right.
Qed.

Lemma flat_map_single {B} (f : name -> list B) a : forall l,
  NoDup l -> In a l -> (forall b, In b l -> b <> a -> f b = []) -> flat_map f l = f a.
Proof.
  induction l as [|x r IH]; intros Hnd Hin H; [destruct Hin|].
  inversion Hnd as [|? ? Hx Hr]; subst. simpl.
  destruct (string_dec x a) as [->|Hne].
  - rewrite flat_map_nil; [apply app_nil_r|].
    intros b Hb. apply H; [now right|]. intros ->. contradiction.
  - rewrite (H x (or_introl eq_refl) Hne). simpl.
    apply IH; [exact Hr | destruct Hin as [Hin|Hin]; [contradiction | exact Hin] |].
    intros b Hb. apply H. now right.
Qed.

Lemma NoDup_map_inj_in {A B} (f : A -> B) : forall l,
  (forall a b, In a l -> In b l -> f a = f b -> a = b) -> NoDup l -> NoDup (map f l).
Proof.
  induction l as [|x r IH]; intros Hinj Hnd; simpl; [constructor|].
  inversion Hnd as [|? ? Hx Hr]; subst. constructor.
  - intros Hin. apply in_map_iff in Hin. destruct Hin as [y [Hy Hyr]].
    assert (y = x) by (apply Hinj; [now right | now left | exact Hy]). subst y. contradiction.
  - apply IH; [|exact Hr]. intros a b Ha Hb. apply Hinj; now right.
Qed.

Lemma mem_filter_in (P : name -> bool) l u : In u l -> mem u (filter P l) = P u.
Proof.
  intros Hin. destruct (P u) eqn:E.
  - apply mem_In. apply filter_In. auto.
  - destruct (mem u (filter P l)) eqn:Em; [|reflexivity].
    apply mem_In in Em. apply filter_In in Em. destruct Em. congruence.
Qed.

Lemma mem_app_single u l m : u <> m -> mem u (l ++ [m]) = mem u l.
Proof.
  intros Hne. unfold mem. rewrite existsb_app. simpl.
  apply String.eqb_neq in Hne. rewrite Hne. now rewrite !orb_false_r.
Qed.

(** ---- predecessors ---- *)
Lemma preds_cons e r x :
  preds (e :: r) x = (if String.eqb x (e_dst e) then [(e_src e, e_par e)] else []) ++ preds r x.
Proof. unfold preds. simpl. destruct (String.eqb x (e_dst e)); reflexivity. Qed.

Lemma preds_none es x : (forall e, In e es -> e_dst e <> x) -> preds es x = [].
Proof.
  induction es as [|e r IH]; intros H; [reflexivity|]. rewrite preds_cons.
  assert (E : String.eqb x (e_dst e) = false).
  { apply String.eqb_neq. intros Heq. apply (H e (or_introl eq_refl)). now symmetry. }
  rewrite E. simpl. apply IH. intros e' He'. apply H. now right.
Qed.

Lemma preds_flat_map {A} (f : A -> list edge) x : forall l,
  preds (flat_map f l) x = flat_map (fun a => preds (f a) x) l.
Proof. induction l as [|a r IH]; simpl; [reflexivity|]. now rewrite preds_app, IH. Qed.

Lemma preds_In es n u p : In (u, p) (preds es n) -> In (u, n, p) es.
Proof.
  unfold preds. intros H. apply in_map_iff in H. destruct H as [[[a b] c] [Heq Hin]].
  apply filter_In in Hin. destruct Hin as [Hin Hd]. unfold e_src, e_dst, e_par in *. simpl in *.
  apply String.eqb_eq in Hd. inversion Heq; subst. exact Hin.
Qed.

Lemma In_preds es n u p : In (u, n, p) es -> In (u, p) (preds es n).
Proof.
  intros H. unfold preds. apply in_map_iff. exists (u, n, p). split; [reflexivity|].
  apply filter_In. split; [exact H|]. unfold e_dst. simpl. apply String.eqb_refl.
Qed.

Lemma preds_nodup es n : NoDup (map fst es) -> NoDup (map fst (preds es n)).
Proof.
  induction es as [|e r IH]; intros Hnd; [constructor|].
  simpl in Hnd. inversion Hnd as [|? ? He Hr]; subst. rewrite preds_cons.
  destruct (String.eqb n (e_dst e)) eqn:E; simpl; [|now apply IH].
  constructor; [|now apply IH].
  intros Hin. apply in_map_iff in Hin. destruct Hin as [[u p] [Hu Hup]]. simpl in Hu. subst u.
  apply preds_In in Hup. apply String.eqb_eq in E. apply He.
  apply in_map_iff. exists (e_src e, n, p). split; [|exact Hup].
  destruct e as [[a b] c]. unfold e_src, e_dst in *. simpl in *. now subst.
Qed.

(** ---- the well-formed source nets ---- *)
Definition flagged (st : sstate) : bool := s_observable st || s_uses_observed st.

Record wfsrc (src : snet) : Prop := {
  wf_nodup : NoDup (map fst (s_nodes src));
  wf_edges : forall e, In e (s_edges src) -> has (e_src e) (s_nodes src) = true /\ has (e_dst e) (s_nodes src) = true;
  wf_edge_nodup : NoDup (map fst (s_edges src));
  wf_reserved : forall n, In n inames -> has n (s_nodes src) = false;
  wf_obs_output : forall n st, In (n, st) (s_nodes src) -> s_observable st = true -> s_output st = None;
  wf_observed_nodup : NoDup (map fst (s_observed src));
  wf_observed_nodes : forall k, In k (map fst (s_observed src)) -> flag src s_observable k = true
}.

(** ---- the edges and nodes the ObservedCompiler adds for one node ---- *)
Definition copied (src : snet) (n : name) : list edge :=
  map (fun pp : name * param => (link src (fst pp), observed_name n, snd pp)) (preds (s_edges src) n).

Definition twin_edges_st (src : snet) (n : name) (st : sstate) : list edge :=
  (if negb (s_observable st) && s_uses_observed st then [(observed_name n, n, PStr "observed"%string)] else [])
  ++ (if flagged st && negb (s_stochastic st) then copied src n else []).

Definition twin_edges_of (src : snet) (n : name) : list edge :=
  match lookup n (s_nodes src) with Some st => twin_edges_st src n st | None => [] end.

Definition twin_cnode (st : sstate) : cnode :=
  {| c_out := None; c_op := Some (if s_observable st then OpUser (s_opid st) else OpTuple) |}.

Definition linked (src : snet) (ps : list (name * param)) : list (name * param) :=
  map (fun pp : name * param => (link src (fst pp), snd pp)) ps.

Lemma preds_copied src n x :
  preds (copied src n) x = if String.eqb x (observed_name n) then linked src (preds (s_edges src) n) else [].
Proof.
  unfold copied, linked. generalize (preds (s_edges src) n) as l.
  induction l as [|[u p] r IH]; [now destruct (String.eqb x (observed_name n))|].
  cbn [map]. rewrite preds_cons, IH. unfold e_dst, e_src, e_par. cbn [fst snd].
  destruct (String.eqb x (observed_name n)); reflexivity.
Qed.

(** ---- adding a run of fresh edges into one node ---- *)
Definition link_step (lk : name -> name) (tw : name) (g1 : cnet) (pp : name * param) : cnet :=
  add_cedge (lk (fst pp)) tw (snd pp) g1.

Lemma copy_fold_edges (lk : name -> name) tw : forall l g,
  NoDup (map (fun pp : name * param => lk (fst pp)) l) ->
  (forall e, In e (c_edges g) -> e_dst e = tw -> ~ In (e_src e) (map (fun pp : name * param => lk (fst pp)) l)) ->
  c_edges (fold_left (link_step lk tw) l g)
  = c_edges g ++ map (fun pp : name * param => (lk (fst pp), tw, snd pp)) l.
Proof.
  induction l as [|[u p] r IH]; intros g Hnd Hf; simpl; [now rewrite app_nil_r|].
  simpl in Hnd. inversion Hnd as [|? ? Hu Hr]; subst.
  assert (Hadd : c_edges (link_step lk tw g (u, p)) = c_edges g ++ [(lk u, tw, p)]).
  { unfold link_step. cbn [fst snd]. rewrite c_edges_add_cedge. apply add_edge_fresh.
    intros e He [H1 H2]. apply (Hf e He H2). left. now rewrite H1. }
  rewrite IH; [rewrite Hadd, <- app_assoc; reflexivity | exact Hr |].
  intros e He Hd. rewrite Hadd in He. apply in_app_iff in He. destruct He as [He|[<-|[]]].
  - intros Hin. apply (Hf e He Hd). now right.
  - exact Hu.
Qed.

Lemma copy_fold_lookup (lk : name -> name) tw m : forall l g, has m (c_nodes g) = true ->
  lookup m (c_nodes (fold_left (link_step lk tw) l g)) = lookup m (c_nodes g).
Proof.
  induction l as [|pp r IH]; intros g H; simpl; [reflexivity|].
  unfold link_step at 2. rewrite IH; [now apply add_cedge_lookup|].
  unfold has. now rewrite add_cedge_lookup.
Qed.

Lemma copy_fold_observed (lk : name -> name) tw : forall l g,
  c_observed (fold_left (link_step lk tw) l g) = c_observed g.
Proof.
  induction l as [|pp r IH]; intros g; simpl; [reflexivity|]. rewrite IH. apply add_cedge_observed.
Qed.

Lemma topo_order_NoDup src : NoDup (map fst (s_nodes src)) -> NoDup (topo_order src).
Proof.
  intros H. apply NoDup_incl_NoDup with (l := map fst (s_nodes src)); [exact H | |].
  - rewrite topo_order_length, map_length. lia.
  - intros x. apply topo_order_In_rev.
Qed.

(** ---- OutputCompiler / make_observed_copy ---- *)
Lemma compiled_has : forall ns cn m,
  Forall2 (fun (a : name * sstate) (b : name * cnode) => fst a = fst b /\ compiled_as (fst a) (snd a) (snd b)) ns cn ->
  has m cn = has m ns.
Proof.
  intros ns cn m H. unfold has. induction H as [|[n s] [n' c] ns cn [Hn _] _ IH]; simpl; [reflexivity|].
  simpl in Hn. subst n'. destruct (String.eqb m n); [reflexivity | exact IH].
Qed.

Lemma make_observed_copy_inv n op g g1 :
  make_observed_copy n op g = Ok g1 ->
  has (observed_name n) (c_nodes g) = false
  /\ exists c, g1 = add_node (observed_name n) c g
       /\ match op with None => lookup n (c_nodes g) = Some c | Some o => c = {| c_out := None; c_op := Some o |} end.
Proof.
  unfold make_observed_copy. destruct (has (observed_name n) (c_nodes g)); [discriminate|].
  destruct op as [o|].
  - intros H. inversion H. split; [reflexivity|]. eexists. split; reflexivity.
  - destruct (lookup n (c_nodes g)) as [c|]; [|discriminate]. intros H. inversion H.
    split; [reflexivity|]. exists c. auto.
Qed.

Lemma flag_true src f n : flag src f n = true -> exists st, lookup n (s_nodes src) = Some st /\ f st = true.
Proof. unfold flag, sstate_of. destruct (lookup n (s_nodes src)) as [st|]; [eauto | discriminate]. Qed.

Lemma flag_lookup src f n st : lookup n (s_nodes src) = Some st -> flag src f n = f st.
Proof. unfold flag, sstate_of. now intros ->. Qed.

(** ---- ObservedCompiler: the loop invariant ---- *)
Section CompObs.
  Variables (src : snet) (cn : list (name * cnode)).
  Hypothesis Hwf : wfsrc src.
  Hypothesis Hcn : compile_outputs (s_nodes src) = Ok cn.

  Lemma has_cn m : has m cn = has m (s_nodes src).
  Proof. apply compiled_has. now apply compile_outputs_spec. Qed.

  Lemma lookup_has_cn m st : lookup m (s_nodes src) = Some st -> has m cn = true.
  Proof. intros H. rewrite has_cn. unfold has. now rewrite H. Qed.

  Record CO (done : list name) (g : cnet) : Prop := {
    co_edges : c_edges g = s_edges src ++ flat_map (twin_edges_of src) done;
    co_src : forall m, has m cn = true -> lookup m (c_nodes g) = lookup m cn;
    co_twin : forall n st, In n done -> lookup n (s_nodes src) = Some st -> flagged st = true ->
              lookup (observed_name n) (c_nodes g) = Some (twin_cnode st) /\ has (observed_name n) cn = false;
    co_observed : c_observed g = s_observed src
  }.

  Lemma twin_edges_in n e : In e (twin_edges_of src n) ->
    exists st, lookup n (s_nodes src) = Some st /\ flagged st = true /\
      (e = (observed_name n, n, PStr "observed"%string)
       \/ exists u p, In (u, p) (preds (s_edges src) n) /\ e = (link src u, observed_name n, p)).
  Proof.
    unfold twin_edges_of. destruct (lookup n (s_nodes src)) as [st|]; [|intros []].
    unfold twin_edges_st. intros H. exists st. split; [reflexivity|].
    apply in_app_iff in H. destruct H as [H|H].
    - destruct (negb (s_observable st) && s_uses_observed st) eqn:E; [|destruct H].
      destruct H as [<-|[]]. split; [|now left]. unfold flagged.
      apply andb_true_iff in E. destruct E as [_ ->]. apply orb_true_r.
    - destruct (flagged st && negb (s_stochastic st)) eqn:E; [|destruct H].
      apply andb_true_iff in E. destruct E as [E _]. split; [exact E|]. right.
      unfold copied in H. apply in_map_iff in H. destruct H as [[u p] [<- Hin]]. exists u, p. auto.
  Qed.

  Lemma parent_is_node n u p : In (u, p) (preds (s_edges src) n) -> has u (s_nodes src) = true.
  Proof. intros H. apply preds_In in H. exact (proj1 (wf_edges _ Hwf _ H)). Qed.

  Definition obs_g1 (m : name) (st : sstate) (g : cnet) : cnet := add_node (observed_name m) (twin_cnode st) g.
  Definition obs_g1' (m : name) (st : sstate) (g : cnet) : cnet :=
    if s_observable st then obs_g1 m st g
    else add_cedge (observed_name m) m (PStr "observed"%string) (obs_g1 m st g).
  Definition obs_g2 (m : name) (st : sstate) (g : cnet) : cnet :=
    if s_stochastic st then obs_g1' m st g
    else fold_left (link_step (link src) (observed_name m)) (preds (s_edges src) m) (obs_g1' m st g).

  Lemma link_nodup done g m :
    CO done g -> (forall u p, In (u, p) (preds (s_edges src) m) -> In u done) ->
    NoDup (map (fun pp : name * param => link src (fst pp)) (preds (s_edges src) m)).
  Proof.
    intros HC Hpar. rewrite <- (map_map fst (link src)).
    apply NoDup_map_inj_in; [|apply preds_nodup; exact (wf_edge_nodup _ Hwf)].
    assert (Hmix : forall a b, In a (map fst (preds (s_edges src) m)) -> In b (map fst (preds (s_edges src) m)) ->
                   flag src s_observable a = true -> observed_name a = b -> False).
    { intros a b Ha Hb Fa Heq.
      apply in_map_iff in Ha. destruct Ha as [[a' pa] [Ea Ha]]. simpl in Ea. subst a'.
      apply in_map_iff in Hb. destruct Hb as [[b' pb] [Eb Hb]]. simpl in Eb. subst b'.
      destruct (flag_true _ _ _ Fa) as [sa [Hla Hoa]].
      assert (Hfa : flagged sa = true) by (unfold flagged; now rewrite Hoa).
      destruct (co_twin _ _ HC a sa (Hpar _ _ Ha) Hla Hfa) as [_ H].
      pose proof (parent_is_node _ _ _ Hb) as H2. rewrite <- has_cn, <- Heq in H2. congruence. }
    intros a b Ha Hb Heq. unfold link in Heq.
    destruct (flag src s_observable a) eqn:Fa; destruct (flag src s_observable b) eqn:Fb.
    - now apply observed_name_inj.
    - exfalso. exact (Hmix a b Ha Hb Fa Heq).
    - exfalso. exact (Hmix b a Hb Ha Fb (eq_sym Heq)).
    - exact Heq.
  Qed.

  Lemma observed_step done g m st :
    CO done g -> ~ In m done -> lookup m (s_nodes src) = Some st -> flagged st = true ->
    (forall u p, In (u, p) (preds (s_edges src) m) -> In u done) ->
    has (observed_name m) (c_nodes g) = false ->
    CO (done ++ [m]) (obs_g2 m st g).
  Proof.
    intros HC Hm Hl Hfl Hpar Hfresh.
    set (om := observed_name m) in *.
    assert (Hm_cn : has m cn = true) by (eapply lookup_has_cn; eauto).
    assert (Hom_cn : has om cn = false).
    { destruct (has om cn) eqn:E; [|reflexivity]. pose proof (co_src _ _ HC om E) as H.
      unfold has in Hfresh, E. rewrite H in Hfresh. congruence. }
    assert (Hom_m : om <> m) by (intros Heq; rewrite Heq in Hom_cn; congruence).
    assert (Hdst : forall e, In e (c_edges g) -> e_dst e <> om).
    { intros e He Heq. rewrite (co_edges _ _ HC) in He. apply in_app_iff in He. destruct He as [He|He].
      - destruct (wf_edges _ Hwf e He) as [_ H2]. rewrite Heq, <- has_cn, Hom_cn in H2. discriminate.
      - apply in_flat_map in He. destruct He as [n [Hn He]]. apply twin_edges_in in He.
        destruct He as [st' [Hl' [Hfl' [->|[u [p [_ ->]]]]]]]; unfold e_dst in Heq; simpl in Heq.
        + pose proof (lookup_has_cn _ _ Hl') as H. rewrite Heq in H. congruence.
        + apply observed_name_inj in Heq. subst n. contradiction. }
    assert (Hobs : forall e, In e (c_edges g) -> ~ (e_src e = om /\ e_dst e = m)).
    { intros e He [H1 H2]. rewrite (co_edges _ _ HC) in He. apply in_app_iff in He. destruct He as [He|He].
      - destruct (wf_edges _ Hwf e He) as [H3 _]. rewrite H1, <- has_cn, Hom_cn in H3. discriminate.
      - apply in_flat_map in He. destruct He as [n [Hn He]]. apply twin_edges_in in He.
        destruct He as [st' [Hl' [Hfl' [->|[u [p [_ ->]]]]]]]; unfold e_dst in H2; simpl in H2.
        + subst n. contradiction.
        + destruct (co_twin _ _ HC n st' Hn Hl' Hfl') as [_ H]. rewrite H2 in H. congruence. }
    (* edges *)
    assert (E1 : c_edges (obs_g1' m st g)
                 = c_edges g ++ (if negb (s_observable st) && s_uses_observed st then [(om, m, PStr "observed"%string)] else [])).
    { unfold obs_g1'. destruct (s_observable st) eqn:Eo; cbn [negb andb].
      - unfold obs_g1. simpl. now rewrite app_nil_r.
      - unfold flagged in Hfl. rewrite Eo in Hfl. simpl in Hfl. rewrite Hfl.
        rewrite c_edges_add_cedge. change (c_edges (obs_g1 m st g)) with (c_edges g).
        apply add_edge_fresh. exact Hobs. }
    assert (Hdst' : forall e, In e (c_edges (obs_g1' m st g)) -> e_dst e <> om).
    { intros e He. rewrite E1 in He. apply in_app_iff in He. destruct He as [He|He]; [now apply Hdst|].
      destruct (negb (s_observable st) && s_uses_observed st); [|destruct He].
      destruct He as [<-|[]]. unfold e_dst. cbn [fst snd]. intros Heq. apply Hom_m. now symmetry. }
    assert (E2 : c_edges (obs_g2 m st g)
                 = c_edges (obs_g1' m st g) ++ (if flagged st && negb (s_stochastic st) then copied src m else [])).
    { unfold obs_g2. rewrite Hfl. destruct (s_stochastic st); simpl; [now rewrite app_nil_r|].
      rewrite copy_fold_edges; [reflexivity | eapply link_nodup; eauto |].
      intros e He Hd. exfalso. exact (Hdst' e He Hd). }
    (* nodes *)
    assert (Hg1 : forall x, x <> om -> lookup x (c_nodes (obs_g1 m st g)) = lookup x (c_nodes g)).
    { intros x Hx. unfold obs_g1. apply lookup_add_node_other. intros Heq. apply Hx. symmetry. exact Heq. }
    assert (Hk1 : forall x, has x (c_nodes (obs_g1 m st g)) = true ->
                  lookup x (c_nodes (obs_g1' m st g)) = lookup x (c_nodes (obs_g1 m st g))).
    { intros x Hx. unfold obs_g1'. destruct (s_observable st); [reflexivity | now apply add_cedge_lookup]. }
    assert (Hk2 : forall x, has x (c_nodes (obs_g1 m st g)) = true ->
                  lookup x (c_nodes (obs_g2 m st g)) = lookup x (c_nodes (obs_g1 m st g))).
    { intros x Hx. unfold obs_g2. destruct (s_stochastic st); [now apply Hk1|].
      rewrite copy_fold_lookup; [now apply Hk1|]. unfold has. rewrite Hk1 by exact Hx. exact Hx. }
    assert (Hsame : lookup om (c_nodes (obs_g1 m st g)) = Some (twin_cnode st)) by apply lookup_add_node_same.
    constructor.
    - assert (Hm_tw : twin_edges_of src m = twin_edges_st src m st) by (unfold twin_edges_of; now rewrite Hl).
      rewrite E2, E1, (co_edges _ _ HC), flat_map_app. cbn [flat_map]. rewrite Hm_tw.
      unfold twin_edges_st. rewrite app_nil_r, <- !app_assoc. reflexivity.
    - intros x Hx. assert (Hne : x <> om) by (intros ->; congruence).
      rewrite Hk2; [rewrite Hg1 by exact Hne; now apply (co_src _ _ HC)|].
      unfold has. rewrite Hg1 by exact Hne. rewrite (co_src _ _ HC x Hx). exact Hx.
    - intros n st' Hn Hl' Hfl'. apply in_app_iff in Hn. destruct Hn as [Hn|[<-|[]]].
      + destruct (co_twin _ _ HC n st' Hn Hl' Hfl') as [H1 H2]. split; [|exact H2].
        assert (Hne : observed_name n <> om).
        { intros Heq. rewrite Heq in H1. unfold has in Hfresh. rewrite H1 in Hfresh. discriminate. }
        rewrite Hk2; [rewrite Hg1 by exact Hne; exact H1|].
        unfold has. rewrite Hg1 by exact Hne. now rewrite H1.
      + assert (st' = st) by congruence. subst st'. split; [|exact Hom_cn].
        rewrite Hk2; [exact Hsame|]. unfold has. fold om. now rewrite Hsame.
    - unfold obs_g2, obs_g1', obs_g1.
      destruct (s_stochastic st); destruct (s_observable st);
        rewrite ?copy_fold_observed, ?add_cedge_observed; simpl; exact (co_observed _ _ HC).
  Qed.

  Lemma CO_skip done g m st :
    CO done g -> lookup m (s_nodes src) = Some st -> flagged st = false -> CO (done ++ [m]) g.
  Proof.
    intros HC Hl Hfl. constructor.
    - assert (Hm_tw : twin_edges_of src m = []).
      { unfold twin_edges_of. rewrite Hl. unfold twin_edges_st. rewrite Hfl.
        unfold flagged in Hfl. apply orb_false_iff in Hfl. destruct Hfl as [_ ->].
        now rewrite andb_false_r. }
      rewrite (co_edges _ _ HC), flat_map_app. cbn [flat_map]. now rewrite Hm_tw, !app_nil_r.
    - exact (co_src _ _ HC).
    - intros n st' Hn Hl' Hfl'. apply in_app_iff in Hn. destruct Hn as [Hn|[<-|[]]].
      + exact (co_twin _ _ HC n st' Hn Hl' Hfl').
      + congruence.
    - exact (co_observed _ _ HC).
  Qed.

  Lemma copy_observed_edges_link obl m g :
    (forall u p, In (u, p) (preds (s_edges src) m) -> mem u obl = flag src s_observable u) ->
    copy_observed_edges src obl m g
    = fold_left (link_step (link src) (observed_name m)) (preds (s_edges src) m) g.
  Proof.
    intros H. unfold copy_observed_edges. apply fold_left_ext_in. intros a [u p] Hin.
    unfold link_step. cbn [fst snd]. rewrite (H u p Hin). reflexivity.
  Qed.

  Lemma compile_observed_spec : forall rest done g obl us g' obl' us',
    CO done g -> NoDup (done ++ rest) ->
    obl = filter (flag src s_observable) done ->
    (forall n, In n rest -> forall u p, In (u, p) (preds (s_edges src) n) -> In u (firstn_before n (done ++ rest))) ->
    compile_observed src rest obl us g = Ok (g', obl', us') -> CO (done ++ rest) g'.
  Proof.
    induction rest as [|m r IH]; intros done g obl us g' obl' us' HC Hnd Hobl Htop H.
    - simpl in H. inversion H; subst. now rewrite app_nil_r.
    - assert (Hm : ~ In m done).
      { apply NoDup_remove_2 in Hnd. intros Hin. apply Hnd. apply in_app_iff. now left. }
      assert (Hpar : forall u p, In (u, p) (preds (s_edges src) m) -> In u done).
      { intros u p Hup. specialize (Htop m (or_introl eq_refl) u p Hup).
        now rewrite firstn_before_fresh in Htop. }
      assert (Happ : done ++ m :: r = (done ++ [m]) ++ r) by (rewrite <- app_assoc; reflexivity).
      assert (Hmem : forall u p, In (u, p) (preds (s_edges src) m) -> mem u obl = flag src s_observable u).
      { intros u p Hup. subst obl. apply mem_filter_in. eauto. }
      assert (Hne : forall u p, In (u, p) (preds (s_edges src) m) -> u <> m).
      { intros u p Hup ->. apply Hm. eauto. }
      assert (Htop' : forall n, In n r -> forall u p, In (u, p) (preds (s_edges src) n) ->
                      In u (firstn_before n ((done ++ [m]) ++ r))).
      { intros n Hn. rewrite <- Happ. apply Htop. now right. }
      simpl in H. destruct (lookup m (s_nodes src)) as [st|] eqn:Hl; [|discriminate].
      rewrite Happ in Hnd |- *.
      destruct (s_observable st) eqn:Eo.
      + destruct (make_observed_copy m None g) as [g1|] eqn:Em; simpl in H; [|discriminate].
        destruct (make_observed_copy_inv _ _ _ _ Em) as [Hfresh [c [-> Hc]]].
        assert (Hfl : flagged st = true) by (unfold flagged; now rewrite Eo).
        assert (Hctw : c = twin_cnode st).
        { rewrite (co_src _ _ HC m (lookup_has_cn _ _ Hl)) in Hc.
          destruct (compiled_lookup _ _ m st (compile_outputs_spec _ _ Hcn) Hl) as [c0 [Hc0 Hcomp]].
          assert (c0 = c) by congruence. subst c0.
          pose proof (wf_obs_output _ Hwf m st (lookup_In_pair _ _ _ Hl) Eo) as Hout.
          destruct Hcomp as [[v [H1 _]]|[_ [_ ->]]]; [congruence|]. unfold twin_cnode. now rewrite Eo. }
        subst c.
        assert (Hg2 : (if s_stochastic st then add_node (observed_name m) (twin_cnode st) g
                       else copy_observed_edges src (obl ++ [m]) m (add_node (observed_name m) (twin_cnode st) g))
                      = obs_g2 m st g).
        { unfold obs_g2, obs_g1', obs_g1. rewrite Eo. destruct (s_stochastic st); [reflexivity|].
          apply copy_observed_edges_link. intros u p Hup. rewrite mem_app_single by eauto. eauto. }
        rewrite Hg2 in H.
        eapply IH; [ | exact Hnd | | exact Htop' | exact H].
        * now apply observed_step.
        * rewrite filter_app. simpl. rewrite (flag_lookup _ _ _ _ Hl), Eo. now subst obl.
      + destruct (s_uses_observed st) eqn:Eu.
        * destruct (make_observed_copy m (Some OpTuple) g) as [g1|] eqn:Em; simpl in H; [|discriminate].
          destruct (make_observed_copy_inv _ _ _ _ Em) as [Hfresh [c [-> Hc]]].
          assert (Hfl : flagged st = true) by (unfold flagged; now rewrite Eu, orb_true_r).
          assert (Hctw : c = twin_cnode st) by (rewrite Hc; unfold twin_cnode; now rewrite Eo).
          clear Hc. subst c.
          assert (Hg2 : (if s_stochastic st
                         then add_cedge (observed_name m) m (PStr "observed"%string) (add_node (observed_name m) (twin_cnode st) g)
                         else copy_observed_edges src obl m
                                (add_cedge (observed_name m) m (PStr "observed"%string) (add_node (observed_name m) (twin_cnode st) g)))
                        = obs_g2 m st g).
          { unfold obs_g2, obs_g1', obs_g1. rewrite Eo. destruct (s_stochastic st); [reflexivity|].
            apply copy_observed_edges_link. exact Hmem. }
          rewrite Hg2 in H.
          eapply IH; [ | exact Hnd | | exact Htop' | exact H].
          -- now apply observed_step.
          -- rewrite filter_app. simpl. rewrite (flag_lookup _ _ _ _ Hl), Eo, app_nil_r. exact Hobl.
        * eapply IH; [ | exact Hnd | | exact Htop' | exact H].
          -- eapply CO_skip; eauto. unfold flagged. now rewrite Eo, Eu.
          -- rewrite filter_app. simpl. rewrite (flag_lookup _ _ _ _ Hl), Eo, app_nil_r. exact Hobl.
  Qed.

  Lemma CO_init outs : CO [] (G0 src cn outs).
  Proof.
    constructor; simpl; [now rewrite app_nil_r | reflexivity | intros ? ? [] | reflexivity].
  Qed.
End CompObs.

(** ---- the three instruction compilers over any net whose edges do not leave a reserved node ---- *)
Definition G4of (src : snet) (g : cnet) : cnet :=
  compile_instruction src s_stochastic "_random_state"%string
    (compile_instruction src s_uses_meta "_meta"%string
       (compile_instruction src s_uses_batch_size "_batch_size"%string g)).

Lemma instr_edges_src fl i l e : In e (instr_edges_of fl i l) -> e_src e = i.
Proof.
  unfold instr_edges_of. intros He. apply in_flat_map in He. destruct He as [ns [_ He]].
  destruct (fl (snd ns)); [|destruct He]. destruct He as [<-|[]]. reflexivity.
Qed.

Lemma compile_instruction_edges_fresh src fl inode g :
  NoDup (map fst (s_nodes src)) -> (forall e, In e (c_edges g) -> e_src e <> inode) ->
  c_edges (compile_instruction src fl inode g) = c_edges g ++ instr_edges_of fl inode (s_nodes src).
Proof.
  intros Hnd H. rewrite compile_instruction_fold. apply instr_fold_edges; [exact Hnd|].
  intros e He Hs. exfalso. exact (H e He Hs).
Qed.

Lemma G4of_edges src g :
  NoDup (map fst (s_nodes src)) -> (forall e, In e (c_edges g) -> ~ In (e_src e) inames) ->
  c_edges (G4of src g) =
  ((c_edges g ++ instr_edges_of s_uses_batch_size "_batch_size"%string (s_nodes src))
   ++ instr_edges_of s_uses_meta "_meta"%string (s_nodes src))
  ++ instr_edges_of s_stochastic "_random_state"%string (s_nodes src).
Proof.
  intros Hnd H. unfold G4of.
  assert (Hg : forall e i, In e (c_edges g) -> In i inames -> e_src e <> i).
  { intros e i He Hi Heq. apply (H e He). now rewrite Heq. }
  set (g2 := compile_instruction src s_uses_batch_size "_batch_size"%string g).
  assert (E2 : c_edges g2 = c_edges g ++ instr_edges_of s_uses_batch_size "_batch_size"%string (s_nodes src)).
  { apply compile_instruction_edges_fresh; [exact Hnd|]. intros e He. apply Hg; [exact He | simpl; tauto]. }
  set (g3 := compile_instruction src s_uses_meta "_meta"%string g2).
  assert (E3 : c_edges g3 = c_edges g2 ++ instr_edges_of s_uses_meta "_meta"%string (s_nodes src)).
  { apply compile_instruction_edges_fresh; [exact Hnd|]. intros e He. rewrite E2 in He.
    apply in_app_iff in He. destruct He as [He|He]; [apply Hg; [exact He | simpl; tauto]|].
    apply instr_edges_src in He. rewrite He. discriminate. }
  rewrite compile_instruction_edges_fresh; [now rewrite E3, E2 | exact Hnd |].
  intros e He. rewrite E3, E2 in He.
  apply in_app_iff in He. destruct He as [He|He]; [|apply instr_edges_src in He; rewrite He; discriminate].
  apply in_app_iff in He. destruct He as [He|He]; [apply Hg; [exact He | simpl; tauto]|].
  apply instr_edges_src in He. rewrite He. discriminate.
Qed.

Lemma G4of_lookup src g m : has m (c_nodes g) = true -> lookup m (c_nodes (G4of src g)) = lookup m (c_nodes g).
Proof.
  intros H. unfold G4of. rewrite !compile_instruction_fold.
  rewrite instr_fold_lookup; [rewrite instr_fold_lookup; [now rewrite instr_fold_lookup|]|].
  - unfold has. now rewrite instr_fold_lookup.
  - unfold has. rewrite instr_fold_lookup; [now rewrite instr_fold_lookup|].
    unfold has. now rewrite instr_fold_lookup.
Qed.

Lemma G4of_observed src g : c_observed (G4of src g) = c_observed g.
Proof. unfold G4of. now rewrite !compile_instruction_fold, !instr_fold_observed. Qed.

(** ---- ObservedLoader ---- *)
Definition obs_step (g1 : cnet) (nv : name * value) : cnet :=
  set_output (observed_name (fst nv)) (snd nv) true g1.

Lemma load_observed_fold g : load_observed g = fold_left obs_step (c_observed g) g.
Proof. reflexivity. Qed.

Lemma obs_fold_edges : forall l g, c_edges (fold_left obs_step l g) = c_edges g.
Proof.
  induction l as [|nv r IH]; intros g; simpl; [reflexivity|]. rewrite IH. apply set_output_edges.
Qed.

Lemma obs_fold_other m : forall l g,
  (forall k, In k (map fst l) -> observed_name k <> m) ->
  lookup m (c_nodes (fold_left obs_step l g)) = lookup m (c_nodes g).
Proof.
  induction l as [|[k v] r IH]; intros g H; simpl; [reflexivity|].
  rewrite IH; [|intros k' Hk'; apply H; now right].
  unfold obs_step. cbn [fst snd]. apply set_output_other. apply H. now left.
Qed.

Lemma obs_fold_same k v : forall l g c,
  NoDup (map fst l) -> lookup k l = Some v -> lookup (observed_name k) (c_nodes g) = Some c ->
  lookup (observed_name k) (c_nodes (fold_left obs_step l g)) = Some {| c_out := Some v; c_op := None |}.
Proof.
  induction l as [|[k' v'] r IH]; intros g c Hnd Hl Hc; [discriminate|].
  simpl in Hnd. inversion Hnd as [|? ? Hk Hr]; subst. cbn [lookup] in Hl. cbn [fold_left].
  destruct (String.eqb k k') eqn:E.
  - apply String.eqb_eq in E. subst k'. inversion Hl; subst v'.
    rewrite obs_fold_other.
    + unfold obs_step. cbn [fst snd]. eapply set_output_same. exact Hc.
    + intros k2 Hk2 Heq. apply observed_name_inj in Heq. subst k2. contradiction.
  - apply String.eqb_neq in E. eapply (IH _ c); [exact Hr | exact Hl |].
    unfold obs_step. cbn [fst snd]. rewrite set_output_other; [exact Hc|].
    intros Heq. apply observed_name_inj in Heq. congruence.
Qed.

(** ---- meaning of parent lists ---- *)
Lemma DenList_app_inv g : forall l1 l2 pvs, DenList g (l1 ++ l2) pvs ->
  exists p1 p2, pvs = p1 ++ p2 /\ DenList g l1 p1 /\ DenList g l2 p2.
Proof.
  induction l1 as [|[u p] r IH]; intros l2 pvs H; simpl in H.
  - exists [], pvs. repeat split; [constructor | exact H].
  - inversion H as [|u0 p0 r0 v rest Hd Hr]; subst.
    destruct (IH _ _ Hr) as [p1 [p2 [-> [H1 H2]]]].
    exists ((p, v) :: p1), p2. repeat split; [now constructor | exact H2].
Qed.

Lemma DenList_den_gen g (lk : name -> name) (D : name -> option value) : forall ps pvs,
  (forall u p, In (u, p) ps -> forall v, Den g (lk u) v -> D u = Some v) ->
  DenList g (map (fun pp : name * param => (lk (fst pp), snd pp)) ps) pvs ->
  all_some (map (fun pp : name * param => D (fst pp)) ps) = Some (map snd pvs)
  /\ map fst pvs = map snd ps.
Proof.
  induction ps as [|[u p] r IH]; intros pvs Hall H; simpl in H;
    inversion H as [|u0 p0 r0 v rest Hd Hr]; subst; simpl.
  - auto.
  - rewrite (Hall u p (or_introl eq_refl) v Hd).
    destruct (IH rest (fun u' p' Hin => Hall u' p' (or_intror Hin)) Hr) as [H1 H2].
    rewrite H1, H2. auto.
Qed.

Lemma map_pair_id {A B} (l : list (A * B)) : map (fun pp : A * B => (fst pp, snd pp)) l = l.
Proof. induction l as [|[a b] r IH]; simpl; [reflexivity | now rewrite IH]. Qed.

(** ---- the loaded net of a compiled well-formed source net ---- *)
Section Loaded.
  Variables (src : snet) (W : list (name * value)) (cn : list (name * cnode)) (g1 : cnet).
  Hypothesis Hwf : wfsrc src.
  Hypothesis HWnd : NoDup (map fst W).
  Hypothesis HWi : forall k, In k (map fst W) -> ~ In k inames.
  Hypothesis Hcn : compile_outputs (s_nodes src) = Ok cn.
  Hypothesis Htopo : topo_ok src = true.
  Hypothesis Hco : CO src cn (topo_order src) g1.

  Local Notation t := (topo_order src).
  Local Notation g4 := (G4of src g1).
  Local Notation gr := (compile_reduce (G4of src g1)).
  Local Notation lg := (load (wp W) (compile_reduce (G4of src g1))).
  Local Notation TW := (flat_map (twin_edges_of src) (topo_order src)).

  Lemma t_nodup : NoDup t.
  Proof. apply topo_order_NoDup. exact (wf_nodup _ Hwf). Qed.

  Lemma t_in n st : lookup n (s_nodes src) = Some st -> In n t.
  Proof. intros H. apply topo_order_In_rev. eapply lookup_key_In. exact H. Qed.

  Lemma t_lookup n : In n t -> exists st, lookup n (s_nodes src) = Some st.
  Proof. intros H. apply In_lookup. now apply topo_order_In. Qed.

  Lemma twin_fresh n st : lookup n (s_nodes src) = Some st -> flagged st = true ->
    has (observed_name n) (s_nodes src) = false.
  Proof.
    intros Hl Hfl. destruct (co_twin _ _ _ _ Hco n st (t_in _ _ Hl) Hl Hfl) as [_ H].
    now rewrite (has_cn _ _ Hcn) in H.
  Qed.

  Lemma twin_lookup_none n st : lookup n (s_nodes src) = Some st -> flagged st = true ->
    lookup (observed_name n) (s_nodes src) = None.
  Proof.
    intros Hl Hfl. pose proof (twin_fresh n st Hl Hfl) as H. unfold has in H.
    destruct (lookup (observed_name n) (s_nodes src)); [discriminate | reflexivity].
  Qed.

  Lemma src_ne_twin m n st : has m (s_nodes src) = true -> lookup n (s_nodes src) = Some st -> flagged st = true ->
    String.eqb m (observed_name n) = false.
  Proof.
    intros Hm Hl Hfl. apply String.eqb_neq. intros ->. rewrite (twin_fresh n st Hl Hfl) in Hm. discriminate.
  Qed.

  Lemma g1_edges : c_edges g1 = s_edges src ++ TW.
  Proof. exact (co_edges _ _ _ _ Hco). Qed.

  Lemma g1_not_reserved e : In e (c_edges g1) -> ~ In (e_src e) inames.
  Proof.
    rewrite g1_edges. intros He Hi. apply in_app_iff in He. destruct He as [He|He].
    - destruct (wf_edges _ Hwf e He) as [H _]. rewrite (wf_reserved _ Hwf _ Hi) in H. discriminate.
    - apply in_flat_map in He. destruct He as [n [_ He]]. apply twin_edges_in in He.
      destruct He as [st [_ [_ [->|[u [p [Hup ->]]]]]]]; unfold e_src in Hi; cbn [fst snd] in Hi.
      + exact (observed_name_not_reserved _ Hi).
      + unfold link in Hi. destruct (flag src s_observable u).
        * exact (observed_name_not_reserved _ Hi).
        * pose proof (parent_is_node _ Hwf _ _ _ Hup) as H. rewrite (wf_reserved _ Hwf _ Hi) in H. discriminate.
  Qed.

  Lemma g4_edges :
    c_edges g4 =
    (((s_edges src ++ TW) ++ instr_edges_of s_uses_batch_size "_batch_size"%string (s_nodes src))
     ++ instr_edges_of s_uses_meta "_meta"%string (s_nodes src))
    ++ instr_edges_of s_stochastic "_random_state"%string (s_nodes src).
  Proof. rewrite G4of_edges; [now rewrite g1_edges | exact (wf_nodup _ Hwf) | exact g1_not_reserved]. Qed.

  Lemma twin_edges_of_lookup n st : lookup n (s_nodes src) = Some st -> twin_edges_of src n = twin_edges_st src n st.
  Proof. intros H. unfold twin_edges_of. now rewrite H. Qed.

  Lemma preds_TW_src m st : lookup m (s_nodes src) = Some st ->
    preds TW m = if negb (s_observable st) && s_uses_observed st then [(observed_name m, PStr "observed"%string)] else [].
  Proof.
    intros Hl. assert (Hm : has m (s_nodes src) = true) by (unfold has; now rewrite Hl).
    rewrite preds_flat_map, (flat_map_single _ m); [ | exact t_nodup | exact (t_in _ _ Hl) | ].
    - rewrite (twin_edges_of_lookup _ _ Hl). unfold twin_edges_st. rewrite preds_app.
      match goal with |- _ ++ ?b = _ => assert (E2 : b = []) end.
      { destruct (flagged st && negb (s_stochastic st)) eqn:E; [|reflexivity].
        apply andb_true_iff in E. destruct E as [E _].
        now rewrite preds_copied, (src_ne_twin m m st Hm Hl E). }
      rewrite E2, app_nil_r.
      destruct (negb (s_observable st) && s_uses_observed st); [|reflexivity].
      now rewrite preds_single, String.eqb_refl.
    - intros b Hb Hne. destruct (t_lookup b Hb) as [sb Hlb].
      rewrite (twin_edges_of_lookup _ _ Hlb). unfold twin_edges_st. rewrite preds_app.
      match goal with |- ?a ++ _ = _ => assert (E1 : a = []) end.
      { destruct (negb (s_observable sb) && s_uses_observed sb); [|reflexivity].
        rewrite preds_single. assert (E : String.eqb m b = false) by (apply String.eqb_neq; congruence).
        now rewrite E. }
      rewrite E1. simpl.
      destruct (flagged sb && negb (s_stochastic sb)) eqn:E; [|reflexivity].
      apply andb_true_iff in E. destruct E as [E _].
      now rewrite preds_copied, (src_ne_twin m b sb Hm Hlb E).
  Qed.

  Lemma preds_TW_twin m st : lookup m (s_nodes src) = Some st -> flagged st = true ->
    preds TW (observed_name m) = if s_stochastic st then [] else linked src (preds (s_edges src) m).
  Proof.
    intros Hl Hfl. assert (Hm : has m (s_nodes src) = true) by (unfold has; now rewrite Hl).
    rewrite preds_flat_map, (flat_map_single _ m); [ | exact t_nodup | exact (t_in _ _ Hl) | ].
    - rewrite (twin_edges_of_lookup _ _ Hl). unfold twin_edges_st. rewrite preds_app.
      match goal with |- ?a ++ _ = _ => assert (E1 : a = []) end.
      { destruct (negb (s_observable st) && s_uses_observed st); [|reflexivity].
        rewrite preds_single.
        assert (E : String.eqb (observed_name m) m = false).
        { rewrite String.eqb_sym. exact (src_ne_twin m m st Hm Hl Hfl). }
        now rewrite E. }
      rewrite E1, Hfl. simpl. destruct (s_stochastic st); simpl; [reflexivity|].
      now rewrite preds_copied, String.eqb_refl.
    - intros b Hb Hne. destruct (t_lookup b Hb) as [sb Hlb].
      assert (Hbn : has b (s_nodes src) = true) by (unfold has; now rewrite Hlb).
      rewrite (twin_edges_of_lookup _ _ Hlb). unfold twin_edges_st. rewrite preds_app.
      match goal with |- ?a ++ _ = _ => assert (E1 : a = []) end.
      { destruct (negb (s_observable sb) && s_uses_observed sb); [|reflexivity].
        rewrite preds_single.
        assert (E : String.eqb (observed_name m) b = false).
        { rewrite String.eqb_sym. exact (src_ne_twin b m st Hbn Hl Hfl). }
        now rewrite E. }
      rewrite E1. simpl.
      destruct (flagged sb && negb (s_stochastic sb)); [|reflexivity].
      rewrite preds_copied.
      assert (E : String.eqb (observed_name m) (observed_name b) = false).
      { apply String.eqb_neq. intros Heq. apply observed_name_inj in Heq. congruence. }
      now rewrite E.
  Qed.

  Lemma g4_preds_src m st : lookup m (s_nodes src) = Some st ->
    preds (c_edges g4) m =
    preds (s_edges src) m
    ++ (if s_uses_observed st && negb (s_observable st) then [(observed_name m, PStr "observed"%string)] else [])
    ++ runtime_preds st.
  Proof.
    intros Hl. rewrite g4_edges, !preds_app, (preds_TW_src m st Hl).
    rewrite !(preds_instr_edges _ _ m _ (wf_nodup _ Hwf)), Hl.
    unfold runtime_preds. rewrite <- !app_assoc, (andb_comm (s_uses_observed st)). reflexivity.
  Qed.

  Lemma g4_preds_twin m st : lookup m (s_nodes src) = Some st -> flagged st = true ->
    preds (c_edges g4) (observed_name m) = if s_stochastic st then [] else linked src (preds (s_edges src) m).
  Proof.
    intros Hl Hfl. rewrite g4_edges, !preds_app, (preds_TW_twin m st Hl Hfl).
    rewrite !(preds_instr_edges _ _ (observed_name m) _ (wf_nodup _ Hwf)), (twin_lookup_none m st Hl Hfl).
    rewrite preds_none; [now rewrite !app_nil_r|].
    intros e He Heq. destruct (wf_edges _ Hwf e He) as [_ H].
    rewrite Heq, (twin_fresh m st Hl Hfl) in H. discriminate.
  Qed.

  (** nodes *)
  Lemma g1_src_lookup m st : lookup m (s_nodes src) = Some st ->
    exists c0, lookup m (c_nodes g1) = Some c0 /\ compiled_as m st c0.
  Proof.
    intros Hl. destruct (compiled_lookup _ _ m st (compile_outputs_spec _ _ Hcn) Hl) as [c0 [Hc0 Hcomp]].
    exists c0. split; [|exact Hcomp]. rewrite (co_src _ _ _ _ Hco m (lookup_has_cn _ _ Hcn _ _ Hl)). exact Hc0.
  Qed.

  Lemma gr_observed : c_observed gr = s_observed src.
  Proof. rewrite compile_reduce_fold, reduce_fold_observed, G4of_observed. exact (co_observed _ _ _ _ Hco). Qed.

  Lemma lg_edges : c_edges lg = c_edges gr.
  Proof. unfold load. now rewrite load_pool_edges, load_runtime_edges, load_observed_fold, obs_fold_edges. Qed.

  Lemma wp_nodup' : NoDup (map fst (wp W)).
  Proof. now rewrite wp_keys. Qed.

  Lemma lg_lookup m c : ~ In m inames -> lookup m (c_nodes lg) = Some c ->
    exists c1, lookup m (c_nodes gr) = Some c1
      /\ match lookup m W with
         | Some w => c = {| c_out := Some w; c_op := None |}
         | None => lookup m (c_nodes (load_observed gr)) = Some c
         end.
  Proof.
    intros Hni Hc. unfold load in Hc.
    rewrite (load_pool_lookup _ _ m wp_nodup'), lookup_wp, (load_runtime_other m _ Hni) in Hc.
    assert (Hex : has m (c_nodes (load_observed gr)) = true).
    { unfold has. destruct (lookup m W); destruct (lookup m (c_nodes (load_observed gr))); congruence. }
    rewrite has_load_observed in Hex. apply has_lookup in Hex. destruct Hex as [c1 Hc1].
    exists c1. split; [exact Hc1|].
    destruct (lookup m W); [|exact Hc].
    destruct (lookup m (c_nodes (load_observed gr))); [|discriminate]. now inversion Hc.
  Qed.

  Lemma source_not_reserved' m st : lookup m (s_nodes src) = Some st -> ~ In m inames.
  Proof.
    intros Hl Hi. pose proof (wf_reserved _ Hwf m Hi) as H. unfold has in H. now rewrite Hl in H.
  Qed.

  Lemma observed_key_state k : In k (map fst (s_observed src)) ->
    exists st, lookup k (s_nodes src) = Some st /\ s_observable st = true /\ flagged st = true.
  Proof.
    intros Hk. destruct (flag_true _ _ _ (wf_observed_nodes _ Hwf k Hk)) as [st [Hl Ho]].
    exists st. repeat split; auto. unfold flagged. now rewrite Ho.
  Qed.

  Lemma lg_source_node m st c :
    lookup m (s_nodes src) = Some st -> lookup m (c_nodes lg) = Some c ->
    preds (c_edges lg) m =
      preds (s_edges src) m
      ++ (if s_uses_observed st && negb (s_observable st) then [(observed_name m, PStr "observed"%string)] else [])
      ++ runtime_preds st
    /\ match lookup m W with
       | Some w => c = {| c_out := Some w; c_op := None |}
       | None => compiled_as m st c
       end.
  Proof.
    intros Hl Hc. assert (Hm : has m (s_nodes src) = true) by (unfold has; now rewrite Hl).
    destruct (lg_lookup m c (source_not_reserved' m st Hl) Hc) as [c1 [Hc1 Hcase]].
    destruct (reduce_node _ m c1 Hc1) as [H4 Hpreds].
    destruct (g1_src_lookup m st Hl) as [c0 [Hc0 Hcomp]].
    rewrite G4of_lookup in H4 by (unfold has; now rewrite Hc0).
    assert (c1 = c0) by congruence. subst c1.
    split.
    - rewrite lg_edges, Hpreds. now apply g4_preds_src.
    - destruct (lookup m W); [exact Hcase|].
      rewrite load_observed_fold, obs_fold_other, Hc1 in Hcase; [inversion Hcase; now subst|].
      rewrite gr_observed. intros k Hk Heq.
      destruct (observed_key_state k Hk) as [sk [Hlk [_ Hfk]]].
      pose proof (src_ne_twin m k sk Hm Hlk Hfk) as E. apply String.eqb_neq in E. congruence.
  Qed.

  Lemma lg_twin_node m st c :
    lookup m (s_nodes src) = Some st -> flagged st = true -> lookup (observed_name m) (c_nodes lg) = Some c ->
    preds (c_edges lg) (observed_name m) = (if s_stochastic st then [] else linked src (preds (s_edges src) m))
    /\ match lookup (observed_name m) W with
       | Some w => c = {| c_out := Some w; c_op := None |}
       | None =>
           match lookup m (s_observed src) with
           | Some v => s_observable st = true /\ c = {| c_out := Some v; c_op := None |}
           | None => c = twin_cnode st
           end
       end.
  Proof.
    intros Hl Hfl Hc.
    destruct (lg_lookup _ c (observed_name_not_reserved m) Hc) as [c1 [Hc1 Hcase]].
    destruct (reduce_node _ _ c1 Hc1) as [H4 Hpreds].
    destruct (co_twin _ _ _ _ Hco m st (t_in _ _ Hl) Hl Hfl) as [Htw _].
    rewrite G4of_lookup in H4 by (unfold has; now rewrite Htw).
    assert (c1 = twin_cnode st) by congruence. subst c1.
    split.
    - rewrite lg_edges, Hpreds. now apply g4_preds_twin.
    - destruct (lookup (observed_name m) W); [exact Hcase|].
      rewrite load_observed_fold, gr_observed in Hcase.
      destruct (lookup m (s_observed src)) as [v|] eqn:Eo.
      + rewrite (obs_fold_same m v _ _ _ (wf_observed_nodup _ Hwf) Eo Hc1) in Hcase.
        inversion Hcase. split; [|reflexivity].
        pose proof (wf_observed_nodes _ Hwf m (lookup_key_In _ _ _ Eo)) as H.
        now rewrite (flag_lookup _ _ _ _ Hl) in H.
      + rewrite obs_fold_other, Hc1 in Hcase; [now inversion Hcase|].
        intros k Hk Heq. apply observed_name_inj in Heq. subst k.
        apply lookup_None_iff in Eo. contradiction.
  Qed.

  Lemma lg_runtime_node i c : In i inames -> lookup i (c_nodes lg) = Some c -> c_out c = Some (runtime_value i).
  Proof.
    intros Hi Hc. unfold load in Hc. rewrite (load_pool_lookup _ _ i wp_nodup'), lookup_wp in Hc.
    assert (Hn : lookup i W = None).
    { apply lookup_None_iff. intros Hin. exact (HWi i Hin Hi). }
    rewrite Hn in Hc. now apply load_runtime_out in Hc.
  Qed.

  Lemma Den_runtime' i v : In i inames -> Den lg i v -> v = runtime_value i.
  Proof.
    intros Hi Hd. inversion Hd as [n c v0 Hl Ho|n c o pvs Hl Ho Hop Hps]; subst.
    - pose proof (lg_runtime_node i c Hi Hl). congruence.
    - pose proof (lg_runtime_node i c Hi Hl). congruence.
  Qed.

  Lemma DenList_runtime' st pvs : DenList lg (runtime_preds st) pvs ->
    pvs = (if s_uses_batch_size st then [(PStr "batch_size"%string, VBatch)] else [])
          ++ (if s_uses_meta st then [(PStr "meta"%string, VMeta)] else [])
          ++ (if s_stochastic st then [(PStr "random_state"%string, VRng)] else []).
  Proof.
    unfold runtime_preds. intros H.
    destruct (DenList_app_inv _ _ _ _ H) as [p1 [p23 [-> [H1 H23]]]].
    destruct (DenList_app_inv _ _ _ _ H23) as [p2 [p3 [-> [H2 H3]]]].
    assert (E1 : p1 = if s_uses_batch_size st then [(PStr "batch_size"%string, VBatch)] else []).
    { destruct (s_uses_batch_size st); inversion H1 as [|u p r v rest Hd Hr]; subst; [|reflexivity].
      inversion Hr; subst. apply Den_runtime' in Hd; [now subst | simpl; tauto]. }
    assert (E2 : p2 = if s_uses_meta st then [(PStr "meta"%string, VMeta)] else []).
    { destruct (s_uses_meta st); inversion H2 as [|u p r v rest Hd Hr]; subst; [|reflexivity].
      inversion Hr; subst. apply Den_runtime' in Hd; [now subst | simpl; tauto]. }
    assert (E3 : p3 = if s_stochastic st then [(PStr "random_state"%string, VRng)] else []).
    { destruct (s_stochastic st); inversion H3 as [|u p r v rest Hd Hr]; subst; [|reflexivity].
      inversion Hr; subst. apply Den_runtime' in Hd; [now subst | simpl; tauto]. }
    now subst.
  Qed.

  (** ---- one unfolding of the user-level meaning ---- *)
  Definition Dlink (f : nat) (u : name) : option value :=
    if flag src s_observable u then den f src W true u else den f src W false u.

  Lemma den_twin_step f n st : lookup n (s_nodes src) = Some st ->
    den (S f) src W true n =
    match lookup (observed_name n) W with
    | Some v => Some v
    | None =>
        if s_observable st then
          match lookup n (s_observed src) with
          | Some v => Some v
          | None =>
              if s_stochastic st then Some (VApp (OpUser (s_opid st)) [] [])
              else
                match all_some (map (fun pp : name * param => Dlink f (fst pp)) (preds (s_edges src) n)) with
                | Some vs => Some (mk_call (OpUser (s_opid st)) (combine (map snd (preds (s_edges src) n)) vs))
                | None => None
                end
          end
        else if s_uses_observed st then
          if s_stochastic st then Some (mk_call OpTuple [])
          else
            match all_some (map (fun pp : name * param => Dlink f (fst pp)) (preds (s_edges src) n)) with
            | Some vs => Some (mk_call OpTuple (combine (map snd (preds (s_edges src) n)) vs))
            | None => None
            end
        else None
    end.
  Proof. intros Hl. cbn [den]. unfold sstate_of. rewrite Hl. reflexivity. Qed.

  Lemma den_plain_step f n st : lookup n (s_nodes src) = Some st ->
    den (S f) src W false n =
    match lookup n W with
    | Some v => Some v
    | None =>
        match s_output st with
        | Some v => Some v
        | None =>
            match all_some (map (fun pp : name * param => den f src W false (fst pp)) (preds (s_edges src) n)) with
            | None => None
            | Some vs =>
                match (if s_uses_observed st && negb (s_observable st) then
                         match den f src W true n with
                         | Some v => Some [(PStr "observed"%string, v)]
                         | None => None
                         end
                       else Some []) with
                | None => None
                | Some okw =>
                    Some (mk_call (OpUser (s_opid st))
                            (combine (map snd (preds (s_edges src) n)) vs ++ okw
                             ++ (if s_uses_batch_size st then [(PStr "batch_size"%string, VBatch)] else [])
                             ++ (if s_uses_meta st then [(PStr "meta"%string, VMeta)] else [])
                             ++ (if s_stochastic st then [(PStr "random_state"%string, VRng)] else [])))
                end
            end
        end
    end.
  Proof. intros Hl. cbn [den]. unfold sstate_of. rewrite Hl. reflexivity. Qed.

  (** ---- the main induction, along the topological order the compiler checks ---- *)
  Lemma topo_parents' n : In n t ->
    forall u p, In (u, p) (preds (s_edges src) n) -> In u (firstn_before n t).
  Proof.
    intros Hn u p Hup. pose proof Htopo as Ht. unfold topo_ok in Ht. rewrite forallb_forall in Ht.
    specialize (Ht n Hn). rewrite forallb_forall in Ht. specialize (Ht (u, p) Hup). now apply mem_In.
  Qed.

  Lemma den_prefix2 : forall p rest, t = p ++ rest ->
    (forall n, In n p -> forall f, 2 * List.length p <= f -> forall v, Den lg n v -> den f src W false n = Some v)
    /\ (forall n st, In n p -> lookup n (s_nodes src) = Some st -> flagged st = true ->
        forall f, 2 * List.length p - 1 <= f -> forall v, Den lg (observed_name n) v -> den f src W true n = Some v).
  Proof.
    induction p as [|m p IH] using rev_ind; intros rest Ht; [split; [intros n [] | intros n st []]|].
    rewrite <- app_assoc in Ht. simpl in Ht.
    destruct (IH (m :: rest) Ht) as [IH1 IH2]. clear IH.
    rewrite app_length. cbn [List.length].
    assert (Hmt : In m t) by (rewrite Ht; apply in_app_iff; right; now left).
    assert (Hmp : ~ In m p).
    { pose proof t_nodup as Hnd. rewrite Ht in Hnd. apply NoDup_remove_2 in Hnd.
      intros Hin. apply Hnd. apply in_app_iff. now left. }
    destruct (t_lookup m Hmt) as [st Hl].
    assert (Hpar : forall u q, In (u, q) (preds (s_edges src) m) -> In u p).
    { intros u q Huq. pose proof (topo_parents' m Hmt u q Huq) as H.
      rewrite Ht, (firstn_before_fresh m p rest Hmp) in H. exact H. }
    assert (Hlink : forall f, 2 * List.length p <= f -> forall u q, In (u, q) (preds (s_edges src) m) ->
                    forall v, Den lg (link src u) v -> Dlink f u = Some v).
    { intros f Hf u q Huq v Hd. unfold Dlink. unfold link in Hd. destruct (flag src s_observable u) eqn:Fu.
      - destruct (flag_true _ _ _ Fu) as [su [Hlu Hou]].
        apply (IH2 u su); [eauto | exact Hlu | unfold flagged; now rewrite Hou | lia | exact Hd].
      - apply (IH1 u); [eauto | lia | exact Hd]. }
    (* the twin of the new node *)
    assert (T : flagged st = true -> forall f, 2 * List.length p + 1 <= f ->
                forall v, Den lg (observed_name m) v -> den f src W true m = Some v).
    { intros Hfl f Hf v Hd. destruct f as [|f]; [lia|]. rewrite (den_twin_step f m st Hl).
      inversion Hd as [n0 c v0 Hlc Hout | n0 c o pvs Hlc Hout Hop Hps]; subst.
      - destruct (lg_twin_node m st c Hl Hfl Hlc) as [_ Hcase].
        destruct (lookup (observed_name m) W) as [w|]; [subst c; simpl in Hout; congruence|].
        destruct (lookup m (s_observed src)) as [v0|].
        + destruct Hcase as [Ho ->]. rewrite Ho. simpl in Hout. congruence.
        + subst c. simpl in Hout. discriminate.
      - destruct (lg_twin_node m st c Hl Hfl Hlc) as [Hpreds Hcase].
        destruct (lookup (observed_name m) W) as [w|]; [subst c; simpl in Hout; discriminate|].
        destruct (lookup m (s_observed src)) as [v0|]; [destruct Hcase as [_ ->]; simpl in Hout; discriminate|].
        subst c. simpl in Hop. inversion Hop; subst o. clear Hop Hout.
        rewrite Hpreds in Hps.
        destruct (s_stochastic st) eqn:Es.
        + inversion Hps; subst. destruct (s_observable st) eqn:Eo; [reflexivity|].
          unfold flagged in Hfl. rewrite Eo in Hfl. simpl in Hfl. rewrite Hfl. reflexivity.
        + destruct (DenList_den_gen lg (link src) (Dlink f) (preds (s_edges src) m) pvs) as [Hall Hfst];
            [ | exact Hps | ].
          { intros u q Huq v' Hd'. apply (Hlink f) with (q := q); [lia | exact Huq | exact Hd']. }
          rewrite Hall, <- Hfst, combine_fst_snd.
          destruct (s_observable st) eqn:Eo; [reflexivity|].
          unfold flagged in Hfl. rewrite Eo in Hfl. simpl in Hfl. rewrite Hfl. reflexivity. }
    (* the new node itself *)
    assert (P : forall f, 2 * List.length p + 2 <= f -> forall v, Den lg m v -> den f src W false m = Some v).
    { intros f Hf v Hd. destruct f as [|f]; [lia|]. rewrite (den_plain_step f m st Hl).
      inversion Hd as [n0 c v0 Hlc Hout | n0 c o pvs Hlc Hout Hop Hps]; subst.
      - destruct (lg_source_node m st c Hl Hlc) as [_ Hcase].
        destruct (lookup m W) as [w|]; [subst c; simpl in Hout; congruence|].
        destruct Hcase as [[v1 [H1 [_ ->]]] | [H1 [_ ->]]]; simpl in Hout; [rewrite H1; congruence | discriminate].
      - destruct (lg_source_node m st c Hl Hlc) as [Hpreds Hcase].
        destruct (lookup m W) as [w|]; [subst c; simpl in Hout; discriminate|].
        destruct Hcase as [[v1 [H1 [_ ->]]] | [H1 [_ ->]]]; simpl in Hout, Hop; [discriminate|].
        inversion Hop; subst o. rewrite H1. rewrite Hpreds in Hps.
        destruct (DenList_app_inv _ _ _ _ Hps) as [pb [pxr [-> [Hb Hxr]]]].
        destruct (DenList_app_inv _ _ _ _ Hxr) as [px [pr [-> [Hx Hr]]]].
        apply DenList_runtime' in Hr.
        destruct (DenList_den_gen lg (fun u => u) (fun u => den f src W false u) (preds (s_edges src) m) pb)
          as [Hall Hfst].
        { intros u q Huq v' Hd'. apply (IH1 u); [eauto | lia | exact Hd']. }
        { rewrite map_pair_id. exact Hb. }
        rewrite Hall, <- Hfst, combine_fst_snd.
        assert (Hkw : (if s_uses_observed st && negb (s_observable st) then
                         match den f src W true m with
                         | Some v => Some [(PStr "observed"%string, v)]
                         | None => None
                         end
                       else Some []) = Some px).
        { destruct (s_uses_observed st && negb (s_observable st)) eqn:E.
          - inversion Hx as [|u0 p0 r0 v' rest' Hd' Hr']; subst. inversion Hr'; subst.
            apply andb_true_iff in E. destruct E as [E _].
            rewrite (T (eq_trans (f_equal (orb (s_observable st)) E) (orb_true_r _)) f ltac:(lia) v' Hd').
            reflexivity.
          - inversion Hx. reflexivity. }
        rewrite Hkw. now subst pr. }
    split.
    - intros n Hn f Hf v Hd. apply in_app_iff in Hn. destruct Hn as [Hn|[<-|[]]].
      + apply (IH1 n Hn); [lia | exact Hd].
      + apply P; [lia | exact Hd].
    - intros n st' Hn Hl' Hfl' f Hf v Hd. apply in_app_iff in Hn. destruct Hn as [Hn|[<-|[]]].
      + apply (IH2 n st' Hn Hl' Hfl'); [lia | exact Hd].
      + assert (st' = st) by congruence. subst st'. apply T; [exact Hfl' | lia | exact Hd].
  Qed.
End Loaded.

(** ---- what a successful compilation establishes ---- *)
Lemma compile_inv src outs g :
  wfsrc src -> compile src outs = Ok g ->
  exists cn g1, compile_outputs (s_nodes src) = Ok cn /\ topo_ok src = true
                /\ CO src cn (topo_order src) g1 /\ g = compile_reduce (G4of src g1).
Proof.
  intros Hwf H. unfold compile in H.
  destruct (compile_outputs (s_nodes src)) as [cn|] eqn:Ec; simpl in H; [|discriminate].
  fold (topo_ok src) in H. destruct (topo_ok src) eqn:Et; simpl in H; [|discriminate].
  fold (G0 src cn outs) in H.
  destruct (compile_observed src (topo_order src) [] [] (G0 src cn outs)) as [[[g1 obl] uses]|] eqn:Eo;
    simpl in H; [|discriminate].
  destruct (check_stochastic src g1 uses); simpl in H; [|discriminate].
  inversion H. exists cn, g1. split; [reflexivity|]. split; [reflexivity|]. split; [|reflexivity].
  apply (compile_observed_spec src cn Hwf Ec (topo_order src) [] (G0 src cn outs) [] [] g1 obl uses).
  - apply CO_init.
  - simpl. apply topo_order_NoDup. exact (wf_nodup _ Hwf).
  - reflexivity.
  - intros n Hn u p Hup. simpl. unfold topo_ok in Et. rewrite forallb_forall in Et.
    specialize (Et n Hn). rewrite forallb_forall in Et. specialize (Et (u, p) Hup). now apply mem_In.
  - exact Eo.
Qed.

(** ElfiModel.generate on a well-formed model returns the user-level meaning of every requested
    node and of every requested observed twin. *)
Theorem generate_sound src outs W out log :
  wfsrc src -> NoDup (map fst W) -> (forall k, In k (map fst W) -> ~ In k inames) ->
  generate src outs W = Ok (out, log) ->
  forall o v, In (o, v) out ->
    (has o (s_nodes src) = true
     \/ exists x st, lookup x (s_nodes src) = Some st /\ o = observed_name x
                     /\ (s_observable st = true \/ s_uses_observed st = true)) ->
    den_name src W o = Some v.
Proof.
  intros Hwf Hnd Hi Hg o v Hin Ho. unfold generate in Hg.
  destruct (compile src outs) as [g|] eqn:Ec; simpl in Hg; [|discriminate].
  destruct (compile_inv _ _ _ Hwf Ec) as [cn [g1 [Hcn [Ht [Hco ->]]]]].
  change (map (fun nv : name * value => (fst nv, Some (snd nv))) W) with (wp W) in Hg.
  destruct (execute (load (wp W) (compile_reduce (G4of src g1))) empty_cache) as [[[out' log'] c']|] eqn:Ee;
    simpl in Hg; [|discriminate].
  inversion Hg; subst out' log'.
  destruct (execute_sound _ _ _ _ _ CacheOK_empty Ee) as [Hden _].
  specialize (Hden o v Hin).
  destruct (den_prefix2 src W cn g1 Hwf Hnd Hi Hcn Ht Hco (topo_order src) [] (eq_sym (app_nil_r _))) as [P1 P2].
  assert (Hfuel : 2 * List.length (topo_order src) <= den_fuel src).
  { unfold den_fuel. rewrite topo_order_length. lia. }
  unfold den_name, sstate_of. destruct Ho as [Hhas | [x [st [Hst [-> Hfl]]]]].
  - apply has_lookup in Hhas. destruct Hhas as [st Hst]. rewrite Hst.
    apply (P1 o); [ | exact Hfuel | exact Hden].
    apply topo_order_In_rev. eapply lookup_key_In. exact Hst.
  - assert (Hflg : flagged st = true).
    { unfold flagged. destruct Hfl as [-> | ->]; [reflexivity | apply orb_true_r]. }
    rewrite (twin_lookup_none src cn g1 Hcn Hco x st Hst Hflg).
    destruct (find (fun ns : name * sstate => String.eqb (observed_name (fst ns)) (observed_name x)) (s_nodes src))
      as [[x' st']|] eqn:Ef.
    + apply find_some in Ef. destruct Ef as [_ Ef]. cbn [fst] in Ef. apply String.eqb_eq in Ef.
      apply observed_name_inj in Ef. subst x'.
      apply (P2 x st); [ | exact Hst | exact Hflg | lia | exact Hden].
      apply topo_order_In_rev. eapply lookup_key_In. exact Hst.
    + exfalso. pose proof (find_none _ _ Ef (x, st) (lookup_In_pair _ _ _ Hst)) as H. cbn [fst] in H.
      now rewrite String.eqb_refl in H.
Qed.

(** ---- a decidable form of [wfsrc], for concrete nets ---- *)
Fixpoint pairs_nodup_b (l : list (name * name)) : bool :=
  match l with
  | [] => true
  | x :: r => negb (existsb (fun y => String.eqb (fst x) (fst y) && String.eqb (snd x) (snd y)) r) && pairs_nodup_b r
  end.

Lemma pairs_nodup_b_sound l : pairs_nodup_b l = true -> NoDup l.
Proof.
  induction l as [|x r IH]; cbn [pairs_nodup_b]; intros H; [constructor|].
  apply andb_true_iff in H. destruct H as [H1 H2]. constructor; [|now apply IH].
  intros Hin. apply negb_true_iff in H1.
  match type of H1 with ?e = false => assert (E : e = true) end.
  { apply existsb_exists. exists x. split; [exact Hin|]. now rewrite !String.eqb_refl. }
  rewrite E in H1. discriminate.
Qed.

Definition wfsrc_b (src : snet) : bool :=
  nodup_b (map fst (s_nodes src))
  && forallb (fun e => has (e_src e) (s_nodes src) && has (e_dst e) (s_nodes src)) (s_edges src)
  && pairs_nodup_b (map fst (s_edges src))
  && forallb (fun i => negb (has i (s_nodes src))) inames
  && forallb (fun ns : name * sstate =>
                if s_observable (snd ns) then match s_output (snd ns) with None => true | Some _ => false end else true)
             (s_nodes src)
  && nodup_b (map fst (s_observed src))
  && forallb (fun kv : name * value => flag src s_observable (fst kv)) (s_observed src).

Lemma wfsrc_b_sound src : wfsrc_b src = true -> wfsrc src.
Proof.
  unfold wfsrc_b. intros H.
  apply andb_true_iff in H. destruct H as [H Hobsn].
  apply andb_true_iff in H. destruct H as [H Hobsnd].
  apply andb_true_iff in H. destruct H as [H Hout].
  apply andb_true_iff in H. destruct H as [H Hres].
  apply andb_true_iff in H. destruct H as [H Hend].
  apply andb_true_iff in H. destruct H as [Hnd Hedges].
  constructor.
  - now apply nodup_b_sound.
  - intros e He. rewrite forallb_forall in Hedges. specialize (Hedges e He). now apply andb_true_iff in Hedges.
  - now apply pairs_nodup_b_sound.
  - intros n Hn. rewrite forallb_forall in Hres. specialize (Hres n Hn). now apply negb_true_iff in Hres.
  - intros n st Hin Ho. rewrite forallb_forall in Hout. specialize (Hout (n, st) Hin). simpl in Hout.
    rewrite Ho in Hout. destruct (s_output st); [discriminate | reflexivity].
  - now apply nodup_b_sound.
  - intros k Hk. rewrite forallb_forall in Hobsn. apply in_map_iff in Hk. destruct Hk as [[k' v] [<- Hin]].
    exact (Hobsn (k', v) Hin).
Qed.
