(** C18 (wave 3) — the collection step of [run_vectorized] ([np.array(runs, dtype)]): the element type of the returned
    array is the promotion over the kinds of ALL rows; promotion does not depend on the order of the rows and is an
    upper bound of every row's kind; storing a value into a kind that is above its own keeps the value.  Hence with
    dtype=None no row is narrowed to the type of another row (in particular not to the type of row 0). *)
From Coq Require Import List ZArith NArith Arith Bool String Lia Permutation.
From Elfi Require Import Num.Vectorize.
Import ListNotations.

(** * promotion is a semilattice join *)

Lemma promote_comm a b : promote a b = promote b a.
Proof. destruct a, b; simpl; try reflexivity. f_equal. apply Nat.max_comm. Qed.

Lemma promote_assoc a b c : promote a (promote b c) = promote (promote a b) c.
Proof. destruct a, b, c; simpl; try reflexivity. f_equal. apply Nat.max_assoc. Qed.

Lemma promote_idem a : promote a a = a.
Proof. destruct a; simpl; try reflexivity. f_equal. apply Nat.max_id. Qed.

Lemma fold_promote_perm l l' : Permutation l l' -> forall a, fold_left promote l a = fold_left promote l' a.
Proof.
  induction 1 as [|x l l' _ IH|x y l|l l' l'' _ IH1 _ IH2]; intros a; simpl.
  - reflexivity.
  - apply IH.
  - f_equal. rewrite <- !promote_assoc. f_equal. apply promote_comm.
  - rewrite IH1. apply IH2.
Qed.

(** a kind that occurs in the list is absorbed *)
Lemma fold_promote_absorb k l a : In k l -> fold_left promote l a = fold_left promote l (promote a k).
Proof.
  intros Hin. apply in_split in Hin as [l1 [l2 ->]].
  assert (P : Permutation (l1 ++ k :: l2) (k :: l1 ++ l2)) by (symmetry; apply Permutation_middle).
  rewrite !(fold_promote_perm _ _ P). simpl.
  f_equal. rewrite <- promote_assoc, promote_idem. reflexivity.
Qed.

Lemma promote_all_cons k r : promote_all (k :: r) = fold_left promote (k :: r) k.
Proof. simpl. rewrite promote_idem. reflexivity. Qed.

(** the promoted kind of a batch does not depend on the order of its rows *)
Theorem promote_all_perm ks ks' : Permutation ks ks' -> promote_all ks = promote_all ks'.
Proof.
  intros P. destruct ks as [|k r], ks' as [|k' r'].
  - reflexivity.
  - apply Permutation_nil in P. discriminate.
  - symmetry in P. apply Permutation_nil in P. discriminate.
  - rewrite !promote_all_cons.
    assert (Hk' : In k' (k :: r)) by (eapply Permutation_in; [symmetry; exact P | left; reflexivity]).
    assert (Hk : In k (k' :: r')) by (eapply Permutation_in; [exact P | left; reflexivity]).
    rewrite (fold_promote_absorb k' (k :: r) k Hk'), (fold_promote_perm _ _ P), (promote_comm k k').
    symmetry. apply fold_promote_absorb. exact Hk.
Qed.

Theorem result_kind_perm outs outs' : Permutation outs outs' -> promote_all (kinds outs) = promote_all (kinds outs').
Proof. intros P. apply promote_all_perm. unfold kinds. apply Permutation_map, Permutation_flat_map, P. Qed.

(** * the promoted kind is the least upper bound of the row kinds *)

Lemma kind_le_refl a : kind_le a a = true.
Proof. destruct a; simpl; try reflexivity. apply Nat.leb_refl. Qed.

Lemma kind_le_trans a b c : kind_le a b = true -> kind_le b c = true -> kind_le a c = true.
Proof.
  destruct a, b, c; simpl; intros H1 H2; try reflexivity; try discriminate.
  apply Nat.leb_le in H1. apply Nat.leb_le in H2. apply Nat.leb_le. lia.
Qed.

Lemma kind_le_promote_l a b : kind_le a (promote a b) = true.
Proof. destruct a, b; simpl; try reflexivity. apply Nat.leb_le. lia. Qed.

Lemma kind_le_promote_r a b : kind_le b (promote a b) = true.
Proof. rewrite promote_comm. apply kind_le_promote_l. Qed.

Lemma promote_lub a b u : kind_le a u = true -> kind_le b u = true -> kind_le (promote a b) u = true.
Proof.
  destruct a, b, u; simpl; intros H1 H2; try reflexivity; try discriminate.
  apply Nat.leb_le in H1. apply Nat.leb_le in H2. apply Nat.leb_le. lia.
Qed.

Lemma fold_promote_upper l : forall a, kind_le a (fold_left promote l a) = true
                                       /\ forall k, In k l -> kind_le k (fold_left promote l a) = true.
Proof.
  induction l as [|x l IH]; intros a; simpl.
  - split; [apply kind_le_refl | intros k []].
  - destruct (IH (promote a x)) as [H1 H2]. split.
    + eapply kind_le_trans; [apply kind_le_promote_l | exact H1].
    + intros k [->|Hin]; [eapply kind_le_trans; [apply kind_le_promote_r | exact H1] | apply H2, Hin].
Qed.

Theorem promote_all_upper ks k : In k ks -> kind_le k (promote_all ks) = true.
Proof.
  destruct ks as [|k0 r]; [intros []|]. simpl. intros [<-|Hin]; [apply (proj1 (fold_promote_upper r k0)) | apply (proj2 (fold_promote_upper r k0)), Hin].
Qed.

Lemma fold_promote_lub u l : forall a, kind_le a u = true -> (forall k, In k l -> kind_le k u = true) ->
                                       kind_le (fold_left promote l a) u = true.
Proof.
  induction l as [|x l IH]; intros a Ha Hl; simpl; [exact Ha|].
  apply IH; [apply promote_lub; [exact Ha | apply Hl; left; reflexivity] | intros k Hk; apply Hl; right; exact Hk].
Qed.

Theorem promote_all_least ks u : ks <> [] -> (forall k, In k ks -> kind_le k u = true) -> kind_le (promote_all ks) u = true.
Proof.
  destruct ks as [|k0 r]; [congruence|]. intros _ H. simpl.
  apply fold_promote_lub; [apply H; left; reflexivity | intros k Hk; apply H; right; exact Hk].
Qed.

(** * storing a value into a kind above its own keeps the value *)

Lemma substring_all : forall s n, String.length s <= n -> substring 0 n s = s.
Proof.
  induction s as [|c s IH]; intros n H; destruct n as [|n]; simpl in *; try reflexivity; try lia.
  f_equal. apply IH. lia.
Qed.

Local Opaque Nat.max.
Theorem cast_le_total x k : kind_le (kind_of_scal x) k = true -> is_other k = false -> exists y, cast k x = Some y.
Proof. destruct x, k; simpl; intros H1 H2; try discriminate; eexists; reflexivity. Qed.

Theorem cast_le_unchanged x k y :
  kind_le (kind_of_scal x) k = true -> cast k x = Some y -> has_kind k y = true /\ same_value x y = true.
Proof.
  destruct x as [b|z|n d|s], k as [| | |m|]; simpl; intros H1 H2; try discriminate; inversion H2; subst; simpl;
    unfold num_eqb; simpl; try (split; [reflexivity | apply Z.eqb_refl]).
  apply Nat.leb_le in H1. rewrite substring_all by lia. split; [apply Nat.leb_le; lia | apply String.eqb_refl].
Qed.
Local Transparent Nat.max.

(** * lists *)

Lemma all_some_cons {A} (a : option A) l r :
  all_some (a :: l) = Some r -> exists x r', a = Some x /\ all_some l = Some r' /\ r = x :: r'.
Proof.
  simpl. destruct a as [x|]; [|discriminate]. destruct (all_some l) as [r'|]; simpl; [|discriminate].
  intros H. inversion H. eauto.
Qed.

Lemma list_eqb_Forall2 {A B} (e : A -> B -> bool) : forall l m, list_eqb e l m = true <-> Forall2 (fun a b => e a b = true) l m.
Proof.
  induction l as [|a l IH]; intros [|b m]; simpl; split; intros H; try discriminate; try constructor; try (inversion H; fail).
  - apply andb_true_iff in H. tauto.
  - apply IH. apply andb_true_iff in H. tauto.
  - inversion H; subst. apply andb_true_iff. split; [assumption | apply IH; assumption].
Qed.

Lemma Forall2_imp {A B} (R1 R2 : A -> B -> Prop) l m : (forall a b, R1 a b -> R2 a b) -> Forall2 R1 l m -> Forall2 R2 l m.
Proof. intros H F. induction F; constructor; auto. Qed.

Lemma list_eqb_length {A B} (e : A -> B -> bool) l m : list_eqb e l m = true -> List.length l = List.length m.
Proof.
  revert m. induction l as [|a l IH]; intros [|b m]; simpl; intros H; try discriminate; [reflexivity|].
  apply andb_true_iff in H as [_ H]. f_equal. apply IH. exact H.
Qed.

Lemma scal_eqb_eq x y : scal_eqb x y = true <-> x = y.
Proof.
  split.
  - destruct x, y; simpl; intros H; try discriminate.
    + apply Bool.eqb_prop in H. congruence.
    + apply Z.eqb_eq in H. congruence.
    + apply andb_true_iff in H as [Ha Hb]. apply Z.eqb_eq in Ha. apply Pos.eqb_eq in Hb. congruence.
    + apply String.eqb_eq in H. congruence.
  - intros <-. destruct x; simpl.
    + apply Bool.eqb_reflx.
    + apply Z.eqb_refl.
    + rewrite Z.eqb_refl, Pos.eqb_refl. reflexivity.
    + apply String.eqb_refl.
Qed.

Lemma list_scal_eqb_eq : forall l m, list_eqb scal_eqb l m = true <-> l = m.
Proof.
  induction l as [|a l IH]; intros [|b m]; simpl; split; intros H; try discriminate; try reflexivity.
  - apply andb_true_iff in H as [H1 H2]. apply scal_eqb_eq in H1. apply IH in H2. congruence.
  - inversion H; subst. apply andb_true_iff. split; [apply scal_eqb_eq; reflexivity | apply IH; reflexivity].
Qed.

Lemma oval_eqb_eq a b : oval_eqb a b = true <-> a = b.
Proof.
  unfold oval_eqb. destruct a as [x|l], b as [y|m]; simpl; split; intros H; try discriminate.
  - rewrite andb_true_r in H. apply scal_eqb_eq in H. congruence.
  - inversion H; subst. rewrite andb_true_r. apply scal_eqb_eq. reflexivity.
  - apply andb_true_iff in H as [_ H]. apply list_scal_eqb_eq in H. congruence.
  - inversion H; subst. rewrite Nat.eqb_refl. apply list_scal_eqb_eq. reflexivity.
Qed.

Lemma list_oval_eqb_eq : forall l m, list_eqb oval_eqb l m = true <-> l = m.
Proof.
  induction l as [|a l IH]; intros [|b m]; simpl; split; intros H; try discriminate; try reflexivity.
  - apply andb_true_iff in H as [H1 H2]. apply oval_eqb_eq in H1. apply IH in H2. congruence.
  - inversion H; subst. apply andb_true_iff. split; [apply oval_eqb_eq; reflexivity | apply IH; reflexivity].
Qed.

(** * rows *)

Lemma cast_list_unchanged k : forall l l',
  (forall x, In x l -> kind_le (kind_of_scal x) k = true) -> all_some (map (cast k) l) = Some l' ->
  List.length l = List.length l' /\ list_eqb (fun x y => has_kind k y && same_value x y) l l' = true.
Proof.
  induction l as [|x l IH]; intros l' Hle H.
  - simpl in H. inversion H. split; reflexivity.
  - simpl map in H. apply all_some_cons in H as [y [r [Hy [Hr ->]]]].
    destruct (IH r) as [L E]; [intros z Hz; apply Hle; right; exact Hz | exact Hr |].
    destruct (cast_le_unchanged x k y) as [H1 H2]; [apply Hle; left; reflexivity | exact Hy |].
    simpl. rewrite H1, H2, E, L. split; reflexivity.
Qed.

Lemma cast_list_total k : forall l, is_other k = false -> (forall x, In x l -> kind_le (kind_of_scal x) k = true) ->
  exists l', all_some (map (cast k) l) = Some l'.
Proof.
  induction l as [|x l IH]; intros Ho Hle; simpl; [eauto|].
  destruct (cast_le_total x k) as [y ->]; [apply Hle; left; reflexivity | exact Ho |].
  destruct IH as [l' ->]; [exact Ho | intros z Hz; apply Hle; right; exact Hz |]. simpl. eauto.
Qed.

Lemma cast_oval_unchanged k o r :
  (forall x, In x (elems o) -> kind_le (kind_of_scal x) k = true) -> cast_oval k o = Some r -> row_unchanged k o r = true.
Proof.
  unfold row_unchanged. destruct o as [x|l]; simpl; intros Hle H.
  - destruct (cast k x) as [y|] eqn:E; [|discriminate]. inversion H; subst. simpl.
    destruct (cast_le_unchanged x k y) as [H1 H2]; [apply Hle; left; reflexivity | exact E |]. rewrite H1, H2. reflexivity.
  - destruct (all_some (map (cast k) l)) as [l'|] eqn:E; [|discriminate]. inversion H; subst. simpl.
    destruct (cast_list_unchanged k l l' Hle E) as [L Eq]. rewrite L, Nat.eqb_refl, Eq. reflexivity.
Qed.

Lemma cast_oval_total k o :
  is_other k = false -> (forall x, In x (elems o) -> kind_le (kind_of_scal x) k = true) -> exists r, cast_oval k o = Some r.
Proof.
  destruct o as [x|l]; simpl; intros Ho Hle.
  - destruct (cast_le_total x k) as [y ->]; [apply Hle; left; reflexivity | exact Ho |]. simpl. eauto.
  - destruct (cast_list_total k l Ho Hle) as [l' ->]. simpl. eauto.
Qed.

Lemma rows_unchanged k : forall outs rets,
  (forall x, In x (flat_map elems outs) -> kind_le (kind_of_scal x) k = true) ->
  all_some (map (cast_oval k) outs) = Some rets -> list_eqb (row_unchanged k) outs rets = true.
Proof.
  induction outs as [|o outs IH]; intros rets Hle H.
  - simpl in H. inversion H. reflexivity.
  - simpl map in H. apply all_some_cons in H as [r [rs [Hr [Hrs ->]]]]. simpl.
    rewrite (cast_oval_unchanged k o r), IH; auto.
    + intros x Hx. apply Hle. simpl. apply in_or_app. right. exact Hx.
    + intros x Hx. apply Hle. simpl. apply in_or_app. left. exact Hx.
Qed.

Lemma rows_total k : forall outs, is_other k = false ->
  (forall x, In x (flat_map elems outs) -> kind_le (kind_of_scal x) k = true) ->
  exists rets, all_some (map (cast_oval k) outs) = Some rets.
Proof.
  induction outs as [|o outs IH]; intros Ho Hle; simpl; [eauto|].
  destruct (cast_oval_total k o Ho) as [r ->]; [intros x Hx; apply Hle; simpl; apply in_or_app; left; exact Hx|].
  destruct IH as [rs ->]; [exact Ho | intros x Hx; apply Hle; simpl; apply in_or_app; right; exact Hx|]. simpl. eauto.
Qed.

Lemma elems_le_promoted outs x : In x (flat_map elems outs) -> kind_le (kind_of_scal x) (promote_all (kinds outs)) = true.
Proof. intros H. apply promote_all_upper. unfold kinds. apply in_map. exact H. Qed.

(** dtype=None: numpy's collection succeeds on rows of one shape, its element type is the promotion over ALL rows and
    every row keeps its own value: no row is narrowed to the type of another one *)
Theorem collect_none_unchanged outs :
  homogeneous outs = true -> is_other (promote_all (kinds outs)) = false ->
  exists rets, collect DNone outs = Some (kind_name (promote_all (kinds outs)), rets)
               /\ list_eqb (row_unchanged (promote_all (kinds outs))) outs rets = true.
Proof.
  intros Hh Ho. unfold collect. rewrite Hh.
  destruct (rows_total (promote_all (kinds outs)) outs Ho (elems_le_promoted outs)) as [rets E].
  exists rets. rewrite E. split; [reflexivity|]. apply rows_unchanged; [apply elems_le_promoted | exact E].
Qed.

(** * the decidable clause [typed_ok]: satisfied by the model, sound for the statement *)

Lemma rows_cast_to k : forall outs rets, all_some (map (cast_oval k) outs) = Some rets -> list_eqb (row_cast_to k) outs rets = true.
Proof.
  induction outs as [|o outs IH]; intros rets H.
  - simpl in H. inversion H. reflexivity.
  - simpl map in H. apply all_some_cons in H as [r [rs [Hr [Hrs ->]]]]. simpl. unfold row_cast_to at 1. rewrite Hr.
    rewrite (proj2 (oval_eqb_eq r r) eq_refl), IH; auto.
Qed.

Theorem typed_model_ok d outs ret : collect d outs = Some ret -> typed_ok d outs ret = true.
Proof.
  unfold collect, typed_ok. destruct d as [| |k name].
  - destruct (homogeneous outs); [|discriminate].
    destruct (all_some (map (cast_oval (promote_all (kinds outs))) outs)) as [rets|] eqn:E; [|discriminate].
    simpl. intros H. inversion H; subst. simpl. rewrite String.eqb_refl. simpl.
    apply rows_unchanged; [apply elems_le_promoted | exact E].
  - intros H. inversion H; subst. simpl. apply list_oval_eqb_eq. reflexivity.
  - destruct (homogeneous outs); [|discriminate].
    destruct (all_some (map (cast_oval k) outs)) as [rets|] eqn:E; [|discriminate].
    simpl. intros H. inversion H; subst. simpl. rewrite String.eqb_refl. simpl. apply rows_cast_to. exact E.
Qed.

(** the statement about the returned array *)
Definition typed_statement (d : dreq) (outs : list oval) (ret : string * list oval) : Prop :=
  match d with
  | DFalse => fst ret = "object"%string /\ snd ret = outs
  | DNone =>
      let k := promote_all (kinds outs) in
      fst ret = kind_name k
      /\ Forall2 (fun o r => shape_eqb o r = true
                             /\ Forall2 (fun x y => has_kind k y = true /\ same_value x y = true) (elems o) (elems r))
                 outs (snd ret)
  | DGiven k name => fst ret = name /\ Forall2 (fun o r => cast_oval k o = Some r) outs (snd ret)
  end.

Theorem typed_ok_sound d outs ret : typed_ok d outs ret = true -> typed_statement d outs ret.
Proof.
  unfold typed_ok, typed_statement. destruct d as [| |k name]; intros H; apply andb_true_iff in H as [H1 H2];
    apply String.eqb_eq in H1; (split; [exact H1|]).
  - apply list_eqb_Forall2 in H2. eapply Forall2_imp; [|exact H2]. cbv beta. intros o r Hr.
    unfold row_unchanged in Hr. apply andb_true_iff in Hr as [Hs He]. split; [exact Hs|].
    apply list_eqb_Forall2 in He. eapply Forall2_imp; [|exact He]. cbv beta. intros x y Hxy.
    apply andb_true_iff in Hxy. exact Hxy.
  - apply list_oval_eqb_eq in H2. congruence.
  - apply list_eqb_Forall2 in H2. eapply Forall2_imp; [|exact H2]. cbv beta. intros o r Hr.
    unfold row_cast_to in Hr. destruct (cast_oval k o) as [r'|]; [|discriminate]. apply oval_eqb_eq in Hr. congruence.
Qed.

Lemma typed_ok_length d outs ret : typed_ok d outs ret = true -> List.length (snd ret) = List.length outs.
Proof.
  unfold typed_ok. destruct d; intros H; apply andb_true_iff in H as [_ H]; symmetry; eapply list_eqb_length; exact H.
Qed.
