(** Proofs for C07: the SMC round structure — schedule independence (instance of C04), accounting of
    consumed simulations over rounds, and every population is the result of a rejection round with
    that round's threshold (so the C01 theorems apply to every population). *)
From Coq Require Import List ZArith Arith Bool Lia PrimFloat Sorting.Permutation.
From Elfi Require Import Sched.Sched Sched.Reject Sched.Smc Proofs.C04_Sched Proofs.C01_Sorting Proofs.C01_Reject.
Import ListNotations.

Section Instance.
  Variable P : Type.
  Variable proposal : nat -> nat -> P.
  Variable compute : nat -> P -> list draw.

  (** within a round the proposals of a batch index do not depend on when it is submitted *)
  Lemma sprepare_stable s r i :
    snd (supdate s r i) = false -> forall j, sprepare P proposal (fst (supdate s r i)) j = sprepare P proposal s j.
  Proof.
    unfold supdate, sprepare. intros H j.
    destruct (r_objective (fst (rupdate (m_rej s) r i)) <=? r_nbatches (fst (rupdate (m_rej s) r i))).
    - destruct (S (m_round s) <? length (m_rounds s)); simpl in H; discriminate.
    - reflexivity.
  Qed.

  (** C04 for SMC: every schedule and every max_parallel give the sequential result *)
  Theorem smc_schedule_independent maxp fuel s0 orc sf n :
    1 <= maxp -> sseq P proposal compute fuel s0 = Some (sf, n) ->
    exists s' tr', sinfer P proposal compute fuel maxp s0 orc = inl (s', tr') /\ st s' = sf /\ pending s' = [] /\
                   trace_ok maxp tr' = Some n.
  Proof.
    intros Hm H. unfold sinfer, sseq in *.
    destruct (schedule_independent sstate (list draw) P sobjective sconsumed (sprepare P proposal) compute supdate
                sprepare_stable maxp fuel s0 orc sf n Hm H) as [s' [tr' [A [B [C [D E]]]]]].
    exists s', tr'. auto.
  Qed.
End Instance.

(** ---- accounting ---- *)
Definition Acct (s : sstate) : Prop :=
  m_total s = sum_batches (m_pops s) + r_nbatches (m_rej s) /\ r_b (m_rej s) = m_b s /\
  Forall (fun p => p_n_sim p = p_n_batches p * m_b s) (m_pops s).

Lemma sum_batches_app a b : sum_batches (a ++ b) = sum_batches a + sum_batches b.
Proof. unfold sum_batches. induction a as [|x r IH]; simpl; [reflexivity|]. rewrite IH. lia. Qed.

Lemma rejection_for_fresh n b maxp r :
  r_nbatches (rejection_for n b maxp r) = 0 /\ r_b (rejection_for n b maxp r) = b /\ r_n (rejection_for n b maxp r) = n.
Proof.
  unfold rejection_for. destruct r as [q|t]; simpl; [|auto].
  destruct (initial_objective n b (ByQuantile q)) as [obj thr]. simpl. auto.
Qed.

Lemma Acct_init n b maxp rounds : Acct (sinit n b maxp rounds).
Proof.
  unfold Acct, sinit. simpl. destruct (rejection_for_fresh n b maxp (nth 0 rounds (RThreshold PInf))) as [A [B _]].
  rewrite A, B. auto.
Qed.

Lemma Acct_step s batch i : Acct s -> Acct (fst (supdate s batch i)).
Proof.
  intros [A [B C]]. unfold supdate.
  destruct (rupdate_consts (m_rej s) batch i) as [C1 [C2 [C3 C4]]].
  set (rej' := fst (rupdate (m_rej s) batch i)) in *.
  destruct (r_objective rej' <=? r_nbatches rej').
  - destruct (S (m_round s) <? length (m_rounds s)); unfold Acct; simpl.
    + destruct (rejection_for_fresh (m_n s) (m_b s) (m_maxp s) (nth (S (m_round s)) (m_rounds s) (RThreshold PInf))) as [F1 [F2 _]].
      rewrite F1, F2, sum_batches_app. simpl. unfold extract. simpl. try rewrite C4.
      split; [lia|]. split; [reflexivity|].
      apply Forall_app. split; [exact C|]. constructor; [|constructor]. simpl. try rewrite C2. now rewrite B.
    + try rewrite C4. try rewrite C2. split; [lia|]. split; [exact B | exact C].
  - unfold Acct. simpl. try rewrite C4. try rewrite C2. split; [lia|]. split; [exact B | exact C].
Qed.

Notation smc_seq_run table := (seq_run sstate (list draw) unit sobjective sconsumed (sprepare unit (fun _ _ => tt)) (fun i _ => nth i table []) supdate).

Lemma seq_run_preserves (Q : sstate -> Prop) table :
  (forall s i, Q s -> Q (fst (supdate s (nth i table []) i))) ->
  forall fuel s i sf n, Q s -> smc_seq_run table fuel s i = Some (sf, n) -> Q sf.
Proof.
  intros Hstep. induction fuel as [|f IH]; intros s i sf n HQ H; cbn [seq_run] in H.
  - destruct (sobjective s <=? sconsumed s); [inversion H; subst; exact HQ | discriminate].
  - destruct (sobjective s <=? sconsumed s); [inversion H; subst; exact HQ|].
    eapply IH; [|exact H]. apply Hstep. exact HQ.
Qed.

Definition sum_sims (ps : list population) : nat := fold_right (fun p a => p_n_sim p + a) 0 ps.

Lemma sum_sims_batches b ps : Forall (fun p => p_n_sim p = p_n_batches p * b) ps -> sum_sims ps = sum_batches ps * b.
Proof. induction 1 as [|p r Hp Hr IH]; simpl; [reflexivity|]. rewrite Hp, IH. lia. Qed.

(** the reported totals are the sums over all populations *)
Theorem smc_totals table fuel n b maxp rounds sf k :
  smc_seq_run table fuel (sinit n b maxp rounds) 0 = Some (sf, k) ->
  m_total sf = sum_batches (all_populations sf) /\
  m_total sf * m_b sf = sum_sims (all_populations sf).
Proof.
  intros H.
  assert (HA : Acct sf).
  { eapply (seq_run_preserves Acct); [|apply Acct_init|exact H]. intros s i Hs. now apply Acct_step. }
  destruct HA as [A [B C]].
  assert (Hall : Forall (fun p => p_n_sim p = p_n_batches p * m_b sf) (all_populations sf)).
  { unfold all_populations. apply Forall_app. split; [exact C|]. constructor; [|constructor]. simpl. now rewrite B. }
  assert (Hsum : m_total sf = sum_batches (all_populations sf)).
  { unfold all_populations. rewrite sum_batches_app. simpl. lia. }
  split; [exact Hsum|]. rewrite (sum_sims_batches _ _ Hall). now rewrite Hsum.
Qed.

(** ---- every population is a rejection round ---- *)
(** rejection states reachable with threshold [thr] by consuming batches of at most b rows *)
Inductive Reach (n b : nat) (thr : option edisc) : rstate -> list draw -> Prop :=
| Reach_init obj : Reach n b thr (rinit n b thr obj) []
| Reach_step r consumed batch i :
    Reach n b thr r consumed -> length batch <= b ->
    Reach n b thr (fst (rupdate r batch i)) (consumed ++ batch).

Lemma Reach_consts n b thr r consumed : Reach n b thr r consumed -> r_n r = n /\ r_b r = b /\ r_thr r = thr.
Proof.
  induction 1 as [obj|r consumed batch i Hr IH Hb]; [simpl; auto|].
  destruct (rupdate_consts r batch i) as [C1 [C2 [C3 _]]]. destruct IH as [A [B C]]. rewrite C1, C2, C3. auto.
Qed.

(** a reachable rejection state satisfies the C01 invariant for the accepted consumed draws *)
Theorem Reach_RInv n b thr r consumed :
  Reach n b thr r consumed -> RInv n b (bufof r) (filter (accepts thr) consumed).
Proof.
  induction 1 as [obj|r consumed batch i Hr IH Hb].
  - unfold bufof. simpl. apply RInv_init.
  - destruct (Reach_consts _ _ _ _ _ Hr) as [A [B C]].
    pose proof (consume_invariant [batch] r (filter (accepts thr) consumed)) as H.
    rewrite A, B, C in H. specialize (H IH (Forall_cons _ Hb (Forall_nil _))).
    cbn zeta in H. destruct H as [H _]. unfold consume in H. simpl in H. rewrite app_nil_r in H.
    rewrite filter_app. change (rupdate r batch i) with (rupdate r batch 0). exact H.
Qed.

Lemma rejection_for_init n b maxp r :
  exists obj, rejection_for n b maxp r = rinit n b (round_threshold r) obj.
Proof.
  unfold rejection_for. destruct r as [q|t]; simpl.
  - unfold initial_objective. eexists. reflexivity.
  - eexists. reflexivity.
Qed.

Definition spec_of (s : sstate) (r : nat) : round_spec := nth r (m_rounds s) (RThreshold PInf).

(** a population is the extracted result of a rejection round run with that round's threshold *)
Definition pop_of_round (n b : nat) (spec : round_spec) (p : population) : Prop :=
  exists r consumed, Reach n b (round_threshold spec) r consumed /\ p = pop_of r.

Record SmcReach (s : sstate) : Prop := {
  sr_rej : exists consumed, Reach (m_n s) (m_b s) (round_threshold (spec_of s (m_round s))) (m_rej s) consumed;
  sr_len : length (m_pops s) = m_round s;
  sr_pops : forall r p, nth_error (m_pops s) r = Some p -> pop_of_round (m_n s) (m_b s) (spec_of s r) p
}.

Lemma SmcReach_init n b maxp rounds : SmcReach (sinit n b maxp rounds).
Proof.
  constructor; simpl.
  - destruct (rejection_for_init n b maxp (nth 0 rounds (RThreshold PInf))) as [obj ->].
    exists []. unfold spec_of. simpl. constructor.
  - reflexivity.
  - intros r p H. destruct r; discriminate.
Qed.

Lemma SmcReach_step s batch i :
  length batch <= m_b s -> SmcReach s -> SmcReach (fst (supdate s batch i)).
Proof.
  intros Hb [[consumed Hr] Hl Hp]. unfold supdate.
  set (rej' := fst (rupdate (m_rej s) batch i)).
  assert (Hr' : Reach (m_n s) (m_b s) (round_threshold (spec_of s (m_round s))) rej' (consumed ++ batch))
    by (constructor; assumption).
  destruct (r_objective rej' <=? r_nbatches rej').
  - destruct (S (m_round s) <? length (m_rounds s)).
    + constructor; simpl.
      * destruct (rejection_for_init (m_n s) (m_b s) (m_maxp s) (nth (S (m_round s)) (m_rounds s) (RThreshold PInf))) as [obj ->].
        exists []. unfold spec_of. simpl. constructor.
      * rewrite app_length. simpl. lia.
      * intros r p H. unfold spec_of. simpl.
        destruct (Nat.lt_ge_cases r (length (m_pops s))) as [Hlt|Hge].
        -- rewrite nth_error_app1 in H by exact Hlt. now apply Hp.
        -- rewrite nth_error_app2 in H by exact Hge.
           destruct (r - length (m_pops s)) as [|k] eqn:Ek; [|destruct k; discriminate].
           simpl in H. inversion H; subst p.
           assert (r = m_round s) by lia. subst r.
           exists rej', (consumed ++ batch). split; [exact Hr' | reflexivity].
    + constructor; simpl; auto. exists (consumed ++ batch). exact Hr'.
  - constructor; simpl; auto. exists (consumed ++ batch). exact Hr'.
Qed.

Lemma supdate_consts s batch i :
  m_n (fst (supdate s batch i)) = m_n s /\ m_b (fst (supdate s batch i)) = m_b s /\ m_rounds (fst (supdate s batch i)) = m_rounds s.
Proof.
  unfold supdate. destruct (_ <=? _); [destruct (_ <? _)|]; simpl; auto.
Qed.

(** Every population returned by the sampler is a rejection round under that round's threshold:
    its rows satisfy everything C01 proves (exactly n rows, ascending, consumed draws, best ones),
    and every particle's discrepancy is within the round's threshold. *)
Theorem smc_populations table fuel n b maxp rounds sf k :
  Forall (fun batch => length batch <= b) table ->
  seq_run sstate (list draw) unit sobjective sconsumed (sprepare unit (fun _ _ => tt)) (fun i _ => nth i table []) supdate
          fuel (sinit n b maxp rounds) 0 = Some (sf, k) ->
  forall r p, nth_error (all_populations sf) r = Some p ->
    pop_of_round n b (nth r rounds (RThreshold PInf)) p.
Proof.
  intros Htab H.
  assert (Hnth : forall i, length (nth i table []) <= b).
  { intros i. destruct (Nat.lt_ge_cases i (length table)) as [Hlt|Hge].
    - rewrite Forall_forall in Htab. apply Htab. now apply nth_In.
    - rewrite nth_overflow by exact Hge. simpl. lia. }
  assert (Hq : SmcReach sf /\ m_n sf = n /\ m_b sf = b /\ m_rounds sf = rounds).
  { eapply (seq_run_preserves (fun s => SmcReach s /\ m_n s = n /\ m_b s = b /\ m_rounds s = rounds) table);
      [| |exact H].
    - intros s i [HR [A [B C]]]. destruct (supdate_consts s (nth i table []) i) as [D [E F]].
      split; [|rewrite D, E, F; auto]. apply SmcReach_step; [rewrite B; apply Hnth | exact HR].
    - split; [apply SmcReach_init | simpl; auto]. }
  destruct Hq as [[[consumed Hr] Hl Hp] [A [B C]]].
  intros r p Hn. unfold all_populations in Hn. unfold spec_of in *. rewrite A, B, C in *.
  destruct (Nat.lt_ge_cases r (length (m_pops sf))) as [Hlt|Hge].
  - rewrite nth_error_app1 in Hn by exact Hlt. now apply Hp.
  - rewrite nth_error_app2 in Hn by exact Hge.
    destruct (r - length (m_pops sf)) as [|j] eqn:Ej; [|destruct j; discriminate].
    simpl in Hn. inversion Hn; subst p. assert (r = m_round sf) by lia. subst r.
    exists (m_rej sf), consumed. split; [exact Hr | reflexivity].
Qed.

(** consequences for every particle of every population (via C01) *)
Theorem smc_particles_within_threshold n b spec p t :
  pop_of_round n b spec p -> round_threshold spec = Some t ->
  forall d, In (Some d) (p_rows p) -> dle (d_disc d) t = true.
Proof.
  intros [r [consumed [Hr ->]]] Ht d Hd. rewrite Ht in Hr.
  pose proof (Reach_RInv _ _ _ _ _ Hr) as HI.
  destruct (Reach_consts _ _ _ _ _ Hr) as [A [B C]].
  unfold pop_of, extract in Hd. simpl in Hd. rewrite A in Hd.
  assert (Hbuf : In (Some d) (firstn n (bufof r))).
  { unfold bufof. destruct (r_buf r) eqn:E; [rewrite firstn_nil in Hd; destruct Hd | exact Hd]. }
  eapply returned_within_threshold; eauto.
Qed.

Theorem smc_population_rows n b spec p :
  pop_of_round n b spec p ->
  ascending (p_rows p) = true /\ length (p_rows p) <= n.
Proof.
  intros [r [consumed [Hr ->]]].
  pose proof (Reach_RInv _ _ _ _ _ Hr) as HI.
  destruct (Reach_consts _ _ _ _ _ Hr) as [A [B C]].
  unfold pop_of, extract. simpl. rewrite A. split; [|rewrite firstn_length; lia].
  unfold bufof in HI. destruct (r_buf r) eqn:E; [rewrite firstn_nil; reflexivity|].
  rewrite <- E in *. destruct (extract_topn _ _ _ _ HI) as [Ha _]. exact Ha.
Qed.
