(** C08 composition: the modelled ModelPrior._evaluate_pdf IS the product specification.

    For every well-formed model and every well-formed request, whatever [evaluate] (augmentation by
    add_pdf_nodes, then ElfiModel.generate on the augmented net: compile -> load -> execute, then
    the reduce) returns is [joint_spec]: the reduce (product, or sum of logs) of the conditional
    density factors pdf_p(x_p; values of p's positional parents at x).

    The proof composes
      - the exact shape of the augmented net (this file, over Graph/Edit.v, using C08_Prior.v),
      - the end-to-end theorem [generate_sound] of C03_Twins.v (generate returns [den_name]),
      - a direct computation of [den] on the augmented net (depth 3: joint, density node, argument). *)
From Coq Require Import List String Ascii ZArith Arith Bool Lia Sorting.Permutation.
From Elfi Require Import Graph.Net Graph.Edit Graph.Denote Graph.Prior
     Proofs.C03_Exec Proofs.C03_Compile Proofs.C02_Order Proofs.C05_Cache Proofs.C03_EndToEnd Proofs.C03_Twins
     Proofs.C14_Edit Proofs.C08_Prior.
Import ListNotations.

(** Graph/Denote.v and Graph/Prior.v each define [all_some]; they are the same function. *)
Lemma all_some_same {A} : @Prior.all_some A = @Denote.all_some A.
Proof. reflexivity. Qed.

(** ---- strings: density-node names ---- *)
Fixpoint last_or (d : ascii) (s : string) : ascii :=
  match s with EmptyString => d | String c r => last_or c r end.

Lemma last_or_app d a c b : last_or d (String.append a (String c b)) = last_or c b.
Proof. revert d. induction a as [|e a IH]; intros d; simpl; [reflexivity | apply IH]. Qed.

Lemma pdf_node_last d log p : last_or d (pdf_node log p) = "f"%char.
Proof.
  unfold pdf_node. destruct log; cbn [pdf_attr]; simpl; rewrite last_or_app; reflexivity.
Qed.

Lemma pdf_node_not_reserved log p : ~ In (pdf_node log p) inames.
Proof.
  unfold inames. cbn [In]. intros [H|[H|[H|[]]]];
    apply (f_equal (last_or "_"%char)) in H; rewrite pdf_node_last in H; vm_compute in H; discriminate.
Qed.

Lemma pdf_node_inj log p q : pdf_node log p = pdf_node log q -> p = q.
Proof.
  unfold pdf_node. simpl. intros H. inversion H as [H1]. now apply str_app_inj_r in H1.
Qed.

Lemma joint_not_reserved : ~ In joint_node inames.
Proof. unfold inames, joint_node. cbn [In]. intros [H|[H|[H|[]]]]; discriminate. Qed.

(** ---- association lists ---- *)
Lemma lookup_app {A} k (l1 l2 : list (name * A)) :
  lookup k (l1 ++ l2) = match lookup k l1 with Some a => Some a | None => lookup k l2 end.
Proof.
  induction l1 as [|[m a] r IH]; simpl; [reflexivity|]. destruct (String.eqb k m); [reflexivity | exact IH].
Qed.

Lemma has_app {A} k (l1 l2 : list (name * A)) : has k (l1 ++ l2) = has k l1 || has k l2.
Proof. unfold has. rewrite lookup_app. destruct (lookup k l1); reflexivity. Qed.

Lemma lookup_app_l {A} k (l1 l2 : list (name * A)) : has k l1 = true -> lookup k (l1 ++ l2) = lookup k l1.
Proof. unfold has. rewrite lookup_app. destruct (lookup k l1); [reflexivity | discriminate]. Qed.

Lemma lookup_app_r {A} k (l1 l2 : list (name * A)) : has k l1 = false -> lookup k (l1 ++ l2) = lookup k l2.
Proof. unfold has. rewrite lookup_app. destruct (lookup k l1); [discriminate | reflexivity]. Qed.

Lemma has_false_lookup {A} k (l : list (name * A)) : has k l = false -> lookup k l = None.
Proof. unfold has. destruct (lookup k l); [discriminate | reflexivity]. Qed.

Lemma lookup_map_key {B} (f : name -> name) (g : name -> B) (Hinj : forall a b, f a = f b -> a = b) p : forall l,
  In p l -> lookup (f p) (map (fun q => (f q, g q)) l) = Some (g p).
Proof.
  induction l as [|q r IH]; intros Hin; [destruct Hin|]. simpl.
  destruct (String.eqb (f p) (f q)) eqn:E.
  - apply String.eqb_eq in E. apply Hinj in E. now subst.
  - destruct Hin as [->|Hin]; [now rewrite String.eqb_refl in E | now apply IH].
Qed.

(** ---- all_some ---- *)
Lemma all_some_total {A B} (f : A -> option B) : forall l,
  (forall a, In a l -> exists b, f a = Some b) -> exists bs, Denote.all_some (map f l) = Some bs.
Proof.
  induction l as [|a r IH]; intros H; simpl; [eauto|].
  destruct (H a (or_introl eq_refl)) as [b ->].
  destruct IH as [bs ->]; [intros a' Ha'; apply H; now right|]. eauto.
Qed.

Lemma all_some_length {A} : forall (l : list (option A)) bs, Denote.all_some l = Some bs -> List.length bs = List.length l.
Proof.
  induction l as [|[a|] r IH]; intros bs H; simpl in H; [now inversion H | | discriminate].
  destruct (Denote.all_some r) as [r'|]; [|discriminate]. inversion H; subst. simpl. f_equal. now apply IH.
Qed.

Lemma all_some_ext_in {A B} (f g : A -> option B) : forall l,
  (forall a, In a l -> f a = g a) -> Denote.all_some (map f l) = Denote.all_some (map g l).
Proof.
  induction l as [|a r IH]; intros H; simpl; [reflexivity|].
  rewrite (H a (or_introl eq_refl)), IH; [reflexivity|]. intros a' Ha'. apply H. now right.
Qed.

Lemma all_some_map_map {A B C} (f : B -> option C) (h : A -> B) l :
  Denote.all_some (map (fun a => f (h a)) l) = Denote.all_some (map f (map h l)).
Proof. now rewrite map_map. Qed.

(** ---- a call with positional parameters 0,1,2,... in order ---- *)
Definition pos_preds (i : nat) (l : list name) : list (name * param) :=
  map (fun ip : nat * name => (snd ip, PInt (fst ip))) (enumerate_from i l).

Lemma pos_preds_fst : forall l i, map fst (pos_preds i l) = l.
Proof. unfold pos_preds. induction l as [|a r IH]; intros i; simpl; [reflexivity | now rewrite IH]. Qed.

Lemma pos_preds_snd : forall l i, map snd (pos_preds i l) = map PInt (seq i (List.length l)).
Proof. unfold pos_preds. induction l as [|a r IH]; intros i; simpl; [reflexivity | now rewrite IH]. Qed.

Lemma insert_arg_last a l :
  Forall (fun b : nat * value => fst b <= fst a) l -> insert_arg a l = l ++ [a].
Proof.
  induction 1 as [|b r Hb Hr IH]; simpl; [reflexivity|].
  destruct (Nat.ltb_spec (fst a) (fst b)); [lia | now rewrite IH].
Qed.

Lemma fold_insert_arg_sorted : forall n (vs : list value) i acc,
  Forall (fun b : nat * value => fst b < i) acc ->
  fold_left (fun acc a => insert_arg a acc) (combine (seq i n) vs) acc = acc ++ combine (seq i n) vs.
Proof.
  induction n as [|n IH]; intros vs i acc Hacc; simpl; [now rewrite app_nil_r|].
  destruct vs as [|v vs]; simpl; [now rewrite app_nil_r|].
  rewrite insert_arg_last.
  - rewrite IH; [now rewrite <- app_assoc|].
    apply Forall_app. split; [eapply Forall_impl; [|exact Hacc]; simpl; intros; lia | constructor; [simpl; lia | constructor]].
  - eapply Forall_impl; [|exact Hacc]. simpl. intros. lia.
Qed.

Lemma mk_call_args_fold : forall n (vs : list value) i acc,
  fold_left (fun acc (x : param * value) => match fst x with PInt j => acc ++ [(j, snd x)] | PStr _ => acc end)
            (combine (map PInt (seq i n)) vs) acc = acc ++ combine (seq i n) vs.
Proof.
  induction n as [|n IH]; intros vs i acc; simpl; [now rewrite app_nil_r|].
  destruct vs as [|v vs]; simpl; [now rewrite app_nil_r|].
  rewrite IH, <- app_assoc. reflexivity.
Qed.

Lemma mk_call_kwargs_fold : forall n (vs : list value) i (acc : list (name * value)),
  fold_left (fun acc (x : param * value) => match fst x with PStr s => set s (snd x) acc | PInt _ => acc end)
            (combine (map PInt (seq i n)) vs) acc = acc.
Proof.
  induction n as [|n IH]; intros vs i acc; simpl; [reflexivity|].
  destruct vs as [|v vs]; simpl; [reflexivity | apply IH].
Qed.

Lemma map_snd_combine_seq : forall n (vs : list value) i, List.length vs = n -> map snd (combine (seq i n) vs) = vs.
Proof.
  induction n as [|n IH]; intros [|v vs] i H; simpl in *; try discriminate; [reflexivity|].
  f_equal. apply IH. lia.
Qed.

Lemma mk_call_positional o n vs i :
  List.length vs = n -> mk_call o (combine (map PInt (seq i n)) vs) = VApp o vs [].
Proof.
  intros Hl. unfold mk_call. rewrite mk_call_args_fold, mk_call_kwargs_fold. simpl.
  rewrite fold_insert_arg_sorted by constructor. simpl. now rewrite map_snd_combine_seq.
Qed.

(** ---- positional parents ---- *)
Definition positional (ps : list (name * param)) : list (nat * name) :=
  flat_map (fun up : name * param => match snd up with PInt i => [(i, fst up)] | PStr _ => [] end) ps.

Lemma insert_parent_perm a l : Permutation (a :: l) (insert_parent a l).
Proof.
  induction l as [|c r IH]; simpl; [reflexivity|].
  destruct (Nat.ltb (fst a) (fst c)); [reflexivity|].
  rewrite perm_swap. now apply perm_skip.
Qed.

Lemma fold_insert_parent_perm : forall l acc,
  Permutation (l ++ acc) (fold_left (fun acc a => insert_parent a acc) l acc).
Proof.
  induction l as [|a r IH]; intros acc; simpl; [reflexivity|].
  rewrite <- IH. rewrite <- insert_parent_perm. apply Permutation_middle.
Qed.

Lemma get_parents_perm m c : Permutation (map snd (positional (preds (s_edges m) c))) (get_parents m c).
Proof.
  unfold get_parents. fold (positional (preds (s_edges m) c)). apply Permutation_map.
  rewrite <- fold_insert_parent_perm. now rewrite app_nil_r.
Qed.

Lemma positional_In i u ps : In (i, u) (positional ps) <-> In (u, PInt i) ps.
Proof.
  unfold positional. rewrite in_flat_map. split.
  - intros [[u' [j|s]] [Hin H]]; simpl in H; [|destruct H]. destruct H as [H|[]]. inversion H; now subst.
  - intros H. exists (u, PInt i). split; [exact H | now left].
Qed.

Lemma positional_nodup : forall ps, NoDup (map fst ps) -> NoDup (map snd (positional ps)).
Proof.
  induction ps as [|[u [i|s]] r IH]; simpl; intros H; [constructor | |]; inversion H as [|? ? Hu Hr]; subst.
  - constructor; [|now apply IH]. intros Hin. apply Hu.
    apply in_map_iff in Hin. destruct Hin as [[j u'] [Heq Hin]]. simpl in Heq. subst u'.
    apply positional_In in Hin. apply in_map_iff. exists (u, PInt j). auto.
  - now apply IH.
Qed.

(** a positional parent is the source of an edge into the node *)
Lemma get_parents_edge m c q : In q (get_parents m c) -> exists i, In (q, c, PInt i) (s_edges m).
Proof.
  intros H. apply (Permutation_in _ (Permutation_sym (get_parents_perm m c))) in H.
  apply in_map_iff in H. destruct H as [[i q'] [Heq Hin]]. simpl in Heq. subst q'.
  apply positional_In in Hin. exists i. now apply preds_In.
Qed.

Lemma get_parents_nodup m c : NoDup (map fst (s_edges m)) -> NoDup (get_parents m c).
Proof.
  intros H. eapply Permutation_NoDup; [apply get_parents_perm|].
  apply positional_nodup. now apply preds_nodup.
Qed.
