(** C08 composition: the modelled ModelPrior._evaluate_pdf IS the product specification.

    For every well-formed model and every well-formed request, whatever [evaluate] (augmentation by
    add_pdf_nodes, then ElfiModel.generate on the augmented net: compile -> load -> execute, then
    the reduce) returns is [joint_spec]: the reduce (product, or sum of logs) of the conditional
    density factors pdf_p(x_p; values of p's positional parents at x).

    The proof composes
      - the exact shape of the augmented net (this file, over Graph/Edit.v, using C08_Prior.v),
      - the end-to-end theorem [generate_sound] of C03_Twins.v (generate returns [den_name]),
      - a direct computation of [den] on the augmented net (depth 3: joint, density node, argument). *)
From Coq Require Import List String Ascii ZArith Arith Bool Lia Sorting.Permutation.
From Elfi Require Import Graph.Net Graph.Edit Graph.Denote Graph.Prior
     Proofs.C03_Exec Proofs.C03_Compile Proofs.C02_Order Proofs.C05_Cache Proofs.C03_EndToEnd Proofs.C03_Twins
     Proofs.C14_Edit Proofs.C08_Prior.
Import ListNotations.

(** Graph/Denote.v and Graph/Prior.v each define [all_some]; they are the same function. *)
Lemma all_some_same {A} : @Prior.all_some A = @Denote.all_some A.
Proof. reflexivity. Qed.

(** ---- strings: density-node names ---- *)
Fixpoint last_or (d : ascii) (s : string) : ascii :=
  match s with EmptyString => d | String c r => last_or c r end.

Lemma last_or_app d a c b : last_or d (String.append a (String c b)) = last_or c b.
Proof. revert d. induction a as [|e a IH]; intros d; simpl; [reflexivity | apply IH]. Qed.

Lemma pdf_node_last d log p : last_or d (pdf_node log p) = "f"%char.
Proof.
  unfold pdf_node. destruct log; cbn [pdf_attr]; simpl; rewrite last_or_app; reflexivity.
Qed.

Lemma pdf_node_not_reserved log p : ~ In (pdf_node log p) inames.
Proof.
  unfold inames. cbn [In]. intros [H|[H|[H|[]]]];
    apply (f_equal (last_or "_"%char)) in H; rewrite pdf_node_last in H; vm_compute in H; discriminate.
Qed.

Lemma pdf_node_inj log p q : pdf_node log p = pdf_node log q -> p = q.
Proof.
  unfold pdf_node. simpl. intros H. inversion H as [H1]. now apply str_app_inj_r in H1.
Qed.

Lemma joint_not_reserved : ~ In joint_node inames.
Proof. unfold inames, joint_node. cbn [In]. intros [H|[H|[H|[]]]]; discriminate. Qed.

(** ---- association lists ---- *)
Lemma lookup_app {A} k (l1 l2 : list (name * A)) :
  lookup k (l1 ++ l2) = match lookup k l1 with Some a => Some a | None => lookup k l2 end.
Proof.
  induction l1 as [|[m a] r IH]; simpl; [reflexivity|]. destruct (String.eqb k m); [reflexivity | exact IH].
Qed.

Lemma has_app {A} k (l1 l2 : list (name * A)) : has k (l1 ++ l2) = has k l1 || has k l2.
Proof. unfold has. rewrite lookup_app. destruct (lookup k l1); reflexivity. Qed.

Lemma lookup_app_l {A} k (l1 l2 : list (name * A)) : has k l1 = true -> lookup k (l1 ++ l2) = lookup k l1.
Proof. unfold has. rewrite lookup_app. destruct (lookup k l1); [reflexivity | discriminate]. Qed.

Lemma lookup_app_r {A} k (l1 l2 : list (name * A)) : has k l1 = false -> lookup k (l1 ++ l2) = lookup k l2.
Proof. unfold has. rewrite lookup_app. destruct (lookup k l1); [discriminate | reflexivity]. Qed.

Lemma has_false_lookup {A} k (l : list (name * A)) : has k l = false -> lookup k l = None.
Proof. unfold has. destruct (lookup k l); [discriminate | reflexivity]. Qed.

Lemma lookup_map_key {B} (f : name -> name) (g : name -> B) (Hinj : forall a b, f a = f b -> a = b) p : forall l,
  In p l -> lookup (f p) (map (fun q => (f q, g q)) l) = Some (g p).
Proof.
  induction l as [|q r IH]; intros Hin; [destruct Hin|]. simpl.
  destruct (String.eqb (f p) (f q)) eqn:E.
  - apply String.eqb_eq in E. apply Hinj in E. now subst.
  - destruct Hin as [->|Hin]; [now rewrite String.eqb_refl in E | now apply IH].
Qed.

(** ---- all_some ---- *)
Lemma all_some_total {A B} (f : A -> option B) : forall l,
  (forall a, In a l -> exists b, f a = Some b) -> exists bs, Denote.all_some (map f l) = Some bs.
Proof.
  induction l as [|a r IH]; intros H; simpl; [eauto|].
  destruct (H a (or_introl eq_refl)) as [b ->].
  destruct IH as [bs ->]; [intros a' Ha'; apply H; now right|]. eauto.
Qed.

Lemma all_some_length {A} : forall (l : list (option A)) bs, Denote.all_some l = Some bs -> List.length bs = List.length l.
Proof.
  induction l as [|[a|] r IH]; intros bs H; simpl in H; [now inversion H | | discriminate].
  destruct (Denote.all_some r) as [r'|]; [|discriminate]. inversion H; subst. simpl. f_equal. now apply IH.
Qed.

Lemma all_some_ext_in {A B} (f g : A -> option B) : forall l,
  (forall a, In a l -> f a = g a) -> Denote.all_some (map f l) = Denote.all_some (map g l).
Proof.
  induction l as [|a r IH]; intros H; simpl; [reflexivity|].
  rewrite (H a (or_introl eq_refl)), IH; [reflexivity|]. intros a' Ha'. apply H. now right.
Qed.

Lemma all_some_map_map {A B C} (f : B -> option C) (h : A -> B) l :
  Denote.all_some (map (fun a => f (h a)) l) = Denote.all_some (map f (map h l)).
Proof. now rewrite map_map. Qed.

(** ---- a call with positional parameters 0,1,2,... in order ---- *)
Definition pos_preds (i : nat) (l : list name) : list (name * param) :=
  map (fun ip : nat * name => (snd ip, PInt (fst ip))) (enumerate_from i l).

Lemma pos_preds_fst : forall l i, map fst (pos_preds i l) = l.
Proof. unfold pos_preds. induction l as [|a r IH]; intros i; simpl; [reflexivity | now rewrite IH]. Qed.

Lemma pos_preds_snd : forall l i, map snd (pos_preds i l) = map PInt (seq i (List.length l)).
Proof. unfold pos_preds. induction l as [|a r IH]; intros i; simpl; [reflexivity | now rewrite IH]. Qed.

Lemma insert_arg_last a l :
  Forall (fun b : nat * value => fst b <= fst a) l -> insert_arg a l = l ++ [a].
Proof.
  induction 1 as [|b r Hb Hr IH]; simpl; [reflexivity|].
  destruct (Nat.ltb_spec (fst a) (fst b)); [lia | now rewrite IH].
Qed.

Lemma fold_insert_arg_sorted : forall n (vs : list value) i acc,
  Forall (fun b : nat * value => fst b < i) acc ->
  fold_left (fun acc a => insert_arg a acc) (combine (seq i n) vs) acc = acc ++ combine (seq i n) vs.
Proof.
  induction n as [|n IH]; intros vs i acc Hacc; simpl; [now rewrite app_nil_r|].
  destruct vs as [|v vs]; simpl; [now rewrite app_nil_r|].
  rewrite insert_arg_last.
  - rewrite IH; [now rewrite <- app_assoc|].
    apply Forall_app. split; [eapply Forall_impl; [|exact Hacc]; simpl; intros; lia | constructor; [simpl; lia | constructor]].
  - eapply Forall_impl; [|exact Hacc]. simpl. intros. lia.
Qed.

Lemma mk_call_args_fold : forall n (vs : list value) i acc,
  fold_left (fun acc (x : param * value) => match fst x with PInt j => acc ++ [(j, snd x)] | PStr _ => acc end)
            (combine (map PInt (seq i n)) vs) acc = acc ++ combine (seq i n) vs.
Proof.
  induction n as [|n IH]; intros vs i acc; simpl; [now rewrite app_nil_r|].
  destruct vs as [|v vs]; simpl; [now rewrite app_nil_r|].
  rewrite IH, <- app_assoc. reflexivity.
Qed.

Lemma mk_call_kwargs_fold : forall n (vs : list value) i (acc : list (name * value)),
  fold_left (fun acc (x : param * value) => match fst x with PStr s => set s (snd x) acc | PInt _ => acc end)
            (combine (map PInt (seq i n)) vs) acc = acc.
Proof.
  induction n as [|n IH]; intros vs i acc; simpl; [reflexivity|].
  destruct vs as [|v vs]; simpl; [reflexivity | apply IH].
Qed.

Lemma map_snd_combine_seq : forall n (vs : list value) i, List.length vs = n -> map snd (combine (seq i n) vs) = vs.
Proof.
  induction n as [|n IH]; intros [|v vs] i H; simpl in *; try discriminate; [reflexivity|].
  f_equal. apply IH. lia.
Qed.

Lemma mk_call_positional o n vs i :
  List.length vs = n -> mk_call o (combine (map PInt (seq i n)) vs) = VApp o vs [].
Proof.
  intros Hl. unfold mk_call. rewrite mk_call_args_fold, mk_call_kwargs_fold. simpl.
  rewrite fold_insert_arg_sorted by constructor. simpl. now rewrite map_snd_combine_seq.
Qed.

(** ---- positional parents ---- *)
Definition positional (ps : list (name * param)) : list (nat * name) :=
  flat_map (fun up : name * param => match snd up with PInt i => [(i, fst up)] | PStr _ => [] end) ps.

Lemma insert_parent_perm a l : Permutation (a :: l) (insert_parent a l).
Proof.
  induction l as [|c r IH]; simpl; [reflexivity|].
  destruct (Nat.ltb (fst a) (fst c)); [reflexivity|].
  rewrite perm_swap. now apply perm_skip.
Qed.

Lemma fold_insert_parent_perm : forall l acc,
  Permutation (l ++ acc) (fold_left (fun acc a => insert_parent a acc) l acc).
Proof.
  induction l as [|a r IH]; intros acc; simpl; [reflexivity|].
  rewrite <- IH. rewrite <- insert_parent_perm. apply Permutation_middle.
Qed.

Lemma get_parents_perm m c : Permutation (map snd (positional (preds (s_edges m) c))) (get_parents m c).
Proof.
  unfold get_parents. fold (positional (preds (s_edges m) c)). apply Permutation_map.
  rewrite <- fold_insert_parent_perm. now rewrite app_nil_r.
Qed.

Lemma positional_In i u ps : In (i, u) (positional ps) <-> In (u, PInt i) ps.
Proof.
  unfold positional. rewrite in_flat_map. split.
  - intros [[u' [j|s]] [Hin H]]; simpl in H; [|destruct H]. destruct H as [H|[]]. inversion H; now subst.
  - intros H. exists (u, PInt i). split; [exact H | now left].
Qed.

Lemma positional_nodup : forall ps, NoDup (map fst ps) -> NoDup (map snd (positional ps)).
Proof.
  induction ps as [|[u [i|s]] r IH]; simpl; intros H; [constructor | |]; inversion H as [|? ? Hu Hr]; subst.
  - constructor; [|now apply IH]. intros Hin. apply Hu.
    apply in_map_iff in Hin. destruct Hin as [[j u'] [Heq Hin]]. simpl in Heq. subst u'.
    apply positional_In in Hin. apply in_map_iff. exists (u, PInt j). auto.
  - now apply IH.
Qed.

(** a positional parent is the source of an edge into the node *)
Lemma get_parents_edge m c q : In q (get_parents m c) -> exists i, In (q, c, PInt i) (s_edges m).
Proof.
  intros H. apply (Permutation_in _ (Permutation_sym (get_parents_perm m c))) in H.
  apply in_map_iff in H. destruct H as [[i q'] [Heq Hin]]. simpl in Heq. subst q'.
  apply positional_In in Hin. exists i. now apply preds_In.
Qed.

Lemma get_parents_nodup m c : NoDup (map fst (s_edges m)) -> NoDup (get_parents m c).
Proof.
  intros H. eapply Permutation_NoDup; [apply get_parents_perm|].
  apply positional_nodup. now apply preds_nodup.
Qed.

(** ---- small list facts ---- *)
Lemma NoDup_app_intro {A} (l1 l2 : list A) :
  NoDup l1 -> NoDup l2 -> (forall x, In x l1 -> ~ In x l2) -> NoDup (l1 ++ l2).
Proof.
  induction l1 as [|a r IH]; intros H1 H2 H; simpl; [exact H2|].
  inversion H1 as [|? ? Ha Hr]; subst. constructor.
  - intros Hin. apply in_app_iff in Hin. destruct Hin as [Hin|Hin]; [contradiction|]. apply (H a); [now left | exact Hin].
  - apply IH; [exact Hr | exact H2 |]. intros x Hx. apply H. now right.
Qed.

Lemma flat_map_ext_in {A B} (f g : A -> list B) : forall l,
  (forall a, In a l -> f a = g a) -> flat_map f l = flat_map g l.
Proof.
  induction l as [|a r IH]; intros H; simpl; [reflexivity|].
  rewrite (H a (or_introl eq_refl)), IH; [reflexivity|]. intros a' Ha'. apply H. now right.
Qed.

Lemma firstn_before_not_in n : forall l, ~ In n (firstn_before n l).
Proof.
  induction l as [|m r IH]; simpl; [tauto|].
  destruct (String.eqb n m) eqn:E; [tauto|]. apply String.eqb_neq in E.
  intros [H|H]; [congruence | contradiction].
Qed.

Lemma numbered_In e n : forall ps i, In e (numbered n ps i) -> e_dst e = n /\ In (e_src e) ps.
Proof.
  unfold numbered. induction ps as [|p r IH]; intros i H; simpl in H; [destruct H|].
  destruct H as [<-|H]; [split; [reflexivity | now left]|].
  destruct (IH _ H) as [H1 H2]. split; [exact H1 | now right].
Qed.

Lemma numbered_pairs n : forall ps i, map fst (numbered n ps i) = map (fun q => (q, n)) ps.
Proof. unfold numbered. induction ps as [|p r IH]; intros i; simpl; [reflexivity | now rewrite IH]. Qed.

Lemma preds_numbered_other n c ps i : c <> n -> preds (numbered n ps i) c = [].
Proof.
  intros Hne. apply preds_none. intros e He. apply numbered_In in He. destruct He as [-> _]. congruence.
Qed.

Lemma preds_numbered_pos n ps i : preds (numbered n ps i) n = pos_preds i ps.
Proof. apply preds_numbered. Qed.

(** ---- a cyclic augmented net is refused by the compiler ---- *)
Lemma compile_topo_ok src outs g : compile src outs = Ok g -> topo_ok src = true.
Proof.
  intros H. unfold compile in H.
  destruct (compile_outputs (s_nodes src)) as [cn|] eqn:Ec; simpl in H; [|discriminate].
  fold (topo_ok src) in H. destruct (topo_ok src) eqn:Et; simpl in H; [reflexivity | discriminate].
Qed.

Lemma topo_ok_no_self_loop src u p :
  topo_ok src = true -> In (u, u, p) (s_edges src) -> has u (s_nodes src) = true -> False.
Proof.
  intros Ht He Hu. unfold topo_ok in Ht. rewrite forallb_forall in Ht.
  assert (Hin : In u (topo_order src)) by (apply topo_order_In_rev; now apply has_In).
  specialize (Ht u Hin). rewrite forallb_forall in Ht.
  specialize (Ht (u, p) (In_preds _ _ _ _ He)). cbn [fst] in Ht. apply mem_In in Ht.
  exact (firstn_before_not_in u _ Ht).
Qed.

(** ---- one EAddNode step ---- *)
Lemma fold_add_err n : forall (l : list name) e,
  fold_left (fun r p => do mm <- r; add_edge_m mm p n None) l (Err e) = Err e.
Proof. induction l as [|x l IHl]; intros e; simpl; auto. Qed.

Lemma fold_parents_keeps n : forall ps m1 m2,
  fold_left (fun r p => do mm <- r; add_edge_m mm p n None) ps (Ok m1) = Ok m2 ->
  s_nodes m2 = s_nodes m1 /\ s_observed m2 = s_observed m1 /\
  (forall e, In e (s_edges m1) -> e_dst e <> n -> In e (s_edges m2)).
Proof.
  induction ps as [|p r IH]; intros m1 m2 H; simpl in H.
  - inversion H; subst. auto.
  - destruct (add_edge_m m1 p n None) as [m1'|e] eqn:Ea; simpl in H; [|rewrite fold_add_err in H; discriminate].
    unfold add_edge_m in Ea.
    destruct (has n (s_nodes m1)); simpl in Ea; [|discriminate].
    destruct (has p (s_nodes m1)); simpl in Ea; [|discriminate].
    inversion Ea; subst m1'. clear Ea.
    destruct (IH _ _ H) as [A [B C]]. simpl in A, B. split; [exact A|]. split; [exact B|].
    intros e He Hd. apply C; [|exact Hd]. simpl. apply add_edge_keeps; [exact He | now right].
Qed.

Lemma add_step_keeps m n st ps m' :
  step_model m (EAddNode 0 n st ps None) = Ok m' ->
  has n (s_nodes m) = false /\ s_nodes m' = s_nodes m ++ [(n, st)] /\ s_observed m' = s_observed m /\
  (forall e, In e (s_edges m) -> e_dst e <> n -> In e (s_edges m')).
Proof.
  intros H. simpl in H. unfold Edit.add_node in H.
  destruct (has n (s_nodes m)) eqn:Eh; simpl in H; [discriminate|].
  destruct (fold_left _ ps (Ok (with_nodes m (s_nodes m ++ [(n, st)])))) as [m2|] eqn:Ef; simpl in H; [|discriminate].
  inversion H; subst m'. destruct (fold_parents_keeps _ _ _ _ Ef) as [A [B C]]. simpl in A, B, C. auto.
Qed.

Lemma add_step_shape m n st ps m' :
  NoDup ps -> ~ In n ps -> (forall e, In e (s_edges m) -> e_dst e <> n) ->
  step_model m (EAddNode 0 n st ps None) = Ok m' ->
  s_edges m' = s_edges m ++ numbered n ps 0.
Proof.
  intros Hnd Hn H0 H. simpl in H. unfold Edit.add_node in H.
  destruct (has n (s_nodes m)) eqn:Eh; simpl in H; [discriminate|].
  destruct (fold_left _ ps (Ok (with_nodes m (s_nodes m ++ [(n, st)])))) as [m2|] eqn:Ef; simpl in H; [|discriminate].
  inversion H; subst m'.
  assert (He1 : s_edges (with_nodes m (s_nodes m ++ [(n, st)])) = s_edges m ++ numbered n [] 0) by (simpl; now rewrite app_nil_r).
  destruct (fold_parents_fresh n ps [] _ m2 (s_edges m) Hnd Hn He1 H0 Ef) as [A _]. exact A.
Qed.

(** the invariants of [wfsrc] that concern nodes and edges only *)
Record EdgeOK (m : snet) : Prop := {
  eo_nodup : NoDup (map fst (s_nodes m));
  eo_closed : forall e, In e (s_edges m) -> has (e_src e) (s_nodes m) = true /\ has (e_dst e) (s_nodes m) = true;
  eo_pairs : NoDup (map fst (s_edges m))
}.

Lemma wfsrc_EdgeOK m : wfsrc m -> EdgeOK m.
Proof. intros H. constructor; [exact (wf_nodup _ H) | exact (wf_edges _ H) | exact (wf_edge_nodup _ H)]. Qed.

Lemma has_single {A} n (a : A) : has n [(n, a)] = true.
Proof. unfold has. simpl. now rewrite String.eqb_refl. Qed.

Lemma add_step_ok m n st ps m' :
  EdgeOK m -> NoDup ps -> (forall q, In q ps -> has q (s_nodes m) = true) ->
  step_model m (EAddNode 0 n st ps None) = Ok m' ->
  EdgeOK m' /\ has n (s_nodes m) = false /\ s_nodes m' = s_nodes m ++ [(n, st)]
  /\ s_edges m' = s_edges m ++ numbered n ps 0 /\ s_observed m' = s_observed m.
Proof.
  intros Hok Hnd Hps H.
  destruct (add_step_keeps _ _ _ _ _ H) as [Hn [Hnodes [Hobs _]]].
  assert (Hnps : ~ In n ps) by (intros Hin; rewrite (Hps n Hin) in Hn; discriminate).
  assert (H0 : forall e, In e (s_edges m) -> e_dst e <> n).
  { intros e He Heq. destruct (eo_closed _ Hok e He) as [_ Hd]. rewrite Heq, Hn in Hd. discriminate. }
  pose proof (add_step_shape _ _ _ _ _ Hnd Hnps H0 H) as Hedges.
  split; [|auto]. constructor.
  - rewrite Hnodes, map_app. simpl. apply NoDup_app_snoc; [exact (eo_nodup _ Hok) | now apply has_false_In].
  - intros e He. rewrite Hedges in He. rewrite Hnodes, !has_app. apply in_app_iff in He. destruct He as [He|He].
    + destruct (eo_closed _ Hok e He) as [-> ->]. auto.
    + apply numbered_In in He. destruct He as [-> Hs]. rewrite (Hps _ Hs), has_single. split; [reflexivity | apply orb_true_r].
  - rewrite Hedges, map_app, numbered_pairs. apply NoDup_app_intro; [exact (eo_pairs _ Hok) | |].
    + apply NoDup_map_inj_in; [|exact Hnd]. intros a b _ _ Heq. now inversion Heq.
    + intros [u v] Hin Hin2. apply in_map_iff in Hin2. destruct Hin2 as [q [Heq _]]. inversion Heq; subst.
      apply in_map_iff in Hin. destruct Hin as [e [Heq2 He]]. apply (H0 e He). destruct e as [[a b] c]. simpl in Heq2.
      unfold e_dst. simpl. now inversion Heq2.
Qed.

(** ---- augmentation never removes a user edge (no hypothesis on the model) ---- *)
Definition Keeps (m a : snet) : Prop :=
  (forall k, has k (s_nodes m) = true -> has k (s_nodes a) = true) /\
  (forall e, In e (s_edges m) -> has (e_dst e) (s_nodes m) = true -> In e (s_edges a)).

Lemma Keeps_refl m : Keeps m m.
Proof. split; auto. Qed.

Lemma Keeps_trans m1 m2 m3 : Keeps m1 m2 -> Keeps m2 m3 -> Keeps m1 m3.
Proof. intros [A B] [C D]. split; [auto|]. intros e He Hd. apply D; [now apply B | now apply A]. Qed.

Lemma add_step_Keeps m n st ps m' : step_model m (EAddNode 0 n st ps None) = Ok m' -> Keeps m m'.
Proof.
  intros H. destruct (add_step_keeps _ _ _ _ _ H) as [Hn [Hnodes [_ Hk]]]. split.
  - intros k Hk'. rewrite Hnodes, has_app, Hk'. reflexivity.
  - intros e He Hd. apply Hk; [exact He|]. intros Heq. rewrite Heq, Hn in Hd. discriminate.
Qed.

Lemma add_dist_Keeps log : forall P m a, add_distribution_nodes m P log = Ok a -> Keeps m a.
Proof.
  induction P as [|p r IH]; intros m a H; cbn [add_distribution_nodes] in H.
  - inversion H; subst. apply Keeps_refl.
  - destruct (has p (s_nodes m)); cbn [negb] in H; [|discriminate].
    destruct (step_model m _) as [m1|] eqn:Es; cbn [bind] in H; [|discriminate].
    eapply Keeps_trans; [eapply add_step_Keeps; exact Es | now apply IH].
Qed.

Lemma augment_Keeps m P log a : augment m P log = Ok a -> Keeps m a.
Proof.
  unfold augment. intros H.
  destruct (add_distribution_nodes m P log) as [m1|] eqn:E1; cbn [bind] in H; [|discriminate].
  eapply Keeps_trans; [eapply add_dist_Keeps; exact E1 | eapply add_step_Keeps; exact H].
Qed.

(** a requested parameter that is its own positional parent makes the augmented net cyclic *)
Lemma augment_no_self_parent m P log a p :
  (forall e, In e (s_edges m) -> has (e_dst e) (s_nodes m) = true) ->
  augment m P log = Ok a -> topo_ok a = true -> ~ In p (get_parents m p).
Proof.
  intros Hcl Ha Ht Hin. destruct (get_parents_edge _ _ _ Hin) as [i He].
  destruct (augment_Keeps _ _ _ _ Ha) as [K1 K2].
  pose proof (Hcl _ He) as Hd. unfold e_dst in Hd. simpl in Hd.
  apply (topo_ok_no_self_loop a p (PInt i) Ht); [apply K2; [exact He | exact Hd] | now apply K1].
Qed.

(** ---- the exact shape of the augmented net ---- *)
Definition dens_nodes (m : snet) (log : bool) (P : list name) : list (name * sstate) :=
  map (fun p => (pdf_node log p, op_state (pdf_opid log (dist_id m p)))) P.

Definition dens_edges (m : snet) (log : bool) (P : list name) : list edge :=
  flat_map (fun p => numbered (pdf_node log p) (p :: get_parents m p) 0) P.

Lemma add_dist_shape log : forall P m a,
  EdgeOK m ->
  (forall p, In p P -> has p (s_nodes m) = true) ->
  (forall p, In p P -> ~ In p (get_parents m p)) ->
  add_distribution_nodes m P log = Ok a ->
  EdgeOK a /\ s_nodes a = s_nodes m ++ dens_nodes m log P /\ s_edges a = s_edges m ++ dens_edges m log P
  /\ s_observed a = s_observed m /\ (forall p, In p P -> has (pdf_node log p) (s_nodes m) = false).
Proof.
  induction P as [|p r IH]; intros m a Hok Hhas Hself H; cbn [add_distribution_nodes] in H.
  - inversion H; subst. unfold dens_nodes, dens_edges. simpl. rewrite !app_nil_r.
    split; [exact Hok|]. repeat split. intros ? [].
  - destruct (has p (s_nodes m)) eqn:Ehp; cbn [negb] in H; [|discriminate].
    destruct (step_model m _) as [m1|] eqn:Es; cbn [bind] in H; [|discriminate].
    assert (Hnd : NoDup (p :: get_parents m p)).
    { constructor; [apply Hself; now left | apply get_parents_nodup; exact (eo_pairs _ Hok)]. }
    assert (Hps : forall q, In q (p :: get_parents m p) -> has q (s_nodes m) = true).
    { intros q [<-|Hq]; [exact Ehp|]. destruct (get_parents_edge _ _ _ Hq) as [i He].
      exact (proj1 (eo_closed _ Hok _ He)). }
    destruct (add_step_ok _ _ _ _ _ Hok Hnd Hps Es) as [Hok1 [Hfresh [Hn1 [He1 Ho1]]]].
    assert (Hne : forall q, has q (s_nodes m) = true -> q <> pdf_node log p).
    { intros q Hq ->. rewrite Hq in Hfresh. discriminate. }
    assert (Hgp : forall q, has q (s_nodes m) = true -> get_parents m1 q = get_parents m q).
    { intros q Hq. eapply get_parents_other_child; [exact He1 | now apply Hne]. }
    assert (Hdi : forall q, has q (s_nodes m) = true -> dist_id m1 q = dist_id m q).
    { intros q Hq. unfold dist_id. now rewrite Hn1, lookup_app_l. }
    destruct (IH m1 a Hok1) as [A [B [C [D E]]]]; [ | | exact H | ].
    + intros q Hq. rewrite Hn1, has_app, (Hhas q (or_intror Hq)). reflexivity.
    + intros q Hq. rewrite Hgp by (apply Hhas; now right). apply Hself. now right.
    + split; [exact A|]. split; [|split; [|split]].
      * rewrite B, Hn1, <- app_assoc. unfold dens_nodes. cbn [map app]. do 2 f_equal.
        apply map_ext_in. intros q Hq. now rewrite Hdi by (apply Hhas; now right).
      * rewrite C, He1, <- app_assoc. unfold dens_edges. cbn [flat_map]. do 2 f_equal.
        apply flat_map_ext_in. intros q Hq. now rewrite Hgp by (apply Hhas; now right).
      * congruence.
      * intros q [<-|Hq]; [exact Hfresh|]. pose proof (E q Hq) as Hq1. rewrite Hn1, has_app in Hq1.
        now apply orb_false_iff in Hq1.
Qed.

Lemma has_dens_nodes m log P p : In p P -> has (pdf_node log p) (dens_nodes m log P) = true.
Proof.
  intros Hin. unfold has, dens_nodes.
  rewrite (lookup_map_key (pdf_node log) (fun p => op_state (pdf_opid log (dist_id m p))) (pdf_node_inj log) p P Hin).
  reflexivity.
Qed.

Record Augmented (m : snet) (P : list name) (log : bool) (a : snet) : Prop := {
  au_ok : EdgeOK a;
  au_nodes : s_nodes a = s_nodes m ++ dens_nodes m log P ++ [(joint_node, op_state "reduce"%string)];
  au_edges : s_edges a = s_edges m ++ dens_edges m log P ++ numbered joint_node (map (pdf_node log) P) 0;
  au_observed : s_observed a = s_observed m;
  au_fresh : forall p, In p P -> has (pdf_node log p) (s_nodes m) = false;
  au_joint_fresh : has joint_node (s_nodes m) = false;
  au_joint_ne : forall p, In p P -> joint_node <> pdf_node log p
}.

Lemma augment_shape m P log a :
  EdgeOK m -> NoDup P ->
  (forall p, In p P -> has p (s_nodes m) = true) ->
  (forall p, In p P -> ~ In p (get_parents m p)) ->
  augment m P log = Ok a -> Augmented m P log a.
Proof.
  intros Hok HndP Hhas Hself H. unfold augment in H.
  destruct (add_distribution_nodes m P log) as [m1|] eqn:E1; cbn [bind] in H; [|discriminate].
  destruct (add_dist_shape log P m m1 Hok Hhas Hself E1) as [Hok1 [Hn1 [He1 [Ho1 Hfresh]]]].
  assert (Hnd : NoDup (map (pdf_node log) P)).
  { apply NoDup_map_inj_in; [|exact HndP]. intros x y _ _. apply pdf_node_inj. }
  assert (Hps : forall q, In q (map (pdf_node log) P) -> has q (s_nodes m1) = true).
  { intros q Hq. apply in_map_iff in Hq. destruct Hq as [p [<- Hp]].
    rewrite Hn1, has_app, (has_dens_nodes m log P p Hp). apply orb_true_r. }
  destruct (add_step_ok _ _ _ _ _ Hok1 Hnd Hps H) as [Hok2 [Hjf [Hn2 [He2 Ho2]]]].
  rewrite Hn1, has_app in Hjf. apply orb_false_iff in Hjf. destruct Hjf as [Hj1 Hj2].
  constructor.
  - exact Hok2.
  - now rewrite Hn2, Hn1, <- app_assoc.
  - now rewrite He2, He1, <- app_assoc.
  - congruence.
  - exact Hfresh.
  - exact Hj1.
  - intros p Hp Heq. rewrite Heq, (has_dens_nodes m log P p Hp) in Hj2. discriminate.
Qed.

(** ---- nodes and predecessors of the augmented net ---- *)
Section Aug.
  Variables (m : snet) (P : list name) (log : bool) (a : snet).
  Hypothesis Hm : EdgeOK m.
  Hypothesis HP : NoDup P.
  Hypothesis Ha : Augmented m P log a.

  Lemma dens_names : map fst (dens_nodes m log P) = map (pdf_node log) P.
  Proof. unfold dens_nodes. rewrite map_map. reflexivity. Qed.

  Lemma joint_not_dens : has joint_node (dens_nodes m log P) = false.
  Proof.
    apply has_false_In. rewrite dens_names. intros Hin. apply in_map_iff in Hin. destruct Hin as [p [Heq Hp]].
    exact (au_joint_ne _ _ _ _ Ha p Hp (eq_sym Heq)).
  Qed.

  Lemma aug_lookup_old k : has k (s_nodes m) = true -> lookup k (s_nodes a) = lookup k (s_nodes m).
  Proof. intros H. now rewrite (au_nodes _ _ _ _ Ha), lookup_app_l. Qed.

  Lemma aug_lookup_dens p : In p P ->
    lookup (pdf_node log p) (s_nodes a) = Some (op_state (pdf_opid log (dist_id m p))).
  Proof.
    intros Hp. rewrite (au_nodes _ _ _ _ Ha), lookup_app_r by exact (au_fresh _ _ _ _ Ha p Hp).
    rewrite lookup_app_l by now apply has_dens_nodes.
    exact (lookup_map_key (pdf_node log) (fun p => op_state (pdf_opid log (dist_id m p))) (pdf_node_inj log) p P Hp).
  Qed.

  Lemma aug_lookup_joint : lookup joint_node (s_nodes a) = Some (op_state "reduce"%string).
  Proof.
    rewrite (au_nodes _ _ _ _ Ha), lookup_app_r by exact (au_joint_fresh _ _ _ _ Ha).
    rewrite lookup_app_r by exact joint_not_dens. reflexivity.
  Qed.

  Lemma no_edge_into_fresh n : has n (s_nodes m) = false -> preds (s_edges m) n = [].
  Proof.
    intros Hn. apply preds_none. intros e He Heq. destruct (eo_closed _ Hm e He) as [_ Hd].
    rewrite Heq, Hn in Hd. discriminate.
  Qed.

  Lemma aug_preds_joint : preds (s_edges a) joint_node = pos_preds 0 (map (pdf_node log) P).
  Proof.
    rewrite (au_edges _ _ _ _ Ha), !preds_app, (no_edge_into_fresh _ (au_joint_fresh _ _ _ _ Ha)).
    rewrite preds_numbered_pos. cbn [app].
    rewrite (preds_none (dens_edges m log P)); [reflexivity|].
    intros e He Heq. unfold dens_edges in He. apply in_flat_map in He. destruct He as [p [Hp He]].
    apply numbered_In in He. destruct He as [Hd _]. rewrite Hd in Heq.
    exact (au_joint_ne _ _ _ _ Ha p Hp (eq_sym Heq)).
  Qed.

  Lemma aug_preds_dens p : In p P ->
    preds (s_edges a) (pdf_node log p) = pos_preds 0 (p :: get_parents m p).
  Proof.
    intros Hp.
    rewrite (au_edges _ _ _ _ Ha), !preds_app, (no_edge_into_fresh _ (au_fresh _ _ _ _ Ha p Hp)).
    rewrite (preds_numbered_other joint_node) by (intros Heq; exact (au_joint_ne _ _ _ _ Ha p Hp (eq_sym Heq))).
    rewrite app_nil_r. cbn [app]. unfold dens_edges.
    rewrite preds_flat_map, (flat_map_single _ p P HP Hp).
    - apply preds_numbered_pos.
    - intros b _ Hne. apply preds_numbered_other. intros Heq. apply pdf_node_inj in Heq. congruence.
  Qed.

  (** the augmented net of a well-formed model is well formed *)
  Lemma aug_wfsrc : wfsrc m -> wfsrc a.
  Proof.
    intros Hwf. pose proof (au_ok _ _ _ _ Ha) as Hok. constructor.
    - exact (eo_nodup _ Hok).
    - exact (eo_closed _ Hok).
    - exact (eo_pairs _ Hok).
    - intros n Hn. rewrite (au_nodes _ _ _ _ Ha), !has_app, (wf_reserved _ Hwf n Hn). cbn [orb].
      apply orb_false_iff. split.
      + apply has_false_In. rewrite dens_names. intros Hin. apply in_map_iff in Hin. destruct Hin as [p [<- _]].
        exact (pdf_node_not_reserved _ _ Hn).
      + unfold has. cbn [lookup]. destruct (String.eqb n joint_node) eqn:E; [|reflexivity].
        apply String.eqb_eq in E. subst n. exfalso. exact (joint_not_reserved Hn).
    - intros n st Hin Ho. rewrite (au_nodes _ _ _ _ Ha) in Hin. apply in_app_iff in Hin. destruct Hin as [Hin|Hin].
      + exact (wf_obs_output _ Hwf n st Hin Ho).
      + apply in_app_iff in Hin. destruct Hin as [Hin|[Hin|[]]].
        * unfold dens_nodes in Hin. apply in_map_iff in Hin. destruct Hin as [p [Heq _]]. inversion Heq; subst. discriminate.
        * inversion Hin; subst. discriminate.
    - rewrite (au_observed _ _ _ _ Ha). exact (wf_observed_nodup _ Hwf).
    - intros k Hk. rewrite (au_observed _ _ _ _ Ha) in Hk. pose proof (wf_observed_nodes _ Hwf k Hk) as Hf.
      destruct (flag_true _ _ _ Hf) as [st [Hl Ho]]. unfold flag, sstate_of.
      rewrite aug_lookup_old by (unfold has; now rewrite Hl). now rewrite Hl.
  Qed.
End Aug.

(** ---- the dataflow meaning on the augmented net ---- *)
Lemma den_op_node src W f n id :
  lookup n W = None -> lookup n (s_nodes src) = Some (op_state id) ->
  den (S f) src W false n =
  match Denote.all_some (map (fun pp : name * param => den f src W false (fst pp)) (preds (s_edges src) n)) with
  | Some vs => Some (mk_call (OpUser id) (combine (map snd (preds (s_edges src) n)) vs))
  | None => None
  end.
Proof.
  intros HW Hl. rewrite (den_plain_step src W f n _ Hl), HW. unfold op_state.
  cbn [s_output s_uses_observed s_observable s_uses_batch_size s_uses_meta s_stochastic s_opid andb negb].
  destruct (Denote.all_some _); [|reflexivity]. cbn [app]. now rewrite app_nil_r.
Qed.

Lemma all_some_pointwise {A B} (f g : A -> option B) : forall l bs,
  Denote.all_some (map g l) = Some bs -> (forall a v, In a l -> g a = Some v -> f a = Some v) ->
  Denote.all_some (map f l) = Some bs.
Proof.
  induction l as [|a r IH]; intros bs H Hp; simpl in *; [exact H|].
  destruct (g a) as [v|] eqn:Eg; [|discriminate]. rewrite (Hp a v (or_introl eq_refl) Eg).
  destruct (Denote.all_some (map g r)) as [r'|] eqn:Er; [|discriminate].
  rewrite (IH r' eq_refl); [exact H|]. intros a' v' Ha'. apply Hp. now right.
Qed.

Section Meaning.
  Variables (m : snet) (P : list name) (log : bool) (a : snet) (x : list (name * value)).
  Hypothesis Hm : EdgeOK m.
  Hypothesis HP : NoDup P.
  Hypothesis Ha : Augmented m P log a.
  Hypothesis Hx : forall k, In k (map fst x) -> has k (s_nodes m) = true.

  Lemma fresh_not_supplied n : has n (s_nodes m) = false -> lookup n x = None.
  Proof. intros Hn. apply lookup_None_iff. intros Hin. rewrite (Hx n Hin) in Hn. discriminate. Qed.

  (** an argument of a density node: the supplied column, or the constant *)
  Lemma den_arg f q v : has q (s_nodes m) = true -> arg_value m x q = Some v -> den (S f) a x false q = Some v.
  Proof.
    intros Hq Hv. apply has_lookup in Hq. destruct Hq as [st Hst].
    assert (Hst' : lookup q (s_nodes a) = Some st).
    { rewrite (aug_lookup_old m P log a Ha) by (unfold has; now rewrite Hst). exact Hst. }
    rewrite (den_plain_step a x f q st Hst'). unfold arg_value in Hv.
    destruct (lookup q x); [exact Hv|]. rewrite Hst in Hv. now rewrite Hv.
  Qed.

  (** a density node means the conditional density factor of its parameter *)
  Lemma den_density f p fp : In p P -> has p (s_nodes m) = true ->
    factor m log x p = Some fp -> den (S (S f)) a x false (pdf_node log p) = Some fp.
  Proof.
    intros Hp Hhp Hf.
    rewrite (den_op_node a x (S f) _ _ (fresh_not_supplied _ (au_fresh _ _ _ _ Ha p Hp)) (aug_lookup_dens m P log a Ha p Hp)).
    rewrite (aug_preds_dens m P log a Hm HP Ha p Hp), pos_preds_snd.
    rewrite (all_some_map_map (den (S f) a x false) fst), pos_preds_fst.
    unfold factor in Hf. destruct (lookup p x) as [xp|] eqn:Exp; [|discriminate].
    rewrite all_some_same in Hf.
    destruct (Denote.all_some (map (arg_value m x) (get_parents m p))) as [args|] eqn:Eargs; [|discriminate].
    inversion Hf; subst fp. clear Hf.
    assert (Hall : Denote.all_some (map (arg_value m x) (p :: get_parents m p)) = Some (xp :: args)).
    { cbn [map Denote.all_some]. unfold arg_value at 1. now rewrite Exp, Eargs. }
    rewrite (all_some_pointwise (den (S f) a x false) (arg_value m x) _ _ Hall).
    - rewrite mk_call_positional; [reflexivity|].
      apply all_some_length in Hall. now rewrite map_length in Hall.
    - intros q v Hq Hv. apply den_arg; [|exact Hv]. destruct Hq as [<-|Hq]; [exact Hhp|].
      destruct (get_parents_edge _ _ _ Hq) as [i He]. exact (proj1 (eo_closed _ Hm _ He)).
  Qed.

  (** the joint node means the reduce call over the factors, in request order *)
  Lemma den_joint f fs : (forall p, In p P -> has p (s_nodes m) = true) ->
    Prior.all_some (map (factor m log x) P) = Some fs ->
    den (S (S (S f))) a x false joint_node = Some (VApp (OpUser "reduce"%string) fs []).
  Proof.
    intros Hhas Hfs. rewrite all_some_same in Hfs.
    rewrite (den_op_node a x (S (S f)) _ _ (fresh_not_supplied _ (au_joint_fresh _ _ _ _ Ha)) (aug_lookup_joint m P log a Ha)).
    rewrite (aug_preds_joint m P log a Hm Ha), pos_preds_snd.
    rewrite (all_some_map_map (den (S (S f)) a x false) fst), pos_preds_fst, map_map.
    rewrite (all_some_pointwise (fun p => den (S (S f)) a x false (pdf_node log p)) (factor m log x) _ _ Hfs).
    - rewrite mk_call_positional; [reflexivity|].
      apply all_some_length in Hfs. now rewrite !map_length in *.
    - intros p fp Hp Hf. apply den_density; auto.
  Qed.
End Meaning.

(** ---- decoding the request check ---- *)
Lemma nodup_names_sound l : nodup_names l = true -> NoDup l.
Proof.
  induction l as [|a r IH]; cbn [nodup_names]; intros H; [constructor|].
  apply andb_true_iff in H. destruct H as [H1 H2]. constructor; [|now apply IH].
  intros Hin. apply mem_In in Hin. rewrite Hin in H1. discriminate.
Qed.

Lemma wf_request_inv m P : wf_request m P = true ->
  NoDup P /\
  (forall p, In p P -> has p (s_nodes m) = true) /\
  (forall p q, In p P -> In q (get_parents m p) ->
     In q P \/ exists sq v, lookup q (s_nodes m) = Some sq /\ s_output sq = Some v).
Proof.
  unfold wf_request. intros H.
  apply andb_true_iff in H. destruct H as [H H3]. apply andb_true_iff in H. destruct H as [H1 _].
  rewrite forallb_forall in H3. split; [now apply nodup_names_sound|]. split.
  - intros p Hp. specialize (H3 p Hp). unfold has. destruct (lookup p (s_nodes m)); [reflexivity | discriminate].
  - intros p q Hp Hq. specialize (H3 p Hp). destruct (lookup p (s_nodes m)) as [st|]; [|discriminate].
    apply andb_true_iff in H3. destruct H3 as [_ H3]. rewrite forallb_forall in H3. specialize (H3 q Hq).
    apply orb_true_iff in H3. destruct H3 as [H3|H3]; [left; now apply mem_In|]. right.
    destruct (lookup q (s_nodes m)) as [sq|]; [|discriminate].
    destruct (s_output sq) as [v|] eqn:Eo; [|discriminate]. eauto.
Qed.

Lemma generate_topo_ok src outs W r : generate src outs W = Ok r -> topo_ok src = true.
Proof.
  unfold generate. intros H. destruct (compile src outs) as [g|] eqn:Ec; cbn [bind] in H; [|discriminate].
  exact (compile_topo_ok _ _ _ Ec).
Qed.

(** The specification is total on a well-formed request whose parameters are all supplied. *)
Lemma joint_factors_total m P log x :
  wf_request m P = true -> (forall p, In p P -> In p (map fst x)) ->
  exists fs, Prior.all_some (map (factor m log x) P) = Some fs.
Proof.
  intros Hreq Hsup. destruct (wf_request_inv _ _ Hreq) as [_ [_ Hpar]].
  rewrite all_some_same. apply all_some_total. intros p Hp. unfold factor.
  destruct (In_lookup _ _ (Hsup p Hp)) as [xp ->].
  rewrite all_some_same.
  destruct (all_some_total (arg_value m x) (get_parents m p)) as [args ->]; [|eauto].
  intros q Hq. unfold arg_value. destruct (Hpar p q Hp Hq) as [HqP | [sq [v [Hl Ho]]]].
  - destruct (In_lookup _ _ (Hsup q HqP)) as [xq ->]. eauto.
  - destruct (lookup q x); [eauto|]. rewrite Hl. eauto.
Qed.

(** ---- the composition ---- *)
(** For EVERY well-formed model and every well-formed request: whatever the modelled
    ModelPrior._evaluate_pdf returns is the reduce of the conditional density factors.

    Hypotheses on the supplied point [x]: its columns are distinct, each is a node of the user's
    model (so none is a density node, the joint node or a runtime node), and every requested
    parameter has a column.  Freshness of the names "_p_pdf" / "_joint" and acyclicity are NOT
    assumed: [evaluate] fails (add_node raises on an existing name, the compiler refuses a cycle)
    when they do not hold. *)
Theorem evaluate_is_joint_spec_gen m P log x t :
  wfsrc m ->
  wf_request m P = true ->
  NoDup (map fst x) ->
  (forall k, In k (map fst x) -> has k (s_nodes m) = true) ->
  (forall p, In p P -> In p (map fst x)) ->
  evaluate m P log x = Ok t ->
  joint_spec m P log x = Some t.
Proof.
  intros Hwf Hreq Hxnd Hxm Hsup Hev.
  destruct (wf_request_inv _ _ Hreq) as [HP [Hhas Hpar]].
  pose proof (wfsrc_EdgeOK _ Hwf) as Hm.
  unfold evaluate in Hev. destruct (augment m P log) as [a|] eqn:Eaug; cbn [bind] in Hev; [|discriminate].
  unfold evaluate_in in Hev.
  destruct (generate a [joint_node] x) as [[out lg]|] eqn:Eg; cbn [bind fst] in Hev; [|discriminate].
  destruct (lookup joint_node out) as [v|] eqn:Ev; [|discriminate].
  destruct (interp_reduce log v) as [t'|] eqn:Ei; [|discriminate]. inversion Hev; subst t'. clear Hev.
  (* the augmented net is acyclic, hence no requested parameter is its own parent *)
  pose proof (generate_topo_ok _ _ _ _ Eg) as Ht.
  assert (Hself : forall p, In p P -> ~ In p (get_parents m p)).
  { intros p _. apply (augment_no_self_parent m P log a p); [|exact Eaug | exact Ht].
    intros e He. exact (proj2 (wf_edges _ Hwf e He)). }
  pose proof (augment_shape m P log a Hm HP Hhas Hself Eaug) as Ha.
  pose proof (aug_wfsrc m P log a Ha Hwf) as Hwfa.
  (* generate returns the dataflow meaning of the joint node *)
  assert (Hxi : forall k, In k (map fst x) -> ~ In k inames).
  { intros k Hk Hi. pose proof (Hxm k Hk) as Hk'. rewrite (wf_reserved _ Hwf k Hi) in Hk'. discriminate. }
  assert (Hden : den_name a x joint_node = Some v).
  { apply (generate_sound a [joint_node] x out lg Hwfa Hxnd Hxi Eg joint_node v (lookup_In_pair _ _ _ Ev)).
    left. unfold has. now rewrite (aug_lookup_joint m P log a Ha). }
  (* which is the reduce call over the factors *)
  destruct (joint_factors_total m P log x Hreq Hsup) as [fs Hfs].
  unfold den_name, sstate_of in Hden. rewrite (aug_lookup_joint m P log a Ha) in Hden.
  assert (Hfuel : exists f, den_fuel a = S (S (S f))) by (exists (2 * List.length (s_nodes a)); unfold den_fuel; lia).
  destruct Hfuel as [f Hfuel]. rewrite Hfuel in Hden.
  rewrite (den_joint m P log a x Hm HP Ha Hxm f fs Hhas Hfs) in Hden. inversion Hden; subst v. clear Hden.
  unfold joint_spec. rewrite Hfs. exact Ei.
Qed.

(** The form of the brief: the supplied columns are exactly the requested parameters. *)
Theorem evaluate_is_joint_spec m P log x t :
  wfsrc m ->
  wf_request m P = true ->
  map fst x = P ->
  evaluate m P log x = Ok t ->
  joint_spec m P log x = Some t.
Proof.
  intros Hwf Hreq Hx Hev. destruct (wf_request_inv _ _ Hreq) as [HP [Hhas _]].
  apply evaluate_is_joint_spec_gen; try assumption; rewrite Hx; auto.
Qed.
