(** Proofs for the numeric clauses of C07 (importance weights, proposal covariance, prior support):
    what the code computes is what the property states (through the C13 theorems on
    GMDistribution.pdf and weighted_var), neither depends on the common factor of the (unnormalised)
    weights of the previous population, and the decidable predicate [Smc.num_ok] is sound. *)
From Coq Require Import List ZArith QArith Qabs Bool Arith Lia Lqa Setoid Morphisms.
From Elfi Require Import Num.Quantile Proofs.C13_Quantile Proofs.C13_Stats.
From Elfi Require Sched.Smc.
Import ListNotations.
Import Smc.
Open Scope Q_scope.

(** the weight the code computes is prior density / density of the mixture of the previous population *)
Theorem smc_weight_spec prior dens wprev w :
  model_weight prior dens wprev = Some w -> w == spec_weight prior dens wprev.
Proof.
  unfold model_weight, spec_weight. destruct (gm_pdf dens (Some wprev)) as [q|] eqn:E; [|discriminate].
  destruct (Qeq_bool q 0); [discriminate|]. intro H. apply some_inj in H. rewrite <- H, Qred_correct.
  pose proof (gm_pdf_spec _ _ _ E) as S. unfold weights_of in S. now rewrite S.
Qed.

(** ... and only the ratios of the previous population's weights enter *)
Theorem smc_weight_scale_invariant c prior dens wprev w :
  0 < c -> model_weight prior dens wprev = Some w ->
  exists w', model_weight prior dens (map (Qmult c) wprev) = Some w' /\ w == w'.
Proof.
  intros Hc. unfold model_weight. destruct (gm_pdf dens (Some wprev)) as [q|] eqn:E; [|discriminate].
  destruct (gm_pdf_scale_invariant c dens wprev q Hc E) as (q' & -> & Eq).
  destruct (Qeq_bool q 0) eqn:Z; [discriminate|]. intro H. apply some_inj in H.
  assert (Z' : Qeq_bool q' 0 = false).
  { destruct (Qeq_bool q' 0) eqn:Z'; [|reflexivity]. apply Qeq_bool_eq in Z'.
    rewrite <- Eq in Z'. apply Qeq_eq_bool in Z'. congruence. }
  rewrite Z'. eexists. split; [reflexivity|]. rewrite <- H, !Qred_correct. now rewrite Eq.
Qed.

(** the covariance entry the code computes is twice the reliability-weights sample variance *)
Theorem smc_cov_spec col ws v :
  model_cov col ws = Some v -> v == spec_cov col ws.
Proof.
  unfold model_cov, spec_cov, weighted_var.
  destruct (negb (length ws =? length col)%nat); [discriminate|].
  destruct (wvar_rows (combine col ws)) as [u|] eqn:E; [|discriminate].
  cbn [option_map]. intro H. apply some_inj in H. rewrite <- H, Qred_correct.
  now rewrite (weighted_var_reliability _ _ E).
Qed.

(** ... whatever the common factor of the weights *)
Theorem smc_cov_scale_invariant c col ws v v' :
  ~ c == 0 -> model_cov col ws = Some v -> model_cov col (map (Qmult c) ws) = Some v' -> v == v'.
Proof.
  unfold model_cov, weighted_var. intro Hc. rewrite map_length.
  destruct (negb (length ws =? length col)%nat); [discriminate|].
  rewrite combine_map_r.
  destruct (wvar_rows (combine col ws)) as [u|] eqn:E; [|discriminate].
  destruct (wvar_rows (map _ (combine col ws))) as [u'|] eqn:E'; [|discriminate].
  cbn [option_map]. intros H H'. apply some_inj in H. apply some_inj in H'. rewrite <- H, <- H', !Qred_correct.
  now rewrite (weighted_var_scale_invariant _ c u u' Hc E E').
Qed.

(** ---- soundness of the decidable statement ---- *)
Lemma rel_close_sound tol a b : rel_close tol a b = true -> Qabs (a - b) <= tol * Qabs a.
Proof. unfold rel_close. apply Qle_bool_imp_le. Qed.

Lemma in_zip3 {A B C} (a : list A) : forall (b : list B) (c : list C) i x y z,
  nth_error a i = Some x -> nth_error b i = Some y -> nth_error c i = Some z -> In (x, y, z) (zip3 a b c).
Proof.
  induction a as [|x0 a IH]; intros [|y0 b] [|z0 c] [|i] x y z Ha Hb Hc; simpl in *; try discriminate.
  - left. congruence.
  - right. eapply IH; eauto.
Qed.

(** the previous population's weights seen by population [i] *)
Definition prev_weights (ps : list npop) (i : nat) : option (list Q) :=
  match i with
  | O => None
  | S j => match nth_error ps j with Some q => finite_weights q | None => None end
  end.

Lemma over_pops_nth f : forall ps prev i p,
  over_pops f prev ps = true -> nth_error ps i = Some p ->
  f (match i with O => prev | S _ => prev_weights ps i end) p = true.
Proof.
  induction ps as [|q r IH]; intros prev i p H Hn; [destruct i; discriminate|].
  simpl in H. apply andb_true_iff in H as [H1 H2]. destruct i as [|i]; simpl in Hn.
  - injection Hn as <-. exact H1.
  - specialize (IH _ i p H2 Hn). destruct i as [|i]; simpl in *; exact IH.
Qed.

(** Every population that passes [num_ok]: all particles have positive prior density (oracle flag), all
    weights are finite and non-negative; the first population's weights are 1; a later weight is,
    within the purely relative tolerance, the particle's prior density divided by the density of the
    Gaussian mixture of the previous population with ITS weights. *)
Theorem num_ok_sound n ps i p :
  num_ok n ps = true -> nth_error ps i = Some p ->
  Forall (fun b => b = true) (q_support p) /\
  exists ws, finite_weights p = Some ws /\ Forall (Qle 0) ws /\
    match prev_weights ps i with
    | None => i = O -> Forall (fun w => w == 1) ws
    | Some wprev =>
        forall k w prior dens,
          nth_error ws k = Some w -> nth_error (q_prior p) k = Some (Some prior) -> nth_error (q_dens p) k = Some dens ->
          Qabs (spec_weight prior dens wprev - w) <= weight_tol * Qabs (spec_weight prior dens wprev)
    end.
Proof.
  intros H Hn. pose proof (over_pops_nth _ _ _ _ _ H Hn) as K.
  assert (K' : npop_ok n (prev_weights ps i) p = true) by (destruct i; exact K). clear K.
  unfold npop_ok in K'. repeat (apply andb_true_iff in K' as [K' ?]).
  split; [apply Forall_forall; intros b Hb; rewrite forallb_forall in *; auto|].
  destruct (finite_weights p) as [ws|]; [|discriminate].
  exists ws. split; [reflexivity|].
  match goal with X : (_ && _ && _) = true |- _ => repeat (apply andb_true_iff in X as [X ?]); rename X into Hnn end.
  split.
  { apply Forall_forall. intros w Hw. rewrite forallb_forall in Hnn. apply Qle_bool_imp_le. auto. }
  destruct (prev_weights ps i) as [wprev|].
  - intros k w prior dens Hw Hp Hd.
    match goal with X : weights_by _ _ _ = true |- _ => unfold weights_by in X; repeat (apply andb_true_iff in X as [X ?]) end.
    match goal with X : forallb _ (zip3 _ _ _) = true |- _ => rewrite forallb_forall in X;
      specialize (X _ (in_zip3 _ _ _ _ _ _ _ Hw Hp Hd)); simpl in X; now apply rel_close_sound in X end.
  - intros _. apply Forall_forall. intros w Hw.
    match goal with X : forallb (fun w => Qeq_bool w 1) ws = true |- _ => rewrite forallb_forall in X; apply Qeq_bool_eq; auto end.
Qed.

(** the covariance clause: entry (k, k) is, within [cov_tol], twice the weighted sample variance of
    coordinate k; every off-diagonal entry is 0 *)
Lemma in_combine_seq {A} (l : list A) : forall s k x, nth_error l k = Some x -> In ((s + k)%nat, x) (combine (seq s (length l)) l).
Proof.
  induction l as [|a l IH]; intros s [|k] x H; simpl in *; try discriminate.
  - left. injection H as <-. f_equal. lia.
  - right. replace (s + S k)%nat with (S s + k)%nat by lia. now apply IH.
Qed.

Theorem cov_by_sound f tol p k j row e :
  cov_by f tol p = true -> nth_error (q_cov p) k = Some row -> nth_error row j = Some e ->
  exists c, e = Some c /\
    if (j =? k)%nat then forall v, f (nth k (q_cols p) []) = Some v -> Qabs (v - c) <= tol * Qabs v
    else c == 0.
Proof.
  unfold cov_by. intros H Hr He. apply andb_true_iff in H as [_ H].
  rewrite forallb_forall in H. specialize (H _ (in_combine_seq _ 0%nat _ _ Hr)). simpl in H.
  apply andb_true_iff in H as [_ H]. rewrite forallb_forall in H.
  specialize (H _ (in_combine_seq _ 0%nat _ _ He)). simpl in H.
  destruct e as [c|]; [|discriminate]. exists c. split; [reflexivity|].
  destruct (j =? k)%nat.
  - intros v Hv. rewrite Hv in H. now apply rel_close_sound.
  - now apply Qeq_bool_eq.
Qed.

Theorem num_ok_cov_sound n ps i p ws k j row e :
  num_ok n ps = true -> nth_error ps i = Some p -> finite_weights p = Some ws ->
  var_defined (combine (nth 0 (q_cols p) []) ws) = true -> Qle_bool 1 (cov_tol ws) = false ->
  nth_error (q_cov p) k = Some row -> nth_error row j = Some e ->
  exists c, e = Some c /\
    if (j =? k)%nat
    then Qabs (spec_cov (nth k (q_cols p) []) ws - c) <= cov_tol ws * Qabs (spec_cov (nth k (q_cols p) []) ws)
    else c == 0.
Proof.
  intros H Hn Hw Hv Hc Hr He. pose proof (over_pops_nth _ _ _ _ _ H Hn) as K.
  assert (K' : npop_ok n (prev_weights ps i) p = true) by (destruct i; exact K). clear K.
  unfold npop_ok in K'. rewrite Hw, Hv, Hc in K'. cbn [andb negb] in K'. repeat (apply andb_true_iff in K' as [K' ?]).
  match goal with X : (_ && _ && _) = true |- _ => repeat (apply andb_true_iff in X as [X ?]) end.
  match goal with X : cov_by _ _ _ = true |- _ => destruct (cov_by_sound _ _ _ _ _ _ _ X Hr He) as (c & -> & Hcc) end.
  exists c. split; [reflexivity|]. destruct (j =? k)%nat; [|exact Hcc]. now apply Hcc.
Qed.

(** the model's own numbers pass: a weight / covariance entry equal to what the code computes is
    within every non-negative tolerance of the property's value *)
Theorem model_weight_ok tol prior dens wprev w :
  0 <= tol -> model_weight prior dens wprev = Some w -> rel_close tol (spec_weight prior dens wprev) w = true.
Proof.
  intros Ht H. pose proof (smc_weight_spec _ _ _ _ H) as E. unfold rel_close. apply Qle_bool_iff.
  setoid_replace (spec_weight prior dens wprev - w) with 0 by (rewrite E; ring). change (Qabs 0) with 0.
  apply Qmult_le_0_compat; [exact Ht | apply Qabs_nonneg].
Qed.

Theorem model_cov_ok tol col ws v :
  0 <= tol -> model_cov col ws = Some v -> rel_close tol (spec_cov col ws) v = true.
Proof.
  intros Ht H. pose proof (smc_cov_spec _ _ _ H) as E. unfold rel_close. apply Qle_bool_iff.
  setoid_replace (spec_cov col ws - v) with 0 by (rewrite E; ring). change (Qabs 0) with 0.
  apply Qmult_le_0_compat; [exact Ht | apply Qabs_nonneg].
Qed.
