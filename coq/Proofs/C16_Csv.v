(** C16 — the layout of [Sample.save(fname.csv)]:
      w.writerow(self.samples.keys())
      w.writerows(itertools.zip_longest( *self.samples.values(), fillvalue=''))
    The columns of the sample (one list per parameter, in [samples] order) are written row by row
    ([zip_longest]: row i holds the i-th value of every column, the fill value where a column is
    shorter), and a reader gets column j back by collecting the non-fill cells at position j of
    every row.  Model: cells are [option A] ([None] = the fill value '').  The theorem holds for
    every number of columns and rows and for ragged columns as well; what is NOT modelled is the
    text form of a cell (str(float) / float(str): Python's repr round trip), which the python-side
    differential test of harness/c16.py exercises on the real files. *)
From Coq Require Import List Arith Lia.
Import ListNotations.

Section Csv.
Context {A : Type}.

(** n rows of [zip_longest] *)
Fixpoint zl (n : nat) (cols : list (list A)) : list (list (option A)) :=
  match n with
  | 0 => []
  | S n' => map (@hd_error A) cols :: zl n' (map (@tl A) cols)
  end.

Definition zip_longest (cols : list (list A)) : list (list (option A)) :=
  zl (list_max (map (@length A) cols)) cols.

(** the cells of column j that are not the fill value, top to bottom *)
Definition cell (j : nat) (row : list (option A)) : list A :=
  match nth_error row j with Some (Some x) => [x] | _ => [] end.
Definition column (j : nat) (rows : list (list (option A))) : list A := flat_map (cell j) rows.

Definition read_columns (k : nat) (rows : list (list (option A))) : list (list A) :=
  map (fun j => column j rows) (seq 0 k).

Lemma zl_length n cols : length (zl n cols) = n.
Proof. revert cols; induction n as [|n IH]; intros cols; cbn [zl length]; [reflexivity|]. now rewrite IH. Qed.

Lemma zl_row_width n cols row : In row (zl n cols) -> length row = length cols.
Proof.
  revert cols; induction n as [|n IH]; intros cols Hin; cbn [zl] in Hin; [contradiction|].
  destruct Hin as [<-|Hin]; [now rewrite map_length|].
  apply IH in Hin. now rewrite map_length in Hin.
Qed.

Lemma column_zl n : forall cols j c,
  nth_error cols j = Some c -> length c <= n -> column j (zl n cols) = c.
Proof.
  induction n as [|n IH]; intros cols j c Hj Hlen.
  - destruct c as [|x c]; [reflexivity | cbn [length] in Hlen; lia].
  - cbn [zl]. unfold column. cbn [flat_map]. fold (column j (zl n (map (@tl A) cols))).
    unfold cell. rewrite nth_error_map, Hj. cbn [option_map].
    destruct c as [|x c].
    + cbn [hd_error app]. apply IH; [|cbn; lia].
      now rewrite nth_error_map, Hj.
    + cbn [hd_error app]. f_equal. apply IH.
      * now rewrite nth_error_map, Hj.
      * cbn [length] in Hlen. lia.
Qed.

Lemma le_list_max (l : list nat) x : In x l -> x <= list_max l.
Proof.
  induction l as [|y l IH]; intros Hin; [contradiction|].
  cbn [list_max fold_right]. destruct Hin as [->|Hin]; [lia|]. apply IH in Hin. unfold list_max in Hin. lia.
Qed.

Lemma column_zip_longest cols j c :
  nth_error cols j = Some c -> column j (zip_longest cols) = c.
Proof.
  intros Hj. apply column_zl; [exact Hj|].
  apply le_list_max, in_map, (nth_error_In _ _ Hj).
Qed.

Lemma nth_error_ext' (l l' : list (list A)) :
  (forall j, nth_error l j = nth_error l' j) -> l = l'.
Proof.
  revert l'; induction l as [|x l IH]; intros [|y l'] H.
  - reflexivity.
  - specialize (H 0); discriminate H.
  - specialize (H 0); discriminate H.
  - f_equal; [specialize (H 0); now inversion H|]. apply IH. intros j. exact (H (S j)).
Qed.

(** every column is read back exactly, for any table shape *)
Theorem csv_roundtrip cols : read_columns (length cols) (zip_longest cols) = cols.
Proof.
  apply nth_error_ext'. intros j. unfold read_columns.
  rewrite nth_error_map.
  destruct (nth_error cols j) as [c|] eqn:Hj.
  - assert (Hlt : j < length cols) by (apply nth_error_Some; congruence).
    assert (Hs : nth_error (seq 0 (length cols)) j = Some j).
    { rewrite (nth_error_nth' _ 0) by (now rewrite seq_length). now rewrite seq_nth. }
    rewrite Hs. cbn [option_map]. f_equal. now apply column_zip_longest.
  - apply nth_error_None in Hj.
    assert (Hs : nth_error (seq 0 (length cols)) j = None) by (apply nth_error_None; now rewrite seq_length).
    now rewrite Hs.
Qed.

(** the file has as many data rows as the longest column, each as wide as the header *)
Theorem csv_shape cols :
  length (zip_longest cols) = list_max (map (@length A) cols)
  /\ forall row, In row (zip_longest cols) -> length row = length cols.
Proof. split; [apply zl_length | intros row; apply zl_row_width]. Qed.

(** rectangular tables (every sample has every parameter: the Sample invariant) contain no fill cell *)
Theorem csv_rectangular_no_fill cols n :
  Forall (fun c => length c = n) cols ->
  forall row, In row (zip_longest cols) -> ~ In None row.
Proof.
  unfold zip_longest. intros Hrect.
  assert (Hmax : list_max (map (@length A) cols) <= n).
  { apply list_max_le. rewrite Forall_map. eapply Forall_impl; [|exact Hrect]. cbn. intros; lia. }
  revert Hmax. generalize (list_max (map (@length A) cols)) as m.
  intros m; revert n cols Hrect; induction m as [|m IH]; intros n cols Hrect Hm row Hin; cbn [zl] in Hin; [contradiction|].
  destruct n as [|n]; [lia|].
  destruct Hin as [<-|Hin].
  - intros Hnone. apply in_map_iff in Hnone. destruct Hnone as [c [Hc Hinc]].
    rewrite Forall_forall in Hrect. apply Hrect in Hinc. destruct c; [discriminate Hinc | discriminate Hc].
  - apply (IH n (map (@tl A) cols)); [|lia|exact Hin].
    rewrite Forall_map. eapply Forall_impl; [|exact Hrect]. cbn. intros c Hc. destruct c; cbn in *; lia.
Qed.

End Csv.

Example csv_example :
  zip_longest [[1; 2; 3]; [4; 5]] = [[Some 1; Some 4]; [Some 2; Some 5]; [Some 3; None]]
  /\ read_columns 2 (zip_longest [[1; 2; 3]; [4; 5]]) = [[1; 2; 3]; [4; 5]].
Proof. split; reflexivity. Qed.
