(** Proofs for C11, part 1: every acquired point lies in the box and there are exactly n of them. *)
From Coq Require Import List ZArith QArith Qminmax Qabs Bool Lia Lqa PrimFloat.
From Elfi Require Import Num.Mcmc Num.Acq Proofs.C09_Metropolis.
Import ListNotations.
Local Open Scope Q_scope.

(** ---- clip ---- *)
Lemma clip_in lo hi x : lo <= hi -> lo <= clip lo hi x /\ clip lo hi x <= hi.
Proof.
  intros H. unfold clip. split.
  - apply Q.min_glb; [apply Q.le_max_r | exact H].
  - apply Q.le_min_r.
Qed.

Lemma clip_id lo hi x : lo <= x -> x <= hi -> clip lo hi x == x.
Proof.
  intros H1 H2. unfold clip. rewrite (Q.max_l x lo H1). apply Q.min_l. exact H2.
Qed.

(** ---- boxes ---- *)
Definition wf_box (bs : box) : Prop := Forall (fun lohi => fst lohi <= snd lohi) bs.
Definition In_box (bs : box) (x : row) : Prop := Forall2 (fun lohi xi => fst lohi <= xi /\ xi <= snd lohi) bs x.

Lemma in_itv_spec lohi x : in_itv lohi x = true <-> fst lohi <= x /\ x <= snd lohi.
Proof. unfold in_itv. rewrite andb_true_iff, !Qle_bool_iff. tauto. Qed.

Lemma in_box_spec : forall bs x, in_box bs x = true <-> In_box bs x.
Proof.
  induction bs as [|lohi bs IH]; intros [|xi x]; simpl; split; intros H; try discriminate; try constructor;
    try (inversion H; fail).
  - apply andb_true_iff in H. destruct H as [H1 H2]. now apply in_itv_spec.
  - apply andb_true_iff in H. destruct H as [H1 H2]. now apply IH.
  - inversion H; subst. apply andb_true_iff. split; [now apply in_itv_spec | now apply IH].
Qed.

Lemma in_box_length bs x : in_box bs x = true -> length x = length bs.
Proof.
  revert x. induction bs as [|lohi bs IH]; intros [|xi x] H; simpl in *; try discriminate; auto.
  apply andb_true_iff in H. destruct H as [_ H]. f_equal. now apply IH.
Qed.

Lemma clip_row_in_box : forall bs x, wf_box bs -> length x = length bs -> in_box bs (clip_row bs x) = true.
Proof.
  induction bs as [|[lo hi] bs IH]; intros [|xi x] W L; simpl in *; try discriminate; auto.
  inversion W; subst. simpl in *. apply andb_true_iff. split.
  - apply in_itv_spec. simpl. now apply clip_in.
  - apply IH; auto.
Qed.

(** a row already in the box is left alone by the clip (coordinate-wise, up to ==) *)
Lemma clip_row_id : forall bs x, in_box bs x = true -> Forall2 Qeq (clip_row bs x) x.
Proof.
  induction bs as [|[lo hi] bs IH]; intros [|xi x] H; simpl in *; try discriminate; try constructor.
  - apply andb_true_iff in H. destruct H as [H1 H2]. apply in_itv_spec in H1. simpl in H1. destruct H1.
    now apply clip_id.
  - apply andb_true_iff in H. destruct H as [_ H]. now apply IH.
Qed.

(** ---- minimize ---- *)
Lemma argmin_from_lt : forall vals best bi i, (bi < i)%nat -> (argmin_from best bi i vals < i + length vals)%nat.
Proof.
  induction vals as [|v r IH]; intros best bi i H; simpl; [lia|].
  destruct (Qlt_le_dec v best).
  - specialize (IH v i (S i)). lia.
  - specialize (IH best bi (S i)). lia.
Qed.

Lemma argmin_lt vals : vals <> [] -> (argmin vals < length vals)%nat.
Proof.
  destruct vals as [|v r]; [congruence|]. intros _. simpl.
  pose proof (argmin_from_lt r v 0%nat 1%nat). lia.
Qed.

(** the value at argmin is a minimum *)
Lemma argmin_from_min : forall vals best bi i d,
  (forall j, In j vals -> True) ->
  let k := argmin_from best bi i vals in
  (k = bi /\ forall v, In v vals -> best <= v) \/
  (exists j, k = (i + j)%nat /\ (j < length vals)%nat /\ nth j vals d < best /\ forall v, In v vals -> nth j vals d <= v).
Proof.
  induction vals as [|v r IH]; intros best bi i d _; simpl.
  - left. split; auto. intros v [].
  - destruct (Qlt_le_dec v best) as [Hlt|Hle].
    + right. destruct (IH v i (S i) d (fun _ _ => I)) as [[E M]|[j [E [L [Hn M]]]]].
      * exists 0%nat. rewrite E. split; [lia|]. split; [lia|]. split; [exact Hlt|].
        intros w [<-|Hw]; [apply Qle_refl | now apply M].
      * exists (S j). rewrite E. split; [lia|]. split; [lia|]. split; [eapply Qlt_trans; eauto|].
        intros w [<-|Hw]; [now apply Qlt_le_weak | now apply M].
    + destruct (IH best bi (S i) d (fun _ _ => I)) as [[E M]|[j [E [L [Hn M]]]]].
      * left. split; auto. intros w [<-|Hw]; auto.
      * right. exists (S j). rewrite E. split; [lia|]. split; [lia|]. split; [exact Hn|].
        intros w [<-|Hw]; [apply Qlt_le_weak; eapply Qlt_le_trans; eauto | now apply M].
Qed.

Theorem argmin_is_min vals d : vals <> [] -> forall v, In v vals -> nth (argmin vals) vals d <= v.
Proof.
  destruct vals as [|v0 r]; [congruence|]. intros _ v Hv. unfold argmin.
  destruct (argmin_from_min r v0 0%nat 1%nat d (fun _ _ => I)) as [[E M]|[j [E [L [Hn M]]]]]; rewrite E.
  - simpl. destruct Hv as [<-|Hv]; [apply Qle_refl | now apply M].
  - simpl. destruct Hv as [<-|Hv]; [now apply Qlt_le_weak | now apply M].
Qed.

Theorem minimize_post_in_box bs locs vals :
  wf_box bs -> locs <> [] -> length locs = length vals ->
  Forall (fun l => length l = length bs) locs ->
  in_box bs (minimize_post bs locs vals) = true.
Proof.
  intros W Hne Hl Hd. unfold minimize_post. apply clip_row_in_box; auto.
  assert (Hv : vals <> []) by (destruct vals; destruct locs; simpl in *; congruence).
  pose proof (argmin_lt vals Hv) as Hlt. rewrite <- Hl in Hlt.
  rewrite Forall_forall in Hd. apply Hd. now apply nth_In.
Qed.

Theorem clip_starts_in_box bs starts :
  wf_box bs -> Forall (fun l => length l = length bs) starts ->
  Forall (fun x => in_box bs x = true) (clip_starts bs starts).
Proof.
  intros W H. unfold clip_starts. apply Forall_forall. intros x Hx. apply in_map_iff in Hx.
  destruct Hx as [y [<- Hy]]. rewrite Forall_forall in H. apply clip_row_in_box; auto.
Qed.

(** ---- noise ---- *)
Section Samplers.
  Variable sqrtf : Q -> Q.
  Variable tn : nat -> nat -> Q -> Q -> Q -> Q -> Q.
  Variable uni : nat -> nat -> Q -> Q -> Q.

  (** the hypotheses on the oracles, exactly:
      np.sqrt returns a non-negative number;
      truncnorm.rvs(a, b, loc, scale) with scale > 0 and a <= b returns a value in [loc + a*scale, loc + b*scale];
      uniform(loc, scale).rvs with scale >= 0 returns a value in [loc, loc + scale] *)
  Definition sqrt_nonneg : Prop := forall v, 0 <= sqrtf v.
  Definition tn_in_range : Prop :=
    forall i r a b loc s, 0 < s -> a <= b -> loc + a * s <= tn i r a b loc s /\ tn i r a b loc s <= loc + b * s.
  Definition uni_in_range : Prop :=
    forall i r loc s, 0 <= s -> loc <= uni i r loc s /\ uni i r loc s <= loc + s.

  Hypothesis Hsq : sqrt_nonneg.
  Hypothesis Htn : tn_in_range.

  (** a noisy entry is in its interval: whenever noise is applied (std <> 0) this holds for ANY
      centre xi, inside the interval or not; when the column is skipped the centre must be inside *)
  Lemma noisy_entry_in i r lohi var xi :
    fst lohi <= snd lohi ->
    (sqrtf var == 0 -> fst lohi <= xi /\ xi <= snd lohi) ->
    fst lohi <= noisy_entry sqrtf tn i r lohi var xi /\ noisy_entry sqrtf tn i r lohi var xi <= snd lohi.
  Proof.
    intros W Hc. unfold noisy_entry. destruct lohi as [lo hi]. simpl in *.
    destruct (Qeq_bool (sqrtf var) 0) eqn:E.
    - apply Qeq_bool_iff in E. auto.
    - apply Qeq_bool_neq in E. set (s := sqrtf var) in *.
      assert (Hs : 0 < s).
      { destruct (Qlt_le_dec 0 s) as [?|Hle]; auto. exfalso. apply E. apply Qle_antisym; auto. apply Hsq. }
      assert (Hab : tn_a lo xi s <= tn_b hi xi s).
      { unfold tn_a, tn_b, Qdiv. apply Qmult_le_compat_r; [lra|]. apply Qlt_le_weak. now apply Qinv_lt_0_compat. }
      destruct (Htn i r _ _ xi s Hs Hab) as [H1 H2].
      assert (Ea : xi + tn_a lo xi s * s == lo) by (unfold tn_a; field; exact E).
      assert (Eb : xi + tn_b hi xi s * s == hi) by (unfold tn_b; field; exact E).
      rewrite Ea in H1. rewrite Eb in H2. auto.
  Qed.

  Lemma noisy_row_in_box : forall bs vars x i r,
    wf_box bs -> in_box bs x = true -> in_box bs (noisy_row sqrtf tn i r bs vars x) = true.
  Proof.
    induction bs as [|lohi bs IH]; intros vars x i r W H.
    - destruct x; simpl in *; auto.
    - destruct x as [|xi x]; [simpl in H; discriminate|].
      simpl in H. apply andb_true_iff in H. destruct H as [H1 H2]. inversion W; subst.
      destruct vars as [|v vars]; simpl.
      + rewrite H1, H2. reflexivity.
      + apply andb_true_iff. split.
        * apply in_itv_spec. apply noisy_entry_in; auto. intros _. now apply in_itv_spec.
        * apply IH; auto.
  Qed.

  Lemma mapi_length {X Y} (f : nat -> X -> Y) : forall l i, length (mapi f i l) = length l.
  Proof. induction l; intros; simpl; auto. Qed.

  Lemma mapi_Forall {X Y} (f : nat -> X -> Y) (Pp : X -> Prop) (Qp : Y -> Prop) :
    (forall i x, Pp x -> Qp (f i x)) -> forall l i, Forall Pp l -> Forall Qp (mapi f i l).
  Proof.
    intros Hf. induction l as [|a l IH]; intros i H; simpl; constructor; inversion H; subst; auto.
  Qed.

  Lemma add_noise_ok bs nz xs :
    wf_box bs -> Forall (fun x => in_box bs x = true) xs ->
    length (add_noise sqrtf tn bs nz xs) = length xs /\
    Forall (fun x => in_box bs x = true) (add_noise sqrtf tn bs nz xs).
  Proof.
    intros W H. unfold add_noise. destruct (noise_vec (length bs) nz) as [vars|]; [|auto].
    split; [apply mapi_length|].
    eapply mapi_Forall; [|exact H]. intros i x Hx. now apply noisy_row_in_box.
  Qed.

  (** AcquisitionBase.acquire: exactly n points, all in the box, for every noise setting and for
      arbitrary end points and values of the inner optimiser *)
  Theorem acquire_base_ok bs nz locs vals n :
    wf_box bs -> locs <> [] -> length locs = length vals ->
    Forall (fun l => length l = length bs) locs ->
    length (acquire_base sqrtf tn bs nz locs vals n) = n /\
    Forall (fun x => in_box bs x = true) (acquire_base sqrtf tn bs nz locs vals n).
  Proof.
    intros W Hne Hl Hd. unfold acquire_base, tile.
    pose proof (minimize_post_in_box bs locs vals W Hne Hl Hd) as Hm.
    destruct (add_noise_ok bs nz (repeat (minimize_post bs locs vals) n) W) as [A B].
    { apply Forall_forall. intros x Hx. apply repeat_spec in Hx. now subst. }
    rewrite A, repeat_length. auto.
  Qed.

  Theorem acquire_tiled_ok bs locs vals n :
    wf_box bs -> locs <> [] -> length locs = length vals ->
    Forall (fun l => length l = length bs) locs ->
    length (acquire_tiled bs locs vals n) = n /\
    Forall (fun x => in_box bs x = true) (acquire_tiled bs locs vals n).
  Proof.
    intros W Hne Hl Hd. unfold acquire_tiled, tile. rewrite repeat_length. split; auto.
    apply Forall_forall. intros x Hx. apply repeat_spec in Hx. subst. now apply minimize_post_in_box.
  Qed.

  Hypothesis Huni : uni_in_range.

  Lemma uniform_row_in_box r : forall bs i,
    wf_box bs -> in_box bs (mapi (fun i lohi => uni i r (fst lohi) (snd lohi - fst lohi)) i bs) = true.
  Proof.
    induction bs as [|[lo hi] bs IH]; intros i W; simpl; auto. inversion W; subst. simpl in *.
    apply andb_true_iff. split; [|now apply IH].
    apply in_itv_spec. simpl. destruct (Huni i r lo (hi - lo)) as [U1 U2]; [lra|]. split; [exact U1 | lra].
  Qed.

  Theorem acquire_uniform_ok bs n :
    wf_box bs ->
    length (acquire_uniform uni bs n) = n /\ Forall (fun x => in_box bs x = true) (acquire_uniform uni bs n).
  Proof.
    intros W. unfold acquire_uniform. rewrite map_length, seq_length. split; auto.
    apply Forall_forall. intros x Hx. apply in_map_iff in Hx. destruct Hx as [r [<- _]].
    unfold uniform_row. now apply uniform_row_in_box.
  Qed.
End Samplers.

(** the oracle hypotheses are satisfiable *)
Lemma oracles_exist :
  tn_in_range (fun _ _ a _ loc s => loc + a * s) /\ uni_in_range (fun _ _ loc _ => loc)
  /\ sqrt_nonneg (fun v => if Qle_bool v 0 then 0 else 1).
Proof.
  split; [|split].
  - intros i r a b loc s Hs Hab. split; [apply Qle_refl|]. apply Qplus_le_r. apply Qmult_le_compat_r; lra.
  - intros i r loc s Hs. split; lra.
  - intros v. destruct (Qle_bool v 0); lra.
Qed.

(** ---- RandMaxVar ---- *)
Lemma rmv_logpdf_support bs maxvar logf theta :
  rmv_logpdf bs maxvar logf theta <> NegInf -> in_box bs theta = true.
Proof. unfold rmv_logpdf. destruct (in_box bs theta); auto. Qed.

Lemma select_Forall {X} (Pp : X -> Prop) chain picks : Forall Pp chain -> Forall Pp (select chain picks).
Proof.
  intros H. unfold select. apply Forall_forall. intros x Hx. apply in_flat_map in Hx.
  destruct Hx as [k [_ Hk]]. destruct (nth_error chain k) eqn:E; [|destruct Hk].
  destruct Hk as [<-|[]]. rewrite Forall_forall in H. apply H. eapply nth_error_In; eauto.
Qed.

Lemma select_length {X} (chain : list X) picks :
  Forall (fun k => (k < length chain)%nat) picks -> length (select chain picks) = length picks.
Proof.
  induction picks as [|k r IH]; intros H; simpl; auto. inversion H; subst.
  destruct (nth_error chain k) eqn:E; [simpl; f_equal; auto|].
  apply nth_error_None in E. lia.
Qed.

(** Conditional statement: IF the kernel never emits a state of log-density -inf (C09) THEN, the
    density being -inf outside the bounds, every acquired point is in the box and there are n. *)
Theorem randmaxvar_in_box bs maxvar logf (chain : list row) picks :
  Forall (fun x => rmv_logpdf bs maxvar logf x <> NegInf) chain ->
  Forall (fun k => (k < length chain)%nat) picks ->
  length (select chain picks) = length picks /\
  Forall (fun x => in_box bs x = true) (select chain picks).
Proof.
  intros H Hp. split; [now apply select_length|]. apply select_Forall.
  eapply Forall_impl; [|exact H]. intros x. apply rmv_logpdf_support.
Qed.

(** binary64 form, composed with the Metropolis model of C09 *)
Lemma rmv_logpdf_f_support bs maxvar logf theta :
  is_finite (rmv_logpdf_f bs maxvar logf theta) = true -> in_box_f bs theta = true.
Proof. unfold rmv_logpdf_f. destruct (in_box_f bs theta); auto. Qed.

Theorem randmaxvar_metropolis_in_box bs maxvar logf expf sigma n w x0 st chain picks :
  is_finite (rmv_logpdf_f bs maxvar logf x0) = true ->
  metropolis (rmv_logpdf_f bs maxvar logf) expf sigma n w x0 st = Chain chain ->
  Forall (fun x => in_box_f bs x = true) (select chain picks).
Proof.
  intros H0 Hm. apply select_Forall.
  pose proof (metropolis_support (rmv_logpdf_f bs maxvar logf) expf sigma n w x0 st chain H0 Hm) as Hs.
  eapply Forall_impl; [|exact Hs]. intros x. apply rmv_logpdf_f_support.
Qed.

(** ---- the decidable predicate ---- *)
Theorem ok_sound c :
  ok c = true -> length (a_out c) = a_n c /\ Forall (In_box (a_bounds c)) (a_out c).
Proof.
  unfold ok. intros H. apply andb_true_iff in H. destruct H as [H1 H2].
  apply andb_true_iff in H1. destruct H1 as [_ H1]. apply Nat.eqb_eq in H1.
  split; auto. rewrite forallb_forall in H2. apply Forall_forall. intros x Hx. apply in_box_spec. auto.
Qed.

Lemma Forall_forallb {X} (f : X -> bool) l : Forall (fun x => f x = true) l -> forallb f l = true.
Proof. intros H. apply forallb_forall. now apply Forall_forall. Qed.

(** the model's own output satisfies the predicate, for every well-formed input *)
Theorem model_ok sqrtf tn uni kind bs n locs vals :
  sqrt_nonneg sqrtf -> tn_in_range tn -> uni_in_range uni ->
  wf_box bs -> locs <> [] -> length locs = length vals -> Forall (fun l => length l = length bs) locs ->
  let out := match kind with
             | KBase nz => acquire_base sqrtf tn bs nz locs vals n
             | KTiled => acquire_tiled bs locs vals n
             | _ => acquire_uniform uni bs n
             end in
  Nat.eqb (length out) n && forallb (in_box bs) out = true.
Proof.
  intros Hs Ht Hu W Hne Hl Hd. destruct kind; simpl.
  - destruct (acquire_base_ok sqrtf tn Hs Ht bs nz locs vals n W Hne Hl Hd) as [A B].
    rewrite A, Nat.eqb_refl. simpl. now apply Forall_forallb.
  - destruct (acquire_tiled_ok bs locs vals n W Hne Hl Hd) as [A B].
    rewrite A, Nat.eqb_refl. simpl. now apply Forall_forallb.
  - destruct (acquire_uniform_ok uni Hu bs n W) as [A B]. rewrite A, Nat.eqb_refl. simpl. now apply Forall_forallb.
  - destruct (acquire_uniform_ok uni Hu bs n W) as [A B]. rewrite A, Nat.eqb_refl. simpl. now apply Forall_forallb.
Qed.
