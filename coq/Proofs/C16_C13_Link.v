(** Link between the C16 model of [Sample.sample_quantiles] ([Results.quantile], over [Qc]) and the
    C13 model of the library function it calls, [weighted_sample_quantile] ([Quantile.wsq], over [Q]).

    [quantile_is_wsq]: on the same numbers (values, level and weights injected with [this : Qc -> Q])
    both models return the same result, [None] in the same cases, for ALL inputs: [Results.quantile]
    performs the checks of the Python code in the order of the Python code (alpha = 0 first, without
    reading the weights; then the lengths; then the zero weight sum), as [Quantile.wsq_idx] does.
    The inputs on which the former definition ([Results.quantile_old]) differed from the C13 model
    are kept as regression examples ([quantile_wsq_zero_sum_agree], [quantile_wsq_mismatch_agree]).
    Then the C13 theorems (defining inequalities, scale invariance, tie independence - as independence
    of the argsort and as permutation invariance of the rows -, monotonicity in alpha, the end points
    alpha = 0 / alpha = 1, and lower <= upper for the 2.5% / 97.5% interval ends) are transferred to
    [Results.quantile] / [quantiles_of] as corollaries.                                          *)
From Coq Require Import String.
From Coq Require Import ZArith QArith Qcanon Qabs Bool Arith Lia Lqa List Permutation Sorted.
From Elfi Require Import Num.Results Proofs.C16_Results.
From Elfi Require Import Num.Quantile Proofs.C13_Quantile.
Import ListNotations.
Open Scope Q_scope.

(** * the injection [this : Qc -> Q] *)

Lemma this_plus a b : this (a + b)%Qc == this a + this b.
Proof. exact (Qred_correct (this a + this b)). Qed.
Lemma this_mult a b : this (a * b)%Qc == this a * this b.
Proof. exact (Qred_correct (this a * this b)). Qed.
Lemma this_inv a : this (/ a)%Qc == / this a.
Proof. exact (Qred_correct (/ this a)). Qed.
Lemma this_div a b : this (a / b)%Qc == this a / this b.
Proof. unfold Qcdiv. rewrite this_mult, this_inv. reflexivity. Qed.
Lemma this_inj a b : this a == this b -> a = b.
Proof. apply Qc_is_canon. Qed.

Lemma qeqb_this a b : qeqb a b = Qeq_bool (this a) (this b).
Proof.
  unfold qeqb, Qc_eq_bool. destruct (Qc_eq_dec a b) as [E|E].
  - subst. symmetry. apply Qeq_bool_iff. reflexivity.
  - symmetry. apply not_true_iff_false. intro H. apply Qeq_bool_iff in H. apply E, this_inj, H.
Qed.

Lemma nth_this (x : list Qc) i : nth i (map this x) 0 = this (nth i x 0%Qc).
Proof. change (nth i (map this x) (this 0%Qc) = this (nth i x 0%Qc)). apply map_nth. Qed.

(** a list of rationals representing a list of canonical rationals *)
Definition wrep (w : list Qc) (wq : list Q) : Prop := Forall2 (fun a b => this a == b) w wq.

Lemma wrep_this w : wrep w (map this w).
Proof. induction w; constructor; [reflexivity | assumption]. Qed.

Lemma wrep_length w wq : wrep w wq -> length wq = length w.
Proof. induction 1; simpl; congruence. Qed.

Lemma wrep_sum w wq : wrep w wq -> this (sumq w) == qsum wq.
Proof.
  induction 1 as [|a b w wq Hab _ IH]; [reflexivity|].
  rewrite qsum_cons. change (sumq (a :: w)) with (a + sumq w)%Qc. rewrite this_plus, IH, Hab. reflexivity.
Qed.

Lemma wrep_nth w wq : wrep w wq -> forall i, this (nth i w 0%Qc) == nth i wq 0.
Proof.
  induction 1 as [|a b w wq Hab _ IH]; intros [|i]; simpl; try reflexivity; auto.
Qed.

Lemma this_sumq l : this (sumq l) == qsum (map this l).
Proof. apply wrep_sum, wrep_this. Qed.

(** * the two sorts are the same sort *)

Lemma map_nth_combine_c : forall (x w : list Qc), length w = length x ->
  map (fun i => (nth i x 0%Qc, nth i w 0%Qc)) (seq 0 (length x)) = combine x w.
Proof.
  induction x as [|a x IH]; intros [|b w] H; simpl in *; try discriminate; try reflexivity.
  f_equal. rewrite <- seq_shift, map_map. simpl. apply IH. lia.
Qed.

Section Sort.
  Variables x w : list Qc.
  Definition row (i : nat) : Qc * Qc := (nth i x 0%Qc, nth i w 0%Qc).

  Lemma ins_insert i l : map row (ins (map this x) i l) = insert (row i) (map row l).
  Proof.
    induction l as [|j l IH]; simpl; [reflexivity|].
    unfold qleb. simpl fst. rewrite !nth_this.
    destruct (Qle_bool (this (nth i x 0%Qc)) (this (nth j x 0%Qc))); simpl; [reflexivity|].
    f_equal. exact IH.
  Qed.

  Lemma argsort_isort : length w = length x -> map row (argsort (map this x)) = isort (combine x w).
  Proof.
    intro H. unfold argsort, isort. rewrite map_length, <- (map_nth_combine_c x w H).
    fold row. generalize (seq 0 (length x)) as l.
    induction l as [|i l IH]; simpl; [reflexivity|]. rewrite ins_insert, IH. reflexivity.
  Qed.
End Sort.

(** * the two scans are the same scan *)

Lemma force_last_cons a l :
  force_last (a :: l) = match l with [] => [1%Qc] | _ => a :: force_last l end.
Proof. destruct l; reflexivity. Qed.

(** a sorted C16 row [(x, w)] (weight not yet normalised) against a sorted C13 row [(x, w / tot)] *)
Definition rrel (tot : Qc) (p : Qc * Qc) (r : Q * Q) : Prop :=
  fst r = this (fst p) /\ snd r == this (snd p / tot)%Qc.

Lemma find_q_scan tot alpha : forall s sp, Forall2 (rrel tot) s sp ->
  forall c cq, this c == cq ->
    option_map this (find_q c s (force_last (cumsum_from c (map (fun p => (snd p / tot)%Qc) s))) alpha)
    = scan (this alpha) cq sp.
Proof.
  induction 1 as [|p r s sp [Hf Hs] Hrest IH]; intros c cq Hc; [reflexivity|].
  destruct r as [xq wq]. simpl in Hf, Hs. subst xq.
  cbn [map cumsum_from]. rewrite force_last_cons.
  set (y := (snd p / tot)%Qc) in *.
  destruct Hrest as [|p' r' s' sp' Hp' Hrest'].
  - cbn [map cumsum_from find_q scan]. unfold qltb, qleb, Qltb.
    change (this 1%Qc) with 1. rewrite Hc.
    destruct (negb (Qle_bool (this alpha) cq) && Qle_bool (this alpha) 1); reflexivity.
  - remember (p' :: s') as s0. remember (r' :: sp') as sp0.
    assert (Hne : cumsum_from (c + y)%Qc (map (fun p0 => (snd p0 / tot)%Qc) s0) <> []) by (subst s0; discriminate).
    destruct (cumsum_from (c + y)%Qc (map (fun p0 => (snd p0 / tot)%Qc) s0)) as [|z zs] eqn:Ez; [congruence|].
    rewrite <- Ez. cbn [find_q scan].
    assert (Hsp : match sp0 with [] => 1 | _ => cq + wq end = cq + wq) by (subst sp0; reflexivity).
    rewrite Hsp. unfold qltb, qleb, Qltb.
    assert (Hcy : this (c + y)%Qc == cq + wq) by (rewrite this_plus, Hc, Hs; reflexivity).
    rewrite Hcy, Hc.
    destruct (negb (Qle_bool (this alpha) cq) && Qle_bool (this alpha) (cq + wq)); [reflexivity|].
    apply IH. rewrite Hcy. symmetry. apply Qred_correct.
Qed.

Lemma Forall2_map_same {A B C} (R : B -> C -> Prop) (f : A -> B) (g : A -> C) l :
  (forall i, In i l -> R (f i) (g i)) -> Forall2 R (map f l) (map g l).
Proof.
  induction l as [|a l IH]; intro H; simpl; constructor.
  - apply H. now left.
  - apply IH. intros i Hi. apply H. now right.
Qed.

(** * the link *)

(** [wq] : any rationals equal ([==]) to the C16 weights, e.g. [map this w] *)
Theorem quantile_wsq_gen (x : list Qc) (alpha : Qc) (w : list Qc) (wq : list Q) :
  wrep w wq ->
  option_map this (quantile x alpha (Some w)) = wsq (map this x) (this alpha) (Some wq).
Proof.
  intros Hr. unfold quantile, wsq, wsq_idx.
  rewrite qeqb_this. change (this 0%Qc) with 0.
  destruct (Qeq_bool (this alpha) 0) eqn:Ea.
  - (* alpha = 0: the minimum, the weights are not read *)
    rewrite <- (argsort_isort x x eq_refl).
    destruct (argsort (map this x)) as [|i l]; simpl; [reflexivity|]. now rewrite nth_this.
  - rewrite map_length, (wrep_length w wq Hr).
    destruct (length w =? length x)%nat eqn:El; cbn [negb]; cbv iota; [|reflexivity].
    apply Nat.eqb_eq in El.
    rewrite qeqb_this. change (this 0%Qc) with 0. rewrite (wrep_sum w wq Hr).
    destruct (Qeq_bool (qsum wq) 0) eqn:Hz; cbn [andb]; cbv iota.
    + (* zero sum: a hit only on a one-element sample *)
      pose proof (sorting_perm_length _ _ (argsort_sorting (map this x))) as Hlen.
      rewrite map_length in Hlen.
      destruct x as [|a [|a' x]].
      * destruct (argsort (map this [])) as [|? ?]; [reflexivity | discriminate Hlen].
      * destruct w as [|b [|? ?]]; try discriminate El.
        cbn [length Nat.eqb negb combine isort fold_right insert map cumsum_from snd fst].
        cbv iota. change (force_last [(0 + b / sumq [b])%Qc]) with [1%Qc].
        cbn [find_q]. unfold qltb, qleb, Qltb. change (this 1%Qc) with 1. change (this 0%Qc) with 0.
        change (argsort (map this [a])) with [0%nat]. cbn [nth map].
        destruct (negb (Qle_bool (this alpha) 0) && Qle_bool (this alpha) 1); reflexivity.
      * cbn [length Nat.eqb negb]. cbv iota.
        destruct (argsort (map this (a :: a' :: x))) as [|i [|j l]]; try discriminate Hlen; reflexivity.
    + (* the scan *)
      rewrite <- (argsort_isort x w El).
      assert (Hlq : length wq = length (map this x)) by (rewrite map_length, <- El; now apply wrep_length).
      apply find_q_scan; [|reflexivity].
      apply Forall2_map_same. intros i Hi. unfold rrel, row. split; cbn [fst snd]; [apply nth_this|].
      assert (Hi' : (i < length wq)%nat).
      { rewrite Hlq. eapply sorting_perm_lt; [apply argsort_sorting | exact Hi]. }
      set (h := fun v => Qred (v / qsum wq)).
      rewrite (nth_indep (map h wq) 0 (h 0)) by (now rewrite map_length).
      rewrite map_nth. unfold h. rewrite Qred_correct, this_div, (wrep_sum w wq Hr), (wrep_nth w wq Hr).
      reflexivity.
Qed.

(** [weights=None] on both sides: unit weights *)
Lemma quantile_none x alpha : quantile x alpha None = quantile x alpha (Some (repeat 1%Qc (length x))).
Proof. reflexivity. Qed.

Lemma wsq_none xs alpha : wsq xs alpha None = wsq xs alpha (Some (ones xs)).
Proof. unfold wsq. apply wsq_idx_none, sorting_perm_length, argsort_sorting. Qed.

Lemma wrep_ones (x : list Qc) : wrep (repeat 1%Qc (length x)) (ones (map this x)).
Proof. induction x; simpl; constructor; [reflexivity | assumption]. Qed.

(** the two models are the same function: no hypothesis on the sample, the level or the weights *)
Theorem quantile_is_wsq (x : list Qc) (alpha : Qc) (w : option (list Qc)) :
  option_map this (quantile x alpha w) = wsq (map this x) (this alpha) (option_map (map this) w).
Proof.
  destruct w as [w|]; simpl.
  - apply quantile_wsq_gen, wrep_this.
  - rewrite quantile_none, wsq_none. apply quantile_wsq_gen, wrep_ones.
Qed.

(** the domain on which the former definition [quantile_old] agreed with the C13 model (the
    hypothesis of this theorem before [quantile] was aligned); see
    [C16_Results.quantile_unchanged_on_wf] / [quantile_changed_only_off_wf] *)
Definition link_dom (x : list Qc) (alpha : Qc) (w : option (list Qc)) : Prop :=
  match w with
  | Some w => length w = length x /\ (sumq w <> 0%Qc \/ alpha = 0%Qc)
  | None => True
  end.

(** lengths differ and alpha <> 0: both fail *)
Lemma quantile_wsq_mismatch x alpha w :
  length w <> length x -> alpha <> 0%Qc ->
  quantile x alpha (Some w) = None /\ wsq (map this x) (this alpha) (Some (map this w)) = None.
Proof.
  intros Hl Ha.
  assert (E : quantile x alpha (Some w) = None).
  { unfold quantile. unfold qeqb, Qc_eq_bool. destruct (Qc_eq_dec alpha 0%Qc); [contradiction|].
    apply Nat.eqb_neq in Hl. now rewrite Hl. }
  split; [exact E|]. pose proof (quantile_is_wsq x alpha (Some w)) as L. rewrite E in L. symmetry. exact L.
Qed.

(** lengths differ and alpha = 0: both return the minimum (of a non-empty sample) *)
Lemma quantile_zero_ignores_weights x w w' : quantile x 0%Qc w = quantile x 0%Qc w'.
Proof. reflexivity. Qed.

(** zero-sum weights on two or more values, alpha <> 0: both fail *)
Lemma quantile_wsq_zero_sum x alpha w :
  sumq w = 0%Qc -> length x <> 1%nat -> alpha <> 0%Qc ->
  quantile x alpha (Some w) = None /\ wsq (map this x) (this alpha) (Some (map this w)) = None.
Proof.
  intros Hz H1 Ha.
  assert (E : quantile x alpha (Some w) = None).
  { unfold quantile. unfold qeqb at 1, Qc_eq_bool. destruct (Qc_eq_dec alpha 0%Qc); [contradiction|].
    destruct (negb (length w =? length x)%nat); [reflexivity|].
    rewrite Hz. apply Nat.eqb_neq in H1. rewrite H1. reflexivity. }
  split; [exact E|]. pose proof (quantile_is_wsq x alpha (Some w)) as L. rewrite E in L. symmetry. exact L.
Qed.

(** Regression examples: the inputs on which the former definition differed from C13.
    (b) weights that sum to zero, two or more samples, 0 < alpha <= 1: in C13 (as in numpy) every
        normalised weight is nan and no row is selected (IndexError).  [quantile_old] divided in
        [Qc], where [w / 0 = 0], and returned the largest value; [quantile] fails.
    (c) weights of the wrong length and alpha = 0: C13 (as the Python code) returns the smallest
        value without looking at the weights; [quantile_old] checked the length first and failed;
        [quantile] returns the smallest value. *)
Definition qz (z : Z) : Qc := Q2Qc (inject_Z z).

Example quantile_wsq_zero_sum_agree :
  let x := [qz 1; qz 2] in let w := [qz 0; qz 0] in let alpha := Q2Qc (1 # 2) in
  option_map this (quantile x alpha (Some w)) = None
  /\ wsq (map this x) (this alpha) (Some (map this w)) = None
  /\ option_map this (quantile_old x alpha (Some w)) = Some 2.
Proof. vm_compute. repeat split; reflexivity. Qed.

Example quantile_wsq_zero_sum_signed_agree :
  let x := [qz 1; qz 2; qz 3] in let w := [qz 1; qz (-2); qz 1] in let alpha := qz 1 in
  option_map this (quantile x alpha (Some w)) = None
  /\ wsq (map this x) (this alpha) (Some (map this w)) = None
  /\ option_map this (quantile_old x alpha (Some w)) = Some 3.
Proof. vm_compute. repeat split; reflexivity. Qed.

(** one value, zero weight: [cum = [0, 1.0]], the value is returned by both *)
Example quantile_wsq_zero_sum_single_agree :
  let x := [qz 5] in let w := [qz 0] in let alpha := Q2Qc (1 # 2) in
  option_map this (quantile x alpha (Some w)) = Some 5
  /\ wsq (map this x) (this alpha) (Some (map this w)) = Some 5.
Proof. vm_compute. split; reflexivity. Qed.

Example quantile_wsq_mismatch_agree :
  let x := [qz 2; qz 1] in let w := [qz 1] in let alpha := qz 0 in
  option_map this (quantile x alpha (Some w)) = Some 1
  /\ wsq (map this x) (this alpha) (Some (map this w)) = Some 1
  /\ option_map this (quantile_old x alpha (Some w)) = None.
Proof. vm_compute. repeat split; reflexivity. Qed.

(** * C13 theorems transferred to the C16 model *)

Lemma sumq_cons a l : sumq (a :: l) = (a + sumq l)%Qc.
Proof. reflexivity. Qed.

Lemma this_wle q : forall x w,
  this (Results.wle q x w) == Quantile.wle (this q) (combine (map this x) (map this w)).
Proof.
  unfold Results.wle, Quantile.wle.
  induction x as [|a x IH]; intros [|b w]; cbn [map2 combine map]; try reflexivity.
  rewrite sumq_cons, this_plus, qsum_cons, IH. unfold qleb. cbn [fst snd].
  destruct (Qle_bool (this a) (this q)); reflexivity.
Qed.

Lemma this_wlt q : forall x w,
  this (Results.wlt q x w) == Quantile.wlt (this q) (combine (map this x) (map this w)).
Proof.
  unfold Results.wlt, Quantile.wlt.
  induction x as [|a x IH]; intros [|b w]; cbn [map2 combine map]; try reflexivity.
  rewrite sumq_cons, this_plus, qsum_cons, IH. unfold qltb, Qltb. cbn [fst snd].
  destruct (Qle_bool (this q) (this a)); reflexivity.
Qed.

Lemma combine_map_this : forall (x w : list Qc),
  combine (map this x) (map this w) = map (fun p => (this (fst p), this (snd p))) (combine x w).
Proof. induction x as [|a x IH]; intros [|b w]; simpl; try reflexivity. now rewrite IH. Qed.

Lemma map_fst_combine_c {A B} : forall (x : list A) (w : list B), length w = length x -> map fst (combine x w) = x.
Proof. induction x as [|a x IH]; intros [|b w] H; simpl in *; try discriminate; try reflexivity. f_equal. apply IH. lia. Qed.

Section WfC.
  Variables (x w : list Qc).
  Hypothesis Hl : length w = length x.
  Hypothesis Hw : Forall (fun v => (0 <= v)%Qc) w.
  Hypothesis Hs : (0 < sumq w)%Qc.

  Let Hl' : length (map this w) = length (map this x).
  Proof. now rewrite !map_length. Qed.
  Let Hw' : Forall (Qle 0) (map this w).
  Proof. rewrite Forall_map. eapply Forall_impl; [|exact Hw]. intros v Hv. exact Hv. Qed.
  Let Hs' : 0 < qsum (map this w).
  Proof. rewrite <- this_sumq. exact Hs. Qed.

  Lemma sumq_pos_nonzero : sumq w <> 0%Qc.
  Proof. intro E. rewrite E in Hs. exact (Qlt_irrefl _ Hs). Qed.

  (** C13_quantile_spec for [Results.quantile]: defined, an element of the column, and the defining
      inequalities  W(<= q) / W >= alpha,  W(< q) / W <= alpha  (strict for alpha > 0; the minimum
      for alpha = 0) *)
  Theorem quantile_inequalities (alpha : Qc) :
    (0 <= alpha)%Qc -> (alpha <= 1)%Qc ->
    exists q, quantile x alpha (Some w) = Some q /\ In q x
              /\ (alpha <= Results.wle q x w / sumq w)%Qc
              /\ (Results.wlt q x w / sumq w <= alpha)%Qc
              /\ ((0 < alpha)%Qc -> (Results.wlt q x w / sumq w < alpha)%Qc)
              /\ (alpha = 0%Qc -> forall y, In y x -> (q <= y)%Qc).
  Proof.
    intros H0 H1.
    destruct (wsq_idx_char (argsort (map this x)) (map this x) (map this w) (this alpha)
                (argsort_sorting _) Hl' Hw' Hs' H0 H1) as (q' & E & Hin & (A & B & C & D)).
    pose proof (quantile_is_wsq x alpha (Some w)) as L.
    simpl in L. unfold wsq in L. rewrite E in L.
    destruct (quantile x alpha (Some w)) as [q|]; [|discriminate]. simpl in L. injection L as L. subst q'.
    rewrite (wtot_combine _ _ Hl') in A, B, C.
    exists q. split; [reflexivity|]. split.
    { apply in_map_iff in Hin. destruct Hin as (y & Ey & Hy). assert (Eq : y = q) by (apply this_inj; rewrite Ey; reflexivity). now subst y. }
    unfold Qcle, Qclt. rewrite !this_div, this_wle, this_wlt, this_sumq. change (this 0%Qc) with 0.
    repeat split.
    - apply Qle_shift_div_l; assumption.
    - apply Qle_shift_div_r; assumption.
    - intro Hp. apply Qlt_shift_div_r; [assumption|]. now apply C.
    - intros Ea y Hy. subst alpha. 
      destruct (in_combine_exists (this y) (map this x) (map this w) Hl' (in_map this _ _ Hy)) as [v Hv].
      exact (D (Qeq_refl _) _ Hv).
  Qed.

  (** C13_quantile_scale_invariant for [Results.quantile] *)
  Theorem quantile_scale_invariant_c (c alpha : Qc) :
    (0 < c)%Qc -> (0 <= alpha)%Qc -> (alpha <= 1)%Qc ->
    quantile x alpha (Some (map (Qcmult c) w)) = quantile x alpha (Some w).
  Proof.
    intros Hc H0 H1.
    assert (Hcz : c <> 0%Qc) by (intro E; rewrite E in Hc; exact (Qlt_irrefl _ Hc)).
    pose proof (quantile_wsq_gen x alpha w (map this w) (wrep_this w)) as L1.
    assert (Hr : wrep (map (Qcmult c) w) (map (Qmult (this c)) (map this w))).
    { clear. induction w; simpl; constructor; [apply this_mult | assumption]. }
    assert (Hz : sumq (map (Qcmult c) w) <> 0%Qc).
    { rewrite sumq_scale. intro E. apply Qcmult_integral in E. destruct E; [contradiction|]. now apply sumq_pos_nonzero. }
    pose proof (quantile_wsq_gen x alpha _ _ Hr) as L2.
    unfold wsq in L1, L2.
    assert (Hl2 : length (map (Qmult (this c)) (map this w)) = length (map this x)) by now rewrite map_length.
    assert (Hw2 : Forall (Qle 0) (map (Qmult (this c)) (map this w))).
    { rewrite Forall_map. eapply Forall_impl; [|exact Hw']. intros v Hv. simpl in *.
      apply Qmult_le_0_compat; [apply Qlt_le_weak; exact Hc | exact Hv]. }
    assert (Hs2 : 0 < qsum (map (Qmult (this c)) (map this w))).
    { rewrite (qsum_map_scale (fun v => v) (this c) (map this w)), map_id.
      apply Qmult_lt_0_compat; [exact Hc | exact Hs']. }
    destruct (wsq_idx_char _ _ _ (this alpha) (argsort_sorting (map this x)) Hl' Hw' Hs' H0 H1) as (q1 & E1 & _).
    destruct (wsq_idx_char _ _ _ (this alpha) (argsort_sorting (map this x)) Hl2 Hw2 Hs2 H0 H1) as (q2 & E2 & _).
    pose proof (quantile_scale_invariant (map this x) (map this w) Hl' Hw' Hs' _ _ (this c) (this alpha) q1 q2
                  (argsort_sorting _) (argsort_sorting _) Hc H0 H1 E1 E2) as Eq.
    rewrite E1 in L1. rewrite E2 in L2.
    destruct (quantile x alpha (Some w)) as [a|]; [|discriminate].
    destruct (quantile x alpha (Some (map (Qcmult c) w))) as [b|]; [|discriminate].
    simpl in L1, L2. injection L1 as L1. injection L2 as L2. f_equal. apply this_inj. rewrite L1, L2. symmetry. exact Eq.
  Qed.
  (** the characterisation of C13 ([qchar], product form) at the value returned *)
  Lemma quantile_qchar (alpha : Qc) :
    (0 <= alpha)%Qc -> (alpha <= 1)%Qc ->
    exists q, quantile x alpha (Some w) = Some q /\ In q x
              /\ qchar (combine (map this x) (map this w)) (this alpha) (this q).
  Proof.
    intros H0 H1.
    destruct (wsq_idx_char (argsort (map this x)) (map this x) (map this w) (this alpha)
                (argsort_sorting _) Hl' Hw' Hs' H0 H1) as (q' & E & Hin & Hc).
    pose proof (quantile_is_wsq x alpha (Some w)) as L.
    simpl in L. unfold wsq in L. rewrite E in L.
    destruct (quantile x alpha (Some w)) as [q|]; [|discriminate]. simpl in L. injection L as L. subst q'.
    exists q. split; [reflexivity|]. split; [|exact Hc].
    apply in_map_iff in Hin. destruct Hin as (y & Ey & Hy).
    assert (Eq : y = q) by (apply this_inj; rewrite Ey; reflexivity). now subst y.
  Qed.

  (** C13_quantile_tie_independent for [Results.quantile]: whatever order the argsort gives to equal
      values (every sorting permutation [index] of the column), the C13 model run with that argsort
      returns the value of [Results.quantile] (which sorts with its own stable insertion sort) *)
  Theorem quantile_any_argsort index (alpha : Qc) :
    sorting_perm index (map this x) -> (0 <= alpha)%Qc -> (alpha <= 1)%Qc ->
    wsq_idx index (map this x) (this alpha) (Some (map this w)) = option_map this (quantile x alpha (Some w)).
  Proof.
    intros Hsp H0 H1.
    destruct (wsq_idx_char index _ _ (this alpha) Hsp Hl' Hw' Hs' H0 H1) as (q1 & E1 & Hin1 & _).
    destruct (wsq_idx_char (argsort (map this x)) _ _ (this alpha) (argsort_sorting _) Hl' Hw' Hs' H0 H1)
      as (q2 & E2 & Hin2 & _).
    pose proof (quantile_tie_independent (map this x) (map this w) Hl' Hw' Hs' _ _ (this alpha) q1 q2
                  Hsp (argsort_sorting _) H0 H1 E1 E2) as Eq.
    rewrite (quantile_is_wsq x alpha (Some w)). simpl. unfold wsq. rewrite E1, E2. f_equal.
    apply in_map_iff in Hin1. destruct Hin1 as (y1 & <- & _).
    apply in_map_iff in Hin2. destruct Hin2 as (y2 & <- & _).
    f_equal. apply this_inj. exact Eq.
  Qed.

  (** C13_quantile_monotone for [Results.quantile] *)
  Theorem quantile_monotone_c (a1 a2 q1 q2 : Qc) :
    (0 <= a1)%Qc -> (a1 <= a2)%Qc -> (a2 <= 1)%Qc ->
    quantile x a1 (Some w) = Some q1 -> quantile x a2 (Some w) = Some q2 -> (q1 <= q2)%Qc.
  Proof.
    intros H0 H12 H1 E1 E2.
    pose proof (quantile_is_wsq x a1 (Some w)) as L1. pose proof (quantile_is_wsq x a2 (Some w)) as L2.
    rewrite E1 in L1. rewrite E2 in L2. simpl in L1, L2. unfold wsq in L1, L2.
    exact (quantile_monotone (map this x) (map this w) Hl' Hw' Hs' _ _ (this a1) (this a2) (this q1) (this q2)
             (argsort_sorting _) (argsort_sorting _) H0 H12 H1 (eq_sym L1) (eq_sym L2)).
  Qed.

  (** alpha = 1: the largest value of positive weight (C13 has no theorem of its own for this end;
      it is the content of [qchar] at alpha = 1:  W(<= q) >= W  and  W(< q) < W) *)
  Theorem quantile_one_max (q : Qc) :
    quantile x 1%Qc (Some w) = Some q ->
    (forall y v, In (y, v) (combine x w) -> (0 < v)%Qc -> (y <= q)%Qc)
    /\ exists v, In (q, v) (combine x w) /\ (0 < v)%Qc.
  Proof.
    intro E.
    destruct (quantile_qchar 1%Qc) as (q0 & E0 & _ & (_ & B & C & _)); [discriminate | apply Qle_refl |].
    rewrite E in E0. injection E0 as <-.
    assert (C' := C eq_refl). clear C.
    change (this 1%Qc) with 1 in *.
    rewrite combine_map_this in *.
    set (rows := map (fun p => (this (fst p), this (snd p))) (combine x w)) in *.
    assert (Hn : nonneg rows).
    { unfold rows. rewrite <- combine_map_this. now apply nonneg_combine. }
    split.
    - intros y v Hin Hv. destruct (Qlt_le_dec (this q) (this y)) as [L|G]; [exfalso | exact G].
      assert (Hin' : In (this y, this v) rows) by (unfold rows; apply in_map_iff; exists (y, v); split; [reflexivity | exact Hin]).
      destruct (in_split _ _ Hin') as (l1 & l2 & Er). rewrite Er in B, Hn.
      unfold nonneg in Hn. apply Forall_app in Hn. destruct Hn as [Hn1 Hn2]. inversion Hn2 as [|? ? _ Hn2']; subst.
      rewrite wle_wsel, wsel_app, wsel_cons, wtot_app, wtot_cons in B. cbn [fst snd] in B.
      assert (F : Qle_bool (this y) (this q) = false) by (apply Qle_bool_false; exact L).
      rewrite F in B.
      pose proof (wsel_le_wtot (fun x0 => Qle_bool x0 (this q)) l1 Hn1).
      pose proof (wsel_le_wtot (fun x0 => Qle_bool x0 (this q)) l2 Hn2').
      assert (0 < this v) by exact Hv. lra.
    - set (g := fun p : Q * Q => Qle_bool (fst p) (this q) && negb (Qltb (fst p) (this q)) && Qltb 0 (snd p)).
      destruct (existsb g rows) eqn:Ex.
      + apply existsb_exists in Ex. destruct Ex as (p & Hp & Gp). unfold g in Gp.
        apply andb_true_iff in Gp. destruct Gp as [Gp G3]. apply andb_true_iff in Gp. destruct Gp as [G1 G2].
        apply Qle_bool_iff in G1. apply negb_true_iff, Qltb_ge in G2. apply Qltb_lt in G3.
        unfold rows in Hp. apply in_map_iff in Hp. destruct Hp as ([y v] & <- & Hyv). cbn [fst snd] in *.
        assert (y = q) by (apply this_inj, Qle_antisym; assumption). subst y.
        exists v. split; [exact Hyv | exact G3].
      + exfalso.
        assert (Eq : wle (this q) rows == wlt (this q) rows).
        { unfold wle, wlt. apply qsum_map_eq. intros p Hp.
          assert (Gp : g p = false).
          { destruct (g p) eqn:Gp; [|reflexivity]. rewrite <- Ex. symmetry. apply existsb_exists. now exists p. }
          unfold nonneg in Hn. rewrite Forall_forall in Hn. specialize (Hn p Hp).
          unfold g in Gp.
          destruct (Qltb (fst p) (this q)) eqn:T.
          - apply Qltb_lt in T. assert (T' : Qle_bool (fst p) (this q) = true) by (apply Qle_bool_iff; lra).
            rewrite T'. reflexivity.
          - destruct (Qle_bool (fst p) (this q)) eqn:T'; [|reflexivity].
            simpl in Gp. apply Qltb_ge in Gp. lra. }
        lra.
  Qed.
End WfC.

(** * ... and to the reported quantiles of a [Sample] ([quantiles_of]) *)

(** for alpha = 0 the weights are not read: a result says nothing about their length then *)
Lemma quantile_some_length x alpha w q : alpha <> 0%Qc -> quantile x alpha (Some w) = Some q -> length w = length x.
Proof.
  intro Ha. unfold quantile. unfold qeqb at 1, Qc_eq_bool. destruct (Qc_eq_dec alpha 0%Qc); [contradiction|].
  destruct (length w =? length x)%nat eqn:E; [|discriminate].
  intros _. now apply Nat.eqb_eq.
Qed.

(** every reported quantile is the weighted sample quantile, in the C13 sense, of its stored column.
    The hypothesis for alpha = 0 is new: under the former definition ([quantile_old]) a result for
    alpha = 0 implied that every column had the length of the weights, because the length was
    checked first; the Python code (and now [quantile]) does not read the weights when alpha = 0,
    so [length w = length col] is no longer a consequence of success there and is assumed. *)
Theorem quantiles_of_inequalities (s : dict) (w : list Qc) (alpha : Qc) (qs : list (string * Qc)) :
  Forall (fun v => (0 <= v)%Qc) w -> (0 < sumq w)%Qc -> (0 <= alpha)%Qc -> (alpha <= 1)%Qc ->
  (alpha = 0%Qc -> Forall (fun kv => length (snd kv) = length w) s) ->
  quantiles_of s (Some w) alpha = Some qs ->
  length qs = length s
  /\ forall j k v, nth_error qs j = Some (k, v) ->
       exists col, nth_error s j = Some (k, col) /\ length w = length col /\ In v col
                   /\ (alpha <= Results.wle v col w / sumq w)%Qc
                   /\ (Results.wlt v col w / sumq w <= alpha)%Qc
                   /\ ((0 < alpha)%Qc -> (Results.wlt v col w / sumq w < alpha)%Qc)
                   /\ (alpha = 0%Qc -> forall y, In y col -> (v <= y)%Qc).
Proof.
  intros Hw Hs H0 H1 Hz H. unfold quantiles_of in H. apply opt_all_nth in H as [Hl Hn].
  rewrite map_length in Hl. split; [exact Hl|].
  intros j k v Hj. apply Hn in Hj. rewrite nth_error_map in Hj.
  destruct (nth_error s j) as [[k' col]|] eqn:Ej; [|discriminate]. simpl in Hj.
  destruct (quantile col alpha (Some w)) as [a|] eqn:Ea; [|discriminate]. simpl in Hj.
  inversion Hj; subst k' a. clear Hj.
  assert (Hlen : length w = length col).
  { destruct (Qc_eq_dec alpha 0%Qc) as [E0|E0].
    - specialize (Hz E0). rewrite Forall_forall in Hz. symmetry.
      exact (Hz (k, col) (nth_error_In _ _ Ej)).
    - exact (quantile_some_length _ _ _ _ E0 Ea). }
  destruct (quantile_inequalities col w Hlen Hw Hs alpha H0 H1) as (q & Eq & Hin & A & B & C & D).
  rewrite Ea in Eq. injection Eq as <-.
  exists col. repeat split; auto.
Qed.

Theorem quantiles_of_scale_invariant (s : dict) (w : list Qc) (c alpha : Qc) :
  Forall (fun kv => length (snd kv) = length w) s ->
  Forall (fun v => (0 <= v)%Qc) w -> (0 < sumq w)%Qc -> (0 < c)%Qc -> (0 <= alpha)%Qc -> (alpha <= 1)%Qc ->
  quantiles_of s (Some (map (Qcmult c) w)) alpha = quantiles_of s (Some w) alpha.
Proof.
  intros Hcols Hw Hs Hc H0 H1. unfold quantiles_of. f_equal. apply map_ext_in. intros kv Hin.
  rewrite Forall_forall in Hcols.
  now rewrite (quantile_scale_invariant_c (snd kv) w (eq_sym (Hcols kv Hin)) Hw Hs c alpha Hc H0 H1).
Qed.

(** * tie independence as permutation invariance; the end points; monotonicity of the reported quantiles *)

Lemma qchar_perm xw xw' a q : Permutation xw xw' -> qchar xw a q -> qchar xw' a q.
Proof.
  intros Hp (A & B & C & D).
  pose proof (wsel_perm (fun y => Qle_bool y q) _ _ Hp) as E1.
  pose proof (wsel_perm (fun y => Qltb y q) _ _ Hp) as E2.
  pose proof (wtot_perm _ _ Hp) as E3.
  unfold qchar. rewrite !wle_wsel, !wlt_wsel in *. rewrite <- E1, <- E2, <- E3.
  repeat split; auto.
  intros Ea p Hin. apply (D Ea). eapply Permutation_in; [apply Permutation_sym, Hp | exact Hin].
Qed.

(** C13_quantile_tie_independent, in the form it takes for a model that sorts by itself: the result
    depends on the multiset of (value, weight) rows only, not on the order of the sample (hence
    not on the order of equal values either) *)
Theorem quantile_permutation_invariant_c (x w x' w' : list Qc) (alpha : Qc) :
  length w = length x -> length w' = length x' -> Permutation (combine x w) (combine x' w') ->
  Forall (fun v => (0 <= v)%Qc) w -> (0 < sumq w)%Qc -> (0 <= alpha)%Qc -> (alpha <= 1)%Qc ->
  quantile x' alpha (Some w') = quantile x alpha (Some w).
Proof.
  intros Hl Hl' Hp Hw Hs H0 H1.
  assert (Hpw : Permutation w w').
  { rewrite <- (map_snd_combine x w Hl), <- (map_snd_combine x' w' Hl'). now apply Permutation_map. }
  assert (Hw' : Forall (fun v => (0 <= v)%Qc) w') by (eapply Permutation_Forall; eassumption).
  assert (Hs' : (0 < sumq w')%Qc) by (rewrite <- (sumq_perm _ _ Hpw); exact Hs).
  destruct (quantile_qchar x w Hl Hw Hs alpha H0 H1) as (q & E & Hin & Hc).
  destruct (quantile_qchar x' w' Hl' Hw' Hs' alpha H0 H1) as (q' & E' & Hin' & Hc').
  rewrite E, E'. f_equal. apply this_inj.
  assert (HpQ : Permutation (combine (map this x') (map this w')) (combine (map this x) (map this w))).
  { rewrite !combine_map_this. apply Permutation_map, Permutation_sym, Hp. }
  apply (qchar_perm _ _ _ _ HpQ) in Hc'.
  assert (Hlq : length (map this w) = length (map this x)) by now rewrite !map_length.
  assert (Hwq : Forall (Qle 0) (map this w)).
  { rewrite Forall_map. eapply Forall_impl; [|exact Hw]. intros v Hv. exact Hv. }
  apply (qchar_unique (combine (map this x) (map this w)) (this alpha)); auto.
  - now apply nonneg_combine.
  - rewrite wtot_combine by exact Hlq. rewrite <- this_sumq. apply Qlt_le_weak. exact Hs.
  - apply in_rows; [exact Hlq|]. eapply Permutation_in; [|apply in_map, Hin'].
    apply (Permutation_map fst) in HpQ. rewrite !map_fst_combine_c in HpQ by (now rewrite !map_length). exact HpQ.
  - apply in_rows; [exact Hlq | apply in_map, Hin].
Qed.

(** alpha = 0: the smallest stored value, whatever the weights (they are not read): [x[index[0]]] *)
Lemma sumq_ones_pos n : (0 < sumq (repeat 1%Qc (S n)))%Qc.
Proof.
  rewrite sumq_ones. assert (E : this (qn (S n)) == inject_Z (Z.of_nat (S n))) by apply Qred_correct.
  unfold Qclt. change (this 0%Qc) with 0. rewrite E. unfold Qlt. simpl. lia.
Qed.

Lemma ones_nonneg n : Forall (fun v => (0 <= v)%Qc) (repeat 1%Qc n).
Proof. apply Forall_forall. intros v Hv. apply repeat_spec in Hv. subst v. discriminate. Qed.

Lemma quantile_nil alpha w : quantile [] alpha w = None.
Proof.
  unfold quantile. destruct (qeqb alpha 0%Qc); [reflexivity|].
  destruct w as [[|b w]|]; reflexivity.
Qed.

Theorem quantile_zero_min (x : list Qc) (w : option (list Qc)) (q : Qc) :
  quantile x 0%Qc w = Some q -> In q x /\ forall y, In y x -> (q <= y)%Qc.
Proof.
  intro E. destruct x as [|a x]; [rewrite quantile_nil in E; discriminate|].
  rewrite (quantile_zero_ignores_weights _ w (Some (repeat 1%Qc (length (a :: x))))) in E.
  destruct (quantile_inequalities (a :: x) (repeat 1%Qc (length (a :: x))) (repeat_length _ _)
              (ones_nonneg _) (sumq_ones_pos _) 0%Qc (Qle_refl _)) as (q0 & E0 & Hin & _ & _ & _ & D);
    [discriminate|].
  rewrite E in E0. injection E0 as <-. split; [exact Hin | exact (D eq_refl)].
Qed.

(** the weights the quantile is taken with: [weights=None] is unit weights *)
Definition weights_ok (w : option (list Qc)) : Prop :=
  match w with Some w => Forall (fun v => (0 <= v)%Qc) w /\ (0 < sumq w)%Qc | None => True end.

Theorem quantile_monotone_opt (x : list Qc) (w : option (list Qc)) (a1 a2 q1 q2 : Qc) :
  weights_ok w -> match w with Some w => length w = length x | None => True end ->
  (0 <= a1)%Qc -> (a1 <= a2)%Qc -> (a2 <= 1)%Qc ->
  quantile x a1 w = Some q1 -> quantile x a2 w = Some q2 -> (q1 <= q2)%Qc.
Proof.
  intros Hw Hl H0 H12 H1 E1 E2. destruct w as [w|].
  - destruct Hw as [Hw Hs]. exact (quantile_monotone_c x w Hl Hw Hs a1 a2 q1 q2 H0 H12 H1 E1 E2).
  - destruct x as [|a x]; [rewrite quantile_nil in E1; discriminate|].
    rewrite quantile_none in E1, E2.
    exact (quantile_monotone_c (a :: x) _ (repeat_length _ _) (ones_nonneg _) (sumq_ones_pos _)
             a1 a2 q1 q2 H0 H12 H1 E1 E2).
Qed.

(** the reported quantiles are monotone in the level, column by column *)
Theorem quantiles_of_monotone (s : dict) (w : option (list Qc)) (a1 a2 : Qc) (lo hi : list (string * Qc)) :
  weights_ok w -> (0 <= a1)%Qc -> (a1 <= a2)%Qc -> (a2 <= 1)%Qc ->
  (a1 = 0%Qc -> match w with Some w => Forall (fun kv => length (snd kv) = length w) s | None => True end) ->
  quantiles_of s w a1 = Some lo -> quantiles_of s w a2 = Some hi ->
  length lo = length s /\ length hi = length s
  /\ forall j k l k' u, nth_error lo j = Some (k, l) -> nth_error hi j = Some (k', u) -> k = k' /\ (l <= u)%Qc.
Proof.
  intros Hw H0 H12 H1 Hz Hlo Hhi. unfold quantiles_of in Hlo, Hhi.
  apply opt_all_nth in Hlo as [Ll Ln]. apply opt_all_nth in Hhi as [Lh Lnh].
  rewrite map_length in Ll, Lh. split; [exact Ll|]. split; [exact Lh|].
  intros j k l k' u Hj Hj'. apply Ln in Hj. apply Lnh in Hj'. rewrite nth_error_map in Hj, Hj'.
  destruct (nth_error s j) as [[k0 col]|] eqn:Ej; [|discriminate]. simpl in Hj, Hj'.
  destruct (quantile col a1 w) as [a|] eqn:Ea; [|discriminate].
  destruct (quantile col a2 w) as [b|] eqn:Eb; [|discriminate].
  simpl in Hj, Hj'. inversion Hj; inversion Hj'; subst. split; [reflexivity|].
  apply (quantile_monotone_opt col w a1 a2 l u Hw); auto.
  destruct w as [w|]; [|exact I].
  destruct (Qc_eq_dec a1 0%Qc) as [E0|E0].
  - specialize (Hz E0). rewrite Forall_forall in Hz. symmetry. exact (Hz (k', col) (nth_error_In _ _ Ej)).
  - exact (quantile_some_length _ _ _ _ E0 Ea).
Qed.

(** [sample_means_and_95CIs]: the two ends of the interval of a parameter are the entries of
    [sample_quantiles(alpha=0.025)] and [sample_quantiles(alpha=0.975)]: lower <= upper *)
Definition ci_lower_level : Qc := Q2Qc (25 # 1000).
Definition ci_upper_level : Qc := Q2Qc (975 # 1000).

Theorem ci_ordered (s : dict) (w : option (list Qc)) (lo hi : list (string * Qc)) :
  weights_ok w ->
  quantiles_of s w ci_lower_level = Some lo -> quantiles_of s w ci_upper_level = Some hi ->
  length lo = length s /\ length hi = length s
  /\ forall j k l k' u, nth_error lo j = Some (k, l) -> nth_error hi j = Some (k', u) -> k = k' /\ (l <= u)%Qc.
Proof.
  intro Hw. apply (quantiles_of_monotone s w ci_lower_level ci_upper_level lo hi Hw); try discriminate.
Qed.

(** reordering the sample (the same permutation of every column and of the weights) does not change
    the reported quantiles *)
Theorem quantiles_of_permutation_invariant (s s' : dict) (w w' : list Qc) (alpha : Qc) :
  Forall2 (fun kv kv' => fst kv = fst kv' /\ length (snd kv) = length w /\ length (snd kv') = length w'
                         /\ Permutation (combine (snd kv) w) (combine (snd kv') w')) s s' ->
  Forall (fun v => (0 <= v)%Qc) w -> (0 < sumq w)%Qc -> (0 <= alpha)%Qc -> (alpha <= 1)%Qc ->
  quantiles_of s' (Some w') alpha = quantiles_of s (Some w) alpha.
Proof.
  intros HF Hw Hs H0 H1. unfold quantiles_of. f_equal.
  induction HF as [|kv kv' s s' (Hk & Hl & Hl' & Hp) _ IH]; [reflexivity|].
  cbn [map]. rewrite IH, <- Hk.
  now rewrite (quantile_permutation_invariant_c (snd kv) w (snd kv') w' alpha (eq_sym Hl) (eq_sym Hl') Hp Hw Hs H0 H1).
Qed.

(** without weights every column is linked unconditionally *)
Theorem quantiles_of_none_is_wsq (s : dict) (alpha : Qc) :
  map (fun kv => option_map this (quantile (snd kv) alpha None)) s
  = map (fun kv => wsq (map this (snd kv)) (this alpha) None) s.
Proof. apply map_ext. intro kv. exact (quantile_is_wsq (snd kv) alpha None). Qed.

(** * the weighted mean
    Num/Quantile.v has no weighted-mean function of its own; the only weighted mean of the C13 model
    is [xbar = average(x, weights=w)] inside [wvar_core]:
    [qsum (map (fun p => fst p * snd p) xw) / wtot xw].  The C16 mean is that number. *)
Lemma this_wsum : forall x w,
  this (wsum w x) == qsum (map (fun p => fst p * snd p) (combine (map this x) (map this w))).
Proof.
  unfold wsum.
  induction x as [|a x IH]; intros [|b w]; cbn [map2 combine map]; try reflexivity.
  rewrite sumq_cons, this_plus, qsum_cons, IH, this_mult. reflexivity.
Qed.

Theorem average_is_wvar_xbar (x w : list Qc) (m : Qc) :
  average (Some w) x = Some m ->
  let xw := combine (map this x) (map this w) in
  length w = length x /\ ~ wtot xw == 0
  /\ this m == qsum (map (fun p => fst p * snd p) xw) / wtot xw.
Proof.
  unfold average. destruct (length w =? length x)%nat eqn:El; [|discriminate]. simpl.
  destruct (qeqb (sumq w) 0%Qc) eqn:Ez; [discriminate|]. intro H. injection H as <-.
  apply Nat.eqb_eq in El. cbv zeta.
  assert (Ht : wtot (combine (map this x) (map this w)) == this (sumq w)).
  { rewrite wtot_combine by (now rewrite !map_length). symmetry. apply this_sumq. }
  split; [exact El|]. split.
  - rewrite Ht. intro E. rewrite qeqb_this in Ez. apply not_true_iff_false in Ez. apply Ez.
    apply Qeq_bool_iff. exact E.
  - rewrite this_div, this_wsum, Ht. reflexivity.
Qed.
