(** Proofs about the matrix form of the ROMC bounding box (C19), any dimension, any (ordered) field. *)
From mathcomp Require Import all_ssreflect all_algebra.
From Elfi Require Import Num.BoxMx.
Set Implicit Arguments.
Unset Strict Implicit.
Unset Printing Implicit Defensive.
Import GRing.Theory Num.Theory.
Local Open Scope ring_scope.

Section BoxField.
Variable (F : fieldType) (n : nat).
Implicit Types (R : 'M[F]_n) (c p th : 'cV[F]_n).

Lemma to_box_from_box R c th : R \in unitmx -> to_box R c (from_box R c th) = th.
Proof.
move=> uR; rewrite /to_box /from_box mulmxDr mulmxN -addrA subrr addr0 mulmxA mulVmx //.
by rewrite mul1mx.
Qed.

Lemma from_box_to_box R c p : R \in unitmx -> from_box R c (to_box R c p) = p.
Proof.
move=> uR; rewrite /to_box /from_box mulmxDr !mulmxA mulmxV // !mul1mx.
by rewrite -addrA addNr addr0.
Qed.
End BoxField.

Section BoxOrdered.
Variable (F : realFieldType) (n : nat).
Implicit Types (R : 'M[F]_n) (c p th u lo hi : 'cV[F]_n).

Lemma box_coords_within lo hi u :
  (forall i, lo i 0 <= hi i 0) -> (forall i, 0 <= u i 0 <= 1) -> within lo hi (box_coords lo hi u).
Proof.
move=> lohi u01; apply/forallP => i; rewrite !mxE.
have /andP[u0 u1] := u01 i.
have d0 : 0 <= hi i 0 - lo i 0 by rewrite subr_ge0.
apply/andP; split; first by rewrite ler_addl mulr_ge0.
have h : (hi i 0 - lo i 0) * u i 0 <= (hi i 0 - lo i 0) * 1 by apply: ler_wpmul2l.
by rewrite mulr1 in h; rewrite -ler_subr_addl.
Qed.

(** every point obtained from box-frame coordinates within the limits is contained *)
Lemma from_box_contained R c lo hi th :
  R \in unitmx -> within lo hi th -> contains R c lo hi (from_box R c th).
Proof. by move=> uR w; rewrite /contains to_box_from_box. Qed.

(** every point [sample] produces is contained, whatever the generator's draws in [0,1] *)
Lemma sample_contained R c lo hi u :
  R \in unitmx -> (forall i, lo i 0 <= hi i 0) -> (forall i, 0 <= u i 0 <= 1) ->
  contains R c lo hi (sample_point R c lo hi u).
Proof. by move=> uR lohi u01; apply: from_box_contained => //; apply: box_coords_within. Qed.

(** conversely the region is exactly the image of the limits box under [from_box] *)
Lemma contained_has_coords R c lo hi p :
  R \in unitmx -> contains R c lo hi p -> exists2 th, within lo hi th & p = from_box R c th.
Proof. by move=> uR w; exists (to_box R c p) => //; rewrite from_box_to_box. Qed.
End BoxOrdered.
