(** C14: the clause "every live model stays consistent" of [ok_steps], DERIVED for the model's own
    run (it was the hypothesis [consistent_along] of [C14_ScriptOk.model_script_ok_partial]).

    (1) [consistent_b] <-> Prop level: [consistent_b m = true] gives [Closed m], [PD (s_edges m)]
        (one parameter, one parent) and [acyclic (s_edges m)]; conversely [Closed], [uniq], [PD]
        and [acyclic] give [consistent_b m = true].  The link [acyclic_b] <-> [acyclic] on a closed
        net goes through [topo_ok_ranking] (position in the order is a ranking) one way and
        [topo_ok_ranked] with the ranking "number of nodes among the ancestors" the other way.
    (2) [step_model] / [step] keep [consistent_b] for every live model when the step raises none
        of [edge_hazard], [become_hazard] and the NEW [input_hazard].
        FINDING: [input_hazard] is needed -- [ok_steps] does not exclude these steps and the
        model's own dump after them is not [consistent_b] ([input_hazard_necessary]):
        [ESetObserved] for a name that is not a node, [EAddNode] with the node among its own
        parents, [EAddNode] with a repeated positional parent.
    (3) [consistent_along_derived], [model_script_ok] (strict), [model_script_ok_nonstrict],
        [model_case_ok_strict], [model_case_ok], [run_consistent]. *)
From Coq Require Import List String Ascii ZArith Arith Bool Lia.
From Elfi Require Import Graph.Net Graph.Denote Graph.Edit Proofs.C03_Exec Proofs.C03_Ancestors Proofs.C03_Twins Proofs.C03_EndToEnd
     Proofs.C03_ModelOk Proofs.C02_Insertion Proofs.C02_Success
     Proofs.C14_Edit Proofs.C14_Become Proofs.C14_Copy Proofs.C14_Wfsrc Proofs.C14_C02_Link
     Proofs.C14_ModelOk Proofs.C14_ScriptOk.
Import ListNotations.

(** ================================================================================== *)
(** ---- (1) the decidable [consistent_b] and its Prop-level reading ---- *)

Lemma nodup_names_iff l : nodup_names l = true <-> NoDup l.
Proof.
  induction l as [|x r IH]; simpl; [split; [constructor | reflexivity]|].
  rewrite andb_true_iff, negb_true_iff, IH. split.
  - intros [H1 H2]. constructor; [|exact H2]. intros Hin. apply C03_Exec.mem_In in Hin. congruence.
  - intros H. inversion H as [|? ? Hx Hr]; subst. split; [|exact Hr].
    destruct (mem x r) eqn:E; [|reflexivity]. apply C03_Exec.mem_In in E. contradiction.
Qed.

Lemma nodup_params_eq l : nodup_params l = param_nodup_b l.
Proof. induction l as [|x r IH]; simpl; [reflexivity | now rewrite IH]. Qed.

Lemma nodup_params_iff l : nodup_params l = true <-> NoDup l.
Proof. rewrite nodup_params_eq. split; [apply param_nodup_b_sound | apply param_nodup_b_complete]. Qed.

Lemma acyclic_b_topo_ok m : acyclic_b m = topo_ok m.
Proof. reflexivity. Qed.

Lemma consistent_b_conj m :
  consistent_b m = true ->
  nodup_names (map fst (s_nodes m)) = true
  /\ forallb (fun e => has (e_src e) (s_nodes m) && has (e_dst e) (s_nodes m)) (s_edges m) = true
  /\ forallb (fun kv : name * value => has (fst kv) (s_nodes m)) (s_observed m) = true
  /\ forallb (fun ns : name * sstate => nodup_params (map snd (preds (s_edges m) (fst ns)))) (s_nodes m) = true
  /\ acyclic_b m = true.
Proof. unfold consistent_b. rewrite !andb_true_iff. tauto. Qed.

Theorem consistent_Closed m : consistent_b m = true -> Closed m.
Proof.
  intros H. destruct (consistent_b_conj _ H) as [H1 [H2 [H3 _]]].
  rewrite forallb_forall in H2, H3. constructor.
  - now apply nodup_names_iff.
  - intros e He. specialize (H2 e He). apply andb_true_iff in H2. destruct H2 as [Ha Hb].
    split; now apply C14_Edit.has_In.
  - intros k v Hk. specialize (H3 _ Hk). now apply C14_Edit.has_In.
Qed.

Theorem consistent_PD m : consistent_b m = true -> PD (s_edges m).
Proof.
  intros H. pose proof (consistent_Closed _ H) as Hc.
  destruct (consistent_b_conj _ H) as [_ [_ [_ [H4 _]]]]. rewrite forallb_forall in H4.
  intros c q1 q2 p A B.
  destruct (cl_edges _ Hc _ A) as [_ Hd]. unfold e_dst in Hd. cbn [fst snd] in Hd.
  unfold names in Hd. apply in_map_iff in Hd. destruct Hd as [[c' st] [E Hin]]. cbn [fst] in E. subst c'.
  specialize (H4 _ Hin). cbn [fst] in H4. apply nodup_params_iff in H4.
  apply C14_C02_Link.In_preds in A, B. exact (NoDup_snd_inj _ _ _ _ H4 A B).
Qed.

(** [acyclic_b] (the topological check succeeds) gives Prop-level acyclicity on a closed net *)
Theorem acyclic_b_acyclic m : Closed m -> acyclic_b m = true -> acyclic (s_edges m).
Proof.
  intros Hc Ht. rewrite acyclic_b_topo_ok in Ht.
  set (pos := fun x => List.length (firstn_before x (topo_order m))).
  assert (Hedge : forall u v p, In (u, v, p) (s_edges m) -> pos u < pos v).
  { intros u v p He. apply (topo_ok_ranking m Ht u v p He). apply (cl_edges _ Hc _ He). }
  assert (Hreach : forall a b, reach (s_edges m) a b -> pos a <= pos b).
  { intros a b Hr. induction Hr as [a|a b c p He Hr IH]; [lia|]. specialize (Hedge _ _ _ He). lia. }
  intros u v p He Hr. specialize (Hedge _ _ _ He). specialize (Hreach _ _ Hr). lia.
Qed.

Theorem consistent_acyclic m : consistent_b m = true -> acyclic (s_edges m).
Proof. intros H. apply acyclic_b_acyclic; [now apply consistent_Closed | now apply consistent_acyclic_b]. Qed.

(** conversely: on a closed net, Prop-level acyclicity makes the topological check succeed (the
    ranking is the number of nodes among the ancestors) *)
Theorem acyclic_acyclic_b m : Closed m -> acyclic (s_edges m) -> acyclic_b m = true.
Proof.
  intros Hc Ha. rewrite acyclic_b_topo_ok.
  apply (topo_ok_ranked m (fun v => List.length (filter (fun x => mem x (ancestors_incl (s_edges m) [v])) (names m)))).
  intros u v p He Hv. destruct (cl_edges _ Hc _ He) as [Hu _]. split; [exact Hu|].
  apply filter_length_lt.
  - intros x _ Hx. apply C03_Exec.mem_In in Hx. apply C03_Exec.mem_In.
    apply ancestors_incl_iff in Hx. apply ancestors_incl_iff.
    destruct Hx as [r [[<-|[]] Hr]]. exists v. split; [now left|].
    eapply reach_trans; [exact Hr | eapply reach_edge; exact He].
  - exists v. split; [exact Hv|]. split.
    + apply C03_Exec.mem_In, ancestors_incl_iff. exists v. split; [now left | constructor].
    + destruct (mem v (ancestors_incl (s_edges m) [u])) eqn:E; [|reflexivity]. exfalso.
      apply C03_Exec.mem_In, ancestors_incl_iff in E. destruct E as [r [[<-|[]] Hr]].
      exact (Ha _ _ _ He Hr).
Qed.

Theorem consistent_of_props m :
  Closed m -> uniq (s_edges m) -> PD (s_edges m) -> acyclic (s_edges m) -> consistent_b m = true.
Proof.
  intros Hc Hu Hp Ha. unfold consistent_b. rewrite !andb_true_iff. repeat split.
  - apply nodup_names_iff. exact (cl_names _ Hc).
  - apply forallb_forall. intros e He. destruct (cl_edges _ Hc _ He) as [A B].
    apply andb_true_iff. split; now apply C14_Edit.has_In.
  - apply forallb_forall. intros [k v] Hk. cbn [fst]. apply C14_Edit.has_In. exact (cl_obs _ Hc _ _ Hk).
  - apply forallb_forall. intros ns _. apply nodup_params_iff. now apply params_distinct_of_PD.
  - now apply acyclic_acyclic_b.
Qed.

(** ================================================================================== *)
(** ---- (2) steps outside the property that [ok_steps] does NOT exclude by itself ----
    FINDING (by [vm_compute], see [input_hazard_necessary] below): three kinds of steps succeed in
    the model, raise neither [edge_hazard] nor [become_hazard], and leave a model that is NOT
    [consistent_b]:
      - [ESetObserved h n v] with [n] not a node (a plain dict write: the observed dict leaves the node set),
      - [EAddNode h n st parents obs] with [n] itself among [parents] (a self-loop),
      - [EAddNode h n st parents obs] with a repeated positional parent, e.g. [t; t; s]
        (networkx keeps one edge per pair, so the indices come out as t:1, s:1).
    [input_hazard] names them; it is read off the call and the model before it. *)
Definition input_hazard (o : eop) (before : snet) : bool :=
  match o with
  | EAddNode _ n _ parents _ => negb (nodup_b parents) || mem n parents
  | ESetObserved _ n _ => negb (has n (s_nodes before))
  | _ => false
  end.

Lemma acyclic_no_pair_in es n : acyclic es -> pair_in n n es = false.
Proof.
  intros Ha. destruct (pair_in n n es) eqn:E; [|reflexivity]. exfalso.
  apply existsb_exists in E. destruct E as [[[a b] p] [Hin E]]. unfold e_src, e_dst in E. cbn [fst snd] in E.
  apply andb_true_iff in E. destruct E as [E1 E2]. apply String.eqb_eq in E1, E2. subst a b.
  apply (Ha _ _ _ Hin). constructor.
Qed.

(** Prop-level acyclicity is kept by every step outside the three hazards *)
Theorem step_model_acyclic m o m' :
  Closed m -> step_model m o = Ok m' ->
  input_hazard o m = false -> edge_hazard o m = false -> become_hazard o m = false ->
  acyclic (s_edges m) -> acyclic (s_edges m').
Proof.
  intros Hc H Hi He Hb Ha.
  destruct o as [h n st parents obs|h p c par|h n|h n u|h ps|h n v|h|h|h n f b]; simpl in H.
  - (* EAddNode: the new node is a sink *)
    cbn [input_hazard] in Hi. apply orb_false_iff in Hi. destruct Hi as [_ Hn].
    destruct (add_node m n st) as [m1|] eqn:Ea; simpl in H; [|discriminate].
    destruct (add_node_closed _ _ _ _ Hc Ea) as [Hc1 [Hn1 Hfresh]].
    destruct (fold_left _ parents (Ok m1)) as [m2|] eqn:Ef; simpl in H; [|discriminate].
    destruct (fold_add_parents _ _ _ _ Hc1 Ef) as [Hc2 [Hn2 [_ Hed]]].
    assert (E' : s_edges m' = s_edges m2) by (inversion H; subst m'; now destruct obs). rewrite E'.
    assert (E1 : s_edges m1 = s_edges m).
    { unfold add_node in Ea. destruct (has n (s_nodes m)); [discriminate|]. now inversion Ea. }
    apply (new_sink_acyclic (s_edges m) (s_edges m2) (names m) n); auto.
    + intros e Hin. exact (cl_edges _ Hc _ Hin).
    + intros e Hin. destruct (Hed _ Hin) as [Hold|[Hs Hd]]; [left; now rewrite <- E1|].
      right. split; [|exact Hd].
      destruct (cl_edges _ Hc2 _ Hin) as [Hsrc _]. rewrite Hn2, Hn1 in Hsrc.
      apply in_app_iff in Hsrc. destruct Hsrc as [Hsrc|[Hsrc|[]]]; [exact Hsrc|].
      exfalso. rewrite <- Hsrc in Hs. apply C03_Exec.mem_In in Hs. congruence.
  - (* EAddEdge: the hazard flag is the check itself *)
    cbn [edge_hazard] in He. rewrite H in He. apply orb_false_iff in He. destruct He as [_ He].
    apply negb_false_iff in He. apply acyclic_b_acyclic; [|exact He].
    now destruct (add_edge_closed _ _ _ _ _ Hc H).
  - unfold remove_node_checked in H. destruct (has n (s_nodes m)); [|discriminate]. inversion H; subst m'.
    now apply remove_node_acyclic.
  - eapply update_node_acyclic; [exact H | exact Ha | eapply become_hazard_reach; exact Hb].
  - unfold set_parameter_names in H. destruct (forallb _ ps); [|discriminate]. inversion H; subst. exact Ha.
  - inversion H; subst. exact Ha.
  - inversion H; subst. exact Ha.
  - inversion H; subst. exact Ha.
  - unfold set_node_flag in H. destruct (has n (s_nodes m)); [|discriminate]. inversion H; subst. exact Ha.
Qed.

(** ---- one step of one model keeps [consistent_b] ---- *)
Theorem step_model_consistent m o m' :
  consistent_b m = true -> uniq (s_edges m) -> step_model m o = Ok m' ->
  input_hazard o m = false -> edge_hazard o m = false -> become_hazard o m = false ->
  consistent_b m' = true.
Proof.
  intros Hcb Hu H Hi He Hb.
  pose proof (consistent_Closed _ Hcb) as Hc. pose proof (consistent_PD _ Hcb) as Hp.
  pose proof (consistent_acyclic _ Hcb) as Ha.
  pose proof (step_model_uniq _ _ _ H Hu) as Hu'.
  pose proof (step_model_acyclic _ _ _ Hc H Hi He Hb Ha) as Ha'.
  destruct o as [h n st parents obs|h p c par|h n|h n u|h ps|h n v|h|h|h n f b].
  2:{ (* EAddEdge: distinct parameters are read off the hazard flag *)
      simpl in H. destruct (add_edge_closed _ _ _ _ _ Hc H) as [Hc' _].
      cbn [edge_hazard] in He. rewrite H in He. apply orb_false_iff in He. destruct He as [He1 He2].
      apply negb_false_iff in He1, He2.
      unfold consistent_b. rewrite He1, He2, !andb_true_r. rewrite !andb_true_iff. repeat split.
      - apply nodup_names_iff. exact (cl_names _ Hc').
      - apply forallb_forall. intros e Hin. destruct (cl_edges _ Hc' _ Hin) as [A B].
        apply andb_true_iff. split; now apply C14_Edit.has_In.
      - apply forallb_forall. intros [k v] Hk. cbn [fst]. apply C14_Edit.has_In. exact (cl_obs _ Hc' _ _ Hk). }
  all: match type of H with step_model _ ?o = _ => assert (Hg : pd_guard' m o = true) end;
    [ | apply consistent_of_props;
        [ exact (pd_guard'_closed _ _ _ Hc Hg H) | exact Hu' | exact (step_model_PD' _ _ _ Hc Hg H Hp) | exact Ha' ] ];
    cbn [pd_guard']; try reflexivity.
  - cbn [input_hazard] in Hi. apply orb_false_iff in Hi. destruct Hi as [Hi _]. now apply negb_false_iff in Hi.
  - apply negb_true_iff. now apply acyclic_no_pair_in.
  - cbn [input_hazard] in Hi. now apply negb_false_iff in Hi.
Qed.

(** ---- one step on the list of live models ---- *)
Theorem step_consistent ms o ms' :
  step ms o = Ok ms' ->
  forallb consistent_b ms = true -> Forall (fun m => uniq (s_edges m)) ms ->
  input_hazard o (nth (handle_of o) ms empty_net) = false ->
  edge_hazard o (nth (handle_of o) ms empty_net) = false ->
  become_hazard o (nth (handle_of o) ms empty_net) = false ->
  forallb consistent_b ms' = true.
Proof.
  intros Hs Hc Hu Hi He Hb.
  destruct (step_shape _ _ _ Hs) as [m [m' [En [Em [_ Hsh]]]]].
  rewrite (nth_error_nth _ _ empty_net En) in Hi, He, Hb.
  pose proof (nth_error_In _ _ En) as Hin.
  assert (Hcm : consistent_b m = true) by (rewrite forallb_forall in Hc; now apply Hc).
  assert (Hum : uniq (s_edges m)) by (rewrite Forall_forall in Hu; now apply Hu).
  pose proof (step_model_consistent _ _ _ Hcm Hum Em Hi He Hb) as Hcm'.
  destruct Hsh as [[_ [-> ->]]|[_ ->]].
  - rewrite forallb_app, Hc. simpl. now rewrite Hcm'.
  - assert (HF : Forall (fun x => consistent_b x = true) ms) by (apply Forall_forall; now apply forallb_forall).
    pose proof (Forall_set_nth _ _ (handle_of o) m' HF Hcm') as HF'.
    apply forallb_forall. now apply Forall_forall.
Qed.

(** ================================================================================== *)
(** ---- (3) whole scripts ---- *)
Definition no_input_hazard (strict : bool) : list snet -> list eop -> bool :=
  along strict (fun ms o _ => negb (input_hazard o (nth (handle_of o) ms empty_net))).

Theorem consistent_along_from strict : forall ops ms,
  forallb consistent_b ms = true -> Forall (fun m => uniq (s_edges m)) ms ->
  no_input_hazard strict ms ops = true -> no_become_hazard strict ms ops = true ->
  consistent_along strict ms ops = true.
Proof.
  induction ops as [|o r IH]; intros ms Hc Hu Hni Hnb; [reflexivity|].
  unfold consistent_along, no_input_hazard, no_become_hazard in *. cbn [along] in *.
  destruct (step ms o) as [ms'|e] eqn:Es; [|reflexivity].
  unfold stops in *. cbv zeta in *.
  destruct (edge_hazard o (nth (handle_of o) ms empty_net)) eqn:Ee; [reflexivity|].
  destruct (negb strict && become_hazard o (nth (handle_of o) ms empty_net)); [reflexivity|].
  cbn [orb] in *.
  apply andb_true_iff in Hni. destruct Hni as [Hi Hni]. apply negb_true_iff in Hi.
  apply andb_true_iff in Hnb. destruct Hnb as [Hb Hnb]. apply negb_true_iff in Hb.
  pose proof (step_consistent _ _ _ Es Hc Hu Hi Ee Hb) as Hc'.
  rewrite Hc'. cbn [andb]. apply IH; auto. eapply step_uniq; eauto.
Qed.

(** the clause that [model_script_ok_partial] assumed, derived *)
Theorem consistent_along_derived strict ops :
  no_input_hazard strict [empty_net] ops = true -> no_become_hazard strict [empty_net] ops = true ->
  consistent_along strict [empty_net] ops = true.
Proof. apply consistent_along_from; [reflexivity | apply empty_uniq]. Qed.

Corollary consistent_along_derived_nonstrict ops :
  no_input_hazard false [empty_net] ops = true -> consistent_along false [empty_net] ops = true.
Proof. intros H. apply consistent_along_derived; [exact H | apply no_become_hazard_nonstrict]. Qed.

(** the model's own record of ANY script without an input hazard / a become hazard passes the
    strict property predicate: every clause of [ok_steps], including "every dump is consistent" *)
Theorem model_script_ok ops :
  no_input_hazard true [empty_net] ops = true -> no_become_hazard true [empty_net] ops = true ->
  ok_steps true [empty_net] (model_steps [empty_net] ops) = true.
Proof.
  intros Hi Hb. apply model_script_ok_partial; [|exact Hb]. now apply consistent_along_derived.
Qed.

(** the non-strict predicate stops at a become hazard: only the input hazards are excluded *)
Theorem model_script_ok_nonstrict ops :
  no_input_hazard false [empty_net] ops = true ->
  ok_steps false [empty_net] (model_steps [empty_net] ops) = true.
Proof. intros Hi. apply model_script_ok_nonstrict_partial. now apply consistent_along_derived_nonstrict. Qed.

Corollary model_case_ok_strict ops :
  no_input_hazard true [empty_net] ops = true -> no_become_hazard true [empty_net] ops = true ->
  agree (model_case ops) = true /\ ok_strict (model_case ops) = true /\ ok (model_case ops) = true.
Proof.
  intros Hi Hb. apply model_case_ok_strict_partial; [|exact Hb]. now apply consistent_along_derived.
Qed.

Corollary model_case_ok ops :
  no_input_hazard false [empty_net] ops = true ->
  agree (model_case ops) = true /\ ok (model_case ops) = true.
Proof.
  intros Hi. unfold agree, ok, gens_consistent, model_case. cbn [e_steps e_generated forallb].
  rewrite model_steps_agree, (model_script_ok_nonstrict _ Hi). repeat split.
Qed.

(** every live model a hazard-free script reaches is consistent (the invariant itself, on [run];
    here nothing stops the check: all three hazard flags are asked to be down at every step) *)
Fixpoint hazard_free (ms : list snet) (ops : list eop) : bool :=
  match ops with
  | [] => true
  | o :: r =>
      match step ms o with
      | Err _ => true
      | Ok ms' =>
          let before := nth (handle_of o) ms empty_net in
          negb (input_hazard o before) && negb (edge_hazard o before) && negb (become_hazard o before)
          && hazard_free ms' r
      end
  end.

Theorem run_consistent : forall ops ms ms',
  forallb consistent_b ms = true -> Forall (fun m => uniq (s_edges m)) ms ->
  hazard_free ms ops = true -> run ms ops = Ok ms' -> forallb consistent_b ms' = true.
Proof.
  induction ops as [|o r IH]; intros ms ms' Hc Hu Hf H; simpl in H; [now inversion H; subst|].
  cbn [hazard_free] in Hf.
  destruct (step ms o) as [ms1|e] eqn:Es; simpl in H; [|discriminate]. cbv zeta in Hf.
  rewrite !andb_true_iff, !negb_true_iff in Hf. destruct Hf as [[[Hi He] Hb] Hf].
  apply (IH ms1 ms'); auto.
  - exact (step_consistent _ _ _ Es Hc Hu Hi He Hb).
  - eapply step_uniq; eauto.
Qed.

Corollary reachable_consistent ops ms m :
  hazard_free [empty_net] ops = true -> run [empty_net] ops = Ok ms -> In m ms -> consistent_b m = true.
Proof.
  intros Hf Hr Hin. pose proof (run_consistent ops [empty_net] ms eq_refl empty_uniq Hf Hr) as H.
  rewrite forallb_forall in H. now apply H.
Qed.

(** ---- the guard is necessary: each of the three input hazards, alone, breaks the clause (and the
    predicate on the model's own record), with no edge / become hazard raised ---- *)
Local Open Scope string_scope.
Definition ih_st (id : name) (param : bool) : sstate := so_st id param.
Definition ih_observe_missing : list eop := [ESetObserved 0 "x" (VConst 0)].
Definition ih_self_parent : list eop := [EAddNode 0 "a" (ih_st "a" false) ["a"] None].
Definition ih_repeated_parent : list eop :=
  [EAddNode 0 "t" (ih_st "t" true) [] None; EAddNode 0 "s" (ih_st "s" true) [] None;
   EAddNode 0 "a" (ih_st "a" false) ["t"; "t"; "s"] None].

Example input_hazard_necessary :
  forallb (fun ops =>
     negb (consistent_along true [empty_net] ops)
     && no_become_hazard true [empty_net] ops
     && negb (no_input_hazard true [empty_net] ops)
     && negb (ok_steps true [empty_net] (model_steps [empty_net] ops))
     && negb (ok_steps false [empty_net] (model_steps [empty_net] ops))
     && match run [empty_net] ops with Ok [m] => negb (consistent_b m) | _ => false end)
    [ih_observe_missing; ih_self_parent; ih_repeated_parent] = true.
Proof. vm_compute. reflexivity. Qed.

(** non-vacuity: the 6-step script of [C14_ScriptOk] (a copy, a become, a remove) meets both guards *)
Example model_script_ok_full_example :
  no_input_hazard true [empty_net] so_script = true
  /\ no_become_hazard true [empty_net] so_script = true
  /\ ok_steps true [empty_net] (model_steps [empty_net] so_script) = true.
Proof.
  assert (Hi : no_input_hazard true [empty_net] so_script = true) by (vm_compute; reflexivity).
  assert (Hb : no_become_hazard true [empty_net] so_script = true) by (vm_compute; reflexivity).
  split; [exact Hi|]. split; [exact Hb|]. exact (model_script_ok _ Hi Hb).
Qed.
