(** C17 proofs over the list / Q model Num/Adjust.v: finite-mask lemmas, the adjustment formula,
    and [compare_models] (sum to one, proportion, order-free characterisation of the counts,
    permutation equivariance).  The matrix-level affine invariance is in C17_AdjustMx.v. *)
From Coq Require Import List ZArith QArith Qabs Bool Arith Lia Permutation Sorted.
From Elfi Require Import Num.Adjust.
Import ListNotations.

(** * generic list lemmas *)

Lemma nth_zipw {A B C} (f : A -> B -> C) l m i da db dc :
  (i < length l)%nat -> (i < length m)%nat -> nth i (zipw f l m) dc = f (nth i l da) (nth i m db).
Proof.
  revert m i; induction l as [|x l IH]; intros [|y m] [|i] Hl Hm; simpl in *; try lia; auto.
  apply IH; lia.
Qed.

Lemma zipw_length {A B C} (f : A -> B -> C) l m : length (zipw f l m) = Nat.min (length l) (length m).
Proof. revert m; induction l as [|x l IH]; intros [|y m]; simpl; auto. Qed.

Lemma zipw_map {A B C I} (f : A -> B -> C) (g : I -> A) (h : I -> B) idx :
  zipw f (map g idx) (map h idx) = map (fun i => f (g i) (h i)) idx.
Proof. induction idx; simpl; congruence. Qed.

Lemma filter_false {A} (f : A -> bool) l : (forall x, In x l -> f x = false) -> filter f l = [].
Proof.
  induction l as [|x l IH]; simpl; intros H; auto.
  rewrite (H x) by auto. apply IH; auto.
Qed.

Lemma select_filter_seq_gen {A} (d : A) mask : forall l s, length mask = length l ->
  map (fun i => nth (i - s) l d) (filter (fun i => nth (i - s) mask false) (seq s (length l))) = select mask l.
Proof.
  induction mask as [|m mask IH]; intros [|x l] s Hl; try discriminate; auto.
  assert (E : map (fun i => nth (i - s) (x :: l) d) (filter (fun i => nth (i - s) (m :: mask) false) (seq (S s) (length l)))
              = select mask l).
  { rewrite <- (IH l (S s)) by (simpl in Hl; lia).
    rewrite (filter_ext_in (fun i => nth (i - s) (m :: mask) false) (fun i => nth (i - S s) mask false)).
    - apply map_ext_in. intros i Hi. apply filter_In in Hi. destruct Hi as [Hi _]. apply in_seq in Hi.
      replace (i - s)%nat with (S (i - S s)) by lia. reflexivity.
    - intros i Hi. apply in_seq in Hi. replace (i - s)%nat with (S (i - S s)) by lia. reflexivity. }
  set (f := fun i => nth (i - s) (m :: mask) false) in *.
  set (g := fun i => nth (i - s) (x :: l) d) in *.
  change (seq s (length (x :: l))) with (s :: seq (S s) (length l)).
  assert (Fs : f s = m) by (unfold f; rewrite Nat.sub_diag; reflexivity).
  assert (Gs : g s = x) by (unfold g; rewrite Nat.sub_diag; reflexivity).
  cbn [filter]. rewrite Fs. destruct m; cbn [map select]; rewrite ?Gs, E; reflexivity.
Qed.

(** boolean-mask indexing keeps exactly the entries at the [true] positions, in order *)
Lemma select_filter_seq {A} (d : A) mask l : length mask = length l ->
  select mask l = map (fun i => nth i l d) (filter (fun i => nth i mask false) (seq 0 (length l))).
Proof.
  intros H. rewrite <- (select_filter_seq_gen d mask l 0 H).
  rewrite (filter_ext (fun i => nth (i - 0) mask false) (fun i => nth i mask false))
    by (intros; rewrite Nat.sub_0_r; reflexivity).
  apply map_ext. intros; rewrite Nat.sub_0_r; reflexivity.
Qed.

Lemma filter_seq_sorted f : forall n s, StronglySorted lt (filter f (seq s n)).
Proof.
  induction n as [|n IH]; intros s; simpl; [constructor|].
  destruct (f s); [|apply IH].
  constructor; [apply IH|].
  apply Forall_forall. intros x Hx. apply filter_In in Hx. destruct Hx as [Hx _]. apply in_seq in Hx. lia.
Qed.

(** * (a) the finite mask *)

Lemma finite_mask_length X theta : length X = length theta -> length (finite_mask X theta) = length theta.
Proof. intros H. unfold finite_mask, finite_inputs. rewrite zipw_length, !map_length. lia. Qed.

Lemma finite_mask_nth X theta i : length X = length theta -> (i < length theta)%nat ->
  nth i (finite_mask X theta) false = good_row X theta i.
Proof.
  intros H Hi. unfold finite_mask, finite_inputs, good_row.
  rewrite (nth_zipw andb _ _ i false false false) by (rewrite !map_length; lia).
  f_equal.
  - rewrite (nth_indep _ false (row_finite [])) by (rewrite map_length; lia). rewrite map_nth. reflexivity.
  - change false with (isfinite None). rewrite map_nth. reflexivity.
Qed.

Lemma select_mask_spec {A} (d : A) X theta (l : list A) :
  length X = length theta -> length l = length theta ->
  select (finite_mask X theta) l = map (fun i => nth i l d) (finite_indices X theta).
Proof.
  intros H Hl. rewrite (select_filter_seq d) by (rewrite finite_mask_length; auto).
  unfold finite_indices. rewrite Hl. f_equal.
  apply filter_ext_in. intros i Hi. apply in_seq in Hi. apply finite_mask_nth; auto; lia.
Qed.

(** the regression of a parameter is fitted on exactly the rows [finite_indices], in order *)
Theorem pairs_spec X theta : length X = length theta ->
  pairs X theta = (map (fun i => map fget (nth i X [])) (finite_indices X theta),
                   map (fun i => fget (nth i theta None)) (finite_indices X theta)).
Proof.
  intros H. unfold pairs. cbv zeta.
  rewrite (select_mask_spec [] X theta X H H), (select_mask_spec (None : fval) X theta theta H eq_refl).
  rewrite !map_map. reflexivity.
Qed.

(** ... and exactly those rows are adjusted and returned, in the original order *)
Theorem adjust_param_spec X theta b : length X = length theta ->
  adjust_param X theta b
  = map (fun i => adj1 (fget (nth i theta None)) (map fget (nth i X [])) b) (finite_indices X theta).
Proof.
  intros H. unfold adjust_param. rewrite pairs_spec by auto. unfold adjust_rows.
  apply (zipw_map (fun th row => adj1 th row b)).
Qed.

Theorem finite_indices_spec X theta i :
  In i (finite_indices X theta) <->
  (i < length theta)%nat /\ Forall (fun v => exists q, v = Some q) (nth i X []) /\ exists q, nth i theta None = Some q.
Proof.
  unfold finite_indices. rewrite filter_In, in_seq. unfold good_row, row_finite.
  rewrite andb_true_iff, forallb_forall, Forall_forall.
  split.
  - intros [Hi [Hr Ht]]. split; [lia|]. split.
    + intros v Hv. specialize (Hr v Hv). destruct v; [eauto|discriminate].
    + destruct (nth i theta None); [eauto|discriminate].
  - intros [Hi [Hr [q Ht]]]. split; [lia|]. split.
    + intros v Hv. destruct (Hr v Hv) as [q' ->]. reflexivity.
    + rewrite Ht. reflexivity.
Qed.

Theorem finite_indices_increasing X theta : StronglySorted lt (finite_indices X theta).
Proof. apply filter_seq_sorted. Qed.

(** a row of [summaries - observed] is finite iff the row of summaries is (finite observed) *)
Lemma input_row_finite row : forall obs,
  Forall (fun o => isfinite o = true) obs -> length row = length obs ->
  row_finite (zipw fsub row obs) = row_finite row.
Proof.
  unfold row_finite. induction row as [|x row IH]; intros [|o obs] Ho Hl; simpl in *; try discriminate; auto.
  inversion Ho; subst. rewrite IH by (auto; lia).
  destruct x, o; simpl in *; try discriminate; reflexivity.
Qed.

(** * (b) the adjustment formula *)

Lemma adj1_formula th row b : adj1 th row b == th - dot row b.
Proof. unfold adj1. apply Qred_correct. Qed.

Lemma dot_zero r : forall b, Forall (fun x => x == 0) r -> dot r b == 0.
Proof.
  induction r as [|x r IH]; intros [|y b] H; simpl; try reflexivity.
  inversion H; subst. rewrite IH by auto. rewrite H2. ring.
Qed.

(** a row whose regressors vanish is unchanged, whatever the coefficients *)
Theorem adj1_zero_row th row b : Forall (fun x => x == 0) row -> adj1 th row b == th.
Proof. intros H. rewrite adj1_formula, dot_zero by auto. ring. Qed.

Lemma sub_self_zero obs : Forall (fun o => isfinite o = true) obs ->
  Forall (fun x => x == 0) (map fget (zipw fsub obs obs)).
Proof.
  induction obs as [|o obs IH]; intros H; [constructor|].
  inversion H; subst. cbn [zipw map]. constructor; [|auto].
  destruct o as [q|]; [|discriminate]. cbn [fsub fget]. rewrite Qred_correct. ring.
Qed.

(** simulated summaries equal to the observed ones: the draw is returned unchanged *)
Theorem adjust_unchanged_at_observed obs th b :
  Forall (fun o => isfinite o = true) obs ->
  adj1 th (map fget (zipw fsub obs obs)) b == th.
Proof. intros H. apply adj1_zero_row, sub_self_zero, H. Qed.

(** * decidable checks: soundness, and the model satisfies them *)

Lemma close_sound tol scale a b : close tol scale a b = true -> Qabs (a - b) <= tol * scale.
Proof. unfold close. apply Qle_bool_imp_le. Qed.

Lemma close_refl tol scale a : 0 <= tol -> 0 <= scale -> close tol scale a a = true.
Proof.
  intros Ht Hs. unfold close. apply Qle_bool_iff.
  setoid_replace (a - a) with 0 by ring. simpl. apply Qmult_le_0_compat; auto.
Qed.

Lemma dot_abs_nonneg r : forall b, 0 <= absdot r b.
Proof.
  unfold absdot. induction r as [|x r IH]; intros [|y b]; simpl; try apply Qle_refl.
  specialize (IH b). pose proof (Qabs_nonneg x). pose proof (Qabs_nonneg y).
  pose proof (Qmult_le_0_compat _ _ H H0).
  replace 0 with (0 + 0) by reflexivity. apply Qplus_le_compat; auto.
Qed.

Theorem close_rows_sound tol Xf : forall thf b out, close_rows tol Xf thf b out = true ->
  length out = length thf /\ length out = length Xf /\
  forall j, (j < length out)%nat ->
    Qabs (adj1 (nth j thf 0) (nth j Xf []) b - nth j out 0)
    <= tol * (1 + Qabs (nth j thf 0) + absdot (nth j Xf []) b).
Proof.
  induction Xf as [|row Xf IH]; intros [|th thf] b [|o out] H; simpl in *; try discriminate.
  - repeat split; auto. intros; lia.
  - apply andb_true_iff in H. destruct H as [H1 H2]. destruct (IH _ _ _ H2) as [L1 [L2 L3]].
    repeat split; try lia. intros [|j] Hj; [apply close_sound, H1|apply L3; lia].
Qed.

Theorem zero_rows_fixed_sound Xf : forall thf out, zero_rows_fixed Xf thf out = true ->
  forall j, (j < length Xf)%nat -> (j < length thf)%nat -> (j < length out)%nat ->
    Forall (fun x => x == 0) (nth j Xf []) -> nth j out 0 == nth j thf 0.
Proof.
  induction Xf as [|row Xf IH]; intros [|th thf] [|o out] H j H1 H2 H3 Hz; simpl in *; try lia.
  apply andb_true_iff in H. destruct H as [Ha Hb].
  destruct j as [|j].
  - assert (E : forallb (fun x => Qeq_bool x 0) row = true).
    { apply forallb_forall. intros x Hx. apply Qeq_bool_iff. rewrite Forall_forall in Hz. auto. }
    rewrite E in Ha. apply Qeq_bool_iff, Ha.
  - apply IH; auto; lia.
Qed.

(** the model's own output passes the formula and fixed-row clauses of [ok] *)
Theorem model_rows_ok tol Xf : forall thf b, 0 <= tol -> length Xf = length thf ->
  close_rows tol Xf thf b (adjust_rows Xf thf b) = true
  /\ zero_rows_fixed Xf thf (adjust_rows Xf thf b) = true.
Proof.
  unfold adjust_rows.
  induction Xf as [|row Xf IH]; intros [|th thf] b Ht Hl; simpl in *; try discriminate; auto.
  destruct (IH thf b Ht) as [I1 I2]; [lia|]. rewrite I1, I2. split.
  - rewrite close_refl; auto.
    pose proof (Qabs_nonneg th). pose proof (dot_abs_nonneg row b).
    replace 0 with (0 + 0 + 0) by reflexivity. repeat apply Qplus_le_compat; auto. discriminate.
  - destruct (forallb (fun x => Qeq_bool x 0) row) eqn:E; auto.
    rewrite andb_true_r. apply Qeq_bool_iff. apply adj1_zero_row.
    apply Forall_forall. intros x Hx. apply Qeq_bool_iff. rewrite forallb_forall in E. auto.
Qed.

Theorem model_param_ok X theta b : length X = length theta ->
  length (adjust_param X theta b) = length (finite_indices X theta)
  /\ (let (Xf, thf) := pairs X theta in
      close_rows tol_formula Xf thf b (adjust_param X theta b) = true
      /\ zero_rows_fixed Xf thf (adjust_param X theta b) = true).
Proof.
  intros H. split.
  - rewrite adjust_param_spec by auto. apply map_length.
  - unfold adjust_param. destruct (pairs X theta) as [Xf thf] eqn:E.
    apply model_rows_ok; [discriminate|].
    rewrite pairs_spec in E by auto. inversion E. rewrite !map_length. reflexivity.
Qed.

(** * (d) compare_models *)

Lemma qsum_cons x l : qsum (x :: l) == x + qsum l.
Proof. unfold qsum; cbn [fold_right]. apply Qred_correct. Qed.

Lemma qsum_scaled t sc : qsum (map (fun s => Qred (s / t)) sc) == qsum sc / t.
Proof.
  induction sc as [|x sc IH]; [unfold qsum; cbn [map fold_right]; unfold Qdiv; ring|].
  cbn [map]. rewrite !qsum_cons, IH, Qred_correct. unfold Qdiv. ring.
Qed.

Lemma normalise_some sc p : normalise sc = Some p ->
  ~ qsum sc == 0 /\ p = map (fun s => Qred (s / qsum sc)) sc.
Proof.
  unfold normalise. cbv zeta. destruct (Qeq_bool (qsum sc) 0) eqn:E; [discriminate|].
  intros H. split; [apply Qeq_bool_neq, E|]. congruence.
Qed.

(** the returned probabilities sum to one whenever they are defined (some score non-zero) *)
Theorem normalise_sum_one sc p : normalise sc = Some p -> qsum p == 1.
Proof.
  intros H. apply normalise_some in H. destruct H as [Hne ->]. rewrite qsum_scaled.
  unfold Qdiv. apply Qmult_inv_r, Hne.
Qed.

Theorem compare_sum_one ms order p : compare_models ms order = Some p -> qsum p == 1.
Proof. destruct ms; [discriminate|]. apply normalise_sum_one. Qed.

Lemma scores_counts ms inds : forall up,
  scores_from ms inds up = map (fun cm => score (fst cm) (snd cm)) (combine (counts_from ms inds up) ms).
Proof. induction ms as [|m r IH]; intros up; simpl; [reflexivity|]. rewrite IH. reflexivity. Qed.

(** each probability is its model's score divided by the sum of the scores, where
    score_i = count_i / n_sim_i * weight_i and count_i = how many of the n_min kept indices
    fall into model i's index range *)
Theorem compare_proportion ms order p : compare_models ms order = Some p ->
  let cnts := counts_from ms (firstn (n_min ms) order) 0 in
  let sc := map (fun cm => score (fst cm) (snd cm)) (combine cnts ms) in
  ~ qsum sc == 0 /\ p = map (fun s => Qred (s / qsum sc)) sc /\
  forall i, (i < length ms)%nat -> nth i p 0 == nth i sc 0 / qsum sc.
Proof.
  intros H cnts sc. destruct ms as [|m0 r]; [discriminate|].
  unfold compare_models in H. rewrite scores_counts in H. fold cnts sc in H.
  apply normalise_some in H. destruct H as [Hne Hp].
  split; [exact Hne|]. split; [exact Hp|]. rewrite Hp.
  intros i Hi.
  assert (L : length sc = length (m0 :: r)).
  { unfold sc, cnts. rewrite map_length, combine_length.
    assert (forall ms inds up, length (counts_from ms inds up) = length ms) as CL
      by (induction ms; intros; simpl; auto).
    rewrite CL. apply Nat.min_id. }
  rewrite (nth_indep _ 0 (Qred (0 / qsum sc))) by (rewrite map_length; lia).
  rewrite (map_nth (fun s => Qred (s / qsum sc))). apply Qred_correct.
Qed.

(** ** order-free characterisation of the counts under a clean cut *)

Lemma perm_filter_length {A} (f : A -> bool) l l' : Permutation l l' -> length (filter f l) = length (filter f l').
Proof.
  induction 1; simpl; auto.
  - destruct (f x); simpl; congruence.
  - destruct (f x), (f y); simpl; reflexivity.
  - congruence.
Qed.

Lemma filter_nth_seq (P : Q -> bool) d : forall s,
  length (filter (fun j => P (nth (j - s) d 0)) (seq s (length d))) = length (filter P d).
Proof.
  induction d as [|x d IH]; intros s; [reflexivity|].
  change (seq s (length (x :: d))) with (s :: seq (S s) (length d)).
  cbn [filter]. rewrite Nat.sub_diag. cbn [nth].
  rewrite (filter_ext_in (fun j => P (nth (j - s) (x :: d) 0)) (fun j => P (nth (j - S s) d 0))).
  - destruct (P x); cbn [length]; rewrite IH; reflexivity.
  - intros j Hj. apply in_seq in Hj. replace (j - s)%nat with (S (j - S s)) by lia. reflexivity.
Qed.

(** index arithmetic: positions [lo, lo+len) of [pre ++ d ++ post] whose value satisfies P *)
Lemma filter_range_concat (P : Q -> bool) pre d post :
  length (filter (fun j => Nat.leb (length pre) j && Nat.ltb j (length pre + length d)
                           && P (nth j (pre ++ d ++ post) 0))
                 (seq 0 (length (pre ++ d ++ post))))
  = length (filter P d).
Proof.
  rewrite !app_length. rewrite seq_app, seq_app. rewrite !filter_app, !app_length. cbn [Nat.add].
  rewrite (filter_false _ (seq 0 (length pre))).
  2:{ intros j Hj. apply in_seq in Hj. destruct (Nat.leb_spec (length pre) j); [lia|reflexivity]. }
  rewrite (filter_false _ (seq (length pre + length d) (length post))).
  2:{ intros j Hj. apply in_seq in Hj.
      destruct (Nat.ltb_spec j (length pre + length d)); [lia|]. rewrite andb_false_r. reflexivity. }
  cbn [length Nat.add]. rewrite ?Nat.add_0_r.
  rewrite <- (filter_nth_seq P d (length pre)).
  f_equal. apply filter_ext_in. intros j Hj. apply in_seq in Hj.
  destruct (Nat.leb_spec (length pre) j); [|lia].
  destruct (Nat.ltb_spec j (length pre + length d)); [|lia]. cbn [andb].
  rewrite app_nth2 by lia. rewrite app_nth1 by lia. reflexivity.
Qed.

Definition clean_cut (disc : list Q) (top rest : list nat) (t : Q) : Prop :=
  (forall j, In j top -> Qle_bool (nth j disc 0) t = true) /\
  (forall j, In j rest -> Qle_bool (nth j disc 0) t = false).

Lemma count_top_clean disc order k t (inr : nat -> bool) :
  Permutation order (seq 0 (length disc)) ->
  clean_cut disc (firstn k order) (skipn k order) t ->
  length (filter inr (firstn k order))
  = length (filter (fun j => inr j && Qle_bool (nth j disc 0) t) (seq 0 (length disc))).
Proof.
  intros HP [Ht Hr].
  rewrite <- (perm_filter_length _ _ _ HP).
  rewrite <- (firstn_skipn k order) at 2. rewrite filter_app, app_length.
  rewrite (filter_false _ (skipn k order)).
  2:{ intros j Hj. rewrite (Hr j Hj). apply andb_false_r. }
  cbn [length]. rewrite Nat.add_0_r. f_equal.
  apply filter_ext_in. intros j Hj. rewrite (Ht j Hj). rewrite andb_true_r. reflexivity.
Qed.

Lemma all_disc_app a b : all_disc (a ++ b) = all_disc a ++ all_disc b.
Proof. unfold all_disc. rewrite map_app, concat_app. reflexivity. Qed.

Lemma all_disc_cons m r : all_disc (m :: r) = m_disc m ++ all_disc r.
Proof. reflexivity. Qed.

Lemma scores_clean_gen ms top rest t :
  Permutation (top ++ rest) (seq 0 (length (all_disc ms))) ->
  clean_cut (all_disc ms) top rest t ->
  forall r done, ms = done ++ r ->
  scores_from r top (length (all_disc done)) = map (score_t t) r.
Proof.
  intros HP HC. induction r as [|m r IH]; intros done E; [reflexivity|].
  cbn [scores_from map]. f_equal.
  - unfold score_t. f_equal. unfold count_range, cnt_le.
    assert (K : top = firstn (length top) (top ++ rest)) by (rewrite firstn_app, Nat.sub_diag, firstn_all; simpl; rewrite app_nil_r; reflexivity).
    assert (K2 : rest = skipn (length top) (top ++ rest)) by (rewrite skipn_app, Nat.sub_diag, skipn_all; reflexivity).
    rewrite K at 1.
    rewrite (count_top_clean (all_disc ms) (top ++ rest) (length top) t); auto.
    2:{ rewrite <- K, <- K2. exact HC. }
    subst ms. rewrite all_disc_app, all_disc_cons.
    apply (filter_range_concat (fun d => Qle_bool d t)).
  - replace (length (all_disc done) + length (m_disc m))%nat with (length (all_disc (done ++ [m]))).
    + apply IH. rewrite <- app_assoc. exact E.
    + rewrite all_disc_app, app_length, all_disc_cons. unfold all_disc at 2. simpl. rewrite app_nil_r. reflexivity.
Qed.

(** If the kept indices are exactly those with discrepancy <= t (no tie straddles the cut), every
    model's count is the number of its own discrepancies <= t: independent of the tie order
    and of the position of the model in the list. *)
Theorem scores_clean ms order k t :
  Permutation order (seq 0 (length (all_disc ms))) ->
  clean_cut (all_disc ms) (firstn k order) (skipn k order) t ->
  scores_from ms (firstn k order) 0 = map (score_t t) ms.
Proof.
  intros HP HC.
  apply (scores_clean_gen ms (firstn k order) (skipn k order) t) with (done := []); auto.
  rewrite firstn_skipn. exact HP.
Qed.

Theorem compare_clean ms order t : ms <> [] ->
  Permutation order (seq 0 (length (all_disc ms))) ->
  clean_cut (all_disc ms) (firstn (n_min ms) order) (skipn (n_min ms) order) t ->
  compare_models ms order = normalise (map (score_t t) ms).
Proof.
  intros Hne HP HC. destruct ms; [congruence|]. unfold compare_models.
  rewrite (scores_clean _ _ _ t); auto.
Qed.

(** ** permutation equivariance *)

Lemma qsum_perm l l' : Permutation l l' -> qsum l == qsum l'.
Proof.
  induction 1.
  - reflexivity.
  - rewrite !qsum_cons, IHPermutation. reflexivity.
  - rewrite !qsum_cons. ring.
  - rewrite IHPermutation1. exact IHPermutation2.
Qed.

Lemma prob_of_perm t ms ms' m : Permutation ms ms' -> prob_of t ms m = prob_of t ms' m.
Proof.
  intros HP. unfold prob_of. apply Qred_complete.
  rewrite (qsum_perm _ _ (Permutation_map (score_t t) HP)). reflexivity.
Qed.

Lemma normalise_prob t ms p : normalise (map (score_t t) ms) = Some p -> p = map (prob_of t ms) ms.
Proof.
  intros H. apply normalise_some in H. destruct H as [_ ->]. rewrite map_map. reflexivity.
Qed.

Lemma normalise_defined_perm t ms ms' : Permutation ms ms' ->
  normalise (map (score_t t) ms) <> None -> normalise (map (score_t t) ms') <> None.
Proof.
  intros HP. unfold normalise. cbv zeta.
  pose proof (qsum_perm _ _ (Permutation_map (score_t t) HP)) as E.
  destruct (Qeq_bool (qsum (map (score_t t) ms)) 0) eqn:E1; [congruence|].
  destruct (Qeq_bool (qsum (map (score_t t) ms')) 0) eqn:E2; [|discriminate].
  apply Qeq_bool_iff in E2. apply Qeq_bool_neq in E1. rewrite <- E in E2. contradiction.
Qed.

(** When no tie straddles the cut (the kept indices are those with discrepancy <= t, for either
    ordering of the models), each model receives the probability [prob_of t ms m], a function of
    the model and of the multiset of models only: the result permutes with the models. *)
Theorem compare_equivariant ms ms' order order' t p :
  Permutation ms ms' ->
  Permutation order (seq 0 (length (all_disc ms))) ->
  clean_cut (all_disc ms) (firstn (n_min ms) order) (skipn (n_min ms) order) t ->
  Permutation order' (seq 0 (length (all_disc ms'))) ->
  clean_cut (all_disc ms') (firstn (n_min ms') order') (skipn (n_min ms') order') t ->
  compare_models ms order = Some p ->
  p = map (prob_of t ms) ms /\ compare_models ms' order' = Some (map (prob_of t ms) ms').
Proof.
  intros HP Ho Hc Ho' Hc' H.
  assert (Hne : ms <> []) by (intros ->; discriminate).
  assert (Hne' : ms' <> []) by (intros ->; apply Permutation_sym, Permutation_nil in HP; contradiction).
  rewrite (compare_clean ms order t Hne Ho Hc) in H.
  rewrite (compare_clean ms' order' t Hne' Ho' Hc').
  split; [apply normalise_prob, H|].
  destruct (normalise (map (score_t t) ms')) as [p'|] eqn:E.
  - apply normalise_prob in E. subst p'. f_equal. apply map_ext. intros m.
    symmetry. apply prob_of_perm, HP.
  - exfalso. apply (normalise_defined_perm t ms ms' HP); [congruence|exact E].
Qed.

(** a threshold exists as soon as no kept value is >= a dropped one *)
Lemma max_exists (v : nat -> Q) top : top <> [] -> exists a, In a top /\ forall a', In a' top -> v a' <= v a.
Proof.
  induction top as [|x top IH]; [congruence|]. intros _.
  destruct top as [|y top].
  - exists x. split; [left; reflexivity|]. intros a' [<-|[]]. apply Qle_refl.
  - destruct IH as [a [Ha Hm]]; [discriminate|].
    destruct (Qlt_le_dec (v a) (v x)) as [L|L].
    + exists x. split; [left; reflexivity|]. intros a' [<-|Ha']; [apply Qle_refl|].
      apply Qle_trans with (v a); [apply Hm, Ha'|apply Qlt_le_weak, L].
    + exists a. split; [right; exact Ha|]. intros a' [<-|Ha']; [exact L|apply Hm, Ha'].
Qed.

Theorem clean_threshold_exists disc top rest : top <> [] ->
  (forall a b, In a top -> In b rest -> nth a disc 0 < nth b disc 0) ->
  exists t, clean_cut disc top rest t.
Proof.
  intros Hne H. destruct (max_exists (fun j => nth j disc 0) top Hne) as [a [Ha Hm]].
  exists (nth a disc 0). split.
  - intros j Hj. apply Qle_bool_iff. apply Hm, Hj.
  - intros j Hj. destruct (Qle_bool (nth j disc 0) (nth a disc 0)) eqn:E; [|reflexivity].
    apply Qle_bool_iff in E. specialize (H a j Ha Hj). exfalso. apply (Qlt_not_le _ _ H), E.
Qed.

(** ** the order oracle is validated inside Coq *)
Lemma nodupb_sound l : nodupb l = true -> NoDup l.
Proof.
  induction l as [|x l IH]; simpl; intros H; constructor; apply andb_true_iff in H; destruct H as [H1 H2]; auto.
  intros Hin. apply negb_true_iff in H1.
  assert (existsb (Nat.eqb x) l = true) by (apply existsb_exists; exists x; split; [auto|apply Nat.eqb_refl]).
  congruence.
Qed.

Theorem valid_order_perm disc order : valid_orderb disc order = true ->
  Permutation order (seq 0 (length disc)).
Proof.
  unfold valid_orderb. rewrite !andb_true_iff. intros [[[HL HN] HF] _].
  apply Nat.eqb_eq in HL. apply nodupb_sound in HN.
  apply NoDup_Permutation_bis; auto.
  - rewrite seq_length. lia.
  - intros j Hj. rewrite forallb_forall in HF. specialize (HF j Hj). apply Nat.ltb_lt in HF.
    apply in_seq. lia.
Qed.

(** * (e) listing order of the summaries, storage of the arrays (wave 2)

    The model reads numeric values only, so the storage dtype cannot matter by construction; what is
    left to prove is that listing the summaries in another order (columns of X and entries of the
    slope permuted alike -- Proofs/C17_AdjustMx.v shows the permuted slope IS the fit of the permuted
    design) selects the same rows and returns the same adjusted values. *)

Lemma is_perm_Permutation k perm : is_perm k perm = true -> Permutation perm (seq 0 k).
Proof.
  unfold is_perm. rewrite !andb_true_iff. intros [[HL HN] HF].
  apply Nat.eqb_eq in HL. apply nodupb_sound in HN.
  apply NoDup_Permutation_bis; auto.
  - rewrite seq_length. lia.
  - intros j Hj. rewrite forallb_forall in HF. specialize (HF j Hj). apply Nat.ltb_lt in HF.
    apply in_seq. lia.
Qed.

Lemma is_perm_lt k perm j : is_perm k perm = true -> In j perm -> (j < k)%nat.
Proof.
  unfold is_perm. rewrite !andb_true_iff. intros [_ HF] Hj.
  rewrite forallb_forall in HF. apply Nat.ltb_lt, HF, Hj.
Qed.

Lemma dot_index r : forall b, length b = length r ->
  dot r b == qsum (map (fun i => nth i r 0 * nth i b 0) (seq 0 (length r))).
Proof.
  induction r as [|x r IH]; intros [|y b] H; simpl in H; try discriminate.
  - reflexivity.
  - cbn [length dot]. change (seq 0 (S (length r))) with (0%nat :: seq 1 (length r)).
    rewrite <- seq_shift. cbn [map]. rewrite map_map, qsum_cons. cbn [nth].
    rewrite (IH b) by lia. reflexivity.
Qed.

Lemma dot_map_index (f g : nat -> Q) idx :
  dot (map f idx) (map g idx) == qsum (map (fun j => f j * g j) idx).
Proof.
  induction idx as [|j idx IH]; [reflexivity|].
  cbn [map dot]. rewrite qsum_cons, IH. reflexivity.
Qed.

(** the dot product does not see a common re-ordering of its two arguments *)
Theorem dot_permute perm row b : is_perm (length row) perm = true -> length b = length row ->
  dot (permute perm row 0) (permute perm b 0) == dot row b.
Proof.
  intros HP HL. unfold permute. rewrite dot_map_index, (dot_index row b HL).
  apply qsum_perm, Permutation_map, is_perm_Permutation, HP.
Qed.

Lemma forallb_perm {A} (f : A -> bool) l l' : Permutation l l' -> forallb f l = forallb f l'.
Proof.
  induction 1; simpl; auto; try congruence.
  destruct (f x), (f y); reflexivity.
Qed.

Lemma forallb_map {A B} (f : B -> bool) (g : A -> B) l : forallb f (map g l) = forallb (fun x => f (g x)) l.
Proof. induction l; simpl; congruence. Qed.

Lemma forallb_nth_seq {A} (f : A -> bool) d l :
  forallb (fun j => f (nth j l d)) (seq 0 (length l)) = forallb f l.
Proof.
  induction l as [|x l IH]; [reflexivity|].
  cbn [length]. change (seq 0 (S (length l))) with (0%nat :: seq 1 (length l)).
  rewrite <- seq_shift. cbn [forallb nth]. rewrite forallb_map. cbn [nth]. rewrite IH. reflexivity.
Qed.

(** a row is finite whatever the order its entries are listed in *)
Lemma row_finite_permute perm (row : list fval) : is_perm (length row) perm = true ->
  row_finite (permute perm row None) = row_finite row.
Proof.
  intros HP. unfold row_finite, permute. rewrite forallb_map.
  rewrite (forallb_perm _ _ _ (is_perm_Permutation _ _ HP)). apply forallb_nth_seq.
Qed.

Lemma map_fget_permute perm row : map fget (permute perm row None) = permute perm (map fget row) 0.
Proof.
  unfold permute. rewrite map_map. apply map_ext. intros j.
  change (nth j (map fget row) 0) with (nth j (map fget row) (fget None)). symmetry. apply map_nth.
Qed.

Lemma zipw_fsub_permute perm row obs : length row = length obs -> is_perm (length obs) perm = true ->
  zipw fsub (permute perm row None) (permute perm obs None) = permute perm (zipw fsub row obs) None.
Proof.
  intros HL HP. unfold permute. rewrite zipw_map. apply map_ext_in. intros j Hj.
  pose proof (is_perm_lt _ _ _ HP Hj) as Hlt.
  symmetry. apply nth_zipw; [exact (eq_ind_r (fun m => (j < m)%nat) Hlt HL)|exact Hlt].
Qed.

(** [_input_variables] of the re-listed summaries = the re-listed columns of [_input_variables] *)
Lemma input_variables_permute perm summ obs :
  Forall (fun row => length row = length obs) summ -> is_perm (length obs) perm = true ->
  input_variables (permute_cols perm summ) (permute perm obs None)
  = permute_cols perm (input_variables summ obs).
Proof.
  intros HF HP. unfold input_variables, permute_cols. rewrite !map_map.
  apply map_ext_in. intros row Hr. rewrite Forall_forall in HF. apply zipw_fsub_permute; auto.
Qed.

Lemma nth_map_default {A B} (f : A -> B) l : forall i da db, (i < length l)%nat ->
  nth i (map f l) db = f (nth i l da).
Proof. induction l as [|x l IH]; intros [|i] da db H; simpl in *; try lia; auto. apply IH; lia. Qed.

Lemma nth_permute_cols perm X i : (i < length X)%nat ->
  nth i (permute_cols perm X) [] = permute perm (nth i X []) None.
Proof. intros Hi. unfold permute_cols. apply (nth_map_default (fun row => permute perm row None)), Hi. Qed.

Lemma row_length_nth k (X : list (list fval)) i : Forall (fun row => length row = k) X ->
  (i < length X)%nat -> length (nth i X []) = k.
Proof. intros HF Hi. rewrite Forall_forall in HF. apply HF, nth_In, Hi. Qed.

(** the same rows are used *)
Theorem finite_indices_permute perm X theta k :
  Forall (fun row => length row = k) X -> is_perm k perm = true -> length X = length theta ->
  finite_indices (permute_cols perm X) theta = finite_indices X theta.
Proof.
  intros HF HP HL. unfold finite_indices. apply filter_ext_in. intros i Hi. apply in_seq in Hi.
  unfold good_row. f_equal. rewrite nth_permute_cols by lia.
  apply row_finite_permute. rewrite (row_length_nth k) by (auto; lia). exact HP.
Qed.

Lemma Forall2_map_same {A B} (R : B -> B -> Prop) (f g : A -> B) idx :
  (forall i, In i idx -> R (f i) (g i)) -> Forall2 R (map f idx) (map g idx).
Proof.
  induction idx as [|i idx IH]; intros H; simpl; constructor.
  - apply H; left; reflexivity.
  - apply IH. intros j Hj. apply H; right; exact Hj.
Qed.

(** ... and every adjusted value is the same *)
Theorem adjust_param_permute perm X theta b k :
  Forall (fun row => length row = k) X -> length b = k -> is_perm k perm = true ->
  length X = length theta ->
  Forall2 Qeq (adjust_param (permute_cols perm X) theta (permute perm b 0)) (adjust_param X theta b).
Proof.
  intros HF Hb HP HL.
  rewrite !adjust_param_spec by (auto; unfold permute_cols; rewrite map_length; auto).
  rewrite (finite_indices_permute perm X theta k) by auto.
  apply Forall2_map_same. intros i Hi.
  unfold finite_indices in Hi. apply filter_In in Hi. destruct Hi as [Hi _]. apply in_seq in Hi.
  rewrite nth_permute_cols by lia. rewrite map_fget_permute, !adj1_formula.
  rewrite dot_permute; [reflexivity| |].
  - rewrite map_length, (row_length_nth k) by (auto; lia). exact HP.
  - rewrite map_length, (row_length_nth k) by (auto; lia). exact Hb.
Qed.

(** listing the summaries (simulated and observed alike) in another order, with the slope re-listed
    accordingly, returns the same adjusted values for the same rows *)
Theorem listing_invariant perm summ obs theta b :
  Forall (fun row => length row = length obs) summ -> length b = length obs ->
  is_perm (length obs) perm = true -> length summ = length theta ->
  Forall2 Qeq
    (adjust_param (input_variables (permute_cols perm summ) (permute perm obs None)) theta (permute perm b 0))
    (adjust_param (input_variables summ obs) theta b).
Proof.
  intros HF Hb HP HL. rewrite input_variables_permute by auto.
  apply adjust_param_permute with (k := length obs); auto.
  - unfold input_variables. rewrite Forall_forall in *. intros r Hr. apply in_map_iff in Hr.
    destruct Hr as [row [<- Hrow]]. rewrite zipw_length, (HF row Hrow). apply Nat.min_id.
  - unfold input_variables. rewrite map_length. exact HL.
Qed.

(** what the storage tags of a run mean: an integer-typed array holds integers, a bool array 0/1 *)
Theorem storable_int_sound t v : t = I64 \/ t = I32 -> storable t v = true ->
  exists (z : Z) (q : Q), v = Some q /\ q == inject_Z z.
Proof.
  intros Ht H. destruct v as [q|]; [|destruct Ht; subst; discriminate].
  assert (Hq : is_int q = true) by (destruct Ht; subst; exact H).
  exists (Qnum (Qred q)), q. split; [reflexivity|].
  unfold is_int in Hq. apply Pos.eqb_eq in Hq.
  transitivity (Qred q); [symmetry; apply Qred_correct|].
  destruct (Qred q) as [n d]; simpl in *; subst d. reflexivity.
Qed.

Theorem storable_bool_sound v : storable B8 v = true -> exists q, v = Some q /\ (q == 0 \/ q == 1).
Proof.
  destruct v as [q|]; [|discriminate]. simpl. intros H. exists q. split; [reflexivity|].
  apply orb_true_iff in H. destruct H as [H|H]; apply Qeq_bool_eq in H; auto.
Qed.

(** * (f) a model with prior weight zero gets probability zero, wherever it is listed *)
Lemma scores_from_nth ms : forall inds up i m, nth_error ms i = Some m ->
  exists cnt, nth i (scores_from ms inds up) 0 = score cnt m.
Proof.
  induction ms as [|m0 r IH]; intros inds up [|i] m H; simpl in H; try discriminate.
  - inversion H; subst. eexists; reflexivity.
  - simpl. apply IH, H.
Qed.

Theorem compare_zero_weight ms order p i m : compare_models ms order = Some p ->
  nth_error ms i = Some m -> m_w m == 0 -> nth i p 0 == 0.
Proof.
  intros H Hi Hw.
  assert (Hlt : (i < length ms)%nat) by (apply nth_error_Some; congruence).
  destruct (compare_proportion ms order p H) as [_ [_ Hn]].
  rewrite (Hn i Hlt). rewrite <- scores_counts.
  destruct (scores_from_nth ms (firstn (n_min ms) order) 0%nat i m Hi) as [cnt ->].
  unfold score. rewrite Qred_correct, Hw. unfold Qdiv. ring.
Qed.

(** * configuration of the adjustment object (wave 3) *)

Lemma forallb_eq_ext {A} (f g : A -> bool) l : (forall x, f x = g x) -> forallb f l = forallb g l.
Proof. intros H. induction l as [|x l IH]; simpl; auto. rewrite H, IH. reflexivity. Qed.

(** the default problem (fit_intercept, not positive -- whatever copy_X / n_jobs) asks for the normal
    equations of [1 X], the clause as it was *)
Theorem fit_ok_default cfg Xf thf b0 b :
  cf_fit_intercept cfg = true -> cf_positive cfg = false ->
  fit_ok cfg Xf thf b0 b = normal_eq_ok Xf thf b0 b.
Proof. intros Hf Hp. unfold fit_ok, default_problem. rewrite Hf, Hp. reflexivity. Qed.

(** [copy_X] and [n_jobs] do not take part: two configurations that pose the same problem admit
    exactly the same coefficients (and the adjusted values are a function of X, theta and the
    coefficients alone: [adjust_param] has no configuration argument) *)
Theorem fit_ok_same_problem a b' Xf thf b0 b :
  same_problem a b' = true -> fit_ok a Xf thf b0 b = fit_ok b' Xf thf b0 b.
Proof.
  unfold same_problem. intros H. apply andb_true_iff in H. destruct H as [H1 H2].
  apply eqb_prop in H1. apply eqb_prop in H2.
  unfold fit_ok, default_problem. cbv zeta. rewrite H1, H2.
  destruct (cf_fit_intercept b' && negb (cf_positive b')); auto.
  f_equal. apply forallb_eq_ext. intros j. unfold slope_ok. rewrite H2. reflexivity.
Qed.

(** the other problems *)
Theorem fit_ok_sound cfg Xf thf b0 b : default_problem cfg = false -> fit_ok cfg Xf thf b0 b = true ->
  (cf_fit_intercept cfg = false -> b0 == 0)
  /\ (cf_fit_intercept cfg = true -> Qabs (grad Xf thf b0 b 0) <= grad_lim Xf thf b0 b 0)
  /\ forall j, (1 <= j <= length b)%nat ->
       (cf_positive cfg = false -> Qabs (grad Xf thf b0 b j) <= grad_lim Xf thf b0 b j)
       /\ (cf_positive cfg = true ->
           0 <= nth (pred j) b 0
           /\ - grad_lim Xf thf b0 b j <= grad Xf thf b0 b j
           /\ (~ nth (pred j) b 0 == 0 -> Qabs (grad Xf thf b0 b j) <= grad_lim Xf thf b0 b j)).
Proof.
  intros Hd. unfold fit_ok. rewrite Hd. cbv zeta. fold (grad Xf thf b0 b 0) (grad_lim Xf thf b0 b 0).
  intros H. apply andb_true_iff in H. destruct H as [H0 H1].
  split; [|split].
  - intros Hf. rewrite Hf in H0. apply Qeq_bool_eq, H0.
  - intros Hf. rewrite Hf in H0. apply Qle_bool_imp_le, H0.
  - intros j Hj. rewrite forallb_forall in H1.
    assert (Hin : In j (seq 1 (length b))) by (apply in_seq; lia).
    specialize (H1 j Hin). unfold slope_ok in H1. cbv zeta in H1.
    fold (grad Xf thf b0 b j) (grad_lim Xf thf b0 b j) in H1. split; intros Hp; rewrite Hp in H1.
    + apply Qle_bool_imp_le, H1.
    + apply andb_true_iff in H1. destruct H1 as [Hb Hg]. apply Qle_bool_imp_le in Hb.
      destruct (Qeq_bool (nth (pred j) b 0) 0) eqn:E.
      * apply Qle_bool_imp_le in Hg. repeat split; auto.
        intros Hn. exfalso. apply Hn. apply Qeq_bool_eq, E.
      * apply Qle_bool_imp_le in Hg. repeat split; auto.
        apply Qabs_Qle_condition in Hg. apply Hg.
Qed.

(** ** the X attribute *)
Lemma all2_sound {A B} (f : A -> B -> bool) l : forall m, all2 f l m = true ->
  length m = length l /\ forall i da db, (i < length l)%nat -> f (nth i l da) (nth i m db) = true.
Proof.
  induction l as [|x l IH]; intros [|y m] H; simpl in *; try discriminate.
  - split; auto. intros; lia.
  - apply andb_true_iff in H. destruct H as [H1 H2]. destruct (IH _ H2) as [L1 L2].
    split; [lia|]. intros [|i] da db Hi; auto. apply L2; lia.
Qed.

Lemma all2_refl {A} (f : A -> A -> bool) l : (forall x, In x l -> f x x = true) -> all2 f l l = true.
Proof.
  induction l as [|x l IH]; simpl; intros H; auto.
  rewrite (H x) by auto. apply IH; auto.
Qed.

Lemma close_fval_sound a b : close_fval a b = true ->
  match a, b with
  | Some x, Some y => Qabs (x - y) <= tol_formula * (1 + Qabs x)
  | None, None => True
  | _, _ => False
  end.
Proof. destruct a, b; simpl; intros H; try discriminate; auto. apply close_sound, H. Qed.

(** what the clause says: the X attribute read back after [adjust()] has the shape of
    [summaries - observed], is non-finite exactly where that is, and holds those numbers *)
Theorem x_attr_sound X Xi : x_attr_ok X Xi = true ->
  length Xi = length X /\
  forall i, (i < length X)%nat ->
    length (nth i Xi []) = length (nth i X []) /\
    forall j, (j < length (nth i X []))%nat ->
      match nth j (nth i X []) None, nth j (nth i Xi []) None with
      | Some x, Some y => Qabs (x - y) <= tol_formula * (1 + Qabs x)
      | None, None => True
      | _, _ => False
      end.
Proof.
  unfold x_attr_ok. intros H. destruct (all2_sound _ _ _ H) as [L R]. split; auto.
  intros i Hi. specialize (R i [] [] Hi). destruct (all2_sound _ _ _ R) as [L2 R2]. split; auto.
  intros j Hj. apply close_fval_sound, R2, Hj.
Qed.

(** the model's own X attribute passes the clause *)
Theorem x_attr_model X : x_attr_ok X X = true.
Proof.
  unfold x_attr_ok. apply all2_refl. intros row _. apply all2_refl. intros [x|] _; simpl; auto.
  apply close_refl; [discriminate|].
  pose proof (Qabs_nonneg x). replace 0 with (0 + 0) by reflexivity. apply Qplus_le_compat; auto. discriminate.
Qed.

(** the object as a state: any number of [adjust()] calls leave it as [fit] made it (in particular
    [X] = [summaries - observed]) and every call returns the same arrays, those of [adjust_all] *)
Theorem adjust_calls_spec n : forall st thetas,
  fst (adjust_calls n st thetas) = st
  /\ snd (adjust_calls n st thetas) = repeat (adjust_all (st_X st) thetas (st_coefs st)) n.
Proof.
  induction n as [|n IH]; intros st thetas; simpl; auto.
  destruct (adjust_calls n st thetas) as [st2 os] eqn:E.
  specialize (IH st thetas). rewrite E in IH. simpl in *. destruct IH as [-> ->]. auto.
Qed.

Theorem fit_adjust_state summ obs thetas bs n :
  let st := fit_state summ obs thetas bs in
  st_X (fst (adjust_calls n st thetas)) = input_variables summ obs
  /\ snd (adjust_calls n st thetas) = repeat (adjust_all (input_variables summ obs) thetas bs) n.
Proof.
  intros st. destruct (adjust_calls_spec n st thetas) as [H1 H2]. rewrite H1, H2. split; reflexivity.
Qed.

(** a history of fits on one object: every entry returns what a FRESH object returns for that
    sample, and the object ends as the last fit made it (X of the last sample, one coefficient
    vector per parameter of the last fit) *)
Theorem run_history_spec h : forall st,
  snd (run_history st h) = map fresh_result h
  /\ fst (run_history st h) = match rev h with [] => st | (a, _) :: _ => refit st a end.
Proof.
  induction h as [|[a n] h IH]; intros st; simpl; auto.
  destruct (adjust_calls_spec n (refit st a) (f_thetas a)) as [H1 H2].
  destruct (adjust_calls n (refit st a) (f_thetas a)) as [st1 os]. simpl in H1, H2. subst st1 os.
  specialize (IH (refit st a)). destruct (run_history (refit st a) h) as [st2 r]. simpl in *.
  destruct IH as [-> ->]. split; [reflexivity|].
  destruct (rev h) as [|[a' n'] l] eqn:E; simpl; reflexivity.
Qed.

Theorem run_history_last st h a n :
  let st' := fst (run_history st (h ++ [(a, n)])) in
  st_X st' = input_variables (f_summ a) (f_obs a) /\ length (st_coefs st') = length (f_bs a)
  /\ length (st_masks st') = length (f_thetas a).
Proof.
  intros st'. unfold st'. destruct (run_history_spec (h ++ [(a, n)]) st) as [_ H]. rewrite H.
  rewrite rev_app_distr. simpl. unfold fit_state. simpl. rewrite map_length. auto.
Qed.
