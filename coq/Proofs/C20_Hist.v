(** C20 — call histories of the synthetic likelihoods and the misspecification adjustments (model: Num/Bsl.v).

    The model of one evaluation ([eval_model]) takes the caller's observed vector, whitening matrix and gamma as
    INPUTS and returns values only: there is nothing an evaluation could leave behind for the next one.  The
    correspondence therefore compares evaluation k of a history (same array objects handed to the code again and
    again, as BSL's sampler does with gamma_sampler_state['gamma']) with a fresh run of the model on the values
    on record.  The theorems below say that this is what [agree] / [ok] on a [CHist] case mean, and tie the
    variance adjustment as coded (via sd = sqrt(diag Sigma)) to its published oracle-free form. *)
From Coq Require Import ZArith QArith Qfield Qabs List Bool Lia.
From Elfi Require Import Num.Bsl.
Import ListNotations.
Local Open Scope Q_scope.

(** ---- histories ---- *)

Lemma forallb_singletons {A} (f : A -> bool) (l : list A) :
  forallb f l = true <-> Forall (fun x => forallb f [x] = true) l.
Proof.
  induction l as [|x l IH]; cbn.
  - split; intros; constructor.
  - rewrite andb_true_iff, IH. split.
    + intros [H1 H2]. constructor; [cbn; rewrite H1; reflexivity|exact H2].
    + intros H. inversion H as [|? ? H1 H2]; subst. cbn in H1. rewrite andb_true_r in H1. split; assumption.
Qed.

(** a history agrees with the model iff every evaluation, taken alone, agrees with a fresh model run
    on the shared recorded inputs *)
Theorem hist_agree_each : forall d v y evals,
  agree (CHist d v y evals) = true <-> Forall (fun e => agree (CHist d v y [e]) = true) evals.
Proof. intros. cbn [agree]. apply forallb_singletons. Qed.

Theorem hist_ok_each : forall d v y evals,
  ok (CHist d v y evals) = true <-> Forall (fun e => ok (CHist d v y [e]) = true) evals.
Proof. intros. cbn [ok]. apply forallb_singletons. Qed.

(** the statement for one evaluation is exactly [eval_ok]; position in the history, and what was evaluated
    before, do not enter *)
Theorem hist_ok_sound : forall d v y evals,
  ok (CHist d v y evals) = true -> forall e, In e evals -> eval_ok d v y e = true.
Proof. intros d v y evals H e Hin. cbn [ok] in H. rewrite forallb_forall in H. exact (H e Hin). Qed.

Theorem hist_ok_app : forall d v y es1 es2,
  ok (CHist d v y (es1 ++ es2)) = ok (CHist d v y es1) && ok (CHist d v y es2).
Proof. intros. cbn [ok]. apply forallb_app. Qed.

Theorem hist_ok_rev : forall d v y es, ok (CHist d v y (rev es)) = ok (CHist d v y es).
Proof.
  intros. cbn [ok]. induction es as [|e es IH]; [reflexivity|].
  cbn [rev]. rewrite forallb_app, IH. cbn. rewrite andb_true_r. apply andb_comm.
Qed.

(** the model's value for an evaluation is a function of that evaluation's recorded inputs only: two histories
    that contain the same evaluation give it the same model value (trivially, there is no state) *)
Theorem eval_model_stateless : forall ce d v y e (before before' : list lik_eval),
  nth (length before) (map (eval_model ce d v y) (before ++ [e])) (nil, nil, nil)
  = nth (length before') (map (eval_model ce d v y) (before' ++ [e])) (nil, nil, nil).
Proof.
  intros. rewrite !map_app, !app_nth2 by (rewrite map_length; lia).
  rewrite !map_length, !Nat.sub_diag. reflexivity.
Qed.

(** ---- misspecification adjustments, entry level ---- *)

(** variance adjustment as coded (through sd = sqrt(Sigma_ii)) is the published Sigma_ii (1 + gamma_i^2) *)
Theorem mis_var_diag : forall s sd g, sd * sd == s -> mis_var_entry s sd g true == mis_var_spec_entry s g true.
Proof. intros s sd g H. unfold mis_var_entry, mis_var_spec_entry. rewrite <- H. ring. Qed.

Theorem mis_var_off : forall s sd g, mis_var_entry s sd g false == mis_var_spec_entry s g false.
Proof. intros. unfold mis_var_entry, mis_var_spec_entry. ring. Qed.

(** gamma = 0 switches both adjustments off *)
Theorem mis_mean_zero : forall m sd, mis_mean_entry m sd 0 == m.
Proof. intros. unfold mis_mean_entry. ring. Qed.

Theorem mis_var_zero : forall s sd diag, mis_var_entry s sd 0 diag == s.
Proof. intros. unfold mis_var_entry. destruct diag; ring. Qed.

(** the variance adjustment never lowers a variance and keeps the matrix symmetric *)
Theorem mis_var_increases : forall s sd g diag, s <= mis_var_entry s sd g diag.
Proof.
  intros. unfold mis_var_entry. destruct diag.
  - rewrite <- (Qplus_0_r s) at 1. apply Qplus_le_r.
    destruct (Qlt_le_dec (sd * g) 0) as [Hn|Hp].
    + setoid_replace (sd * g * (sd * g)) with ((- (sd * g)) * (- (sd * g))) by ring.
      apply Qmult_le_0_compat; apply Qlt_le_weak; rewrite <- (Qopp_opp 0) ; apply Qopp_lt_compat; exact Hn.
    + apply Qmult_le_0_compat; exact Hp.
  - rewrite Qplus_0_r. apply Qle_refl.
Qed.

(** what an in-place update of the caller's gamma would do to the NEXT evaluation: the adjustment would be taken
    at gamma * sd instead of gamma; it differs from the stated one unless sd = 1 or gamma = 0 *)
Theorem mis_mean_scaled_gamma_differs : forall m sd sd' g,
  mis_mean_entry m sd' (g * sd) == mis_mean_entry m sd' g -> sd' * g * (sd - 1) == 0.
Proof.
  intros m sd sd' g H. unfold mis_mean_entry in H.
  setoid_replace (sd' * g * (sd - 1)) with ((m + sd' * (g * sd)) - (m + sd' * g)) by ring.
  rewrite H. ring.
Qed.
