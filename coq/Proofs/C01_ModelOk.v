(** C01: the model's OWN result, fed back as if it were the implementation's, passes the check [ok]
    of Sched/Reject.v - for every case whose record of consumed batches is exactly what the run
    consumed, whose batches have at most batch_size rows, with n_samples >= 1 and at least n_samples
    accepted draws among the consumed ones.  Hence [agree c = true -> ok c = true] under the same
    hypotheses: an implementation that agrees with the model has the property.

    The two hypotheses [0 < c_n c] and [c_n c <= length (consumed_accepted c)] are needed: see
    [model_ok_needs_positive_n] and [model_ok_needs_n_accepted] at the end. *)
From Coq Require Import List ZArith NArith Arith Bool Lia Sorting.Permutation.
From Elfi Require Import Sched.Sched Sched.Reject Proofs.C01_Sorting Proofs.C01_Reject Proofs.C01_History Proofs.C01_OkMeaning.
Import ListNotations.

(** the case [c] with the result fields replaced by the result [r] *)
Definition with_result (c : case) (r : rresult) : case :=
  {| c_n := c_n c; c_b := c_b c; c_form := c_form c; c_table := c_table c;
     c_rows := res_rows r; c_threshold := res_threshold r;
     c_n_sim := res_n_sim r; c_n_batches := res_n_batches r |}.

Notation rseq_run := (seq_run rstate (list draw) unit r_objective r_nbatches (fun _ _ => tt)).

(** ---- budget forms: a finished run has consumed exactly the objective's number of batches ---- *)
Lemma seq_run_budget_exact table : forall fuel s i s' k,
  r_thr s = None -> r_nbatches s <= r_objective s ->
  rseq_run (batch_of table) rupdate fuel s i = Some (s', k) ->
  r_nbatches s' = r_objective s.
Proof.
  induction fuel as [|f IH]; intros s i s' k Ht Hle H; cbn [seq_run] in H.
  - destruct (r_objective s <=? r_nbatches s) eqn:E; [|discriminate].
    apply Nat.leb_le in E. inversion H; subst. lia.
  - destruct (r_objective s <=? r_nbatches s) eqn:E.
    + apply Nat.leb_le in E. inversion H; subst. lia.
    + apply Nat.leb_gt in E.
      set (s1 := fst (rupdate s (batch_of table i tt) i)) in *.
      destruct (rupdate_consts s (batch_of table i tt) i) as [_ [_ [C3 C4]]]. fold s1 in C3, C4.
      assert (Ho : r_objective s1 = r_objective s) by (apply rupdate_objective_budget; exact Ht).
      rewrite <- Ho. eapply IH; [now rewrite C3 | rewrite C4, Ho; lia | exact H].
Qed.

Lemma initial_objective_thr n b f : snd (initial_objective n b f) = form_threshold f.
Proof. destruct f; reflexivity. Qed.

Lemma model_result_budget c r :
  (forall t maxp, c_form c <> ByThreshold t maxp) ->
  model_result c = Some r ->
  res_n_batches r = fst (initial_objective (c_n c) (c_b c) (c_form c)).
Proof.
  intros Hf H. unfold model_result in H.
  assert (Hthr := initial_objective_thr (c_n c) (c_b c) (c_form c)).
  destruct (initial_objective (c_n c) (c_b c) (c_form c)) as [obj thr]. simpl in Hthr. simpl fst.
  assert (Hn : thr = None).
  { rewrite Hthr. destruct (c_form c) as [t m| |]; [exfalso; now apply (Hf t m) | reflexivity | reflexivity]. }
  unfold rseq in H.
  destruct (seq_run _ _ _ _ _ _ _ _ _ _ _) as [[s k]|] eqn:E; [|discriminate].
  inversion H; subst r. simpl.
  apply (seq_run_budget_exact (c_table c)) in E; [exact E | exact Hn | simpl; lia].
Qed.

(** ---- the last row of the first n rows ---- *)
Lemma last_firstn_nth {A} (l : list A) n d : 0 < n -> n <= length l -> last (firstn n l) d = nth (n - 1) l d.
Proof.
  intros Hn Hl. rewrite last_nth, firstn_length, Nat.min_l by exact Hl.
  apply nth_firstn_lt'. lia.
Qed.

(** n_samples is a constant of the run *)
Lemma consume_n : forall bs s, r_n (consume s bs) = r_n s.
Proof.
  induction bs as [|batch r IH]; intros s; [reflexivity|].
  change (consume s (batch :: r)) with (consume (fst (rupdate s batch 0)) r).
  rewrite IH. apply (rupdate_consts s batch 0).
Qed.

Lemma run_on_n prev c s : run_on prev c = Some s -> r_n s = c_n c.
Proof.
  unfold run_on, rseq. intros H.
  destruct (seq_run _ _ _ _ _ _ _ _ _ _ _) as [[s' k]|] eqn:E; [|discriminate].
  inversion H; subst s'. apply seq_run_consume in E. destruct E as [_ ->].
  rewrite consume_n. apply (rset_objective_init prev (c_n c) (c_b c) (c_form c)).
Qed.

(** ---- the theorem ---- *)
Theorem model_ok : forall c r,
  Forall (fun batch => length batch <= c_b c) (c_table c) ->
  0 < c_n c ->
  c_n c <= length (consumed_accepted c) ->
  model_result c = Some r ->
  res_n_batches r = length (c_table c) ->
  ok (with_result c r) = true.
Proof.
  intros c r Hall Hn Hacc Hres Hnb.
  apply ok_iff_spec.
  assert (Hres' := Hres). rewrite model_result_run_on in Hres'.
  destruct (run_on None c) as [s|] eqn:Erun; [|discriminate].
  assert (Hr : extract s = r) by congruence. clear Hres'.
  (* at least one batch was consumed: otherwise nothing is accepted and n_samples = 0 *)
  assert (Hpos : 0 < r_nbatches s).
  { destruct (r_nbatches s) eqn:E; [|lia]. exfalso.
    rewrite <- Hr in Hnb. simpl in Hnb. rewrite E in Hnb.
    unfold consumed_accepted in Hacc. destruct (c_table c); [|discriminate]. simpl in Hacc. lia. }
  destruct (run_on_returns_best None c s Hall Erun Hpos) as [Hbest Hsim].
  rewrite Hr in Hbest, Hsim. rewrite Hnb, firstn_all, initial_objective_thr in Hbest.
  destruct Hbest as (Hasc & [rest [Hperm Hrest]] & Hfull & Hthr).
  change (filter (accepts (form_threshold (c_form c))) (concat (c_table c))) with (consumed_accepted c) in *.
  destruct (Hfull Hacc) as [Hlen Hfilled].
  (* the reported threshold is the discrepancy of the last returned row *)
  assert (Hrn : r_n s = c_n c) by (eapply run_on_n; exact Erun).
  assert (Hlast : res_threshold r = sdisc (last (res_rows r) None)).
  { rewrite <- Hr in Hlen |- *. simpl in Hlen |- *. rewrite Hrn in Hlen |- *.
    rewrite firstn_length in Hlen.
    assert (Hle : c_n c <= length (r_buf s)) by lia.
    now rewrite (last_firstn_nth _ _ _ Hn Hle). }
  assert (Hlast_in : In (last (res_rows r) None) (res_rows r)).
  { rewrite last_nth. apply nth_In. lia. }
  unfold ok_spec, with_result, consumed_accepted. simpl.
  split; [exact Hlen|].
  split; [now apply ascending_pairs|].
  split; [exact Hfilled|].
  split.
  { exists rest. split; [exact Hperm|]. intros x Hx. rewrite Hlast. now apply Hrest. }
  split; [exact Hlast|].
  split; [rewrite Hsim; apply Nat.mul_comm|].
  split; [exact Hnb|].
  split; [intros Hf; now apply model_result_budget|].
  intros t Ht sl Hsl. destruct sl as [d|]; [|exfalso; now apply (Hfilled None)].
  simpl. now apply (Hthr t d).
Qed.

(** ---- agreement with the model implies the property ---- *)
Lemma slot_eqb_eq a b : slot_eqb a b = true -> a = b.
Proof.
  destruct a as [x|], b as [y|]; simpl; intros H; try discriminate; [|reflexivity].
  apply draw_eqb_eq in H. now subst.
Qed.

Lemma rows_eqb_eq : forall a b, rows_eqb a b = true -> a = b.
Proof.
  induction a as [|x r IH]; intros [|y s] H; simpl in H; try discriminate; [reflexivity|].
  apply andb_true_iff in H. destruct H as [H1 H2]. apply slot_eqb_eq in H1. apply IH in H2. now subst.
Qed.

Lemma agree_with_result c :
  agree c = true -> exists r, model_result c = Some r /\ c = with_result c r.
Proof.
  unfold agree. destruct (model_result c) as [r|]; [|discriminate]. intros H.
  apply andb_true_iff in H. destruct H as [H H4]. apply andb_true_iff in H. destruct H as [H H3].
  apply andb_true_iff in H. destruct H as [H1 H2].
  apply rows_eqb_eq in H1. apply deqb_eq in H2. apply Nat.eqb_eq in H3. apply Nat.eqb_eq in H4.
  exists r. split; [reflexivity|]. unfold with_result. rewrite H1, H2, H3, H4. destruct c; reflexivity.
Qed.

Theorem agree_ok : forall c,
  Forall (fun batch => length batch <= c_b c) (c_table c) ->
  0 < c_n c ->
  c_n c <= length (consumed_accepted c) ->
  c_n_batches c = length (c_table c) ->
  agree c = true -> ok c = true.
Proof.
  intros c Hall Hn Hacc Hnb Hag.
  destruct (agree_with_result c Hag) as [r [Hres Hc]].
  rewrite Hc. apply model_ok; try assumption.
  rewrite Hc in Hnb. exact Hnb.
Qed.

(** ---- the two extra hypotheses are needed ---- *)
Definition mo_dz (z : Z) (c : N) : draw := {| d_disc := Fin z; d_code := c |}.
Definition mo_di (c : N) : draw := {| d_disc := PInf; d_code := c |}.
Definition mo_case (n b : nat) (f : objective_form) (t : list (list draw)) : case :=
  {| c_n := n; c_b := b; c_form := f; c_table := t; c_rows := []; c_threshold := PInf; c_n_sim := 0; c_n_batches := 0 |}.

(** n_samples = 0 with a budget of two batches: the model reports as threshold the discrepancy of
    buffer row 0 (index n-1 truncated at 0: Fin 0), [ok] wants that of the last of no rows (inf) *)
Example model_ok_needs_positive_n :
  let c := mo_case 0 2 (ByNsim 4) [[mo_dz 2 0; mo_di 1]; [mo_di 2; mo_dz 0 3]] in
  match model_result c with
  | Some r => Nat.eqb (res_n_batches r) (length (c_table c)) && deqb (res_threshold r) (Fin 0)
              && negb (ok (with_result c r))
  | None => false
  end = true.
Proof. vm_compute. reflexivity. Qed.

(** a budget of fewer simulations than n_samples (n_sim = 2 < 4 = n_samples): the model returns rows
    that hold no draw, which [ok] refuses *)
Example model_ok_needs_n_accepted :
  let c := mo_case 4 2 (ByNsim 2) [[mo_dz 2 0; mo_di 1]] in
  match model_result c with
  | Some r => Nat.eqb (res_n_batches r) (length (c_table c))
              && rows_eqb (res_rows r) [Some (mo_dz 2 0); Some (mo_di 1); None; None]
              && negb (ok (with_result c r))
  | None => false
  end = true.
Proof. vm_compute. reflexivity. Qed.
