(** Proofs about model editing (C14): structural consistency is preserved by every edit. *)
From Coq Require Import List String ZArith Arith Bool Lia Sorting.Permutation.
From Elfi Require Import Graph.Net Graph.Edit Base.StrOrder Proofs.C03_Exec Proofs.C03_Compile.
Import ListNotations.

Definition names (m : snet) : list name := map fst (s_nodes m).

(** ---- association lists ---- *)
Section Assoc.
  Context {A : Type}.

  Lemma has_In n (l : list (name * A)) : has n l = true <-> In n (map fst l).
  Proof.
    unfold has. induction l as [|[m a] r IH]; simpl; [split; [discriminate | tauto]|].
    destruct (String.eqb n m) eqn:E.
    - apply String.eqb_eq in E. subst. split; auto.
    - apply String.eqb_neq in E. rewrite IH. split; [auto | intros [H|H]; [congruence | exact H]].
  Qed.

  Lemma has_false_In n (l : list (name * A)) : has n l = false <-> ~ In n (map fst l).
  Proof. rewrite <- has_In. destruct (has n l); split; congruence. Qed.

  Lemma In_remove k n (l : list (name * A)) :
    In k (map fst (remove n l)) <-> In k (map fst l) /\ k <> n.
  Proof.
    unfold remove. induction l as [|[m a] r IH]; simpl; [tauto|].
    destruct (String.eqb n m) eqn:E; simpl.
    - apply String.eqb_eq in E. subst. rewrite IH. split; [tauto|]. intros [[H|H] Hn]; [congruence | tauto].
    - apply String.eqb_neq in E. rewrite IH. split; [intros [H|H]; [subst; split; auto | tauto] | tauto].
  Qed.

  Lemma In_remove_pair k (v : A) n l : In (k, v) (remove n l) -> In (k, v) l /\ k <> n.
  Proof.
    unfold remove. rewrite filter_In. simpl. intros [H E]. split; [exact H|].
    apply negb_true_iff in E. apply String.eqb_neq in E. congruence.
  Qed.

  Lemma NoDup_remove n (l : list (name * A)) : NoDup (map fst l) -> NoDup (map fst (remove n l)).
  Proof.
    unfold remove. induction l as [|[m a] r IH]; simpl; intros H; [constructor|].
    inversion H as [|? ? Hn Hr]; subst. destruct (negb (String.eqb n m)); simpl; [|auto].
    constructor; [|auto]. intros Hin. apply Hn.
    apply in_map_iff in Hin. destruct Hin as [[k b] [Hk Hin]]. apply filter_In in Hin.
    apply in_map_iff. exists (k, b). tauto.
  Qed.

  Lemma names_set_new n (a : A) l : ~ In n (map fst l) -> map fst (set n a l) = map fst l ++ [n].
  Proof.
    induction l as [|[m b] r IH]; simpl; intros H; [reflexivity|].
    destruct (String.eqb n m) eqn:E; [apply String.eqb_eq in E; subst; tauto|].
    simpl. rewrite IH; tauto.
  Qed.

  Lemma names_set_old n (a : A) l : In n (map fst l) -> map fst (set n a l) = map fst l.
  Proof.
    induction l as [|[m b] r IH]; simpl; intros H; [tauto|].
    destruct (String.eqb n m) eqn:E; simpl; [reflexivity|].
    apply String.eqb_neq in E. rewrite IH; [reflexivity | destruct H; congruence].
  Qed.

  Lemma In_set k (v : A) n a l : In (k, v) (set n a l) -> k = n \/ In (k, v) l.
  Proof.
    induction l as [|[m b] r IH]; simpl.
    - intros [H|[]]. inversion H. now left.
    - destruct (String.eqb n m) eqn:E.
      + apply String.eqb_eq in E. subst. intros [H|H]; [inversion H; now left | right; now right].
      + intros [H|H]; [right; now left|]. destruct (IH H); auto.
  Qed.
End Assoc.

(** ---- structural consistency ---- *)
Record Closed (m : snet) : Prop := {
  cl_names : NoDup (names m);
  cl_edges : forall e, In e (s_edges m) -> In (e_src e) (names m) /\ In (e_dst e) (names m);
  cl_obs : forall k v, In (k, v) (s_observed m) -> In k (names m)
}.

Lemma Closed_empty : Closed empty_net.
Proof. constructor; simpl; [constructor | intros ? [] | intros ? ? []]. Qed.

Lemma Closed_with_observed_remove m n : Closed m -> Closed (with_observed m (remove n (s_observed m))).
Proof.
  intros [A B C]. constructor; simpl; auto.
  intros k v H. apply In_remove_pair in H. eapply C. apply H.
Qed.

Lemma Closed_drop m n : Closed m -> ~ In n (map fst (s_observed m)) -> Closed (drop_node m n).
Proof.
  intros [A B C] Hn. constructor; unfold names in *; simpl.
  - now apply NoDup_remove.
  - intros e He. apply filter_In in He. destruct He as [He Hc].
    apply andb_true_iff in Hc. destruct Hc as [H1 H2].
    apply negb_true_iff in H1, H2. apply String.eqb_neq in H1, H2.
    destruct (B e He) as [B1 B2]. split; apply In_remove; split; auto.
  - intros k v H. apply In_remove. split; [eapply C; eauto|].
    intros ->. apply Hn. apply in_map_iff. exists (n, v). auto.
Qed.

Lemma not_in_removed_keys {A} n (l : list (name * A)) : ~ In n (map fst (remove n l)).
Proof. intros H. apply In_remove in H. tauto. Qed.

Lemma Closed_fold (step : snet -> name -> snet) :
  (forall m p, Closed m -> Closed (step m p)) ->
  forall l m, Closed m -> Closed (fold_left step l m).
Proof. intros Hs. induction l as [|p r IH]; intros m H; simpl; auto. Qed.

Theorem remove_node_closed : forall fuel m n, Closed m -> Closed (remove_node fuel m n).
Proof.
  induction fuel as [|f IH]; intros m n H; simpl.
  - apply Closed_drop; [now apply Closed_with_observed_remove | simpl; apply not_in_removed_keys].
  - apply Closed_fold.
    + intros m' p Hm'. destruct (is_private p && has p (s_nodes m') && Nat.eqb (degree m' p) 0); auto.
    + apply Closed_drop; [now apply Closed_with_observed_remove | simpl; apply not_in_removed_keys].
Qed.

(** removing only ever shrinks the node set and the edge set, and the removed node is gone *)
Lemma fold_names_incl (step : snet -> name -> snet) :
  (forall m p, incl (names (step m p)) (names m)) ->
  forall l m, incl (names (fold_left step l m)) (names m).
Proof.
  intros Hs. induction l as [|p r IH]; intros m; simpl; [apply incl_refl|].
  eapply incl_tran; [apply IH | apply Hs].
Qed.

Lemma names_drop_incl m n : incl (names (drop_node m n)) (names m).
Proof. intros k H. unfold names in *. simpl in H. apply In_remove in H. tauto. Qed.

Lemma remove_node_names_incl : forall fuel m n, incl (names (remove_node fuel m n)) (names m).
Proof.
  induction fuel as [|f IH]; intros m n; simpl.
  - eapply incl_tran; [apply names_drop_incl | apply incl_refl].
  - eapply incl_tran.
    + apply fold_names_incl. intros m' p.
      destruct (is_private p && has p (s_nodes m') && Nat.eqb (degree m' p) 0); [apply IH | apply incl_refl].
    + eapply incl_tran; [apply names_drop_incl | apply incl_refl].
Qed.

Theorem remove_node_gone fuel m n : ~ In n (names (remove_node fuel m n)).
Proof.
  intros H. assert (Hd : In n (names (drop_node (with_observed m (remove n (s_observed m))) n))).
  { destruct fuel as [|f]; simpl in H; [exact H|].
    revert H. apply fold_names_incl. intros m' p.
    destruct (is_private p && has p (s_nodes m') && Nat.eqb (degree m' p) 0); [apply remove_node_names_incl | apply incl_refl]. }
  unfold names in Hd. simpl in Hd. apply In_remove in Hd. tauto.
Qed.

Lemma fold_edges_incl (step : snet -> name -> snet) :
  (forall m p, incl (s_edges (step m p)) (s_edges m)) ->
  forall l m, incl (s_edges (fold_left step l m)) (s_edges m).
Proof.
  intros Hs. induction l as [|p r IH]; intros m; simpl; [apply incl_refl|].
  eapply incl_tran; [apply IH | apply Hs].
Qed.

Lemma remove_node_edges_incl : forall fuel m n, incl (s_edges (remove_node fuel m n)) (s_edges m).
Proof.
  assert (Hd : forall m n, incl (s_edges (drop_node (with_observed m (remove n (s_observed m))) n)) (s_edges m)).
  { intros m n e H. simpl in H. apply filter_In in H. tauto. }
  induction fuel as [|f IH]; intros m n; simpl; [apply Hd|].
  eapply incl_tran; [|apply Hd].
  apply fold_edges_incl. intros m' p.
  destruct (is_private p && has p (s_nodes m') && Nat.eqb (degree m' p) 0); [apply IH | apply incl_refl].
Qed.

(** lookups of surviving nodes are unchanged by removal *)
Lemma lookup_remove_other {A} n k (l : list (name * A)) : k <> n -> lookup k (remove n l) = lookup k l.
Proof.
  intros Hne. unfold remove. induction l as [|[m a] r IH]; simpl; [reflexivity|].
  destruct (String.eqb n m) eqn:E; simpl.
  - apply String.eqb_eq in E. subst. destruct (String.eqb k m) eqn:E2; [apply String.eqb_eq in E2; congruence | exact IH].
  - destruct (String.eqb k m); [reflexivity | exact IH].
Qed.

Lemma lookup_Some_In {A} k (a : A) l : lookup k l = Some a -> In k (map fst l).
Proof. intros H. apply has_In. unfold has. now rewrite H. Qed.

Lemma fold_lookup_stable (step : snet -> name -> snet) k st :
  (forall m p, lookup k (s_nodes (step m p)) = Some st -> lookup k (s_nodes m) = Some st) ->
  forall l m, lookup k (s_nodes (fold_left step l m)) = Some st -> lookup k (s_nodes m) = Some st.
Proof. intros Hs. induction l as [|p r IH]; intros m H; simpl in H; [exact H|]. apply Hs with (p := p). now apply IH. Qed.

Theorem remove_node_keeps_state : forall fuel m n k st,
  lookup k (s_nodes (remove_node fuel m n)) = Some st -> lookup k (s_nodes m) = Some st.
Proof.
  assert (Hd : forall m n k st, lookup k (s_nodes (drop_node (with_observed m (remove n (s_observed m))) n)) = Some st ->
                                lookup k (s_nodes m) = Some st).
  { intros m n k st H. simpl in H. destruct (string_dec k n) as [->|Hne].
    - exfalso. apply lookup_Some_In in H. apply In_remove in H. tauto.
    - now rewrite lookup_remove_other in H. }
  induction fuel as [|f IH]; intros m n k st H; simpl in H; [now apply Hd in H|].
  apply (Hd m n). apply fold_lookup_stable in H; [exact H|]. intros m' p.
  destruct (is_private p && has p (s_nodes m') && Nat.eqb (degree m' p) 0); [apply IH | auto].
Qed.

(** ---- adding nodes and edges ---- *)
Theorem add_node_closed m n st m' : Closed m -> add_node m n st = Ok m' -> Closed m' /\ names m' = names m ++ [n] /\ ~ In n (names m).
Proof.
  unfold add_node. intros [A B C] H. destruct (has n (s_nodes m)) eqn:E; [discriminate|].
  inversion H; subst. apply has_false_In in E.
  assert (Hn : names (with_nodes m (s_nodes m ++ [(n, st)])) = names m ++ [n]).
  { unfold names. simpl. now rewrite map_app. }
  split; [|split; [exact Hn | exact E]].
  constructor; rewrite ?Hn; simpl.
  - apply NoDup_app_snoc; assumption.
  - intros e He. destruct (B e He). split; apply in_app_iff; now left.
  - intros k v Hk. apply in_app_iff. left. eapply C; eauto.
Qed.

Theorem add_edge_closed m p c par m' :
  Closed m -> add_edge_m m p c par = Ok m' ->
  Closed m' /\ names m' = names m /\
  (forall e, In e (s_edges m') -> In e (s_edges m) \/ (e_src e = p /\ e_dst e = c)).
Proof.
  unfold add_edge_m. intros [A B C] H.
  destruct (has c (s_nodes m)) eqn:Ec; simpl in H; [|discriminate].
  destruct (has p (s_nodes m)) eqn:Ep; simpl in H; [|discriminate].
  inversion H; subst. apply has_In in Ec, Ep.
  split; [|split; [reflexivity|]].
  - constructor; simpl; auto.
    intros e He. apply In_add_edge in He. destruct He as [->|He]; [split; assumption | now apply B].
  - simpl. intros e He. apply In_add_edge in He. destruct He as [->|He]; [right; split; reflexivity | now left].
Qed.

(** the monadic fold that adds the positional parents of a new node *)
Lemma fold_add_parents n : forall parents m1 m2,
  Closed m1 ->
  fold_left (fun r p => do mm <- r; add_edge_m mm p n None) parents (Ok m1) = Ok m2 ->
  Closed m2 /\ names m2 = names m1 /\ s_observed m2 = s_observed m1 /\
  (forall e, In e (s_edges m2) -> In e (s_edges m1) \/ (In (e_src e) parents /\ e_dst e = n)).
Proof.
  assert (Herr : forall (l : list name) e, fold_left (fun r p => do mm <- r; add_edge_m mm p n None) l (Err e) = Err e).
  { induction l as [|x l IHl]; intros e; simpl; auto. }
  induction parents as [|p r IH]; intros m1 m2 Hc H; simpl in H.
  - inversion H; subst. split; [exact Hc|]. split; [reflexivity|]. split; [reflexivity|]. intros e He. now left.
  - destruct (add_edge_m m1 p n None) as [m1'|e] eqn:Ea; simpl in H; [|rewrite Herr in H; discriminate].
    destruct (add_edge_closed _ _ _ _ _ Hc Ea) as [Hc' [Hn He]].
    destruct (IH _ _ Hc' H) as [A [B [C D]]].
    split; [exact A|]. split; [congruence|]. split.
    + rewrite C. unfold add_edge_m in Ea. destruct (has n (s_nodes m1)); simpl in Ea; [|discriminate].
      destruct (has p (s_nodes m1)); simpl in Ea; [|discriminate]. inversion Ea; reflexivity.
    + intros e0 He0. destruct (D e0 He0) as [H1|[H1 H2]].
      * destruct (He e0 H1) as [H3|[H3 H4]]; [now left | right; split; [left; now symmetry | exact H4]].
      * right. split; [now right | exact H2].
Qed.

(** ---- parameter names ---- *)
Theorem set_parameter_names_closed m ps m' :
  Closed m -> set_parameter_names m ps = Ok m' -> Closed m' /\ names m' = names m.
Proof.
  unfold set_parameter_names. intros [A B C] H. destruct (forallb _ ps); [|discriminate]. inversion H; subst.
  assert (Hn : names (with_nodes m (map (fun ns : name * sstate => (fst ns, set_param (snd ns) (mem (fst ns) ps))) (s_nodes m))) = names m).
  { unfold names. simpl. rewrite map_map. simpl. reflexivity. }
  split; [|exact Hn]. constructor; rewrite ?Hn; simpl; auto.
Qed.

Theorem parameter_names_spec m n :
  In n (parameter_names m) <-> exists st, In (n, st) (s_nodes m) /\ s_parameter st = true.
Proof.
  unfold parameter_names. split.
  - intros H. apply (Permutation_in _ (sort_names_perm _)) in H.
    apply in_map_iff in H. destruct H as [[k st] [Hk Hin]]. simpl in Hk. subst.
    apply filter_In in Hin. exists st. tauto.
  - intros [st [Hin Hp]]. apply (Permutation_in _ (Permutation_sym (sort_names_perm _))).
    apply in_map_iff. exists (n, st). split; [reflexivity|]. apply filter_In. auto.
Qed.

Theorem parameter_names_sorted m : Sorted.StronglySorted leP (parameter_names m).
Proof. apply sort_names_sorted. Qed.

Theorem set_parameter_names_spec m ps m' n :
  set_parameter_names m ps = Ok m' ->
  (In n (parameter_names m') <-> In n (names m) /\ In n ps).
Proof.
  unfold set_parameter_names. intros H. destruct (forallb _ ps); [|discriminate]. inversion H; subst. clear H.
  rewrite parameter_names_spec. simpl. split.
  - intros [st [Hin Hp]]. apply in_map_iff in Hin. destruct Hin as [[k s0] [Hk Hin]]. inversion Hk; subst. clear Hk.
    simpl in Hp. split; [apply in_map_iff; exists (n, s0); auto | now apply mem_In].
  - intros [Hn Hp]. apply in_map_iff in Hn. destruct Hn as [[k s0] [Hk Hin]]. simpl in Hk. subst.
    exists (set_param s0 (mem n ps)). split.
    + apply in_map_iff. exists (n, s0). auto.
    + simpl. now apply mem_In.
Qed.

(** ---- become (update_node) ---- *)
Lemma fold_add_edges_In (f : edge -> edge) : forall (l : list edge) es e,
  In e (fold_left (fun acc x => add_edge (e_src (f x)) (e_dst (f x)) (e_par (f x)) acc) l es) ->
  In e es \/ exists x, In x l /\ e = f x.
Proof.
  induction l as [|x r IH]; intros es e H; simpl in H; [now left|].
  apply IH in H. destruct H as [H|[y [Hy He]]].
  - apply In_add_edge in H. destruct H as [->|H]; [|now left].
    right. exists x. split; [now left|]. destruct (f x) as [[a b] c]. reflexivity.
  - right. exists y. split; [now right | exact He].
Qed.

Theorem update_node_closed m n u m' :
  Closed m -> update_node m n u = Ok m' -> In n (names m') -> Closed m'.
Proof.
  unfold update_node. intros Hc H Hin.
  destruct (has n (s_nodes m)) eqn:En; cbn [negb] in H; [|discriminate].
  destruct (has u (s_nodes m)) eqn:Eu; cbn [negb] in H; [|discriminate].
  set (m0 := with_observed m (remove u (s_observed m))) in *.
  assert (H0 : Closed m0) by (apply Closed_with_observed_remove; exact Hc).
  set (m1 := remove_node (List.length (s_nodes m0)) m0 n) in *.
  assert (H1 : Closed m1) by (apply remove_node_closed; exact H0).
  assert (Hn1 : ~ In n (names m1)) by apply remove_node_gone.
  destruct (lookup u (s_nodes m1)) as [stu|] eqn:Elu; [|discriminate].
  set (m2 := with_nodes m1 (set n stu (s_nodes m1))) in *.
  assert (Hn2 : names m2 = names m1 ++ [n]) by (unfold names, m2; simpl; now apply names_set_new).
  assert (H2 : Closed m2).
  { destruct H1 as [A B C]. constructor; rewrite ?Hn2; simpl.
    - now apply NoDup_app_snoc.
    - intros e He. destruct (B e He). split; apply in_app_iff; now left.
    - intros k v Hk. apply in_app_iff. left. eapply C; eauto. }
  set (out_edges := filter (fun e => String.eqb n (e_src e)) (s_edges m0)) in *.
  destruct (forallb (fun e => has (e_dst e) (s_nodes m2)) out_edges) eqn:Eout; cbn [negb] in H; [|discriminate].
  set (es3 := fold_left (fun es e => add_edge (e_src e) (e_dst e) (e_par e) es) out_edges (s_edges m2)) in *.
  set (m3 := with_edges m2 es3) in *.
  assert (H3 : Closed m3).
  { destruct H2 as [A B C]. constructor; simpl; auto.
    intros e He. unfold es3 in He.
    apply (fold_add_edges_In (fun x => x)) in He. destruct He as [He|[x [Hx ->]]]; [now apply B|].
    rewrite forallb_forall in Eout. specialize (Eout x Hx). apply has_In in Eout.
    unfold out_edges in Hx. apply filter_In in Hx. destruct Hx as [_ Hx]. apply String.eqb_eq in Hx.
    split; [|exact Eout]. rewrite <- Hx. change (In n (names m2)). rewrite Hn2. apply in_app_iff. right. now left. }
  set (in_u := filter (fun e => String.eqb u (e_dst e)) (s_edges m3)) in *.
  set (es4 := fold_left (fun es e => add_edge (e_src e) n (e_par e) es) in_u (s_edges m3)) in *.
  set (m4 := with_edges m3 es4) in *.
  assert (H4 : Closed m4).
  { destruct H3 as [A B C]. constructor; simpl; auto.
    intros e He. unfold es4 in He.
    apply (fold_add_edges_In (fun x => (e_src x, n, e_par x))) in He.
    destruct He as [He|[x [Hx ->]]]; [now apply B|].
    unfold in_u in Hx. apply filter_In in Hx. destruct Hx as [Hx _]. destruct (B x Hx) as [Bs _].
    split; [exact Bs|]. unfold e_dst. simpl. change (In n (names m2)). rewrite Hn2. apply in_app_iff. right. now left. }
  set (m5 := remove_node (List.length (s_nodes m4)) m4 u) in *.
  assert (H5 : Closed m5) by (apply remove_node_closed; exact H4).
  inversion H; subst m'. clear H.
  destruct (lookup u (s_observed m)) as [v|]; [|exact H5].
  destruct H5 as [A B C]. constructor; simpl; auto.
  intros k v' Hk. apply In_set in Hk. destruct Hk as [->|Hk]; [exact Hin | eapply C; eauto].
Qed.

(** the replaced node ends up with exactly the replacement's state, and the replacement is gone *)
Theorem update_node_state m n u m' st' :
  update_node m n u = Ok m' -> n <> u ->
  lookup n (s_nodes m') = Some st' -> lookup u (s_nodes m) = Some st'.
Proof.
  unfold update_node. intros H Hnu Hl.
  destruct (has n (s_nodes m)); cbn [negb] in H; [|discriminate].
  destruct (has u (s_nodes m)); cbn [negb] in H; [|discriminate].
  set (m0 := with_observed m (remove u (s_observed m))) in *.
  set (m1 := remove_node (List.length (s_nodes m0)) m0 n) in *.
  destruct (lookup u (s_nodes m1)) as [stu|] eqn:Elu; [|discriminate].
  set (m2 := with_nodes m1 (set n stu (s_nodes m1))) in *.
  destruct (forallb _ _); cbn [negb] in H; [|discriminate].
  match type of H with Ok (match _ with Some v => with_observed ?m5 _ | None => _ end) = _ => set (mm := m5) in * end.
  assert (Hl5 : lookup n (s_nodes mm) = Some st').
  { inversion H; subst m'. destruct (lookup u (s_observed m)); exact Hl. }
  unfold mm in Hl5. apply remove_node_keeps_state in Hl5. simpl in Hl5.
  rewrite lookup_set_same in Hl5. inversion Hl5; subst st'.
  apply remove_node_keeps_state in Elu. exact Elu.
Qed.

Theorem update_node_replacement_gone m n u m' :
  update_node m n u = Ok m' -> ~ In u (names m').
Proof.
  unfold update_node. intros H.
  destruct (has n (s_nodes m)); cbn [negb] in H; [|discriminate].
  destruct (has u (s_nodes m)); cbn [negb] in H; [|discriminate].
  destruct (lookup u (s_nodes _)) as [stu|]; [|discriminate].
  destruct (forallb _ _); cbn [negb] in H; [|discriminate].
  inversion H; subst m'. clear H.
  destruct (lookup u (s_observed m)); unfold names; simpl; apply remove_node_gone.
Qed.

(** ---- acyclicity: removal and node creation never create a cycle ---- *)
Definition acyclic (es : list edge) : Prop := forall u v p, In (u, v, p) es -> ~ reach es v u.

Lemma reach_incl es es' x y : incl es es' -> reach es x y -> reach es' x y.
Proof. intros Hi H. induction H; [constructor | eapply reach_step; eauto]. Qed.

Lemma acyclic_incl es es' : incl es' es -> acyclic es -> acyclic es'.
Proof. intros Hi Ha u v p Hin Hr. eapply Ha; [apply Hi; exact Hin | eapply reach_incl; eauto]. Qed.

Theorem remove_node_acyclic fuel m n : acyclic (s_edges m) -> acyclic (s_edges (remove_node fuel m n)).
Proof. apply acyclic_incl. apply remove_node_edges_incl. Qed.

(** a new node with edges only from existing nodes is a sink *)
Theorem new_sink_acyclic es es' (nodes : list name) n :
  (forall e, In e es -> In (e_src e) nodes /\ In (e_dst e) nodes) ->
  ~ In n nodes ->
  (forall e, In e es' -> In e es \/ (In (e_src e) nodes /\ e_dst e = n)) ->
  acyclic es -> acyclic es'.
Proof.
  intros Hcl Hn Hnew Ha.
  assert (Hsink_old : forall y, reach es n y -> y = n).
  { intros y H. inversion H; subst; [reflexivity|]. exfalso. apply Hn.
    match goal with Hin : In (n, _, _) es |- _ => apply (Hcl _ Hin) end. }
  assert (Hstep : forall x y, reach es' x y -> reach es x y \/ y = n).
  { intros x y H. induction H as [x|a b y p Hin Hr IH]; [left; constructor|].
    destruct IH as [IH|IH]; [|now right].
    destruct (Hnew _ Hin) as [Hold|[Hs Hd]].
    - left. eapply reach_step; eauto.
    - unfold e_dst in Hd. simpl in Hd. subst b. right. now apply Hsink_old. }
  intros u v p Hin Hr.
  destruct (Hnew _ Hin) as [Hold|[Hs Hd]].
  - destruct (Hstep _ _ Hr) as [H|H].
    + eapply Ha; eauto.
    + subst u. apply Hn. apply (Hcl _ Hold).
  - unfold e_src, e_dst in Hs, Hd. simpl in Hs, Hd. subst v.
    destruct (Hstep _ _ Hr) as [H|H].
    + apply Hsink_old in H. subst u. contradiction.
    + subst u. contradiction.
Qed.

(** ---- in-place writes to a node state ---- *)
Lemma write_flag_names m n f b : names (write_flag m n f b) = names m.
Proof.
  unfold names, write_flag. simpl. rewrite map_map. apply map_ext.
  intros [k st]. simpl. destruct (String.eqb k n); reflexivity.
Qed.

Theorem write_flag_closed m n f b : Closed m -> Closed (write_flag m n f b).
Proof. intros [A B C]. constructor; rewrite ?write_flag_names; simpl; auto. Qed.

(** the write changes exactly the named flag of exactly the named node; edges and observed data stay *)
Theorem write_flag_spec m n f b k :
  lookup k (s_nodes (write_flag m n f b))
  = (if String.eqb k n then option_map (fun st => set_flag st f b) (lookup k (s_nodes m)) else lookup k (s_nodes m))
  /\ s_edges (write_flag m n f b) = s_edges m /\ s_observed (write_flag m n f b) = s_observed m.
Proof.
  split; [|split; reflexivity]. unfold write_flag. simpl.
  induction (s_nodes m) as [|[a st] r IH]; simpl; [destruct (String.eqb k n); reflexivity|].
  destruct (String.eqb a n) eqn:Ean; simpl; destruct (String.eqb k a) eqn:Eka.
  - apply String.eqb_eq in Eka, Ean. subst. rewrite String.eqb_refl. reflexivity.
  - exact IH.
  - apply String.eqb_eq in Eka. subst. rewrite Ean. reflexivity.
  - exact IH.
Qed.

Theorem set_flag_spec st f b :
  s_output (set_flag st f b) = s_output st /\ s_has_op (set_flag st f b) = s_has_op st
  /\ s_stochastic (set_flag st f b) = s_stochastic st /\ s_observable (set_flag st f b) = s_observable st
  /\ s_opid (set_flag st f b) = s_opid st
  /\ s_uses_meta (set_flag st f b) = (match f with FUsesMeta => b | _ => s_uses_meta st end)
  /\ s_uses_batch_size (set_flag st f b) = (match f with FUsesBatchSize => b | _ => s_uses_batch_size st end)
  /\ s_uses_observed (set_flag st f b) = (match f with FUsesObserved => b | _ => s_uses_observed st end)
  /\ s_parameter (set_flag st f b) = (match f with FParameter => b | _ => s_parameter st end).
Proof. repeat split. Qed.

(** ---- one edit step, and scripts over several live models ---- *)
Definition step_guard (m : snet) (o : eop) : bool :=
  match o with
  | EBecome _ n u => match update_node m n u with Ok m' => has n (s_nodes m') | Err _ => true end
  | ESetObserved _ n _ => has n (s_nodes m)
  | _ => true
  end.

Theorem step_model_closed m o m' :
  Closed m -> step_guard m o = true -> step_model m o = Ok m' -> Closed m'.
Proof.
  intros Hc Hg H. destruct o as [h n st parents obs|h p c par|h n|h n u|h ps|h n v|h|h|h n f b]; simpl in H, Hg.
  - destruct (add_node m n st) as [m1|] eqn:Ea; simpl in H; [|discriminate].
    destruct (add_node_closed _ _ _ _ Hc Ea) as [Hc1 [Hn1 Hfresh]].
    destruct (fold_left _ parents (Ok m1)) as [m2|] eqn:Ef; simpl in H; [|discriminate].
    destruct (fold_add_parents _ _ _ _ Hc1 Ef) as [Hc2 [Hn2 _]].
    inversion H; subst. destruct obs as [v|]; [|exact Hc2].
    destruct Hc2 as [A B C]. constructor; simpl; auto.
    intros k v' Hk. apply In_set in Hk. destruct Hk as [->|Hk]; [|eapply C; eauto].
    change (In n (names m2)). rewrite Hn2, Hn1. apply in_app_iff. right. now left.
  - now destruct (add_edge_closed _ _ _ _ _ Hc H).
  - unfold remove_node_checked in H. destruct (has n (s_nodes m)); [|discriminate]. inversion H; subst.
    now apply remove_node_closed.
  - rewrite H in Hg. apply has_In in Hg. eapply update_node_closed; eauto.
  - now destruct (set_parameter_names_closed _ _ _ Hc H).
  - inversion H; subst. apply has_In in Hg. destruct Hc as [A B C]. constructor; simpl; auto.
    intros k v' Hk. apply In_set in Hk. destruct Hk as [->|Hk]; [exact Hg | eapply C; eauto].
  - inversion H; subst. exact Hc.
  - inversion H; subst. exact Hc.
  - unfold set_node_flag in H. destruct (has n (s_nodes m)); [|discriminate]. inversion H; subst.
    now apply write_flag_closed.
Qed.

Fixpoint guards_hold (ms : list snet) (ops : list eop) : bool :=
  match ops with
  | [] => true
  | o :: r =>
      match nth_error ms (handle_of o) with
      | None => true
      | Some m => step_guard m o && match step ms o with Ok ms' => guards_hold ms' r | Err _ => true end
      end
  end.

Lemma Forall_set_nth {A} (P : A -> Prop) : forall l i a, Forall P l -> P a -> Forall P (set_nth i a l).
Proof.
  induction l as [|x r IH]; intros i a Hl Ha; simpl; [destruct i; constructor|].
  inversion Hl; subst. destruct i; constructor; auto.
Qed.

(** Every live model stays structurally consistent along any edit script. *)
Theorem run_closed : forall ops ms ms',
  Forall Closed ms -> guards_hold ms ops = true -> run ms ops = Ok ms' -> Forall Closed ms'.
Proof.
  induction ops as [|o r IH]; intros ms ms' Hall Hg H; simpl in H.
  - inversion H; subst. exact Hall.
  - destruct (step ms o) as [ms1|] eqn:Es; simpl in H; [|discriminate].
    cbn [guards_hold] in Hg.
    assert (Hs := Es). unfold step in Hs.
    destruct (nth_error ms (handle_of o)) as [m|] eqn:En; [|discriminate].
    rewrite Es in Hg. apply andb_true_iff in Hg. destruct Hg as [Hg1 Hg2].
    destruct (step_model m o) as [m1|] eqn:Em; simpl in Hs; [|discriminate].
    assert (Hm : Closed m) by (rewrite Forall_forall in Hall; apply Hall; eapply nth_error_In; eauto).
    pose proof (step_model_closed _ _ _ Hm Hg1 Em) as Hm1.
    apply (IH ms1 ms'); auto.
    destruct o; inversion Hs; subst; try (apply Forall_set_nth; assumption);
      apply Forall_app; split; auto.
Qed.

(** ---- become keeps the graph acyclic when the replacement is not reachable from the node ---- *)
Lemma reach_trans es x y z : reach es x y -> reach es y z -> reach es x z.
Proof. induction 1; [auto|]. intros H2. eapply reach_step; eauto. Qed.

Lemma reach_edge es u v p : In (u, v, p) es -> reach es u v.
Proof. intros H. eapply reach_step; [exact H | constructor]. Qed.

(** redirecting the in-edges of [u] to [n] (and dropping edges) cannot close a cycle unless [u] was
    reachable from [n] *)
Theorem redirect_acyclic es es' n u :
  (forall e, In e es' -> In e es \/ (exists p prm, e = (p, n, prm) /\ In (p, u, prm) es)) ->
  acyclic es -> ~ reach es n u -> acyclic es'.
Proof.
  intros Hsub Hac Hguard.
  assert (L : forall x y, reach es' x y ->
                reach es x y \/ (exists p prm, reach es x p /\ In (p, u, prm) es /\ reach es' n y)).
  { intros x y H. induction H as [x|a b y q Hin Hr IH]; [left; constructor|].
    destruct (Hsub _ Hin) as [Hold|[p [prm [He Hpu]]]].
    - destruct IH as [IH|[p [prm [H1 [H2 H3]]]]].
      + left. eapply reach_step; eauto.
      + right. exists p, prm. split; [eapply reach_step; eauto | auto].
    - inversion He; subst. right. exists p, prm. split; [constructor | auto]. }
  assert (Hn : forall y, reach es' n y -> reach es n y).
  { intros y H. destruct (L _ _ H) as [H1|[p [prm [H1 [H2 _]]]]]; [exact H1|].
    exfalso. apply Hguard. eapply reach_trans; [exact H1 | eapply reach_edge; eauto]. }
  intros a b q Hin Hr.
  destruct (Hsub _ Hin) as [Hold|[p [prm [He Hpu]]]].
  - destruct (L _ _ Hr) as [H1|[p [prm [H1 [H2 H3]]]]].
    + eapply Hac; eauto.
    + apply Hguard. apply Hn in H3.
      eapply reach_trans; [exact H3|]. eapply reach_step; [exact Hold|].
      eapply reach_trans; [exact H1 | eapply reach_edge; eauto].
  - inversion He; subst. apply Hn in Hr. apply Hguard.
    eapply reach_trans; [exact Hr | eapply reach_edge; eauto].
Qed.

Lemma edge_eta (e : edge) : e = (e_src e, e_dst e, e_par e).
Proof. destruct e as [[a b] c]. reflexivity. Qed.

Theorem update_node_edges m n u m' :
  update_node m n u = Ok m' ->
  forall e, In e (s_edges m') ->
    In e (s_edges m) \/ (exists p prm, e = (p, n, prm) /\ In (p, u, prm) (s_edges m)).
Proof.
  unfold update_node. intros H e He.
  destruct (has n (s_nodes m)); cbn [negb] in H; [|discriminate].
  destruct (has u (s_nodes m)); cbn [negb] in H; [|discriminate].
  set (m0 := with_observed m (remove u (s_observed m))) in *.
  set (m1 := remove_node (List.length (s_nodes m0)) m0 n) in *.
  destruct (lookup u (s_nodes m1)) as [stu|]; [|discriminate].
  set (m2 := with_nodes m1 (set n stu (s_nodes m1))) in *.
  set (out_edges := filter (fun e => String.eqb n (e_src e)) (s_edges m0)) in *.
  destruct (forallb (fun e => has (e_dst e) (s_nodes m2)) out_edges); cbn [negb] in H; [|discriminate].
  set (es3 := fold_left (fun es e => add_edge (e_src e) (e_dst e) (e_par e) es) out_edges (s_edges m2)) in *.
  set (m3 := with_edges m2 es3) in *.
  set (in_u := filter (fun e => String.eqb u (e_dst e)) (s_edges m3)) in *.
  set (es4 := fold_left (fun es e => add_edge (e_src e) n (e_par e) es) in_u (s_edges m3)) in *.
  set (m4 := with_edges m3 es4) in *.
  set (m5 := remove_node (List.length (s_nodes m4)) m4 u) in *.
  assert (He5 : In e (s_edges m5)).
  { inversion H; subst m'. destruct (lookup u (s_observed m)); exact He. }
  apply remove_node_edges_incl in He5. simpl in He5.
  (* edges of m3 are old edges *)
  assert (H3 : forall x, In x es3 -> In x (s_edges m)).
  { intros x Hx. unfold es3 in Hx. apply (fold_add_edges_In (fun y => y)) in Hx.
    destruct Hx as [Hx|[y [Hy ->]]].
    - simpl in Hx. apply remove_node_edges_incl in Hx. exact Hx.
    - unfold out_edges in Hy. apply filter_In in Hy. apply Hy. }
  unfold es4 in He5. apply (fold_add_edges_In (fun y => (e_src y, n, e_par y))) in He5.
  destruct He5 as [Hx|[y [Hy ->]]].
  - left. now apply H3.
  - right. unfold in_u in Hy. apply filter_In in Hy. destruct Hy as [Hy Hd]. apply String.eqb_eq in Hd.
    exists (e_src y), (e_par y). split; [reflexivity|].
    apply H3 in Hy. rewrite (edge_eta y) in Hy. now rewrite <- Hd in Hy.
Qed.

(** NodeReference.become keeps the model acyclic whenever the replacement is neither the node
    itself nor one of its descendants. *)
Theorem update_node_acyclic m n u m' :
  update_node m n u = Ok m' -> acyclic (s_edges m) -> ~ reach (s_edges m) n u -> acyclic (s_edges m').
Proof.
  intros H Hac Hg. eapply redirect_acyclic; [|exact Hac|exact Hg]. now apply update_node_edges.
Qed.
