(** C13: proofs about the weighted-sample quantile model (Num/Quantile.v). *)
From Coq Require Import List ZArith QArith Qabs Bool Arith Lia Lqa Permutation Sorted Setoid Morphisms.
From Elfi Require Import Num.Quantile.
Import ListNotations.
Open Scope Q_scope.

(** ** comparisons *)
Lemma Qltb_lt a b : Qltb a b = true <-> a < b.
Proof.
  unfold Qltb. rewrite negb_true_iff. split; intro H.
  - apply Qnot_le_lt. intro L. apply Qle_bool_iff in L. congruence.
  - destruct (Qle_bool b a) eqn:E; auto. apply Qle_bool_iff in E. exfalso. apply (Qlt_not_le _ _ H E).
Qed.

Lemma Qltb_ge a b : Qltb a b = false <-> b <= a.
Proof.
  unfold Qltb. rewrite negb_false_iff. apply Qle_bool_iff.
Qed.

Lemma Qle_bool_false a b : Qle_bool a b = false <-> b < a.
Proof.
  split; intro H.
  - apply Qnot_le_lt. intro L. apply Qle_bool_iff in L. congruence.
  - destruct (Qle_bool a b) eqn:E; auto. apply Qle_bool_iff in E. exfalso. apply (Qlt_not_le _ _ H E).
Qed.

(** ** sums *)
Lemma qsum_cons a l : qsum (a :: l) == a + qsum l.
Proof. change (qsum (a :: l)) with (Qred (a + qsum l)). apply Qred_correct. Qed.

Lemma qsum_nil : qsum [] = 0.
Proof. reflexivity. Qed.

Global Opaque qsum.

Lemma qsum_app l1 l2 : qsum (l1 ++ l2) == qsum l1 + qsum l2.
Proof.
  induction l1 as [|a l IH]; simpl.
  - rewrite qsum_nil. ring.
  - rewrite !qsum_cons, IH. ring.
Qed.

Lemma qsum_perm l l' : Permutation l l' -> qsum l == qsum l'.
Proof.
  induction 1.
  - reflexivity.
  - rewrite !qsum_cons, IHPermutation. reflexivity.
  - rewrite !qsum_cons. ring.
  - now rewrite IHPermutation1.
Qed.

Lemma qsum_nonneg l : Forall (Qle 0) l -> 0 <= qsum l.
Proof.
  induction 1.
  - rewrite qsum_nil. apply Qle_refl.
  - rewrite qsum_cons. lra.
Qed.

Lemma qsum_map_le {A} (f g : A -> Q) l :
  (forall p, In p l -> f p <= g p) -> qsum (map f l) <= qsum (map g l).
Proof.
  induction l as [|a l IH]; intro H; simpl.
  - apply Qle_refl.
  - rewrite !qsum_cons. pose proof (H a (or_introl eq_refl)).
    assert (qsum (map f l) <= qsum (map g l)) by (apply IH; intros; apply H; now right). lra.
Qed.

Lemma qsum_map_eq {A} (f g : A -> Q) l :
  (forall p, In p l -> f p == g p) -> qsum (map f l) == qsum (map g l).
Proof.
  intro H. apply Qle_antisym; apply qsum_map_le; intros p Hp; rewrite (H p Hp); apply Qle_refl.
Qed.

Lemma qsum_map_scale {A} (f : A -> Q) k l : qsum (map (fun p => k * f p) l) == k * qsum (map f l).
Proof.
  induction l as [|a l IH]; simpl.
  - rewrite qsum_nil. ring.
  - rewrite !qsum_cons, IH. ring.
Qed.

Lemma qsum_map_plus {A} (f g : A -> Q) l :
  qsum (map (fun p => f p + g p) l) == qsum (map f l) + qsum (map g l).
Proof.
  induction l as [|a l IH]; simpl.
  - rewrite qsum_nil. ring.
  - rewrite !qsum_cons, IH. ring.
Qed.

(** ** selected weight: the common shape of [wle], [wlt] and [wtot] *)
Definition wsel (f : Q -> bool) (l : list (Q * Q)) : Q :=
  qsum (map (fun p => if f (fst p) then snd p else 0) l).

Definition nonneg (l : list (Q * Q)) : Prop := Forall (fun p => 0 <= snd p) l.

Lemma wle_wsel q l : wle q l = wsel (fun x => Qle_bool x q) l.
Proof. reflexivity. Qed.
Lemma wlt_wsel q l : wlt q l = wsel (fun x => Qltb x q) l.
Proof. reflexivity. Qed.
Lemma wtot_wsel l : wtot l == wsel (fun _ => true) l.
Proof. unfold wtot, wsel. apply qsum_map_eq. intros; reflexivity. Qed.

Lemma wsel_cons f p l : wsel f (p :: l) == (if f (fst p) then snd p else 0) + wsel f l.
Proof. unfold wsel. simpl. apply qsum_cons. Qed.

Lemma wsel_app f l1 l2 : wsel f (l1 ++ l2) == wsel f l1 + wsel f l2.
Proof. unfold wsel. rewrite map_app. apply qsum_app. Qed.

Lemma wsel_perm f l l' : Permutation l l' -> wsel f l == wsel f l'.
Proof. intro H. unfold wsel. apply qsum_perm. now apply Permutation_map. Qed.

Lemma wtot_cons p l : wtot (p :: l) == snd p + wtot l.
Proof. unfold wtot. simpl. apply qsum_cons. Qed.

Lemma wtot_app l1 l2 : wtot (l1 ++ l2) == wtot l1 + wtot l2.
Proof. unfold wtot. rewrite map_app. apply qsum_app. Qed.

Lemma wtot_perm l l' : Permutation l l' -> wtot l == wtot l'.
Proof. intro H. unfold wtot. apply qsum_perm. now apply Permutation_map. Qed.

Lemma wsel_all f l : (forall p, In p l -> f (fst p) = true) -> wsel f l == wtot l.
Proof.
  intro H. unfold wsel, wtot. apply qsum_map_eq. intros p Hp. rewrite (H p Hp). reflexivity.
Qed.

Lemma wsel_none f l : (forall p, In p l -> f (fst p) = false) -> wsel f l == 0.
Proof.
  intro H. unfold wsel. induction l as [|a l IH]; simpl.
  - now rewrite qsum_nil.
  - rewrite qsum_cons, (H a (or_introl eq_refl)), IH; [ring|]. intros; apply H; now right.
Qed.

Lemma wsel_mono f g l :
  nonneg l -> (forall x, f x = true -> g x = true) -> wsel f l <= wsel g l.
Proof.
  intros Hn H. unfold wsel. apply qsum_map_le. intros p Hp.
  unfold nonneg in Hn. rewrite Forall_forall in Hn. specialize (Hn p Hp).
  destruct (f (fst p)) eqn:E.
  - rewrite (H _ E). apply Qle_refl.
  - destruct (g (fst p)); [exact Hn | apply Qle_refl].
Qed.

Lemma wsel_nonneg f l : nonneg l -> 0 <= wsel f l.
Proof.
  intro Hn. assert (E : wsel (fun _ => false) l == 0) by (apply wsel_none; reflexivity).
  rewrite <- E. apply wsel_mono; [exact Hn | discriminate].
Qed.

Lemma wsel_le_wtot f l : nonneg l -> wsel f l <= wtot l.
Proof. intro Hn. rewrite wtot_wsel. apply wsel_mono; auto. Qed.

(** rescaling the weight column *)
Lemma wsel_map_w f (g : Q -> Q) k l :
  (forall v, g v == k * v) ->
  wsel f (map (fun p => (fst p, g (snd p))) l) == k * wsel f l.
Proof.
  intro Hg. unfold wsel. rewrite map_map. simpl.
  rewrite <- qsum_map_scale. apply qsum_map_eq. intros p _.
  destruct (f (fst p)); [apply Hg | ring].
Qed.

Lemma wtot_map_w (g : Q -> Q) k l :
  (forall v, g v == k * v) -> wtot (map (fun p => (fst p, g (snd p))) l) == k * wtot l.
Proof. intro Hg. rewrite !wtot_wsel. now apply wsel_map_w. Qed.

Lemma nonneg_map_w (g : Q -> Q) l :
  (forall v, 0 <= v -> 0 <= g v) -> nonneg l -> nonneg (map (fun p => (fst p, g (snd p))) l).
Proof.
  intros Hg Hn. unfold nonneg in *. rewrite Forall_map. simpl.
  eapply Forall_impl; [|exact Hn]. intros p Hp. now apply Hg.
Qed.

Lemma combine_map_r {A B C} (g : B -> C) (xs : list A) : forall ws,
  combine xs (map g ws) = map (fun p => (fst p, g (snd p))) (combine xs ws).
Proof.
  induction xs as [|x xs IH]; intros [|w ws]; simpl; try reflexivity. now rewrite IH.
Qed.

Lemma map_snd_combine {A B} (xs : list A) : forall (ws : list B),
  length ws = length xs -> map snd (combine xs ws) = ws.
Proof.
  induction xs as [|x xs IH]; intros [|w ws] H; simpl in *; try discriminate; try reflexivity.
  f_equal. apply IH. lia.
Qed.

Lemma wtot_combine xs ws : length ws = length xs -> wtot (combine xs ws) = qsum ws.
Proof. intro H. unfold wtot. now rewrite map_snd_combine. Qed.

Lemma nonneg_combine xs ws : Forall (Qle 0) ws -> nonneg (combine xs ws).
Proof.
  intro H. unfold nonneg. apply Forall_forall. intros [x w] Hp. simpl.
  apply in_combine_r in Hp. rewrite Forall_forall in H. now apply H.
Qed.

Lemma in_combine_exists {A B} (x : A) (xs : list A) : forall (ws : list B),
  length ws = length xs -> In x xs -> exists v, In (x, v) (combine xs ws).
Proof.
  induction xs as [|a xs IH]; intros [|w ws] H Hin; simpl in *; try discriminate; try contradiction.
  destruct Hin as [->|Hin].
  - exists w. now left.
  - destruct (IH ws) as [v Hv]; [lia | exact Hin |]. exists v. now right.
Qed.

(** ** the scan over the sorted rows *)
Lemma scan_spec alpha : forall sp c,
  nonneg sp -> c < alpha -> alpha <= 1 -> c + wtot sp == 1 ->
  exists pre x w post,
    sp = pre ++ (x, w) :: post /\ scan alpha c sp = Some x /\
    c + wtot pre < alpha /\ alpha <= c + wtot pre + w.
Proof.
  induction sp as [|[x w] r IH]; intros c Hn Hc Ha Hs.
  - exfalso. unfold wtot in Hs. simpl in Hs. rewrite qsum_nil in Hs. lra.
  - rewrite wtot_cons in Hs. simpl in Hs.
    assert (Hcb : Qltb c alpha = true) by now apply Qltb_lt.
    destruct r as [|p r'].
    + exists [], x, w, []. simpl. rewrite Hcb.
      assert (E : Qle_bool alpha 1 = true) by now apply Qle_bool_iff.
      rewrite E. simpl. unfold wtot in *. simpl in *. rewrite qsum_nil in *.
      repeat split; auto; lra.
    + destruct (Qle_bool alpha (c + w)) eqn:E.
      * exists [], x, w, (p :: r'). simpl. rewrite Hcb, E. simpl.
        apply Qle_bool_iff in E. unfold wtot. simpl. rewrite qsum_nil.
        repeat split; auto; lra.
      * apply Qle_bool_false in E.
        inversion Hn as [|? ? Hw Hn']; subst.
        destruct (IH (Qred (c + w)) Hn') as (pre & x' & w' & post & Hsp & Hscan & Hlo & Hhi).
        { rewrite Qred_correct. exact E. }
        { exact Ha. }
        { rewrite Qred_correct. lra. }
        exists ((x, w) :: pre), x', w', post.
        rewrite Qred_correct in Hlo, Hhi.
        split; [simpl; now rewrite Hsp|].
        split.
        { change (scan alpha c ((x, w) :: p :: r'))
            with (if Qltb c alpha && Qle_bool alpha (c + w) then Some x else scan alpha (Qred (c + w)) (p :: r')).
          rewrite Hcb. simpl.
          assert (E' : Qle_bool alpha (c + w) = false) by now apply Qle_bool_false.
          rewrite E'. exact Hscan. }
        rewrite wtot_cons. simpl. split; lra.
Qed.

(** rows sorted by value *)
Definition byfst (a b : Q * Q) : Prop := fst a <= fst b.

Lemma ssorted_mid pre a post :
  StronglySorted byfst (pre ++ a :: post) ->
  Forall (fun p => fst p <= fst a) pre /\ Forall (fun p => fst a <= fst p) post.
Proof.
  induction pre as [|b pre IH]; simpl; intro H.
  - inversion H; subst. split; [constructor | assumption].
  - inversion H as [|? ? Hs Hf]; subst. destruct (IH Hs) as [A B]. split; [|exact B].
    constructor; [|exact A].
    apply Forall_app in Hf. destruct Hf as [_ Hf]. inversion Hf; subst. assumption.
Qed.

Lemma split_bounds pre x w post :
  StronglySorted byfst (pre ++ (x, w) :: post) -> nonneg (pre ++ (x, w) :: post) ->
  wtot pre + w <= wle x (pre ++ (x, w) :: post) /\ wlt x (pre ++ (x, w) :: post) <= wtot pre.
Proof.
  intros Hs Hn. destruct (ssorted_mid _ _ _ Hs) as [Hpre Hpost]. simpl in *.
  unfold nonneg in Hn. apply Forall_app in Hn. destruct Hn as [Hn1 Hn2].
  inversion Hn2 as [|? ? Hw Hn3]; subst. simpl in Hw.
  rewrite wle_wsel, wlt_wsel, !wsel_app, !wsel_cons. simpl.
  split.
  - rewrite (wsel_all (fun y => Qle_bool y x) pre).
    + assert (E : Qle_bool x x = true) by (apply Qle_bool_iff, Qle_refl). rewrite E.
      pose proof (wsel_nonneg (fun y => Qle_bool y x) post Hn3). lra.
    + intros p Hp. rewrite Forall_forall in Hpre. apply Qle_bool_iff. now apply Hpre.
  - assert (E : Qltb x x = false) by (apply Qltb_ge, Qle_refl). rewrite E.
    rewrite (wsel_none (fun y => Qltb y x) post).
    + pose proof (wsel_le_wtot (fun y => Qltb y x) pre Hn1). lra.
    + intros p Hp. rewrite Forall_forall in Hpost. apply Qltb_ge. now apply Hpost.
Qed.

(** ** the argsort oracle *)
Definition sorting_perm (index : list nat) (xs : list Q) : Prop :=
  Permutation index (seq 0 (length xs)) /\
  StronglySorted (fun i j => nth i xs 0 <= nth j xs 0) index.

Lemma map_nth_combine : forall (xs ys : list Q), length xs = length ys ->
  map (fun i => (nth i xs 0, nth i ys 0)) (seq 0 (length xs)) = combine xs ys.
Proof.
  induction xs as [|a xs IH]; intros [|b ys] H; simpl in *; try discriminate; try reflexivity.
  f_equal. rewrite <- seq_shift, map_map. simpl. apply IH. lia.
Qed.

Lemma perm_rows index xs ys :
  Permutation index (seq 0 (length xs)) -> length xs = length ys ->
  Permutation (map (fun i => (nth i xs 0, nth i ys 0)) index) (combine xs ys).
Proof.
  intros Hp Hl. rewrite <- (map_nth_combine xs ys Hl). now apply Permutation_map.
Qed.

Lemma sorted_rows (f g : nat -> Q) index :
  StronglySorted (fun i j => f i <= f j) index ->
  StronglySorted byfst (map (fun i => (f i, g i)) index).
Proof.
  induction 1 as [|i l Hs IH Hf]; simpl; constructor; auto.
  rewrite Forall_map. eapply Forall_impl; [|exact Hf]. intros j Hj. exact Hj.
Qed.

(** the concrete stable insertion argsort is one such oracle *)
Lemma ins_perm xs i l : Permutation (ins xs i l) (i :: l).
Proof.
  induction l as [|j r IH]; simpl.
  - apply Permutation_refl.
  - destruct (Qle_bool (nth i xs 0) (nth j xs 0)).
    + apply Permutation_refl.
    + eapply perm_trans; [apply perm_skip, IH | apply perm_swap].
Qed.

Lemma ins_sorted xs i l :
  StronglySorted (fun a b => nth a xs 0 <= nth b xs 0) l ->
  StronglySorted (fun a b => nth a xs 0 <= nth b xs 0) (ins xs i l).
Proof.
  induction 1 as [|j r Hs IH Hf]; simpl.
  - constructor; constructor.
  - destruct (Qle_bool (nth i xs 0) (nth j xs 0)) eqn:E.
    + apply Qle_bool_iff in E. constructor; [constructor; assumption|].
      constructor; [exact E|]. eapply Forall_impl; [|exact Hf]. intros k Hk. simpl in Hk.
      eapply Qle_trans; eassumption.
    + apply Qle_bool_false in E. constructor; [exact IH|].
      eapply Permutation_Forall; [apply Permutation_sym, ins_perm|].
      constructor; [apply Qlt_le_weak, E | exact Hf].
Qed.

Lemma argsort_sorting xs : sorting_perm (argsort xs) xs.
Proof.
  unfold sorting_perm, argsort. generalize (seq 0 (length xs)) as l.
  induction l as [|i l [IHp IHs]]; simpl.
  - split; constructor.
  - split.
    + eapply perm_trans; [apply ins_perm | now apply perm_skip].
    + now apply ins_sorted.
Qed.

(** ** the characterisation of the returned value (product form, no division) *)
Definition qchar (xw : list (Q * Q)) (alpha q : Q) : Prop :=
  wlt q xw <= alpha * wtot xw /\ alpha * wtot xw <= wle q xw /\
  (0 < alpha -> wlt q xw < alpha * wtot xw) /\
  (alpha == 0 -> forall p, In p xw -> q <= fst p).

Lemma sorting_perm_length index xs : sorting_perm index xs -> length index = length xs.
Proof. intros [Hp _]. apply Permutation_length in Hp. now rewrite seq_length in Hp. Qed.

Lemma sorting_perm_lt index xs i : sorting_perm index xs -> In i index -> (i < length xs)%nat.
Proof.
  intros [Hp _] Hi. eapply Permutation_in in Hi; [|exact Hp]. apply in_seq in Hi. lia.
Qed.

Theorem wsq_idx_char index xs w alpha :
  sorting_perm index xs -> length w = length xs -> Forall (Qle 0) w -> 0 < qsum w ->
  0 <= alpha -> alpha <= 1 ->
  exists q, wsq_idx index xs alpha (Some w) = Some q /\ In q xs /\ qchar (combine xs w) alpha q.
Proof.
  intros Hsp Hl Hw Hs Ha0 Ha1.
  pose proof (nonneg_combine xs w Hw) as Hn.
  pose proof (wtot_combine xs w Hl) as Htot.
  unfold wsq_idx.
  destruct (Qeq_bool alpha 0) eqn:Ez.
  - (* alpha == 0: the minimum *)
    apply Qeq_bool_iff in Ez.
    destruct index as [|i rest] eqn:Ei.
    + exfalso. apply sorting_perm_length in Hsp. simpl in Hsp.
      destruct xs; [|discriminate]. destruct w; [|discriminate].
      rewrite qsum_nil in Hs. lra.
    + exists (nth i xs 0).
      assert (Hi : (i < length xs)%nat) by (eapply sorting_perm_lt; [exact Hsp | now left]).
      split; [reflexivity|]. split; [now apply nth_In|].
      assert (Hmin : forall p, In p (combine xs w) -> nth i xs 0 <= fst p).
      { intros [x v] Hp. simpl. apply in_combine_l in Hp.
        destruct (In_nth _ _ 0 Hp) as (j & Hj & <-).
        destruct Hsp as [Hperm Hsort].
        assert (Hin : In j (i :: rest)).
        { eapply Permutation_in; [apply Permutation_sym, Hperm|]. apply in_seq. lia. }
        inversion Hsort as [|? ? _ Hf]; subst.
        destruct Hin as [<-|Hin]; [apply Qle_refl|].
        rewrite Forall_forall in Hf. now apply Hf. }
      assert (Hz : wlt (nth i xs 0) (combine xs w) == 0).
      { rewrite wlt_wsel. apply wsel_none. intros p Hp. apply Qltb_ge. now apply Hmin. }
      unfold qchar. rewrite Hz, Ez.
      repeat split.
      * lra.
      * rewrite wle_wsel. pose proof (wsel_nonneg (fun y => Qle_bool y (nth i xs 0)) _ Hn). lra.
      * intro; lra.
      * intros _. exact Hmin.
  - (* alpha > 0: the scan *)
    assert (Hpos : 0 < alpha).
    { destruct (Qlt_le_dec 0 alpha) as [L|G]; [exact L|].
      exfalso. assert (alpha == 0) by lra. apply Qeq_bool_iff in H. congruence. }
    rewrite Hl, Nat.eqb_refl. simpl.
    destruct (Qeq_bool (qsum w) 0) eqn:Es.
    { apply Qeq_bool_iff in Es. lra. }
    set (s := qsum w) in *.
    set (g := fun v : Q => Qred (v / s)).
    set (nw := map g w).
    set (sp := map (fun i => (nth i xs 0, nth i nw 0)) index).
    assert (Hlnw : length xs = length nw) by (unfold nw; rewrite map_length; lia).
    assert (Hperm : Permutation sp (combine xs nw)) by (apply perm_rows; [apply Hsp | exact Hlnw]).
    assert (Hg : forall v, g v == / s * v) by (intro v; unfold g; rewrite Qred_correct; field; lra).
    assert (Hnwrows : combine xs nw = map (fun p => (fst p, g (snd p))) (combine xs w))
      by (unfold nw; apply (combine_map_r g)).
    assert (Hinv : 0 < / s) by now apply Qinv_lt_0_compat.
    assert (Hnn : nonneg (combine xs nw)).
    { rewrite Hnwrows. apply (nonneg_map_w g); [|exact Hn]. intros v Hv. rewrite Hg.
      apply Qmult_le_0_compat; lra. }
    assert (Hnsp : nonneg sp).
    { unfold nonneg. eapply Permutation_Forall; [apply Permutation_sym, Hperm | exact Hnn]. }
    assert (Htot1 : wtot sp == 1).
    { rewrite (wtot_perm _ _ Hperm), Hnwrows, (wtot_map_w g (/ s)); [|exact Hg].
      rewrite Htot. fold s. field. lra. }
    destruct (scan_spec alpha sp 0 Hnsp Hpos Ha1) as (pre & x & v & post & Hsplit & Hscan & Hlo & Hhi).
    { rewrite Htot1. ring. }
    exists x. split; [exact Hscan|].
    assert (Hsorted : StronglySorted byfst sp).
    { unfold sp. apply (sorted_rows (fun i => nth i xs 0) (fun i => nth i nw 0)). apply Hsp. }
    rewrite Hsplit in Hsorted, Hnsp.
    destruct (split_bounds _ _ _ _ Hsorted Hnsp) as [Hle Hlt].
    rewrite <- Hsplit in Hle, Hlt.
    rewrite wle_wsel, (wsel_perm _ _ _ Hperm), Hnwrows, (wsel_map_w _ g (/ s)) in Hle; [|exact Hg].
    rewrite wlt_wsel, (wsel_perm _ _ _ Hperm), Hnwrows, (wsel_map_w _ g (/ s)) in Hlt; [|exact Hg].
    rewrite <- wle_wsel in Hle. rewrite <- wlt_wsel in Hlt.
    split.
    { assert (Hin : In (x, v) sp) by (rewrite Hsplit; apply in_or_app; right; now left).
      unfold sp in Hin. apply in_map_iff in Hin. destruct Hin as (i & Hi & Hin).
      injection Hi as <- _. apply nth_In. eapply sorting_perm_lt; eassumption. }
    unfold qchar. rewrite Htot. fold s.
    assert (A : wlt x (combine xs w) < alpha * s).
    { assert (B : / s * wlt x (combine xs w) < alpha) by lra.
      apply (Qmult_lt_compat_r _ _ s) in B; [|exact Hs].
      assert (C : / s * wlt x (combine xs w) * s == wlt x (combine xs w)) by (field; lra).
      rewrite C in B. exact B. }
    assert (B : alpha * s <= wle x (combine xs w)).
    { assert (B : alpha <= / s * wle x (combine xs w)) by lra.
      apply (Qmult_le_compat_r _ _ s) in B; [|lra].
      assert (C : / s * wle x (combine xs w) * s == wle x (combine xs w)) by (field; lra).
      rewrite C in B. exact B. }
    repeat split.
    + lra.
    + exact B.
    + intros _. exact A.
    + intro E. lra.
Qed.

(** equal weights ([weights=None]) are the all-ones weight vector *)
Lemma ones_eq {A B} (l : list A) (l' : list B) : length l = length l' -> @ones A l = @ones B l'.
Proof.
  revert l'. induction l as [|a l IH]; intros [|b l'] H; simpl in *; try discriminate; try reflexivity.
  f_equal. apply IH. lia.
Qed.

Lemma wsq_idx_none index xs alpha :
  length index = length xs -> wsq_idx index xs alpha None = wsq_idx index xs alpha (Some (ones xs)).
Proof. intro H. unfold wsq_idx. now rewrite (ones_eq index xs H). Qed.

(** ** consequences of the characterisation *)
Lemma wle_le_wlt l q2 q1 : nonneg l -> q2 < q1 -> wle q2 l <= wlt q1 l.
Proof.
  intros Hn Hq. rewrite wle_wsel, wlt_wsel. apply wsel_mono; [exact Hn|].
  intros x Hx. apply Qle_bool_iff in Hx. apply Qltb_lt. lra.
Qed.

Lemma qchar_mono xw a1 a2 q1 q2 :
  nonneg xw -> 0 <= wtot xw -> 0 <= a1 -> a1 <= a2 ->
  qchar xw a1 q1 -> qchar xw a2 q2 -> (exists p, In p xw /\ fst p == q2) -> q1 <= q2.
Proof.
  intros Hn Hw Ha0 Ha (_ & _ & Hs1 & Hm1) (_ & Hle2 & _ & _) (p & Hp & Ep).
  destruct (Qlt_le_dec q2 q1) as [L|G]; [exfalso | exact G].
  destruct (Qlt_le_dec 0 a1) as [Hpos|Hz].
  - specialize (Hs1 Hpos). pose proof (wle_le_wlt xw q2 q1 Hn L) as H.
    assert (a1 * wtot xw <= a2 * wtot xw) by (apply Qmult_le_compat_r; assumption). lra.
  - assert (E : a1 == 0) by lra. specialize (Hm1 E p Hp). lra.
Qed.

Lemma qchar_unique xw a q1 q2 :
  nonneg xw -> 0 <= wtot xw -> 0 <= a ->
  qchar xw a q1 -> qchar xw a q2 ->
  (exists p, In p xw /\ fst p == q1) -> (exists p, In p xw /\ fst p == q2) -> q1 == q2.
Proof.
  intros Hn Hw Ha H1 H2 I1 I2. apply Qle_antisym.
  - eapply (qchar_mono xw a a); eauto. apply Qle_refl.
  - eapply (qchar_mono xw a a); eauto. apply Qle_refl.
Qed.

Lemma qchar_scale xs w c alpha q :
  0 < c -> qchar (combine xs w) alpha q -> qchar (combine xs (map (Qmult c) w)) alpha q.
Proof.
  intros Hc (H1 & H2 & H3 & H4). rewrite combine_map_r.
  assert (Hg : forall v, c * v == c * v) by (intro; reflexivity).
  unfold qchar.
  rewrite wle_wsel, wlt_wsel, (wsel_map_w _ (Qmult c) c), (wsel_map_w _ (Qmult c) c), (wtot_map_w (Qmult c) c); auto.
  rewrite <- wle_wsel, <- wlt_wsel.
  set (L := wlt q (combine xs w)) in *. set (U := wle q (combine xs w)) in *. set (T := wtot (combine xs w)) in *.
  assert (E : alpha * (c * T) == c * (alpha * T)) by ring. rewrite E.
  repeat split.
  - apply Qmult_le_l; assumption.
  - apply Qmult_le_l; assumption.
  - intro Hp. apply Qmult_lt_l; auto.
  - intros Hz p Hp. apply in_map_iff in Hp. destruct Hp as (p0 & <- & Hp0). simpl. now apply H4.
Qed.

Lemma in_rows (x : Q) (xs w : list Q) : length w = length xs -> In x xs -> exists p : Q * Q, In p (combine xs w) /\ fst p == x.
Proof.
  intros Hl Hx. destruct (in_combine_exists x xs w Hl Hx) as [v Hv]. exists (x, v). split; [exact Hv | reflexivity].
Qed.

Section Wf.
  Variables (xs w : list Q).
  Hypothesis Hl : length w = length xs.
  Hypothesis Hw : Forall (Qle 0) w.
  Hypothesis Hs : 0 < qsum w.

  (** (1) defined, a member of the sample, and the two defining inequalities *)
  Theorem quantile_spec index alpha :
    sorting_perm index xs -> 0 <= alpha -> alpha <= 1 ->
    exists q, wsq_idx index xs alpha (Some w) = Some q /\ In q xs /\
              alpha <= wle q (combine xs w) / qsum w /\ wlt q (combine xs w) / qsum w <= alpha.
  Proof.
    intros Hsp H0 H1.
    destruct (wsq_idx_char index xs w alpha Hsp Hl Hw Hs H0 H1) as (q & Hq & Hin & (A & B & _ & _)).
    exists q. rewrite (wtot_combine xs w Hl) in A, B. repeat split; auto.
    - apply Qle_shift_div_l; assumption.
    - apply Qle_shift_div_r; [assumption|]. lra.
  Qed.

  (** (2) the value does not depend on how the argsort orders equal values *)
  Theorem quantile_tie_independent index index' alpha q q' :
    sorting_perm index xs -> sorting_perm index' xs -> 0 <= alpha -> alpha <= 1 ->
    wsq_idx index xs alpha (Some w) = Some q -> wsq_idx index' xs alpha (Some w) = Some q' -> q == q'.
  Proof.
    intros Hsp Hsp' H0 H1 Hq Hq'.
    destruct (wsq_idx_char index xs w alpha Hsp Hl Hw Hs H0 H1) as (q0 & E & Hin & Hc).
    destruct (wsq_idx_char index' xs w alpha Hsp' Hl Hw Hs H0 H1) as (q0' & E' & Hin' & Hc').
    rewrite E in Hq. rewrite E' in Hq'. injection Hq as <-. injection Hq' as <-.
    apply (qchar_unique (combine xs w) alpha); auto.
    - now apply nonneg_combine.
    - rewrite wtot_combine; auto. lra.
    - now apply in_rows.
    - now apply in_rows.
  Qed.

  (** (3) monotone in alpha (also across different tie orders) *)
  Theorem quantile_monotone index index' a1 a2 q1 q2 :
    sorting_perm index xs -> sorting_perm index' xs -> 0 <= a1 -> a1 <= a2 -> a2 <= 1 ->
    wsq_idx index xs a1 (Some w) = Some q1 -> wsq_idx index' xs a2 (Some w) = Some q2 -> q1 <= q2.
  Proof.
    intros Hsp Hsp' H0 H12 H1 Hq Hq'.
    destruct (wsq_idx_char index xs w a1 Hsp Hl Hw Hs) as (q0 & E & Hin & Hc); [lra | lra |].
    destruct (wsq_idx_char index' xs w a2 Hsp' Hl Hw Hs) as (q0' & E' & Hin' & Hc'); [lra | lra |].
    rewrite E in Hq. rewrite E' in Hq'. injection Hq as <-. injection Hq' as <-.
    apply (qchar_mono (combine xs w) a1 a2); auto.
    - now apply nonneg_combine.
    - rewrite wtot_combine; auto. lra.
    - now apply in_rows.
  Qed.

  (** (4) invariant under rescaling of the weights *)
  Theorem quantile_scale_invariant index index' c alpha q q' :
    sorting_perm index xs -> sorting_perm index' xs -> 0 < c -> 0 <= alpha -> alpha <= 1 ->
    wsq_idx index xs alpha (Some w) = Some q ->
    wsq_idx index' xs alpha (Some (map (Qmult c) w)) = Some q' -> q == q'.
  Proof.
    intros Hsp Hsp' Hc H0 H1 Hq Hq'.
    assert (Hl' : length (map (Qmult c) w) = length xs) by now rewrite map_length.
    assert (Hw' : Forall (Qle 0) (map (Qmult c) w)).
    { rewrite Forall_map. eapply Forall_impl; [|exact Hw]. intros v Hv. simpl in *.
      apply Qmult_le_0_compat; lra. }
    assert (Hs' : 0 < qsum (map (Qmult c) w)).
    { rewrite (qsum_map_scale (fun v => v) c w), map_id. apply Qmult_lt_0_compat; assumption. }
    destruct (wsq_idx_char index xs w alpha Hsp Hl Hw Hs H0 H1) as (q0 & E & Hin & Hch).
    destruct (wsq_idx_char index' xs _ alpha Hsp' Hl' Hw' Hs' H0 H1) as (q0' & E' & Hin' & Hch').
    rewrite E in Hq. rewrite E' in Hq'. injection Hq as <-. injection Hq' as <-.
    apply (qchar_unique (combine xs (map (Qmult c) w)) alpha); auto.
    - now apply nonneg_combine.
    - rewrite wtot_combine; auto. lra.
    - now apply qchar_scale.
    - now apply in_rows.
    - now apply in_rows.
  Qed.
End Wf.

(** ** the decidable statement *)
Theorem quant_ok_sound tol xw alpha q :
  0 < wtot xw -> quant_ok tol xw alpha q = true ->
  (exists p, In p xw /\ fst p == q) /\
  alpha - tol <= wle q xw / wtot xw /\ wlt q xw / wtot xw <= alpha + tol.
Proof.
  intros Hs H. unfold quant_ok in H.
  apply andb_true_iff in H. destruct H as [H H3]. apply andb_true_iff in H. destruct H as [H1 H2].
  apply existsb_exists in H1. destruct H1 as (p & Hp & E). apply Qeq_bool_iff in E.
  apply Qle_bool_iff in H2. apply Qle_bool_iff in H3.
  split; [exists p; auto|]. split.
  - apply Qle_shift_div_l; assumption.
  - apply Qle_shift_div_r; assumption.
Qed.

Theorem quant_model_ok index xs w alpha q :
  sorting_perm index xs -> length w = length xs -> Forall (Qle 0) w -> 0 < qsum w ->
  0 <= alpha -> alpha <= 1 ->
  wsq_idx index xs alpha (Some w) = Some q -> quant_ok 0 (combine xs w) alpha q = true.
Proof.
  intros Hsp Hl Hw Hs H0 H1 Hq.
  destruct (wsq_idx_char index xs w alpha Hsp Hl Hw Hs H0 H1) as (q0 & E & Hin & (A & B & _ & _)).
  rewrite E in Hq. injection Hq as <-.
  unfold quant_ok. apply andb_true_iff. split; [apply andb_true_iff; split|].
  - apply existsb_exists. destruct (in_combine_exists q0 xs w Hl Hin) as [v Hv].
    exists (q0, v). split; [exact Hv|]. simpl. apply Qeq_bool_iff. reflexivity.
  - apply Qle_bool_iff. lra.
  - apply Qle_bool_iff. lra.
Qed.

(** the boolean test used on the recorded numpy argsort is sound *)
Lemma is_sorting_perm_sound index xs : is_sorting_perm index xs = true -> sorting_perm index xs.
Proof.
  unfold is_sorting_perm. intro H.
  apply andb_true_iff in H. destruct H as [H Hsrt]. apply andb_true_iff in H. destruct H as [Hlen Hall].
  apply Nat.eqb_eq in Hlen. rewrite forallb_forall in Hall.
  split.
  - apply Permutation_sym. apply NoDup_Permutation_bis.
    + apply seq_NoDup.
    + rewrite seq_length. lia.
    + intros k Hk. specialize (Hall k Hk). apply existsb_exists in Hall. destruct Hall as (j & Hj & E).
      apply Nat.eqb_eq in E. now subst.
  - clear Hlen Hall. induction index as [|i r IH]; [constructor|].
    assert (Hr : StronglySorted (fun i j => nth i xs 0 <= nth j xs 0) r).
    { apply IH. destruct r; [reflexivity|]. apply andb_true_iff in Hsrt. tauto. }
    constructor; [exact Hr|].
    destruct r as [|j r']; [constructor|].
    apply andb_true_iff in Hsrt. destruct Hsrt as [Hij _]. apply Qle_bool_iff in Hij.
    inversion Hr as [|? ? _ Hf]; subst.
    constructor; [exact Hij|]. eapply Forall_impl; [|exact Hf]. intros k Hk. simpl in Hk.
    eapply Qle_trans; eassumption.
Qed.
