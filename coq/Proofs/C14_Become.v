(** Proofs about NodeReference.become (C14): an exact description of [update_node m n u]:
    which nodes, states, edges and observed entries the result has.  Everything is derived from
    the success [update_node m n u = Ok m'] and [n <> u]; the only extra hypotheses are on the
    edge list (one edge per ordered pair; [u] is not a child of [n]; no self-loop at [n]) and each
    theorem states exactly the ones it uses. *)
From Coq Require Import List String Ascii ZArith Arith Bool Lia.
From Elfi Require Import Graph.Net Graph.Edit Proofs.C03_Exec Proofs.C03_Compile Proofs.C14_Edit.
Import ListNotations.

(** ---- small list facts ---- *)
Lemma filter_all {A} (f : A -> bool) l : (forall x, In x l -> f x = true) -> filter f l = l.
Proof.
  induction l as [|a r IH]; intros H; simpl; [reflexivity|].
  rewrite (H a (or_introl eq_refl)). f_equal. apply IH. intros x Hx. apply H. now right.
Qed.

Lemma filter_none {A} (f : A -> bool) l : (forall x, In x l -> f x = false) -> filter f l = [].
Proof.
  induction l as [|a r IH]; intros H; simpl; [reflexivity|].
  rewrite (H a (or_introl eq_refl)). apply IH. intros x Hx. apply H. now right.
Qed.

Lemma length_filter_0 {A} (f : A -> bool) l : List.length (filter f l) = 0 <-> forall x, In x l -> f x = false.
Proof.
  induction l as [|a r IH]; simpl; [split; [intros _ x [] | reflexivity]|].
  destruct (f a) eqn:E; simpl.
  - split; [discriminate|]. intros H. specialize (H a (or_introl eq_refl)). congruence.
  - rewrite IH. split; [intros H x [->|Hx]; auto | intros H x Hx; apply H; now right].
Qed.

Section AssocMore.
  Context {A : Type}.

  Lemma lookup_remove n k (l : list (name * A)) :
    lookup k (remove n l) = if String.eqb k n then None else lookup k l.
  Proof.
    destruct (String.eqb k n) eqn:E.
    - apply String.eqb_eq in E. subst k. destruct (lookup n (remove n l)) eqn:El; [|reflexivity].
      apply lookup_Some_In in El. apply In_remove in El. tauto.
    - apply String.eqb_neq in E. now apply lookup_remove_other.
  Qed.

  Lemma has_remove n k (l : list (name * A)) :
    has k (remove n l) = if String.eqb k n then false else has k l.
  Proof. unfold has. rewrite lookup_remove. now destruct (String.eqb k n). Qed.

  Lemma lookup_set n k (a : A) l : lookup k (set n a l) = if String.eqb k n then Some a else lookup k l.
  Proof.
    destruct (String.eqb k n) eqn:E.
    - apply String.eqb_eq in E. subst k. apply lookup_set_same.
    - apply String.eqb_neq in E. apply lookup_set_other. congruence.
  Qed.

  Lemma In_names_lookup k (l : list (name * A)) : In k (map fst l) <-> lookup k l <> None.
  Proof.
    rewrite <- has_In. unfold has. destruct (lookup k l); split; congruence.
  Qed.
End AssocMore.

(** ---- degree and positional parents, logically ---- *)
Lemma degree_0 m k :
  degree m k = 0 <-> forall e, In e (s_edges m) -> e_src e <> k /\ e_dst e <> k.
Proof.
  unfold degree. rewrite length_filter_0. split; intros H e He; specialize (H e He).
  - apply orb_false_iff in H. destruct H as [H1 H2]. apply String.eqb_neq in H1, H2. split; congruence.
  - destruct H as [H1 H2]. apply orb_false_iff. split; apply String.eqb_neq; congruence.
Qed.

Lemma In_insert_parent x a l : In x (insert_parent a l) <-> x = a \/ In x l.
Proof.
  induction l as [|b r IH]; simpl; [intuition congruence|].
  destruct (Nat.ltb (fst a) (fst b)); simpl; [intuition congruence|]. rewrite IH. intuition congruence.
Qed.

Lemma In_fold_insert_parent x : forall l acc,
  In x (fold_left (fun acc a => insert_parent a acc) l acc) <-> In x l \/ In x acc.
Proof.
  induction l as [|a r IH]; intros acc; simpl; [tauto|].
  rewrite IH, In_insert_parent. intuition congruence.
Qed.

Theorem get_parents_spec m c k :
  In k (get_parents m c) <-> exists i, In (k, c, PInt i) (s_edges m).
Proof.
  unfold get_parents, preds. rewrite in_map_iff. split.
  - intros [[i k'] [Hk Hin]]. simpl in Hk. subst k'.
    apply In_fold_insert_parent in Hin. destruct Hin as [Hin|[]].
    apply in_flat_map in Hin. destruct Hin as [[q p] [Hq Hp]].
    apply in_map_iff in Hq. destruct Hq as [e [He Hf]]. apply filter_In in Hf. destruct Hf as [Hf Hd].
    apply String.eqb_eq in Hd. simpl in Hp. destruct p as [j|s]; [|destruct Hp].
    destruct Hp as [Hp|[]]. inversion Hp; subst j k. inversion He; subst q.
    exists i. rewrite (edge_eta e) in Hf. rewrite <- Hd, H1 in Hf. exact Hf.
  - intros [i Hin]. exists (i, k). split; [reflexivity|].
    apply In_fold_insert_parent. left. apply in_flat_map. exists (k, PInt i). split; [|now left].
    apply in_map_iff. exists (k, c, PInt i). split; [reflexivity|].
    apply filter_In. split; [exact Hin | apply String.eqb_refl].
Qed.

(** ---- exact description of [remove_node] ---- *)
(** removing a node without any edge: the node and its observed entry go, nothing else *)
Lemma remove_isolated f m p :
  degree m p = 0 ->
  remove_node f m p =
  {| s_nodes := remove p (s_nodes m); s_edges := s_edges m; s_observed := remove p (s_observed m) |}.
Proof.
  intros Hd. rewrite degree_0 in Hd.
  assert (Hdrop : drop_node (with_observed m (remove p (s_observed m))) p =
                  {| s_nodes := remove p (s_nodes m); s_edges := s_edges m; s_observed := remove p (s_observed m) |}).
  { unfold drop_node. simpl. f_equal. apply filter_all. intros e He. destruct (Hd e He) as [H1 H2].
    apply andb_true_iff. split; apply negb_true_iff; apply String.eqb_neq; congruence. }
  destruct f as [|f]; simpl; [exact Hdrop|].
  replace (get_parents (with_observed m (remove p (s_observed m))) p) with (@nil name); [exact Hdrop|].
  unfold get_parents, preds. simpl. rewrite filter_none; [reflexivity|].
  intros e He. destruct (Hd e He) as [_ H2]. apply String.eqb_neq. congruence.
Qed.

(** the clean-up test of [remove_node] for one candidate *)
Definition orphan (m : snet) (p : name) : bool :=
  is_private p && has p (s_nodes m) && Nat.eqb (degree m p) 0.

Lemma clean_fold f : forall l m,
  let r := fold_left (fun m' p => if is_private p && has p (s_nodes m') && Nat.eqb (degree m' p) 0
                                  then remove_node f m' p else m') l m in
  s_edges r = s_edges m
  /\ (forall k, lookup k (s_nodes r) = if mem k l && orphan m k then None else lookup k (s_nodes m))
  /\ (forall k, lookup k (s_observed r) = if mem k l && orphan m k then None else lookup k (s_observed m)).
Proof.
  induction l as [|p l IH]; intros m; [simpl; auto|].
  cbn [fold_left]. fold (orphan m p). destruct (orphan m p) eqn:Eo.
  - assert (Hdeg : degree m p = 0).
    { unfold orphan in Eo. apply andb_true_iff in Eo. destruct Eo as [_ Eo]. now apply Nat.eqb_eq in Eo. }
    rewrite (remove_isolated f m p Hdeg).
    set (m1 := {| s_nodes := remove p (s_nodes m); s_edges := s_edges m; s_observed := remove p (s_observed m) |}).
    destruct (IH m1) as [He [Hn Ho]]. cbv zeta.
    assert (Horph : forall k, k <> p -> orphan m1 k = orphan m k).
    { intros k Hk. unfold orphan, m1, degree. simpl. rewrite has_remove.
      apply String.eqb_neq in Hk. now rewrite Hk. }
    split; [exact He|]. split; intros k; [rewrite Hn | rewrite Ho]; simpl; rewrite lookup_remove;
      (destruct (String.eqb k p) eqn:Ek;
       [apply String.eqb_eq in Ek; subst k; rewrite Eo; simpl; now destruct (mem p l && orphan m1 p)
       |apply String.eqb_neq in Ek; rewrite (Horph k Ek); reflexivity]).
  - destruct (IH m) as [He [Hn Ho]]. cbv zeta.
    split; [exact He|]. split; intros k; [rewrite Hn | rewrite Ho]; simpl;
      (destruct (String.eqb k p) eqn:Ek;
       [apply String.eqb_eq in Ek; subst k; rewrite Eo, !andb_false_r; reflexivity | reflexivity]).
Qed.

(** the private positional parents of [n] that [remove_node _ m n] takes along: they exist, are
    not [n], and have no edge left once [n] is gone *)
Definition cleaned_b (m : snet) (n k : name) : bool :=
  mem k (get_parents m n) && orphan (drop_node m n) k.

Theorem remove_node_spec f m n :
  let r := remove_node (S f) m n in
  s_edges r = filter (fun e => negb (String.eqb n (e_src e)) && negb (String.eqb n (e_dst e))) (s_edges m)
  /\ (forall k, lookup k (s_nodes r) = if String.eqb k n || cleaned_b m n k then None else lookup k (s_nodes m))
  /\ (forall k, lookup k (s_observed r) = if String.eqb k n || cleaned_b m n k then None else lookup k (s_observed m)).
Proof.
  cbn [remove_node].
  set (m0 := with_observed m (remove n (s_observed m))).
  destruct (clean_fold f (get_parents m0 n) (drop_node m0 n)) as [He [Hn Ho]]. cbv zeta in *.
  split; [rewrite He; reflexivity|].
  change (mem ?k (get_parents m0 n) && orphan (drop_node m0 n) ?k) with (cleaned_b m n k) in *.
  split; intros k; [rewrite Hn | rewrite Ho]; simpl; rewrite lookup_remove;
    destruct (String.eqb k n); simpl; try reflexivity; now destruct (cleaned_b m n k).
Qed.

(** the clean-up set, logically *)
Theorem cleaned_spec m n k :
  cleaned_b m n k = true <->
  k <> n /\ In k (names m) /\ is_private k = true
  /\ (exists i, In (k, n, PInt i) (s_edges m))
  /\ (forall e, In e (s_edges m) -> e_src e = k \/ e_dst e = k -> e_src e = n \/ e_dst e = n).
Proof.
  unfold cleaned_b, orphan. rewrite !andb_true_iff, mem_In, get_parents_spec, Nat.eqb_eq, degree_0.
  simpl. rewrite has_In, In_remove. unfold names.
  assert (Hedges : (forall e, In e (filter (fun e => negb (String.eqb n (e_src e)) && negb (String.eqb n (e_dst e))) (s_edges m)) ->
                               e_src e <> k /\ e_dst e <> k)
                   <-> (forall e, In e (s_edges m) -> e_src e = k \/ e_dst e = k -> e_src e = n \/ e_dst e = n)).
  { split.
    - intros H e He Hk. destruct (string_dec (e_src e) n) as [|Hs]; [now left|].
      destruct (string_dec (e_dst e) n) as [|Hd]; [now right|]. exfalso.
      assert (Hf : In e (filter (fun e => negb (String.eqb n (e_src e)) && negb (String.eqb n (e_dst e))) (s_edges m))).
      { apply filter_In. split; [exact He|]. apply andb_true_iff. split; apply negb_true_iff; apply String.eqb_neq; congruence. }
      destruct (H e Hf). tauto.
    - intros H e He. apply filter_In in He. destruct He as [He Hc].
      apply andb_true_iff in Hc. destruct Hc as [H1 H2]. apply negb_true_iff in H1, H2. apply String.eqb_neq in H1, H2.
      split; intros Hk; destruct (H e He); auto; congruence. }
  rewrite Hedges. tauto.
Qed.

Lemma cleaned_not_self m n : cleaned_b m n n = false.
Proof. destruct (cleaned_b m n n) eqn:E; [|reflexivity]. apply cleaned_spec in E. tauto. Qed.

Lemma cleaned_with_observed m ob n k : cleaned_b (with_observed m ob) n k = cleaned_b m n k.
Proof. reflexivity. Qed.

(** ---- folds of networkx [add_edge] ---- *)
Lemma fold_add_stable (f : edge -> edge) : forall (l : list edge) es e,
  In e es ->
  (forall y, In y l -> e_src (f y) = e_src e -> e_dst (f y) = e_dst e -> f y = e) ->
  In e (fold_left (fun acc x => add_edge (e_src (f x)) (e_dst (f x)) (e_par (f x)) acc) l es).
Proof.
  induction l as [|a r IH]; intros es e Hin Hsame; simpl; [exact Hin|].
  apply IH; [|intros y Hy; apply Hsame; now right].
  destruct (string_dec (e_src (f a)) (e_src e)) as [Hs|Hs].
  - destruct (string_dec (e_dst (f a)) (e_dst e)) as [Hd|Hd].
    + rewrite (Hsame a (or_introl eq_refl) Hs Hd). destruct e as [[x y] z]. exact (add_edge_In x y z es).
    + apply add_edge_keeps; [exact Hin | right; congruence].
  - apply add_edge_keeps; [exact Hin | left; congruence].
Qed.

Lemma fold_add_new (f : edge -> edge) : forall (l : list edge) es x,
  In x l ->
  (forall y, In y l -> e_src (f y) = e_src (f x) -> e_dst (f y) = e_dst (f x) -> f y = f x) ->
  In (f x) (fold_left (fun acc x => add_edge (e_src (f x)) (e_dst (f x)) (e_par (f x)) acc) l es).
Proof.
  induction l as [|a r IH]; intros es x Hin Hsame; [destruct Hin|]. simpl.
  destruct Hin as [->|Hin].
  - apply fold_add_stable; [|intros y Hy; apply Hsame; now right].
    destruct (f x) as [[a b] c]. exact (add_edge_In a b c es).
  - apply IH; [exact Hin | intros y Hy; apply Hsame; now right].
Qed.

Lemma add_edge_pair u v p es a b q :
  In (a, b, q) es -> exists q', In (a, b, q') (add_edge u v p es).
Proof.
  intros H. destruct (string_dec a u) as [->|Ha].
  - destruct (string_dec b v) as [->|Hb].
    + exists p. apply add_edge_In.
    + exists q. apply add_edge_keeps; [exact H | right; exact Hb].
  - exists q. apply add_edge_keeps; [exact H | left; exact Ha].
Qed.

Lemma fold_add_pair (f : edge -> edge) a b : forall (l : list edge) es,
  (exists q, In (a, b, q) es) ->
  exists q, In (a, b, q) (fold_left (fun acc x => add_edge (e_src (f x)) (e_dst (f x)) (e_par (f x)) acc) l es).
Proof.
  induction l as [|x r IH]; intros es H; simpl; [exact H|].
  apply IH. destruct H as [q H]. eapply add_edge_pair; eauto.
Qed.

Lemma fold_add_pair_new (f : edge -> edge) : forall (l : list edge) es x,
  In x l ->
  exists q, In (e_src (f x), e_dst (f x), q) (fold_left (fun acc x => add_edge (e_src (f x)) (e_dst (f x)) (e_par (f x)) acc) l es).
Proof.
  induction l as [|a r IH]; intros es x Hin; [destruct Hin|]. simpl.
  destruct Hin as [->|Hin]; [|now apply IH].
  apply fold_add_pair. exists (e_par (f x)). apply add_edge_In.
Qed.

(** ---- the edge list built by [update_node] ---- *)
(** after re-creating [n] and re-attaching its out-edges *)
Definition become_es3 (m : snet) (n : name) : list edge :=
  fold_left (fun es e => add_edge (e_src e) (e_dst e) (e_par e) es)
            (filter (fun e => String.eqb n (e_src e)) (s_edges m))
            (filter (fun e => negb (String.eqb n (e_src e)) && negb (String.eqb n (e_dst e))) (s_edges m)).
(** after copying the in-edges of [u] onto [n] *)
Definition become_es4 (m : snet) (n u : name) : list edge :=
  fold_left (fun es e => add_edge (e_src e) n (e_par e) es)
            (filter (fun e => String.eqb u (e_dst e)) (become_es3 m n))
            (become_es3 m n).

Lemma length_has {A} n (l : list (name * A)) : has n l = true -> exists f, List.length l = S f.
Proof. destruct l; [discriminate | simpl; eauto]. Qed.

(** The exact result of a successful become: nodes and states, observed data and edges. *)
Theorem update_node_spec m n u m' :
  update_node m n u = Ok m' -> n <> u ->
  exists stu,
    lookup u (s_nodes m) = Some stu /\ has n (s_nodes m) = true /\ cleaned_b m n u = false
    /\ (forall e, In e (s_edges m) -> e_src e = n -> cleaned_b m n (e_dst e) = false)
    /\ s_edges m' = filter (fun e => negb (String.eqb u (e_src e)) && negb (String.eqb u (e_dst e))) (become_es4 m n u)
    /\ (forall k, lookup k (s_nodes m') =
                  if String.eqb k u then None else if String.eqb k n then Some stu
                  else if cleaned_b m n k then None else lookup k (s_nodes m))
    /\ (forall k, lookup k (s_observed m') =
                  if String.eqb k u then None else if String.eqb k n then lookup u (s_observed m)
                  else if cleaned_b m n k then None else lookup k (s_observed m)).
Proof.
  unfold update_node. intros H Hnu.
  destruct (has n (s_nodes m)) eqn:En; cbn [negb] in H; [|discriminate].
  destruct (has u (s_nodes m)) eqn:Eu; cbn [negb] in H; [|discriminate].
  set (m0 := with_observed m (remove u (s_observed m))) in *.
  destruct (length_has _ _ En) as [f0 Hf0]. change (s_nodes m) with (s_nodes m0) in Hf0. rewrite Hf0 in H.
  destruct (remove_node_spec f0 m0 n) as [He1 [Hn1 Ho1]]. cbv zeta in He1, Hn1, Ho1.
  change (cleaned_b m0 n) with (cleaned_b m n) in *.
  change (s_nodes m0) with (s_nodes m) in Hn1. change (s_edges m0) with (s_edges m) in He1.
  change (s_observed m0) with (remove u (s_observed m)) in Ho1.
  set (m1 := remove_node (S f0) m0 n) in *.
  assert (Enu : String.eqb u n = false) by (apply String.eqb_neq; congruence).
  destruct (lookup u (s_nodes m1)) as [stu|] eqn:Elu; [|discriminate].
  rewrite Hn1, Enu in Elu. simpl in Elu.
  destruct (cleaned_b m n u) eqn:Ecu; [discriminate|].
  exists stu. split; [exact Elu|]. split; [reflexivity|]. split; [reflexivity|].
  set (m2 := with_nodes m1 (set n stu (s_nodes m1))) in *.
  set (out_edges := filter (fun e => String.eqb n (e_src e)) (s_edges m0)) in *.
  destruct (forallb (fun e => has (e_dst e) (s_nodes m2)) out_edges) eqn:Eout; cbn [negb] in H; [|discriminate].
  split.
  { intros e He Hs. rewrite forallb_forall in Eout.
    assert (Ho : In e out_edges).
    { apply filter_In. split; [exact He | apply String.eqb_eq; congruence]. }
    specialize (Eout e Ho). unfold has, m2 in Eout. cbn [s_nodes with_nodes] in Eout.
    rewrite lookup_set, Hn1 in Eout.
    destruct (cleaned_b m n (e_dst e)) eqn:Ec; [|reflexivity]. exfalso.
    destruct (String.eqb (e_dst e) n) eqn:Edn.
    - apply String.eqb_eq in Edn. rewrite Edn, cleaned_not_self in Ec. discriminate.
    - simpl in Eout. discriminate. }
  set (es3 := fold_left (fun es e => add_edge (e_src e) (e_dst e) (e_par e) es) out_edges (s_edges m2)) in *.
  set (m3 := with_edges m2 es3) in *.
  set (in_u := filter (fun e => String.eqb u (e_dst e)) (s_edges m3)) in *.
  set (es4 := fold_left (fun es e => add_edge (e_src e) n (e_par e) es) in_u (s_edges m3)) in *.
  set (m4 := with_edges m3 es4) in *.
  assert (Hf4 : exists f, List.length (s_nodes m4) = S f).
  { apply (length_has n). unfold has. change (s_nodes m4) with (set n stu (s_nodes m1)). now rewrite lookup_set_same. }
  destruct Hf4 as [f4 Hf4]. rewrite Hf4 in H.
  destruct (remove_node_spec f4 m4 u) as [He5 [Hn5 Ho5]]. cbv zeta in He5, Hn5, Ho5.
  (* the second removal cleans nothing up: every parent of [u] now also feeds [n] *)
  assert (Hclean : forall k, cleaned_b m4 u k = false).
  { intros k. destruct (cleaned_b m4 u k) eqn:E; [exfalso|reflexivity].
    apply cleaned_spec in E. destruct E as [Hku [_ [_ [[i Hi] Hall]]]].
    change (s_edges m4) with es4 in Hi, Hall.
    assert (Hi3 : In (k, u, PInt i) es3).
    { unfold es4 in Hi. apply (fold_add_edges_In (fun x => (e_src x, n, e_par x))) in Hi.
      destruct Hi as [Hi|[x [_ Hx]]]; [exact Hi | inversion Hx; congruence]. }
    assert (Hiu : In (k, u, PInt i) in_u) by (apply filter_In; split; [exact Hi3 | apply String.eqb_refl]).
    destruct (fold_add_pair_new (fun x => (e_src x, n, e_par x)) in_u (s_edges m3) _ Hiu) as [q Hq].
    destruct (Hall _ Hq (or_introl eq_refl)) as [Hc|Hc]; unfold e_src, e_dst in Hc; simpl in Hc; congruence. }
  set (m5 := remove_node (S f4) m4 u) in *.
  assert (Hn5' : forall k, lookup k (s_nodes m5) =
                           if String.eqb k u then None else if String.eqb k n then Some stu
                           else if cleaned_b m n k then None else lookup k (s_nodes m)).
  { intros k. rewrite Hn5, Hclean, orb_false_r. change (s_nodes m4) with (set n stu (s_nodes m1)).
    rewrite lookup_set, Hn1. destruct (String.eqb k u), (String.eqb k n); reflexivity. }
  assert (Ho5' : forall k, lookup k (s_observed m5) =
                           if String.eqb k u then None else if String.eqb k n then None
                           else if cleaned_b m n k then None else lookup k (s_observed m)).
  { intros k. rewrite Ho5, Hclean, orb_false_r. change (s_observed m4) with (s_observed m1).
    rewrite Ho1, lookup_remove. destruct (String.eqb k u), (String.eqb k n), (cleaned_b m n k); reflexivity. }
  assert (He5' : s_edges m5 = filter (fun e => negb (String.eqb u (e_src e)) && negb (String.eqb u (e_dst e))) (become_es4 m n u)).
  { rewrite He5. f_equal. change (s_edges m4) with es4.
    unfold es4, in_u. change (s_edges m3) with es3. unfold es3, out_edges. change (s_edges m2) with (s_edges m1).
    rewrite He1. reflexivity. }
  inversion H; subst m'. clear H.
  destruct (lookup u (s_observed m)) as [v|] eqn:Eov; cbn [s_edges s_nodes s_observed with_observed].
  - split; [exact He5'|]. split; [exact Hn5'|]. intros k. rewrite lookup_set, Ho5'.
    destruct (String.eqb k u) eqn:Eku; destruct (String.eqb k n) eqn:Ekn; try reflexivity.
    apply String.eqb_eq in Eku, Ekn. congruence.
  - split; [exact He5'|]. split; [exact Hn5'|]. exact Ho5'.
Qed.

(** ---- membership in the rebuilt edge list ---- *)
(** networkx keeps one edge per ordered pair of nodes *)
Definition simple (es : list edge) : Prop :=
  forall a b p q, In (a, b, p) es -> In (a, b, q) es -> p = q.

Lemma es3_sub m n e : In e (become_es3 m n) -> In e (s_edges m) /\ (e_src e = n \/ e_dst e <> n).
Proof.
  unfold become_es3. intros H. apply (fold_add_edges_In (fun x => x)) in H.
  destruct H as [H|[x [Hx ->]]]; apply filter_In in H || apply filter_In in Hx.
  - destruct H as [H Hc]. split; [exact H|]. right.
    apply andb_true_iff in Hc. destruct Hc as [_ Hc]. apply negb_true_iff in Hc. apply String.eqb_neq in Hc. congruence.
  - destruct Hx as [Hx Hc]. apply String.eqb_eq in Hc. split; [exact Hx | now left].
Qed.

Lemma es3_other m n e : In e (s_edges m) -> e_src e <> n -> e_dst e <> n -> In e (become_es3 m n).
Proof.
  intros H Hs Hd. unfold become_es3. apply (fold_add_stable (fun x => x)).
  - apply filter_In. split; [exact H|]. apply andb_true_iff. split; apply negb_true_iff; apply String.eqb_neq; congruence.
  - intros y Hy Hys _. apply filter_In in Hy. destruct Hy as [_ Hy]. apply String.eqb_eq in Hy. congruence.
Qed.

Lemma es3_out m n e : simple (s_edges m) -> In e (s_edges m) -> e_src e = n -> In e (become_es3 m n).
Proof.
  intros Hsim H Hs. unfold become_es3. apply (fold_add_new (fun x => x)).
  - apply filter_In. split; [exact H | apply String.eqb_eq; congruence].
  - intros y Hy Hys Hyd. apply filter_In in Hy. destruct Hy as [Hy _].
    destruct y as [[ya yb] yp], e as [[ea eb] ep]. unfold e_src, e_dst in *. simpl in *. subst.
    f_equal. eapply Hsim; eauto.
Qed.

Lemma es4_sub m n u e :
  In e (become_es4 m n u) -> In e (become_es3 m n) \/ exists q p, e = (q, n, p) /\ In (q, u, p) (become_es3 m n).
Proof.
  unfold become_es4. intros H. apply (fold_add_edges_In (fun x => (e_src x, n, e_par x))) in H.
  destruct H as [H|[x [Hx ->]]]; [now left | right].
  apply filter_In in Hx. destruct Hx as [Hx Hd]. apply String.eqb_eq in Hd.
  exists (e_src x), (e_par x). split; [reflexivity|]. rewrite Hd. now rewrite <- edge_eta.
Qed.

Lemma es4_old m n u e :
  In e (become_es3 m n) -> (e_dst e <> n \/ forall p, ~ In (e_src e, u, p) (become_es3 m n)) -> In e (become_es4 m n u).
Proof.
  intros H Hc. unfold become_es4. apply (fold_add_stable (fun x => (e_src x, n, e_par x))); [exact H|].
  intros y Hy Hs Hd. exfalso. change (e_src y = e_src e) in Hs. change (n = e_dst e) in Hd.
  apply filter_In in Hy. destruct Hy as [Hy Hyu]. apply String.eqb_eq in Hyu.
  destruct Hc as [Hc|Hc]; [congruence|]. apply (Hc (e_par y)). rewrite <- Hs, Hyu. now rewrite <- edge_eta.
Qed.

Lemma es4_new m n u q p :
  simple (s_edges m) -> In (q, u, p) (become_es3 m n) -> In (q, n, p) (become_es4 m n u).
Proof.
  intros Hsim H. unfold become_es4.
  apply (fold_add_new (fun x => (e_src x, n, e_par x)) _ _ (q, u, p)).
  - apply filter_In. split; [exact H | apply String.eqb_refl].
  - intros y Hy Hs _. apply filter_In in Hy. destruct Hy as [Hy Hyu]. apply String.eqb_eq in Hyu.
    destruct y as [[ya yb] yp]. unfold e_src, e_dst, e_par in *. simpl in *. subst.
    apply es3_sub in Hy, H. f_equal. eapply Hsim; [apply Hy | apply H].
Qed.

Lemma In_not_touching u (es : list edge) e :
  In e (filter (fun e => negb (String.eqb u (e_src e)) && negb (String.eqb u (e_dst e))) es)
  <-> In e es /\ e_src e <> u /\ e_dst e <> u.
Proof.
  rewrite filter_In, andb_true_iff, !negb_true_iff, !String.eqb_neq. intuition congruence.
Qed.

(** ---- 1. children kept ---- *)
(** With [u] not a child of [n], the out-edges of [n] are exactly the same before and after. *)
Theorem become_children m n u m' :
  update_node m n u = Ok m' -> n <> u -> simple (s_edges m) ->
  (forall p, ~ In (n, u, p) (s_edges m)) ->
  forall c p, In (n, c, p) (s_edges m') <-> In (n, c, p) (s_edges m).
Proof.
  intros H Hnu Hsim Hchild c p.
  destruct (update_node_spec _ _ _ _ H Hnu) as [stu [_ [_ [_ [_ [He _]]]]]].
  rewrite He, In_not_touching. split.
  - intros [H4 _]. apply es4_sub in H4. destruct H4 as [H3|[q [p' [Heq H3]]]].
    + now apply es3_sub in H3.
    + inversion Heq; subst. apply es3_sub in H3. destruct H3 as [H3 _]. exfalso. eapply Hchild; eauto.
  - intros Hin. assert (Hcu : c <> u) by (intros ->; eapply Hchild; eauto).
    split; [|unfold e_src, e_dst; simpl; split; congruence].
    apply es4_old; [now apply es3_out|]. right. intros p' H3. apply es3_sub in H3. eapply Hchild. apply H3.
Qed.

(** Without that hypothesis: every child other than [u] and [n] itself is kept ... *)
Theorem become_children_kept m n u m' :
  update_node m n u = Ok m' -> n <> u -> simple (s_edges m) ->
  forall c p, In (n, c, p) (s_edges m) -> c <> u -> c <> n -> In (n, c, p) (s_edges m').
Proof.
  intros H Hnu Hsim c p Hin Hcu Hcn.
  destruct (update_node_spec _ _ _ _ H Hnu) as [stu [_ [_ [_ [_ [He _]]]]]].
  rewrite He, In_not_touching. split; [|unfold e_src, e_dst; simpl; split; congruence].
  apply es4_old; [now apply es3_out | now left].
Qed.

(** ... and the only out-edge that can be invented is a self-loop copied from an edge [n -> u]. *)
Theorem become_children_not_invented m n u m' :
  update_node m n u = Ok m' -> n <> u ->
  forall c p, In (n, c, p) (s_edges m') -> (In (n, c, p) (s_edges m) /\ c <> u) \/ (c = n /\ In (n, u, p) (s_edges m)).
Proof.
  intros H Hnu c p Hin.
  destruct (update_node_spec _ _ _ _ H Hnu) as [stu [_ [_ [_ [_ [He _]]]]]].
  rewrite He, In_not_touching in Hin. destruct Hin as [H4 [_ Hcu]]. unfold e_dst in Hcu. simpl in Hcu.
  apply es4_sub in H4. destruct H4 as [H3|[q [p' [Heq H3]]]].
  - left. split; [now apply es3_sub in H3 | exact Hcu].
  - right. inversion Heq; subst. split; [reflexivity | now apply es3_sub in H3].
Qed.

(** ---- 2. parents taken ---- *)
(** With [u] not a child of [n] and no self-loop at [n], the in-edges of [n] afterwards are exactly
    the in-edges of [u] before (a self-loop at [u] goes with [u]). *)
Theorem become_parents m n u m' :
  update_node m n u = Ok m' -> n <> u -> simple (s_edges m) ->
  (forall p, ~ In (n, u, p) (s_edges m)) -> (forall p, ~ In (n, n, p) (s_edges m)) ->
  forall q p, In (q, n, p) (s_edges m') <-> In (q, u, p) (s_edges m) /\ q <> u.
Proof.
  intros H Hnu Hsim Hchild Hloop q p.
  destruct (update_node_spec _ _ _ _ H Hnu) as [stu [_ [_ [_ [_ [He _]]]]]].
  rewrite He, In_not_touching. unfold e_src, e_dst. simpl. split.
  - intros [H4 [Hqu _]]. split; [|exact Hqu]. apply es4_sub in H4. destruct H4 as [H3|[q' [p' [Heq H3]]]].
    + apply es3_sub in H3. destruct H3 as [H3 [Hs|Hd]]; unfold e_src, e_dst in *; simpl in *; [|congruence].
      subst q. exfalso. eapply Hloop; eauto.
    + inversion Heq; subst. now apply es3_sub in H3.
  - intros [Hin Hqu]. assert (Hqn : q <> n) by (intros ->; eapply Hchild; eauto).
    split; [|split; congruence]. apply es4_new; [exact Hsim|]. apply es3_other; [exact Hin | |]; unfold e_src, e_dst; simpl; congruence.
Qed.

(** Without those two hypotheses: every in-edge of [u] from a node other than [n] and [u] is copied. *)
Theorem become_parents_taken m n u m' :
  update_node m n u = Ok m' -> n <> u -> simple (s_edges m) ->
  forall q p, In (q, u, p) (s_edges m) -> q <> n -> q <> u -> In (q, n, p) (s_edges m').
Proof.
  intros H Hnu Hsim q p Hin Hqn Hqu.
  destruct (update_node_spec _ _ _ _ H Hnu) as [stu [_ [_ [_ [_ [He _]]]]]].
  rewrite He, In_not_touching. unfold e_src, e_dst. simpl.
  split; [|split; congruence]. apply es4_new; [exact Hsim|]. apply es3_other; [exact Hin | |]; unfold e_src, e_dst; simpl; congruence.
Qed.

(** The old parents of [n]: an old in-edge survives only if [u] had the same in-edge. *)
Corollary become_old_parents_dropped m n u m' :
  update_node m n u = Ok m' -> n <> u -> simple (s_edges m) ->
  (forall p, ~ In (n, u, p) (s_edges m)) -> (forall p, ~ In (n, n, p) (s_edges m)) ->
  forall q p, In (q, n, p) (s_edges m) -> ~ In (q, u, p) (s_edges m) -> ~ In (q, n, p) (s_edges m').
Proof.
  intros H Hnu Hsim Hchild Hloop q p _ Hno Hin.
  apply (become_parents _ _ _ _ H Hnu Hsim Hchild Hloop) in Hin. tauto.
Qed.

(** The nodes of the result: [u] is gone, and so are exactly the private positional parents of
    [n] that had no edge other than to or from [n] ([cleaned_b], see [cleaned_spec]). *)
Theorem become_names m n u m' :
  update_node m n u = Ok m' -> n <> u ->
  forall k, In k (names m') <-> In k (names m) /\ k <> u /\ cleaned_b m n k = false.
Proof.
  intros H Hnu k.
  destruct (update_node_spec _ _ _ _ H Hnu) as [stu [Hu [Hn [_ [_ [_ [Hl _]]]]]]].
  unfold names. rewrite !In_names_lookup, Hl.
  destruct (String.eqb k u) eqn:Eku.
  - apply String.eqb_eq in Eku. split; [congruence | tauto].
  - apply String.eqb_neq in Eku. destruct (String.eqb k n) eqn:Ekn.
    + apply String.eqb_eq in Ekn. subst k. rewrite cleaned_not_self. split; [|intros _; discriminate].
      intros _. split; [|auto]. unfold has in Hn. destruct (lookup n (s_nodes m)); [discriminate | discriminate].
    + destruct (cleaned_b m n k); [split; [congruence | intros [_ [_ ?]]; discriminate] | tauto].
Qed.

Theorem become_node_kept m n u m' : update_node m n u = Ok m' -> n <> u -> In n (names m').
Proof.
  intros H Hnu. apply (become_names _ _ _ _ H Hnu).
  destruct (update_node_spec _ _ _ _ H Hnu) as [stu [_ [Hn _]]].
  split; [now apply has_In|]. split; [exact Hnu | apply cleaned_not_self].
Qed.

(** the replaced node's children and the replacement are never cleaned up *)
Theorem become_cleaned_not_child m n u m' :
  update_node m n u = Ok m' -> n <> u ->
  cleaned_b m n u = false /\ forall c p, In (n, c, p) (s_edges m) -> cleaned_b m n c = false.
Proof.
  intros H Hnu. destruct (update_node_spec _ _ _ _ H Hnu) as [stu [_ [_ [Hu [Hc _]]]]].
  split; [exact Hu|]. intros c p Hin. exact (Hc _ Hin eq_refl).
Qed.

(** a successful become keeps the model structurally consistent (no side condition needed) *)
Theorem become_closed m n u m' : Closed m -> update_node m n u = Ok m' -> n <> u -> Closed m'.
Proof. intros Hc H Hnu. eapply update_node_closed; eauto. eapply become_node_kept; eauto. Qed.

(** ---- 3. others untouched ---- *)
Theorem become_other_states m n u m' :
  update_node m n u = Ok m' -> n <> u ->
  forall k, k <> n -> k <> u -> cleaned_b m n k = false -> lookup k (s_nodes m') = lookup k (s_nodes m).
Proof.
  intros H Hnu k Hkn Hku Hc.
  destruct (update_node_spec _ _ _ _ H Hnu) as [stu [_ [_ [_ [_ [_ [Hl _]]]]]]].
  rewrite Hl, Hc. apply String.eqb_neq in Hkn, Hku. now rewrite Hkn, Hku.
Qed.

Theorem become_other_edges m n u m' :
  update_node m n u = Ok m' -> n <> u ->
  forall e, e_src e <> n -> e_src e <> u -> e_dst e <> n -> e_dst e <> u ->
    (In e (s_edges m') <-> In e (s_edges m)).
Proof.
  intros H Hnu e Hsn Hsu Hdn Hdu.
  destruct (update_node_spec _ _ _ _ H Hnu) as [stu [_ [_ [_ [_ [He _]]]]]].
  rewrite He, In_not_touching. split.
  - intros [H4 _]. apply es4_sub in H4. destruct H4 as [H3|[q [p [Heq _]]]]; [now apply es3_sub in H3|].
    subst e. unfold e_dst in Hdn. simpl in Hdn. congruence.
  - intros Hin. split; [|tauto]. apply es4_old; [now apply es3_other | now left].
Qed.

(** an edge between two nodes other than [n] never touches a cleaned-up node *)
Lemma cleaned_only_touches m n k e :
  cleaned_b m n k = true -> In e (s_edges m) -> e_src e <> n -> e_dst e <> n -> e_src e <> k /\ e_dst e <> k.
Proof.
  intros Hc Hin Hs Hd. apply cleaned_spec in Hc. destruct Hc as [_ [_ [_ [_ Hall]]]].
  split; intros Hk; destruct (Hall e Hin); auto.
Qed.

(** ---- 4. observed data ---- *)
Theorem become_observed m n u m' :
  update_node m n u = Ok m' -> n <> u ->
  lookup n (s_observed m') = lookup u (s_observed m)
  /\ lookup u (s_observed m') = None
  /\ forall k, k <> n -> k <> u ->
       lookup k (s_observed m') = if cleaned_b m n k then None else lookup k (s_observed m).
Proof.
  intros H Hnu.
  destruct (update_node_spec _ _ _ _ H Hnu) as [stu [_ [_ [_ [_ [_ [_ Ho]]]]]]].
  assert (Enu : String.eqb n u = false) by now apply String.eqb_neq.
  split; [rewrite Ho, Enu, String.eqb_refl; reflexivity|].
  split; [rewrite Ho, String.eqb_refl; reflexivity|].
  intros k Hkn Hku. rewrite Ho. apply String.eqb_neq in Hkn, Hku. now rewrite Hkn, Hku.
Qed.

(** ---- [simple] holds in every state an edit script can reach ---- *)
(** the inductive form: the ordered pairs of end points are pairwise distinct *)
Definition pairs (es : list edge) : list (name * name) := map (fun e => (e_src e, e_dst e)) es.
Definition uniq (es : list edge) : Prop := NoDup (pairs es).

Lemma uniq_simple es : uniq es -> simple es.
Proof.
  unfold uniq. induction es as [|e r IH]; intros Hn a b p q H1 H2; [destruct H1|].
  simpl in Hn. inversion Hn as [|? ? Hnot Hr]; subst.
  assert (Hp : forall x, In (a, b, x) r -> In (a, b) (pairs r)).
  { intros x Hx. apply in_map_iff. exists (a, b, x). split; [reflexivity | exact Hx]. }
  destruct H1 as [->|H1], H2 as [H2|H2].
  - congruence.
  - exfalso. apply Hnot. eapply Hp; eauto.
  - subst e. exfalso. apply Hnot. eapply Hp; eauto.
  - eapply IH; eauto.
Qed.

Lemma uniq_filter f es : uniq es -> uniq (filter f es).
Proof.
  unfold uniq. induction es as [|e r IH]; simpl; intros Hn; [constructor|].
  inversion Hn as [|? ? Hnot Hr]; subst. destruct (f e); simpl; [|auto].
  constructor; [|auto]. intros Hin. apply Hnot.
  apply in_map_iff in Hin. destruct Hin as [x [Hx Hin]]. apply filter_In in Hin.
  apply in_map_iff. exists x. tauto.
Qed.

Lemma pairs_add_edge u v p es :
  pairs (add_edge u v p es) =
  if existsb (fun e => String.eqb u (e_src e) && String.eqb v (e_dst e)) es then pairs es else pairs es ++ [(u, v)].
Proof.
  induction es as [|e r IH]; simpl; [reflexivity|].
  destruct (String.eqb u (e_src e) && String.eqb v (e_dst e)) eqn:E; simpl.
  - apply andb_true_iff in E. destruct E as [E1 E2]. apply String.eqb_eq in E1, E2. now subst.
  - rewrite IH. now destruct (existsb _ r).
Qed.

Lemma uniq_add_edge u v p es : uniq es -> uniq (add_edge u v p es).
Proof.
  unfold uniq. intros Hn. rewrite pairs_add_edge.
  destruct (existsb _ es) eqn:E; [exact Hn|]. apply NoDup_app_snoc; [exact Hn|].
  intros Hin. apply in_map_iff in Hin. destruct Hin as [e [He Hin]]. inversion He; subst.
  assert (Ht : existsb (fun e0 => String.eqb (e_src e) (e_src e0) && String.eqb (e_dst e) (e_dst e0)) es = true).
  { apply existsb_exists. exists e. split; [exact Hin | now rewrite !String.eqb_refl]. }
  congruence.
Qed.

Lemma uniq_fold_add (f : edge -> edge) : forall (l : list edge) es,
  uniq es -> uniq (fold_left (fun acc x => add_edge (e_src (f x)) (e_dst (f x)) (e_par (f x)) acc) l es).
Proof. induction l as [|x r IH]; intros es H; simpl; [exact H|]. apply IH. now apply uniq_add_edge. Qed.

Lemma remove_node_edges_eq fuel m n :
  s_edges (remove_node fuel m n) =
  filter (fun e => negb (String.eqb n (e_src e)) && negb (String.eqb n (e_dst e))) (s_edges m).
Proof. destruct fuel as [|f]; [reflexivity | apply remove_node_spec]. Qed.

Lemma update_node_self m n m' : update_node m n n = Ok m' -> False.
Proof.
  unfold update_node. intros H.
  destruct (has n (s_nodes m)); cbn [negb] in H; [|discriminate].
  destruct (lookup n (s_nodes (remove_node _ _ n))) eqn:El; [|discriminate].
  apply lookup_Some_In in El. exact (remove_node_gone _ _ _ El).
Qed.

Theorem become_uniq m n u m' : update_node m n u = Ok m' -> uniq (s_edges m) -> uniq (s_edges m').
Proof.
  intros H Hu. destruct (string_dec n u) as [->|Hnu]; [destruct (update_node_self _ _ _ H)|].
  destruct (update_node_spec _ _ _ _ H Hnu) as [stu [_ [_ [_ [_ [He _]]]]]].
  rewrite He. apply uniq_filter. unfold become_es4.
  apply (uniq_fold_add (fun x => (e_src x, n, e_par x))). unfold become_es3.
  apply (uniq_fold_add (fun x => x)). now apply uniq_filter.
Qed.

Lemma add_edge_m_uniq m p c par m' : add_edge_m m p c par = Ok m' -> uniq (s_edges m) -> uniq (s_edges m').
Proof.
  unfold add_edge_m. intros H Hu.
  destruct (has c (s_nodes m)); cbn [negb] in H; [|discriminate].
  destruct (has p (s_nodes m)); cbn [negb] in H; [|discriminate].
  inversion H; subst. simpl. now apply uniq_add_edge.
Qed.

Lemma fold_add_parents_uniq n : forall parents (r : res snet) m2,
  (forall m1, r = Ok m1 -> uniq (s_edges m1)) ->
  fold_left (fun r p => do mm <- r; add_edge_m mm p n None) parents r = Ok m2 -> uniq (s_edges m2).
Proof.
  induction parents as [|p l IH]; intros r m2 Hr H; simpl in H; [now apply Hr|].
  apply IH in H; [exact H|]. intros m1 H1. destruct r as [mm|]; simpl in H1; [|discriminate].
  eapply add_edge_m_uniq; eauto.
Qed.

Theorem step_model_uniq m o m' : step_model m o = Ok m' -> uniq (s_edges m) -> uniq (s_edges m').
Proof.
  intros H Hu. destruct o as [h n st parents obs|h p c par|h n|h n u|h ps|h n v|h|h|h n f b]; simpl in H.
  - destruct (add_node m n st) as [m1|] eqn:Ea; simpl in H; [|discriminate].
    destruct (fold_left _ parents (Ok m1)) as [m2|] eqn:Ef; simpl in H; [|discriminate].
    assert (H2 : uniq (s_edges m2)).
    { eapply fold_add_parents_uniq; [|exact Ef]. intros m0 H0. inversion H0; subst m0.
      unfold add_node in Ea. destruct (has n (s_nodes m)); [discriminate|]. inversion Ea; subst. exact Hu. }
    inversion H; subst. now destruct obs.
  - eapply add_edge_m_uniq; eauto.
  - unfold remove_node_checked in H. destruct (has n (s_nodes m)); [|discriminate]. inversion H; subst.
    rewrite remove_node_edges_eq. now apply uniq_filter.
  - eapply become_uniq; eauto.
  - unfold set_parameter_names in H. destruct (forallb _ ps); [|discriminate]. inversion H; subst. exact Hu.
  - inversion H; subst. exact Hu.
  - inversion H; subst. exact Hu.
  - inversion H; subst. exact Hu.
  - unfold set_node_flag in H. destruct (has n (s_nodes m)); [|discriminate]. inversion H; subst. exact Hu.
Qed.

Theorem run_uniq : forall ops ms ms',
  Forall (fun m => uniq (s_edges m)) ms -> run ms ops = Ok ms' -> Forall (fun m => uniq (s_edges m)) ms'.
Proof.
  induction ops as [|o r IH]; intros ms ms' Hall H; simpl in H.
  - inversion H; subst. exact Hall.
  - destruct (step ms o) as [ms1|] eqn:Es; simpl in H; [|discriminate].
    apply (IH ms1 ms'); [|exact H]. unfold step in Es.
    destruct (nth_error ms (handle_of o)) as [m|] eqn:En; [|discriminate].
    destruct (step_model m o) as [m1|] eqn:Em; simpl in Es; [|discriminate].
    assert (Hm : uniq (s_edges m)) by (rewrite Forall_forall in Hall; apply Hall; eapply nth_error_In; eauto).
    pose proof (step_model_uniq _ _ _ Em Hm) as Hm1.
    destruct o; inversion Es; subst; try (apply Forall_set_nth; assumption);
      apply Forall_app; split; auto.
Qed.

(** every model built by an edit script from the empty model has one edge per ordered pair *)
Corollary reachable_simple ops ms :
  run [empty_net] ops = Ok ms -> Forall (fun m => simple (s_edges m)) ms.
Proof.
  intros H. eapply Forall_impl; [intros m; apply uniq_simple|].
  eapply run_uniq; [|exact H]. constructor; [constructor | constructor].
Qed.

(** ---- the four clauses, bundled ---- *)
Theorem become_keeps_children m n u m' :
  update_node m n u = Ok m' -> n <> u -> simple (s_edges m) ->
  (forall c p, In (n, c, p) (s_edges m) -> c <> u -> c <> n -> In (n, c, p) (s_edges m'))
  /\ (forall c p, In (n, c, p) (s_edges m') ->
        (In (n, c, p) (s_edges m) /\ c <> u) \/ (c = n /\ In (n, u, p) (s_edges m)))
  /\ ((forall p, ~ In (n, u, p) (s_edges m)) ->
      forall c p, In (n, c, p) (s_edges m') <-> In (n, c, p) (s_edges m)).
Proof.
  intros H Hnu Hsim. split; [now apply (become_children_kept m n u m')|].
  split; [now apply (become_children_not_invented m n u m')|].
  intros Hchild. now apply (become_children m n u m').
Qed.

Theorem become_takes_parents m n u m' :
  update_node m n u = Ok m' -> n <> u -> simple (s_edges m) ->
  (forall q p, In (q, u, p) (s_edges m) -> q <> n -> q <> u -> In (q, n, p) (s_edges m'))
  /\ ((forall p, ~ In (n, u, p) (s_edges m)) -> (forall p, ~ In (n, n, p) (s_edges m)) ->
      forall q p, In (q, n, p) (s_edges m') <-> In (q, u, p) (s_edges m) /\ q <> u)
  /\ (forall k, In k (names m') <-> In k (names m) /\ k <> u /\ cleaned_b m n k = false)
  /\ (forall k, cleaned_b m n k = true <->
        k <> n /\ In k (names m) /\ is_private k = true
        /\ (exists i, In (k, n, PInt i) (s_edges m))
        /\ (forall e, In e (s_edges m) -> e_src e = k \/ e_dst e = k -> e_src e = n \/ e_dst e = n)).
Proof.
  intros H Hnu Hsim. split; [now apply (become_parents_taken m n u m')|].
  split; [intros Hchild Hloop; now apply (become_parents m n u m')|].
  split; [now apply (become_names m n u m') | intros k; apply cleaned_spec].
Qed.

Theorem become_others_untouched m n u m' :
  update_node m n u = Ok m' -> n <> u ->
  (forall k, k <> n -> k <> u -> cleaned_b m n k = false -> lookup k (s_nodes m') = lookup k (s_nodes m))
  /\ (forall e, e_src e <> n -> e_src e <> u -> e_dst e <> n -> e_dst e <> u ->
        (In e (s_edges m') <-> In e (s_edges m)))
  /\ (forall k e, cleaned_b m n k = true -> In e (s_edges m) -> e_src e <> n -> e_dst e <> n ->
        e_src e <> k /\ e_dst e <> k).
Proof.
  intros H Hnu. split; [now apply (become_other_states m n u m')|].
  split; [now apply (become_other_edges m n u m') | intros k e; apply cleaned_only_touches].
Qed.

(** On an acyclic model, with the replacement not reachable from the node (the guard of
    [update_node_acyclic]), the side conditions disappear. *)
Theorem become_edges_acyclic m n u m' :
  update_node m n u = Ok m' -> simple (s_edges m) -> acyclic (s_edges m) -> ~ reach (s_edges m) n u ->
  (forall c p, In (n, c, p) (s_edges m') <-> In (n, c, p) (s_edges m))
  /\ (forall q p, In (q, n, p) (s_edges m') <-> In (q, u, p) (s_edges m)).
Proof.
  intros H Hsim Hac Hr.
  assert (Hnu : n <> u) by (intros ->; apply Hr; constructor).
  assert (Hchild : forall p, ~ In (n, u, p) (s_edges m)) by (intros p Hin; apply Hr; eapply reach_edge; eauto).
  assert (Hloop : forall a p, ~ In (a, a, p) (s_edges m)) by (intros a p Hin; apply (Hac _ _ _ Hin); constructor).
  split; [now apply (become_children m n u m')|].
  intros q p. rewrite (become_parents m n u m' H Hnu Hsim Hchild (Hloop n)).
  split; [tauto|]. intros Hin. split; [exact Hin|]. intros ->. eapply Hloop; eauto.
Qed.

(** ---- decidable forms of the hypotheses ---- *)
Definition pair_in (a b : name) (es : list edge) : bool :=
  existsb (fun e => String.eqb a (e_src e) && String.eqb b (e_dst e)) es.

Lemma pair_in_false a b es : pair_in a b es = false -> forall p, ~ In (a, b, p) es.
Proof.
  intros H p Hin. assert (Ht : pair_in a b es = true); [|congruence].
  apply existsb_exists. exists (a, b, p). split; [exact Hin|]. unfold e_src, e_dst. simpl. now rewrite !String.eqb_refl.
Qed.

Fixpoint uniq_b (es : list edge) : bool :=
  match es with [] => true | e :: r => negb (pair_in (e_src e) (e_dst e) r) && uniq_b r end.

Lemma uniq_b_sound es : uniq_b es = true -> uniq es.
Proof.
  unfold uniq. induction es as [|e r IH]; simpl; intros H; [constructor|].
  apply andb_true_iff in H. destruct H as [H1 H2]. apply negb_true_iff in H1.
  constructor; [|auto]. intros Hin. apply in_map_iff in Hin. destruct Hin as [x [Hx Hin]].
  apply (pair_in_false _ _ _ H1 (e_par x)). rewrite <- Hx. now rewrite <- edge_eta.
Qed.

Definition has_edge (a b : name) (p : param) (es : list edge) : bool :=
  existsb (fun e => String.eqb a (e_src e) && String.eqb b (e_dst e) && param_eqb p (e_par e)) es.

(** ---- the side conditions are necessary (counterexamples by computation) ---- *)
Local Open Scope string_scope.
Definition bst (id : name) : sstate :=
  {| s_output := None; s_has_op := true; s_stochastic := false; s_observable := false; s_uses_observed := false;
     s_uses_batch_size := false; s_uses_meta := false; s_parameter := false; s_opid := id |}.
Definition two_nodes (es : list edge) : snet :=
  {| s_nodes := [("n", bst "n"); ("u", bst "u")]%string; s_edges := es; s_observed := [] |}.

(** "every edge (n, c, p) with c <> u is kept" fails for c = n when [u] is a child of [n]: the
    self-loop's parameter is overwritten by the parameter of the edge n -> u *)
Example become_children_selfloop_refuted :
  let m := two_nodes [("n", "n", PInt 0); ("n", "u", PInt 1)]%string in
  uniq_b (s_edges m) = true /\ has_edge "n" "n" (PInt 0) (s_edges m) = true
  /\ match update_node m "n" "u" with
     | Ok m' => negb (has_edge "n" "n" (PInt 0) (s_edges m')) && has_edge "n" "n" (PInt 1) (s_edges m')
     | Err _ => false
     end = true.
Proof. vm_compute. repeat split. Qed.

(** "no children invented" / "every in-edge of n comes from a parent of u other than n" fail when
    [u] is a child of [n]: the edge n -> u becomes a self-loop n -> n (become onto a descendant) *)
Example become_onto_child_refuted :
  let m := two_nodes [("n", "u", PInt 0)]%string in
  uniq_b (s_edges m) = true /\ pair_in "n" "n" (s_edges m) = false
  /\ match update_node m "n" "u" with
     | Ok m' => has_edge "n" "n" (PInt 0) (s_edges m')
     | Err _ => false
     end = true.
Proof. vm_compute. repeat split. Qed.

(** "every edge (q, u, p) with q <> n becomes (q, n, p)" fails for q = u: a self-loop at [u] goes
    with [u] *)
Example become_parents_selfloop_refuted :
  let m := two_nodes [("u", "u", PInt 0)]%string in
  uniq_b (s_edges m) = true
  /\ match update_node m "n" "u" with
     | Ok m' => negb (has_edge "u" "n" (PInt 0) (s_edges m'))
     | Err _ => false
     end = true.
Proof. vm_compute. repeat split. Qed.

(** two edges for one ordered pair (never produced by [add_edge], see [reachable_simple]): only the
    parameter of the last one is taken over *)
Example become_parents_multiedge_refuted :
  let m := {| s_nodes := [("q", bst "q"); ("n", bst "n"); ("u", bst "u")]%string;
              s_edges := [("q", "u", PInt 0); ("q", "u", PInt 1)]%string; s_observed := [] |} in
  uniq_b (s_edges m) = false
  /\ match update_node m "n" "u" with
     | Ok m' => negb (has_edge "q" "n" (PInt 0) (s_edges m')) && has_edge "q" "n" (PInt 1) (s_edges m')
     | Err _ => false
     end = true.
Proof. vm_compute. repeat split. Qed.

(** a replacement that is itself a private sole parent of the node is cleaned up with it: the
    become fails *)
Example become_onto_private_parent_fails :
  let m := {| s_nodes := [("_u", bst "_u"); ("n", bst "n")]%string;
              s_edges := [("_u", "n", PInt 0)]%string; s_observed := [] |} in
  cleaned_b m "n" "_u" = true /\ update_node m "n" "_u" = Err (EMissingNode "_u").
Proof. vm_compute. split; reflexivity. Qed.
