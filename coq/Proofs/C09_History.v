(** Proofs for C09, histories of calls in one process (wave 3): neither sampler keeps anything between
    calls, so every call of every history - whatever the process went through before, whichever calls
    share a target callable, a start or a seed - returns the model's result for that call alone, and two
    calls with the same inputs return the same result. *)
From Coq Require Import List Bool Arith NArith ZArith PrimFloat.
From Elfi Require Import Num.Mcmc Num.Nuts.
Import ListNotations.

(** ---- no cross-call state ---- *)
Lemma call_in_fresh prev c : fst (call_in prev c) = model_result c.
Proof. reflexivity. Qed.

Theorem history_results_fresh : forall h prev, history_results prev h = map model_result h.
Proof.
  induction h as [|c r IH]; intros prev; simpl; [reflexivity|].
  rewrite IH. reflexivity.
Qed.

(** the earlier part of a history does not matter to the later part *)
Theorem history_results_app : forall h1 h2 prev,
  history_results prev (h1 ++ h2) = history_results prev h1 ++ history_results [] h2.
Proof. intros. rewrite !history_results_fresh. apply map_app. Qed.

(** the model's result is a function of the call's inputs (the observed result is not read) *)
Lemma model_result_inputs c : model_result (inputs c) = model_result c.
Proof. destruct c as [m|n]; reflexivity. Qed.

Theorem equal_calls_equal_results : forall h prev i j c1 c2,
  nth_error h i = Some c1 -> nth_error h j = Some c2 -> inputs c1 = inputs c2 ->
  nth_error (history_results prev h) i = nth_error (history_results prev h) j
  /\ nth_error (history_results prev h) i = Some (model_result c1).
Proof.
  intros h prev i j c1 c2 H1 H2 E. rewrite history_results_fresh.
  rewrite (map_nth_error model_result i h H1), (map_nth_error model_result j h H2).
  rewrite <- (model_result_inputs c1), <- (model_result_inputs c2), E. split; reflexivity.
Qed.

(** ---- the history correspondence is the per-call comparison with the fresh record ---- *)
Definition call_agree (c : hcall) : bool :=
  result_agrees (model_result (hc_fresh c)) (hc_here c) && (agree (hc_fresh c) && agree (hc_here c)).

Lemma all2_map_map {A B C} (f : B -> C -> bool) (g : A -> B) (k : A -> C) l :
  all2 f (map g l) (map k l) = forallb (fun x => f (g x) (k x)) l.
Proof. induction l as [|x r IH]; simpl; [reflexivity|]. now rewrite IH. Qed.

Lemma forallb_andb {A} (f g : A -> bool) l :
  forallb f l && forallb g l = forallb (fun x => f x && g x) l.
Proof.
  induction l as [|x r IH]; simpl; [reflexivity|]. rewrite <- IH.
  destruct (f x), (g x), (forallb f r), (forallb g r); reflexivity.
Qed.

Theorem hagree_each_fresh h : hagree h = forallb call_agree h.
Proof.
  unfold hagree, call_agree. rewrite history_results_fresh, map_map.
  rewrite (all2_map_map result_agrees (fun c => model_result (hc_fresh c)) hc_here).
  apply forallb_andb.
Qed.

(** what [hok] means for every call of the history, from ANY earlier process state *)
Definition call_holds (c : hcall) (r : mres) : Prop :=
  r = model_result (hc_fresh c)
  /\ result_agrees r (hc_here c) = true
  /\ ok (hc_fresh c) = true /\ ok (hc_here c) = true
  /\ same_args (hc_fresh c) (hc_here c) = true /\ same_draws (hc_fresh c) (hc_here c) = true.

Theorem hok_each : forall h prev,
  hok h = true -> Forall2 call_holds h (history_results prev (map hc_fresh h)).
Proof.
  intros h prev H. unfold hok in H. apply andb_true_iff in H. destruct H as [HA HO].
  rewrite hagree_each_fresh in HA. rewrite history_results_fresh, map_map.
  rewrite forallb_forall in HA, HO.
  assert (G : forall l, (forall c, In c l -> In c h) ->
                        Forall2 call_holds l (map (fun c => model_result (hc_fresh c)) l)).
  { induction l as [|c r IH]; intros Hin; simpl; constructor.
    - assert (Hc : In c h) by (apply Hin; left; reflexivity).
      specialize (HA c Hc). specialize (HO c Hc). unfold call_agree in HA.
      apply andb_true_iff in HA. destruct HA as [HR _].
      apply andb_true_iff in HO. destruct HO as [HO HD].
      apply andb_true_iff in HO. destruct HO as [HO HS].
      apply andb_true_iff in HO. destruct HO as [HF HH].
      unfold call_holds. repeat split; assumption.
    - apply IH. intros c' Hc'. apply Hin. right. exact Hc'. }
  apply G. auto.
Qed.

(** a history passes iff each of its calls passes on its own: order and neighbours are immaterial *)
Definition call_ok (c : hcall) : bool :=
  call_agree c && (ok (hc_fresh c) && ok (hc_here c)
                   && same_args (hc_fresh c) (hc_here c) && same_draws (hc_fresh c) (hc_here c)).

Theorem hok_each_call h : hok h = forallb call_ok h.
Proof. unfold hok, call_ok. rewrite hagree_each_fresh. apply forallb_andb. Qed.

(** ---- non-vacuity: concrete records ---- *)

(** a NUTS call: one iteration, max_depth 0, one momentum drawn by the initial step-size search *)
Definition ex_leaf : ileaf := {| l_p := 2%N; l_m := 3%N; l_in := true; l_ok := true; l_out := false; l_mh := one |}.
Definition ex_tree : itree := leaf_tree N N ex_leaf.
Definition ex_nuts (ninit : nat) (st : list idraw) (chain : list N) : c09case :=
  CNuts {| nc_iter := 1; nc_maxdepth := 0; nc_ninit := ninit; nc_p0 := 1%N; nc_tinf := false; nc_stream := st;
           nc_base := [((1%N, false, 1%N, 1%N, 2%N), ex_leaf)]; nc_uturn := []; nc_slice := [((1%N, 2%N, 1%N), 1%N)];
           nc_eps := [1%N]; nc_good := [(1%N, true); (2%N, true)]; nc_svok := [(1%N, true)];
           nc_leaves := [ex_tree]; nc_nodes := []; nc_impl := NIChain chain |}.
Definition ex_stream : list idraw := [NM 2%N; NE 1%N; NU 0x1p-2%float; NU 0x1p-3%float].
(** the call alone: the search draws momentum 9 first *)
Definition ex_alone := ex_nuts 1 (NM 9%N :: ex_stream) [2%N].
(** the call after an earlier one, in a process that remembered the step size and skipped the search:
    taken by itself it is a run of the algorithm, and here it even returns the same state - but it did not
    draw what the call alone draws *)
Definition ex_skipped := ex_nuts 0 ex_stream [2%N].

(** a Metropolis call (integer start 0, scale 1, proposal 0.75 accepted) *)
Definition ex_met (chain : list vec) : c09case :=
  CMet {| c_n := 1; c_warmup := 0; c_start := [NI 0%Z]; c_sigma_in := [NI 1%Z];
          c_stream := [DN [0x1.8p-1%float]; DU 0x1p-1%float];
          c_target := [([0]%float, 0%float); ([0x1.8p-1]%float, (-0x1.2p-2)%float)];
          c_exp := [((-0x1.2p-2)%float, 0x1.8276b9e2d2d4fp-1%float)]; c_out_f64 := true; c_impl := IChain chain |}.
