(** Proofs for C11: the decidable predicates evaluated on the implementation's observations are
    sound for the Prop-level statements. *)
From Coq Require Import List ZArith QArith Qabs Arith Bool Lia.
From Elfi Require Import Sched.Sched Sched.Bo Num.Acq Sched.BoCase Proofs.C11_Acq.
Import ListNotations.
Local Close Scope Q_scope.

Lemma list_eqb_Forall2 {X} (f : X -> X -> bool) (R : X -> X -> Prop) :
  (forall x y, f x y = true -> R x y) -> forall a b, list_eqb f a b = true -> Forall2 R a b.
Proof.
  intros Hf. induction a as [|x a IH]; intros [|y b] H; simpl in H; try discriminate; constructor.
  - apply andb_true_iff in H. apply Hf. tauto.
  - apply andb_true_iff in H. apply IH. tauto.
Qed.

Lemma list_eqb_eq {X} (f : X -> X -> bool) :
  (forall x y, f x y = true -> x = y) -> forall a b, list_eqb f a b = true -> a = b.
Proof.
  intros Hf. induction a as [|x a IH]; intros [|y b] H; simpl in H; try discriminate; auto.
  apply andb_true_iff in H. destruct H as [H1 H2]. f_equal; auto.
Qed.

Definition row_eq (x y : row) : Prop := Forall2 Qeq x y.
Definition erow_eq (x y : erow) : Prop := row_eq (fst x) (fst y) /\ (snd x == snd y)%Q.

Lemma row_eqb_sound : forall x y, row_eqb x y = true -> row_eq x y.
Proof.
  unfold row_eqb, row_eq. induction x as [|a x IH]; intros [|b y] H; simpl in H; try discriminate; constructor.
  - apply andb_true_iff in H. destruct H as [_ H]. simpl in H. apply andb_true_iff in H. destruct H as [H _].
    now apply Qeq_bool_iff in H.
  - apply IH. apply andb_true_iff in H. destruct H as [H1 H2]. simpl in H2. apply andb_true_iff in H2.
    apply andb_true_iff. split; tauto.
Qed.

Lemma erow_eqb_sound x y : erow_eqb x y = true -> erow_eq x y.
Proof.
  unfold erow_eqb, erow_eq. intros H. apply andb_true_iff in H. destruct H as [H1 H2].
  split; [now apply row_eqb_sound | now apply Qeq_bool_iff].
Qed.

(** what [bo_ok] establishes about one observed run *)
Record bo_property (k : bo_case) : Prop := {
  (* the client calls form a complete in-order trace consuming exactly the reported number of batches *)
  bp_trace : trace_ok (k_maxp k) (k_trace k) = Some (k_nbatches k);
  (* the surrogate's evidence is the precomputed evidence followed by the (parameters, target)
     pairs of the consumed batches, in batch-index order *)
  bp_evidence : Forall2 erow_eq (k_X k) (k_pre k ++ concat (firstn (k_nbatches k) (k_batches k)));
  (* n_evidence counts them *)
  bp_count : k_nev k = Z.of_nat (length (k_X k))
             /\ k_nev k = (c_npre (k_cfg k) + Z.of_nat (c_b (k_cfg k)) * Z.of_nat (k_nbatches k))%Z;
  (* a batch is supplied with parameters exactly when its acquisition index is >= 0; then it gets
     batch_size rows, all inside the bounds, and those are the rows the simulator received *)
  bp_supplied : Forall (fun ip =>
                  match snd ip with
                  | None => (acq_index (k_cfg k) (fst ip) < 0)%Z
                  | Some rows => (0 <= acq_index (k_cfg k) (fst ip))%Z /\ length rows = c_b (k_cfg k)
                                 /\ Forall (In_box (k_bounds k)) rows
                                 /\ Forall2 row_eq rows (map fst (nth (fst ip) (k_batches k) []))
                  end) (k_supplied k);
  bp_supplied_idx : map fst (k_supplied k) = seq 0 (k_nbatches k);
  (* every acquire call asked for batch_size * batches_per_acquisition points at the index
     floor((b*i - (n_initial - n_precomputed)) / (b*bpa)) >= 0, and with synchronous acquisition saw
     exactly the evidence of the batches before i *)
  bp_acq : Forall (fun x => let '(i, n, t, cnt) := x in
                     n = c_b (k_cfg k) * c_bpa (k_cfg k) /\ t = acq_index (k_cfg k) i /\ (0 <= t)%Z
                     /\ (c_async (k_cfg k) = false -> cnt = length (k_pre k) + c_b (k_cfg k) * i)) (k_acqlog k);
  (* every acquisition answer has that many rows, all inside the bounds *)
  bp_answers : Forall (fun rows => length rows = c_b (k_cfg k) * c_bpa (k_cfg k)
                                   /\ Forall (In_box (k_bounds k)) rows) (k_acq_tab k)
}.

Lemma forallb_Forall {X} (f : X -> bool) (Pp : X -> Prop) l :
  (forall x, f x = true -> Pp x) -> forallb f l = true -> Forall Pp l.
Proof. intros Hf H. rewrite forallb_forall in H. apply Forall_forall. auto. Qed.

Theorem bo_ok_sound k : bo_ok k = true -> bo_property k.
Proof.
  unfold bo_ok. intros H. repeat (apply andb_true_iff in H; destruct H as [H ?]).
  constructor.
  - destruct (trace_ok (k_maxp k) (k_trace k)); [|discriminate]. apply Nat.eqb_eq in H. now subst.
  - eapply list_eqb_Forall2; [|eassumption]. apply erow_eqb_sound.
  - split; apply Z.eqb_eq; assumption.
  - eapply forallb_Forall; [|eassumption]. intros [i [rows|]] Hx; unfold supplied_matches in Hx; simpl in *.
    + repeat (apply andb_true_iff in Hx; destruct Hx as [Hx ?]).
      split; [now apply Z.leb_le|]. split; [now apply Nat.eqb_eq|]. split.
      * eapply forallb_Forall; [|eassumption]. intros x. apply in_box_spec.
      * eapply list_eqb_Forall2; [|eassumption]. apply row_eqb_sound.
    + now apply Z.ltb_lt.
  - eapply list_eqb_eq; [|eassumption]. intros x y. apply Nat.eqb_eq.
  - eapply forallb_Forall; [|eassumption]. intros [[[i n] t] cnt] Hx. unfold acq_entry_okb in Hx.
    repeat (apply andb_true_iff in Hx; destruct Hx as [Hx ?]).
    split; [now apply Nat.eqb_eq|]. split; [now apply Z.eqb_eq|]. split; [now apply Z.leb_le|].
    intros Ha. match goal with Ho : (_ || _) = true |- _ => rewrite Ha in Ho; simpl in Ho; now apply Nat.eqb_eq in Ho end.
  - eapply forallb_Forall; [|eassumption]. intros rows Hx. unfold acq_answer_okb in Hx.
    apply andb_true_iff in Hx. destruct Hx as [Hx1 Hx2]. split; [now apply Nat.eqb_eq|].
    eapply forallb_Forall; [|eassumption]. intros x. apply in_box_spec.
Qed.

Definition property_holds (c : case) : Prop :=
  match c with
  | CAcq a => length (a_out a) = a_n a /\ Forall (In_box (a_bounds a)) (a_out a)
  | CBo k => bo_property k
  | CGrad g => (0 < g_beta g)%Q /\ (0 < g_var g)%Q
  end.

Theorem ok_sound c : ok c = true -> property_holds c.
Proof.
  destruct c as [a|k|g]; simpl.
  - apply C11_Acq.ok_sound.
  - apply bo_ok_sound.
  - unfold grad_ok. intros H. apply andb_true_iff in H. destruct H as [H _].
    apply andb_true_iff in H. destruct H as [H1 H2]. apply negb_true_iff in H1, H2.
    split; apply Qnot_le_lt; intros Hle; apply Qle_bool_iff in Hle; congruence.
Qed.
