(** Proofs for C11: the decidable predicates evaluated on the implementation's observations are
    sound for the Prop-level statements. *)
From Coq Require Import List ZArith QArith Qabs Arith Bool Lia.
From Elfi Require Import Sched.Sched Sched.Bo Num.Acq Sched.BoCase Proofs.C11_Acq Proofs.C11_Box.
Import ListNotations.
Local Close Scope Q_scope.

Lemma list_eqb_Forall2 {X} (f : X -> X -> bool) (R : X -> X -> Prop) :
  (forall x y, f x y = true -> R x y) -> forall a b, list_eqb f a b = true -> Forall2 R a b.
Proof.
  intros Hf. induction a as [|x a IH]; intros [|y b] H; simpl in H; try discriminate; constructor.
  - apply andb_true_iff in H. apply Hf. tauto.
  - apply andb_true_iff in H. apply IH. tauto.
Qed.

Lemma list_eqb_eq {X} (f : X -> X -> bool) :
  (forall x y, f x y = true -> x = y) -> forall a b, list_eqb f a b = true -> a = b.
Proof.
  intros Hf. induction a as [|x a IH]; intros [|y b] H; simpl in H; try discriminate; auto.
  apply andb_true_iff in H. destruct H as [H1 H2]. f_equal; auto.
Qed.

Definition row_eq (x y : row) : Prop := Forall2 Qeq x y.
Definition erow_eq (x y : erow) : Prop := row_eq (fst x) (fst y) /\ (snd x == snd y)%Q.

Lemma row_eqb_sound : forall x y, row_eqb x y = true -> row_eq x y.
Proof.
  unfold row_eqb, row_eq. induction x as [|a x IH]; intros [|b y] H; simpl in H; try discriminate; constructor.
  - apply andb_true_iff in H. destruct H as [_ H]. simpl in H. apply andb_true_iff in H. destruct H as [H _].
    now apply Qeq_bool_iff in H.
  - apply IH. apply andb_true_iff in H. destruct H as [H1 H2]. simpl in H2. apply andb_true_iff in H2.
    apply andb_true_iff. split; tauto.
Qed.

Lemma erow_eqb_sound x y : erow_eqb x y = true -> erow_eq x y.
Proof.
  unfold erow_eqb, erow_eq. intros H. apply andb_true_iff in H. destruct H as [H1 H2].
  split; [now apply row_eqb_sound | now apply Qeq_bool_iff].
Qed.

(** what [bo_ok] establishes about one observed run *)
Record bo_property (k : bo_case) : Prop := {
  (* the client calls form a complete in-order trace consuming exactly the reported number of batches *)
  bp_trace : trace_ok (k_maxp k) (k_trace k) = Some (k_nbatches k);
  (* the surrogate's evidence is the precomputed evidence followed by the (parameters, target)
     pairs of the consumed batches, in batch-index order *)
  bp_evidence : Forall2 erow_eq (k_X k) (k_pre k ++ concat (firstn (k_nbatches k) (k_batches k)));
  (* n_evidence counts them *)
  bp_count : k_nev k = Z.of_nat (length (k_X k))
             /\ k_nev k = (c_npre (k_cfg k) + Z.of_nat (c_b (k_cfg k)) * Z.of_nat (k_nbatches k))%Z;
  (* a batch is supplied with parameters exactly when its acquisition index is >= 0; then it gets
     batch_size rows, all inside the bounds, and those are the rows the simulator received *)
  bp_supplied : Forall (fun ip =>
                  match snd ip with
                  | None => (acq_index (k_cfg k) (fst ip) < 0)%Z
                  | Some rows => (0 <= acq_index (k_cfg k) (fst ip))%Z /\ length rows = c_b (k_cfg k)
                                 /\ Forall (In_box (k_bounds k)) rows
                                 /\ Forall2 row_eq rows (map fst (nth (fst ip) (k_batches k) []))
                  end) (k_supplied k);
  bp_supplied_idx : map fst (k_supplied k) = seq 0 (k_nbatches k);
  (* every acquire call asked for batch_size * batches_per_acquisition points at the index
     floor((b*i - (n_initial - n_precomputed)) / (b*bpa)) >= 0, and with synchronous acquisition saw
     exactly the evidence of the batches before i *)
  bp_acq : Forall (fun x => let '(i, n, t, cnt) := x in
                     n = c_b (k_cfg k) * c_bpa (k_cfg k) /\ t = acq_index (k_cfg k) i /\ (0 <= t)%Z
                     /\ (c_async (k_cfg k) = false -> cnt = length (k_pre k) + c_b (k_cfg k) * i)) (k_acqlog k);
  (* every acquisition answer has that many rows, all inside the bounds *)
  bp_answers : Forall (fun rows => length rows = c_b (k_cfg k) * c_bpa (k_cfg k)
                                   /\ Forall (In_box (k_bounds k)) rows) (k_acq_tab k)
}.

Lemma forallb_Forall {X} (f : X -> bool) (Pp : X -> Prop) l :
  (forall x, f x = true -> Pp x) -> forallb f l = true -> Forall Pp l.
Proof. intros Hf H. rewrite forallb_forall in H. apply Forall_forall. auto. Qed.

Theorem bo_ok_sound k : bo_ok k = true -> bo_property k.
Proof.
  unfold bo_ok. intros H. repeat (apply andb_true_iff in H; destruct H as [H ?]).
  constructor.
  - destruct (trace_ok (k_maxp k) (k_trace k)); [|discriminate]. apply Nat.eqb_eq in H. now subst.
  - eapply list_eqb_Forall2; [|eassumption]. apply erow_eqb_sound.
  - split; apply Z.eqb_eq; assumption.
  - eapply forallb_Forall; [|eassumption]. intros [i [rows|]] Hx; unfold supplied_matches in Hx; simpl in *.
    + repeat (apply andb_true_iff in Hx; destruct Hx as [Hx ?]).
      split; [now apply Z.leb_le|]. split; [now apply Nat.eqb_eq|]. split.
      * eapply forallb_Forall; [|eassumption]. intros x. apply in_box_spec.
      * eapply list_eqb_Forall2; [|eassumption]. apply row_eqb_sound.
    + now apply Z.ltb_lt.
  - eapply list_eqb_eq; [|eassumption]. intros x y. apply Nat.eqb_eq.
  - eapply forallb_Forall; [|eassumption]. intros [[[i n] t] cnt] Hx. unfold acq_entry_okb in Hx.
    repeat (apply andb_true_iff in Hx; destruct Hx as [Hx ?]).
    split; [now apply Nat.eqb_eq|]. split; [now apply Z.eqb_eq|]. split; [now apply Z.leb_le|].
    intros Ha. match goal with Ho : (_ || _) = true |- _ => rewrite Ha in Ho; simpl in Ho; now apply Nat.eqb_eq in Ho end.
  - eapply forallb_Forall; [|eassumption]. intros rows Hx. unfold acq_answer_okb in Hx.
    apply andb_true_iff in Hx. destruct Hx as [Hx1 Hx2]. split; [now apply Nat.eqb_eq|].
    eapply forallb_Forall; [|eassumption]. intros x. apply in_box_spec.
Qed.

(** ---- histories on one acquisition object ---- *)
Definition close_P (a b : Q) : Prop := (Qabs (a - b) <= tol * (1 + Qabs b))%Q.
Definition fd_close_P (extra a b : Q) : Prop :=
  (Qabs (a - b) <= (2 # 10000) * (Qabs a + Qabs b) + (1 # 1000000) + extra)%Q.

(** coordinate-wise: the gradient is within the finite-difference tolerance of the central difference
    for one of the two step sizes *)
Inductive fd_match_P (s : hstep) : list Q -> list Q -> list Q -> list Q -> list Q -> Prop :=
| fdm_nil : fd_match_P s [] [] [] [] []
| fdm_cons m v a b c gm gv g f1 f2 :
    fd_close_P (fd_extra s m v) a b \/ fd_close_P (fd_extra s m v) a c ->
    fd_match_P s gm gv g f1 f2 -> fd_match_P s (m :: gm) (v :: gv) (a :: g) (b :: f1) (c :: f2).
Definition fd_matches (s : hstep) (g : list Q) : Prop := fd_match_P s (h_gmean s) (h_gvar s) g (h_fd s) (h_fd2 s).

Record step_property (s : hstep) : Prop := {
  sp_beta : (0 < h_beta s)%Q;
  sp_var : (0 < h_var s)%Q;
  (* the value the long-lived object returns is the value of a fresh object on the CURRENT surrogate *)
  sp_val : forall v, h_val s = Some v -> close_P v (h_fval s);
  (* so is its gradient, and it is the finite-difference derivative of the current acquisition function *)
  sp_grad : forall g, h_grad s = Some g -> Forall2 close_P g (h_fgrad s) /\ fd_matches s g;
  sp_fresh : fd_matches s (h_fgrad s)
}.

Definition hist_property (h : hist_case) : Prop :=
  Forall step_property (hs_steps h)
  /\ Forall (fun a => length (snd a) = fst a /\ Forall (In_box (hs_bounds h)) (snd a)) (hs_acq h).

Lemma closeb_sound a b : closeb a b = true -> close_P a b.
Proof. unfold closeb, close, close_P. apply Qle_bool_iff. Qed.

Lemma fd_close_sound e a b : fd_close e a b = true -> fd_close_P e a b.
Proof. unfold fd_close, fd_close_P. apply Qle_bool_iff. Qed.

Lemma fd_match_go_sound s : forall gm gv g f1 f2, fd_match_go s gm gv g f1 f2 = true -> fd_match_P s gm gv g f1 f2.
Proof.
  induction gm as [|m gm IH]; intros [|v gv] [|a g] [|b f1] [|c f2] H; simpl in H; try discriminate; constructor.
  - apply andb_true_iff in H. destruct H as [H _]. apply orb_true_iff in H.
    destruct H as [H|H]; [left|right]; now apply fd_close_sound.
  - apply IH. apply andb_true_iff in H. tauto.
Qed.

Lemma fd_match_sound s g : fd_match s g = true -> fd_matches s g.
Proof. apply fd_match_go_sound. Qed.

Lemma not_le_lt0 x : negb (Qle_bool x 0%Q) = true -> (0 < x)%Q.
Proof.
  intros H. apply negb_true_iff in H. apply Qnot_le_lt. intros Hle. apply Qle_bool_iff in Hle. congruence.
Qed.

Theorem step_ok_sound s : step_ok s = true -> step_property s.
Proof.
  unfold step_ok. intros H.
  apply andb_true_iff in H. destruct H as [H Hfresh].
  apply andb_true_iff in H. destruct H as [H Hgrad].
  apply andb_true_iff in H. destruct H as [H Hval].
  apply andb_true_iff in H. destruct H as [H _].
  apply andb_true_iff in H. destruct H as [Hb Hv].
  constructor.
  - now apply not_le_lt0.
  - now apply not_le_lt0.
  - intros v E. rewrite E in Hval. simpl in Hval. now apply closeb_sound.
  - intros g E. rewrite E in Hgrad. simpl in Hgrad. apply andb_true_iff in Hgrad. destruct Hgrad as [G1 G2]. split.
    + eapply list_eqb_Forall2; [|exact G1]. apply closeb_sound.
    + now apply fd_match_sound.
  - now apply fd_match_sound.
Qed.

Theorem hist_ok_sound h : hist_ok h = true -> hist_property h.
Proof.
  unfold hist_ok. intros H.
  apply andb_true_iff in H. destruct H as [H Ha].
  apply andb_true_iff in H. destruct H as [_ Hs]. split.
  - eapply forallb_Forall; [|exact Hs]. apply step_ok_sound.
  - eapply forallb_Forall; [|exact Ha]. intros [n rows] Hx. unfold hacq_ok in Hx. simpl in *.
    apply andb_true_iff in Hx. destruct Hx as [H1 H2]. split; [now apply Nat.eqb_eq|].
    eapply forallb_Forall; [|exact H2]. intros x. apply in_box_spec.
Qed.

(** the model of a history has no memory: the answer to a query is determined by that step's surrogate
    alone, whatever was asked (or whatever the surrogate was) before *)
Theorem hist_model_stateless before s after :
  nth_error (hist_model (before ++ s :: after)) (length before) = Some (step_val s, step_grad s).
Proof.
  unfold hist_model. rewrite map_app. rewrite nth_error_app2 by (rewrite map_length; auto).
  rewrite map_length, Nat.sub_diag. reflexivity.
Qed.

(** two steps that see the same surrogate outputs get the same model answer, wherever they occur *)
Theorem step_model_function s1 s2 :
  h_beta s1 = h_beta s2 -> h_mean s1 = h_mean s2 -> h_var s1 = h_var s2 ->
  h_gmean s1 = h_gmean s2 -> h_gvar s1 = h_gvar s2 -> h_sqrt s1 = h_sqrt s2 ->
  step_val s1 = step_val s2 /\ step_grad s1 = step_grad s2.
Proof.
  intros E1 E2 E3 E4 E5 E6. unfold step_val, step_grad. rewrite E1, E2, E3, E4, E5, E6. split; auto.
  generalize (h_gmean s2) (h_gvar s2). induction l as [|a l IH]; intros [|b l0]; simpl; auto.
  rewrite E1, E2, E3, E6. f_equal. apply IH.
Qed.

(** a Bayesian-optimisation run, by parameter NAME: every row handed to the simulator and every
    acquired row has, at the position of parameter n, a value in the interval the user's dict gives
    for n -- whatever the key order of the dict *)
Theorem bo_ok_named k :
  bo_ok k = true -> length (k_names k) <> 1 ->
  forall rows, (In rows (k_acq_tab k) \/ exists i, In (i, Some rows) (k_supplied k)) ->
  forall x, In x rows -> forall i n, nth_error (k_names k) i = Some n ->
    exists iv xi, lookup (k_dict k) n = Some iv /\ nth_error x i = Some xi /\ (fst iv <= xi /\ xi <= snd iv)%Q.
Proof.
  intros H Hl rows Hrows x Hx i n Hi.
  pose proof (bo_ok_sound k H) as P.
  assert (E : exists bs, box_of (k_names k) (k_dict k) = Some bs).
  { unfold bo_ok in H. destruct (box_of (k_names k) (k_dict k)) as [bs|]; [now exists bs|].
    rewrite andb_false_r in H. simpl in H. discriminate. }
  destruct E as [bs E].
  assert (Hb : Forall (In_box bs) rows).
  { destruct Hrows as [Hin|[j Hin]].
    - pose proof (bp_answers k P) as A. rewrite Forall_forall in A. destruct (A rows Hin) as [_ B].
      unfold k_bounds in B. now rewrite E in B.
    - pose proof (bp_supplied k P) as A. rewrite Forall_forall in A. specialize (A _ Hin). simpl in A.
      destruct A as [_ [_ [B _]]]. unfold k_bounds in B. now rewrite E in B. }
  rewrite Forall_forall in Hb. eapply in_user_box_named; eauto.
Qed.

Definition property_holds (c : case) : Prop :=
  match c with
  | CAcq a => length (a_out a) = a_n a /\ Forall (In_box (a_bounds a)) (a_out a)
  | CBo k => bo_property k
  | CGrad g => (0 < g_beta g)%Q /\ (0 < g_var g)%Q
  | CHist h => hist_property h
  end.

Theorem ok_sound c : ok c = true -> property_holds c.
Proof.
  destruct c as [a|k|g|h]; simpl.
  - apply C11_Acq.ok_sound.
  - apply bo_ok_sound.
  - unfold grad_ok. intros H. apply andb_true_iff in H. destruct H as [H _].
    apply andb_true_iff in H. destruct H as [H1 H2]. apply negb_true_iff in H1, H2.
    split; apply Qnot_le_lt; intros Hle; apply Qle_bool_iff in Hle; congruence.
  - apply hist_ok_sound.
Qed.
