(** Proofs for C11: the decidable predicates evaluated on the implementation's observations are
    sound for the Prop-level statements. *)
From Coq Require Import List ZArith QArith Qabs Arith Bool Lia.
From Elfi Require Import Sched.Sched Sched.Bo Num.Acq Gen.C11_Lcbsc Sched.BoCase Proofs.C11_Acq Proofs.C11_Box.
Import ListNotations.
Local Close Scope Q_scope.

Lemma list_eqb_Forall2 {X} (f : X -> X -> bool) (R : X -> X -> Prop) :
  (forall x y, f x y = true -> R x y) -> forall a b, list_eqb f a b = true -> Forall2 R a b.
Proof.
  intros Hf. induction a as [|x a IH]; intros [|y b] H; simpl in H; try discriminate; constructor.
  - apply andb_true_iff in H. apply Hf. tauto.
  - apply andb_true_iff in H. apply IH. tauto.
Qed.

Lemma list_eqb_eq {X} (f : X -> X -> bool) :
  (forall x y, f x y = true -> x = y) -> forall a b, list_eqb f a b = true -> a = b.
Proof.
  intros Hf. induction a as [|x a IH]; intros [|y b] H; simpl in H; try discriminate; auto.
  apply andb_true_iff in H. destruct H as [H1 H2]. f_equal; auto.
Qed.

Definition row_eq (x y : row) : Prop := Forall2 Qeq x y.
Definition erow_eq (x y : erow) : Prop := row_eq (fst x) (fst y) /\ (snd x == snd y)%Q.

Lemma row_eqb_sound : forall x y, row_eqb x y = true -> row_eq x y.
Proof.
  unfold row_eqb, row_eq. induction x as [|a x IH]; intros [|b y] H; simpl in H; try discriminate; constructor.
  - apply andb_true_iff in H. destruct H as [_ H]. simpl in H. apply andb_true_iff in H. destruct H as [H _].
    now apply Qeq_bool_iff in H.
  - apply IH. apply andb_true_iff in H. destruct H as [H1 H2]. simpl in H2. apply andb_true_iff in H2.
    apply andb_true_iff. split; tauto.
Qed.

Lemma erow_eqb_sound x y : erow_eqb x y = true -> erow_eq x y.
Proof.
  unfold erow_eqb, erow_eq. intros H. apply andb_true_iff in H. destruct H as [H1 H2].
  split; [now apply row_eqb_sound | now apply Qeq_bool_iff].
Qed.

(** what [bo_ok] establishes about one observed run *)
Record bo_property (k : bo_case) : Prop := {
  (* the client calls form a complete in-order trace consuming exactly the reported number of batches *)
  bp_trace : trace_ok (k_maxp k) (k_trace k) = Some (k_nbatches k);
  (* the surrogate's evidence is the precomputed evidence followed by the (parameters, target)
     pairs of the consumed batches, in batch-index order *)
  bp_evidence : Forall2 erow_eq (k_X k) (k_pre k ++ concat (firstn (k_nbatches k) (k_batches k)));
  (* n_evidence counts them *)
  bp_count : k_nev k = Z.of_nat (length (k_X k))
             /\ k_nev k = (c_npre (k_cfg k) + Z.of_nat (c_b (k_cfg k)) * Z.of_nat (k_nbatches k))%Z;
  (* a batch is supplied with parameters exactly when its acquisition index is >= 0; then it gets
     batch_size rows, all inside the bounds, and those are the rows the simulator received *)
  bp_supplied : Forall (fun ip =>
                  match snd ip with
                  | None => (acq_index (k_cfg k) (fst ip) < 0)%Z
                  | Some rows => (0 <= acq_index (k_cfg k) (fst ip))%Z /\ length rows = c_b (k_cfg k)
                                 /\ Forall (In_box (k_bounds k)) rows
                                 /\ Forall2 row_eq rows (map fst (nth (fst ip) (k_batches k) []))
                  end) (k_supplied k);
  bp_supplied_idx : map fst (k_supplied k) = seq 0 (k_nbatches k);
  (* every acquire call asked for batch_size * batches_per_acquisition points at the index
     floor((b*i - (n_initial - n_precomputed)) / (b*bpa)) >= 0, and with synchronous acquisition saw
     exactly the evidence of the batches before i *)
  bp_acq : Forall (fun x => let '(i, n, t, cnt) := x in
                     n = c_b (k_cfg k) * c_bpa (k_cfg k) /\ t = acq_index (k_cfg k) i /\ (0 <= t)%Z
                     /\ (c_async (k_cfg k) = false -> cnt = length (k_pre k) + c_b (k_cfg k) * i)) (k_acqlog k);
  (* every acquisition answer has that many rows, all inside the bounds *)
  bp_answers : Forall (fun rows => length rows = c_b (k_cfg k) * c_bpa (k_cfg k)
                                   /\ Forall (In_box (k_bounds k)) rows) (k_acq_tab k)
}.

Lemma forallb_Forall {X} (f : X -> bool) (Pp : X -> Prop) l :
  (forall x, f x = true -> Pp x) -> forallb f l = true -> Forall Pp l.
Proof. intros Hf H. rewrite forallb_forall in H. apply Forall_forall. auto. Qed.

Theorem bo_ok_sound k : bo_ok k = true -> bo_property k.
Proof.
  unfold bo_ok. intros H. repeat (apply andb_true_iff in H; destruct H as [H ?]).
  constructor.
  - destruct (trace_ok (k_maxp k) (k_trace k)); [|discriminate]. apply Nat.eqb_eq in H. now subst.
  - eapply list_eqb_Forall2; [|eassumption]. apply erow_eqb_sound.
  - split; apply Z.eqb_eq; assumption.
  - eapply forallb_Forall; [|eassumption]. intros [i [rows|]] Hx; unfold supplied_matches in Hx; simpl in *.
    + repeat (apply andb_true_iff in Hx; destruct Hx as [Hx ?]).
      split; [now apply Z.leb_le|]. split; [now apply Nat.eqb_eq|]. split.
      * eapply forallb_Forall; [|eassumption]. intros x. apply in_box_spec.
      * eapply list_eqb_Forall2; [|eassumption]. apply row_eqb_sound.
    + now apply Z.ltb_lt.
  - eapply list_eqb_eq; [|eassumption]. intros x y. apply Nat.eqb_eq.
  - eapply forallb_Forall; [|eassumption]. intros [[[i n] t] cnt] Hx. unfold acq_entry_okb in Hx.
    repeat (apply andb_true_iff in Hx; destruct Hx as [Hx ?]).
    split; [now apply Nat.eqb_eq|]. split; [now apply Z.eqb_eq|]. split; [now apply Z.leb_le|].
    intros Ha. match goal with Ho : (_ || _) = true |- _ => rewrite Ha in Ho; simpl in Ho; now apply Nat.eqb_eq in Ho end.
  - eapply forallb_Forall; [|eassumption]. intros rows Hx. unfold acq_answer_okb in Hx.
    apply andb_true_iff in Hx. destruct Hx as [Hx1 Hx2]. split; [now apply Nat.eqb_eq|].
    eapply forallb_Forall; [|eassumption]. intros x. apply in_box_spec.
Qed.

(** ---- histories on one acquisition object (scale-free since wave 3) ---- *)
Definition rel_P (scale a b : Q) : Prop := (Qabs (a - b) <= tol * scale)%Q.
Definition rel2_P (t a b : Q) : Prop := (Qabs (a - b) <= t * (Qabs a + Qabs b))%Q.

(** two gradients agree coordinate-wise at 1e-9 of the coordinate's scale |grad_mean| + |1/2 grad_var sqrt(beta/var)| *)
Inductive grad_rel_P (s : hstep) : list Q -> list Q -> list Q -> list Q -> Prop :=
| grl_nil : grad_rel_P s [] [] [] []
| grl_cons m v a b gm gv g g' :
    rel_P (step_gscale s m v) a b -> grad_rel_P s gm gv g g' -> grad_rel_P s (m :: gm) (v :: gv) (a :: g) (b :: g').
Definition grad_rels (s : hstep) (g g' : list Q) : Prop := grad_rel_P s (h_gmean s) (h_gvar s) g g'.

(** the surrogate's own outputs are self-consistent for step hh along a coordinate *)
Definition surr_cons_P (s : hstep) (m v hh sm sv : Q) : Prop :=
  rel2_P ct m sm /\ rel2_P ct v sv /\ (Qabs (hh * v) <= st * h_var s)%Q.
Definition fd_tol_P (s : hstep) (m v hh rough a b : Q) : Prop :=
  (Qabs (a - b) <= ft * (Qabs a + Qabs b) + ft * step_gscale s m v + fd_noise s rough / hh)%Q.

(** one coordinate of the second opinion: for one of the two steps the surrogate is self-consistent and the
    gradient is within the finite-difference tolerance of the central difference -- or the surrogate is
    self-consistent for neither step (no opinion) *)
Definition fd_coord_P (s : hstep) (m v a b c : Q) (x : fdaux) : Prop :=
  (0 < x_h x)%Q /\
  ((surr_cons_P s m v (x_h x) (x_sm x) (x_sv x) /\ fd_tol_P s m v (x_h x) (x_rough x) a b)
   \/ (surr_cons_P s m v (x_h x / (10 # 1)) (x_sm2 x) (x_sv2 x) /\ fd_tol_P s m v (x_h x / (10 # 1)) (x_rough x) a c)
   \/ (surr_cons s m v (x_h x) (x_sm x) (x_sv x) = false /\ surr_cons s m v (x_h x / (10 # 1)) (x_sm2 x) (x_sv2 x) = false)).

Inductive fd_match_P (s : hstep) : list Q -> list Q -> list Q -> list Q -> list Q -> list fdaux -> Prop :=
| fdm_nil : fd_match_P s [] [] [] [] [] []
| fdm_cons m v a b c x gm gv g f1 f2 aux :
    fd_coord_P s m v a b c x ->
    fd_match_P s gm gv g f1 f2 aux -> fd_match_P s (m :: gm) (v :: gv) (a :: g) (b :: f1) (c :: f2) (x :: aux).
Definition fd_matches (s : hstep) (g : list Q) : Prop :=
  fd_match_P s (h_gmean s) (h_gvar s) g (h_fd s) (h_fd2 s) (h_aux s).

Record step_property (s : hstep) : Prop := {
  sp_beta : (0 < h_beta s)%Q;
  sp_var : (0 < h_var s)%Q;
  (* the value the long-lived object returns is the value of a fresh object on the CURRENT surrogate,
     and it is mean - sqrt(beta var) of the surrogate's current outputs *)
  sp_val : forall v, h_val s = Some v -> rel_P (step_vscale s) v (h_fval s) /\ rel_P (step_vscale s) v (step_val s);
  (* so is its gradient: it is the translated gradient formula (the proved derivative) on the current outputs,
     and the finite-difference derivative of the current acquisition function where that has an opinion *)
  sp_grad : forall g, h_grad s = Some g -> grad_rels s g (h_fgrad s) /\ grad_rels s g (step_grad s) /\ fd_matches s g;
  sp_fresh_val : rel_P (step_vscale s) (h_fval s) (step_val s);
  sp_fresh_grad : grad_rels s (h_fgrad s) (step_grad s);
  sp_fresh : fd_matches s (h_fgrad s)
}.

Definition hist_property (h : hist_case) : Prop :=
  Forall step_property (hs_steps h)
  /\ Forall (fun a => length (snd a) = fst a /\ Forall (In_box (hs_bounds h)) (snd a)) (hs_acq h).

Lemma rel_close_sound sc a b : rel_close sc a b = true -> rel_P sc a b.
Proof. unfold rel_close, rel_P. apply Qle_bool_iff. Qed.

Lemma rel2_sound t a b : rel2 t a b = true -> rel2_P t a b.
Proof. unfold rel2, rel2_P. apply Qle_bool_iff. Qed.

Lemma grad_rel_go_sound s : forall gm gv g g', grad_rel_go s gm gv g g' = true -> grad_rel_P s gm gv g g'.
Proof.
  induction gm as [|m gm IH]; intros [|v gv] [|a g] [|b g'] H; simpl in H; try discriminate; constructor.
  - apply andb_true_iff in H. destruct H as [H _]. now apply rel_close_sound.
  - apply IH. apply andb_true_iff in H. tauto.
Qed.

Lemma grad_rel_sound s g g' : grad_rel s g g' = true -> grad_rels s g g'.
Proof. apply grad_rel_go_sound. Qed.

Lemma surr_cons_sound s m v hh sm sv : surr_cons s m v hh sm sv = true -> surr_cons_P s m v hh sm sv.
Proof.
  unfold surr_cons, surr_cons_P. intros H.
  apply andb_true_iff in H. destruct H as [H H3]. apply andb_true_iff in H. destruct H as [H1 H2].
  split; [now apply rel2_sound|]. split; [now apply rel2_sound|]. now apply Qle_bool_iff.
Qed.

Lemma fd_tol_sound s m v hh r a b : fd_tol_ok s m v hh r a b = true -> fd_tol_P s m v hh r a b.
Proof. unfold fd_tol_ok, fd_tol_P. apply Qle_bool_iff. Qed.

Lemma not_le_lt0 x : negb (Qle_bool x 0%Q) = true -> (0 < x)%Q.
Proof.
  intros H. apply negb_true_iff in H. apply Qnot_le_lt. intros Hle. apply Qle_bool_iff in Hle. congruence.
Qed.

Lemma fd_coord_sound s m v a b c x : fd_coord s m v a b c x = true -> fd_coord_P s m v a b c x.
Proof.
  unfold fd_coord, fd_coord_P. cbv zeta. intros H.
  apply andb_true_iff in H. destruct H as [Hh H]. split; [now apply not_le_lt0|].
  apply orb_true_iff in H. destruct H as [H|H].
  - apply orb_true_iff in H. destruct H as [H|H]; apply andb_true_iff in H; destruct H as [C T].
    + left. split; [now apply surr_cons_sound | now apply fd_tol_sound].
    + right. left. split; [now apply surr_cons_sound | now apply fd_tol_sound].
  - right. right. apply andb_true_iff in H. destruct H as [C1 C2]. apply negb_true_iff in C1, C2. now split.
Qed.

Lemma fd_match_go_sound s : forall gm gv g f1 f2 aux, fd_match_go s gm gv g f1 f2 aux = true -> fd_match_P s gm gv g f1 f2 aux.
Proof.
  induction gm as [|m gm IH]; intros [|v gv] [|a g] [|b f1] [|c f2] [|x aux] H; simpl in H; try discriminate; constructor.
  - apply andb_true_iff in H. destruct H as [H _]. now apply fd_coord_sound.
  - apply IH. apply andb_true_iff in H. tauto.
Qed.

Lemma fd_match_sound s g : fd_match s g = true -> fd_matches s g.
Proof. apply fd_match_go_sound. Qed.

Theorem step_ok_sound s : step_ok s = true -> step_property s.
Proof.
  unfold step_ok. intros H.
  apply andb_true_iff in H. destruct H as [H Hfresh].
  apply andb_true_iff in H. destruct H as [H Hfg].
  apply andb_true_iff in H. destruct H as [H Hfv].
  apply andb_true_iff in H. destruct H as [H Hgrad].
  apply andb_true_iff in H. destruct H as [H Hval].
  apply andb_true_iff in H. destruct H as [H _].
  apply andb_true_iff in H. destruct H as [Hb Hv].
  constructor.
  - now apply not_le_lt0.
  - now apply not_le_lt0.
  - intros v E. rewrite E in Hval. simpl in Hval. apply andb_true_iff in Hval. destruct Hval as [V1 V2].
    split; now apply rel_close_sound.
  - intros g E. rewrite E in Hgrad. simpl in Hgrad.
    apply andb_true_iff in Hgrad. destruct Hgrad as [G G3]. apply andb_true_iff in G. destruct G as [G1 G2].
    split; [now apply grad_rel_sound|]. split; [now apply grad_rel_sound | now apply fd_match_sound].
  - now apply rel_close_sound.
  - now apply grad_rel_sound.
  - now apply fd_match_sound.
Qed.

(** the exact clause is not vacuous at small scales: an answer that differs from the translated gradient
    formula by more than 1e-9 of the coordinate's scale is rejected, whatever the finite differences say *)
Theorem step_ok_gradient_is_formula s g :
  step_ok s = true -> h_grad s = Some g -> grad_rels s g (step_grad s).
Proof. intros H E. exact (proj1 (proj2 (sp_grad s (step_ok_sound s H) g E))). Qed.

Theorem hist_ok_sound h : hist_ok h = true -> hist_property h.
Proof.
  unfold hist_ok. intros H.
  apply andb_true_iff in H. destruct H as [H Ha].
  apply andb_true_iff in H. destruct H as [_ Hs]. split.
  - eapply forallb_Forall; [|exact Hs]. apply step_ok_sound.
  - eapply forallb_Forall; [|exact Ha]. intros [n rows] Hx. unfold hacq_ok in Hx. simpl in *.
    apply andb_true_iff in Hx. destruct Hx as [H1 H2]. split; [now apply Nat.eqb_eq|].
    eapply forallb_Forall; [|exact H2]. intros x. apply in_box_spec.
Qed.

(** the model of a history has no memory: the answer to a query is determined by that step's surrogate
    alone, whatever was asked (or whatever the surrogate was) before *)
Theorem hist_model_stateless before s after :
  nth_error (hist_model (before ++ s :: after)) (length before) = Some (step_val s, step_grad s).
Proof.
  unfold hist_model. rewrite map_app. rewrite nth_error_app2 by (rewrite map_length; auto).
  rewrite map_length, Nat.sub_diag. reflexivity.
Qed.

(** two steps that see the same surrogate outputs get the same model answer, wherever they occur *)
Theorem step_model_function s1 s2 :
  h_beta s1 = h_beta s2 -> h_mean s1 = h_mean s2 -> h_var s1 = h_var s2 ->
  h_gmean s1 = h_gmean s2 -> h_gvar s1 = h_gvar s2 -> h_sqrt s1 = h_sqrt s2 ->
  step_val s1 = step_val s2 /\ step_grad s1 = step_grad s2.
Proof.
  intros E1 E2 E3 E4 E5 E6. unfold step_val, step_grad. rewrite E1, E2, E3, E4, E5, E6. split; auto.
  generalize (h_gmean s2) (h_gvar s2). induction l as [|a l IH]; intros [|b l0]; simpl; auto.
  rewrite E1, E2, E3, E6. f_equal. apply IH.
Qed.

(** a Bayesian-optimisation run, by parameter NAME: every row handed to the simulator and every
    acquired row has, at the position of parameter n, a value in the interval the user's dict gives
    for n -- whatever the key order of the dict *)
Theorem bo_ok_named k :
  bo_ok k = true -> length (k_names k) <> 1 ->
  forall rows, (In rows (k_acq_tab k) \/ exists i, In (i, Some rows) (k_supplied k)) ->
  forall x, In x rows -> forall i n, nth_error (k_names k) i = Some n ->
    exists iv xi, lookup (k_dict k) n = Some iv /\ nth_error x i = Some xi /\ (fst iv <= xi /\ xi <= snd iv)%Q.
Proof.
  intros H Hl rows Hrows x Hx i n Hi.
  pose proof (bo_ok_sound k H) as P.
  assert (E : exists bs, box_of (k_names k) (k_dict k) = Some bs).
  { unfold bo_ok in H. destruct (box_of (k_names k) (k_dict k)) as [bs|]; [now exists bs|].
    rewrite andb_false_r in H. simpl in H. discriminate. }
  destruct E as [bs E].
  assert (Hb : Forall (In_box bs) rows).
  { destruct Hrows as [Hin|[j Hin]].
    - pose proof (bp_answers k P) as A. rewrite Forall_forall in A. destruct (A rows Hin) as [_ B].
      unfold k_bounds in B. now rewrite E in B.
    - pose proof (bp_supplied k P) as A. rewrite Forall_forall in A. specialize (A _ Hin). simpl in A.
      destruct A as [_ [_ [B _]]]. unfold k_bounds in B. now rewrite E in B. }
  rewrite Forall_forall in Hb. eapply in_user_box_named; eauto.
Qed.

Definition property_holds (c : case) : Prop :=
  match c with
  | CAcq a => length (a_out a) = a_n a /\ Forall (In_box (a_bounds a)) (a_out a)
  | CBo k => bo_property k
  | CGrad g => (0 < g_beta g)%Q /\ (0 < g_var g)%Q
      /\ rel_P (val_scale (near_q (g_sqrt g)) (g_beta g) (g_mean g) (g_var g)) (g_val g)
               (lcbscQ (near_q (g_sqrt g)) (g_beta g) (g_mean g) (g_var g) 0)
      /\ rel_P (grad_scale (near_q (g_sqrt g)) (g_beta g) (g_mean g) (g_var g) (g_gmean g) (g_gvar g)) (g_grad g)
               (lcbsc_gradQ (near_q (g_sqrt g)) (g_beta g) (g_mean g) (g_var g) (g_gmean g) (g_gvar g) 0)
  | CHist h => hist_property h
  end.

Theorem ok_sound c : ok c = true -> property_holds c.
Proof.
  destruct c as [a|k|g|h]; simpl.
  - apply C11_Acq.ok_sound.
  - apply bo_ok_sound.
  - unfold grad_ok. intros H.
    apply andb_true_iff in H. destruct H as [H Hg]. apply andb_true_iff in H. destruct H as [H Hv].
    apply andb_true_iff in H. destruct H as [H _].
    apply andb_true_iff in H. destruct H as [H1 H2].
    split; [now apply not_le_lt0|]. split; [now apply not_le_lt0|].
    split; apply rel_close_sound; assumption.
  - apply hist_ok_sound.
Qed.
