(** Proofs for C01, histories: several sample()/infer() runs on ONE Rejection instance.  The model
    of set_objective discards whatever the instance held before, so every run of a history is the
    fresh run, and every finished run of every history returns the best consumed draws. *)
From Coq Require Import List ZArith Arith Bool Lia Sorting.Permutation Sorting.Sorted.
From Elfi Require Import Sched.Sched Sched.Reject Proofs.C01_Sorting Proofs.C01_Reject.
Import ListNotations.

(** ---- no cross-run state ---- *)
Lemma rset_objective_fresh prev n b f : rset_objective prev n b f = rset_objective None n b f.
Proof. reflexivity. Qed.

Lemma run_on_fresh prev c : run_on prev c = run_on None c.
Proof. reflexivity. Qed.

Lemma model_result_run_on c :
  model_result c = match run_on None c with Some s => Some (extract s) | None => None end.
Proof.
  unfold model_result, run_on, rset_objective.
  destruct (initial_objective (c_n c) (c_b c) (c_form c)) as [obj thr].
  destruct (rseq _ _ _) as [[s k]|]; reflexivity.
Qed.

(** Each run of a history, whatever the instance went through before, gives the fresh run's result. *)
Theorem history_results_fresh : forall h prev, history_results prev h = map model_result h.
Proof.
  induction h as [|c r IH]; intros prev; simpl; [reflexivity|].
  rewrite model_result_run_on, (run_on_fresh prev c).
  destruct (run_on None c) as [s|]; rewrite IH; reflexivity.
Qed.

Lemma result_agrees_agree c : result_agrees (model_result c) c = agree c.
Proof. unfold result_agrees, agree. destruct (model_result c); reflexivity. Qed.

Lemma all2_map_self {A B} (f : B -> A -> bool) (g : A -> B) l :
  all2 f (map g l) l = forallb (fun x => f (g x) x) l.
Proof. induction l as [|x r IH]; simpl; [reflexivity|]. now rewrite IH. Qed.

(** The history correspondence is the single-run correspondence of every run. *)
Theorem hagree_each_fresh h : hagree h = same_instance h && forallb agree (h_runs h).
Proof.
  unfold hagree. rewrite history_results_fresh, all2_map_self. f_equal.
Qed.

Theorem hok_each h : hok h = true -> Forall (fun c => ok c = true /\ c_b c = h_b h) (h_runs h).
Proof.
  unfold hok, same_instance. intros H. apply andb_true_iff in H. destruct H as [Hb Ho].
  rewrite forallb_forall in Hb, Ho. apply Forall_forall. intros c Hc. split; [now apply Ho|].
  apply Nat.eqb_eq. now apply Hb.
Qed.

(** ---- a finished sequential run is a fold over the batches it consumed ---- *)
Notation rseq_run := (seq_run rstate (list draw) unit r_objective r_nbatches (fun _ _ => tt)).

Lemma seq_run_consume table : forall fuel s i s' k,
  rseq_run (batch_of table) rupdate fuel s i = Some (s', k) ->
  i <= k /\ s' = consume s (map (fun j => nth j table []) (seq i (k - i))).
Proof.
  induction fuel as [|f IH]; intros s i s' k H; cbn [seq_run] in H.
  - destruct (r_objective s <=? r_nbatches s); [|discriminate].
    inversion H; subst. rewrite Nat.sub_diag. simpl. auto.
  - destruct (r_objective s <=? r_nbatches s).
    + inversion H; subst. rewrite Nat.sub_diag. simpl. auto.
    + apply IH in H. destruct H as [Hle Hs]. split; [lia|].
      replace (k - i) with (S (k - S i)) by lia. simpl. exact Hs.
Qed.

Lemma skipn_cons_S {A} : forall i (l : list A) b r, skipn i l = b :: r -> skipn (S i) l = r.
Proof.
  induction i as [|i IH]; intros l b r H.
  - simpl in H. subst l. reflexivity.
  - destruct l as [|x l']; [discriminate|]. simpl in H. apply IH in H. exact H.
Qed.

Lemma concat_nth_firstn (table : list (list draw)) : forall k i,
  concat (map (fun j => nth j table []) (seq i k)) = concat (firstn k (skipn i table)).
Proof.
  induction k as [|k IH]; intros i; simpl; [reflexivity|].
  rewrite IH. destruct (skipn i table) as [|b r] eqn:E.
  - assert (Hlen : length table <= i).
    { destruct (Nat.le_gt_cases (length table) i) as [H|H]; [exact H|].
      assert (Hl := skipn_length i table). rewrite E in Hl. simpl in Hl. lia. }
    rewrite nth_overflow by exact Hlen.
    replace (skipn (S i) table) with (@nil (list draw)); [now rewrite firstn_nil|].
    symmetry. apply skipn_all2. lia.
  - assert (Hn : nth i table [] = b).
    { rewrite <- (firstn_skipn i table) at 1. rewrite E.
      assert (Hi : i <= length table).
      { destruct (Nat.le_gt_cases i (length table)) as [H|H]; [exact H|].
        rewrite skipn_all2 in E by lia. discriminate. }
      rewrite app_nth2; rewrite firstn_length, Nat.min_l by exact Hi; [|lia].
      now rewrite Nat.sub_diag. }
    assert (Hs : skipn (S i) table = r).
    { now apply (skipn_cons_S i table b r). }
    rewrite Hn, Hs. reflexivity.
Qed.

Lemma forall_nth_batches (P : list draw -> Prop) table l :
  P [] -> Forall P table -> Forall P (map (fun j => nth j table []) l).
Proof.
  intros Hnil Hall. apply Forall_forall. intros x Hx. apply in_map_iff in Hx.
  destruct Hx as [j [<- _]]. destruct (Nat.lt_ge_cases j (length table)) as [H|H].
  - rewrite Forall_forall in Hall. apply Hall. now apply nth_In.
  - now rewrite nth_overflow.
Qed.

(** after at least one batch the lazily initialised buffer exists *)
Lemma step_buf_eq s acc batch i :
  RInv (r_n s) (r_b s) (bufof s) acc -> length batch <= r_b s ->
  let s1 := fst (rupdate s batch i) in
  r_buf s1 = bufof s1 /\ RInv (r_n s1) (r_b s1) (bufof s1) (acc ++ filter (accepts (r_thr s)) batch).
Proof.
  intros HI Hb s1.
  destruct (rupdate_consts s batch i) as [C1 [C2 [C3 C4]]]. fold s1 in C1, C2, C3, C4.
  assert (Hm := merge_step (r_n s) (r_b s) (bufof s) acc (filter (accepts (r_thr s)) batch) HI).
  assert (Hk : length (filter (accepts (r_thr s)) batch) <= r_b s)
    by (etransitivity; [apply filter_len_le | exact Hb]).
  specialize (Hm Hk). rewrite <- (rupdate_buf s batch i) in Hm. fold s1 in Hm.
  assert (E : bufof s1 = r_buf s1) by (apply bufof_nonempty; rewrite C1, C2; apply (ri_len _ _ _ _ Hm)).
  split; [now symmetry|]. rewrite C1, C2, E. exact Hm.
Qed.

Lemma consume_buf_eq : forall bs s acc,
  RInv (r_n s) (r_b s) (bufof s) acc ->
  Forall (fun batch => length batch <= r_b s) bs ->
  bs <> [] \/ r_buf s = bufof s ->
  r_buf (consume s bs) = bufof (consume s bs).
Proof.
  induction bs as [|batch r IH]; intros s acc HI Hall Hor.
  - destruct Hor as [H|H]; [congruence | exact H].
  - inversion Hall as [|? ? Hb Hr]; subst.
    destruct (step_buf_eq s acc batch 0 HI Hb) as [E HI1].
    destruct (rupdate_consts s batch 0) as [C1 [C2 [C3 C4]]].
    change (consume s (batch :: r)) with (consume (fst (rupdate s batch 0)) r).
    eapply IH; [exact HI1 | rewrite C2; exact Hr | right; exact E].
Qed.

Lemma rset_objective_init prev n b f :
  let s0 := rset_objective prev n b f in
  r_n s0 = n /\ r_b s0 = b /\ r_buf s0 = [] /\ r_nbatches s0 = 0 /\ r_thr s0 = snd (initial_objective n b f).
Proof. unfold rset_objective. destruct (initial_objective n b f) as [obj thr]. simpl. auto. Qed.

(** what "returns the best consumed draws" means for one result *)
Definition returns_best (n : nat) (thr : option edisc) (consumed : list draw) (rows : list slot) : Prop :=
  let acc := filter (accepts thr) consumed in
  ascending rows = true
  /\ (exists rest, Permutation (filled rows ++ rest) acc
                   /\ forall x y, In x rest -> In y rows -> dle (sdisc y) (d_disc x) = true)
  /\ (n <= length acc -> length rows = n /\ forall s, In s rows -> s <> None)
  /\ (forall t d, thr = Some t -> In (Some d) rows -> dle (d_disc d) t = true).

(** Every finished run on an instance in ANY prior state (fresh, or left behind by any earlier runs):
    the rows it returns are the best accepted draws among exactly the batches this run consumed
    (the first n_batches batches of its own record), n_sim = batch_size * n_batches. *)
Theorem run_on_returns_best prev c s :
  Forall (fun batch => length batch <= c_b c) (c_table c) ->
  run_on prev c = Some s -> 0 < r_nbatches s ->
  let res := extract s in
  returns_best (c_n c) (snd (initial_objective (c_n c) (c_b c) (c_form c)))
               (concat (firstn (res_n_batches res) (c_table c))) (res_rows res)
  /\ res_n_sim res = res_n_batches res * c_b c.
Proof.
  intros Hall Hrun Hpos.
  unfold run_on, rseq in Hrun.
  destruct (seq_run _ _ _ _ _ _ _ _ _ _ _) as [[s' k]|] eqn:Eseq; [|discriminate].
  inversion Hrun; subst s'. clear Hrun.
  apply seq_run_consume in Eseq. destruct Eseq as [_ Hs]. rewrite Nat.sub_0_r in Hs.
  set (s0 := rset_objective prev (c_n c) (c_b c) (c_form c)) in *.
  destruct (rset_objective_init prev (c_n c) (c_b c) (c_form c)) as [I1 [I2 [I3 [I4 I5]]]]. fold s0 in I1, I2, I3, I4, I5.
  set (bs := map (fun j => nth j (c_table c) []) (seq 0 k)) in *.
  assert (HI0 : RInv (r_n s0) (r_b s0) (bufof s0) []).
  { unfold bufof. rewrite I3, I1, I2. apply RInv_init. }
  assert (Hbs : Forall (fun batch => length batch <= r_b s0) bs).
  { rewrite I2. apply forall_nth_batches; [simpl; lia | exact Hall]. }
  destruct (consume_invariant bs s0 [] HI0 Hbs) as [HI [C1 [C2 [C3 C4]]]]. rewrite <- Hs in HI, C1, C2, C3, C4.
  simpl app in HI. rewrite I4 in C4. simpl in C4. unfold bs in C4. rewrite map_length, seq_length in C4.
  assert (Hne : bs <> []).
  { unfold bs. destruct k; [lia|]. simpl. discriminate. }
  assert (Hbuf : r_buf s = bufof s).
  { rewrite Hs. eapply consume_buf_eq; [exact HI0 | exact Hbs | left; exact Hne]. }
  assert (Hcons : concat bs = concat (firstn (r_nbatches s) (c_table c))).
  { unfold bs. rewrite concat_nth_firstn. simpl skipn. now rewrite C4. }
  rewrite I1, I2, I5, Hcons in HI. rewrite I1 in C1. rewrite I2 in C2.
  cbn zeta. unfold extract. simpl. rewrite Hbuf, C1, C2. split; [|reflexivity].
  destruct (extract_topn _ _ _ _ HI) as [A [B C]].
  unfold returns_best. split; [exact A|]. split; [exact B|]. split.
  - intros Hn. split; [|now apply C].
    rewrite firstn_length, (ri_len _ _ _ _ HI). lia.
  - intros t d Ht Hd. eapply returned_within_threshold; [exact HI | rewrite Ht; reflexivity | exact Hd].
Qed.

(** ... hence every run of every history, whatever came before it. *)
Theorem history_every_run_best : forall h prev,
  Forall (fun c => Forall (fun batch => length batch <= c_b c) (c_table c)) h ->
  Forall2 (fun c r => forall res, r = Some res -> 0 < res_n_batches res ->
             returns_best (c_n c) (snd (initial_objective (c_n c) (c_b c) (c_form c)))
                          (concat (firstn (res_n_batches res) (c_table c))) (res_rows res)
             /\ res_n_sim res = res_n_batches res * c_b c)
          h (history_results prev h).
Proof.
  induction h as [|c r IH]; intros prev Hall; simpl; [constructor|].
  inversion Hall as [|? ? Hc Hr]; subst.
  destruct (run_on prev c) as [s|] eqn:E.
  - constructor; [|apply IH; exact Hr].
    intros res Hres Hpos. inversion Hres; subst res.
    apply (run_on_returns_best prev c s Hc E). exact Hpos.
  - constructor; [|apply IH; exact Hr]. intros res Hres. discriminate.
Qed.
