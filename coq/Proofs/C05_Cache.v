(** The executor cache is transparent along every inference run over a pool: the "coherent"
    hypothesis of C02's history theorem is derived here from the loader model, so that a run over
    a pool returns, batch by batch, what fresh computation contexts return (C02 + C05). *)
From Coq Require Import List String ZArith Arith Bool Lia Permutation.
From Elfi Require Import Base.StrOrder Graph.Net Store.Pool Proofs.C03_Exec Proofs.C03_Compile Proofs.C02_Order Proofs.C05_Pool.
Import ListNotations.

Definition with_outputs (g : cnet) (outs : list name) : cnet :=
  {| c_nodes := c_nodes g; c_edges := c_edges g; c_outputs := outs; c_observed := c_observed g |}.

(** ---- association-list facts ---- *)
Lemma lookup_In_pair {A} k (x : A) l : lookup k l = Some x -> In (k, x) l.
Proof.
  induction l as [|[m a] r IH]; simpl; [discriminate|].
  destruct (String.eqb k m) eqn:E.
  - apply String.eqb_eq in E. subst. intros H. inversion H. now left.
  - intros H. right. now apply IH.
Qed.

Lemma lookup_key_In {A} k (x : A) l : lookup k l = Some x -> In k (map fst l).
Proof. intros H. apply lookup_In_pair in H. apply in_map_iff. exists (k, x). auto. Qed.

Lemma names_set_present {A} n (a : A) l : has n l = true -> map fst (set n a l) = map fst l.
Proof.
  unfold has. induction l as [|[m b] r IH]; simpl; [discriminate|].
  destruct (String.eqb n m) eqn:E; simpl; [reflexivity|]. intros H. now rewrite IH.
Qed.

Lemma names_set_output n v b g : map fst (c_nodes (set_output n v b g)) = map fst (c_nodes g).
Proof.
  unfold set_output. destruct (lookup n (c_nodes g)) eqn:E; [|reflexivity]. simpl.
  apply names_set_present. unfold has. now rewrite E.
Qed.

(** ---- what load_pool does to one node, and to the outputs ---- *)
Definition pool_step (g1 : cnet) (nv : name * option value) : cnet :=
  if has (fst nv) (c_nodes g1) then
    match snd nv with
    | Some v => set_output (fst nv) v true g1
    | None => if mem (fst nv) (c_outputs g1) then g1 else
              {| c_nodes := c_nodes g1; c_edges := c_edges g1;
                 c_outputs := c_outputs g1 ++ [fst nv]; c_observed := c_observed g1 |}
    end
  else g1.

Lemma load_pool_cons nv r g : load_pool (nv :: r) g = load_pool r (pool_step g nv).
Proof. reflexivity. Qed.

Lemma pool_step_edges g nv : c_edges (pool_step g nv) = c_edges g.
Proof.
  unfold pool_step. destruct (has (fst nv) (c_nodes g)); [|reflexivity].
  destruct (snd nv) as [v|].
  - unfold set_output. destruct (lookup (fst nv) (c_nodes g)); reflexivity.
  - destruct (mem (fst nv) (c_outputs g)); reflexivity.
Qed.

Lemma pool_step_names g nv : map fst (c_nodes (pool_step g nv)) = map fst (c_nodes g).
Proof.
  unfold pool_step. destruct (has (fst nv) (c_nodes g)); [|reflexivity].
  destruct (snd nv) as [v|]; [apply names_set_output|]. destruct (mem (fst nv) (c_outputs g)); reflexivity.
Qed.

Lemma pool_step_has g nv m : has m (c_nodes (pool_step g nv)) = has m (c_nodes g).
Proof.
  unfold pool_step. destruct (has (fst nv) (c_nodes g)); [|reflexivity].
  destruct (snd nv) as [v|]; [apply has_set_output|]. destruct (mem (fst nv) (c_outputs g)); reflexivity.
Qed.

Lemma pool_step_other g nv m : m <> fst nv -> lookup m (c_nodes (pool_step g nv)) = lookup m (c_nodes g).
Proof.
  intros Hne. unfold pool_step. destruct (has (fst nv) (c_nodes g)); [|reflexivity].
  destruct (snd nv) as [v|].
  - apply set_output_other. congruence.
  - destruct (mem (fst nv) (c_outputs g)); reflexivity.
Qed.

Lemma pool_step_none g n m : lookup m (c_nodes (pool_step g (n, None))) = lookup m (c_nodes g).
Proof.
  unfold pool_step. simpl. destruct (has n (c_nodes g)); [|reflexivity].
  destruct (mem n (c_outputs g)); reflexivity.
Qed.

(** node states after loading a pool batch with distinct keys *)
Lemma load_pool_lookup : forall pool g m,
  NoDup (map fst pool) ->
  lookup m (c_nodes (load_pool pool g)) =
  match lookup m pool with
  | Some (Some v) => match lookup m (c_nodes g) with
                     | Some _ => Some {| c_out := Some v; c_op := None |}
                     | None => None
                     end
  | _ => lookup m (c_nodes g)
  end.
Proof.
  induction pool as [|[k ov] r IH]; intros g m Hnd; [reflexivity|].
  inversion Hnd as [|? ? Hk Hr]; subst. rewrite load_pool_cons.
  rewrite (IH _ m Hr). cbn [lookup].
  destruct (String.eqb m k) eqn:E.
  - apply String.eqb_eq in E. subst m.
    assert (Hnone : lookup k r = None).
    { destruct (lookup k r) eqn:El; [|reflexivity]. exfalso. apply Hk. eapply lookup_key_In. exact El. }
    rewrite Hnone.
    destruct ov as [v|].
    + unfold pool_step. cbn [fst snd]. unfold has. destruct (lookup k (c_nodes g)) as [c|] eqn:Ec; [|now rewrite Ec].
      unfold set_output. rewrite Ec. apply lookup_add_node_same.
    + apply pool_step_none.
  - apply String.eqb_neq in E. rewrite (pool_step_other g (k, ov) m E). reflexivity.
Qed.

Lemma load_pool_edges : forall pool g, c_edges (load_pool pool g) = c_edges g.
Proof.
  induction pool as [|nv r IH]; intros g; [reflexivity|].
  rewrite load_pool_cons, IH. apply pool_step_edges.
Qed.

Lemma load_pool_names : forall pool g, map fst (c_nodes (load_pool pool g)) = map fst (c_nodes g).
Proof.
  induction pool as [|nv r IH]; intros g; [reflexivity|].
  rewrite load_pool_cons, IH. apply pool_step_names.
Qed.

(** the outputs after loading: the given ones plus the stored nodes the pool lacks *)
Lemma load_pool_outputs_incl : forall pool g x,
  In x (c_outputs g) -> In x (c_outputs (load_pool pool g)).
Proof.
  induction pool as [|nv r IH]; intros g x Hx; [exact Hx|].
  rewrite load_pool_cons. apply IH.
  unfold pool_step. destruct (has (fst nv) (c_nodes g)); [|exact Hx].
  destruct (snd nv) as [v|].
  - unfold set_output. destruct (lookup (fst nv) (c_nodes g)); exact Hx.
  - destruct (mem (fst nv) (c_outputs g)); [exact Hx|]. simpl. apply in_app_iff. now left.
Qed.

Lemma load_pool_missing_is_output : forall pool g n,
  In (n, None) pool -> has n (c_nodes g) = true -> In n (c_outputs (load_pool pool g)).
Proof.
  induction pool as [|nv r IH]; intros g n Hin Hhas; [destruct Hin|].
  rewrite load_pool_cons.
  destruct Hin as [->|Hin].
  - apply load_pool_outputs_incl. unfold pool_step. cbn [fst snd]. rewrite Hhas.
    destruct (mem n (c_outputs g)) eqn:Em; [now apply mem_In|]. simpl. apply in_app_iff. right. now left.
  - apply IH; [exact Hin|]. now rewrite pool_step_has.
Qed.

Lemma load_pool_outputs_only : forall pool g x,
  In x (c_outputs (load_pool pool g)) -> In x (c_outputs g) \/ In (x, None) pool.
Proof.
  induction pool as [|[k ov] r IH]; intros g x Hx; [now left|].
  rewrite load_pool_cons in Hx.
  apply IH in Hx. destruct Hx as [Hx|Hx]; [|right; now right].
  unfold pool_step in Hx. cbn [fst snd] in Hx. destruct (has k (c_nodes g)); [|now left].
  destruct ov as [v|].
  - left. unfold set_output in Hx. destruct (lookup k (c_nodes g)); exact Hx.
  - destruct (mem k (c_outputs g)); [now left|]. simpl in Hx. apply in_app_iff in Hx.
    destruct Hx as [Hx|[<-|[]]]; [now left | right; now left].
Qed.

(** ---- the net before the PoolLoader does not depend on the outputs set ---- *)
Definition base (g0 : cnet) (outs : list name) : cnet := load_runtime (load_observed (with_outputs g0 outs)).

Lemma set_output_shape n v b g g' :
  c_nodes g = c_nodes g' -> c_edges g = c_edges g' ->
  c_nodes (set_output n v b g) = c_nodes (set_output n v b g')
  /\ c_edges (set_output n v b g) = c_edges (set_output n v b g')
  /\ c_outputs (set_output n v b g) = c_outputs g.
Proof.
  intros Hn He. unfold set_output. rewrite Hn.
  destruct (lookup n (c_nodes g')); simpl; rewrite ?Hn; auto.
Qed.

Lemma fold_set_output_shape (f : name -> name) : forall (l : list (name * value)) g g',
  c_nodes g = c_nodes g' -> c_edges g = c_edges g' ->
  let F := fun (g1 : cnet) (nv : name * value) => set_output (f (fst nv)) (snd nv) true g1 in
  c_nodes (fold_left F l g) = c_nodes (fold_left F l g')
  /\ c_edges (fold_left F l g) = c_edges (fold_left F l g')
  /\ c_outputs (fold_left F l g) = c_outputs g.
Proof.
  induction l as [|nv r IH]; intros g g' Hn He; simpl; [auto|].
  destruct (set_output_shape (f (fst nv)) (snd nv) true g g' Hn He) as [A [B C]].
  destruct (IH _ _ A B) as [D [E F]]. repeat split; auto. simpl in F. now rewrite F.
Qed.

Lemma base_shape g0 outs outs' :
  c_nodes (base g0 outs) = c_nodes (base g0 outs') /\ c_edges (base g0 outs) = c_edges (base g0 outs')
  /\ c_outputs (base g0 outs) = outs.
Proof.
  unfold base, load_runtime, load_observed.
  change (c_observed (with_outputs g0 outs)) with (c_observed g0).
  change (c_observed (with_outputs g0 outs')) with (c_observed g0).
  destruct (fold_set_output_shape observed_name (c_observed g0) (with_outputs g0 outs) (with_outputs g0 outs') eq_refl eq_refl)
    as [A [B C]]. cbv zeta in A, B, C.
  destruct (set_output_shape "_batch_size"%string VBatch false _ _ A B) as [N1 [E1 O1]].
  destruct (set_output_shape "_meta"%string VMeta false _ _ N1 E1) as [N2 [E2 O2]].
  destruct (set_output_shape "_random_state"%string VRng false _ _ N2 E2) as [N3 [E3 O3]].
  repeat split; auto. rewrite O3, O2, O1. exact C.
Qed.

Definition loaded (g0 : cnet) (outs : list name) (p : list (name * option value)) : cnet :=
  load p (with_outputs g0 outs).

Lemma loaded_eq g0 outs p : loaded g0 outs p = load_pool p (base g0 outs).
Proof. reflexivity. Qed.

(** no node of the net handed to the PoolLoader carries both an operation and an output (what
    Executor.get_execution_order demands of every node it visits) *)
Definition wf_base (g0 : cnet) : Prop :=
  forall k c o, lookup k (c_nodes (base g0 [])) = Some c -> c_op c = Some o -> c_out c = None.

Lemma in_needed_iff g x : In x (needed_of g) <-> In x (c_outputs g) /\ has_op g x = true.
Proof.
  unfold needed_of. rewrite <- filter_In.
  set (l := filter (has_op g) (c_outputs g)).
  split.
  - intros H. apply (Permutation_in _ (sort_names_perm _)) in H. now apply dedup_names_In in H.
  - intros H. apply (Permutation_in _ (Permutation_sym (sort_names_perm _))).
    clearbody l. induction l as [|y r IH]; [destruct H|]. simpl. destruct (mem y r) eqn:Em.
    + destruct H as [->|H]; [apply IH; now apply mem_In | now apply IH].
    + destruct H as [->|H]; [now left | right; now apply IH].
Qed.

(** ---- any two loaded nets of one handler are coherent: also when the pool's stores differ ---- *)
Theorem loaded_coherent g0 outs outs' p p' :
  wf_base g0 -> NoDup (map fst p) -> NoDup (map fst p') ->
  coherent (loaded g0 outs p) (loaded g0 outs' p').
Proof.
  intros Hwf Hnd Hnd'. rewrite !loaded_eq.
  destruct (base_shape g0 outs outs') as [Bn [Be _]].
  destruct (base_shape g0 outs []) as [Bn0 _].
  assert (Hnames : map fst (c_nodes (load_pool p (base g0 outs))) = map fst (c_nodes (load_pool p' (base g0 outs')))).
  { rewrite !load_pool_names. now rewrite Bn. }
  split; [|split].
  - rewrite !load_pool_edges. exact Be.
  - exact Hnames.
  - intros Hkey n.
    assert (Hloaded : loaded_names (load_pool p (base g0 outs)) = loaded_names (load_pool p' (base g0 outs')))
      by (unfold key_of in Hkey; inversion Hkey; auto).
    pose proof (loaded_names_has_out _ _ Hnames Hloaded n) as Hout.
    unfold has_out, has_op in *.
    rewrite (load_pool_lookup p _ n Hnd), (load_pool_lookup p' _ n Hnd'), <- Bn in *.
    destruct (lookup n (c_nodes (base g0 outs))) as [c|] eqn:Ec.
    2:{ destruct (lookup n p) as [[v|]|]; destruct (lookup n p') as [[v'|]|]; auto. }
    destruct (c_op c) as [o|] eqn:Eo.
    + assert (Hnone : c_out c = None) by (apply (Hwf n c o); [now rewrite <- Bn0 | exact Eo]).
      destruct (lookup n p) as [[v|]|]; destruct (lookup n p') as [[v'|]|]; simpl in *;
        rewrite ?Eo, ?Hnone in *; try reflexivity; try discriminate.
    + destruct (lookup n p) as [[v|]|]; destruct (lookup n p') as [[v'|]|]; simpl; rewrite ?Eo; reflexivity.
Qed.

(** ---- an inference run over a pool ---- *)
Definition CacheAll (g0 : cnet) (c : ecache) : Prop :=
  forall outs p, NoDup (map fst p) -> CacheConsistent (loaded g0 outs p) c.

Lemma CacheAll_empty g0 : CacheAll g0 empty_cache.
Proof. intros outs p _. apply CacheConsistent_empty. Qed.

Lemma CacheAll_step g0 c outs p out log c' :
  wf_base g0 -> NoDup (map fst p) -> CacheAll g0 c ->
  execute (loaded g0 outs p) c = Ok (out, log, c') -> CacheAll g0 c'.
Proof.
  intros Hwf Hp Hall Hex outs1 p1 Hp1.
  destruct (execute_cache_after _ _ _ _ _ Hex) as [o Ho].
  eapply consistent_after; [| apply (Hall outs p Hp) | apply (Hall outs1 p1 Hp1) | exact Ho].
  now apply loaded_coherent.
Qed.

Lemma get_batch_keys pl i : map fst (get_batch pl i) = map fst (stores pl).
Proof. unfold get_batch. rewrite map_map. reflexivity. Qed.

Lemma add_batch_keys pl out i : map fst (stores (add_batch pl out i)) = map fst (stores pl).
Proof.
  unfold add_batch. simpl. rewrite map_map. apply map_ext. intros [m s]. simpl.
  destruct (lookup m out); reflexivity.
Qed.

(** the same run with a fresh executor cache for every batch *)
Definition uncache (s : run_state) : run_state :=
  {| rs_net := rs_net s; rs_pool := rs_pool s; rs_cache := empty_cache |}.

Fixpoint run_batches_fresh (s : run_state) (idxs : list nat)
  : res (run_state * list (list (name * value) * list name)) :=
  match idxs with
  | [] => Ok (s, [])
  | i :: r =>
      do x <- step_batch (uncache s) i;
      let '(s1, out, log) := x in
      do y <- run_batches_fresh s1 r;
      let '(s2, rest) := y in
      Ok (s2, (out, log) :: rest)
  end.

(** what a run leaves behind, apart from the executor cache *)
Definition visible (r : res (run_state * list (list (name * value) * list name)))
  : res (cnet * pool * list (list (name * value) * list name)) :=
  match r with
  | Ok (s, obs) => Ok (rs_net s, rs_pool s, obs)
  | Err e => Err e
  end.

Lemma run_batches_fresh_ext : forall idxs s s',
  rs_net s = rs_net s' -> rs_pool s = rs_pool s' ->
  visible (run_batches_fresh s idxs) = visible (run_batches_fresh s' idxs).
Proof.
  destruct idxs as [|i r]; intros s s' Hn Hp; simpl; [now rewrite Hn, Hp|].
  assert (Hu : uncache s = uncache s') by (unfold uncache; now rewrite Hn, Hp).
  now rewrite Hu.
Qed.

(** the invariant a run maintains: the handler's net is the compiled net up to its (growing)
    output set, the pool's stores have distinct names, the cache is consistent with every net the
    handler can load *)
Definition RunInv (g0 : cnet) (s : run_state) : Prop :=
  (exists outs, rs_net s = with_outputs g0 outs) /\ NoDup (map fst (stores (rs_pool s))) /\ CacheAll g0 (rs_cache s).

Lemma step_batch_inv g0 s i s' out log :
  wf_base g0 -> RunInv g0 s -> step_batch s i = Ok (s', out, log) -> RunInv g0 s'.
Proof.
  intros Hwf [[outs Hnet] [Hnd Hall]] H. unfold step_batch in H. rewrite Hnet in H.
  change (load (get_batch (rs_pool s) i) (with_outputs g0 outs)) with (loaded g0 outs (get_batch (rs_pool s) i)) in H.
  destruct (execute (loaded g0 outs (get_batch (rs_pool s) i)) (rs_cache s)) as [[[o l] c1]|] eqn:E; simpl in H; [|discriminate].
  inversion H; subst. clear H. split; [|split]; cbn [rs_net rs_pool rs_cache].
  - eexists. reflexivity.
  - now rewrite add_batch_keys.
  - eapply CacheAll_step; [exact Hwf | | exact Hall | exact E]. now rewrite get_batch_keys.
Qed.

Lemma run_batches_inv g0 : forall idxs s s' obs,
  wf_base g0 -> RunInv g0 s -> run_batches s idxs = Ok (s', obs) -> RunInv g0 s'.
Proof.
  induction idxs as [|i r IH]; intros s s' obs Hwf Hinv H; simpl in H; [inversion H; now subst|].
  destruct (step_batch s i) as [[[s1 o] l]|] eqn:E; simpl in H; [|discriminate].
  destruct (run_batches s1 r) as [[s2 rest]|] eqn:E2; simpl in H; [|discriminate].
  inversion H; subst. eapply IH; [exact Hwf | eapply step_batch_inv; eauto | exact E2].
Qed.

(** Along a whole inference run over a pool (any batch indices, the pool filling up and the shared
    output set growing on the way), every batch returns the outputs and the call log that a fresh
    executor cache gives, and the pool ends up the same. *)
Theorem pool_run_cache_transparent g0 : forall idxs s,
  wf_base g0 -> RunInv g0 s ->
  visible (run_batches s idxs) = visible (run_batches_fresh s idxs).
Proof.
  induction idxs as [|i r IH]; intros s Hwf Hinv; [reflexivity|].
  pose proof Hinv as [[outs Hnet] [Hnd Hall]].
  cbn [run_batches run_batches_fresh].
  destruct (step_batch s i) as [[[s1 o1] l1]|e1] eqn:E1.
  - pose proof (step_batch_inv g0 s i s1 o1 l1 Hwf Hinv E1) as Hinv1.
    unfold step_batch in *. cbn [uncache rs_net rs_pool rs_cache]. rewrite Hnet in *.
    change (load (get_batch (rs_pool s) i) (with_outputs g0 outs)) with (loaded g0 outs (get_batch (rs_pool s) i)) in *.
    set (lg := loaded g0 outs (get_batch (rs_pool s) i)) in *.
    assert (Hk : NoDup (map fst (get_batch (rs_pool s) i))) by now rewrite get_batch_keys.
    pose proof (execute_cache_transparent lg (rs_cache s) (Hall outs _ Hk)) as Ht.
    destruct (execute lg (rs_cache s)) as [[[out log] c1]|] eqn:Ee; simpl in E1; [|discriminate].
    destruct (execute lg empty_cache) as [[[out2 log2] c2]|e2]; simpl in Ht; [|discriminate].
    inversion Ht; subst out2 log2. inversion E1; subst s1 o1 l1. clear E1. simpl.
    set (s1 := {| rs_net := _; rs_pool := _; rs_cache := c1 |}) in *.
    set (s1' := {| rs_net := _; rs_pool := _; rs_cache := c2 |}).
    assert (Hv : visible (run_batches s1 r) = visible (run_batches_fresh s1' r)).
    { rewrite (run_batches_fresh_ext r s1' s1 eq_refl eq_refl). now apply IH. }
    destruct (run_batches s1 r) as [[s2 rest]|e]; destruct (run_batches_fresh s1' r) as [[s2' rest']|e'];
      simpl in Hv; try discriminate; simpl.
    + inversion Hv; subst. reflexivity.
    + inversion Hv; subst. reflexivity.
  - unfold step_batch in *. cbn [uncache rs_net rs_pool rs_cache]. rewrite Hnet in *.
    change (load (get_batch (rs_pool s) i) (with_outputs g0 outs)) with (loaded g0 outs (get_batch (rs_pool s) i)) in *.
    set (lg := loaded g0 outs (get_batch (rs_pool s) i)) in *.
    assert (Hk : NoDup (map fst (get_batch (rs_pool s) i))) by now rewrite get_batch_keys.
    pose proof (execute_cache_transparent lg (rs_cache s) (Hall outs _ Hk)) as Ht.
    destruct (execute lg (rs_cache s)) as [[[out log] c1]|] eqn:Ee; simpl in E1; [discriminate|].
    destruct (execute lg empty_cache) as [[[out2 log2] c2]|e2]; simpl in Ht; [discriminate|].
    simpl. inversion Ht; subst. inversion E1; subst. reflexivity.
Qed.

Lemma RunInv_start g pl : NoDup (map fst (stores pl)) ->
  RunInv g {| rs_net := g; rs_pool := pl; rs_cache := empty_cache |}.
Proof.
  intros Hnd. split; [|split]; cbn [rs_net rs_pool rs_cache].
  - exists (c_outputs g). destruct g; reflexivity.
  - exact Hnd.
  - apply CacheAll_empty.
Qed.

(** in particular from the state a new BatchHandler starts in *)
Corollary pool_run_from_start g pl idxs :
  wf_base g -> NoDup (map fst (stores pl)) ->
  visible (run_batches {| rs_net := g; rs_pool := pl; rs_cache := empty_cache |} idxs)
  = visible (run_batches_fresh {| rs_net := g; rs_pool := pl; rs_cache := empty_cache |} idxs).
Proof. intros Hwf Hnd. apply (pool_run_cache_transparent g idxs _ Hwf). now apply RunInv_start. Qed.

(** ... and for a later run of the SAME handler (same ComputationContext, hence the same executor
    cache) after the pool was changed in any way that keeps store names distinct - stores removed,
    added, cleared, another pool altogether *)
Corollary pool_rerun_after_pool_change g pl idxs1 s1 obs1 pl' idxs2 :
  wf_base g -> NoDup (map fst (stores pl)) -> NoDup (map fst (stores pl')) ->
  run_batches {| rs_net := g; rs_pool := pl; rs_cache := empty_cache |} idxs1 = Ok (s1, obs1) ->
  visible (run_batches {| rs_net := rs_net s1; rs_pool := pl'; rs_cache := rs_cache s1 |} idxs2)
  = visible (run_batches_fresh {| rs_net := rs_net s1; rs_pool := pl'; rs_cache := rs_cache s1 |} idxs2).
Proof.
  intros Hwf Hnd Hnd' H1.
  destruct (run_batches_inv g idxs1 _ s1 obs1 Hwf (RunInv_start g pl Hnd) H1) as [Hnet [_ Hall]].
  apply (pool_run_cache_transparent g idxs2 _ Hwf). split; [|split]; cbn [rs_net rs_pool rs_cache]; assumption.
Qed.

(** wf_base holds whenever no node of the compiled net has both an operation and an output and the
    runtime nodes have no operation *)
Definition excl (g : cnet) : Prop := forall k c o, lookup k (c_nodes g) = Some c -> c_op c = Some o -> c_out c = None.

Lemma set_output_excl n v b g :
  excl g -> (b = true \/ forall c, lookup n (c_nodes g) = Some c -> c_op c = None) -> excl (set_output n v b g).
Proof.
  intros H Hb k c o Hl Ho. unfold set_output in Hl. destruct (lookup n (c_nodes g)) as [c0|] eqn:E; [|eauto].
  destruct (string_dec n k) as [->|Hne].
  - rewrite lookup_add_node_same in Hl. inversion Hl; subst. simpl in Ho. exfalso.
    destruct Hb as [->|Hb]; [simpl in Ho; discriminate|]. rewrite (Hb c0 eq_refl) in Ho. destruct b; discriminate.
  - rewrite lookup_add_node_other in Hl by exact Hne. eauto.
Qed.

Lemma set_output_noop n v g i :
  (forall c, lookup i (c_nodes g) = Some c -> c_op c = None) ->
  forall c, lookup i (c_nodes (set_output n v true g)) = Some c -> c_op c = None.
Proof.
  intros H c Hl. unfold set_output in Hl. destruct (lookup n (c_nodes g)) as [c0|] eqn:E; [|eauto].
  destruct (string_dec n i) as [->|Hne].
  - rewrite lookup_add_node_same in Hl. inversion Hl; subst. reflexivity.
  - rewrite lookup_add_node_other in Hl by exact Hne. eauto.
Qed.

Theorem wf_base_of_nodes g0 :
  excl g0 ->
  (forall i c, In i ["_batch_size"; "_meta"; "_random_state"]%string -> lookup i (c_nodes g0) = Some c -> c_op c = None) ->
  wf_base g0.
Proof.
  intros H Hi. unfold wf_base. fold (excl (base g0 [])). unfold base, load_observed.
  change (c_observed (with_outputs g0 [])) with (c_observed g0).
  assert (G : forall l g, excl g ->
              (forall i c, In i ["_batch_size"; "_meta"; "_random_state"]%string -> lookup i (c_nodes g) = Some c -> c_op c = None) ->
              let g' := fold_left (fun g1 (nv : name * value) => set_output (observed_name (fst nv)) (snd nv) true g1) l g in
              excl g' /\ (forall i c, In i ["_batch_size"; "_meta"; "_random_state"]%string -> lookup i (c_nodes g') = Some c -> c_op c = None)).
  { induction l as [|nv r IHl]; intros g Hg Hgi; simpl; [auto|]. apply IHl.
    - apply set_output_excl; [exact Hg | now left].
    - intros i c Hin. apply set_output_noop. intros c0. now apply Hgi. }
  destruct (G (c_observed g0) (with_outputs g0 []) H Hi) as [He Hn]. cbv zeta in He, Hn.
  set (g1 := fold_left _ (c_observed g0) (with_outputs g0 [])) in *.
  unfold load_runtime.
  assert (Hother : forall n v g i, n <> i -> (forall c, lookup i (c_nodes g) = Some c -> c_op c = None) ->
                   forall c, lookup i (c_nodes (set_output n v false g)) = Some c -> c_op c = None).
  { intros n v g i Hne Hg c Hl. rewrite set_output_other in Hl by exact Hne. eauto. }
  apply set_output_excl; [apply set_output_excl; [apply set_output_excl; [exact He|] |] |]; right.
  - intros c. apply Hn. simpl. tauto.
  - apply Hother; [discriminate|]. intros c. apply Hn. simpl. tauto.
  - apply Hother; [discriminate|]. apply Hother; [discriminate|]. intros c. apply Hn. simpl. tauto.
Qed.

(** a decidable form, for concrete nets *)
Definition wf_base_b (g0 : cnet) : bool :=
  forallb (fun nc : name * cnode =>
             match c_op (snd nc), c_out (snd nc) with Some _, Some _ => false | _, _ => true end)
          (c_nodes (base g0 [])).

Lemma wf_base_b_sound g0 : wf_base_b g0 = true -> wf_base g0.
Proof.
  unfold wf_base_b, wf_base. intros H k c o Hl Ho. rewrite forallb_forall in H.
  specialize (H (k, c) (lookup_In_pair _ _ _ Hl)). simpl in H. rewrite Ho in H.
  destruct (c_out c); [discriminate | reflexivity].
Qed.
