(** The executor cache is transparent along every inference run over a pool: the "coherent"
    hypothesis of C02's history theorem is derived here from the loader model, so that a run over
    a pool returns, batch by batch, what fresh computation contexts return (C02 + C05). *)
From Coq Require Import List String ZArith Arith Bool Lia Permutation.
From Elfi Require Import Base.StrOrder Graph.Net Store.Pool Proofs.C03_Exec Proofs.C03_Compile Proofs.C02_Order Proofs.C05_Pool.
Import ListNotations.

Definition with_outputs (g : cnet) (outs : list name) : cnet :=
  {| c_nodes := c_nodes g; c_edges := c_edges g; c_outputs := outs; c_observed := c_observed g |}.

(** ---- association-list facts ---- *)
Lemma lookup_In_pair {A} k (x : A) l : lookup k l = Some x -> In (k, x) l.
Proof.
  induction l as [|[m a] r IH]; simpl; [discriminate|].
  destruct (String.eqb k m) eqn:E.
  - apply String.eqb_eq in E. subst. intros H. inversion H. now left.
  - intros H. right. now apply IH.
Qed.

Lemma lookup_key_In {A} k (x : A) l : lookup k l = Some x -> In k (map fst l).
Proof. intros H. apply lookup_In_pair in H. apply in_map_iff. exists (k, x). auto. Qed.

Lemma names_set_present {A} n (a : A) l : has n l = true -> map fst (set n a l) = map fst l.
Proof.
  unfold has. induction l as [|[m b] r IH]; simpl; [discriminate|].
  destruct (String.eqb n m) eqn:E; simpl; [reflexivity|]. intros H. now rewrite IH.
Qed.

Lemma names_set_output n v b g : map fst (c_nodes (set_output n v b g)) = map fst (c_nodes g).
Proof.
  unfold set_output. destruct (lookup n (c_nodes g)) eqn:E; [|reflexivity]. simpl.
  apply names_set_present. unfold has. now rewrite E.
Qed.

(** ---- what load_pool does to one node, and to the outputs ---- *)
Definition pool_step (g1 : cnet) (nv : name * option value) : cnet :=
  if has (fst nv) (c_nodes g1) then
    match snd nv with
    | Some v => set_output (fst nv) v true g1
    | None => if mem (fst nv) (c_outputs g1) then g1 else
              {| c_nodes := c_nodes g1; c_edges := c_edges g1;
                 c_outputs := c_outputs g1 ++ [fst nv]; c_observed := c_observed g1 |}
    end
  else g1.

Lemma load_pool_cons nv r g : load_pool (nv :: r) g = load_pool r (pool_step g nv).
Proof. reflexivity. Qed.

Lemma pool_step_edges g nv : c_edges (pool_step g nv) = c_edges g.
Proof.
  unfold pool_step. destruct (has (fst nv) (c_nodes g)); [|reflexivity].
  destruct (snd nv) as [v|].
  - unfold set_output. destruct (lookup (fst nv) (c_nodes g)); reflexivity.
  - destruct (mem (fst nv) (c_outputs g)); reflexivity.
Qed.

Lemma pool_step_names g nv : map fst (c_nodes (pool_step g nv)) = map fst (c_nodes g).
Proof.
  unfold pool_step. destruct (has (fst nv) (c_nodes g)); [|reflexivity].
  destruct (snd nv) as [v|]; [apply names_set_output|]. destruct (mem (fst nv) (c_outputs g)); reflexivity.
Qed.

Lemma pool_step_has g nv m : has m (c_nodes (pool_step g nv)) = has m (c_nodes g).
Proof.
  unfold pool_step. destruct (has (fst nv) (c_nodes g)); [|reflexivity].
  destruct (snd nv) as [v|]; [apply has_set_output|]. destruct (mem (fst nv) (c_outputs g)); reflexivity.
Qed.

Lemma pool_step_other g nv m : m <> fst nv -> lookup m (c_nodes (pool_step g nv)) = lookup m (c_nodes g).
Proof.
  intros Hne. unfold pool_step. destruct (has (fst nv) (c_nodes g)); [|reflexivity].
  destruct (snd nv) as [v|].
  - apply set_output_other. congruence.
  - destruct (mem (fst nv) (c_outputs g)); reflexivity.
Qed.

Lemma pool_step_none g n m : lookup m (c_nodes (pool_step g (n, None))) = lookup m (c_nodes g).
Proof.
  unfold pool_step. simpl. destruct (has n (c_nodes g)); [|reflexivity].
  destruct (mem n (c_outputs g)); reflexivity.
Qed.

(** node states after loading a pool batch with distinct keys *)
Lemma load_pool_lookup : forall pool g m,
  NoDup (map fst pool) ->
  lookup m (c_nodes (load_pool pool g)) =
  match lookup m pool with
  | Some (Some v) => match lookup m (c_nodes g) with
                     | Some _ => Some {| c_out := Some v; c_op := None |}
                     | None => None
                     end
  | _ => lookup m (c_nodes g)
  end.
Proof.
  induction pool as [|[k ov] r IH]; intros g m Hnd; [reflexivity|].
  inversion Hnd as [|? ? Hk Hr]; subst. rewrite load_pool_cons.
  rewrite (IH _ m Hr). cbn [lookup].
  destruct (String.eqb m k) eqn:E.
  - apply String.eqb_eq in E. subst m.
    assert (Hnone : lookup k r = None).
    { destruct (lookup k r) eqn:El; [|reflexivity]. exfalso. apply Hk. eapply lookup_key_In. exact El. }
    rewrite Hnone.
    destruct ov as [v|].
    + unfold pool_step. cbn [fst snd]. unfold has. destruct (lookup k (c_nodes g)) as [c|] eqn:Ec; [|now rewrite Ec].
      unfold set_output. rewrite Ec. apply lookup_add_node_same.
    + apply pool_step_none.
  - apply String.eqb_neq in E. rewrite (pool_step_other g (k, ov) m E). reflexivity.
Qed.

Lemma load_pool_edges : forall pool g, c_edges (load_pool pool g) = c_edges g.
Proof.
  induction pool as [|nv r IH]; intros g; [reflexivity|].
  rewrite load_pool_cons, IH. apply pool_step_edges.
Qed.

Lemma load_pool_names : forall pool g, map fst (c_nodes (load_pool pool g)) = map fst (c_nodes g).
Proof.
  induction pool as [|nv r IH]; intros g; [reflexivity|].
  rewrite load_pool_cons, IH. apply pool_step_names.
Qed.

(** the outputs after loading: the given ones plus the stored nodes the pool lacks *)
Lemma load_pool_outputs_incl : forall pool g x,
  In x (c_outputs g) -> In x (c_outputs (load_pool pool g)).
Proof.
  induction pool as [|nv r IH]; intros g x Hx; [exact Hx|].
  rewrite load_pool_cons. apply IH.
  unfold pool_step. destruct (has (fst nv) (c_nodes g)); [|exact Hx].
  destruct (snd nv) as [v|].
  - unfold set_output. destruct (lookup (fst nv) (c_nodes g)); exact Hx.
  - destruct (mem (fst nv) (c_outputs g)); [exact Hx|]. simpl. apply in_app_iff. now left.
Qed.

Lemma load_pool_missing_is_output : forall pool g n,
  In (n, None) pool -> has n (c_nodes g) = true -> In n (c_outputs (load_pool pool g)).
Proof.
  induction pool as [|nv r IH]; intros g n Hin Hhas; [destruct Hin|].
  rewrite load_pool_cons.
  destruct Hin as [->|Hin].
  - apply load_pool_outputs_incl. unfold pool_step. cbn [fst snd]. rewrite Hhas.
    destruct (mem n (c_outputs g)) eqn:Em; [now apply mem_In|]. simpl. apply in_app_iff. right. now left.
  - apply IH; [exact Hin|]. now rewrite pool_step_has.
Qed.

Lemma load_pool_outputs_only : forall pool g x,
  In x (c_outputs (load_pool pool g)) -> In x (c_outputs g) \/ In (x, None) pool.
Proof.
  induction pool as [|[k ov] r IH]; intros g x Hx; [now left|].
  rewrite load_pool_cons in Hx.
  apply IH in Hx. destruct Hx as [Hx|Hx]; [|right; now right].
  unfold pool_step in Hx. cbn [fst snd] in Hx. destruct (has k (c_nodes g)); [|now left].
  destruct ov as [v|].
  - left. unfold set_output in Hx. destruct (lookup k (c_nodes g)); exact Hx.
  - destruct (mem k (c_outputs g)); [now left|]. simpl in Hx. apply in_app_iff in Hx.
    destruct Hx as [Hx|[<-|[]]]; [now left | right; now left].
Qed.

(** ---- the net before the PoolLoader does not depend on the outputs set ---- *)
Definition base (g0 : cnet) (outs : list name) : cnet := load_runtime (load_observed (with_outputs g0 outs)).

Lemma set_output_shape n v b g g' :
  c_nodes g = c_nodes g' -> c_edges g = c_edges g' ->
  c_nodes (set_output n v b g) = c_nodes (set_output n v b g')
  /\ c_edges (set_output n v b g) = c_edges (set_output n v b g')
  /\ c_outputs (set_output n v b g) = c_outputs g.
Proof.
  intros Hn He. unfold set_output. rewrite Hn.
  destruct (lookup n (c_nodes g')); simpl; rewrite ?Hn; auto.
Qed.

Lemma fold_set_output_shape (f : name -> name) : forall (l : list (name * value)) g g',
  c_nodes g = c_nodes g' -> c_edges g = c_edges g' ->
  let F := fun (g1 : cnet) (nv : name * value) => set_output (f (fst nv)) (snd nv) true g1 in
  c_nodes (fold_left F l g) = c_nodes (fold_left F l g')
  /\ c_edges (fold_left F l g) = c_edges (fold_left F l g')
  /\ c_outputs (fold_left F l g) = c_outputs g.
Proof.
  induction l as [|nv r IH]; intros g g' Hn He; simpl; [auto|].
  destruct (set_output_shape (f (fst nv)) (snd nv) true g g' Hn He) as [A [B C]].
  destruct (IH _ _ A B) as [D [E F]]. repeat split; auto. simpl in F. now rewrite F.
Qed.

Lemma base_shape g0 outs outs' :
  c_nodes (base g0 outs) = c_nodes (base g0 outs') /\ c_edges (base g0 outs) = c_edges (base g0 outs')
  /\ c_outputs (base g0 outs) = outs.
Proof.
  unfold base, load_runtime, load_observed.
  change (c_observed (with_outputs g0 outs)) with (c_observed g0).
  change (c_observed (with_outputs g0 outs')) with (c_observed g0).
  destruct (fold_set_output_shape observed_name (c_observed g0) (with_outputs g0 outs) (with_outputs g0 outs') eq_refl eq_refl)
    as [A [B C]]. cbv zeta in A, B, C.
  destruct (set_output_shape "_batch_size"%string VBatch false _ _ A B) as [N1 [E1 O1]].
  destruct (set_output_shape "_meta"%string VMeta false _ _ N1 E1) as [N2 [E2 O2]].
  destruct (set_output_shape "_random_state"%string VRng false _ _ N2 E2) as [N3 [E3 O3]].
  repeat split; auto. rewrite O3, O2, O1. exact C.
Qed.

Definition loaded (g0 : cnet) (outs : list name) (p : list (name * option value)) : cnet :=
  load p (with_outputs g0 outs).

Lemma loaded_eq g0 outs p : loaded g0 outs p = load_pool p (base g0 outs).
Proof. reflexivity. Qed.

(** every node of the net handed to the PoolLoader has an operation or an output (what
    Executor.get_execution_order demands of every node it visits) *)
Definition wf_base (g0 : cnet) : Prop :=
  forall k c, lookup k (c_nodes (base g0 [])) = Some c -> c_op c = None -> c_out c <> None.

Lemma in_needed_iff g x : In x (needed_of g) <-> In x (c_outputs g) /\ has_op g x = true.
Proof.
  unfold needed_of. rewrite <- filter_In.
  set (l := filter (has_op g) (c_outputs g)).
  split.
  - intros H. apply (Permutation_in _ (sort_names_perm _)) in H. now apply dedup_names_In in H.
  - intros H. apply (Permutation_in _ (Permutation_sym (sort_names_perm _))).
    clearbody l. induction l as [|y r IH]; [destruct H|]. simpl. destruct (mem y r) eqn:Em.
    + destruct H as [->|H]; [apply IH; now apply mem_In | now apply IH].
    + destruct H as [->|H]; [now left | right; now apply IH].
Qed.

(** a stored node that has an operation before the PoolLoader runs is needed exactly when the pool
    lacks it for the batch *)
Lemma loaded_key_needed g0 outs q k c o :
  NoDup (map fst q) -> In k (map fst q) ->
  lookup k (c_nodes (base g0 outs)) = Some c -> c_op c = Some o ->
  In k (needed_of (load_pool q (base g0 outs))) <-> lookup k q = Some None.
Proof.
  intros Hnd Hin Ec Eo. rewrite in_needed_iff. unfold has_op. rewrite (load_pool_lookup q _ k Hnd), Ec.
  destruct (lookup k q) as [[v|]|] eqn:Eq.
  - simpl. split; [intros [_ H]; discriminate | discriminate].
  - rewrite Eo. split; [reflexivity|]. intros _. split; [|reflexivity].
    apply load_pool_missing_is_output; [now apply lookup_In_pair|]. unfold has. now rewrite Ec.
  - exfalso. apply lookup_None_iff in Eq. contradiction.
Qed.

(** ---- two loaded nets of one handler are coherent ---- *)
Theorem loaded_coherent g0 outs outs' p p' :
  wf_base g0 -> map fst p = map fst p' -> NoDup (map fst p) ->
  coherent (loaded g0 outs p) (loaded g0 outs' p').
Proof.
  intros Hwf Hk Hnd. rewrite !loaded_eq.
  destruct (base_shape g0 outs outs') as [Bn [Be _]].
  destruct (base_shape g0 outs []) as [Bn0 _].
  assert (Hnd' : NoDup (map fst p')) by (rewrite <- Hk; exact Hnd).
  split; [|split].
  - rewrite !load_pool_edges. exact Be.
  - rewrite !load_pool_names. now rewrite Bn.
  - intros Hneeded.
    assert (Hkey : forall k c o, lookup k (c_nodes (base g0 outs)) = Some c -> c_op c = Some o ->
                     In k (map fst p) -> (lookup k p = Some None <-> lookup k p' = Some None)).
    { intros k c o Ec Eo Hin.
      rewrite <- (loaded_key_needed g0 outs p k c o Hnd Hin Ec Eo).
      rewrite Bn in Ec. rewrite Hk in Hin.
      rewrite <- (loaded_key_needed g0 outs' p' k c o Hnd' Hin Ec Eo).
      now rewrite Hneeded. }
    assert (Hnone : forall n, lookup n p = None <-> lookup n p' = None).
    { intros n. rewrite !lookup_None_iff. now rewrite Hk. }
    assert (Hboth : forall n,
              has_out (load_pool p (base g0 outs)) n = has_out (load_pool p' (base g0 outs')) n /\
              has_op (load_pool p (base g0 outs)) n = has_op (load_pool p' (base g0 outs')) n).
    { intros n. unfold has_out, has_op.
      rewrite (load_pool_lookup p _ n Hnd), (load_pool_lookup p' _ n Hnd'), <- Bn.
      destruct (lookup n (c_nodes (base g0 outs))) as [c|] eqn:Ec.
      2:{ destruct (lookup n p) as [[v|]|]; destruct (lookup n p') as [[v'|]|]; auto. }
      specialize (Hkey n c). specialize (Hnone n).
      assert (Hout : c_op c = None -> c_out c <> None).
      { apply (Hwf n). now rewrite <- Bn0. }
      destruct (lookup n p) as [[v|]|] eqn:E1; destruct (lookup n p') as [[v'|]|] eqn:E2; simpl; auto;
        try (exfalso; destruct Hnone as [H1 H2]; (specialize (H1 eq_refl) || specialize (H2 eq_refl)); discriminate).
      - (* held by p, lacked by p' *)
        destruct (c_op c) as [o|] eqn:Eo.
        + exfalso. assert (Hin : In n (map fst p)) by (eapply lookup_key_In; exact E1).
          destruct (Hkey o Ec eq_refl Hin) as [_ H2]. specialize (H2 eq_refl). discriminate.
        + specialize (Hout eq_refl). destruct (c_out c); [auto | contradiction].
      - (* lacked by p, held by p' *)
        destruct (c_op c) as [o|] eqn:Eo.
        + exfalso. assert (Hin : In n (map fst p)) by (eapply lookup_key_In; exact E1).
          destruct (Hkey o Ec eq_refl Hin) as [H1 _]. specialize (H1 eq_refl). discriminate.
        + specialize (Hout eq_refl). destruct (c_out c); [auto | contradiction]. }
    split; intros n; apply Hboth.
Qed.

(** ---- an inference run over a pool ---- *)
Definition CacheAll (g0 : cnet) (K : list name) (c : ecache) : Prop :=
  forall outs p, map fst p = K -> CacheConsistent (loaded g0 outs p) c.

Lemma CacheAll_empty g0 K : CacheAll g0 K empty_cache.
Proof. intros outs p _. apply CacheConsistent_empty. Qed.

Lemma CacheAll_step g0 K c outs p out log c' :
  wf_base g0 -> NoDup K -> map fst p = K -> CacheAll g0 K c ->
  execute (loaded g0 outs p) c = Ok (out, log, c') -> CacheAll g0 K c'.
Proof.
  intros Hwf Hnd Hp Hall Hex outs1 p1 Hp1.
  destruct (execute_cache_after _ _ _ _ _ Hex) as [o Ho].
  eapply consistent_after; [| apply (Hall outs p Hp) | apply (Hall outs1 p1 Hp1) | exact Ho].
  apply loaded_coherent; [exact Hwf | congruence | now rewrite Hp].
Qed.

Lemma get_batch_keys pl i : map fst (get_batch pl i) = map fst (stores pl).
Proof. unfold get_batch. rewrite map_map. reflexivity. Qed.

Lemma add_batch_keys pl out i : map fst (stores (add_batch pl out i)) = map fst (stores pl).
Proof.
  unfold add_batch. simpl. rewrite map_map. apply map_ext. intros [m s]. simpl.
  destruct (lookup m out); reflexivity.
Qed.

(** the same run with a fresh executor cache for every batch *)
Definition uncache (s : run_state) : run_state :=
  {| rs_net := rs_net s; rs_pool := rs_pool s; rs_cache := empty_cache |}.

Fixpoint run_batches_fresh (s : run_state) (idxs : list nat)
  : res (run_state * list (list (name * value) * list name)) :=
  match idxs with
  | [] => Ok (s, [])
  | i :: r =>
      do x <- step_batch (uncache s) i;
      let '(s1, out, log) := x in
      do y <- run_batches_fresh s1 r;
      let '(s2, rest) := y in
      Ok (s2, (out, log) :: rest)
  end.

(** what a run leaves behind, apart from the executor cache *)
Definition visible (r : res (run_state * list (list (name * value) * list name)))
  : res (cnet * pool * list (list (name * value) * list name)) :=
  match r with
  | Ok (s, obs) => Ok (rs_net s, rs_pool s, obs)
  | Err e => Err e
  end.

Lemma run_batches_fresh_ext : forall idxs s s',
  rs_net s = rs_net s' -> rs_pool s = rs_pool s' ->
  visible (run_batches_fresh s idxs) = visible (run_batches_fresh s' idxs).
Proof.
  destruct idxs as [|i r]; intros s s' Hn Hp; simpl; [now rewrite Hn, Hp|].
  assert (Hu : uncache s = uncache s') by (unfold uncache; now rewrite Hn, Hp).
  now rewrite Hu.
Qed.

(** Along a whole inference run over a pool (any batch indices, the pool filling up and the shared
    output set growing on the way), every batch returns the outputs and the call log that a fresh
    executor cache gives, and the pool ends up the same. *)
Theorem pool_run_cache_transparent g0 : forall idxs s outs,
  wf_base g0 -> NoDup (map fst (stores (rs_pool s))) ->
  rs_net s = with_outputs g0 outs ->
  CacheAll g0 (map fst (stores (rs_pool s))) (rs_cache s) ->
  visible (run_batches s idxs) = visible (run_batches_fresh s idxs).
Proof.
  induction idxs as [|i r IH]; intros s outs Hwf Hnd Hnet Hall; [reflexivity|].
  cbn [run_batches run_batches_fresh]. unfold step_batch. cbn [uncache rs_net rs_pool rs_cache].
  rewrite Hnet.
  change (load (get_batch (rs_pool s) i) (with_outputs g0 outs)) with (loaded g0 outs (get_batch (rs_pool s) i)).
  set (lg := loaded g0 outs (get_batch (rs_pool s) i)).
  assert (Hkeys : map fst (get_batch (rs_pool s) i) = map fst (stores (rs_pool s))) by apply get_batch_keys.
  pose proof (execute_cache_transparent lg (rs_cache s) (Hall outs _ Hkeys)) as Ht.
  destruct (execute lg (rs_cache s)) as [[[out log] c1]|e1] eqn:E1;
    destruct (execute lg empty_cache) as [[[out2 log2] c2]|e2] eqn:E2; simpl in Ht; try discriminate.
  - inversion Ht; subst out2 log2. simpl.
    set (s1 := {| rs_net := _; rs_pool := _; rs_cache := c1 |}).
    set (s1' := {| rs_net := _; rs_pool := _; rs_cache := c2 |}).
    assert (Hv : visible (run_batches s1 r) = visible (run_batches_fresh s1' r)).
    { rewrite (run_batches_fresh_ext r s1' s1 eq_refl eq_refl).
      apply (IH s1 (c_outputs lg)); subst s1; cbn [rs_net rs_pool rs_cache].
      - exact Hwf.
      - now rewrite add_batch_keys.
      - reflexivity.
      - rewrite add_batch_keys. eapply CacheAll_step; [exact Hwf | exact Hnd | exact Hkeys | exact Hall | exact E1]. }
    destruct (run_batches s1 r) as [[s2 rest]|e]; destruct (run_batches_fresh s1' r) as [[s2' rest']|e'];
      simpl in Hv; try discriminate; simpl.
    + inversion Hv; subst. reflexivity.
    + inversion Hv; subst. reflexivity.
  - simpl. inversion Ht; subst. reflexivity.
Qed.

(** in particular from the state a new BatchHandler starts in *)
Corollary pool_run_from_start g pl idxs :
  wf_base g -> NoDup (map fst (stores pl)) ->
  visible (run_batches {| rs_net := g; rs_pool := pl; rs_cache := empty_cache |} idxs)
  = visible (run_batches_fresh {| rs_net := g; rs_pool := pl; rs_cache := empty_cache |} idxs).
Proof.
  intros Hwf Hnd. apply (pool_run_cache_transparent g idxs _ (c_outputs g)); cbn [rs_net rs_pool rs_cache]; auto.
  - destruct g; reflexivity.
  - apply CacheAll_empty.
Qed.

(** wf_base holds whenever every node of the compiled net has an operation or an output *)
Lemma set_output_wf n v b g :
  (forall k c, lookup k (c_nodes g) = Some c -> c_op c = None -> c_out c <> None) ->
  forall k c, lookup k (c_nodes (set_output n v b g)) = Some c -> c_op c = None -> c_out c <> None.
Proof.
  intros H k c Hl Ho. unfold set_output in Hl. destruct (lookup n (c_nodes g)) as [c0|] eqn:E; [|eauto].
  destruct (string_dec n k) as [->|Hne].
  - rewrite lookup_add_node_same in Hl. inversion Hl; subst. simpl. discriminate.
  - rewrite lookup_add_node_other in Hl by exact Hne. eauto.
Qed.

Theorem wf_base_of_nodes g0 :
  (forall k c, lookup k (c_nodes g0) = Some c -> c_op c = None -> c_out c <> None) -> wf_base g0.
Proof.
  intros H. unfold wf_base, base, load_runtime.
  repeat apply set_output_wf.
  unfold load_observed. change (c_observed (with_outputs g0 [])) with (c_observed g0).
  assert (G : forall l g, (forall k c, lookup k (c_nodes g) = Some c -> c_op c = None -> c_out c <> None) ->
              forall k c, lookup k (c_nodes (fold_left (fun g1 (nv : name * value) => set_output (observed_name (fst nv)) (snd nv) true g1) l g)) = Some c ->
                          c_op c = None -> c_out c <> None).
  { induction l as [|nv r IHl]; intros g Hg; simpl; [exact Hg|]. apply IHl. now apply set_output_wf. }
  apply G. exact H.
Qed.

(** a decidable form, for concrete nets *)
Definition wf_base_b (g0 : cnet) : bool :=
  forallb (fun nc : name * cnode =>
             match c_op (snd nc), c_out (snd nc) with None, None => false | _, _ => true end)
          (c_nodes (base g0 [])).

Lemma wf_base_b_sound g0 : wf_base_b g0 = true -> wf_base g0.
Proof.
  unfold wf_base_b, wf_base. intros H k c Hl Ho. rewrite forallb_forall in H.
  specialize (H (k, c) (lookup_In_pair _ _ _ Hl)). simpl in H. rewrite Ho in H.
  destruct (c_out c); [discriminate | discriminate].
Qed.
