(** C05 over histories of runs on ONE BatchHandler + ComputationContext (the same inference object
    sampled again after reset()/set_objective): the model has no cross-run state besides the compiled
    net's grown output set, the executor cache and the pool, and along every such history (also with
    stores removed in between) a stored node the pool holds for a batch is never in that batch's call
    log; without removals every batch of the history returns what a fresh executor cache returns. *)
From Coq Require Import List String ZArith Arith Bool Lia.
From Elfi Require Import Graph.Net Store.Pool Proofs.C03_Exec Proofs.C03_Compile Proofs.C02_Order
     Proofs.C05_Pool Proofs.C05_Cache.
Import ListNotations.

(** ---- store keys stay distinct ---- *)
Lemma NoDup_map_filter {A B} (f : A -> B) (p : A -> bool) l : NoDup (map f l) -> NoDup (map f (filter p l)).
Proof.
  induction l as [|a r IH]; simpl; intros H; [constructor|].
  inversion H as [|? ? Hn Hr]; subst. destruct (p a); simpl; [|now apply IH].
  constructor; [|now apply IH]. intros Hin. apply Hn.
  apply in_map_iff in Hin. destruct Hin as [x [Hx Hin]]. apply filter_In in Hin.
  apply in_map_iff. exists x. tauto.
Qed.

Lemma remove_store_NoDup p n : NoDup (map fst (stores p)) -> NoDup (map fst (stores (remove_store p n))).
Proof. unfold remove_store, remove. simpl. apply NoDup_map_filter. Qed.

Lemma drop_stores_NoDup : forall rm s,
  NoDup (map fst (stores (rs_pool s))) -> NoDup (map fst (stores (rs_pool (drop_stores s rm)))).
Proof.
  unfold drop_stores. simpl. intros rm s. generalize (rs_pool s). clear s.
  induction rm as [|n r IH]; intros p H; simpl; [exact H|]. apply IH. now apply remove_store_NoDup.
Qed.

(** what the pool hands to the PoolLoader for a held batch *)
Lemma get_batch_held p i n st v :
  In (n, Some st) (stores p) -> lookup_nat i st = Some v -> In (n, Some v) (get_batch p i).
Proof.
  intros Hin Hl. unfold get_batch. apply in_map_iff. exists (n, Some st). split; [|exact Hin].
  simpl. now rewrite Hl.
Qed.

(** ---- every batch of a run / of a history is clean ---- *)
(** a batch is clean when no stored node the pool held for it (before the batch) is in its call log *)
Definition clean_batch (s : run_state) (i : nat) (log : list name) : Prop :=
  forall n st v, In (n, Some st) (stores (rs_pool s)) -> lookup_nat i st = Some v ->
                 has n (c_nodes (rs_net s)) = true -> ~ In n log.

Fixpoint batches_clean (s : run_state) (idxs : list nat) : Prop :=
  match idxs with
  | [] => True
  | i :: r =>
      match step_batch s i with
      | Ok (s1, _, log) => clean_batch s i log /\ batches_clean s1 r
      | Err _ => True
      end
  end.

Fixpoint history_clean (s : run_state) (h : list segment) : Prop :=
  match h with
  | [] => True
  | (rm, idxs) :: r =>
      batches_clean (drop_stores s rm) idxs /\
      match run_batches (drop_stores s rm) idxs with
      | Ok (s1, _) => history_clean s1 r
      | Err _ => True
      end
  end.

Definition StateOK (s : run_state) : Prop :=
  NoDup (map fst (stores (rs_pool s))) /\ CacheOK (rs_cache s).

Lemma step_batch_inv s i s1 out log :
  StateOK s -> step_batch s i = Ok (s1, out, log) -> clean_batch s i log /\ StateOK s1.
Proof.
  intros [Hnd Hc] H. unfold step_batch in H.
  destruct (execute (load (get_batch (rs_pool s) i) (rs_net s)) (rs_cache s)) as [[[o l] c1]|e] eqn:E;
    simpl in H; [|discriminate].
  inversion H; subst. clear H. split.
  - intros n st v Hin Hl Hhas.
    eapply held_store_never_runs; [| apply (get_batch_held _ _ _ _ _ Hin Hl) | exact Hhas | exact Hc | exact E].
    rewrite get_batch_keys. exact Hnd.
  - split; [cbn [rs_pool] | cbn [rs_cache]].
    + rewrite add_batch_keys. exact Hnd.
    + destruct (execute_sound _ _ _ _ _ Hc E) as [_ [_ [_ [_ [Hc' _]]]]]. exact Hc'.
Qed.

Lemma run_batches_clean : forall idxs s, StateOK s ->
  batches_clean s idxs /\ (forall s' obs, run_batches s idxs = Ok (s', obs) -> StateOK s').
Proof.
  induction idxs as [|i r IH]; intros s Hs; simpl.
  - split; [exact I|]. intros s' obs H. inversion H; subst. exact Hs.
  - destruct (step_batch s i) as [[[s1 out] log]|e] eqn:E; simpl.
    + destruct (step_batch_inv _ _ _ _ _ Hs E) as [Hclean Hs1].
      destruct (IH s1 Hs1) as [Hr Hend]. split; [split; assumption|].
      intros s' obs H. destruct (run_batches s1 r) as [[s2 rest]|e2]; simpl in H; [|discriminate].
      inversion H; subst. now apply (Hend s' rest).
    + split; [exact I|]. intros s' obs H. discriminate.
Qed.

(** Along every history of runs on one handler and context - reset() between the runs, any batch
    indices, stores removed in between, whatever the earlier runs loaded or lacked - no batch's call
    log contains a stored node the pool holds for that batch. *)
Theorem history_held_never_runs : forall h s, StateOK s -> history_clean s h.
Proof.
  induction h as [|[rm idxs] r IH]; intros s [Hnd Hc]; simpl; [exact I|].
  assert (Hs0 : StateOK (drop_stores s rm)).
  { split; [now apply drop_stores_NoDup | exact Hc]. }
  destruct (run_batches_clean idxs _ Hs0) as [Hclean Hend]. split; [exact Hclean|].
  destruct (run_batches (drop_stores s rm) idxs) as [[s1 obs]|e] eqn:E; [|exact I].
  apply IH. now apply (Hend s1 obs).
Qed.

(** in particular from the state in which a new inference object starts *)
Corollary history_from_start g pl h :
  NoDup (map fst (stores pl)) -> history_clean {| rs_net := g; rs_pool := pl; rs_cache := empty_cache |} h.
Proof. intros H. apply history_held_never_runs. split; [exact H | apply CacheOK_empty]. Qed.

(** ---- without removals a history is one long run of the handler ---- *)
Definition flat_obs (r : res (run_state * list (list (list (name * value) * list name))))
  : res (run_state * list (list (name * value) * list name)) :=
  match r with Ok (s, o) => Ok (s, List.concat o) | Err e => Err e end.

Lemma run_batches_app : forall a b s,
  run_batches s (a ++ b) =
  match run_batches s a with
  | Ok (s1, o1) => match run_batches s1 b with Ok (s2, o2) => Ok (s2, o1 ++ o2) | Err e => Err e end
  | Err e => Err e
  end.
Proof.
  induction a as [|i r IH]; intros b s; simpl.
  - destruct (run_batches s b) as [[s2 o2]|e]; reflexivity.
  - destruct (step_batch s i) as [[[s1 out] log]|e]; simpl; [|reflexivity].
    rewrite IH. destruct (run_batches s1 r) as [[s2 o2]|e2]; simpl; [|reflexivity].
    destruct (run_batches s2 b) as [[s3 o3]|e3]; reflexivity.
Qed.

Lemma drop_stores_nil s : drop_stores s [] = s.
Proof. destruct s; reflexivity. Qed.

Lemma run_history_no_removal : forall (h : list (list nat)) s,
  flat_obs (run_history s (map (fun idxs => ([], idxs)) h)) = run_batches s (List.concat h).
Proof.
  induction h as [|idxs r IH]; intros s; simpl; [reflexivity|].
  rewrite drop_stores_nil, run_batches_app.
  destruct (run_batches s idxs) as [[s1 o1]|e]; simpl; [|reflexivity].
  specialize (IH s1). destruct (run_history s1 (map (fun idxs0 => ([], idxs0)) r)) as [[s2 rest]|e2]; simpl in *.
  - rewrite <- IH. reflexivity.
  - rewrite <- IH. reflexivity.
Qed.

(** A history of runs on one handler and context (reset() between the runs; no store removed) returns,
    batch by batch, the outputs and call logs that fresh executor caches give, and leaves the same
    pool: a run does not depend on the earlier runs of the same inference object. *)
Theorem same_handler_history_transparent g pl (h : list (list nat)) :
  wf_base g -> NoDup (map fst (stores pl)) ->
  visible (flat_obs (run_history {| rs_net := g; rs_pool := pl; rs_cache := empty_cache |}
                                 (map (fun idxs => ([], idxs)) h)))
  = visible (run_batches_fresh {| rs_net := g; rs_pool := pl; rs_cache := empty_cache |} (List.concat h)).
Proof.
  intros Hwf Hnd. rewrite run_history_no_removal. now apply pool_run_from_start.
Qed.

(** ---- histories WITH store removals (the executor order cache is keyed on the requested outputs
        that still have an operation AND on the set of loaded nodes) ---- *)
Fixpoint run_history_fresh (s : run_state) (h : list segment)
  : res (run_state * list (list (list (name * value) * list name))) :=
  match h with
  | [] => Ok (s, [])
  | (rm, idxs) :: r =>
      do x <- run_batches_fresh (drop_stores s rm) idxs;
      let '(s1, obs) := x in
      do y <- run_history_fresh s1 r;
      let '(s2, rest) := y in
      Ok (s2, obs :: rest)
  end.

Definition visible_h (r : res (run_state * list (list (list (name * value) * list name))))
  : res (cnet * pool * list (list (list (name * value) * list name))) :=
  match r with
  | Ok (s, obs) => Ok (rs_net s, rs_pool s, obs)
  | Err e => Err e
  end.

Lemma NoDup_keys_filter {A} (f : name * A -> bool) : forall l, NoDup (map fst l) -> NoDup (map fst (filter f l)).
Proof.
  induction l as [|x r IH]; intros H; simpl; [constructor|].
  inversion H as [|? ? Hx Hr]; subst. destruct (f x); simpl; [|now apply IH].
  constructor; [|now apply IH]. intros Hin. apply Hx.
  apply in_map_iff in Hin. destruct Hin as [y [Hy Hin]]. apply filter_In in Hin.
  apply in_map_iff. exists y. tauto.
Qed.

Lemma remove_stores_keys : forall rm p, NoDup (map fst (stores p)) ->
  NoDup (map fst (stores (fold_left remove_store rm p))).
Proof.
  induction rm as [|n r IH]; intros p H; simpl; [exact H|]. apply IH.
  unfold remove_store, remove. simpl. now apply NoDup_keys_filter.
Qed.

Lemma drop_stores_inv g s rm : RunInv g s -> RunInv g (drop_stores s rm).
Proof.
  intros [Hnet [Hnd Hall]]. split; [|split]; cbn [drop_stores rs_net rs_pool rs_cache]; auto.
  now apply remove_stores_keys.
Qed.

Lemma visible_fresh_states s idxs s1 obs s' s1' obs' :
  rs_net s = rs_net s' -> rs_pool s = rs_pool s' ->
  run_batches_fresh s idxs = Ok (s1, obs) -> run_batches_fresh s' idxs = Ok (s1', obs') ->
  rs_net s1 = rs_net s1' /\ rs_pool s1 = rs_pool s1' /\ obs = obs'.
Proof.
  intros Hn Hp H1 H2. pose proof (run_batches_fresh_ext idxs s s' Hn Hp) as Hv.
  rewrite H1, H2 in Hv. simpl in Hv. inversion Hv. auto.
Qed.

Lemma run_history_fresh_ext : forall h s s',
  rs_net s = rs_net s' -> rs_pool s = rs_pool s' ->
  visible_h (run_history_fresh s h) = visible_h (run_history_fresh s' h).
Proof.
  induction h as [|[rm idxs] r IH]; intros s s' Hn Hp; simpl; [now rewrite Hn, Hp|].
  assert (Hn' : rs_net (drop_stores s rm) = rs_net (drop_stores s' rm)) by exact Hn.
  assert (Hp' : rs_pool (drop_stores s rm) = rs_pool (drop_stores s' rm)) by (cbn [drop_stores rs_pool]; now rewrite Hp).
  pose proof (run_batches_fresh_ext idxs _ _ Hn' Hp') as Hv.
  destruct (run_batches_fresh (drop_stores s rm) idxs) as [[s1 o1]|e1] eqn:E1;
    destruct (run_batches_fresh (drop_stores s' rm) idxs) as [[s1' o1']|e1'] eqn:E2; simpl in Hv; try discriminate.
  - inversion Hv as [[H1 H2 H3]]. subst o1'. simpl. specialize (IH s1 s1' H1 H2).
    destruct (run_history_fresh s1 r) as [[s2 rest]|e]; destruct (run_history_fresh s1' r) as [[s2' rest']|e'];
      simpl in IH; try discriminate; simpl; inversion IH; subst; reflexivity.
  - simpl. inversion Hv. reflexivity.
Qed.

(** Every history of runs on one handler and context - stores removed from the pool between the
    runs included - returns, batch by batch, what fresh executor caches return. *)
Theorem history_with_removals_transparent g : forall h s,
  wf_base g -> RunInv g s ->
  visible_h (run_history s h) = visible_h (run_history_fresh s h).
Proof.
  induction h as [|[rm idxs] r IH]; intros s Hwf Hinv; [reflexivity|]. simpl.
  pose proof (drop_stores_inv g s rm Hinv) as Hd.
  pose proof (pool_run_cache_transparent g idxs _ Hwf Hd) as Hv.
  destruct (run_batches (drop_stores s rm) idxs) as [[s1 o1]|e1] eqn:E1;
    destruct (run_batches_fresh (drop_stores s rm) idxs) as [[s1' o1']|e1'] eqn:E2; simpl in Hv; try discriminate.
  - inversion Hv as [[H1 H2 H3]]. subst o1'. simpl.
    pose proof (run_batches_inv g idxs _ s1 o1 Hwf Hd E1) as Hinv1.
    specialize (IH s1 Hwf Hinv1).
    pose proof (run_history_fresh_ext r s1 s1' H1 H2) as Hext.
    destruct (run_history s1 r) as [[s2 rest]|e]; destruct (run_history_fresh s1 r) as [[s2f restf]|ef];
      simpl in IH; try discriminate;
      destruct (run_history_fresh s1' r) as [[s2' rest']|e']; simpl in Hext; try discriminate; simpl.
    + inversion IH; inversion Hext; congruence.
    + inversion IH; inversion Hext; congruence.
  - simpl. inversion Hv. reflexivity.
Qed.

Corollary history_with_removals_from_start g pl h :
  wf_base g -> NoDup (map fst (stores pl)) ->
  visible_h (run_history {| rs_net := g; rs_pool := pl; rs_cache := empty_cache |} h)
  = visible_h (run_history_fresh {| rs_net := g; rs_pool := pl; rs_cache := empty_cache |} h).
Proof. intros Hwf Hnd. apply (history_with_removals_transparent g); [exact Hwf | now apply RunInv_start]. Qed.
