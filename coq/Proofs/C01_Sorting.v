(** Generic facts about sorted lists under a total preorder, used for the rejection buffer. *)
From Coq Require Import List Arith Bool Lia Sorting.Permutation Sorting.Sorted.
Import ListNotations.

Section ListFacts.
  Context {A : Type}.

  Lemma filter_all (f : A -> bool) l : (forall x, In x l -> f x = true) -> filter f l = l.
  Proof.
    induction l as [|x r IH]; intros H; simpl; [reflexivity|].
    rewrite (H x (or_introl eq_refl)). f_equal. apply IH. intros y Hy. apply H. now right.
  Qed.

  Lemma filter_none (f : A -> bool) l : (forall x, In x l -> f x = false) -> filter f l = [].
  Proof.
    induction l as [|x r IH]; intros H; simpl; [reflexivity|].
    rewrite (H x (or_introl eq_refl)). apply IH. intros y Hy. apply H. now right.
  Qed.

  Lemma filter_len_le (f : A -> bool) l : length (filter f l) <= length l.
  Proof. induction l as [|x r IH]; simpl; [lia|]. destruct (f x); simpl; lia. Qed.

  Lemma nth_firstn_lt' (l : list A) d : forall n i, i < n -> nth i (firstn n l) d = nth i l d.
  Proof.
    induction l as [|x r IH]; intros n i Hi; destruct n, i; simpl; try lia; auto.
    apply IH. lia.
  Qed.

  Lemma nth_skipn' (l : list A) d : forall j i, nth i (skipn j l) d = nth (j + i) l d.
  Proof.
    induction l as [|x r IH]; intros j i; destruct j; simpl; auto.
    now destruct i.
  Qed.
End ListFacts.

Section Order.
  Variable A : Type.
  Variable le : A -> A -> bool.
  Hypothesis le_total : forall a b, le a b = true \/ le b a = true.
  Hypothesis le_trans : forall a b c, le a b = true -> le b c = true -> le a c = true.

  Definition leP (a b : A) : Prop := le a b = true.

  Lemma le_refl a : le a a = true.
  Proof. destruct (le_total a a); assumption. Qed.

  (** stable insertion: after the elements that may precede *)
  Fixpoint sinsert (x : A) (l : list A) : list A :=
    match l with
    | [] => [x]
    | y :: r => if le y x then y :: sinsert x r else x :: l
    end.
  Definition ssort (l : list A) : list A := fold_left (fun acc x => sinsert x acc) l [].

  Lemma sinsert_perm x l : Permutation (sinsert x l) (x :: l).
  Proof.
    induction l as [|y r IH]; simpl; [reflexivity|].
    destruct (le y x); [|reflexivity]. rewrite IH. apply perm_swap.
  Qed.

  Lemma sinsert_sorted x l : StronglySorted leP l -> StronglySorted leP (sinsert x l).
  Proof.
    induction 1 as [|y r Hr IH Hall]; simpl; [constructor; constructor|].
    destruct (le y x) eqn:E.
    - constructor; [exact IH|]. apply Forall_forall. intros z Hz.
      apply (Permutation_in _ (sinsert_perm x r)) in Hz. destruct Hz as [<-|Hz]; [exact E|].
      rewrite Forall_forall in Hall. now apply Hall.
    - assert (Hxy : le x y = true) by (destruct (le_total x y); congruence).
      constructor; [constructor; assumption|]. constructor; [exact Hxy|].
      eapply Forall_impl; [|exact Hall]. intros z Hz. eapply le_trans; eauto.
  Qed.

  Lemma fold_sinsert_perm l : forall acc, Permutation (fold_left (fun a x => sinsert x a) l acc) (acc ++ l).
  Proof.
    induction l as [|x r IH]; intros acc; simpl; [now rewrite app_nil_r|].
    rewrite IH. rewrite sinsert_perm. rewrite (Permutation_middle acc r x). reflexivity.
  Qed.

  Lemma ssort_perm l : Permutation (ssort l) l.
  Proof. unfold ssort. now rewrite fold_sinsert_perm. Qed.

  Lemma fold_sinsert_sorted l : forall acc, StronglySorted leP acc -> StronglySorted leP (fold_left (fun a x => sinsert x a) l acc).
  Proof. induction l as [|x r IH]; intros acc H; simpl; [exact H|]. apply IH. now apply sinsert_sorted. Qed.

  Lemma ssort_sorted l : StronglySorted leP (ssort l).
  Proof. unfold ssort. apply fold_sinsert_sorted. constructor. Qed.

  (** in a sorted list earlier elements precede later ones *)
  Lemma sorted_nth l d : StronglySorted leP l -> forall i j, i <= j -> j < length l -> le (nth i l d) (nth j l d) = true.
  Proof.
    induction 1 as [|x r Hr IH Hall]; intros i j Hij Hj; simpl in Hj; [lia|].
    destruct i, j; simpl; try lia.
    - apply le_refl.
    - rewrite Forall_forall in Hall. apply Hall. apply nth_In. lia.
    - apply IH; lia.
  Qed.

  Definition cnt (v : A) (l : list A) : nat := length (filter (fun x => le x v) l).

  Lemma cnt_app v l1 l2 : cnt v (l1 ++ l2) = cnt v l1 + cnt v l2.
  Proof. unfold cnt. now rewrite filter_app, app_length. Qed.

  Lemma cnt_perm v l l' : Permutation l l' -> cnt v l = cnt v l'.
  Proof.
    unfold cnt. induction 1; simpl; auto.
    - destruct (le x v); simpl; auto.
    - destruct (le x v), (le y v); simpl; auto.
    - congruence.
  Qed.

  (** the first j+1 elements of a sorted list all precede its j-th element *)
  Lemma cnt_prefix l d : StronglySorted leP l -> forall j, j < length l -> j + 1 <= cnt (nth j l d) l.
  Proof.
    intros Hs j Hj.
    rewrite <- (firstn_skipn (S j) l) at 2. rewrite cnt_app.
    assert (Hall : cnt (nth j l d) (firstn (S j) l) = S j).
    { unfold cnt. rewrite filter_all.
      - rewrite firstn_length. lia.
      - intros x Hx. destruct (In_nth _ _ d Hx) as [i [Hi Hn]].
        rewrite firstn_length in Hi. rewrite <- Hn. rewrite nth_firstn_lt' by lia.
        apply sorted_nth; auto; lia. }
    lia.
  Qed.

  (** if the j-th element of a sorted list does not precede v, at most j elements precede v *)
  Lemma cnt_bound l d v : StronglySorted leP l -> forall j, j < length l -> le (nth j l d) v = false -> cnt v l <= j.
  Proof.
    intros Hs j Hj Hf.
    rewrite <- (firstn_skipn j l). rewrite cnt_app.
    assert (H0 : cnt v (skipn j l) = 0).
    { unfold cnt. rewrite filter_none; [reflexivity|].
      intros x Hx. destruct (In_nth _ _ d Hx) as [i [Hi Hn]]. rewrite skipn_length in Hi.
      rewrite nth_skipn' in Hn. subst x.
      destruct (le (nth (j + i) l d) v) eqn:E; [|reflexivity].
      assert (le (nth j l d) (nth (j + i) l d) = true) by (apply sorted_nth; auto; lia).
      rewrite (le_trans _ _ _ H E) in Hf. discriminate. }
    unfold cnt at 1. pose proof (filter_len_le (fun x => le x v) (firstn j l)) as Hl. rewrite firstn_length in Hl. lia.
  Qed.

  (** the j-th smallest of a multiset is no larger than the j-th smallest of a sub-multiset *)
  Theorem nth_superset_le N O0 extra d :
    StronglySorted leP N -> StronglySorted leP O0 -> Permutation N (O0 ++ extra) ->
    forall j, j < length O0 -> le (nth j N d) (nth j O0 d) = true.
  Proof.
    intros HN HO Hp j Hj.
    destruct (le (nth j N d) (nth j O0 d)) eqn:E; [reflexivity|exfalso].
    assert (HjN : j < length N) by (rewrite (Permutation_length Hp), app_length; lia).
    pose proof (cnt_bound N d (nth j O0 d) HN j HjN E) as H1.
    pose proof (cnt_prefix O0 d HO j Hj) as H2.
    rewrite (cnt_perm _ _ _ Hp), cnt_app in H1. lia.
  Qed.
End Order.
