(** Proofs about the Metropolis model (Num/Mcmc.v).  No float axioms are used: the statements
    are about the control flow; [+], [*], [-], [<?], [is_nan], [is_infinity] stay opaque.        *)
From Coq Require Import List Bool Arith Lia PrimFloat.
From Elfi Require Import Num.Mcmc.
Import ListNotations.

Section Proofs.
  Variable target : vec -> float.
  Variable expf : float -> float.
  Variable sigma : vec.

  Notation propose := (propose sigma).
  Notation reject := (reject expf).
  Notation step := (step target expf sigma).
  Notation run := (run target expf sigma).
  Notation accept := (accept target expf).
  Notation mh_step := (mh_step target expf sigma).
  Notation scan := (scan target expf sigma).
  Notation metropolis := (metropolis target expf sigma).
  Notation spec := (spec target expf sigma).

  (** the coded rejection test is the negation of the stated acceptance rule *)
  Lemma accept_reject : forall x y u, accept x y u = negb (reject (target x) (target y) u).
  Proof.
    intros. unfold Mcmc.accept, Mcmc.reject, is_finite.
    destruct (expf (target y - target x) <? u)%float, (is_infinity (target y)), (is_nan (target y));
      reflexivity.
  Qed.

  Lemma accept_iff : forall x y u,
    accept x y u = true <->
    (is_nan (target y) = false /\ is_infinity (target y) = false
     /\ (expf (target y - target x) <? u)%float = false).
  Proof.
    intros. unfold Mcmc.accept, is_finite.
    destruct (expf (target y - target x) <? u)%float, (is_infinity (target y)), (is_nan (target y));
      simpl; intuition congruence.
  Qed.

  Lemma accept_finite : forall x y u, accept x y u = true -> is_finite (target y) = true.
  Proof. intros x y u H. unfold Mcmc.accept in H. apply andb_true_iff in H. tauto. Qed.

  (** one coded iteration started with a consistent cache = one transition of the spec *)
  Lemma step_mh : forall cur z u,
    step cur (target cur) z u = (mh_step cur (z, u), target (mh_step cur (z, u))).
  Proof.
    intros. unfold Mcmc.step, Mcmc.mh_step. simpl fst; simpl snd.
    rewrite accept_reject.
    destruct (reject (target cur) (target (propose cur z)) u); reflexivity.
  Qed.

  Lemma mh_step_cases : forall x z u,
    (mh_step x (z, u) = x /\ accept x (propose x z) u = false)
    \/ (mh_step x (z, u) = propose x z /\ accept x (propose x z) u = true).
  Proof.
    intros. unfold Mcmc.mh_step. simpl. destruct (accept x (propose x z) u); auto.
  Qed.

  Lemma run_scan : forall k cur st,
    run k cur (target cur) st = option_map (scan cur) (pairs k st).
  Proof.
    induction k as [|k IH]; intros cur st; simpl; [reflexivity|].
    destruct st as [|[z|u0] st]; try reflexivity.
    destruct st as [|[z'|u] st]; try reflexivity.
    rewrite step_mh. rewrite IH.
    destruct (pairs k st); reflexivity.
  Qed.

  Theorem metropolis_refines_spec : forall n w x0 st, metropolis n w x0 st = spec n w x0 st.
  Proof.
    intros. unfold Mcmc.metropolis, Mcmc.spec.
    destruct (is_infinity (target x0)); [reflexivity|].
    rewrite run_scan. destruct (pairs (n + w) st); reflexivity.
  Qed.

  Lemma scan_length : forall ds x, length (scan x ds) = length ds.
  Proof. induction ds; intros; simpl; auto. Qed.

  Lemma pairs_length : forall k st ds, pairs k st = Some ds -> length ds = k.
  Proof.
    induction k; intros st ds H; simpl in H.
    - inversion H; reflexivity.
    - destruct st as [|[z|u0] st]; try discriminate.
      destruct st as [|[z'|u] st]; try discriminate.
      destruct (pairs k st) eqn:E; try discriminate.
      inversion H; subst. simpl. f_equal. eauto.
  Qed.

  Theorem spec_length : forall n w x0 st l, spec n w x0 st = Chain l -> length l = n.
  Proof.
    intros n w x0 st l H. unfold Mcmc.spec in H.
    destruct (is_infinity (target x0)); try discriminate.
    destruct (pairs (n + w) st) eqn:E; try discriminate.
    inversion H; subst. rewrite skipn_length, scan_length, (pairs_length _ _ _ E). lia.
  Qed.

  Definition finite_at (x : vec) : Prop := is_finite (target x) = true.

  Lemma mh_step_finite : forall x d, finite_at x -> finite_at (mh_step x d).
  Proof.
    intros x [z u] H. destruct (mh_step_cases x z u) as [[E _]|[E A]]; rewrite E; auto.
    apply accept_finite in A. exact A.
  Qed.

  Lemma scan_finite : forall ds x, finite_at x -> Forall finite_at (scan x ds).
  Proof.
    induction ds; intros x H; simpl; constructor.
    - apply mh_step_finite; auto.
    - apply IHds. apply mh_step_finite; auto.
  Qed.

  Lemma Forall_skipn : forall {A} (P : A -> Prop) n l, Forall P l -> Forall P (skipn n l).
  Proof.
    induction n; intros l H; simpl; auto. destruct l; auto. inversion H; auto.
  Qed.

  Theorem spec_support : forall n w x0 st l,
    finite_at x0 -> spec n w x0 st = Chain l -> Forall finite_at l.
  Proof.
    intros n w x0 st l F H. unfold Mcmc.spec in H.
    destruct (is_infinity (target x0)); try discriminate.
    destruct (pairs (n + w) st) eqn:E; try discriminate.
    inversion H; subst. apply Forall_skipn. apply scan_finite; auto.
  Qed.

  (** every state of the spec chain is its predecessor or predecessor + sigma * z *)
  Inductive walk : vec -> list (vec * float) -> list vec -> Prop :=
  | walk_nil : forall x, walk x [] []
  | walk_stay : forall x z u ds l,
      accept x (propose x z) u = false -> walk x ds l -> walk x ((z, u) :: ds) (x :: l)
  | walk_move : forall x z u ds l,
      accept x (propose x z) u = true -> walk (propose x z) ds l ->
      walk x ((z, u) :: ds) (propose x z :: l).

  Theorem scan_walk : forall ds x, walk x ds (scan x ds).
  Proof.
    induction ds as [|[z u] ds IH]; intros x; simpl; [constructor|].
    destruct (mh_step_cases x z u) as [[E A]|[E A]]; rewrite E.
    - apply walk_stay; auto.
    - apply walk_move; auto.
  Qed.

  Theorem metropolis_length : forall n w x0 st l, metropolis n w x0 st = Chain l -> length l = n.
  Proof. intros n w x0 st l H. rewrite metropolis_refines_spec in H. eapply spec_length; eauto. Qed.

  Theorem metropolis_support : forall n w x0 st l,
    finite_at x0 -> metropolis n w x0 st = Chain l -> Forall finite_at l.
  Proof. intros n w x0 st l F H. rewrite metropolis_refines_spec in H. eapply spec_support; eauto. Qed.

  (** liveness: a well-formed stream and a start that is not +-inf give a chain *)
  Theorem metropolis_live : forall n w x0 st ds,
    is_infinity (target x0) = false -> pairs (n + w) st = Some ds ->
    metropolis n w x0 st = Chain (skipn w (scan x0 ds)).
  Proof.
    intros n w x0 st ds H E. rewrite metropolis_refines_spec. unfold Mcmc.spec. rewrite H, E. reflexivity.
  Qed.

  Theorem metropolis_model_ok : forall n w x0 st,
    match metropolis n w x0 st with
    | Chain l => length l = n /\ (finite_at x0 -> Forall finite_at l)
                 /\ exists ds, pairs (n + w) st = Some ds /\ l = skipn w (scan x0 ds)
                               /\ walk x0 ds (scan x0 ds)
    | BadInit => is_infinity (target x0) = true
    | StreamError => pairs (n + w) st = None
    end.
  Proof.
    intros. destruct (metropolis n w x0 st) eqn:E.
    - unfold Mcmc.metropolis in E. destruct (is_infinity (target x0)); auto.
      destruct (run (n + w) x0 (target x0) st); discriminate.
    - rewrite metropolis_refines_spec in E. unfold Mcmc.spec in E.
      destruct (is_infinity (target x0)); try discriminate.
      destruct (pairs (n + w) st); try discriminate. reflexivity.
    - rewrite metropolis_refines_spec in E. split; [|split].
      + eapply spec_length; eauto.
      + intros F. eapply spec_support; eauto.
      + unfold Mcmc.spec in E. destruct (is_infinity (target x0)); try discriminate.
        destruct (pairs (n + w) st) as [ds|]; try discriminate.
        inversion E; subst. exists ds. repeat split; auto. apply scan_walk.
  Qed.
End Proofs.

(** ---- soundness of the decidable [ok] evaluated on implementation outputs ---- *)

Lemma vseqb_length : forall a b, vseqb a b = true -> length a = length b.
Proof.
  induction a; destruct b; simpl; intros H; try discriminate; auto.
  apply andb_true_iff in H. f_equal. apply IHa. tauto.
Qed.

Definition property_holds (c : case) : Prop :=
  let tg := lookup_t (c_target c) in
  let sp := spec tg (lookup_e (c_exp c)) (c_sigma c) (c_n c) (c_warmup c) (c_x0 c) (c_stream c) in
  match c_impl c with
  | IBadInit => sp = BadInit /\ is_infinity (tg (c_x0 c)) = true
  | IChain l =>
      (exists l', sp = Chain l' /\ vseqb l' l = true)         (* the chain is the Metropolis chain, bit for bit *)
      /\ length l = c_n c                                     (* requested number of states *)
      /\ c_out_f64 c = true                                   (* a float64 array, whatever the start's storage *)
      /\ (is_finite (tg (c_x0 c)) = true ->                   (* never leaves the support *)
          Forall (fun x => is_finite (tg x) = true) l)
  end.

Theorem ok_sound : forall c, ok c = true -> property_holds c.
Proof.
  intros c H. unfold ok in H. unfold property_holds.
  apply andb_true_iff in H. destruct H as [R H].
  destruct (c_impl c) as [|l].
  - split; auto.
    destruct (spec _ _ _ _ _ _ _); simpl in R; try discriminate; reflexivity.
  - apply andb_true_iff in H; destruct H as [H HS].
    apply andb_true_iff in H; destruct H as [H HI].
    apply andb_true_iff in H; destruct H as [HL HF].
    split; [|split; [|split]].
    + destruct (spec _ _ _ _ _ _ _) as [| |l'] eqn:E; simpl in R; try discriminate.
      exists l'. auto.
    + apply Nat.eqb_eq; auto.
    + exact HF.
    + intros F. rewrite F in HS. simpl in HS.
      apply Forall_forall. intros x Hx.
      rewrite forallb_forall in HS. apply HS in Hx. apply andb_true_iff in Hx. tauto.
Qed.

(** ---- the entry point in the caller's storage ---- *)

(** Only the binary64 values of the start and of the proposal scales enter the chain: the entry
    point is the spec chain started from [map to_f64 start] with scales [map to_f64 sigma_in]. *)
Theorem entry_refines_spec : forall target expf sigma_in n w start st,
  metropolis_entry target expf sigma_in n w start st
  = spec target expf (map to_f64 sigma_in) n w (map to_f64 start) st.
Proof. intros. unfold metropolis_entry. apply metropolis_refines_spec. Qed.

(** Two starts (and scale vectors) holding the same numbers in different storage - an int64
    array, a float32 array, a list of Python ints, a float64 array - give the same chain. *)
Theorem entry_storage_independent : forall target expf g1 g2 n w s1 s2 st,
  map to_f64 s1 = map to_f64 s2 -> map to_f64 g1 = map to_f64 g2 ->
  metropolis_entry target expf g1 n w s1 st = metropolis_entry target expf g2 n w s2 st.
Proof. intros target expf g1 g2 n w s1 s2 st Hs Hg. unfold metropolis_entry. rewrite Hs, Hg. reflexivity. Qed.

(** in particular the chain from any storage is the chain from the float64 copy of the start *)
Theorem entry_as_f64 : forall target expf sigma_in n w start st,
  metropolis_entry target expf sigma_in n w start st
  = metropolis_entry target expf (map NF (map to_f64 sigma_in)) n w (map NF (map to_f64 start)) st.
Proof.
  intros. apply entry_storage_independent; rewrite map_map; simpl; rewrite map_map; reflexivity.
Qed.

(** the model's own output for a start in any storage: a walk of exact double-precision steps
    [x -> x or x + sigma * z] from the binary64 values of the start, [n] states, finite support *)
Theorem entry_model_ok : forall target expf sigma_in n w start st,
  let x0 := map to_f64 start in
  let sigma := map to_f64 sigma_in in
  match metropolis_entry target expf sigma_in n w start st with
  | Chain l => length l = n /\ (finite_at target x0 -> Forall (finite_at target) l)
               /\ exists ds, pairs (n + w) st = Some ds /\ l = skipn w (scan target expf sigma x0 ds)
                             /\ walk target expf sigma x0 ds (scan target expf sigma x0 ds)
  | BadInit => is_infinity (target x0) = true
  | StreamError => pairs (n + w) st = None
  end.
Proof. intros. unfold metropolis_entry. apply metropolis_model_ok. Qed.
