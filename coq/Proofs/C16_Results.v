(** Proofs for C16 (model: Num/Results.v). *)
From Coq Require Import String.
From Coq Require Import ZArith QArith Qcanon Bool Arith Lia List Permutation.
From Elfi Require Import Num.Results.
Import ListNotations.
Local Open Scope Qc_scope.

(** ------------------------------------------------------------------------------------------
    1. Index arithmetic of "concatenate the chains after dropping the warm-up"                 *)

Lemma nth_skipn_plus {A} (d : A) : forall w (l : list A) i, nth i (skipn w l) d = nth (w + i) l d.
Proof.
  induction w as [|w IH]; intros l i; simpl; [reflexivity|].
  destruct l as [|x l]; simpl; [destruct i; reflexivity | apply IH].
Qed.

Lemma length_concat_uniform {A} (L : nat) (ls : list (list A)) :
  Forall (fun l => length l = L) ls -> length (concat ls) = (length ls * L)%nat.
Proof.
  induction 1 as [|l ls Hl _ IH]; simpl; [reflexivity|].
  rewrite app_length, IH, Hl. reflexivity.
Qed.

Lemma nth_concat_uniform {A} (d : A) (L : nat) (ls : list (list A)) :
  Forall (fun l => length l = L) ls ->
  forall r, (r < length ls * L)%nat ->
    nth r (concat ls) d = nth (r mod L) (nth (r / L) ls []) d.
Proof.
  induction 1 as [|l ls Hl _ IH]; intros r Hr; simpl in *; [lia|].
  assert (HL : L <> O) by (intro; subst L; lia).
  destruct (Nat.lt_ge_cases r L) as [Hlt|Hge].
  - rewrite app_nth1 by lia. rewrite Nat.div_small, Nat.mod_small by lia. reflexivity.
  - rewrite app_nth2 by lia. rewrite Hl.
    replace r with ((r - L) + 1 * L)%nat at 2 3 by lia.
    rewrite Nat.div_add, Nat.mod_add by exact HL.
    rewrite Nat.add_1_r. simpl. apply IH. lia.
Qed.

Theorem bolfi_rows_length (chains : list (list (list Qc))) (N w : nat) :
  Forall (fun c => length c = N) chains ->
  length (bolfi_rows chains w) = (length chains * (N - w))%nat.
Proof.
  intros H. unfold bolfi_rows.
  rewrite (length_concat_uniform (N - w)), map_length; [reflexivity|].
  apply Forall_map. eapply Forall_impl; [|exact H]. simpl. intros c Hc. rewrite skipn_length. lia.
Qed.

Theorem bolfi_rows_index (chains : list (list (list Qc))) (N w r : nat) :
  Forall (fun c => length c = N) chains -> (w < N)%nat -> (r < length chains * (N - w))%nat ->
  nth r (bolfi_rows chains w) [] = nth (w + r mod (N - w)) (nth (r / (N - w)) chains []) [].
Proof.
  intros H Hw Hr. unfold bolfi_rows.
  rewrite (nth_concat_uniform [] (N - w)).
  - replace (nth (r / (N - w)) (map (skipn w) chains) []) with (skipn w (nth (r / (N - w)) chains []))
      by (rewrite <- (map_nth (skipn w)); now rewrite skipn_nil).
    apply nth_skipn_plus.
  - apply Forall_map. eapply Forall_impl; [|exact H]. simpl. intros c Hc. rewrite skipn_length. lia.
  - rewrite map_length. exact Hr.
Qed.

(** with a warm-up at least as long as the chains nothing is left *)
Theorem bolfi_rows_empty (chains : list (list (list Qc))) (N w : nat) :
  Forall (fun c => length c = N) chains -> (N <= w)%nat -> bolfi_rows chains w = [].
Proof.
  intros H Hw. apply length_zero_iff_nil. rewrite (bolfi_rows_length chains N w H).
  replace (N - w)%nat with O by lia. lia.
Qed.

(** ------------------------------------------------------------------------------------------
    2. Sample: columns in parameter order                                                      *)

Definition keys (d : dict) : list string := map fst d.

Lemma dset_fresh (d : dict) k v : ~ In k (keys d) -> dset d k v = d ++ [(k, v)].
Proof.
  induction d as [|[k' v'] d IH]; simpl; intros Hn; [reflexivity|].
  destruct (String.eqb k k') eqn:E.
  - apply String.eqb_eq in E. subst. exfalso. apply Hn. now left.
  - f_equal. apply IH. intro. apply Hn. now right.
Qed.

Lemma samples_from_nodup (outputs : dict) :
  forall names acc s,
    NoDup names -> (forall n, In n names -> ~ In n (keys acc)) ->
    samples_from names outputs acc = Some s ->
    exists cols, length cols = length names /\ s = acc ++ combine names cols
                 /\ forall j, (j < length names)%nat -> lookup (nth j names EmptyString) outputs = Some (nth j cols []).
Proof.
  induction names as [|n names IH]; intros acc s Hnd Hfresh Hs; simpl in Hs.
  - inversion Hs; subst. exists []. rewrite app_nil_r. repeat split; simpl; intros; lia.
  - destruct (lookup n outputs) as [v|] eqn:Hl; [|discriminate].
    inversion Hnd as [|? ? Hnotin Hnd']; subst.
    rewrite dset_fresh in Hs by (apply Hfresh; now left).
    apply IH in Hs; [|exact Hnd'|].
    + destruct Hs as (cols & Hlen & Heq & Hcols). exists (v :: cols). simpl. split; [lia|]. split.
      * rewrite Heq, <- app_assoc. reflexivity.
      * intros [|j] Hj; [exact Hl | apply Hcols; lia].
    + intros m Hm. unfold keys. rewrite map_app, in_app_iff. simpl. intros [Hin|[Heq|[]]].
      * apply (Hfresh m); [now right | exact Hin].
      * subst. contradiction.
Qed.

Lemma map_snd_combine {A B} : forall (a : list A) (b : list B), length b = length a -> map snd (combine a b) = b.
Proof.
  induction a as [|x a IH]; destruct b as [|y b]; simpl; intros H; try reflexivity; try discriminate.
  f_equal. apply IH. lia.
Qed.

Lemma rows_of_length n cols : length (rows_of n cols) = n.
Proof. unfold rows_of. now rewrite map_length, seq_length. Qed.

Lemma rows_of_nth n cols r : (r < n)%nat -> nth r (rows_of n cols) [] = map (fun c => nth r c 0) cols.
Proof.
  intros Hr. unfold rows_of. set (f := fun r0 : nat => map (fun c : list Qc => nth r0 c 0) cols).
  rewrite (nth_indep (map f (seq 0 n)) [] (f O)) by (rewrite map_length, seq_length; exact Hr).
  rewrite map_nth, seq_nth by exact Hr. reflexivity.
Qed.

(** [samples_array]: as many rows as stored samples, one entry per parameter, and entry (r, j) is
    the r-th stored value of the j-th name of [parameter_names]. *)
Theorem samples_array_column (names : list string) (outputs : dict) (arr : list (list Qc)) :
  NoDup names -> samples_array names outputs = Some arr ->
  forall j, (j < length names)%nat ->
    exists col, lookup (nth j names EmptyString) outputs = Some col
                /\ length arr = length col
                /\ forall r, (r < length arr)%nat ->
                     length (nth r arr []) = length names /\ nth j (nth r arr []) 0 = nth r col 0.
Proof.
  intros Hnd Harr j Hj. unfold samples_array, samples in Harr.
  destruct (samples_from names outputs []) as [s|] eqn:Hs; [|discriminate].
  apply samples_from_nodup in Hs; [|exact Hnd|intros ? ? []].
  destruct Hs as (cols & Hlen & Heq & Hcols). simpl in Heq. subst s.
  rewrite map_snd_combine in Harr by exact Hlen.
  unfold column_stack in Harr. destruct cols as [|c0 cols']; [discriminate|].
  remember (c0 :: cols') as cols eqn:Ec.
  destruct (forallb (fun c => (length c =? length c0)%nat) cols) eqn:Hall; [|discriminate].
  inversion Harr; subst arr. clear Harr.
  exists (nth j cols []). split; [apply Hcols; exact Hj|].
  rewrite forallb_forall in Hall.
  assert (Hcl : length (nth j cols []) = length c0).
  { apply Nat.eqb_eq, Hall, nth_In. lia. }
  rewrite rows_of_length. split; [now rewrite Hcl|].
  intros r Hr. rewrite rows_of_nth by exact Hr. rewrite map_length. split; [exact Hlen|].
  set (g := fun c : list Qc => nth r c 0).
  rewrite (nth_indep (map g cols) 0 (g [])) by (rewrite map_length; lia).
  rewrite map_nth. reflexivity.
Qed.

(** the unweighted mean is the weighted mean with unit weights *)
Lemma wsum_ones : forall x, wsum (repeat 1 (length x)) x = sumq x.
Proof. unfold wsum. induction x as [|a x IH]; simpl; [reflexivity|]. rewrite IH. ring. Qed.

Lemma qn_S n : qn (S n) = qn n + 1.
Proof.
  unfold qn, Qcplus. apply Q2Qc_eq_iff.
  change (this (Q2Qc (inject_Z (Z.of_nat n)))) with (Qred (inject_Z (Z.of_nat n))).
  change (this 1) with 1%Q. rewrite Qred_correct.
  rewrite Nat2Z.inj_succ. unfold Z.succ. rewrite inject_Z_plus. reflexivity.
Qed.

Lemma qn_0 : qn 0 = 0.
Proof. apply Qc_is_canon. reflexivity. Qed.

Lemma sumq_ones n : sumq (repeat 1 n) = qn n.
Proof. induction n; simpl; [now rewrite qn_0|]. rewrite IHn, qn_S. ring. Qed.

Theorem average_none_is_unit_weights (x : list Qc) :
  average None x = Some (wsum (repeat 1 (length x)) x / sumq (repeat 1 (length x))).
Proof. simpl. unfold mean. now rewrite wsum_ones, sumq_ones. Qed.

(** the weighted mean does not depend on the scale of the weights *)
Lemma sumq_scale (c : Qc) (l : list Qc) : sumq (map (Qcmult c) l) = c * sumq l.
Proof. induction l as [|x l IH]; simpl; [ring|]. rewrite IH. ring. Qed.

Lemma wsum_scale (c : Qc) : forall w x, wsum (map (Qcmult c) w) x = c * wsum w x.
Proof.
  unfold wsum. intros w x. revert w. induction x as [|a x IH]; intros [|b w]; simpl; try ring.
  rewrite IH. ring.
Qed.

Theorem wmean_weight_scale (c : Qc) (w x : list Qc) :
  c <> 0 -> wsum (map (Qcmult c) w) x / sumq (map (Qcmult c) w) = wsum w x / sumq w.
Proof.
  intros Hc. rewrite wsum_scale, sumq_scale. unfold Qcdiv. rewrite Qcinv_mult_distr.
  transitivity ((c * / c) * (wsum w x * / sumq w)); [ring|]. rewrite Qcmult_inv_r by exact Hc. ring.
Qed.

(** ------------------------------------------------------------------------------------------
    3. Diagnostics: affine invariance                                                          *)

Definition aff (a b x : Qc) : Qc := a * x + b.

Lemma qn_nonzero n : n <> O -> qn n <> 0.
Proof.
  intros Hn H. unfold qn in H. apply Q2Qc_eq_iff in H.
  unfold Qeq in H. simpl in H. lia.
Qed.

Lemma sumq_aff a b l : sumq (map (aff a b) l) = a * sumq l + qn (length l) * b.
Proof.
  induction l as [|x l IH]; simpl; [rewrite qn_0; ring|].
  rewrite IH, qn_S. unfold aff. ring.
Qed.

Lemma mean_aff a b l : l <> [] -> mean (map (aff a b) l) = a * mean l + b.
Proof.
  intros Hl. unfold mean. rewrite map_length, sumq_aff.
  assert (Hq : qn (length l) <> 0) by (apply qn_nonzero; destruct l; [congruence|simpl; lia]).
  field. exact Hq.
Qed.

Lemma sumq_map_scale {A} (c : Qc) (g : A -> Qc) (l : list A) :
  sumq (map (fun x => c * g x) l) = c * sumq (map g l).
Proof. induction l as [|x l IH]; simpl; [ring|]. rewrite IH. ring. Qed.

Lemma var1_aff a b l : var1 (map (aff a b) l) = (a * a) * var1 l.
Proof.
  destruct l as [|x0 l0]; [unfold var1; simpl; unfold Qcdiv; ring|].
  remember (x0 :: l0) as l eqn:El.
  assert (Hl : l <> []) by (subst; discriminate).
  unfold var1. rewrite map_length, map_map, (mean_aff a b l Hl).
  rewrite (map_ext _ (fun x => (a * a) * sqr (x - mean l))).
  - rewrite sumq_map_scale. unfold Qcdiv. ring.
  - intros x. unfold aff, sqr. ring.
Qed.

Lemma mean_map_scale {A} (c : Qc) (g : A -> Qc) (l : list A) :
  mean (map (fun x => c * g x) l) = c * mean (map g l).
Proof. unfold mean. rewrite sumq_map_scale, !map_length. unfold Qcdiv. ring. Qed.

Definition amap (a b : Qc) (chains : list (list Qc)) : list (list Qc) := map (map (aff a b)) chains.

Lemma var_within_aff a b chains : var_within (amap a b chains) = (a * a) * var_within chains.
Proof.
  unfold var_within, amap. rewrite map_map.
  rewrite (map_ext _ (fun c => (a * a) * var1 c)) by (intros; apply var1_aff).
  apply mean_map_scale.
Qed.

Lemma var_between_aff a b n chains :
  Forall (fun c => c <> []) chains ->
  var_between n (amap a b chains) = (a * a) * var_between n chains.
Proof.
  intros H. unfold var_between, amap. rewrite map_map.
  replace (map (fun c => mean (map (aff a b) c)) chains) with (map (aff a b) (map mean chains)).
  - rewrite var1_aff. ring.
  - rewrite map_map. apply map_ext_in. intros c Hc. symmetry. apply mean_aff.
    rewrite Forall_forall in H. now apply H.
Qed.

Lemma var_pooled_scale s n w b : var_pooled n (s * w) (s * b) = s * var_pooled n w b.
Proof. unfold var_pooled, Qcdiv. ring. Qed.

Lemma div_scale_cancel (s x y : Qc) : s <> 0 -> (s * x) / (s * y) = x / y.
Proof.
  intros Hs. unfold Qcdiv. rewrite Qcinv_mult_distr.
  transitivity ((s * / s) * (x * / y)); [ring|]. rewrite Qcmult_inv_r by exact Hs. ring.
Qed.

Lemma sq_nonzero (a : Qc) : a <> 0 -> a * a <> 0.
Proof. intros Ha H. apply Qcmult_integral in H. tauto. Qed.

Lemma split_chains_aff a b n chains : split_chains n (amap a b chains) = amap a b (split_chains n chains).
Proof.
  unfold split_chains, amap. induction chains as [|c cs IH]; simpl; [reflexivity|].
  rewrite IH. rewrite <- !firstn_map, <- skipn_map. reflexivity.
Qed.

Lemma hd_length_amap a b chains : length (hd [] (amap a b chains)) = length (hd [] chains).
Proof. destruct chains; simpl; [reflexivity | apply map_length]. Qed.

Lemma split_chains_nonempty n N chains :
  (1 <= n)%nat -> (2 * n <= N)%nat -> Forall (fun c => length c = N) chains ->
  Forall (fun c => length c = n) (split_chains n chains).
Proof.
  intros Hn HN H. unfold split_chains. induction H as [|c cs Hc _ IH]; simpl; [constructor|].
  constructor; [rewrite firstn_length; lia|].
  constructor; [rewrite firstn_length, skipn_length; lia | exact IH].
Qed.

Theorem rhat2_affine (a b : Qc) (chains : list (list Qc)) (N : nat) :
  a <> 0 -> (2 <= N)%nat -> Forall (fun c => length c = N) chains ->
  rhat2 (amap a b chains) = rhat2 chains.
Proof.
  intros Ha HN H. unfold rhat2. rewrite hd_length_amap.
  set (n := (length (hd [] chains) / 2)%nat).
  rewrite split_chains_aff, var_within_aff, var_between_aff, var_pooled_scale.
  - apply div_scale_cancel, sq_nonzero, Ha.
  - destruct chains as [|c cs]; [constructor|].
    assert (Hc : length c = N) by (inversion H; assumption).
    assert (Hn : (1 <= n)%nat /\ (2 * n <= N)%nat).
    { subst n. simpl hd. rewrite Hc. split.
      - apply Nat.div_le_lower_bound; lia.
      - apply Nat.mul_div_le. lia. }
    destruct Hn as [Hn1 Hn2].
    eapply Forall_impl; [|apply (split_chains_nonempty n N (c :: cs) Hn1 Hn2 H)].
    simpl. intros l Hl E. subst l. simpl in Hl. lia.
Qed.

(** ESS *)
Lemma dot_scale a : forall d e, dot (map (Qcmult a) d) (map (Qcmult a) e) = (a * a) * dot d e.
Proof.
  induction d as [|x d IH]; intros [|y e]; simpl; try ring. rewrite IH. ring.
Qed.

Lemma autocov_aff a b l c : c <> [] -> autocov l (map (aff a b) c) = (a * a) * autocov l c.
Proof.
  intros Hc. unfold autocov. rewrite map_length, map_map, (mean_aff a b c Hc).
  rewrite (map_ext (fun x => aff a b x - (a * mean c + b)) (fun x => a * (x - mean c)))
    by (intros; unfold aff; ring).
  rewrite <- (map_map (fun x => x - mean c) (Qcmult a)).
  rewrite skipn_map, dot_scale. unfold Qcdiv. ring.
Qed.

Lemma rho_aff a b chains w vp l :
  a <> 0 -> Forall (fun c => c <> []) chains ->
  rho (amap a b chains) ((a * a) * w) ((a * a) * vp) l = rho chains w vp l.
Proof.
  intros Ha H. unfold rho, amap. rewrite map_map.
  rewrite (map_ext_in _ (fun c => (a * a) * autocov l c)).
  - rewrite mean_map_scale.
    replace (a * a * w - a * a * mean (map (autocov l) chains))
      with ((a * a) * (w - mean (map (autocov l) chains))) by ring.
    rewrite div_scale_cancel by (apply sq_nonzero, Ha). reflexivity.
  - intros c Hc. apply autocov_aff. rewrite Forall_forall in H. now apply H.
Qed.

Lemma ess_parts_aff a b chains :
  Forall (fun c => c <> []) chains ->
  ess_parts (amap a b chains) =
  let '(m, n, w, vp) := ess_parts chains in (m, n, (a * a) * w, (a * a) * vp).
Proof.
  intros H. unfold ess_parts. rewrite hd_length_amap.
  replace (length (amap a b chains)) with (length chains) by (unfold amap; now rewrite map_length).
  rewrite var_within_aff.
  destruct (length chains =? 1)%nat.
  - assert (E0 : forall n w, var_pooled n (a * a * w) 0 = a * a * var_pooled n w 0)
      by (intros; rewrite <- var_pooled_scale; f_equal; ring).
    rewrite E0. reflexivity.
  - rewrite var_between_aff by exact H. rewrite var_pooled_scale. reflexivity.
Qed.

Theorem ess_affine (a b : Qc) (chains : list (list Qc)) :
  a <> 0 -> Forall (fun c => c <> []) chains ->
  ess (amap a b chains) = ess chains.
Proof.
  intros Ha H. unfold ess, ess_terms. rewrite (ess_parts_aff a b chains H).
  destruct (ess_parts chains) as [[[m n] w] vp].
  rewrite (map_ext (rho (amap a b chains) (a * a * w) (a * a * vp)) (rho chains w vp))
    by (intros; apply rho_aff; assumption).
  reflexivity.
Qed.

(** ------------------------------------------------------------------------------------------
    4. Diagnostics: invariance under reordering the chains                                     *)

Lemma sumq_perm l l' : Permutation l l' -> sumq l = sumq l'.
Proof.
  induction 1 as [|x l l' _ IH|x y l|l l' l'' _ IH1 _ IH2]; simpl.
  - reflexivity.
  - now rewrite IH.
  - ring.
  - congruence.
Qed.

Lemma mean_perm l l' : Permutation l l' -> mean l = mean l'.
Proof. intros P. unfold mean. now rewrite (sumq_perm _ _ P), (Permutation_length P). Qed.

Lemma var1_perm l l' : Permutation l l' -> var1 l = var1 l'.
Proof.
  intros P. unfold var1. rewrite (mean_perm _ _ P), (Permutation_length P).
  f_equal. apply sumq_perm, Permutation_map, P.
Qed.

Lemma var_within_perm cs cs' : Permutation cs cs' -> var_within cs = var_within cs'.
Proof. intros P. apply mean_perm, Permutation_map, P. Qed.

Lemma var_between_perm n cs cs' : Permutation cs cs' -> var_between n cs = var_between n cs'.
Proof. intros P. unfold var_between. f_equal. apply var1_perm, Permutation_map, P. Qed.

Lemma split_chains_perm n cs cs' : Permutation cs cs' -> Permutation (split_chains n cs) (split_chains n cs').
Proof. intros P. unfold split_chains. apply Permutation_flat_map, P. Qed.

Lemma hd_length_perm (N : nat) (cs cs' : list (list Qc)) :
  Permutation cs cs' -> Forall (fun c => length c = N) cs -> length (hd [] cs) = length (hd [] cs').
Proof.
  intros P H. assert (H' : Forall (fun c => length c = N) cs').
  { rewrite Forall_forall in *. intros x Hx. apply H. eapply Permutation_in; [apply Permutation_sym, P|exact Hx]. }
  destruct cs as [|c cs]; destruct cs' as [|c' cs']; simpl.
  - reflexivity.
  - apply Permutation_nil in P. discriminate.
  - apply Permutation_sym, Permutation_nil in P. discriminate.
  - inversion H; inversion H'; congruence.
Qed.

Theorem rhat2_perm (chains chains' : list (list Qc)) (N : nat) :
  Permutation chains chains' -> Forall (fun c => length c = N) chains ->
  rhat2 chains = rhat2 chains'.
Proof.
  intros P H. unfold rhat2. rewrite <- (hd_length_perm N _ _ P H).
  set (n := (length (hd [] chains) / 2)%nat).
  pose proof (split_chains_perm n _ _ P) as PS.
  now rewrite (var_within_perm _ _ PS), (var_between_perm n _ _ PS).
Qed.

Lemma ess_parts_perm (chains chains' : list (list Qc)) (N : nat) :
  Permutation chains chains' -> Forall (fun c => length c = N) chains ->
  ess_parts chains = ess_parts chains'.
Proof.
  intros P H. unfold ess_parts.
  rewrite <- (hd_length_perm N _ _ P H), <- (Permutation_length P),
    <- (var_within_perm _ _ P), <- (var_between_perm _ _ _ P). reflexivity.
Qed.

Lemma rho_perm chains chains' w vp l : Permutation chains chains' -> rho chains w vp l = rho chains' w vp l.
Proof. intros P. unfold rho. now rewrite (mean_perm _ _ (Permutation_map (autocov l) P)). Qed.

Theorem ess_perm (chains chains' : list (list Qc)) (N : nat) :
  Permutation chains chains' -> Forall (fun c => length c = N) chains ->
  ess chains = ess chains'.
Proof.
  intros P H. unfold ess, ess_terms. rewrite <- (ess_parts_perm _ _ N P H).
  destruct (ess_parts chains) as [[[m n] w] vp].
  rewrite (map_ext (rho chains w vp) (rho chains' w vp)) by (intros; apply rho_perm, P).
  reflexivity.
Qed.

(** with any square-root function: the reported statistic [sqrt (var+ / W)] *)
Theorem rhat_affine (sqrt : Qc -> Qc) (a b : Qc) (chains : list (list Qc)) (N : nat) :
  a <> 0 -> (2 <= N)%nat -> Forall (fun c => length c = N) chains ->
  rhat sqrt (amap a b chains) = rhat sqrt chains.
Proof. intros. unfold rhat. f_equal. eapply rhat2_affine; eassumption. Qed.

Theorem rhat_perm (sqrt : Qc -> Qc) (chains chains' : list (list Qc)) (N : nat) :
  Permutation chains chains' -> Forall (fun c => length c = N) chains ->
  rhat sqrt chains = rhat sqrt chains'.
Proof. intros. unfold rhat. f_equal. eapply rhat2_perm; eassumption. Qed.

(** ------------------------------------------------------------------------------------------
    5. The formulas, spelled out                                                               *)

(** R-hat^2 = ((n-1)/n W + B/n) / W  with  W = mean of the half-chain variances,
    B = n * (sample variance of the half-chain means), n = N div 2, on the 2m half chains. *)
Theorem rhat2_formula (chains : list (list Qc)) :
  let n := (length (hd [] chains) / 2)%nat in
  let halves := flat_map (fun c => [firstn n c; firstn n (skipn n c)]) chains in
  let W := mean (map var1 halves) in
  let B := qn n * var1 (map mean halves) in
  rhat2 chains = (((qn n - 1) * W + B) / qn n) / W.
Proof. reflexivity. Qed.

(** ESS = m n / (1 + 2 sum_{t=1}^{T} rho_t),  rho_t = 1 - (W - mean_j acov_j(t)) / var+,
    acov_j(t) = (1/(n-t)) sum_i (x_ji - mean_j)(x_j,i+t - mean_j),  T = last lag before the first
    negative rho_t;  var+ = ((n-1) W + B)/n with B = 0 for a single chain. *)
Theorem ess_formula (chains : list (list Qc)) :
  let m := length chains in
  let n := length (hd [] chains) in
  let W := mean (map var1 chains) in
  let B := if (m =? 1)%nat then 0 else qn n * var1 (map mean chains) in
  let vp := ((qn n - 1) * W + B) / qn n in
  let acov t c := dot (map (fun x => x - mean c) c) (skipn t (map (fun x => x - mean c) c)) / qn (length c - t) in
  let rho_t t := 1 - (W - mean (map (acov t) chains)) / vp in
  ess chains = qn m * qn n / (1 + (1 + 1) * sum_until_neg (map rho_t (seq 1 (n - 1)))).
Proof. reflexivity. Qed.

(** [sum_until_neg] adds exactly the terms before the first negative one *)
Lemma sum_until_neg_spec (ts : list Qc) :
  exists T, (T <= length ts)%nat
            /\ sum_until_neg ts = sumq (firstn T ts)
            /\ Forall (fun t => qleb 0 t = true) (firstn T ts)
            /\ ((T < length ts)%nat -> qleb 0 (nth T ts 0) = false).
Proof.
  induction ts as [|t ts (T & HT & Hs & Hall & Hneg)]; simpl.
  - exists O. simpl. split; [lia|]. split; [reflexivity|]. split; [constructor|]. intros; lia.
  - destruct (qleb 0 t) eqn:E.
    + exists (S T). simpl. split; [lia|]. split; [now rewrite Hs|]. split; [now constructor|].
      intros Hlt. apply Hneg. lia.
    + exists O. simpl. split; [lia|]. split; [reflexivity|]. split; [constructor|]. intros _. exact E.
Qed.

(** ------------------------------------------------------------------------------------------
    6. Soundness of the decidable checks, and the model satisfies them                         *)

Lemma Q2Qc_this (x : Qc) : Q2Qc (this x) = x.
Proof. apply Qc_is_canon. simpl. apply Qred_correct. Qed.

Lemma cQ_this (l : list Qc) : cQ (map this l) = l.
Proof. unfold cQ. rewrite map_map. rewrite <- (map_id l) at 2. apply map_ext, Q2Qc_this. Qed.

Lemma bolfi_ok_sound k chains w i_n arr :
  bolfi_ok k chains w (Some i_n) arr = true ->
  let L := (length (hd [] chains) - w)%nat in
  i_n = (length chains * L)%nat /\ length arr = i_n
  /\ forall r, (r < i_n)%nat ->
       cQ (nth r arr []) = firstn k (nth (w + r mod L) (nth (r / L) chains []) []).
Proof.
  intros H L. unfold bolfi_ok in H. cbv zeta in H. fold L in H.
  apply andb_true_iff in H as [H H3]. apply andb_true_iff in H as [H1 H2].
  apply Nat.eqb_eq in H1, H2. repeat split; auto.
  intros r Hr. rewrite forallb_forall in H3. specialize (H3 r).
  destruct (list_eq_dec Qc_eq_dec _ _) as [E|]; [exact E|].
  assert (false = true); [|discriminate]. apply H3, in_seq. lia.
Qed.

Lemma array_ok_sound names o arr :
  array_ok names o arr = true ->
  forall j, (j < length names)%nat ->
    exists col, lookup (nth j names EmptyString) o = Some col /\ length col = length arr
      /\ forall r, (r < length arr)%nat ->
           length (nth r arr []) = length names /\ nth r col 0 = Q2Qc (nth j (nth r arr []) 0%Q).
Proof.
  unfold array_ok. intros H j Hj. apply andb_true_iff in H as [Hrows Hcols].
  rewrite forallb_forall in Hrows, Hcols.
  specialize (Hcols j). rewrite in_seq in Hcols. specialize (Hcols ltac:(lia)).
  destruct (lookup (nth j names EmptyString) o) as [col|]; [|discriminate].
  apply andb_true_iff in Hcols as [Hl Hv]. apply Nat.eqb_eq in Hl.
  exists col. repeat split; auto.
  - apply Nat.eqb_eq, Hrows, nth_In, H.
  - rewrite forallb_forall in Hv. apply Qc_eq_bool_correct, Hv, in_seq. lia.
Qed.

Lemma bolfi_model_ok k (chains : list (list (list Qc))) N w :
  Forall (fun c => length c = N) chains ->
  Forall (Forall (fun row => length row = k)) chains ->
  bolfi_ok k chains w (Some (length (bolfi_rows chains w))) (map (map this) (bolfi_rows chains w)) = true.
Proof.
  intros HN Hk. unfold bolfi_ok.
  assert (HNhd : chains <> [] -> length (hd [] chains) = N).
  { destruct chains; [congruence|]. inversion HN. auto. }
  rewrite (bolfi_rows_length chains N w HN).
  destruct chains as [|c0 cs]; [reflexivity|].
  remember (c0 :: cs) as chains eqn:Ech.
  rewrite HNhd by (subst; discriminate).
  rewrite Nat.eqb_refl, map_length, (bolfi_rows_length chains N w HN), Nat.eqb_refl. simpl.
  apply forallb_forall. intros r Hr. apply in_seq in Hr. destruct Hr as [_ Hr]. simpl in Hr.
  destruct (Nat.lt_ge_cases w N) as [Hw|Hw]; [|replace (N - w)%nat with O in Hr by lia; lia].
  destruct (list_eq_dec Qc_eq_dec _ _) as [|Hne]; [reflexivity|]. exfalso. apply Hne.
  assert (Hr' : (r < length (bolfi_rows chains w))%nat) by (rewrite (bolfi_rows_length chains N w HN); exact Hr).
  rewrite (nth_indep _ [] (map this [])) by (rewrite map_length; exact Hr').
  rewrite map_nth, cQ_this, (bolfi_rows_index chains N w r HN Hw Hr).
  symmetry. apply firstn_all2.
  assert (HL : (N - w <> 0)%nat) by lia.
  assert (Hq : (r / (N - w) < length chains)%nat) by (apply Nat.div_lt_upper_bound; lia).
  pose proof (Nat.mod_upper_bound r (N - w) HL) as Hm.
  rewrite Forall_forall in Hk, HN.
  pose proof (nth_In chains [] Hq) as Hin.
  specialize (Hk _ Hin). specialize (HN _ Hin). rewrite Forall_forall in Hk.
  rewrite (Hk (nth (w + r mod (N - w)) (nth (r / (N - w)) chains []) [])); [lia|].
  apply nth_In. lia.
Qed.

(** ------------------------------------------------------------------------------------------
    7. The list-based model equals the index-sum (textbook) form [sp_rhat2] used by [ok]       *)

Lemma bigsum_ext n f g : (forall i, (i < n)%nat -> f i = g i) -> bigsum n f = bigsum n g.
Proof.
  induction n as [|n IH]; intros H; simpl; [reflexivity|].
  rewrite IH by (intros; apply H; lia). rewrite H by lia. reflexivity.
Qed.

Lemma bigsum_shift n f : bigsum (S n) f = f O + bigsum n (fun i => f (S i)).
Proof.
  induction n as [|n IH]; [simpl; ring|].
  change (bigsum (S (S n)) f) with (bigsum (S n) f + f (S n)). rewrite IH. simpl. ring.
Qed.

Lemma sumq_bigsum l : sumq l = bigsum (length l) (fun i => nth i l 0).
Proof.
  induction l as [|x l IH]; [reflexivity|].
  change (length (x :: l)) with (S (length l)). rewrite bigsum_shift. simpl. now rewrite IH.
Qed.

Lemma sumq_map_bigsum {A} (g : A -> Qc) (d : A) (l : list A) :
  sumq (map g l) = bigsum (length l) (fun i => g (nth i l d)).
Proof.
  rewrite sumq_bigsum, map_length. apply bigsum_ext. intros i Hi.
  rewrite (nth_indep (map g l) 0 (g d)) by (now rewrite map_length). apply map_nth.
Qed.

Lemma mean_rep l n f :
  length l = n -> (forall i, (i < n)%nat -> nth i l 0 = f i) -> mean l = bigsum n f / qn n.
Proof.
  intros Hl Hf. unfold mean. rewrite sumq_bigsum, Hl. f_equal. now apply bigsum_ext.
Qed.

Lemma var1_rep l n f :
  length l = n -> (forall i, (i < n)%nat -> nth i l 0 = f i) ->
  var1 l = bigsum n (fun i => sqr (f i - bigsum n f / qn n)) / qn (n - 1).
Proof.
  intros Hl Hf. unfold var1. rewrite (sumq_map_bigsum _ 0), Hl, (mean_rep l n f Hl Hf).
  f_equal. apply bigsum_ext. intros i Hi. now rewrite Hf.
Qed.

Definition Rep (cs : list (list Qc)) (x : nat -> nat -> Qc) (M n : nat) : Prop :=
  length cs = M /\ forall s, (s < M)%nat ->
    length (nth s cs []) = n /\ forall i, (i < n)%nat -> nth i (nth s cs []) 0 = x s i.

Lemma rep_mean cs x M n s : Rep cs x M n -> (s < M)%nat -> mean (nth s cs []) = sp_mean x n s.
Proof. intros [_ H] Hs. destruct (H s Hs) as [Hl Hx]. now apply mean_rep. Qed.

Lemma rep_var cs x M n s : Rep cs x M n -> (s < M)%nat -> var1 (nth s cs []) = sp_var x n s.
Proof. intros [_ H] Hs. destruct (H s Hs) as [Hl Hx]. unfold sp_var, sp_mean. now apply var1_rep. Qed.

Lemma rep_W cs x M n : Rep cs x M n -> var_within cs = sp_W x M n.
Proof.
  intros R. unfold var_within, sp_W, mean. rewrite map_length, (sumq_map_bigsum _ []).
  destruct R as [Hl H]. rewrite Hl. f_equal. apply bigsum_ext. intros s Hs.
  apply (rep_var cs x M n s (conj Hl H) Hs).
Qed.

Lemma rep_grand cs x M n : Rep cs x M n -> mean (map mean cs) = sp_grand x M n.
Proof.
  intros R. unfold sp_grand, mean at 1. rewrite map_length, (sumq_map_bigsum _ []).
  destruct R as [Hl H]. rewrite Hl. f_equal. apply bigsum_ext. intros s Hs.
  apply (rep_mean cs x M n s (conj Hl H) Hs).
Qed.

Lemma rep_B cs x M n : Rep cs x M n -> var_between n cs = sp_B x M n.
Proof.
  intros R. unfold var_between, sp_B, var1. rewrite (rep_grand cs x M n R), map_map, map_length.
  rewrite (sumq_map_bigsum _ []). destruct R as [Hl H]. rewrite Hl. f_equal. f_equal.
  apply bigsum_ext. intros s Hs. now rewrite (rep_mean cs x M n s (conj Hl H) Hs).
Qed.

Lemma nth_firstn_lt {A} (d : A) : forall n (l : list A) i, (i < n)%nat -> nth i (firstn n l) d = nth i l d.
Proof.
  induction n as [|n IH]; intros l i Hi; [lia|].
  destruct l as [|x l]; [reflexivity|]. destruct i as [|i]; simpl; [reflexivity | apply IH; lia].
Qed.

Lemma split_chains_length n chains : length (split_chains n chains) = (2 * length chains)%nat.
Proof. unfold split_chains. induction chains as [|c cs IH]; simpl; [reflexivity|]. rewrite IH. lia. Qed.

Lemma split_chains_rep n N chains :
  (2 * n <= N)%nat -> Forall (fun c => length c = N) chains ->
  Rep (split_chains n chains) (sx chains n) (2 * length chains) n.
Proof.
  intros HN H. split; [apply split_chains_length|]. intros s Hs.
  assert (Hq : (s / 2 < length chains)%nat) by (apply Nat.div_lt_upper_bound; lia).
  assert (Hnth : nth s (split_chains n chains) [] = nth (s mod 2) (split2 n (nth (s / 2) chains [])) []).
  { unfold split_chains. rewrite flat_map_concat_map.
    rewrite (nth_concat_uniform [] 2).
    - f_equal. rewrite (nth_indep _ [] (split2 n [])) by (now rewrite map_length). apply map_nth.
    - apply Forall_map, Forall_forall. intros; reflexivity.
    - rewrite map_length. lia. }
  rewrite Hnth. unfold sx.
  set (c := nth (s / 2) chains []).
  assert (Hc : length c = N).
  { rewrite Forall_forall in H. apply H, nth_In, Hq. }
  pose proof (Nat.mod_upper_bound s 2 ltac:(lia)) as Hm.
  destruct (s mod 2) as [|[|k]]; [| |lia]; simpl nth.
  - split; [rewrite firstn_length; lia|]. intros i Hi. rewrite nth_firstn_lt by exact Hi. reflexivity.
  - split; [rewrite firstn_length, skipn_length; lia|]. intros i Hi.
    rewrite nth_firstn_lt by exact Hi. rewrite nth_skipn_plus. f_equal. lia.
Qed.

Theorem rhat2_textbook (chains : list (list Qc)) (N : nat) :
  Forall (fun c => length c = N) chains -> rhat2 chains = sp_rhat2 chains.
Proof.
  intros H. unfold rhat2, sp_rhat2.
  set (n := (length (hd [] chains) / 2)%nat).
  assert (HN : (2 * n <= N)%nat \/ chains = []).
  { destruct chains as [|c cs]; [now right|left]. inversion H; subst. subst n. simpl hd.
    apply Nat.mul_div_le. lia. }
  assert (R : Rep (split_chains n chains) (sx chains n) (2 * length chains) n).
  { destruct HN as [HN|E]; [now apply (split_chains_rep n N)|].
    subst chains. split; [reflexivity|]. simpl. intros; lia. }
  rewrite (rep_W _ _ _ _ R), (rep_B _ _ _ _ R). reflexivity.
Qed.

(** ------------------------------------------------------------------------------------------
    8. Histories of assignments on one Sample object: the summaries depend on the CURRENT samples
       and weights only, i.e. they are those of a freshly constructed Sample holding them        *)

Lemma lookup_app_fresh (acc r : dict) k v :
  ~ In k (keys acc) -> lookup k (acc ++ (k, v) :: r) = Some v.
Proof.
  induction acc as [|[k' v'] acc IH]; simpl; intros Hn.
  - now rewrite String.eqb_refl.
  - destruct (String.eqb k k') eqn:E.
    + apply String.eqb_eq in E. subst. exfalso. apply Hn. now left.
    + apply IH. intro. apply Hn. now right.
Qed.

(** building [samples] from a dict whose keys are exactly the (distinct) parameter names, in that
    order, returns this very dict *)
Lemma samples_from_self : forall (d2 acc : dict),
  NoDup (keys (acc ++ d2)) -> samples_from (keys d2) (acc ++ d2) acc = Some (acc ++ d2).
Proof.
  induction d2 as [|[n v] d2 IH]; intros acc Hnd; simpl.
  - now rewrite app_nil_r.
  - assert (Hfresh : ~ In n (keys acc)).
    { unfold keys in *. rewrite map_app in Hnd. simpl in Hnd. apply NoDup_remove_2 in Hnd.
      intro Hin. apply Hnd. apply in_or_app. now left. }
    rewrite lookup_app_fresh by exact Hfresh.
    rewrite dset_fresh by exact Hfresh.
    replace (acc ++ (n, v) :: d2) with ((acc ++ [(n, v)]) ++ d2) by (rewrite <- app_assoc; reflexivity).
    apply IH. rewrite <- app_assoc. exact Hnd.
Qed.

Lemma samples_self (d : dict) : NoDup (keys d) -> samples (keys d) d = Some d.
Proof. intros H. unfold samples. apply (samples_from_self d []). exact H. Qed.

Lemma keys_combine (names : list string) : forall (cols : list (list Qc)),
  length cols = length names -> keys (combine names cols) = names.
Proof.
  induction names as [|n names IH]; destruct cols as [|c cols]; simpl; intros H; try reflexivity; try discriminate.
  f_equal. apply IH. lia.
Qed.

Lemma samples_keys names outputs s : NoDup names -> samples names outputs = Some s -> keys s = names.
Proof.
  intros Hnd Hs. unfold samples in Hs. apply samples_from_nodup in Hs; [|exact Hnd|intros ? ? []].
  destruct Hs as (cols & Hlen & Heq & _). simpl in Heq. subst s. apply keys_combine. exact Hlen.
Qed.

(** [d[k] = v] for a key that is present keeps the keys and their order *)
Lemma dset_keys_present (d : dict) k v : In k (keys d) -> keys (dset d k v) = keys d.
Proof.
  induction d as [|[k' v'] d IH]; simpl; intros Hin; [contradiction|].
  destruct (String.eqb k k') eqn:E; [reflexivity|]. simpl. f_equal. apply IH.
  destruct Hin as [Heq|Hin]; [|exact Hin]. subst. rewrite String.eqb_refl in E. discriminate.
Qed.

(** assignments a caller may make: any weights; a new column for an existing parameter *)
Definition op_wf (names : list string) (a : op) : Prop :=
  match a with OSetW _ => True | OSetCol k _ => In k names end.

Lemma step_keys names o a : keys (so_samples o) = names -> op_wf names a -> keys (so_samples (step o a)) = names.
Proof.
  intros Hk Hwf. destruct a as [w|k v]; simpl; [exact Hk|].
  rewrite dset_keys_present; [exact Hk|]. rewrite Hk. exact Hwf.
Qed.

Lemma step_names o a : so_names (step o a) = so_names o.
Proof. destruct a; reflexivity. Qed.

Lemma run_keys names : forall ops o,
  keys (so_samples o) = names -> Forall (op_wf names) ops -> keys (so_samples (run o ops)) = names.
Proof.
  induction ops as [|a ops IH]; intros o Hk Hwf; simpl; [exact Hk|].
  inversion Hwf as [|? ? Ha Hr]. apply IH; [apply step_keys; assumption | exact Hr].
Qed.

Lemma run_names : forall ops o, so_names (run o ops) = so_names o.
Proof. induction ops as [|a ops IH]; intros o; simpl; [reflexivity|]. now rewrite IH, step_names. Qed.

(** Main statement.  After ANY sequence of assignments to [weights] and to columns of [samples], the
    object is indistinguishable (for the summaries) from [Sample(outputs = its current samples,
    parameter_names, weights = its current weights)]: same samples dict, same weights, hence the same
    array, means and quantiles at every level.  Nothing of the constructor's arguments or of earlier
    states survives. *)
Theorem history_fresh (names : list string) (outputs : dict) (w0 : option (list Qc)) (o : sobj) (ops : list op) :
  NoDup names -> construct names outputs w0 = Some o -> Forall (op_wf names) ops ->
  let o' := run o ops in
  exists f, construct names (so_samples o') (so_weights o') = Some f
            /\ so_samples f = so_samples o' /\ so_weights f = so_weights o'
            /\ so_array f = so_array o' /\ so_means f = so_means o'
            /\ forall alpha, so_quantiles f alpha = so_quantiles o' alpha.
Proof.
  intros Hnd Hc Hwf o'. unfold construct in Hc.
  destruct (samples names outputs) as [s|] eqn:Hs; [|discriminate]. inversion Hc; subst o. clear Hc.
  assert (Hk : keys (so_samples o') = names).
  { apply run_keys; [|exact Hwf]. simpl. eapply samples_keys; eassumption. }
  pose proof (samples_self (so_samples o')) as Hs'. rewrite Hk in Hs'. specialize (Hs' Hnd).
  unfold construct. rewrite Hs'. simpl.
  eexists. split; [reflexivity|]. simpl. unfold so_array, so_means, so_quantiles. simpl. repeat split; reflexivity.
Qed.

(** the last assignment to [weights] is the one every later summary uses *)
Theorem history_last_weights (o : sobj) (ops : list op) (w : option (list Q)) :
  so_weights (run o (ops ++ [OSetW w])) = option_map (map Q2Qc) w
  /\ so_samples (run o (ops ++ [OSetW w])) = so_samples (run o ops).
Proof. unfold run. rewrite fold_left_app. simpl. split; reflexivity. Qed.

(** the means of the model are the definition  sum w_i x_i / sum w_i  of each stored column *)
Lemma opt_all_nth {A} : forall (l : list (option A)) (r : list A),
  opt_all l = Some r -> length r = length l /\ forall j x, nth_error r j = Some x -> nth_error l j = Some (Some x).
Proof.
  induction l as [|[a|] l IH]; intros r H; simpl in H.
  - inversion H. split; [reflexivity|]. intros [|j] x Hx; discriminate.
  - destruct (opt_all l) as [r'|] eqn:E; [|discriminate]. inversion H; subst r. clear H.
    destruct (IH r' eq_refl) as [Hl Hn]. split; [simpl; now rewrite Hl|].
    intros [|j] x Hx; simpl in *; [now inversion Hx | apply Hn; exact Hx].
  - discriminate.
Qed.

Theorem means_of_spec (s : dict) (w : option (list Qc)) (ms : list (string * Qc)) :
  means_of s w = Some ms ->
  length ms = length s
  /\ forall j k v, nth_error ms j = Some (k, v) ->
       exists col, nth_error s j = Some (k, col)
                   /\ let w' := match w with None => repeat 1 (length col) | Some w => w end in
                      length w' = length col /\ v = wsum w' col / sumq w'
                      /\ (w <> None -> sumq w' <> 0).
Proof.
  unfold means_of. intros H. apply opt_all_nth in H as [Hl Hn]. rewrite map_length in Hl. split; [exact Hl|].
  intros j k v Hj. apply Hn in Hj. rewrite nth_error_map in Hj.
  destruct (nth_error s j) as [[k' col]|]; [|discriminate]. simpl in Hj.
  destruct (average w col) as [a|] eqn:Ea; [|discriminate]. simpl in Hj. inversion Hj; subst k' a. clear Hj.
  exists col. split; [reflexivity|]. cbv zeta. destruct w as [w|].
  - unfold average in Ea. destruct (length w =? length col)%nat eqn:El; [|discriminate]. simpl in Ea.
    destruct (qeqb (sumq w) 0) eqn:Ez; [discriminate|]. inversion Ea. apply Nat.eqb_eq in El.
    repeat split; [exact El|]. intros _ Hz. unfold qeqb, Qc_eq_bool in Ez.
    destruct (Qc_eq_dec (sumq w) 0); [discriminate|contradiction].
  - rewrite average_none_is_unit_weights in Ea. inversion Ea. rewrite repeat_length.
    repeat split. intros Hc. contradiction.
Qed.

(** on a freshly constructed object the state-based summaries are the constructor-based ones of
    sections 2-3 ([samples_array], [sample_means], [model_quantiles]) *)
Theorem construct_summaries names outputs w o :
  construct names outputs w = Some o ->
  so_array o = samples_array names outputs /\ so_means o = sample_means names outputs w
  /\ (forall alpha, so_quantiles o alpha = model_quantiles names outputs w alpha)
  /\ so_n o = n_samples names outputs.
Proof.
  unfold construct, samples_array, sample_means, model_quantiles, so_array, so_means, so_quantiles, so_n.
  destruct (samples names outputs) as [s|]; [|discriminate]. intros H. inversion H; subst o. simpl.
  repeat split; reflexivity.
Qed.

(** ------------------------------------------------------------------------------------------
    9. [quantile] against the definition in use before the order of its checks was aligned with
       the Python code ([quantile_old]): the same function on every well-formed input            *)

Lemma insert_fst p p' : forall a b, fst p = fst p' -> map fst a = map fst b ->
  map fst (insert p a) = map fst (insert p' b).
Proof.
  induction a as [|u a IH]; intros [|v b] Hp H; simpl in *; try discriminate; [now rewrite Hp|].
  injection H as Hu H. rewrite Hp, Hu.
  destruct (qleb (fst p') (fst v)); simpl; [now rewrite Hp, Hu, H|].
  rewrite Hu. f_equal. now apply IH.
Qed.

(** the sorted VALUES do not depend on what is attached to them *)
Lemma isort_fst : forall a b, map fst a = map fst b -> map fst (isort a) = map fst (isort b).
Proof.
  induction a as [|u a IH]; intros [|v b] H; simpl in *; try discriminate; [reflexivity|].
  injection H as Hu H. apply insert_fst; [exact Hu | now apply IH].
Qed.

Lemma map_fst_combine {A B} : forall (x : list A) (w : list B), length w = length x -> map fst (combine x w) = x.
Proof.
  induction x as [|a x IH]; intros [|b w] H; simpl in *; try discriminate; [reflexivity|].
  f_equal. apply IH. lia.
Qed.

Lemma hd_error_map {A B} (f : A -> B) (l : list A) : hd_error (map f l) = option_map f (hd_error l).
Proof. destruct l; reflexivity. Qed.

(** [alpha = 0]: the minimum, whatever the weights (of the right length) *)
Lemma quantile_zero_min x w : length w = length x ->
  option_map fst (hd_error (isort (combine x x))) = option_map fst (hd_error (isort (combine x w))).
Proof.
  intro H. rewrite <- !hd_error_map. f_equal. apply isort_fst.
  now rewrite !map_fst_combine.
Qed.

(** equal lengths and a non-zero weight sum (in particular: a positive one), or no weights at all:
    [quantile] computes exactly what [quantile_old] computed.  The correspondence predicates
    [agree] / [ok] evaluate [quantile] on recorded inputs; on every such well-formed input their
    value is therefore the one obtained with the old definition. *)
Theorem quantile_unchanged_on_wf (x : list Qc) (alpha : Qc) (w : option (list Qc)) :
  match w with Some w => length w = length x /\ sumq w <> 0 | None => True end ->
  quantile x alpha w = quantile_old x alpha w.
Proof.
  intro H. unfold quantile, quantile_old.
  set (w' := match w with None => repeat 1 (length x) | Some w => w end).
  assert (Hl : length w' = length x) by (subst w'; destruct w as [w|]; [apply H | apply repeat_length]).
  rewrite Hl, Nat.eqb_refl. cbn [negb]. cbv iota.
  destruct (qeqb alpha 0); [now apply quantile_zero_min|].
  destruct (qeqb (sumq w') 0) eqn:Ez; [|reflexivity].
  unfold qeqb, Qc_eq_bool in Ez. destruct (Qc_eq_dec (sumq w') 0) as [E|]; [|discriminate]. clear Ez.
  destruct w as [w|]; subst w'; [now destruct H|].
  rewrite sumq_ones in E. destruct x as [|a x]; [reflexivity|].
  exfalso. revert E. apply qn_nonzero. discriminate.
Qed.

(** ... and [quantile_old] differed from [quantile] exactly as described in Num/Results.v *)
Theorem quantile_changed_only_off_wf (x : list Qc) (alpha : Qc) (w : list Qc) :
  quantile x alpha (Some w) <> quantile_old x alpha (Some w) ->
  (alpha = 0 /\ length w <> length x) \/ (alpha <> 0 /\ length w = length x /\ sumq w = 0 /\ length x <> 1%nat).
Proof.
  intro H. destruct (Nat.eq_dec (length w) (length x)) as [El|El].
  - destruct (Qc_eq_dec (sumq w) 0) as [Ez|Ez].
    + right. destruct (Qc_eq_dec alpha 0) as [Ea|Ea].
      * exfalso. apply H. subst alpha. unfold quantile, quantile_old.
        rewrite El, Nat.eqb_refl. cbn. now apply quantile_zero_min.
      * repeat split; auto. intro E1. apply H. unfold quantile, quantile_old.
        rewrite El, Nat.eqb_refl, E1. cbn [negb Nat.eqb andb]. rewrite andb_false_r.
        unfold qeqb at 1 2, Qc_eq_bool. destruct (Qc_eq_dec alpha 0); [contradiction|reflexivity].
    + exfalso. apply H. now apply (quantile_unchanged_on_wf x alpha (Some w)).
  - left. split; [|exact El]. destruct (Qc_eq_dec alpha 0) as [Ea|Ea]; [exact Ea|].
    exfalso. apply H. unfold quantile, quantile_old.
    apply Nat.eqb_neq in El. rewrite El.
    unfold qeqb, Qc_eq_bool. destruct (Qc_eq_dec alpha 0); [contradiction|reflexivity].
Qed.
