(** Proofs about the NUTS control-flow model (Num/Nuts.v): number of returned states and the
    support invariant through the tree recursion, for every oracle, stream, step-size schedule,
    tree depth and chain length.                                                               *)
From Coq Require Import List Bool Arith Lia PrimFloat.
From Elfi Require Import Num.Mcmc Num.Nuts.
Import ListNotations.

Section Proofs.
  Variables P M Sz SV E U : Type.
  Variable base : Sz -> SV -> P -> M -> leaf P M.
  Variable uturn_ok : P -> M -> P -> M -> bool.
  Variable sneg : Sz -> bool.
  Variable sopp : Sz -> Sz.
  Variable acc : U -> nat -> nat -> bool.
  Variable dir : U -> bool.
  Variable slice : P -> M -> E -> SV.
  Variable eps : nat -> Sz.
  Variable tinf : P -> bool.

  Notation build := (build P M Sz SV E U base uturn_ok sneg acc).
  Notation dloop := (dloop P M Sz SV E U base uturn_ok sneg sopp acc dir).
  Notation iter := (iter P M Sz SV E U base uturn_ok sneg sopp acc dir slice eps).
  Notation iters := (iters P M Sz SV E U base uturn_ok sneg sopp acc dir slice eps).
  Notation nuts := (nuts P M Sz SV E U base uturn_ok sneg sopp acc dir slice eps tinf).

  (** ---- number of returned states ---- *)

  Lemma iters_length : forall md k ii prev st l rest,
    iters md k ii prev st = Some (l, rest) -> length l = k.
  Proof.
    induction k; intros ii prev st l rest H; simpl in H.
    - inversion H; reflexivity.
    - destruct (iter md ii prev st) as [[x st']|]; try discriminate.
      destruct (iters md k (S ii) x st') as [[l' st'']|] eqn:EQ; try discriminate.
      inversion H; subst. simpl. f_equal. eauto.
  Qed.

  Theorem nuts_length : forall n md ni p0 st l rest,
    nuts n md ni p0 st = NChain l rest -> length l = n.
  Proof.
    intros n md ni p0 st l rest H. unfold Nuts.nuts in H.
    destruct (tinf p0); try discriminate.
    destruct (skip_init _ _ _ ni st); try discriminate.
    destruct (iters md n 1 p0 l0) as [[l' r']|] eqn:EQ; try discriminate.
    inversion H; subst. eapply iters_length; eauto.
  Qed.

  (** ---- the support invariant ---- *)

  Variable good : P -> Prop.          (* target(p) is neither -inf nor nan *)
  Variable svok : SV -> Prop.         (* the slice variable is neither -inf nor nan *)

  (** a ratio 0/n is never above a uniform draw; a ratio n/n = 1 always is (rand() in [0,1)) *)
  Hypothesis acc_zero : forall u n, acc u 0 n = false.
  Hypothesis acc_full : forall u n, 0 < n -> acc u n n = true.
  (** [log_slicevar <= target(params1) - 0.5 |momentum1|^2] with a proper slice variable excludes
      target(params1) = -inf / nan  (see [leaf_in_good] below for the binary64 argument) *)
  Hypothesis leaf_good : forall s sv p m, svok sv -> l_in (base s sv p m) = true -> good (l_p (base s sv p m)).
  (** the slice variable drawn at a good state is proper (no overflow of the log joint) *)
  Hypothesis slice_ok : forall p m e, good p -> svok (slice p m e).

  Definition tree_inv (t : tree P M) : Prop := 0 < t_n t -> good (t_p1 t).

  Lemma build_inv : forall d s sv p m st t st',
    svok sv -> build d s sv p m st = Some (t, st') -> tree_inv t.
  Proof.
    induction d as [|d IH]; intros s sv p m st t st' Hsv H; simpl in H.
    - inversion H; subst. unfold tree_inv, leaf_tree; simpl.
      destruct (l_in (base s sv p m)) eqn:Ein; [|lia]. intros _. apply leaf_good; auto.
    - destruct (build d s sv p m st) as [[t1 st1]|] eqn:E1; try discriminate.
      pose proof (IH _ _ _ _ _ _ _ Hsv E1) as I1.
      destruct (t_ok t1); [|inversion H; subst; exact I1].
      match type of H with context [build d s sv ?p' ?m' st1] =>
        destruct (build d s sv p' m' st1) as [[t2 st2]|] eqn:E2; try discriminate end.
      pose proof (IH _ _ _ _ _ _ _ Hsv E2) as I2.
      destruct (draw_if_pos _ _ _ acc (t_n t2) (t_n t1 + t_n t2) st2) as [[a st3]|] eqn:E3; try discriminate.
      inversion H; subst. unfold tree_inv, combine; simpl. intros Hn.
      unfold draw_if_pos in E3.
      destruct (0 <? t_n t2) eqn:E0.
      + apply Nat.ltb_lt in E0.
        destruct st2 as [|[?|?|u] r]; try discriminate. inversion E3; subst.
        destruct (acc u (t_n t2) (t_n t1 + t_n t2)) eqn:Ea.
        * apply I2; auto.
        * destruct (t_n t1) as [|k] eqn:En1.
          -- simpl in Ea. rewrite acc_full in Ea; [discriminate|auto].
          -- apply I1. lia.
      + apply Nat.ltb_ge in E0. inversion E3; subst. apply I1. lia.
  Qed.

  Lemma dloop_good : forall fuel depth s sv cur pl ml pr mr nok st x st',
    svok sv -> good cur ->
    dloop fuel depth s sv cur pl ml pr mr nok st = Some (x, st') -> good x.
  Proof.
    induction fuel as [|f IH]; intros depth s sv cur pl ml pr mr nok st x st' Hsv Hc H; simpl in H.
    - inversion H; subst; auto.
    - destruct st as [|[?|?|ud] st1]; try discriminate.
      match type of H with context [build depth ?s' sv ?p' ?m' st1] =>
        destruct (build depth s' sv p' m' st1) as [[t st2]|] eqn:EB; try discriminate end.
      pose proof (build_inv _ _ _ _ _ _ _ _ Hsv EB) as I.
      destruct (draw_if_ok _ _ _ acc (t_ok t) (t_n t) nok st2) as [[a st3]|] eqn:ED; try discriminate.
      assert (Hc' : good (if a then t_p1 t else cur)).
      { destruct a; auto. apply I.
        unfold draw_if_ok in ED. destruct (t_ok t); [|inversion ED].
        destruct st2 as [|[?|?|u] r]; try discriminate. inversion ED as [[Ea Er]].
        destruct (t_n t); [rewrite acc_zero in Ea; discriminate|lia]. }
      match type of H with (if ?c then _ else _) = _ => destruct c end.
      + eapply IH; eauto.
      + inversion H; subst; auto.
  Qed.

  Lemma iter_good : forall md ii prev st x st',
    good prev -> iter md ii prev st = Some (x, st') -> good x.
  Proof.
    intros md ii prev st x st' Hp H. unfold Nuts.iter in H.
    destruct st as [|[m0|?|?] st]; try discriminate.
    destruct st as [|[?|e|?] st]; try discriminate.
    eapply dloop_good; eauto.
  Qed.

  Lemma iters_good : forall md k ii prev st l rest,
    good prev -> iters md k ii prev st = Some (l, rest) -> Forall good l.
  Proof.
    induction k; intros ii prev st l rest Hp H; simpl in H.
    - inversion H; constructor.
    - destruct (iter md ii prev st) as [[x st']|] eqn:E1; try discriminate.
      destruct (iters md k (S ii) x st') as [[l' st'']|] eqn:E2; try discriminate.
      inversion H; subst. pose proof (iter_good _ _ _ _ _ _ Hp E1). constructor; eauto.
  Qed.

  Theorem nuts_support : forall n md ni p0 st l rest,
    good p0 -> nuts n md ni p0 st = NChain l rest -> Forall good l.
  Proof.
    intros n md ni p0 st l rest Hp H. unfold Nuts.nuts in H.
    destruct (tinf p0); try discriminate.
    destruct (skip_init _ _ _ ni st); try discriminate.
    destruct (iters md n 1 p0 l0) as [[l' r']|] eqn:EQ; try discriminate.
    inversion H; subst. eapply iters_good; eauto.
  Qed.

  (** every emitted state is the previous state or the proposal of a subtree built in that
      iteration; stated on one run of the doubling loop *)
  Lemma build_steps_pos : forall d s sv p m st t st',
    build d s sv p m st = Some (t, st') -> 0 < t_steps t.
  Proof.
    induction d as [|d IH]; intros s sv p m st t st' H; simpl in H.
    - inversion H; subst. simpl. lia.
    - destruct (build d s sv p m st) as [[t1 st1]|] eqn:E1; try discriminate.
      pose proof (IH _ _ _ _ _ _ _ E1).
      destruct (t_ok t1); [|inversion H; subst; auto].
      match type of H with context [build d s sv ?p' ?m' st1] =>
        destruct (build d s sv p' m' st1) as [[t2 st2]|] eqn:E2; try discriminate end.
      destruct (draw_if_pos _ _ _ acc _ _ st2) as [[a st3]|]; try discriminate.
      inversion H; subst. simpl. lia.
  Qed.
End Proofs.

(** ---- soundness of the decidable [nok] evaluated on implementation outputs ---- *)

Definition nuts_property_holds (c : ncase) : Prop :=
  nagree c = true /\
  match nc_impl c with
  | NIBadInit => nc_tinf c = true
  | NIChain l =>
      nc_tinf c = false
      /\ length l = nc_iter c
      /\ (lookup_good (nc_good c) (nc_p0 c) = true -> forallb snd (nc_svok c) = true ->
          Forall (fun p => lookup_good (nc_good c) p = true) l
          /\ Forall (fun t => 0 < t_n t -> lookup_good (nc_good c) (t_p1 t) = true)
                    (nc_leaves c ++ map nd_res (nc_nodes c)))
  end.

Lemma tree_inv_b_sound : forall c t, tree_inv_b c t = true -> 0 < t_n t -> lookup_good (nc_good c) (t_p1 t) = true.
Proof.
  intros c t H Hn. unfold tree_inv_b in H. apply Nat.ltb_lt in Hn. rewrite Hn in H. exact H.
Qed.

Theorem nok_sound : forall c, nok c = true -> nuts_property_holds c.
Proof.
  intros c H. unfold nok in H. unfold nuts_property_holds.
  apply andb_true_iff in H. destruct H as [HAG H]. split; [exact HAG|].
  destruct (nc_impl c) as [|l]; auto.
  apply andb_true_iff in H. destruct H as [H HX].
  apply andb_true_iff in H. destruct H as [HT HL].
  split; [destruct (nc_tinf c); auto; discriminate|].
  split; [apply Nat.eqb_eq; auto|].
  intros G SV. rewrite G, SV in HX. simpl in HX.
  apply andb_true_iff in HX. destruct HX as [HX HC].
  apply andb_true_iff in HX. destruct HX as [HA HB].
  split.
  - apply Forall_forall. intros x Hx. rewrite forallb_forall in HA. auto.
  - apply Forall_forall. intros t Ht. apply in_app_or in Ht. destruct Ht as [Ht|Ht].
    + rewrite forallb_forall in HB. apply tree_inv_b_sound; auto.
    + apply in_map_iff in Ht. destruct Ht as [nd [Hnd Hin]]. subst.
      rewrite forallb_forall in HC. apply tree_inv_b_sound; auto.
Qed.

(** ---- a toy instance showing that the hypotheses of [nuts_support] are satisfiable together
    and that the model runs to a chain on it (non-vacuity): positions on a line with support
    [p <= 6], unit steps, uniforms in percent ---- *)
Module Toy.
  Definition base (s : bool) (sv : nat) (p m : nat) : leaf nat nat :=
    let p1 := if s then p - 1 else p + 1 in
    {| l_p := p1; l_m := m; l_in := (p1 <=? 6) && (sv <=? 10 - p1); l_ok := p1 <=? 8;
       l_out := negb (p1 <=? 8); l_mh := one |}.
  Definition uturn_ok (pl ml pr mr : nat) := pr - pl <=? 3.
  Definition acc (u k n : nat) := (u mod 100) * n <? 100 * k.
  Definition dir (u : nat) := u mod 100 <? 50.
  Definition slice (p m e : nat) := e.
  Definition good (p : nat) := p <= 6.
  Definition run := nuts nat nat bool nat nat nat base uturn_ok (fun s => s) negb acc dir slice
                         (fun _ => false) (fun _ => false).

  Lemma acc_zero : forall u n, acc u 0 n = false.
  Proof. intros. unfold acc. apply Nat.ltb_ge. lia. Qed.

  Lemma acc_full : forall u n, 0 < n -> acc u n n = true.
  Proof.
    intros u n Hn. unfold acc. apply Nat.ltb_lt.
    assert (u mod 100 < 100) by (apply Nat.mod_upper_bound; lia).
    apply Nat.mul_lt_mono_pos_r; auto.
  Qed.

  Lemma leaf_good : forall s sv p m, True -> l_in (base s sv p m) = true -> good (l_p (base s sv p m)).
  Proof.
    intros s sv p m _ H. unfold base in *. simpl in *. apply andb_true_iff in H. destruct H as [H _].
    apply Nat.leb_le in H. exact H.
  Qed.

  Theorem support : forall n md ni p0 st l rest,
    good p0 -> run n md ni p0 st = NChain l rest -> Forall good l.
  Proof.
    intros. eapply (nuts_support nat nat bool nat nat nat base uturn_ok (fun s => s) negb acc dir slice
                      (fun _ => false) (fun _ => false) good (fun _ => True)
                      acc_zero acc_full leaf_good (fun _ _ _ _ => I)); eauto.
  Qed.
End Toy.
