(** C14 "model_ok", lifted from one step ([C14_ModelOk.model_op_ok]) to whole edit scripts.

    [model_steps ms ops] replays the model exactly as [agree_steps] does ([step] on the list of live
    models) and records, after every step, the model's OWN dumps of all live models and
    [parameter_names] of each of them -- i.e. the [step_obs] list an implementation that agrees with
    the model would produce (a raising step is recorded as [None] and ends the script).

    [model_script_ok_partial]: that record passes the property predicate [ok_steps strict], clause
    by clause:
      - the edited model changed as stated ([op_ok], from [model_op_ok]),
      - no other live model changed ([others_set_nth], [others_app]; [snet_eqb_refl]),
      - a copy / a reloaded model equals its source, and the number of live models is right,
      - [parameter_names] is what [params_ok] asks ([params_ok_self]),
    for ALL scripts.  The clause "every live model stays consistent" ([forallb consistent_b dumps])
    is NOT derived here: it is the hypothesis [consistent_along] (decidable, evaluated on the model's
    own run).  What is missing for it is the preservation of the last two conjuncts of
    [consistent_b] by [step_model] -- [nodup_params] of the in-edges of every node (Prop-level
    version: [C14_C02_Link.run_PD]) and above all [acyclic_b], which is phrased through
    [topo_order] and has no completeness lemma wrt. the Prop-level [acyclic] that
    [update_node_acyclic] / [remove_node_acyclic] preserve.  The first three conjuncts are
    [Closed] ([run_closed]).  The strict variant also needs that no become replaces a node by itself
    or a descendant ([no_become_hazard]); the non-strict variant does not. *)
From Coq Require Import List String Ascii ZArith Arith Bool Lia.
From Elfi Require Import Graph.Net Graph.Edit Proofs.C14_Edit Proofs.C14_Become Proofs.C14_Copy
     Proofs.C14_ModelOk.
Import ListNotations.

(** ---- the model's own observable record of a script ---- *)
Fixpoint model_steps (ms : list snet) (ops : list eop) : list step_obs :=
  match ops with
  | [] => []
  | o :: r =>
      match step ms o with
      | Ok ms' => {| so_op := o; so_after := Some ms'; so_params := map parameter_names ms' |} :: model_steps ms' r
      | Err _ => [{| so_op := o; so_after := None; so_params := [] |}]
      end
  end.

(** it is what [agree_steps] compares the implementation with: the model agrees with itself *)
Lemma dumps_eqb_refl ms : dumps_eqb ms ms = true.
Proof. induction ms as [|m r IH]; simpl; [reflexivity|]. now rewrite snet_eqb_refl, IH. Qed.

Theorem model_steps_agree : forall ops ms, agree_steps ms (model_steps ms ops) = true.
Proof.
  induction ops as [|o r IH]; intros ms; simpl; [reflexivity|].
  destruct (step ms o) as [ms'|e] eqn:Es; simpl; rewrite Es; [|reflexivity].
  now rewrite dumps_eqb_refl, IH.
Qed.

(** ---- the hypotheses, as decidable checks along the model's own run.  Checking stops where
    [ok_steps] stops: at a raising step, at an [edge_hazard] step, and (non-strict) at a
    [become_hazard] step. ---- *)
Definition stops (strict : bool) (ms : list snet) (o : eop) : bool :=
  let before := nth (handle_of o) ms empty_net in
  edge_hazard o before || (negb strict && become_hazard o before).

Fixpoint along (strict : bool) (P : list snet -> eop -> list snet -> bool) (ms : list snet) (ops : list eop) : bool :=
  match ops with
  | [] => true
  | o :: r =>
      match step ms o with
      | Err _ => true
      | Ok ms' => stops strict ms o || (P ms o ms' && along strict P ms' r)
      end
  end.

(** every dump the model produces is consistent (the clause that is assumed, not proved) *)
Definition consistent_along (strict : bool) : list snet -> list eop -> bool :=
  along strict (fun _ _ ms' => forallb consistent_b ms').
(** no become onto the node itself or one of its descendants *)
Definition no_become_hazard (strict : bool) : list snet -> list eop -> bool :=
  along strict (fun ms o _ => negb (become_hazard o (nth (handle_of o) ms empty_net))).

(** ---- clause: parameter_names ---- *)
Lemma names_eqb_refl' l : names_eqb l l = true.
Proof. unfold names_eqb. destruct (list_eq_dec string_dec l l); congruence. Qed.

Theorem params_ok_self : forall ms, all2 params_ok ms (map parameter_names ms) = true.
Proof.
  induction ms as [|m r IH]; simpl; [reflexivity|].
  unfold params_ok at 1. now rewrite names_eqb_refl', IH.
Qed.

(** ---- clause: no other live model changed.  The anonymous [fix] of [ok_steps], verbatim. ---- *)
Definition others_fix (h : nat) :=
  fix others (i : nat) (bs as_ : list snet) {struct bs} : bool :=
    match bs, as_ with
    | [], _ => true
    | b :: br, a :: ar => (Nat.eqb i h || snet_eqb b a) && others (S i) br ar
    | _ :: _, [] => false
    end.

Lemma others_ok h : forall bs as_ i,
  (forall j b, nth_error bs j = Some b ->
     exists a, nth_error as_ j = Some a /\ (i + j = h \/ snet_eqb b a = true)) ->
  others_fix h i bs as_ = true.
Proof.
  induction bs as [|b br IH]; intros as_ i H; [reflexivity|].
  destruct (H 0 b eq_refl) as [a [Ha Hor]].
  destruct as_ as [|a' ar]; [discriminate|]. simpl in Ha. inversion Ha; subst a'.
  cbn [others_fix]. fold (others_fix h). apply andb_true_iff. split.
  - destruct Hor as [E|E]; [rewrite Nat.add_0_r in E; subst; now rewrite Nat.eqb_refl | rewrite E; apply orb_true_r].
  - apply IH. intros j b' Hj. destruct (H (S j) b' Hj) as [a2 [Ha2 Hor2]].
    exists a2. split; [exact Ha2|]. destruct Hor2; [left; lia | right; assumption].
Qed.

Theorem others_set_nth h a ms : others_fix h 0 ms (set_nth h a ms) = true.
Proof.
  apply others_ok. intros j b Hj. destruct (Nat.eq_dec h j) as [->|Hne].
  - exists a. split; [|left; reflexivity]. apply nth_error_set_nth_same. apply nth_error_Some. congruence.
  - exists b. split; [rewrite nth_error_set_nth_other by exact Hne; exact Hj | right; apply snet_eqb_refl].
Qed.

Theorem others_app h ms l : others_fix h 0 ms (ms ++ l) = true.
Proof.
  apply others_ok. intros j b Hj. exists b. split; [|right; apply snet_eqb_refl].
  rewrite nth_error_app1; [exact Hj | apply nth_error_Some; congruence].
Qed.

(** ---- one step of the model: all clauses of [ok_steps] but the consistency of the dumps ---- *)
Definition is_copy (o : eop) : bool := match o with ECopy _ | ESaveLoad _ => true | _ => false end.

Lemma step_shape ms o ms' :
  step ms o = Ok ms' ->
  exists m m', nth_error ms (handle_of o) = Some m /\ step_model m o = Ok m'
    /\ nth_error ms' (handle_of o) = Some m'
    /\ ((is_copy o = true /\ m' = m /\ ms' = ms ++ [m])
        \/ (is_copy o = false /\ ms' = set_nth (handle_of o) m' ms)).
Proof.
  intros H. unfold step in H.
  destruct (nth_error ms (handle_of o)) as [m|] eqn:En; [|discriminate].
  destruct (step_model m o) as [m'|] eqn:Em; simpl in H; [|discriminate].
  assert (Hlt : handle_of o < List.length ms) by (apply nth_error_Some; congruence).
  exists m, m'. split; [reflexivity|]. split; [exact Em|].
  destruct o; simpl in Em; inversion H; subst;
    try (split; [now apply nth_error_set_nth_same | right; split; reflexivity]);
    inversion Em; subst; (split; [rewrite nth_error_app1 by exact Hlt; exact En | left; repeat split]).
Qed.

(** the edited model changed as stated *)
Theorem step_clause_op_ok ms o ms' :
  step ms o = Ok ms' ->
  forallb consistent_b ms = true -> Forall (fun m => uniq (s_edges m)) ms ->
  become_hazard o (nth (handle_of o) ms empty_net) = false ->
  match nth_error ms (handle_of o), nth_error ms' (handle_of o) with
  | Some b, Some a => op_ok o b a
  | _, _ => false
  end = true.
Proof.
  intros Hs Hc Hu Hhz. destruct (step_shape _ _ _ Hs) as [m [m' [En [Em [En' _]]]]].
  rewrite En, En'. rewrite (nth_error_nth _ _ empty_net En) in Hhz.
  pose proof (nth_error_In _ _ En) as Hin.
  rewrite forallb_forall in Hc. rewrite Forall_forall in Hu.
  apply model_op_ok; auto. apply uniq_simple. now apply Hu.
Qed.

(** a copy / a reloaded model equals its source; the number of live models *)
Theorem step_clause_copy ms o ms' :
  step ms o = Ok ms' ->
  match o with
  | ECopy _ | ESaveLoad _ =>
      match nth_error ms (handle_of o), nth_error ms' (List.length ms) with
      | Some b, Some a => snet_eqb b a && Nat.eqb (List.length ms') (S (List.length ms))
      | _, _ => false
      end
  | _ => Nat.eqb (List.length ms') (List.length ms)
  end = true.
Proof.
  intros Hs. destruct (step_shape _ _ _ Hs) as [m [m' [En [Em [En' [[Hcp [-> ->]]|[Hcp ->]]]]]]].
  - assert (E : nth_error (ms ++ [m]) (List.length ms) = Some m)
      by (rewrite nth_error_app2 by lia; now rewrite Nat.sub_diag).
    assert (L : Nat.eqb (List.length (ms ++ [m])) (S (List.length ms)) = true)
      by (rewrite app_length; simpl; apply Nat.eqb_eq; lia).
    destruct o; try discriminate; rewrite En, E, L, snet_eqb_refl; reflexivity.
  - destruct o; try discriminate; rewrite length_set_nth; apply Nat.eqb_refl.
Qed.

(** no other live model changed *)
Theorem step_clause_others ms o ms' :
  step ms o = Ok ms' -> others_fix (handle_of o) 0 ms ms' = true.
Proof.
  intros Hs. destruct (step_shape _ _ _ Hs) as [m [m' [_ [_ [_ [[_ [_ ->]]|[_ ->]]]]]]].
  - apply others_app.
  - apply others_set_nth.
Qed.

(** the invariants of the induction are kept by a step *)
Lemma step_uniq ms o ms' :
  step ms o = Ok ms' -> Forall (fun m => uniq (s_edges m)) ms -> Forall (fun m => uniq (s_edges m)) ms'.
Proof. intros Hs Hu. apply (run_uniq [o] ms ms' Hu). simpl. now rewrite Hs. Qed.

(** ---- whole scripts ---- *)
Theorem model_steps_ok strict : forall ops ms,
  forallb consistent_b ms = true -> Forall (fun m => uniq (s_edges m)) ms ->
  consistent_along strict ms ops = true -> no_become_hazard strict ms ops = true ->
  ok_steps strict ms (model_steps ms ops) = true.
Proof.
  induction ops as [|o r IH]; intros ms Hc Hu Hca Hnb; [reflexivity|].
  unfold consistent_along, no_become_hazard in *. cbn [model_steps along] in *.
  destruct (step ms o) as [ms'|e] eqn:Es; [|reflexivity].
  cbn [ok_steps so_after so_op so_params]. unfold stops in Hca, Hnb. cbv zeta in Hca, Hnb.
  destruct (edge_hazard o (nth (handle_of o) ms empty_net)
            || negb strict && become_hazard o (nth (handle_of o) ms empty_net)); [reflexivity|].
  cbn [orb] in Hca, Hnb.
  apply andb_true_iff in Hca. destruct Hca as [Hc' Hca].
  apply andb_true_iff in Hnb. destruct Hnb as [Hhz Hnb]. apply negb_true_iff in Hhz.
  rewrite Hc'.
  rewrite (step_clause_op_ok _ _ _ Es Hc Hu Hhz).
  change ((fix others (i : nat) (bs as_ : list snet) {struct bs} : bool :=
             match bs with
             | [] => true
             | b :: br => match as_ with
                          | [] => false
                          | a :: ar => (Nat.eqb i (handle_of o) || snet_eqb b a) && others (S i) br ar
                          end
             end) 0 ms ms') with (others_fix (handle_of o) 0 ms ms').
  rewrite (step_clause_others _ _ _ Es).
  rewrite (step_clause_copy _ _ _ Es).
  rewrite params_ok_self. cbn [andb].
  apply IH; auto. eapply step_uniq; eauto.
Qed.

Lemma empty_uniq : Forall (fun m => uniq (s_edges m)) [empty_net].
Proof. constructor; [constructor | constructor]. Qed.

(** PARTIAL: the clause "every live model stays consistent" is the hypothesis [consistent_along]
    (missing: [step_model] preserves [nodup_params] / [acyclic_b] of [consistent_b] when no hazard
    flag is raised); every other clause of [ok_steps] is proved for all scripts. *)
Theorem model_script_ok_partial ops :
  consistent_along true [empty_net] ops = true -> no_become_hazard true [empty_net] ops = true ->
  ok_steps true [empty_net] (model_steps [empty_net] ops) = true.
Proof. apply model_steps_ok; [reflexivity | apply empty_uniq]. Qed.

(** the non-strict predicate stops at a become hazard: no hypothesis on become at all *)
Lemma no_become_hazard_nonstrict : forall ops ms, no_become_hazard false ms ops = true.
Proof.
  induction ops as [|o r IH]; intros ms; [reflexivity|].
  unfold no_become_hazard in *. cbn [along]. destruct (step ms o) as [ms'|]; [|reflexivity].
  unfold stops. cbv zeta. cbn [negb andb].
  destruct (edge_hazard o (nth (handle_of o) ms empty_net)); [reflexivity|]. cbn [orb].
  destruct (become_hazard o (nth (handle_of o) ms empty_net)); [reflexivity|]. cbn [negb andb orb]. apply IH.
Qed.

Theorem model_script_ok_nonstrict_partial ops :
  consistent_along false [empty_net] ops = true ->
  ok_steps false [empty_net] (model_steps [empty_net] ops) = true.
Proof.
  intros H. apply model_steps_ok; [reflexivity | apply empty_uniq | exact H | apply no_become_hazard_nonstrict].
Qed.

(** the hypotheses of the strict variant give those of the non-strict one *)
Lemma along_strict_nonstrict P : forall ops ms, along true P ms ops = true -> along false P ms ops = true.
Proof.
  induction ops as [|o r IH]; intros ms H; [reflexivity|]. cbn [along] in *.
  destruct (step ms o) as [ms'|]; [|reflexivity]. unfold stops in *. cbv zeta in *. cbn [negb andb] in *.
  rewrite orb_false_r in H.
  destruct (edge_hazard o (nth (handle_of o) ms empty_net)); [reflexivity|]. cbn [orb] in *.
  destruct (become_hazard o (nth (handle_of o) ms empty_net)); [reflexivity|]. cbn [orb].
  apply andb_true_iff in H. destruct H as [H1 H2]. now rewrite H1, IH.
Qed.

Corollary model_script_ok_strict_nonstrict ops :
  consistent_along true [empty_net] ops = true ->
  ok_steps false [empty_net] (model_steps [empty_net] ops) = true.
Proof. intros H. apply model_script_ok_nonstrict_partial. now apply along_strict_nonstrict. Qed.

(** agreement with the model transfers the clauses when the dumps are EQUAL to the model's (the
    predicate is evaluated on the model's own record) -- the case record of a script *)
Definition model_case (ops : list eop) : case := {| e_steps := model_steps [empty_net] ops; e_generated := [] |}.

Corollary model_case_ok_strict_partial ops :
  consistent_along true [empty_net] ops = true -> no_become_hazard true [empty_net] ops = true ->
  agree (model_case ops) = true /\ ok_strict (model_case ops) = true /\ ok (model_case ops) = true.
Proof.
  intros Hc Hb. unfold agree, ok_strict, ok, gens_consistent, model_case. cbn [e_steps e_generated forallb].
  rewrite model_steps_agree, (model_script_ok_partial _ Hc Hb), (model_script_ok_strict_nonstrict _ Hc).
  repeat split.
Qed.

(** ---- non-vacuity: a 6-step script with a copy, a become and a remove ---- *)
Local Open Scope string_scope.
Definition so_st (id : name) (param : bool) : sstate :=
  {| s_output := None; s_has_op := true; s_stochastic := param; s_observable := false; s_uses_observed := false;
     s_uses_batch_size := false; s_uses_meta := false; s_parameter := param; s_opid := id |}.
Definition so_script : list eop :=
  [ EAddNode 0 "t1" (so_st "t1" true) [] None;
    EAddNode 0 "t2" (so_st "t2" true) [] None;
    EAddNode 0 "s" (so_st "s" false) ["t1"] None;
    ECopy 0;
    EBecome 0 "t1" "t2";
    ERemove 1 "s" ].

Example model_script_ok_example :
  consistent_along true [empty_net] so_script = true
  /\ no_become_hazard true [empty_net] so_script = true
  /\ List.length (model_steps [empty_net] so_script) = 6
  /\ forallb (fun s => match so_after s with Some _ => true | None => false end)
             (model_steps [empty_net] so_script) = true
  /\ map so_params (model_steps [empty_net] so_script)
     = [[["t1"]]; [["t1"; "t2"]]; [["t1"; "t2"]]; [["t1"; "t2"]; ["t1"; "t2"]];
        [["t1"]; ["t1"; "t2"]]; [["t1"]; ["t1"; "t2"]]]
  /\ match run [empty_net] so_script with
     | Ok [m0; m1] => map fst (s_nodes m0) = ["s"; "t1"] /\ map fst (s_nodes m1) = ["t1"; "t2"]
     | _ => False
     end
  /\ ok_steps true [empty_net] (model_steps [empty_net] so_script) = true.
Proof.
  assert (Hc : consistent_along true [empty_net] so_script = true) by (vm_compute; reflexivity).
  assert (Hb : no_become_hazard true [empty_net] so_script = true) by (vm_compute; reflexivity).
  split; [exact Hc|]. split; [exact Hb|].
  split; [vm_compute; reflexivity|]. split; [vm_compute; reflexivity|]. split; [vm_compute; reflexivity|].
  split; [vm_compute; split; reflexivity|].
  exact (model_script_ok_partial _ Hc Hb).
Qed.
