(** Proofs for C11 (wave 2): the box the surrogate works in is built from (parameter_names, bounds
    dict) by name -- it does not depend on the key order of the dict, and coordinate i carries the
    interval the user gave for parameter_names[i].  Hence "in the box" (the decidable [ok]) means
    "every parameter inside ITS OWN interval". *)
From Coq Require Import List ZArith QArith Bool Arith Lia Permutation.
From Coq Require String.
From Elfi Require Import Num.Acq Proofs.C11_Acq.
Import ListNotations.
Local Close Scope Q_scope.

Lemma lookup_In d n iv : lookup d n = Some iv -> In (n, iv) d.
Proof.
  induction d as [|[k v] d IH]; simpl; [discriminate|].
  destruct (String.eqb k n) eqn:E.
  - apply String.eqb_eq in E. intros H. inversion H. subst. now left.
  - intros H. right. now apply IH.
Qed.

Lemma In_lookup d n iv : NoDup (map fst d) -> In (n, iv) d -> lookup d n = Some iv.
Proof.
  induction d as [|[k v] d IH]; simpl; [tauto|]. intros Hnd [H|H].
  - inversion H. subst. now rewrite String.eqb_refl.
  - inversion Hnd as [|? ? Hk Hnd']. subst. destruct (String.eqb k n) eqn:E.
    + apply String.eqb_eq in E. subst. exfalso. apply Hk. change n with (fst (n, iv)). now apply in_map.
    + now apply IH.
Qed.

Lemma lookup_None d n : lookup d n = None -> ~ In n (map fst d).
Proof.
  induction d as [|[k v] d IH]; simpl; [tauto|].
  destruct (String.eqb k n) eqn:E; [discriminate|]. intros H [Hk|Hk].
  - subst. now rewrite String.eqb_refl in E.
  - now apply IH.
Qed.

Lemma lookup_perm d d' n : NoDup (map fst d) -> Permutation d d' -> lookup d n = lookup d' n.
Proof.
  intros Hnd Hp.
  assert (Hnd' : NoDup (map fst d')) by (eapply Permutation_NoDup; [apply Permutation_map; exact Hp | exact Hnd]).
  destruct (lookup d n) as [iv|] eqn:E.
  - symmetry. apply In_lookup; auto. eapply Permutation_in; [exact Hp|]. now apply lookup_In.
  - destruct (lookup d' n) as [iv'|] eqn:E'; auto. exfalso.
    apply lookup_None in E. apply E. apply lookup_In in E'.
    change n with (fst (n, iv')). apply in_map. eapply Permutation_in; [apply Permutation_sym; exact Hp | exact E'].
Qed.

Lemma lookup_all_perm d d' names :
  NoDup (map fst d) -> Permutation d d' -> lookup_all d names = lookup_all d' names.
Proof.
  intros Hnd Hp. induction names as [|n r IH]; simpl; auto.
  now rewrite (lookup_perm d d' n Hnd Hp), IH.
Qed.

(** the box does not depend on the order in which the user wrote the dict *)
Theorem box_of_perm names d d' :
  NoDup (map fst d) -> Permutation d d' -> box_of names d = box_of names d'.
Proof.
  intros Hnd Hp. unfold box_of. rewrite <- (Permutation_length Hp).
  destruct (negb (Nat.eqb (length d) (length names))); auto.
  destruct (Nat.eqb (length d) 1) eqn:E.
  - apply Nat.eqb_eq in E. destruct d as [|a [|b d]]; simpl in E; try discriminate.
    apply Permutation_length_1_inv in Hp. now subst.
  - now apply lookup_all_perm.
Qed.

Lemma lookup_all_nth d : forall names bs,
  lookup_all d names = Some bs ->
  length bs = length names /\
  forall i n, nth_error names i = Some n -> exists iv, lookup d n = Some iv /\ nth_error bs i = Some iv.
Proof.
  induction names as [|m r IH]; simpl; intros bs H.
  - inversion H. split; auto. intros [|i] n Hn; discriminate.
  - destruct (lookup d m) as [iv|] eqn:E; [|discriminate].
    destruct (lookup_all d r) as [b|] eqn:Er; [|discriminate]. inversion H. subst.
    destruct (IH b eq_refl) as [Hl Hi]. split; [simpl; now rewrite Hl|].
    intros [|i] n Hn; simpl in Hn.
    + inversion Hn. subst. exists iv. auto.
    + simpl. now apply Hi.
Qed.

(** coordinate i of the box is the interval the dict binds to parameter_names[i] *)
Theorem box_of_by_name names d bs :
  box_of names d = Some bs ->
  length bs = length names /\
  (length names <> 1 ->
   forall i n, nth_error names i = Some n -> exists iv, lookup d n = Some iv /\ nth_error bs i = Some iv) /\
  (length names = 1 -> bs = map snd d).
Proof.
  unfold box_of. destruct (Nat.eqb (length d) (length names)) eqn:El; simpl; [|discriminate].
  apply Nat.eqb_eq in El. destruct (Nat.eqb (length d) 1) eqn:E1.
  - apply Nat.eqb_eq in E1. intros H. inversion H. subst. rewrite map_length. repeat split; auto. lia.
  - apply Nat.eqb_neq in E1. intros H. destruct (lookup_all_nth d names bs H) as [Hl Hi].
    repeat split; auto. lia.
Qed.

Lemma In_box_nth : forall bs x, In_box bs x ->
  forall i iv, nth_error bs i = Some iv -> exists xi, nth_error x i = Some xi /\ (fst iv <= xi /\ xi <= snd iv)%Q.
Proof.
  intros bs x H. induction H as [|b xi bs' x' Hb Hr IH]; intros i iv Hn.
  - destruct i; discriminate.
  - destruct i as [|i]; simpl in Hn.
    + inversion Hn. subst. exists xi. auto.
    + simpl. now apply IH.
Qed.

(** "in the box built from (names, dict)" read by parameter NAME *)
Theorem in_user_box_named names d bs x :
  box_of names d = Some bs -> length names <> 1 -> In_box bs x ->
  forall i n, nth_error names i = Some n ->
    exists iv xi, lookup d n = Some iv /\ nth_error x i = Some xi /\ (fst iv <= xi /\ xi <= snd iv)%Q.
Proof.
  intros E Hl Hb i n Hi. destruct (box_of_by_name _ _ _ E) as [_ [Hby _]].
  destruct (Hby Hl i n Hi) as [iv [Hlk Hnth]].
  destruct (In_box_nth bs x Hb i iv Hnth) as [xi [Hxi Hin]]. exists iv, xi. auto.
Qed.

(** what the decidable predicate establishes, by parameter NAME: every returned point has, at the
    position of parameter n, a value inside the interval the user's dict gives for n *)
Theorem ok_named c :
  Acq.ok c = true ->
  length (a_out c) = a_n c /\
  (length (a_names c) <> 1 ->
   forall x, In x (a_out c) -> forall i n, nth_error (a_names c) i = Some n ->
     exists iv xi, lookup (a_dict c) n = Some iv /\ nth_error x i = Some xi /\ (fst iv <= xi /\ xi <= snd iv)%Q).
Proof.
  intros H. destruct (C11_Acq.ok_sound c H) as [Hn Hb]. split; auto.
  intros Hl x Hx i n Hi. unfold Acq.ok in H. unfold a_bounds in Hb.
  destruct (box_of (a_names c) (a_dict c)) as [bs|] eqn:E; [|discriminate].
  destruct (box_of_by_name _ _ _ E) as [_ [Hby _]].
  destruct (Hby Hl i n Hi) as [iv [Hlk Hnth]].
  rewrite Forall_forall in Hb. destruct (In_box_nth bs x (Hb x Hx) i iv Hnth) as [xi [Hxi Hin]].
  exists iv, xi. auto.
Qed.
