(** Proofs about the ROMC box / line-search / posterior model (C19), stdlib part. *)
From Coq Require Import ZArith QArith Qabs List Bool Arith Lia Lqa.
From Elfi Require Import Num.Box.
Import ListNotations.
Open Scope Q_scope.

(** ---- booleans on Q ---- *)

Lemma Qltb_true a b : Qltb a b = true <-> a < b.
Proof.
  unfold Qltb. rewrite negb_true_iff. split; intro H.
  - apply Qnot_le_lt. intro Hle. apply Qle_bool_iff in Hle. congruence.
  - destruct (Qle_bool b a) eqn:E; [|reflexivity]. apply Qle_bool_iff in E. lra.
Qed.

Lemma Qltb_false a b : Qltb a b = false <-> b <= a.
Proof.
  unfold Qltb. rewrite negb_false_iff. apply Qle_bool_iff.
Qed.

Lemma Qle_bool_false a b : Qle_bool a b = false <-> b < a.
Proof.
  split; intro H.
  - apply Qnot_le_lt. intro Hle. apply Qle_bool_iff in Hle. congruence.
  - destruct (Qle_bool a b) eqn:E; [|reflexivity]. apply Qle_bool_iff in E. lra.
Qed.

(** ================= contains: the early-exit loop is the conjunction ================= *)

Lemma inside_loop_within : forall p l, length p = length l -> inside_loop p l = Some (within p l).
Proof.
  induction p as [|x p IH]; intros [|[lo hi] l] Hlen; simpl in *; try discriminate; [reflexivity|].
  destruct (Qltb x lo) eqn:E1; simpl.
  - apply Qltb_true in E1. destruct (Qle_bool lo x) eqn:E; [apply Qle_bool_iff in E; lra | reflexivity].
  - apply Qltb_false in E1. apply Qle_bool_iff in E1. rewrite E1. simpl.
    destruct (Qltb hi x) eqn:E2.
    + apply Qltb_true in E2. destruct (Qle_bool x hi) eqn:E; [apply Qle_bool_iff in E; lra | reflexivity].
    + apply Qltb_false in E2. apply Qle_bool_iff in E2. rewrite E2. simpl. apply IH. lia.
Qed.

(** [within] is the pointwise statement [forall i, lo_i <= q_i <= hi_i] *)
Lemma within_forall : forall q l, length q = length l ->
  (within q l = true <->
   forall i, (i < length q)%nat -> fst (nth i l (0, 0)) <= nth i q 0 /\ nth i q 0 <= snd (nth i l (0, 0))).
Proof.
  induction q as [|x q IH]; intros [|[lo hi] l] Hlen; simpl in *; try discriminate.
  - split; [intros _ i Hi; lia | reflexivity].
  - rewrite !andb_true_iff, !Qle_bool_iff, (IH l) by lia. split.
    + intros [[H1 H2] H3] [|i] Hi; simpl; [split; assumption | apply H3; lia].
    + intros H. split; [split; apply (H O); lia | intros i Hi; apply (H (S i)); lia].
Qed.

Theorem contains_loop_forall : forall p l, length p = length l ->
  (inside_loop p l = Some true <->
   forall i, (i < length p)%nat -> fst (nth i l (0, 0)) <= nth i p 0 /\ nth i p 0 <= snd (nth i l (0, 0))).
Proof.
  intros p l H. rewrite (inside_loop_within p l H), <- (within_forall p l H).
  split; [intros E; injection E; auto | intros E; rewrite E; reflexivity].
Qed.

Theorem contains_loop_total : forall p l, length p = length l ->
  inside_loop p l = Some true \/ inside_loop p l = Some false.
Proof. intros p l H. rewrite (inside_loop_within p l H). destruct (within p l); auto. Qed.

(** shapes *)
Lemma vadd_length : forall a b, length (vadd a b) = Nat.min (length a) (length b).
Proof. induction a as [|x a IH]; intros [|y b]; simpl; auto. Qed.

Lemma to_box_length Rinv c p : length (to_box Rinv c p) = length Rinv.
Proof. unfold to_box, mv. rewrite vadd_length, !map_length. apply Nat.min_id. Qed.

Definition wf_box (b : box) : Prop :=
  length (b_rotinv b) = b_dim b /\ length (b_lims b) = b_dim b.

Theorem contains_spec : forall b p, wf_box b -> length p = b_dim b ->
  contains b p = Some (within (to_box (b_rotinv b) (b_center b) p) (b_lims b)).
Proof.
  intros b p [H1 H2] Hp. unfold contains. rewrite Hp, Nat.eqb_refl.
  apply inside_loop_within. rewrite to_box_length. congruence.
Qed.

(** ================= _secure_limits, volume ================= *)

Definition proper_lims (l : lims) : Prop := Forall (fun x : Q * Q => fst x < snd x) l.

Lemma eps_secure_pos : 0 < eps_secure.
Proof. reflexivity. Qed.

Lemma isclose_false_neq a b : isclose a b = false -> ~ a == b.
Proof.
  unfold isclose. intros H E. apply orb_false_elim in H. destruct H as [H _].
  apply Qeq_bool_iff in E. congruence.
Qed.

Lemma Some_inj {A} (a b : A) : Some a = Some b -> a = b.
Proof. congruence. Qed.

Lemma secure_one_proper x y : secure_one x = Some y ->
  fst y < snd y /\ fst y <= fst x /\ snd x <= snd y /\ fst x <= 0 /\ 0 <= snd x.
Proof.
  destruct x as [lo hi]. unfold secure_one.
  destruct (Qle_bool lo 0) eqn:E1; cbn [negb]; [|discriminate].
  destruct (Qle_bool 0 hi) eqn:E2; cbn [negb]; [|discriminate].
  apply Qle_bool_iff in E1. apply Qle_bool_iff in E2.
  pose proof eps_secure_pos as He.
  destruct (isclose lo hi) eqn:E3; intros H; apply Some_inj in H; subst y; unfold fst, snd.
  - rewrite !Qred_correct. repeat split; lra.
  - apply isclose_false_neq in E3.
    assert (Hlt : lo < hi).
    { destruct (Qlt_le_dec lo hi) as [Hl|Hl]; [exact Hl|]. exfalso. apply E3. lra. }
    repeat split; lra.
Qed.

Theorem secure_limits_proper : forall l l', secure_limits l = Some l' ->
  proper_lims l' /\ length l' = length l.
Proof.
  induction l as [|x l IH]; intros l' H; simpl in H.
  - injection H as <-. split; [constructor | reflexivity].
  - destruct (secure_one x) as [y|] eqn:E1; [|discriminate].
    destruct (secure_limits l) as [r|] eqn:E2; [|discriminate].
    injection H as <-. destruct (IH r eq_refl) as [H1 H2].
    split; [constructor; [apply (secure_one_proper x y E1) | exact H1] | simpl; congruence].
Qed.

(** the secured box contains the requested one: limits only ever move outwards, by exactly eps/2 *)
Theorem secure_limits_widen : forall l l', secure_limits l = Some l' ->
  Forall2 (fun x y : Q * Q => fst y <= fst x /\ snd x <= snd y /\ fst x <= 0 /\ 0 <= snd x) l l'.
Proof.
  induction l as [|x l IH]; intros l' H; simpl in H.
  - injection H as <-. constructor.
  - destruct (secure_one x) as [y|] eqn:E1; [|discriminate].
    destruct (secure_limits l) as [r|] eqn:E2; [|discriminate].
    injection H as <-. constructor; [|apply IH; reflexivity].
    destruct (secure_one_proper x y E1) as (_ & A & B & C & D). auto.
Qed.

Theorem volume_pos : forall l, proper_lims l -> 0 < volume l.
Proof.
  induction l as [|[lo hi] l IH]; intros H.
  - reflexivity.
  - inversion H as [|? ? H1 H2]; subst. cbv [fst snd] in H1.
    change (volume ((lo, hi) :: l)) with (Qred ((- lo + hi) * volume l)). rewrite Qred_correct.
    apply Qmult_lt_0_compat; [lra | apply IH; exact H2].
Qed.

Lemma is_inverse_square n A B : is_inverse n A B = true -> length A = n.
Proof.
  unfold is_inverse, square. rewrite !andb_true_iff. intros [[[H _] _] _]. apply Nat.eqb_eq. exact H.
Qed.

Theorem mk_box_sound : forall R Rinv c l b, mk_box R Rinv c l = Some b ->
  proper_lims (b_lims b) /\ 0 < b_vol b /\ b_vol b = volume (b_lims b) /\
  b_dim b = length R /\ length (b_rotinv b) = b_dim b /\ length (b_lims b) = length l /\
  is_inverse (b_dim b) (b_rotinv b) (b_rot b) = true.
Proof.
  intros R Rinv c l b. unfold mk_box.
  destruct (negb (square (length R) R && Nat.eqb (length c) (length R))); [discriminate|].
  destruct Rinv as [Ri|]; [|discriminate].
  destruct (is_inverse (length R) Ri R) eqn:E1; simpl; [|discriminate].
  destruct (secure_limits l) as [l'|] eqn:E2; [|discriminate].
  destruct (Qle_bool 0 (volume l')); [|discriminate].
  intros H; injection H as <-; simpl.
  destruct (secure_limits_proper l l' E2) as [H1 H2].
  repeat split; auto. - apply volume_pos; exact H1. - apply (is_inverse_square _ _ _ E1).
Qed.

Corollary mk_box_wf : forall R Rinv c l b, mk_box R Rinv c l = Some b -> length l = length R -> wf_box b.
Proof.
  intros R Rinv c l b H Hl. destruct (mk_box_sound _ _ _ _ _ H) as (_ & _ & _ & A & B & C & _).
  split; congruence.
Qed.

(** ================= pdf ================= *)

Theorem pdf_inside : forall b p, contains b p = Some true -> exists d, pdf b p = Some d /\ d == 1 / b_vol b.
Proof. intros b p H. unfold pdf. rewrite H. eexists; split; [reflexivity | apply Qred_correct]. Qed.

Theorem pdf_outside : forall b p, contains b p = Some false -> pdf b p = Some 0.
Proof. intros b p H. unfold pdf. rewrite H. reflexivity. Qed.

Theorem pdf_inside_pos : forall R Rinv c l b p, mk_box R Rinv c l = Some b -> contains b p = Some true ->
  exists d, pdf b p = Some d /\ 0 < d /\ d * b_vol b == 1.
Proof.
  intros R Rinv c l b p Hb Hc. destruct (pdf_inside b p Hc) as [d [H1 H2]].
  destruct (mk_box_sound _ _ _ _ _ Hb) as (_ & Hv & _).
  exists d. split; [exact H1|]. split.
  - rewrite H2. apply Qlt_shift_div_l; lra.
  - rewrite H2. field. lra.
Qed.

(** ================= sample: box-frame coordinates stay within the limits ================= *)

Theorem box_coords_within : forall l u, proper_lims l -> length u = length l ->
  Forall (fun x => 0 <= x /\ x <= 1) u -> within (box_coords l u) l = true.
Proof.
  induction l as [|[lo hi] l IH]; intros [|x u] Hp Hlen Hu; try discriminate Hlen; [reflexivity|].
  inversion Hp as [|? ? H1 H2]; subst. inversion Hu as [|? ? H3 H4]; subst. cbv [fst snd] in H1.
  injection Hlen as Hlen.
  change (within (box_coords ((lo, hi) :: l) (x :: u)) ((lo, hi) :: l))
    with (Qle_bool lo (Qred (lo + (hi - lo) * x)) && Qle_bool (Qred (lo + (hi - lo) * x)) hi
          && within (box_coords l u) l).
  rewrite !andb_true_iff, !Qle_bool_iff, Qred_correct. split; [split|].
  - assert (0 <= (hi - lo) * x) by (apply Qmult_le_0_compat; lra). lra.
  - assert ((hi - lo) * x <= (hi - lo) * 1) by (apply Qmult_le_l; lra). lra.
  - apply IH; auto.
Qed.

(** ================= line_search ================= *)

Definition nq (n : nat) : Q := inject_Z (Z.of_nat n).

Lemma nq_S n : nq (S n) == nq n + 1.
Proof. unfold nq. rewrite Nat2Z.inj_succ, <- Z.add_1_r, inject_Z_plus. reflexivity. Qed.

Lemma nq_0 : nq 0 == 0. Proof. reflexivity. Qed.
Lemma nq_1 : nq 1 == 1. Proof. reflexivity. Qed.
Lemma nq_2 : nq 2 == 2. Proof. reflexivity. Qed.

Lemma nq_nonneg n : 0 <= nq n.
Proof. unfold nq. change 0 with (inject_Z 0). rewrite <- Zle_Qle. lia. Qed.

Section LineSearch.
  Variable f : Q -> Q.
  Variable eps : Q.
  Hypothesis f_proper : forall x y, x == y -> f x == f y.

  Definition below (x : Q) : Prop := f x < eps.

  Lemma below_proper x y : x == y -> below x -> below y.
  Proof. unfold below. intros E H. rewrite <- (f_proper x y E). exact H. Qed.

  Lemma ls_while_spec : forall rep_lim eta fuel off rep log off' rep' log',
    (rep_lim + 2 <= fuel + rep)%nat ->
    ls_while fuel f eps eta rep_lim off rep log = (off', rep', log') ->
    exists (r : nat) (new : list Q),
      rep' = (rep + r)%nat /\ off' == off + nq r * eta /\ log' = new ++ log /\
      (forall p, In p new -> exists j, (j <= r)%nat /\ p == off + nq j * eta) /\
      (forall j, (j < r)%nat -> below (off + nq j * eta)) /\
      (~ below off' \/ (rep_lim < rep')%nat).
  Proof.
    intros rep_lim eta. induction fuel as [|k IH]; intros off rep log off' rep' log' Hf H; cbn [ls_while] in H.
    - injection H as <- <- <-. exists O, [].
      split; [lia|]. split; [rewrite ?nq_0, ?nq_2; ring|]. split; [reflexivity|].
      split; [intros p []|]. split; [intros j Hj; lia|]. right; lia.
    - destruct (Qltb (f off) eps && Nat.leb rep rep_lim) eqn:E.
      + apply andb_true_iff in E. destruct E as [E1 E2]. apply Qltb_true in E1. apply Nat.leb_le in E2.
        apply IH in H; [|lia]. destruct H as (r & new & Hr & Ho & Hl & Hn & Hb & He).
        exists (S r), (new ++ [off]).
        split; [lia|]. split; [rewrite Ho, Qred_correct, nq_S; ring|].
        split; [rewrite Hl, <- app_assoc; reflexivity|]. split; [|split].
        * intros p Hp. apply in_app_or in Hp. destruct Hp as [Hp|[<-|[]]].
          -- destruct (Hn p Hp) as (j & Hj & Hpj). exists (S j). split; [lia|].
             rewrite Hpj, Qred_correct, nq_S. ring.
          -- exists O. split; [lia|]. rewrite ?nq_0, ?nq_2; ring.
        * intros [|j] Hj.
          -- apply (below_proper off); [rewrite ?nq_0, ?nq_2; ring | exact E1].
          -- apply (below_proper (Qred (off + eta) + nq j * eta)); [rewrite Qred_correct, nq_S; ring|].
             apply Hb. lia.
        * exact He.
      + injection H as <- <- <-. exists O, [off].
        split; [lia|]. split; [rewrite ?nq_0, ?nq_2; ring|]. split; [reflexivity|]. split; [|split].
        * intros p [<-|[]]. exists O. split; [lia|]. rewrite ?nq_0, ?nq_2; ring.
        * intros j Hj; lia.
        * apply andb_false_iff in E. destruct E as [E|E].
          -- left. apply Qltb_false in E. unfold below. lra.
          -- right. apply Nat.leb_gt in E. exact E.
  Qed.

  (** loop invariant of [for i in range(K)] *)
  Definition Inv (off eta : Q) (log : list Q) : Prop :=
    0 <= off /\ 0 < eta /\ below off /\
    (forall p, In p log -> ~ below p -> off + 2 * eta <= p /\ ~ below (off + 2 * eta)).

  (** what the loop establishes; [offF] is the offset before the final [if offset <= 0] *)
  Definition Post (rep_lim : nat) (offF etaF : Q) (log : list Q) : Prop :=
    0 <= offF /\ 0 < etaF /\ below offF /\
    (forall p, In p log -> ~ below p ->
       offF < p /\ (offF == 0 -> etaF <= p /\ ((1 <= rep_lim)%nat -> etaF < p))).

  Lemma Inv_Post rep_lim off eta log : Inv off eta log -> Post rep_lim off eta log.
  Proof.
    intros (H0 & He & Hb & Hl). repeat split; auto.
    - destruct (Hl p H H1) as [A _]. lra.
    - destruct (Hl p H H1) as [A _]. lra.
    - destruct (Hl p H H1) as [A _]. lra.
  Qed.

  Lemma ls_outer_spec : forall rep_lim K eta off log offF etaF logF,
    Inv off eta log ->
    ls_outer K f eps eta rep_lim off log = (offF, etaF, logF) ->
    Post rep_lim offF etaF logF.
  Proof.
    intros rep_lim. induction K as [|k IH]; intros eta off log offF etaF logF HI H; cbn [ls_outer] in H.
    - injection H as <- <- <-. apply Inv_Post. exact HI.
    - destruct (ls_while (ls_fuel rep_lim) f eps eta rep_lim off 0 log) as [[off1 rep] log1] eqn:EW.
      apply ls_while_spec in EW; [|unfold ls_fuel; lia].
      destruct EW as (r & new & Hr & Ho & Hl & Hn & Hb & He). simpl in Hr. subst rep.
      destruct HI as (H0 & Heta & Hbel & Hold).
      (* the first step is always taken *)
      assert (Hr1 : (1 <= r)%nat).
      { destruct r; [|lia]. exfalso. destruct He as [He|He]; [|lia].
        apply He. apply (below_proper off); [rewrite Ho; rewrite ?nq_0, ?nq_2; ring | exact Hbel]. }
      destruct r as [|r1]; [lia|]. clear Hr1.
      assert (Hoff2 : Qred (off1 - eta) == off + nq r1 * eta).
      { rewrite Qred_correct, Ho, nq_S. ring. }
      assert (Hb2 : below (Qred (off1 - eta))).
      { apply (below_proper (off + nq r1 * eta)); [symmetry; exact Hoff2 | apply Hb; lia]. }
      assert (Hnn : 0 <= nq r1 * eta) by (apply Qmult_le_0_compat; [apply nq_nonneg | lra]).
      (* a failing new probe is the last one *)
      assert (Hnew : forall p, In p new -> ~ below p -> p == off + nq (S r1) * eta).
      { intros p Hp Hnb. destruct (Hn p Hp) as (j & Hj & Hpj).
        destruct (Nat.eq_dec j (S r1)) as [->|Hne]; [exact Hpj|].
        exfalso. apply Hnb. apply (below_proper (off + nq j * eta)); [symmetry; exact Hpj | apply Hb; lia]. }
      (* an old failing probe bounds the number of steps by 2 *)
      assert (Hold2 : forall p, In p log -> ~ below p -> (S r1 <= 2)%nat /\ off + 2 * eta <= p).
      { intros p Hp Hnb. destruct (Hold p Hp Hnb) as [A B]. split; [|exact A].
        destruct (le_lt_dec (S r1) 2) as [Hle|Hgt]; [exact Hle|]. exfalso. apply B.
        apply (below_proper (off + nq 2 * eta)); [rewrite ?nq_0, ?nq_2; ring | apply Hb; lia]. }
      destruct (Nat.ltb rep_lim (S r1)) eqn:EB.
      + (* break *)
        apply Nat.ltb_lt in EB. injection H as <- <- <-.
        split; [rewrite Hoff2; lra|]. split; [exact Heta|]. split; [exact Hb2|].
        intros p Hp Hnb. rewrite Hl in Hp. apply in_app_or in Hp. destruct Hp as [Hp|Hp].
        * pose proof (Hnew p Hp Hnb) as Hpe. rewrite nq_S in Hpe. rewrite Hoff2. split; [lra|].
          intros Hz. split; [lra|]. intros H1.
          (* offF = 0 forces r1 = 0 hence rep_lim = 0 *)
          destruct r1 as [|r2]; [lia|]. exfalso. rewrite nq_S in Hz.
          assert (0 <= nq r2 * eta) by (apply Qmult_le_0_compat; [apply nq_nonneg | lra]). lra.
        * destruct (Hold2 p Hp Hnb) as [Hle A]. rewrite Hoff2.
          assert (nq r1 * eta <= eta).
          { destruct r1 as [|[|r3]]; [rewrite ?nq_0, ?nq_1, ?nq_2; lra | rewrite ?nq_0, ?nq_1, ?nq_2; lra | lia]. }
          split; [lra|]. intros Hz. split; [lra|]. intros _. lra.
      + (* no break: the loop condition failed on the objective *)
        apply Nat.ltb_ge in EB.
        assert (Hfail : ~ below off1) by (destruct He as [He|He]; [exact He | lia]).
        apply (IH _ _ _ _ _ _) in H; [exact H|].
        split; [rewrite Hoff2; lra|]. split; [rewrite Qred_correct; lra|]. split; [exact Hb2|].
        assert (Hnext : Qred (off1 - eta) + 2 * Qred (eta * (1 # 2)) == off1).
        { rewrite !Qred_correct. ring. }
        intros p Hp Hnb. split.
        * rewrite Hnext. rewrite Hl in Hp. apply in_app_or in Hp. destruct Hp as [Hp|Hp].
          -- rewrite (Hnew p Hp Hnb), Ho. lra.
          -- destruct (Hold2 p Hp Hnb) as [Hle A]. rewrite Ho.
             assert (nq (S r1) * eta <= 2 * eta).
             { destruct r1 as [|[|r3]]; [rewrite ?nq_0, ?nq_1, ?nq_2; lra | rewrite ?nq_0, ?nq_1, ?nq_2; lra | lia]. }
             lra.
        * intros Hc. apply Hfail. apply (below_proper _ _ Hnext). exact Hc.
  Qed.

  (** The line search: started where the objective is below the threshold, with a positive step, it returns
      a positive offset; every probed offset strictly below the result had the objective below the
      threshold — also every probed offset equal to the result when [rep_lim >= 1]; and the result is
      either itself a point where the objective is below the threshold or the fall-back resolution [eta]. *)
  Theorem line_search_spec : forall K eta rep_lim res log,
    below 0 -> 0 < eta ->
    line_search f eps K eta rep_lim = (res, log) ->
    0 < res /\
    (forall p, In p log -> p < res -> below p) /\
    ((1 <= rep_lim)%nat -> forall p, In p log -> p <= res -> below p).
  Proof.
    intros K eta rep_lim res log H0 Heta H. unfold line_search in H.
    destruct (ls_outer K f eps eta rep_lim 0 []) as [[offF etaF] logF] eqn:E.
    apply ls_outer_spec in E.
    2:{ split; [lra|]. split; [exact Heta|]. split; [exact H0|]. intros p []. }
    destruct E as (A & B & C & D). injection H as <- <-.
    assert (Hdec : forall p, below p \/ ~ below p).
    { intros p. unfold below. destruct (Qlt_le_dec (f p) eps); [left; assumption | right; lra]. }
    destruct (Qle_bool offF 0) eqn:EZ.
    - apply Qle_bool_iff in EZ. assert (Hz : offF == 0) by lra.
      split; [exact B|]. split.
      + intros p Hp Hlt. destruct (Hdec p) as [|Hn]; [assumption|]. exfalso.
        apply in_rev in Hp. destruct (D p Hp Hn) as [_ D2]. destruct (D2 Hz) as [D3 _]. lra.
      + intros Hrl p Hp Hle. destruct (Hdec p) as [|Hn]; [assumption|]. exfalso.
        apply in_rev in Hp. destruct (D p Hp Hn) as [_ D2]. destruct (D2 Hz) as [_ D3]. specialize (D3 Hrl). lra.
    - apply Qle_bool_false in EZ. split; [exact EZ|]. split.
      + intros p Hp Hlt. destruct (Hdec p) as [|Hn]; [assumption|]. exfalso.
        apply in_rev in Hp. destruct (D p Hp Hn) as [D1 _]. lra.
      + intros _ p Hp Hle. destruct (Hdec p) as [|Hn]; [assumption|]. exfalso.
        apply in_rev in Hp. destruct (D p Hp Hn) as [D1 _]. lra.
  Qed.

End LineSearch.

(** the scripted objectives of the correspondence check are admissible oracles *)
Lemma Qltb_proper a a' b b' : a == a' -> b == b' -> Qltb a b = Qltb a' b'.
Proof.
  intros Ha Hb. destruct (Qltb a b) eqn:E1; symmetry.
  - apply Qltb_true in E1. apply Qltb_true. rewrite <- Ha, <- Hb. exact E1.
  - apply Qltb_false in E1. apply Qltb_false. rewrite <- Ha, <- Hb. exact E1.
Qed.

Lemma pw_proper tbl dflt : forall x y, x == y -> pw tbl dflt x == pw tbl dflt y.
Proof.
  intros x y E. induction tbl as [|[b v] r IH]; simpl; [reflexivity|].
  rewrite (Qltb_proper x y b b E (Qeq_refl b)). destruct (Qltb y b); [reflexivity | exact IH].
Qed.

(** ================= posterior counts ================= *)

Theorem sum_over_indicators_spec : forall ds eps,
  sum_over_indicators ds eps = length (filter (fun d => Qle_bool d eps) ds).
Proof.
  induction ds as [|d r IH]; intros eps; simpl; [reflexivity|].
  rewrite IH. destruct (Qle_bool d eps); reflexivity.
Qed.

Theorem sum_over_regions_spec : forall cs, sum_over_regions cs = length (filter (fun c : bool => c) cs).
Proof. induction cs as [|c r IH]; simpl; [reflexivity|]. rewrite IH. destruct c; reflexivity. Qed.

Theorem sum_over_regions_indicators_spec : forall cs ds eps i, length cs = length ds ->
  fst (sum_over_regions_indicators i cs ds eps)
  = length (filter (fun cd : bool * Q => fst cd && Qle_bool (snd cd) eps) (combine cs ds)).
Proof.
  induction cs as [|c cs IH]; intros [|d ds] eps i Hlen; simpl in *; try discriminate; [reflexivity|].
  specialize (IH ds eps (S i)). destruct (sum_over_regions_indicators (S i) cs ds eps) as [n called].
  simpl in IH. destruct c; simpl; rewrite IH by lia; [destruct (Qle_bool d eps)|]; reflexivity.
Qed.

(** the objectives evaluated are exactly those whose region contains the point (short-circuit [and]) *)
Theorem sum_over_regions_indicators_calls : forall cs ds eps i, length cs = length ds ->
  snd (sum_over_regions_indicators i cs ds eps)
  = map fst (filter (fun ic : nat * bool => snd ic) (combine (seq i (length cs)) cs)).
Proof.
  induction cs as [|c cs IH]; intros [|d ds] eps i Hlen; simpl in *; try discriminate; [reflexivity|].
  specialize (IH ds eps (S i)). destruct (sum_over_regions_indicators (S i) cs ds eps) as [n called].
  simpl in IH. destruct c; simpl; rewrite IH by lia; reflexivity.
Qed.

Lemma contains_all_spec : forall bs th cs, contains_all bs th = Some cs ->
  Forall wf_box bs -> Forall (fun b => length th = b_dim b) bs ->
  cs = map (fun b => within (to_box (b_rotinv b) (b_center b) th) (b_lims b)) bs.
Proof.
  induction bs as [|b bs IH]; intros th cs H Hwf Hd; simpl in H.
  - injection H as <-. reflexivity.
  - inversion Hwf; subst. inversion Hd; subst.
    rewrite (contains_spec b th) in H by assumption.
    destruct (contains_all bs th) as [cs'|] eqn:E; [|discriminate].
    injection H as <-. simpl. f_equal. apply IH; auto.
Qed.

Lemma count_map_combine (w : box -> bool) eps : forall bs (ds : list Q),
  length (filter (fun cd : bool * Q => fst cd && Qle_bool (snd cd) eps) (combine (map w bs) ds))
  = length (filter (fun bd : box * Q => w (fst bd) && Qle_bool (snd bd) eps) (combine bs ds)).
Proof.
  induction bs as [|b bs IH]; intros [|d ds]; simpl; try reflexivity.
  destruct (w b && Qle_bool d eps); simpl; rewrite IH; reflexivity.
Qed.

Lemma count_true_combine eps : forall (bs : list box) (ds : list Q), length bs = length ds ->
  length (filter (fun d => Qle_bool d eps) ds)
  = length (filter (fun bd : box * Q => true && Qle_bool (snd bd) eps) (combine bs ds)).
Proof.
  induction bs as [|b bs IH]; intros [|d ds] H; simpl in *; try discriminate; [reflexivity|].
  destruct (Qle_bool d eps); simpl; rewrite (IH ds) by lia; reflexivity.
Qed.

(** un-normalised posterior at a point = prior * #{ i : d_i(theta) <= eps [ and region_i contains theta ] } *)
Theorem pdf_unnorm_spec : forall surrogate bs th ds eps pr v n called,
  Forall wf_box bs -> Forall (fun b => length th = b_dim b) bs -> length bs = length ds ->
  pdf_unnorm surrogate bs th ds eps pr = Some (v, n, called) ->
  n = spec_count surrogate bs th ds eps /\ v == pr * inject_Z (Z.of_nat n).
Proof.
  intros surrogate bs th ds eps pr v n called Hwf Hd Hlen H. unfold pdf_unnorm in H.
  destruct surrogate.
  - destruct (contains_all bs th) as [cs|] eqn:E; [|discriminate].
    pose proof (contains_all_spec bs th cs E Hwf Hd) as Hcs.
    pose proof (sum_over_regions_indicators_spec cs ds eps 0) as Hs.
    destruct (sum_over_regions_indicators 0 cs ds eps) as [n' called'].
    apply Some_inj in H. apply pair_equal_spec in H. destruct H as [H _].
    apply pair_equal_spec in H. destruct H as [Hv Hn]. subst v n. split; [|apply Qred_correct].
    simpl in Hs. rewrite Hs by (subst cs; rewrite map_length; exact Hlen).
    subst cs. unfold spec_count. apply count_map_combine.
  - apply Some_inj in H. apply pair_equal_spec in H. destruct H as [H _].
    apply pair_equal_spec in H. destruct H as [Hv Hn]. subst v n. split; [|apply Qred_correct].
    rewrite sum_over_indicators_spec. unfold spec_count. apply count_true_combine. exact Hlen.
Qed.

(** ================= weights ================= *)

Theorem weight_spec : forall q pr dist eps, 0 < q ->
  weight q pr dist eps == (if Qltb dist eps then 1 else 0) * pr / q.
Proof. intros q pr dist eps Hq. unfold weight. apply Qltb_true in Hq. rewrite Hq. apply Qred_correct. Qed.

Theorem weight_zero_density : forall q pr dist eps, q <= 0 -> weight q pr dist eps = 0.
Proof. intros q pr dist eps Hq. unfold weight. apply Qltb_false in Hq. rewrite Hq. reflexivity. Qed.

(** a sample that lies in its region: weight = [dist < eps] * prior * volume *)
Theorem weight_of_contained : forall R Rinv c l b p pr dist eps,
  mk_box R Rinv c l = Some b -> contains b p = Some true ->
  exists q, pdf b p = Some q /\ 0 < q /\ weight q pr dist eps == (if Qltb dist eps then 1 else 0) * pr * b_vol b.
Proof.
  intros R Rinv c l b p pr dist eps Hb Hc.
  destruct (pdf_inside_pos _ _ _ _ _ _ Hb Hc) as (q & H1 & H2 & H3).
  exists q. split; [exact H1|]. split; [exact H2|].
  rewrite (weight_spec q pr dist eps H2).
  destruct (mk_box_sound _ _ _ _ _ Hb) as (_ & Hv & _).
  assert (Hq : q == 1 / b_vol b) by (field_simplify_eq; [lra | lra]).
  rewrite Hq. field. lra.
Qed.

(** ================= soundness of the decidable checks ================= *)

Theorem ok_ls_sound : forall c o0 v0 rest,
  ok_ls c = true -> lc_impl_probes c = (o0, v0) :: rest ->
  o0 == 0 -> v0 < lc_eps c -> 0 < lc_eta c ->
  0 < lc_impl_res c /\ (forall p v, In (p, v) (lc_impl_probes c) -> p < lc_impl_res c -> v < lc_eps c) /\ ((1 <= lc_rep_lim c)%nat -> forall p v, In (p, v) (lc_impl_probes c) -> p <= lc_impl_res c -> v < lc_eps c).
Proof.
  intros c o0 v0 rest H Hp H0 Hv He. unfold ok_ls in H. rewrite Hp in H. rewrite <- Hp in H.
  apply Qeq_bool_iff in H0. apply Qltb_true in Hv. apply Qltb_true in He. rewrite H0, Hv, He in H.
  cbn [andb] in H. apply andb_true_iff in H. destruct H as [H H3]. apply andb_true_iff in H. destruct H as [H1 H2].
  split; [apply Qltb_true; exact H1|]. split.
  - intros p v Hin Hlt. unfold probes_ok in H2. rewrite forallb_forall in H2. specialize (H2 _ Hin).
    simpl in H2. apply Qltb_true in Hlt. rewrite Hlt in H2. apply Qltb_true. exact H2.
  - intros Hr p v Hin Hle. apply Nat.leb_le in Hr. rewrite Hr in H3.
    unfold probes_ok in H3. rewrite forallb_forall in H3. specialize (H3 _ Hin).
    simpl in H3. apply Qle_bool_iff in Hle. rewrite Hle in H3. apply Qltb_true. exact H3.
Qed.

(** the model's own output, packaged as an observation, passes [ok_ls] *)
Theorem model_ok_ls : forall tbl dflt eps K eta rep_lim res log,
  line_search (pw tbl dflt) eps K eta rep_lim = (res, log) ->
  ok_ls {| lc_tbl := tbl; lc_dflt := dflt; lc_eps := eps; lc_K := K; lc_eta := eta; lc_rep_lim := rep_lim;
           lc_impl_res := res; lc_impl_probes := map (fun p => (p, pw tbl dflt p)) log |} = true.
Proof.
  intros tbl dflt eps K eta rep_lim res log H. unfold ok_ls.
  cbn [lc_impl_probes lc_eps lc_eta lc_impl_res lc_rep_lim].
  destruct log as [|o0 rest]; [reflexivity|]. cbn [map].
  change ((o0, pw tbl dflt o0) :: map (fun p => (p, pw tbl dflt p)) rest)
    with (map (fun p => (p, pw tbl dflt p)) (o0 :: rest)).
  destruct (Qeq_bool o0 0 && Qltb (pw tbl dflt o0) eps && Qltb 0 eta) eqn:E; [|reflexivity].
  apply andb_true_iff in E. destruct E as [E E3]. apply andb_true_iff in E. destruct E as [E1 E2].
  apply Qeq_bool_iff in E1. apply Qltb_true in E2. apply Qltb_true in E3.
  assert (H0 : below (pw tbl dflt) eps 0).
  { unfold below. rewrite <- (pw_proper tbl dflt o0 0 E1). exact E2. }
  destruct (line_search_spec (pw tbl dflt) eps (pw_proper tbl dflt) K eta rep_lim res _ H0 E3 H) as (A & B & C).
  apply andb_true_iff. split; [apply andb_true_iff; split|].
  - apply Qltb_true; exact A.
  - unfold probes_ok. apply forallb_forall. intros [p v] Hin. apply in_map_iff in Hin.
    destruct Hin as (p' & Hpv & Hin). apply pair_equal_spec in Hpv. destruct Hpv as [<- <-]. cbn [fst snd].
    destruct (Qltb p' res) eqn:Ep; [|reflexivity]. apply Qltb_true in Ep. apply Qltb_true. apply (B p' Hin Ep).
  - destruct (Nat.leb 1 rep_lim) eqn:Er; [|reflexivity]. apply Nat.leb_le in Er.
    unfold probes_ok. apply forallb_forall. intros [p v] Hin. apply in_map_iff in Hin.
    destruct Hin as (p' & Hpv & Hin). apply pair_equal_spec in Hpv. destruct Hpv as [<- <-]. cbn [fst snd].
    destruct (Qle_bool p' res) eqn:Ep; [|reflexivity]. apply Qle_bool_iff in Ep. apply Qltb_true. apply (C Er p' Hin Ep).
Qed.

(** the box check: what [ok_box] establishes about the implementation's observed outputs *)
Theorem ok_box_sound : forall c, ok_box c = true -> bc_impl_ok c = true ->
  proper_lims (bc_impl_lims c) /\ 0 < bc_impl_vol c /\ Forall (fun o => so_contains o = true) (bc_smps c).
Proof.
  intros c H Hok. unfold ok_box in H. rewrite Hok in H.
  repeat (apply andb_true_iff in H; destruct H as [H ?]).
  split; [|split].
  - apply Forall_forall. intros x Hx. rewrite forallb_forall in H. apply Qltb_true. apply H. exact Hx.
  - apply Qltb_true. assumption.
  - apply Forall_forall. intros o Ho. rewrite forallb_forall in H1. specialize (H1 o Ho).
    unfold ok_smp in H1. apply andb_true_iff in H1. apply H1.
Qed.

(** the model's own box passes the structural clauses of [ok_box] *)
Theorem model_ok_box : forall R Rinv c l b, mk_box R Rinv c l = Some b ->
  forallb (fun x : Q * Q => Qltb (fst x) (snd x)) (b_lims b) = true /\ Qltb 0 (b_vol b) = true /\ close (b_vol b) (volume (b_lims b)) = true.
Proof.
  intros R Rinv c l b H. destruct (mk_box_sound _ _ _ _ _ H) as (H1 & H2 & H3 & _).
  split; [|split].
  - apply forallb_forall. intros x Hx. apply Qltb_true. unfold proper_lims in H1. rewrite Forall_forall in H1. auto.
  - apply Qltb_true. exact H2.
  - rewrite <- H3. unfold close. apply Qle_bool_iff.
    assert (E : b_vol b - b_vol b == 0) by ring. rewrite E. simpl Qabs at 1.
    pose proof (Qabs_nonneg (b_vol b)). unfold ntol. lra.
Qed.

(** ================= construction histories (families of boxes) ================= *)

Lemma close_eq a b : a == b -> close a b = true.
Proof.
  intro E. unfold close. apply Qle_bool_iff.
  assert (E0 : a - b == 0) by (rewrite E; ring). rewrite E0. simpl Qabs at 1.
  pose proof (Qabs_nonneg a). pose proof (Qabs_nonneg b). unfold ntol. lra.
Qed.

Lemma close_refl a : close a a = true.
Proof. apply close_eq. reflexivity. Qed.

Lemma vclose_refl : forall v, vclose v v = true.
Proof. induction v as [|x v IH]; simpl; [reflexivity|]. rewrite close_refl, IH. reflexivity. Qed.

Lemma lclose_refl : forall l, lclose l l = true.
Proof. induction l as [|[a b] l IH]; simpl; [reflexivity|]. rewrite !close_refl, IH. reflexivity. Qed.

Lemma mclose_refl : forall m, mclose m m = true.
Proof. induction m as [|r m IH]; simpl; [reflexivity|]. rewrite vclose_refl, IH. reflexivity. Qed.

(** what [ok_fam] establishes: EVERY member of the family, on its own, has proper limits, a positive volume
    that is the product of the widths of the limits it reports, and all its drawn samples contained *)
Theorem ok_fam_sound : forall l, ok_fam l = true ->
  Forall (fun c => bc_impl_ok c = true ->
            proper_lims (bc_impl_lims c) /\ 0 < bc_impl_vol c /\
            close (bc_impl_vol c) (volume (bc_impl_lims c)) = true /\
            Forall (fun o => so_contains o = true) (bc_smps c)) l.
Proof.
  intros l H. apply Forall_forall. intros c Hc Hok. unfold ok_fam in H. rewrite forallb_forall in H.
  specialize (H c Hc). destruct (ok_box_sound c H Hok) as (A & B & C).
  split; [exact A|]. split; [exact B|]. split; [|exact C].
  unfold ok_box in H. rewrite Hok in H.
  repeat (apply andb_true_iff in H; destruct H as [H ?]). assumption.
Qed.

(** the model's own family: every member is a fresh [mk_box] of its own inputs (no state shared between
    the members, whatever the order and whatever else was constructed) *)
Definition model_member (i : mat * option mat * vec * lims) : box_case :=
  let '(R, Ri, c, l) := i in
  match mk_box R Ri c l with
  | Some b => {| bc_rot := R; bc_rotinv := Ri; bc_center := c; bc_lims := l; bc_tol := 0; bc_impl_ok := true;
                 bc_impl_lims := b_lims b; bc_impl_vol := b_vol b; bc_impl_rotinv := b_rotinv b;
                 bc_pts := []; bc_smps := [] |}
  | None => {| bc_rot := R; bc_rotinv := Ri; bc_center := c; bc_lims := l; bc_tol := 0; bc_impl_ok := false;
               bc_impl_lims := []; bc_impl_vol := 0; bc_impl_rotinv := []; bc_pts := []; bc_smps := [] |}
  end.

Theorem model_ok_fam : forall ins, ok_fam (map model_member ins) = true /\ agree_fam (map model_member ins) = true.
Proof.
  intros ins. unfold ok_fam, agree_fam. split; apply forallb_forall; intros c Hc; apply in_map_iff in Hc;
    destruct Hc as ([[[R Ri] ce] l] & <- & _); unfold model_member.
  - destruct (mk_box R Ri ce l) as [b|] eqn:E; unfold ok_box; cbn; [|reflexivity].
    destruct (model_ok_box _ _ _ _ _ E) as (A & B & C). rewrite A, B, C. cbn. destruct Ri; reflexivity.
  - destruct (mk_box R Ri ce l) as [b|] eqn:E; unfold agree_box; cbn; rewrite E; [|reflexivity].
    rewrite lclose_refl, close_refl, mclose_refl. reflexivity.
Qed.

(** ================= call histories on one posterior ================= *)

Definition is_reset (s : hstep) : bool := match s with HReset _ => true | _ => false end.

(** [hist_all] checks every non-reset step against the cut-off in force at that step *)
Theorem hist_all_spec : forall f steps eps,
  hist_all f eps steps = true <->
  (forall i s, nth_error steps i = Some s -> is_reset s = false -> f (cutoff_at eps steps i) s = true).
Proof.
  intros f. induction steps as [|s r IH]; intros eps; split.
  - intros _ [|i] s H; discriminate.
  - reflexivity.
  - intros H [|i] s' Hn Hr.
    + simpl in Hn. injection Hn as <-. destruct s; simpl in *; try discriminate;
        apply andb_true_iff in H; apply H.
    + simpl in Hn. destruct s as [e| |]; simpl in H |- *.
      * apply (proj1 (IH e) H i s' Hn Hr).
      * apply andb_true_iff in H. apply (proj1 (IH eps) (proj2 H) i s' Hn Hr).
      * apply andb_true_iff in H. apply (proj1 (IH eps) (proj2 H) i s' Hn Hr).
  - intros H. destruct s as [e|e|w]; simpl.
    + apply IH. intros i s' Hn Hr. apply (H (S i) s' Hn Hr).
    + apply andb_true_iff. split; [apply (H 0%nat (HEval e) eq_refl eq_refl)|].
      apply IH. intros i s' Hn Hr. apply (H (S i) s' Hn Hr).
    + apply andb_true_iff. split; [apply (H 0%nat (HWeight w) eq_refl eq_refl)|].
      apply IH. intros i s' Hn Hr. apply (H (S i) s' Hn Hr).
Qed.

(** what [ok_hist] establishes: at every evaluation step of the history the observed value is the prior
    density times the number of problems within the cut-off IN FORCE AT THAT STEP (the constructor's until
    the first reset, then the latest reset's), whatever was evaluated before *)
Theorem ok_hist_sound : forall c bs, ok_hist c = true -> mk_boxes (hc_regions c) = Some bs ->
  forall i e, nth_error (hc_steps c) i = Some (HEval e) ->
    all_decided (eo_tol e) bs (eo_theta e) = true ->
    close (eo_impl_val e)
          (eo_prior e * inject_Z (Z.of_nat (spec_count (hc_surrogate c) bs (eo_theta e) (eo_dists e)
                                                      (cutoff_at (hc_eps0 c) (hc_steps c) i)))) = true.
Proof.
  intros c bs H Hb i e Hn Hd. unfold ok_hist in H.
  pose proof (proj1 (hist_all_spec _ _ _) H i (HEval e) Hn eq_refl) as Hs.
  unfold ok_step, ok_post, step_post in Hs. cbn in Hs. rewrite Hb, Hd in Hs. exact Hs.
Qed.

(** weight steps: the indicator is taken against the cut-off in force at that step *)
Theorem ok_hist_sound_w : forall c, ok_hist c = true ->
  forall i w r, nth_error (hc_steps c) i = Some (HWeight w) -> nth_error (hc_regions c) (ho_region w) = Some r ->
    ok_w {| wc_region := r; wc_eps := cutoff_at (hc_eps0 c) (hc_steps c) i; wc_tol := hc_tol c;
            wc_drawn := ho_drawn w; wc_obs := ho_obs w |} = true.
Proof.
  intros c H i w r Hn Hr. unfold ok_hist in H.
  pose proof (proj1 (hist_all_spec _ _ _) H i (HWeight w) Hn eq_refl) as Hs.
  unfold ok_step, step_w in Hs. rewrite Hr in Hs. exact Hs.
Qed.

(** the model's answers to the calls after a prefix [s1] of the history depend on [s1] only through the
    cut-off it leaves in force: they are the answers of a posterior freshly constructed with that cut-off *)
Theorem model_hist_app : forall sur bs s1 s2 eps,
  model_hist sur bs eps (s1 ++ s2)
  = model_hist sur bs eps s1 ++ model_hist sur bs (cutoff_at eps s1 (length s1)) s2.
Proof.
  intros sur bs. induction s1 as [|s r IH]; intros s2 eps; [reflexivity|].
  destruct s as [e|e|w]; simpl; rewrite IH; reflexivity.
Qed.

Definition eval_wf (bs : list box) (s : hstep) : Prop :=
  match s with
  | HEval e => Forall (fun b => length (eo_theta e) = b_dim b) bs /\ length bs = length (eo_dists e)
  | _ => True
  end.

Lemma model_hist_ok : forall c bs, mk_boxes (hc_regions c) = Some bs -> Forall wf_box bs ->
  forall steps eps, Forall (eval_wf bs) steps ->
    hist_all (ok_step c) eps (model_hist (hc_surrogate c) bs eps steps) = true.
Proof.
  intros c bs Hb Hwf. induction steps as [|s r IH]; intros eps Hs; [reflexivity|].
  inversion Hs as [|? ? H1 H2]; subst. destruct s as [e|e|w]; simpl.
  - apply IH; assumption.
  - rewrite (IH eps H2), andb_true_r. unfold ok_post, step_post. cbn. rewrite Hb.
    destruct (all_decided (eo_tol (model_eval (hc_surrogate c) bs eps e)) bs
                (eo_theta (model_eval (hc_surrogate c) bs eps e))); [|reflexivity].
    unfold model_eval.
    destruct (pdf_unnorm (hc_surrogate c) bs (eo_theta e) (eo_dists e) eps (eo_prior e)) as [[[v n] called]|] eqn:E.
    + cbn. destruct H1 as [Hd Hl].
      destruct (pdf_unnorm_spec _ _ _ _ _ _ _ _ _ Hwf Hd Hl E) as [Hn Hv]. subst n. apply close_eq. exact Hv.
    + (* shape error in the model: unreachable for well-formed evaluations, see [pdf_unnorm_total] *)
      exfalso. destruct H1 as [Hd Hl]. unfold pdf_unnorm in E. destruct (hc_surrogate c); [|discriminate].
      assert (T : exists cs, contains_all bs (eo_theta e) = Some cs).
      { clear -Hwf Hd. induction bs as [|b bs IHb]; [eexists; reflexivity|].
        inversion Hwf; subst. inversion Hd; subst. destruct (IHb H2 H4) as [cs Hcs]. simpl.
        rewrite (contains_spec b (eo_theta e)) by assumption. rewrite Hcs. eexists; reflexivity. }
      destruct T as [cs Hcs]. rewrite Hcs in E.
      destruct (sum_over_regions_indicators 0 cs (eo_dists e) eps); discriminate.
  - apply IH; assumption.
Qed.

(** for every set of regions and every history of resets and well-formed evaluations, the model's answers
    pass [ok_hist] *)
Theorem model_ok_hist : forall c bs, mk_boxes (hc_regions c) = Some bs -> Forall wf_box bs ->
  Forall (eval_wf bs) (hc_steps c) ->
  ok_hist {| hc_regions := hc_regions c; hc_surrogate := hc_surrogate c; hc_eps0 := hc_eps0 c; hc_tol := hc_tol c;
             hc_steps := model_hist (hc_surrogate c) bs (hc_eps0 c) (hc_steps c) |} = true.
Proof.
  intros c bs Hb Hwf Hs. unfold ok_hist. cbn.
  pose proof (model_hist_ok c bs Hb Hwf (hc_steps c) (hc_eps0 c) Hs) as H.
  erewrite (proj2 (hist_all_spec _ _ _)); [reflexivity|].
  intros i s Hn Hr. pose proof (proj1 (hist_all_spec _ _ _) H i s Hn Hr) as Hi.
  destruct s as [e|e|w]; [discriminate| |]; exact Hi.
Qed.
