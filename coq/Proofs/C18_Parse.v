(** C18, stdout handling of [external_operation]: proofs about the separator-aware parser of Num/Vectorize.v
    ([fields], [parse_stdout], [parse_agree], [parse_rows_ok]). *)
From Coq Require Import List ZArith NArith Arith Bool String Ascii Lia DecimalString DecimalZ DecimalPos.
From Elfi Require Import Num.Vectorize.
Import ListNotations.

(** * A. splitting the join of fields gives the fields back *)

(** no character of the field occurs in the separator *)
Definition clean (core f : text) : Prop := forall a, In a f -> ~ In a core.
Definition no_ws (t : text) : Prop := forall a, In a t -> is_ws a = false.
Definition all_ws (t : text) : Prop := forall a, In a t -> is_ws a = true.

Lemma is_prefix_head_neq core a r : core <> [] -> ~ In a core -> is_prefix core (a :: r) = false.
Proof.
  destruct core as [|c core']; [congruence|]. intros _ H. simpl.
  destruct (Ascii.eqb c a) eqn:E; [|reflexivity]. apply Ascii.eqb_eq in E. subst. exfalso. apply H. left. reflexivity.
Qed.

Lemma is_prefix_app core rest : is_prefix core (core ++ rest) = true.
Proof. induction core as [|c core IH]; simpl; [reflexivity|]. rewrite Ascii.eqb_refl, IH. reflexivity. Qed.

Lemma split_on_field core f : core <> [] -> clean core f ->
  forall rest cur, split_on core (f ++ rest) cur 0 = split_on core rest (cur ++ f) 0.
Proof.
  intros Hc. induction f as [|a f IH]; intros Hf rest cur; simpl.
  - rewrite app_nil_r. reflexivity.
  - rewrite is_prefix_head_neq by (auto; apply Hf; left; reflexivity).
    rewrite IH by (intros b Hb; apply Hf; right; exact Hb). rewrite <- app_assoc. reflexivity.
Qed.

Lemma split_on_skip core x : forall rest cur, split_on core (x ++ rest) cur (List.length x) = split_on core rest cur 0.
Proof.
  induction x as [|a x IH]; intros rest cur; simpl.
  - destruct rest; reflexivity.
  - apply IH.
Qed.

Lemma split_on_sep core rest cur : core <> [] -> split_on core (core ++ rest) cur 0 = cur :: split_on core rest [] 0.
Proof.
  destruct core as [|c core']; [congruence|]. intros _.
  simpl. rewrite Ascii.eqb_refl, is_prefix_app. simpl. rewrite Nat.sub_0_r. f_equal. apply split_on_skip.
Qed.

Lemma join_cons2 sep f g r : join sep (f :: g :: r) = f ++ sep ++ join sep (g :: r).
Proof. reflexivity. Qed.

Lemma split_join_gen core : core <> [] -> forall fs f0 cur, Forall (clean core) (f0 :: fs) ->
  split_on core (join core (f0 :: fs)) cur 0 = (cur ++ f0) :: fs.
Proof.
  intros Hc. induction fs as [|f1 fs IH]; intros f0 cur HF.
  - simpl. rewrite <- (app_nil_r f0) at 1. rewrite split_on_field by (auto; inversion HF; assumption). reflexivity.
  - rewrite join_cons2. inversion HF as [|? ? H0 HF']; subst.
    rewrite split_on_field by assumption. rewrite split_on_sep by assumption.
    rewrite IH by assumption. reflexivity.
Qed.

(** the exact-substring split inverts [sep.join] whenever no field shares a character with the separator *)
Theorem split_join core fs : core <> [] -> fs <> [] -> Forall (clean core) fs -> split_on core (join core fs) [] 0 = fs.
Proof.
  intros Hc Hn HF. destruct fs as [|f0 fs]; [congruence|]. rewrite split_join_gen by assumption. reflexivity.
Qed.

(** ** trimming *)

Lemma drop_ws_no_ws g : no_ws g -> drop_ws g = g.
Proof. destruct g as [|a g]; intros H; simpl; [reflexivity|]. rewrite (H a) by (left; reflexivity). reflexivity. Qed.

Lemma no_ws_rev g : no_ws g -> no_ws (rev g).
Proof. intros H a Ha. apply H. apply in_rev. exact Ha. Qed.

Lemma trim_no_ws g : no_ws g -> trim g = g.
Proof. intros H. unfold trim. rewrite (drop_ws_no_ws g H), (drop_ws_no_ws _ (no_ws_rev _ H)). apply rev_involutive. Qed.

Lemma drop_ws_all_ws w rest : all_ws w -> drop_ws (w ++ rest) = drop_ws rest.
Proof.
  induction w as [|a w IH]; intros H; simpl; [reflexivity|].
  rewrite (H a) by (left; reflexivity). apply IH. intros b Hb. apply H. right. exact Hb.
Qed.

(** a field followed by trailing white space (the newline of the command's output) *)
Lemma trim_trailing g w : no_ws g -> all_ws w -> trim (g ++ w) = g.
Proof.
  intros Hg Hw. unfold trim.
  destruct g as [|a g].
  - simpl. rewrite <- (app_nil_r w). rewrite drop_ws_all_ws by exact Hw. reflexivity.
  - assert (Hd : drop_ws ((a :: g) ++ w) = (a :: g) ++ w).
    { simpl. rewrite (Hg a) by (left; reflexivity). reflexivity. }
    rewrite Hd, rev_app_distr.
    rewrite drop_ws_all_ws by (intros b Hb; apply Hw; apply in_rev; exact Hb).
    rewrite (drop_ws_no_ws _ (no_ws_rev _ Hg)). apply rev_involutive.
Qed.

Lemma join_last sep fs f tail : join sep (fs ++ [f]) ++ tail = join sep (fs ++ [f ++ tail]).
Proof.
  induction fs as [|g fs IH]; [reflexivity|].
  destruct fs as [|h fs].
  - simpl. rewrite <- !app_assoc. reflexivity.
  - change ((g :: h :: fs) ++ [f]) with (g :: h :: (fs ++ [f])).
    change ((g :: h :: fs) ++ [f ++ tail]) with (g :: h :: (fs ++ [f ++ tail])).
    rewrite !join_cons2. rewrite <- !app_assoc. f_equal. f_equal. exact IH.
Qed.

Lemma chars_str t : chars (str t) = t.
Proof. apply list_ascii_of_string_of_list_ascii. Qed.

(** ROUND TRIP, separator with a non-white core: the fields of "f1 SEP f2 SEP ... fn <white space>" are f1 .. fn, whenever no
    field contains white space or a character of the separator *)
Theorem fields_roundtrip sep fs f tail :
  trim (chars sep) <> [] -> no_ws (trim (chars sep)) -> all_ws tail ->
  Forall (fun g => no_ws g /\ clean (trim (chars sep)) g) (fs ++ [f]) ->
  fields sep (str (join (trim (chars sep)) (fs ++ [f]) ++ tail)) = fs ++ [f].
Proof.
  unfold fields. remember (trim (chars sep)) as core eqn:Ecore. clear Ecore. intros Hc Hcw Ht HF.
  rewrite chars_str.
  destruct core as [|c0 core']; [congruence|]. remember (c0 :: core') as core eqn:Ecore.
  rewrite join_last.
  assert (HF' : Forall (clean core) (fs ++ [f ++ tail])).
  { apply Forall_app in HF as [H1 H2]. apply Forall_app. split.
    - eapply Forall_impl; [|exact H1]. intros g [_ Hg]. exact Hg.
    - inversion H2 as [|? ? [_ Hf] _]; subst. constructor; [|constructor].
      intros a Ha Hin. apply in_app_or in Ha as [Ha|Ha]; [exact (Hf a Ha Hin)|].
      pose proof (Hcw a Hin) as E1. pose proof (Ht a Ha) as E2. congruence. }
  rewrite split_join; [| congruence | destruct fs; discriminate | exact HF'].
  rewrite map_app. simpl. apply Forall_app in HF as [H1 H2]. f_equal.
  - rewrite <- (map_id fs) at 2. apply map_ext_in. intros g Hg. rewrite Forall_forall in H1. apply trim_no_ws. apply (H1 g Hg).
  - inversion H2 as [|? ? [Hf _] _]; subst. rewrite trim_trailing by assumption. reflexivity.
Qed.

(** ** white-space separators *)

Lemma ws_fields_field g : no_ws g -> forall rest cur, ws_fields (g ++ rest) cur = ws_fields rest (cur ++ g).
Proof.
  induction g as [|a g IH]; intros H rest cur; simpl.
  - rewrite app_nil_r. reflexivity.
  - rewrite (H a) by (left; reflexivity). rewrite IH by (intros b Hb; apply H; right; exact Hb).
    rewrite <- app_assoc. reflexivity.
Qed.

Lemma ws_fields_skip w : all_ws w -> forall rest, ws_fields (w ++ rest) [] = ws_fields rest [].
Proof.
  induction w as [|a w IH]; intros H rest; simpl; [reflexivity|].
  rewrite (H a) by (left; reflexivity). apply IH. intros b Hb. apply H. right. exact Hb.
Qed.

Lemma ws_fields_emit w rest cur : all_ws w -> w <> [] -> cur <> [] -> ws_fields (w ++ rest) cur = cur :: ws_fields rest [].
Proof.
  intros H Hn Hc. destruct w as [|a w]; [congruence|]. simpl. rewrite (H a) by (left; reflexivity).
  destruct cur as [|x cur]; [congruence|]. f_equal. apply ws_fields_skip. intros b Hb. apply H. right. exact Hb.
Qed.

Lemma ws_fields_join_gen j tail : all_ws j -> j <> [] -> all_ws tail ->
  forall fs f0 cur, Forall (fun g => g <> [] /\ no_ws g) (f0 :: fs) ->
  ws_fields (join j (f0 :: fs) ++ tail) cur = (cur ++ f0) :: fs.
Proof.
  intros Hj Hjn Ht. induction fs as [|f1 fs IH]; intros f0 cur HF; inversion HF as [|? ? [H0n H0w] HF']; subst.
  - simpl. rewrite ws_fields_field by assumption.
    assert (Hne : cur ++ f0 <> []) by (destruct cur, f0; simpl; congruence).
    destruct tail as [|t tail].
    + simpl. destruct (cur ++ f0); [congruence | reflexivity].
    + rewrite <- (app_nil_r (t :: tail)). rewrite ws_fields_emit by (auto; discriminate). reflexivity.
  - rewrite join_cons2. rewrite <- !app_assoc. rewrite ws_fields_field by assumption.
    assert (Hne : cur ++ f0 <> []) by (destruct cur, f0; simpl; congruence).
    rewrite ws_fields_emit by assumption. rewrite IH by assumption. reflexivity.
Qed.

(** ROUND TRIP, white-space separator ([" "], tab, ...): non-empty fields without white space joined by any non-empty run of white
    space (and followed by any white space) are read back as they are *)
Theorem ws_fields_roundtrip sep j tail fs :
  trim (chars sep) = [] -> all_ws j -> j <> [] -> all_ws tail -> fs <> [] ->
  Forall (fun g => g <> [] /\ no_ws g) fs ->
  fields sep (str (join j fs ++ tail)) = fs.
Proof.
  intros Hs Hj Hjn Ht Hn HF. unfold fields. rewrite Hs, chars_str.
  destruct fs as [|f0 fs]; [congruence|]. rewrite ws_fields_join_gen by assumption. reflexivity.
Qed.

(** * B. the requested element type never changes the split *)

Lemma all_some_Forall2 {A B} (f : A -> option B) : forall l vs, all_some (map f l) = Some vs -> Forall2 (fun x v => f x = Some v) l vs.
Proof.
  induction l as [|x l IH]; intros vs H; simpl in H.
  - inversion H. constructor.
  - destruct (f x) as [v|] eqn:E; [|discriminate]. destruct (all_some (map f l)) as [r|] eqn:Er; [|discriminate].
    simpl in H. inversion H; subst. constructor; [exact E | apply IH; reflexivity].
Qed.

Lemma Forall2_all_some {A B} (f : A -> option B) : forall l vs, Forall2 (fun x v => f x = Some v) l vs -> all_some (map f l) = Some vs.
Proof. induction 1 as [|x v l vs E _ IH]; simpl; [reflexivity|]. rewrite E, IH. reflexivity. Qed.

(** a successful parse is: the fields of the output (computed without looking at the element type), each converted *)
Theorem parse_is_split_then_convert k sep out vs :
  parse_stdout k sep out = Some vs -> fields sep out <> [] /\ Forall2 (fun f v => conv k f = Some v) (fields sep out) vs.
Proof.
  unfold parse_stdout. destruct (fields sep out) as [|f fs] eqn:E; [discriminate|]. intros H. split; [discriminate|].
  apply all_some_Forall2. exact H.
Qed.

Theorem parse_length k sep out vs : parse_stdout k sep out = Some vs -> List.length vs = List.length (fields sep out).
Proof.
  intros H. apply parse_is_split_then_convert in H as [_ H]. symmetry.
  induction H; simpl; [reflexivity | f_equal; assumption].
Qed.

Lemma parse_weaken k1 k2 : (forall f v, conv k1 f = Some v -> conv k2 f = Some v) ->
  forall sep out vs, parse_stdout k1 sep out = Some vs -> parse_stdout k2 sep out = Some vs.
Proof.
  intros Hk sep out vs H. pose proof (parse_is_split_then_convert _ _ _ _ H) as [Hn HF].
  unfold parse_stdout. revert Hn HF. clear H. destruct (fields sep out) as [|f fs]; intros Hn HF; [congruence|].
  apply Forall2_all_some. remember (f :: fs) as l eqn:El. clear El Hn. induction HF; constructor; auto.
Qed.

(** an output that parses with an integer type parses to the SAME values with a float type; unsigned to signed likewise *)
Theorem parse_int_as_float sep out vs : parse_stdout KInt sep out = Some vs -> parse_stdout KFloat sep out = Some vs.
Proof.
  apply parse_weaken. intros f v. unfold conv. destruct (conv_int f) as [z|]; simpl; [auto | discriminate].
Qed.

Theorem parse_uint_as_int sep out vs : parse_stdout KUInt sep out = Some vs -> parse_stdout KInt sep out = Some vs.
Proof.
  apply parse_weaken. intros f v. unfold conv. destruct (conv_int f) as [z|]; simpl; [|discriminate].
  destruct (0 <=? z)%Z; [auto | discriminate].
Qed.

(** * C. integers: printing with [str()] ([render_Z], what [str.format] substitutes) and parsing back *)

Lemma conv_int_render z : conv_int (chars (render_Z z)) = Some z.
Proof.
  unfold conv_int, str, chars, render_Z. rewrite string_of_list_ascii_of_string.
  rewrite NilZero.isi.
  - simpl. rewrite DecimalZ.of_to. reflexivity.
  - destruct z; simpl; intros H; inversion H as [H1]. eapply Unsigned.to_uint_nonnil. exact H1.
  - destruct z; simpl; intros H; inversion H as [H1]. eapply Unsigned.to_uint_nonnil. exact H1.
Qed.

Definition numeric_chars : text := chars "-0123456789".

Lemma nilempty_chars d : forall a, In a (chars (NilEmpty.string_of_uint d)) -> In a numeric_chars.
Proof.
  induction d; simpl; intros a H; try (destruct H as [H|H]; [subst; vm_compute; tauto | apply IHd; exact H]).
  contradiction.
Qed.

Lemma render_Z_chars z : forall a, In a (chars (render_Z z)) -> In a numeric_chars.
Proof.
  assert (Hu : forall d a, In a (chars (NilZero.string_of_uint d)) -> In a numeric_chars).
  { intros d a. unfold NilZero.string_of_uint. destruct d; try (intros H; eapply nilempty_chars; exact H).
    simpl. intros [H|H]; [subst; vm_compute; tauto | contradiction]. }
  intros a. unfold render_Z, NilZero.string_of_int. destruct (Z.to_int z) as [d|d].
  - exact (Hu d a).
  - simpl. intros [H|H]; [subst; vm_compute; tauto | exact (Hu d a H)].
Qed.

Lemma numeric_no_ws a : In a numeric_chars -> is_ws a = false.
Proof. intros H. vm_compute in H. repeat (destruct H as [H|H]; [subst; reflexivity|]). contradiction. Qed.

(** ROUND TRIP on values: integers printed, joined by a separator that has a non-white core made of characters that cannot
    occur in a number, and followed by the newline, parse back to exactly these integers, for the integer and the float types *)
Theorem parse_roundtrip_Z sep zs z :
  trim (chars sep) <> [] -> no_ws (trim (chars sep)) -> (forall a, In a (trim (chars sep)) -> ~ In a numeric_chars) ->
  forall k, k = KInt \/ k = KFloat ->
  parse_stdout k sep (str (join (trim (chars sep)) (map (fun x => chars (render_Z x)) (zs ++ [z])) ++ chars NL))
  = Some (map (fun x => (x, 1%positive)) (zs ++ [z])).
Proof.
  intros Hc Hw Hnum k Hk.
  assert (Hint : parse_stdout KInt sep (str (join (trim (chars sep)) (map (fun x => chars (render_Z x)) (zs ++ [z])) ++ chars NL))
                 = Some (map (fun x => (x, 1%positive)) (zs ++ [z]))).
  { set (F := fun x : Z => chars (render_Z x)).
    assert (HFz : forall x, no_ws (F x) /\ clean (trim (chars sep)) (F x)).
    { intros x. split.
      - intros a Ha. apply numeric_no_ws. eapply render_Z_chars. exact Ha.
      - intros a Ha Hin. apply (Hnum a Hin). eapply render_Z_chars. exact Ha. }
    assert (Hf : fields sep (str (join (trim (chars sep)) (map F (zs ++ [z])) ++ chars NL)) = map F (zs ++ [z])).
    { rewrite map_app. apply (fields_roundtrip sep (map F zs) (F z) (chars NL)); try assumption.
      - intros a Ha. vm_compute in Ha. destruct Ha as [Ha|[]]. subst. reflexivity.
      - apply Forall_app. split.
        + apply Forall_forall. intros g Hg. apply in_map_iff in Hg as [x [<- _]]. apply HFz.
        + constructor; [apply HFz | constructor]. }
    unfold parse_stdout. rewrite Hf.
    destruct (map F (zs ++ [z])) as [|f fs] eqn:E; [destruct zs; discriminate|]. rewrite <- E. clear E.
    apply Forall2_all_some. induction (zs ++ [z]) as [|x l IH]; simpl; constructor; [|exact IH].
    unfold conv, F. rewrite conv_int_render. reflexivity. }
  destruct Hk as [-> | ->]; [exact Hint | apply parse_int_as_float; exact Hint].
Qed.

(** * D. the decidable clauses of the correspondence *)

Lemma num_eqb_refl a : num_eqb a a = true.
Proof. unfold num_eqb. apply Z.eqb_refl. Qed.

Lemma list_eqb_num_refl l : list_eqb num_eqb l l = true.
Proof. induction l as [|a l IH]; simpl; [reflexivity|]. rewrite num_eqb_refl, IH. reflexivity. Qed.

(** the model's own row (dtype of the request, values of [parse_stdout]) satisfies the clause, for every separator, request and output *)
Theorem parse_agree_model sep req out :
  parse_agree sep req out (option_map (fun vs => (result_dtype req, vs)) (parse_stdout (kind_of req) sep out)) = true.
Proof.
  unfold parse_agree. destruct (parse_stdout (kind_of req) sep out) as [vs|] eqn:E; simpl; [|reflexivity].
  rewrite String.eqb_refl, list_eqb_num_refl. reflexivity.
Qed.

Definition same_number (a b : num) : Prop := (fst a * Zpos (snd b) = fst b * Zpos (snd a))%Z.

Lemma list_eqb_num_sound : forall l m, list_eqb num_eqb l m = true -> Forall2 same_number l m.
Proof.
  induction l as [|a l IH]; intros [|b m] H; simpl in H; try discriminate; [constructor|].
  apply andb_true_iff in H as [H1 H2]. constructor; [apply Z.eqb_eq; exact H1 | apply IH; exact H2].
Qed.

(** what the clause says about a returned row: its dtype is the requested one (float64 by default) and its entries are the fields
    of that row's standard output, split on the separator and converted to the requested type *)
Theorem parse_agree_sound sep req out dt vals :
  parse_agree sep req out (Some (dt, vals)) = true ->
  dt = result_dtype req /\
  exists vs, parse_stdout (kind_of req) sep out = Some vs /\ Forall2 same_number vs vals.
Proof.
  unfold parse_agree. intros H. apply andb_true_iff in H as [H1 H2]. apply String.eqb_eq in H1. split; [exact H1|].
  destruct (parse_stdout (kind_of req) sep out) as [vs|]; [|discriminate]. exists vs. split; [reflexivity|].
  apply list_eqb_num_sound. exact H2.
Qed.

Theorem parse_rows_ok_sound sep req os :
  parse_rows_ok sep req os = true ->
  (forall o p dt vals, In o os -> pout_of o = Some p -> p_res p = Some (dt, vals) ->
     dt = result_dtype req /\
     exists vs, parse_stdout (kind_of req) sep (p_stdout p) = Some vs /\ Forall2 same_number vs vals)
  /\ ((exists o p, In o os /\ pout_of o = Some p /\ p_res p = None) ->
      exists o p, In o os /\ pout_of o = Some p /\ parse_stdout (kind_of req) sep (p_stdout p) = None).
Proof.
  unfold parse_rows_ok. intros H. apply andb_true_iff in H as [H1 H2]. split.
  - intros o p dt vals Hin Hp Hr. rewrite forallb_forall in H1. specialize (H1 o Hin). rewrite Hp, Hr in H1.
    apply parse_agree_sound. exact H1.
  - intros [o [p [Hin [Hp Hr]]]]. unfold parse_fail_ok in H2.
    match type of H2 with (if ?c then _ else _) = true => assert (Hc : c = true) end.
    { apply existsb_exists. exists o. split; [exact Hin|]. rewrite Hp, Hr. reflexivity. }
    rewrite Hc in H2. apply existsb_exists in H2 as [o' [Hin' H']].
    destruct (pout_of o') as [p'|] eqn:Ep; [|discriminate]. exists o', p'. repeat split; auto.
    destruct (parse_stdout (kind_of req) sep (p_stdout p')); [discriminate | reflexivity].
Qed.
