(** Proofs about the sub-seed model (C15). *)
From Coq Require Import List NArith Arith Bool Lia.
From Elfi Require Import Num.Seed.
Import ListNotations.

Lemma mem_In x l : mem x l = true <-> In x l.
Proof.
  unfold mem. rewrite existsb_exists. split.
  - intros [y [Hy He]]. apply N.eqb_eq in He. subst. exact Hy.
  - intros H. exists x. split; [exact H | apply N.eqb_refl].
Qed.

Lemma add_length seen x : length (add seen x) = length seen \/ (add seen x = seen ++ [x] /\ mem x seen = false).
Proof. unfold add. destruct (mem x seen) eqn:E; [left; reflexivity | right; split; reflexivity]. Qed.

Lemma add_length_le seen x : length seen <= length (add seen x) <= S (length seen).
Proof. unfold add. destruct (mem x seen); [lia | rewrite app_length; simpl; lia]. Qed.

Lemma update_length_le d : forall seen, length seen <= length (update seen d) <= length seen + length d.
Proof.
  induction d as [|x r IH]; intros seen; simpl; [lia|].
  specialize (IH (add seen x)). pose proof (add_length_le seen x). unfold update in *. simpl. lia.
Qed.

Lemma update_prefix d : forall seen, exists t, update seen d = seen ++ t.
Proof.
  induction d as [|x r IH]; intros seen; simpl.
  - exists []. now rewrite app_nil_r.
  - destruct (IH (add seen x)) as [t Ht]. unfold update in *. simpl. rewrite Ht.
    unfold add. destruct (mem x seen).
    + now exists t.
    + exists (x :: t). now rewrite <- app_assoc.
Qed.

Lemma update_full d : forall seen, length (update seen d) = length seen + length d -> update seen d = seen ++ d.
Proof.
  induction d as [|x r IH]; intros seen H; simpl in *.
  - now rewrite app_nil_r.
  - unfold update in *. simpl in *.
    pose proof (update_length_le r (add seen x)) as Hle. unfold update in Hle.
    destruct (add_length seen x) as [Hl | [Ha _]].
    + lia.
    + rewrite Ha in *. rewrite IH.
      * now rewrite <- app_assoc.
      * rewrite app_length in *. simpl in *. lia.
Qed.

Lemma update_app seen a b : update seen (a ++ b) = update (update seen a) b.
Proof. unfold update. apply fold_left_app. Qed.

Lemma firstn_plus {A} (l : list A) p n : firstn (p + n) l = firstn p l ++ firstn n (skipn p l).
Proof.
  revert l; induction p as [|p IH]; intros l; simpl; [reflexivity|].
  destruct l as [|a l]; simpl; [now destruct n | now rewrite IH].
Qed.

(** cache invariant: the cache is the dedup of a prefix of the stream *)
Definition Inv (s : list N) (c : nat * list N) : Prop :=
  snd c = dedup (firstn (fst c) s) /\ fst c <= length s.

Lemma dedup_prefix s p : exists t, dedup s = dedup (firstn p s) ++ t.
Proof.
  unfold dedup. pattern s at 1. rewrite <- (firstn_skipn p s). rewrite update_app. apply update_prefix.
Qed.

Lemma last_opt_last d x : last_opt (d ++ [x]) = Some x.
Proof. unfold last_opt. destruct (d ++ [x]) eqn:E; [now destruct d | rewrite <- E; now rewrite last_last]. Qed.

Lemma nonempty_snoc {A} (l : list A) : l <> [] -> exists d x, l = d ++ [x].
Proof. intros H. destruct (exists_last H) as [d [x E]]. now exists d, x. Qed.

Lemma loop_spec fuel s : forall pos seen need last pos' seen' last',
  Inv s (pos, seen) -> length seen <= need ->
  loop fuel s pos seen need last = Some (pos', seen', last') ->
  Inv s (pos', seen') /\ length seen' = need /\ pos <= pos' /\
  (length seen < need -> exists v, last' = Some v /\ nth_error (dedup s) (need - 1) = Some v).
Proof.
  induction fuel as [|f IH]; intros pos seen need last pos' seen' last' HI Hle H; simpl in H.
  - destruct (length seen =? need) eqn:E; [|discriminate]. apply Nat.eqb_eq in E. inversion H; subst.
    repeat split; try apply HI; try lia.
  - destruct (length seen =? need) eqn:E.
    + apply Nat.eqb_eq in E. inversion H; subst. repeat split; try apply HI; try lia.
    + apply Nat.eqb_neq in E.
      set (n := need - length seen) in *.
      set (draws := firstn n (skipn pos s)) in *.
      destruct (length draws <? n) eqn:El; [discriminate|]. apply Nat.ltb_ge in El.
      assert (Hdl : length draws = n).
      { pose proof (firstn_le_length n (skipn pos s)). fold draws in H0. lia. }
      destruct HI as [Hs Hp]. simpl in Hs, Hp.
      assert (HI' : Inv s (pos + n, update seen draws)).
      { split; simpl.
        - rewrite firstn_plus. unfold dedup. rewrite update_app. fold (dedup (firstn pos s)). now rewrite <- Hs.
        - unfold draws in Hdl. rewrite firstn_length, skipn_length in Hdl. lia. }
      pose proof (update_length_le draws seen) as Hul.
      assert (Hle' : length (update seen draws) <= need) by lia.
      destruct (Nat.eq_dec (length (update seen draws)) need) as [Hfull | Hnot].
      * (* the next iteration exits at once *)
        assert (Hret : loop f s (pos + n) (update seen draws) need (last_opt draws)
                       = Some (pos + n, update seen draws, last_opt draws)).
        { destruct f; simpl; apply Nat.eqb_eq in Hfull; now rewrite Hfull. }
        rewrite Hret in H. inversion H; subst pos' seen' last'. clear H.
        repeat split; try apply HI'; try lia.
        intros _.
        assert (Hne : draws <> []) by (intros Hd; rewrite Hd in Hdl; simpl in Hdl; lia).
        destruct (nonempty_snoc _ Hne) as [d [x Ed]].
        exists x. split; [rewrite Ed; apply last_opt_last|].
        assert (Hu : update seen draws = seen ++ draws) by (apply update_full; lia).
        destruct (dedup_prefix s (pos + n)) as [t Ht].
        destruct HI' as [Hs' _]. simpl in Hs'. rewrite <- Hs', Hu, Ed in Ht.
        assert (Hneed : need - 1 = length (seen ++ d)).
        { rewrite app_length. rewrite Ed, app_length in Hdl. simpl in Hdl. unfold n in Hdl. lia. }
        rewrite Ht, Hneed. replace ((seen ++ d ++ [x]) ++ t) with ((seen ++ d) ++ x :: t).
        2:{ rewrite <- !app_assoc. reflexivity. }
        rewrite nth_error_app2 by lia. now rewrite Nat.sub_diag.
      * specialize (IH _ _ _ _ _ _ _ HI' Hle' H). destruct IH as [A [B [C D]]].
        repeat split; try apply A; try lia. intros _. apply D. lia.
Qed.

Lemma Inv_fresh s : Inv s (0, []).
Proof. split; simpl; [reflexivity | lia]. Qed.

Definition InvC (s : list N) (c : cache) : Prop :=
  match c with None => True | Some pc => Inv s pc end.

Theorem get_sub_seed_spec fuel s high idx c v c' :
  InvC s c ->
  get_sub_seed fuel s high idx c = Answer v c' ->
  spec s idx = Some v /\ Inv s c' /\ (N.of_nat idx < high)%N.
Proof.
  unfold get_sub_seed. intros HI H.
  destruct (high <=? N.of_nat idx)%N eqn:Eh; [discriminate|]. apply N.leb_gt in Eh.
  set (start := match c with
                | Some (p, sn) => if length sn <? idx + 1 then (p, sn) else (0, [])
                | None => (0, [])
                end) in *.
  assert (Hst : Inv s start /\ length (snd start) < idx + 1).
  { unfold start. destruct c as [[p sn]|]; simpl in *.
    - destruct (length sn <? idx + 1) eqn:E.
      + apply Nat.ltb_lt in E. split; [exact HI | exact E].
      + split; [apply Inv_fresh | simpl; lia].
    - split; [apply Inv_fresh | simpl; lia]. }
  destruct start as [pos seen]. destruct Hst as [HI0 Hlt]. simpl in Hlt.
  destruct (loop fuel s pos seen (idx + 1) None) as [[[pos' seen'] [w|]]|] eqn:El; try discriminate.
  inversion H; subst. clear H.
  destruct (loop_spec _ _ _ _ _ _ _ _ _ HI0 (Nat.lt_le_incl _ _ Hlt) El) as [A [B [C D]]].
  destruct (D Hlt) as [v' [Hv Hn]]. inversion Hv; subst.
  split; [|split; [exact A | exact Eh]].
  unfold spec. replace (idx + 1 - 1) with idx in Hn by lia. exact Hn.
Qed.

Lemma get_sub_seed_rejected fuel s high idx c :
  get_sub_seed fuel s high idx c = Rejected <-> (high <= N.of_nat idx)%N.
Proof.
  unfold get_sub_seed. destruct (high <=? N.of_nat idx)%N eqn:Eh.
  - apply N.leb_le in Eh. tauto.
  - apply N.leb_gt in Eh. split; [|lia].
    destruct (match c with Some (p, sn) => _ | None => _ end) as [pos seen].
    destruct (loop fuel s pos seen (idx + 1) None) as [[[? ?] [?|]]|]; discriminate.
Qed.

(** what a single answer must satisfy *)
Definition good (s : list N) (high : N) (idx : nat) (r : result) : Prop :=
  match r with
  | Rejected => (high <= N.of_nat idx)%N
  | Exhausted => (N.of_nat idx < high)%N
  | Answer v _ => (N.of_nat idx < high)%N /\ spec s idx = Some v
  end.

Theorem history_independent fuel s high : forall reqs c,
  InvC s c ->
  Forall2 (fun rq r => good s high (fst rq) r) reqs (run_history fuel s high c reqs).
Proof.
  induction reqs as [|[idx uc] r IH]; intros c HI; simpl; [constructor|].
  destruct uc.
  - constructor.
    + simpl. destruct (get_sub_seed fuel s high idx c) eqn:E; simpl.
      * now apply get_sub_seed_rejected in E.
      * destruct (N.ltb_spec (N.of_nat idx) high) as [Hlt|Hge]; [exact Hlt|].
        apply (get_sub_seed_rejected fuel s high idx c) in Hge. congruence.
      * destruct (get_sub_seed_spec _ _ _ _ _ _ _ HI E) as [A [B C]]. tauto.
    + apply IH. destruct (get_sub_seed fuel s high idx c) eqn:E; try exact HI.
      destruct (get_sub_seed_spec _ _ _ _ _ _ _ HI E) as [A [B C]]. exact B.
  - constructor.
    + simpl. destruct (get_sub_seed fuel s high idx None) eqn:E; simpl.
      * now apply get_sub_seed_rejected in E.
      * destruct (N.ltb_spec (N.of_nat idx) high) as [Hlt|Hge]; [exact Hlt|].
        apply (get_sub_seed_rejected fuel s high idx None) in Hge. congruence.
      * destruct (get_sub_seed_spec fuel s high idx None v c0 I E) as [A [B C]]. tauto.
    + apply IH. exact HI.
Qed.

(** dedup has no duplicates and only stream values *)
Lemma NoDup_snoc (l : list N) x : NoDup l -> ~ In x l -> NoDup (l ++ [x]).
Proof.
  intros H Hn. induction H as [|y l Hy Hl IH]; simpl.
  - constructor; [intros []|constructor].
  - constructor.
    + rewrite in_app_iff. simpl. intros [A|[A|[]]]; [tauto | subst; apply Hn; now left].
    + apply IH. intros A. apply Hn. now right.
Qed.

Lemma update_NoDup d : forall seen, NoDup seen -> NoDup (update seen d).
Proof.
  induction d as [|x r IH]; intros seen H; simpl; [exact H|].
  unfold update in *. simpl. apply IH. unfold add. destruct (mem x seen) eqn:E; [exact H|].
  apply NoDup_snoc; [exact H|]. intros Hin. apply mem_In in Hin. congruence.
Qed.

Lemma dedup_NoDup s : NoDup (dedup s).
Proof. apply update_NoDup. constructor. Qed.

Lemma update_In d : forall seen x, In x (update seen d) -> In x seen \/ In x d.
Proof.
  induction d as [|y r IH]; intros seen x H; simpl in *; [now left|].
  unfold update in *. simpl in H. apply IH in H. destruct H as [H|H]; [|right; now right].
  unfold add in H. destruct (mem y seen); [now left|].
  apply in_app_iff in H. destruct H as [H|[H|[]]]; [now left | right; left; exact H].
Qed.

Theorem spec_injective s i j v : spec s i = Some v -> spec s j = Some v -> i = j.
Proof.
  unfold spec. intros Hi Hj. pose proof (dedup_NoDup s) as Hnd.
  rewrite NoDup_nth_error in Hnd. apply Hnd; [|congruence].
  apply nth_error_Some. congruence.
Qed.

Theorem spec_in_stream s i v : spec s i = Some v -> In v s.
Proof.
  unfold spec, dedup. intros H. apply nth_error_In in H. apply update_In in H. destruct H as [[]|H]; exact H.
Qed.

Theorem spec_in_range s high i v :
  Forall (fun x => (x < high)%N) s -> spec s i = Some v -> (v < high)%N.
Proof. intros Hall H. apply spec_in_stream in H. rewrite Forall_forall in Hall. now apply Hall. Qed.

(** Liveness: when the recorded stream holds idx+1 distinct values and the fuel covers the
    stream, the answer is not [Exhausted].  (Termination of the real loop for idx < high is
    probabilistic; this is the model-side non-vacuity statement.) *)
Lemma loop_live s need : forall fuel pos seen last,
  Inv s (pos, seen) -> length seen <= need -> need <= length (dedup s) ->
  length s - pos < fuel ->
  exists r, loop fuel s pos seen need last = Some r.
Proof.
  induction fuel as [|f IH]; intros pos seen last HI Hle Hneed Hf; [lia|].
  simpl. destruct (length seen =? need) eqn:E; [eexists; reflexivity|]. apply Nat.eqb_neq in E.
  set (n := need - length seen). set (draws := firstn n (skipn pos s)).
  destruct HI as [Hs Hp]. simpl in Hs, Hp.
  (* the stream beyond pos must contain at least n more items, else dedup s would be too short *)
  assert (Hrest : n <= length (skipn pos s)).
  { destruct (le_lt_dec n (length (skipn pos s))) as [H|H]; [exact H|exfalso].
    assert (Hd : dedup s = update seen (skipn pos s)).
    { unfold dedup. pattern s at 1. rewrite <- (firstn_skipn pos s). rewrite update_app.
      fold (dedup (firstn pos s)). now rewrite <- Hs. }
    pose proof (update_length_le (skipn pos s) seen). rewrite <- Hd in H0. unfold n in H. lia. }
  assert (Hdl : length draws = n) by (unfold draws; rewrite firstn_length; lia).
  destruct (length draws <? n) eqn:El; [apply Nat.ltb_lt in El; lia|].
  assert (Hn : 0 < n) by (unfold n; lia).
  apply IH.
  - split; simpl.
    + rewrite firstn_plus. unfold dedup. rewrite update_app. fold (dedup (firstn pos s)). now rewrite <- Hs.
    + rewrite skipn_length in Hrest. lia.
  - pose proof (update_length_le draws seen). unfold n in *. lia.
  - exact Hneed.
  - rewrite skipn_length in Hrest. lia.
Qed.

Theorem get_sub_seed_live s high idx c :
  InvC s c -> (N.of_nat idx < high)%N -> idx < length (dedup s) ->
  exists v c', get_sub_seed (S (length s)) s high idx c = Answer v c'.
Proof.
  intros HI Hh Hd. unfold get_sub_seed.
  destruct (high <=? N.of_nat idx)%N eqn:Eh; [apply N.leb_le in Eh; lia|].
  set (start := match c with
                | Some (p, sn) => if length sn <? idx + 1 then (p, sn) else (0, [])
                | None => (0, [])
                end).
  assert (Hst : Inv s start /\ length (snd start) < idx + 1).
  { unfold start. destruct c as [[p sn]|]; simpl in *.
    - destruct (length sn <? idx + 1) eqn:E.
      + apply Nat.ltb_lt in E. split; [exact HI | exact E].
      + split; [apply Inv_fresh | simpl; lia].
    - split; [apply Inv_fresh | simpl; lia]. }
  destruct start as [pos seen]. destruct Hst as [HI0 Hlt]. simpl in Hlt.
  destruct (loop_live s (idx + 1) (S (length s)) pos seen None HI0) as [[[pos' seen'] last'] Hl]; try lia.
  rewrite Hl.
  destruct (loop_spec _ _ _ _ _ _ _ _ _ HI0 (Nat.lt_le_incl _ _ Hlt) Hl) as [_ [_ [_ D]]].
  destruct (D Hlt) as [v [Hv _]]. subst. eauto.
Qed.

(** ---- soundness of the decidable spec used on implementation outputs ---- *)

Definition answer_ok (s : list N) (high : N) (idx : nat) (o : option N) : Prop :=
  match o with
  | None => (high <= N.of_nat idx)%N
  | Some v => (N.of_nat idx < high)%N /\ (v < high)%N /\ spec s idx = Some v
  end.

Lemma ok_answers_sound s high : forall reqs i,
  ok_answers s high reqs i = true -> Forall2 (fun (rq : nat * bool) o => answer_ok s high (fst rq) o) reqs i.
Proof.
  induction reqs as [|[idx uc] r IH]; intros [|o i] H; simpl in H; try discriminate; [constructor|].
  apply andb_true_iff in H. destruct H as [H1 H2]. constructor; [|now apply IH].
  simpl. destruct o as [v|]; simpl.
  - apply andb_true_iff in H1. destruct H1 as [H1 H3]. apply andb_true_iff in H1. destruct H1 as [H1 H4].
    apply N.ltb_lt in H1, H4. destruct (spec s idx) as [w|]; [|discriminate]. apply N.eqb_eq in H3. subst. tauto.
  - now apply N.leb_le in H1.
Qed.

(** an accepted answer list never gives two different indices the same seed *)
Lemma ok_answers_distinct s high reqs i :
  Forall2 (fun (rq : nat * bool) o => answer_ok s high (fst rq) o) reqs i ->
  forall a b ia ib v, nth_error reqs a = Some ia -> nth_error reqs b = Some ib ->
    nth_error i a = Some (Some v) -> nth_error i b = Some (Some v) -> fst ia = fst ib.
Proof.
  intros H a b ia ib v Ha Hb Hva Hvb.
  assert (Hget : forall k rq, nth_error reqs k = Some rq -> nth_error i k = Some (Some v) -> spec s (fst rq) = Some v).
  { clear -H. induction H as [|rq o reqs i Hro Hf IH]; intros k rq' Hk Hv; [destruct k; discriminate|].
    destruct k; simpl in *.
    - inversion Hk; inversion Hv; subst. simpl in Hro. tauto.
    - eapply IH; eauto. }
  eapply spec_injective; [eapply Hget; eauto | eapply Hget; eauto].
Qed.

(** The model's own answers satisfy the decidable spec (for streams below [high]). *)
Definition view_of (r : result) : option N := match r with Answer v _ => Some v | _ => None end.

Lemma model_ok_answers fuel s high :
  Forall (fun x => (x < high)%N) s ->
  forall reqs c, InvC s c ->
  Forall (fun r => r <> Exhausted) (run_history fuel s high c reqs) ->
  ok_answers s high reqs (map view_of (run_history fuel s high c reqs)) = true.
Proof.
  intros Hall reqs c HI Hne.
  pose proof (history_independent fuel s high reqs c HI) as HF.
  revert HF Hne. generalize (run_history fuel s high c reqs) as rs.
  induction reqs as [|[idx uc] r IH]; intros rs HF Hne; inversion HF; subst; simpl; [reflexivity|].
  inversion Hne; subst. rewrite IH; auto. rewrite andb_true_r.
  simpl in H1. destruct y; simpl in *.
  - now apply N.leb_le.
  - congruence.
  - destruct H1 as [A B]. rewrite B. rewrite N.eqb_refl.
    apply N.ltb_lt in A. rewrite A. simpl. rewrite andb_true_r.
    apply N.ltb_lt. eapply spec_in_range; eauto.
Qed.

(** ---- first-appearance characterisation (wave 3) ----
    What the harness's numpy reference computes for indices too large for a Coq literal: the value at
    the raw position [p] of a first appearance is the sub seed of index "number of distinct values
    before [p]".  Consequences: on a duplicate-free prefix the sub seed of index [i] is the raw draw
    [i]; at the first repeated raw draw [d] the raw draw is NOT the sub seed of [d] (a shortcut that
    returns raw draws aliases two indices exactly there). *)
Lemma dedup_In s x : In x (dedup s) -> In x s.
Proof. unfold dedup. intros H. apply update_In in H. destruct H as [[]|H]; exact H. Qed.

Lemma dedup_snoc_fresh l v : ~ In v l -> dedup (l ++ [v]) = dedup l ++ [v].
Proof.
  intros Hn. unfold dedup. rewrite update_app. fold (dedup l).
  unfold update. simpl. unfold add. destruct (mem v (dedup l)) eqn:E; [|reflexivity].
  apply mem_In in E. apply dedup_In in E. contradiction.
Qed.

Lemma firstn_S_nth {A} (s : list A) : forall p v, nth_error s p = Some v -> firstn (S p) s = firstn p s ++ [v].
Proof.
  induction s as [|a s IH]; intros [|p] v H; simpl in *; try discriminate.
  - inversion H; reflexivity.
  - f_equal. apply IH. exact H.
Qed.

Lemma nth_error_firstn_lt {A} (s : list A) : forall d p, p < d -> nth_error (firstn d s) p = nth_error s p.
Proof. induction s as [|a s IH]; intros [|d] [|p] H; simpl; try reflexivity; try lia. apply IH. lia. Qed.

Theorem spec_first_appearance s p v :
  nth_error s p = Some v -> ~ In v (firstn p s) -> spec s (length (dedup (firstn p s))) = Some v.
Proof.
  intros Hp Hn. unfold spec.
  destruct (dedup_prefix s (S p)) as [t Ht]. rewrite Ht.
  rewrite (firstn_S_nth _ _ _ Hp). rewrite dedup_snoc_fresh by exact Hn.
  rewrite <- app_assoc. rewrite nth_error_app2 by lia. rewrite Nat.sub_diag. reflexivity.
Qed.

Lemma dedup_NoDup_id l : NoDup l -> dedup l = l.
Proof.
  induction l as [|x l IH] using rev_ind; intros H; [reflexivity|].
  apply NoDup_remove in H. rewrite app_nil_r in H. destruct H as [Hl Hx].
  rewrite dedup_snoc_fresh by exact Hx. now rewrite IH.
Qed.

Theorem spec_nodup_prefix s i : NoDup (firstn (S i) s) -> spec s i = nth_error s i.
Proof.
  intros Hnd. destruct (nth_error s i) as [v|] eqn:E.
  - assert (Hi : i < length s) by (apply nth_error_Some; congruence).
    rewrite (firstn_S_nth _ _ _ E) in Hnd.
    apply NoDup_remove in Hnd. rewrite app_nil_r in Hnd. destruct Hnd as [Hl Hx].
    pose proof (spec_first_appearance s i v E Hx) as H.
    rewrite (dedup_NoDup_id _ Hl) in H. rewrite firstn_length_le in H by lia. exact H.
  - apply nth_error_None in E. rewrite firstn_all2 in Hnd by lia.
    unfold spec. rewrite (dedup_NoDup_id _ Hnd). now apply nth_error_None.
Qed.

Lemma NoDup_firstn {A} (l : list A) n : NoDup l -> NoDup (firstn n l).
Proof.
  revert l; induction n as [|n IH]; intros [|a l] H; simpl; try constructor.
  - inversion H; subst. intros Hin. apply H2. rewrite <- (firstn_skipn n l). apply in_or_app. now left.
  - inversion H; subst. now apply IH.
Qed.

Theorem raw_draw_wrong_at_collision s d x :
  NoDup (firstn d s) -> nth_error s d = Some x -> In x (firstn d s) -> spec s d <> Some x.
Proof.
  intros Hnd Hd Hin Hs.
  apply In_nth_error in Hin. destruct Hin as [p Hp].
  assert (Hpd : p < d).
  { assert (H : p < length (firstn d s)) by (apply nth_error_Some; congruence). rewrite firstn_length in H. lia. }
  rewrite nth_error_firstn_lt in Hp by exact Hpd.
  assert (Hsp : spec s p = Some x).
  { rewrite <- Hp. apply spec_nodup_prefix.
    replace (firstn (S p) s) with (firstn (S p) (firstn d s)).
    - now apply NoDup_firstn.
    - rewrite firstn_firstn. f_equal. lia. }
  pose proof (spec_injective s p d x Hsp Hs). lia.
Qed.

(** the reference answers accepted by [ref_ok] are the [spec] values *)
Lemma ref_ok_sound s high : forall reqs r,
  ref_ok s high reqs r = true ->
  Forall2 (fun (rq : nat * bool) o => match o with
                                      | None => (high <= N.of_nat (fst rq))%N
                                      | Some v => (N.of_nat (fst rq) < high)%N /\ spec s (fst rq) = Some v
                                      end) reqs r.
Proof.
  induction reqs as [|[idx uc] q IH]; intros [|o r] H; simpl in H; try discriminate; [constructor|].
  apply andb_true_iff in H. destruct H as [H1 H2]. constructor; [|now apply IH].
  simpl. destruct o as [v|].
  - apply andb_true_iff in H1. destruct H1 as [H1 H3]. apply N.ltb_lt in H1.
    destruct (spec s idx) as [w|]; [|discriminate]. apply N.eqb_eq in H3. subst. tauto.
  - now apply N.leb_le in H1.
Qed.
