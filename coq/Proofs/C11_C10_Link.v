(** C11 x C10 link: the evidence Bayesian optimisation hands to the surrogate (C11 model, Sched/Bo.v:
    [Bo.update] is called once per consumed batch, after the one call of __init__ with the
    precomputed evidence) is fed, call by call, into the surrogate's evidence store of the C10 model
    (Num/Gp.v: [Gp.update] = GPyRegression.update, np.r_[old, new]).

      bolfi.py  __init__:  if precomputed is not None: self.target_model.update(params, precomputed[target])
                update:    self.target_model.update(params, batch[self.target_name], optimize)

    The composition is a fold of [Gp.update] over the list of update calls the C11 model emits
    ([update_calls]: the precomputed rows, if any, then [compute i p] for every consumed batch
    [(i, p)] of [clog], in consumption order; [iterate_feeds_one_update] shows that one scheduler
    iteration makes exactly one such call, with the rows [Bo.update] receives).

    Types: the C10 store is polymorphic in the row type; it is instantiated at [P * T], one evidence
    row = (parameter row, target value); X = [map fst], Y = [map snd] ([gp_X], [gp_Y]).  For the box
    statements P = [Acq.row] = list Q, and (T = Q) [P * T] is [Gp.erow] literally.

    The existing theorems are used as they are: C11 [infer_bookkeeping], [supplied_rows],
    [sync_schedule_independent], [in_user_box_named], [acquire_base_ok]; C10 [rows_final],
    [rows_update], [updates_keep_prefix], [n_evidence_counts]. *)
From Coq Require Import List ZArith QArith Arith Bool Lia.
From Coq Require String.
From Elfi Require Import Sched.Sched Sched.Bo Num.Acq Proofs.C04_Sched Proofs.C11_Acq Proofs.C11_Box Proofs.C11_Bo.
From Elfi Require Num.Gp Proofs.C10_Post.
Import ListNotations.
Local Close Scope Q_scope.

Lemma link_concat_map {X Y} (f : X -> list Y) (l : list X) : concat (map f l) = flat_map f l.
Proof. symmetry. apply flat_map_concat_map. Qed.

Lemma link_map_flat_map {X Y Z} (g : Y -> Z) (f : X -> list Y) (l : list X) :
  map g (flat_map f l) = flat_map (fun x => map g (f x)) l.
Proof. induction l as [|x l IH]; simpl; [reflexivity|]. now rewrite map_app, IH. Qed.

Section Link.
  Variables P T A : Type.
  Variable acq : A -> list (P * T) -> nat -> Z -> list P * A.
  Variable compute : nat -> option (list P) -> list (P * T).
  Variable c : cfg.

  Notation SP := (option (list P)).
  Notation gp := (@Gp.evidence (P * T)).
  Notation infer := (Bo.infer P T A acq compute c).
  Notation seq_run := (Bo.seq_run P T A acq compute c).
  Notation iterate := (Bo.iterate P T A acq compute c).

  (** ---- the update calls of the C11 model ---- *)

  (** the call made by BayesianOptimization.update for the consumed batch (i, p) *)
  Definition batch_call (ip : nat * SP) : list (P * T) := compute (fst ip) (snd ip).

  (** __init__: one call with the precomputed rows when there are any *)
  Definition init_calls (pre : list (P * T)) : list (list (P * T)) := if is_nil pre then [] else [pre].

  (** every call of target_model.update, in call order, of a run that consumed the batches [lg] *)
  Definition update_calls (pre : list (P * T)) (lg : list (nat * SP)) : list (list (P * T)) :=
    init_calls pre ++ map batch_call lg.

  (** ---- the composition: the C10 store after those calls, starting from "no GP yet" ---- *)
  Definition surrogate_after (pre : list (P * T)) (lg : list (nat * SP)) : gp :=
    Gp.final None (update_calls pre lg).

  (** conversion between the two models' views: X and Y of the store *)
  Definition gp_X (g : gp) : list P := map fst (Gp.rows_of g).
  Definition gp_Y (g : gp) : list T := map snd (Gp.rows_of g).

  (** run BO under the schedule [orc] (max_parallel [maxp]) and return the surrogate's store *)
  Definition bo_surrogate (fuel maxp : nat) (pre : list (P * T)) (a : A) (orc : list bool) : option gp :=
    match infer fuel maxp (sched0 P T A c pre a) orc [] with
    | inl (s, _) => Some (surrogate_after pre (clog s))
    | inr _ => None
    end.

  (** what the simulator was given: the supplied rows, or (nothing supplied) the rows it drew itself *)
  Definition simulated_at (ip : nat * SP) : list P :=
    match snd ip with Some rows => rows | None => map fst (compute (fst ip) None) end.

  (** ---- step lemmas: the fold really follows the calls of the C11 model ---- *)

  Lemma concat_init_calls pre : concat (init_calls pre) = pre.
  Proof. unfold init_calls. destruct pre; simpl; [reflexivity|]. now rewrite app_nil_r. Qed.

  (** [Bo.update] and [Gp.update] on the same rows keep "store = BO's evidence list" *)
  Lemma update_refines (e : Bo.estate P T) (g : gp) rows :
    Gp.rows_of g = ev e -> Gp.rows_of (Gp.update g rows) = ev (Bo.update P T c e rows).
  Proof. intros H. rewrite C10_Post.rows_update, H. reflexivity. Qed.

  Lemma surrogate_after_snoc pre lg ip :
    surrogate_after pre (lg ++ [ip]) = Gp.update (surrogate_after pre lg) (batch_call ip).
  Proof.
    unfold surrogate_after, update_calls. rewrite map_app, app_assoc, C10_Post.final_app. reflexivity.
  Qed.

  (** one iteration of the scheduler = one consumed batch = one update call, on the rows BO's own
      update receives; submissions in between touch neither evidence list *)
  Lemma iterate_feeds_one_update maxp pre s orc tr s' orc' tr' :
    iterate maxp s orc tr = inl (s', orc', tr') ->
    exists i p,
      clog s' = clog s ++ [(i, p)] /\
      es s' = Bo.update P T c (es s) (compute i p) /\
      surrogate_after pre (clog s') = Gp.update (surrogate_after pre (clog s)) (compute i p).
  Proof.
    unfold Bo.iterate. destruct (Bo.submit_loop P T A acq c maxp maxp s orc tr) as [[s1 orc1] tr1] eqn:Hs.
    destruct (submit_loop_es P T A acq c _ _ _ _ _ _ _ _ Hs) as [E1 E2].
    destruct (pend s1) as [|[i p] rest]; [discriminate|]. intros H. inversion H; subst; clear H.
    exists i, p. simpl. rewrite E1, E2. repeat split. apply surrogate_after_snoc.
  Qed.

  (** the store after the calls holds their rows, in call order (C10: rows_final) *)
  Lemma surrogate_after_rows pre lg :
    Gp.rows_of (surrogate_after pre lg) = pre ++ flat_map batch_call lg.
  Proof.
    unfold surrogate_after, update_calls. rewrite C10_Post.rows_final. simpl.
    now rewrite concat_app, concat_init_calls, link_concat_map.
  Qed.

  (** C10's prefix theorem read on a BO run: the store after more consumed batches extends the store
      after fewer, by exactly the later batches' rows *)
  Lemma surrogate_after_prefix pre lg1 lg2 :
    Gp.rows_of (surrogate_after pre (lg1 ++ lg2)) =
    Gp.rows_of (surrogate_after pre lg1) ++ flat_map batch_call lg2.
  Proof.
    unfold surrogate_after, update_calls. rewrite map_app, app_assoc, C10_Post.updates_keep_prefix.
    now rewrite link_concat_map.
  Qed.

  (** ---- (1) trained on what was simulated, for every schedule ---- *)
  Theorem surrogate_trained_on_what_was_simulated maxp fuel pre a orc :
    1 <= maxp ->
    match infer fuel maxp (sched0 P T A c pre a) orc [] with
    | inl (s, tr) =>
        let g := surrogate_after pre (clog s) in
        bo_surrogate fuel maxp pre a orc = Some g /\
        Gp.rows_of g = ev (es s) /\
        Gp.rows_of g = pre ++ flat_map batch_call (clog s) /\
        gp_X g = map fst pre ++ flat_map (fun ip => map fst (batch_call ip)) (clog s) /\
        gp_Y g = map snd pre ++ flat_map (fun ip => map snd (batch_call ip)) (clog s) /\
        map fst (clog s) = seq 0 (nb (es s)) /\
        Gp.n_evidence g = length pre + length (flat_map batch_call (clog s))
    | inr e => e = EOutOfFuel /\ bo_surrogate fuel maxp pre a orc = None
    end.
  Proof.
    intros Hm.
    pose proof (infer_bookkeeping P T A acq compute c maxp pre fuel (sched0 P T A c pre a) orc [] 0 Hm
                  (InvP_initial P T A c maxp _ _) (InvE_initial P T A compute c pre a)) as HB.
    unfold bo_surrogate.
    destruct (infer fuel maxp (sched0 P T A c pre a) orc []) as [[s tr]|e]; [|split; [exact HB | reflexivity]].
    destruct HB as [_ [_ [_ [_ [F5 [F6 _]]]]]]. unfold results in F6. cbv zeta.
    pose proof (surrogate_after_rows pre (clog s)) as R.
    split; [reflexivity|]. split; [rewrite R, F6; reflexivity|]. split; [exact R|].
    split; [unfold gp_X; rewrite R, map_app, link_map_flat_map; reflexivity|].
    split; [unfold gp_Y; rewrite R, map_app, link_map_flat_map; reflexivity|].
    split; [exact F5|]. unfold Gp.n_evidence. now rewrite R, app_length.
  Qed.

  (** when the simulator's output carries the parameters it was run with, X is literally the list of
      simulated parameter rows: precomputed first, then batch by batch in consumption order *)
  Theorem surrogate_X_is_simulated maxp fuel pre a orc s tr :
    1 <= maxp -> (forall i rows, map fst (compute i (Some rows)) = rows) ->
    infer fuel maxp (sched0 P T A c pre a) orc [] = inl (s, tr) ->
    gp_X (surrogate_after pre (clog s)) = map fst pre ++ flat_map simulated_at (clog s).
  Proof.
    intros Hm Hecho H. pose proof (surrogate_trained_on_what_was_simulated maxp fuel pre a orc Hm) as HT.
    rewrite H in HT. destruct HT as [_ [_ [_ [HX _]]]]. rewrite HX. f_equal.
    apply flat_map_ext. intros [i [rows|]]; unfold batch_call, simulated_at; simpl; auto.
  Qed.

  (** ---- (2) every row of X satisfies what the acquisition answers satisfy ---- *)
  Section InGood.
    Variable Good : P -> Prop.
    Hypothesis HacqG : forall a e n t, Forall Good (fst (acq a e n t)).
    Hypothesis HacqN : forall a e n t, length (fst (acq a e n t)) = n.
    Hypothesis Hbpa : 1 <= c_bpa c.
    (** the simulator reports the parameters it was given *)
    Hypothesis Hecho : forall i rows, map fst (compute i (Some rows)) = rows.

    (** every row of X is a precomputed row, or a row an initial batch drew from the prior itself
        (a batch whose acquisition index is negative), or Good *)
    Theorem surrogate_rows_classified maxp fuel pre a orc s tr :
      1 <= maxp -> infer fuel maxp (sched0 P T A c pre a) orc [] = inl (s, tr) ->
      forall x, In x (gp_X (surrogate_after pre (clog s))) ->
        In x (map fst pre)
        \/ (exists i, In (i, None) (clog s) /\ (acq_index c i < 0)%Z /\ In x (map fst (compute i None)))
        \/ Good x.
    Proof.
      intros Hm H x Hx. rewrite (surrogate_X_is_simulated maxp fuel pre a orc s tr Hm Hecho H) in Hx.
      apply in_app_or in Hx. destruct Hx as [Hx|Hx]; [now left|right].
      destruct (supplied_rows P T A acq compute c Good HacqG HacqN Hbpa maxp fuel pre a orc s tr Hm H) as [HS _].
      apply in_flat_map in Hx. destruct Hx as [[i p] [Hin Hx]]. rewrite Forall_forall in HS.
      specialize (HS _ Hin). unfold supplied_ok in HS. unfold simulated_at in Hx. simpl in *.
      destruct p as [rows|].
      - right. destruct HS as [_ [HG _]]. rewrite Forall_forall in HG. now apply HG.
      - left. exists i. auto.
    Qed.

    Theorem surrogate_evidence_good maxp fuel pre a orc s tr :
      1 <= maxp -> Forall Good (map fst pre) ->
      (forall i, (acq_index c i < 0)%Z -> Forall Good (map fst (compute i None))) ->
      infer fuel maxp (sched0 P T A c pre a) orc [] = inl (s, tr) ->
      Forall Good (gp_X (surrogate_after pre (clog s))).
    Proof.
      intros Hm Hpre Hprior H. apply Forall_forall. intros x Hx.
      destruct (surrogate_rows_classified maxp fuel pre a orc s tr Hm H x Hx) as [D|[[i [_ [Hi D]]]|D]]; auto.
      - rewrite Forall_forall in Hpre. now apply Hpre.
      - specialize (Hprior i Hi). rewrite Forall_forall in Hprior. now apply Hprior.
    Qed.

    (** no batch is drawn from the prior when the precomputed evidence already covers n_initial_evidence *)
    Theorem surrogate_evidence_good_no_prior maxp fuel pre a orc s tr :
      1 <= maxp -> Forall Good (map fst pre) -> (c_ninit c <= c_npre c)%Z -> 1 <= c_b c ->
      infer fuel maxp (sched0 P T A c pre a) orc [] = inl (s, tr) ->
      Forall Good (gp_X (surrogate_after pre (clog s))).
    Proof.
      intros Hm Hpre Hn Hb H. apply (surrogate_evidence_good maxp fuel pre a orc s tr Hm Hpre); [|exact H].
      intros i Hi. exfalso. unfold acq_index in Hi.
      assert (0 <= (Z.of_nat (c_b c) * Z.of_nat i - (c_ninit c - c_npre c)) / (Z.of_nat (c_b c) * Z.of_nat (c_bpa c)))%Z; [|lia].
      apply Z.div_pos; nia.
    Qed.
  End InGood.

  (** ---- (3) synchronous mode: the surrogate's final evidence does not depend on the schedule ---- *)
  Theorem surrogate_evidence_schedule_independent maxp fuel pre a orc ef qf n lgf :
    c_async c = false -> 1 <= maxp ->
    seq_run fuel (estate0 P T c pre) (qstate0 P A a) 0 [] = Some (ef, qf, n, lgf) ->
    bo_surrogate fuel maxp pre a orc = Some (surrogate_after pre lgf) /\
    Gp.rows_of (surrogate_after pre lgf) = ev ef.
  Proof.
    intros Has Hm Hseq.
    destruct (sync_schedule_independent P T A acq compute c maxp fuel pre a orc ef qf n lgf Has Hm Hseq)
      as [s [tr [H1 [H2 [_ [H4 _]]]]]].
    pose proof (surrogate_trained_on_what_was_simulated maxp fuel pre a orc Hm) as HT.
    unfold bo_surrogate in *. rewrite H1 in *. destruct HT as [_ [HR _]]. rewrite H4 in *. rewrite H2 in HR. auto.
  Qed.

  (** two schedules (readiness oracles, max_parallel values): same store, same X, same Y *)
  Theorem surrogate_evidence_two_schedules maxp1 maxp2 fuel pre a orc1 orc2 ef qf n lgf :
    c_async c = false -> 1 <= maxp1 -> 1 <= maxp2 ->
    seq_run fuel (estate0 P T c pre) (qstate0 P A a) 0 [] = Some (ef, qf, n, lgf) ->
    exists g, bo_surrogate fuel maxp1 pre a orc1 = Some g /\ bo_surrogate fuel maxp2 pre a orc2 = Some g /\
              gp_X g = map fst (ev ef) /\ gp_Y g = map snd (ev ef).
  Proof.
    intros Has H1 H2 Hseq. exists (surrogate_after pre lgf).
    destruct (surrogate_evidence_schedule_independent maxp1 fuel pre a orc1 ef qf n lgf Has H1 Hseq) as [A1 R].
    destruct (surrogate_evidence_schedule_independent maxp2 fuel pre a orc2 ef qf n lgf Has H2 Hseq) as [A2 _].
    unfold gp_X, gp_Y. rewrite R. auto.
  Qed.
End Link.

Arguments gp_X {P T} _.
Arguments gp_Y {P T} _.

(** ================= the box: P = Acq.row ================= *)

(** (2) composed with the C11 box theorems: acquisition answers inside the box [box_of names dict],
    precomputed rows and the rows the initial batches drew from the prior inside it (the prior is not
    clipped by BO; with n_initial_evidence <= n_precomputed there are no such batches, see the next
    theorem) => every row of the surrogate's X is inside it, and, by parameter NAME, inside the
    interval the user's dict gives for that name. *)
Theorem surrogate_evidence_in_box :
  forall (T A : Type) (acq : A -> list (row * T) -> nat -> Z -> list row * A)
         (compute : nat -> option (list row) -> list (row * T)) (c : cfg) names dict bs,
    box_of names dict = Some bs ->
    (forall a e n t, Forall (In_box bs) (fst (acq a e n t))) ->
    (forall a e n t, length (fst (acq a e n t)) = n) ->
    1 <= c_bpa c ->
    (forall i rows, map fst (compute i (Some rows)) = rows) ->
    forall maxp fuel pre a orc s tr,
      1 <= maxp -> Forall (In_box bs) (map fst pre) ->
      (forall i, (acq_index c i < 0)%Z -> Forall (In_box bs) (map fst (compute i None))) ->
      Bo.infer row T A acq compute c fuel maxp (sched0 row T A c pre a) orc [] = inl (s, tr) ->
      let X := gp_X (surrogate_after row T compute pre (clog s)) in
      Forall (In_box bs) X /\
      (length names <> 1 ->
       forall x, In x X -> forall i n, nth_error names i = Some n ->
         exists iv xi, lookup dict n = Some iv /\ nth_error x i = Some xi /\ (fst iv <= xi /\ xi <= snd iv)%Q).
Proof.
  intros T A acq compute c names dict bs Hbox HG HN Hbpa Hecho maxp fuel pre a orc s tr Hm Hpre Hprior H X.
  assert (HX : Forall (In_box bs) X).
  { exact (surrogate_evidence_good row T A acq compute c (In_box bs) HG HN Hbpa Hecho maxp fuel pre a orc s tr Hm Hpre Hprior H). }
  split; [exact HX|]. intros Hl x Hx i n Hi. rewrite Forall_forall in HX.
  exact (in_user_box_named names dict bs x Hbox Hl (HX x Hx) i n Hi).
Qed.

Theorem surrogate_evidence_in_box_no_prior :
  forall (T A : Type) (acq : A -> list (row * T) -> nat -> Z -> list row * A)
         (compute : nat -> option (list row) -> list (row * T)) (c : cfg) names dict bs,
    box_of names dict = Some bs ->
    (forall a e n t, Forall (In_box bs) (fst (acq a e n t))) ->
    (forall a e n t, length (fst (acq a e n t)) = n) ->
    1 <= c_bpa c -> 1 <= c_b c -> (c_ninit c <= c_npre c)%Z ->
    (forall i rows, map fst (compute i (Some rows)) = rows) ->
    forall maxp fuel pre a orc s tr,
      1 <= maxp -> Forall (In_box bs) (map fst pre) ->
      Bo.infer row T A acq compute c fuel maxp (sched0 row T A c pre a) orc [] = inl (s, tr) ->
      Forall (In_box bs) (gp_X (surrogate_after row T compute pre (clog s))).
Proof.
  intros T A acq compute c names dict bs _ HG HN Hbpa Hb Hn Hecho maxp fuel pre a orc s tr Hm Hpre H.
  exact (surrogate_evidence_good_no_prior row T A acq compute c (In_box bs) HG HN Hbpa Hecho maxp fuel pre a orc s tr Hm Hpre Hn Hb H).
Qed.

(** the acquisition hypothesis discharged by C11 part 1 for AcquisitionBase.acquire (LCBSC): the
    acquisition method is [acquire_base] on whatever end points / values the inner optimiser [opt]
    returns (shape hypotheses only), for every noise setting *)
Section Lcbsc.
  Variables T A : Type.
  Variable sqrtf : Q -> Q.
  Variable tn : nat -> nat -> Q -> Q -> Q -> Q -> Q.
  Variable bs : box.
  Variable nz : noise.
  Variable opt : A -> list (row * T) -> nat -> Z -> list row * list Q * A.

  Definition acq_lcbsc (a : A) (e : list (row * T)) (n : nat) (t : Z) : list row * A :=
    let '(locs, vals, a') := opt a e n t in (acquire_base sqrtf tn bs nz locs vals n, a').

  Theorem surrogate_evidence_in_box_lcbsc :
    sqrt_nonneg sqrtf -> tn_in_range tn -> wf_box bs ->
    (forall a e n t, let '(locs, vals, _) := opt a e n t in
                     locs <> [] /\ length locs = length vals /\ Forall (fun l => length l = length bs) locs) ->
    forall (compute : nat -> option (list row) -> list (row * T)) (c : cfg) names dict,
      box_of names dict = Some bs -> 1 <= c_bpa c ->
      (forall i rows, map fst (compute i (Some rows)) = rows) ->
      forall maxp fuel pre a orc s tr,
        1 <= maxp -> Forall (In_box bs) (map fst pre) ->
        (forall i, (acq_index c i < 0)%Z -> Forall (In_box bs) (map fst (compute i None))) ->
        Bo.infer row T A acq_lcbsc compute c fuel maxp (sched0 row T A c pre a) orc [] = inl (s, tr) ->
        Forall (In_box bs) (gp_X (surrogate_after row T compute pre (clog s))).
  Proof.
    intros Hs Ht W Hopt compute c names dict Hbox Hbpa Hecho maxp fuel pre a orc s tr Hm Hpre Hprior H.
    assert (HA : forall a e n t, length (fst (acq_lcbsc a e n t)) = n /\ Forall (In_box bs) (fst (acq_lcbsc a e n t))).
    { intros a0 e n t. unfold acq_lcbsc. specialize (Hopt a0 e n t).
      destruct (opt a0 e n t) as [[locs vals] a']. destruct Hopt as [O1 [O2 O3]]. simpl.
      destruct (acquire_base_ok sqrtf tn Hs Ht bs nz locs vals n W O1 O2 O3) as [L B]. split; [exact L|].
      eapply Forall_impl; [|exact B]. intros x. apply in_box_spec. }
    apply (surrogate_evidence_in_box T A acq_lcbsc compute c names dict bs Hbox
             (fun a e n t => proj2 (HA a e n t)) (fun a e n t => proj1 (HA a e n t)) Hbpa Hecho
             maxp fuel pre a orc s tr Hm Hpre Hprior H).
  Qed.
End Lcbsc.

(** with T = Q the rows of the composed store are C10's evidence rows (X[i, :], Y[i, 0]) *)
Lemma link_row_is_erow : (row * Q)%type = Gp.erow.
Proof. reflexivity. Qed.
