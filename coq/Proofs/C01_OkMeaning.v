(** C01: what the decidable check [ok] of Sched/Reject.v (evaluated on the IMPLEMENTATION's result by the
    correspondence check) means, as a plain proposition [ok_spec], and that the two say the same.

    The comparisons the checker makes ([deqb] on discrepancies, [deqb]/[N.eqb] on a draw) are Leibniz
    equalities ([deqb_eq], [draw_eqb_eq]), so the multiset statement is a plain [Permutation] of draws. *)
From Coq Require Import List ZArith NArith Arith Bool Lia Sorting.Permutation.
From Elfi Require Import Sched.Sched Sched.Reject Proofs.C01_Reject.
Import ListNotations.

(** ---- the checker's equalities are Leibniz ---- *)
Lemma deqb_eq a b : deqb a b = true <-> a = b.
Proof.
  destruct a as [x|], b as [y|]; simpl; split; intros H; try discriminate; try reflexivity.
  - apply Z.eqb_eq in H. now subst.
  - inversion H. apply Z.eqb_refl.
Qed.

Lemma draw_eqb_eq x y : deqb (d_disc x) (d_disc y) && N.eqb (d_code x) (d_code y) = true <-> x = y.
Proof.
  rewrite andb_true_iff, deqb_eq, N.eqb_eq. destruct x as [dx cx], y as [dy cy]; simpl. split.
  - intros [-> ->]. reflexivity.
  - intros H. inversion H. split; reflexivity.
Qed.

Lemma dle_refl a : dle a a = true.
Proof. destruct a; simpl; [apply Z.leb_refl | reflexivity]. Qed.

(** ---- ascending = every earlier row is no worse than every later row ---- *)
Lemma ascending_cons a r :
  ascending (a :: r) = true <-> (Forall (fun s => dle (sdisc a) (sdisc s) = true) r /\ ascending r = true).
Proof.
  split.
  - revert a. induction r as [|b r IH]; intros a H.
    + split; [constructor | reflexivity].
    + change (dle (sdisc a) (sdisc b) && ascending (b :: r) = true) in H.
      apply andb_true_iff in H. destruct H as [Hab Hr]. split; [|exact Hr].
      constructor; [exact Hab|]. destruct (IH b Hr) as [Hb _].
      eapply Forall_impl; [|exact Hb]. intros s Hs. eapply dle_trans; eassumption.
  - intros [Hf Hr]. destruct r as [|b r]; [reflexivity|].
    change (dle (sdisc a) (sdisc b) && ascending (b :: r) = true). apply andb_true_iff. split; [|exact Hr].
    now inversion Hf.
Qed.

Lemma ascending_pairs l :
  ascending l = true <->
  (forall i j, i < j < length l -> dle (sdisc (nth i l None)) (sdisc (nth j l None)) = true).
Proof.
  split.
  - induction l as [|a r IH]; intros H i j Hij; [simpl in Hij; lia|].
    apply ascending_cons in H. destruct H as [Hf Hr].
    destruct j as [|j]; [lia|]. simpl in Hij. destruct i as [|i]; simpl.
    + rewrite Forall_forall in Hf. apply Hf. apply nth_In. lia.
    + apply IH; [exact Hr | lia].
  - induction l as [|a r IH]; intros H; [reflexivity|].
    apply ascending_cons. split.
    + apply Forall_forall. intros s Hs. destruct (In_nth _ _ None Hs) as [k [Hk Hn]].
      rewrite <- Hn. apply (H 0 (S k)). simpl. split; [apply Nat.lt_0_succ | apply (proj1 (Nat.succ_lt_mono _ _) Hk)].
    + apply IH. intros i j Hij. apply (H (S i) (S j)). simpl. clear - Hij. lia.
Qed.

(** ---- remove_one / take_all: multiset difference ---- *)
Lemma remove_one_perm x l l' : remove_one x l = Some l' -> Permutation (x :: l') l.
Proof.
  revert l'. induction l as [|y r IH]; intros l' H; simpl in H; [discriminate|].
  destruct (deqb (d_disc x) (d_disc y) && N.eqb (d_code x) (d_code y)) eqn:E.
  - apply draw_eqb_eq in E. inversion H. subst. reflexivity.
  - destruct (remove_one x r) as [r'|]; [|discriminate]. inversion H. subst.
    etransitivity; [apply perm_swap|]. apply perm_skip. now apply IH.
Qed.

Lemma remove_one_In x l : In x l -> exists l', remove_one x l = Some l'.
Proof.
  induction l as [|y r IH]; intros H; [destruct H|]. simpl.
  destruct (deqb (d_disc x) (d_disc y) && N.eqb (d_code x) (d_code y)) eqn:E; [eexists; reflexivity|].
  destruct H as [H|H].
  - subst. assert (Hxx : deqb (d_disc x) (d_disc x) && N.eqb (d_code x) (d_code x) = true) by (now apply draw_eqb_eq).
    congruence.
  - destruct (IH H) as [r' ->]. eexists; reflexivity.
Qed.

Lemma take_all_sound rows pool rest :
  take_all rows pool = Some rest ->
  (forall s, In s rows -> s <> None) /\ Permutation (filled rows ++ rest) pool.
Proof.
  revert pool. induction rows as [|s r IH]; intros pool H; simpl in H.
  - inversion H. subst. split; [intros s []|reflexivity].
  - destruct s as [d|]; [|discriminate].
    destruct (remove_one d pool) as [p'|] eqn:E; [|discriminate].
    destruct (IH _ H) as [Hall Hperm]. split.
    + intros s [<-|Hs]; [discriminate | now apply Hall].
    + simpl. etransitivity; [apply perm_skip; exact Hperm|]. now apply remove_one_perm.
Qed.

Lemma take_all_complete rows pool rest :
  (forall s, In s rows -> s <> None) -> Permutation (filled rows ++ rest) pool ->
  exists rest', take_all rows pool = Some rest' /\ Permutation rest' rest.
Proof.
  revert pool. induction rows as [|s r IH]; intros pool Hall Hperm; simpl.
  - exists pool. split; [reflexivity|]. symmetry. exact Hperm.
  - destruct s as [d|]; [|exfalso; apply (Hall None); [now left | reflexivity]].
    simpl in Hperm.
    assert (Hin : In d pool) by (eapply Permutation_in; [exact Hperm | now left]).
    destruct (remove_one_In _ _ Hin) as [p' E]. rewrite E.
    apply IH; [intros s Hs; apply Hall; now right|].
    apply remove_one_perm in E. eapply Permutation_cons_inv. etransitivity; [exact Hperm|]. symmetry. exact E.
Qed.

(** ---- the declarative meaning ---- *)
Definition form_threshold (f : objective_form) : option edisc :=
  match f with ByThreshold t _ => Some t | _ => None end.

(** the accepted draws among everything the run consumed *)
Definition consumed_accepted (c : case) : list draw :=
  filter (accepts (form_threshold (c_form c))) (concat (c_table c)).

Definition ok_spec (c : case) : Prop :=
  (* 1 *) length (c_rows c) = c_n c
  (* 2 *) /\ (forall i j, i < j < length (c_rows c) ->
                dle (sdisc (nth i (c_rows c) None)) (sdisc (nth j (c_rows c) None)) = true)
  (* 3 *) /\ (forall s, In s (c_rows c) -> s <> None)
  (* 3,4 *) /\ (exists rest, Permutation (filled (c_rows c) ++ rest) (consumed_accepted c)
                        /\ forall x, In x rest -> dle (c_threshold c) (d_disc x) = true)
  (* 4 *) /\ c_threshold c = sdisc (last (c_rows c) None)
  (* 5 *) /\ c_n_sim c = c_b c * c_n_batches c
          /\ c_n_batches c = length (c_table c)
          /\ ((forall t maxp, c_form c <> ByThreshold t maxp) ->
              c_n_batches c = fst (initial_objective (c_n c) (c_b c) (c_form c)))
  (* 6 *) /\ (forall t, form_threshold (c_form c) = Some t ->
              forall s, In s (c_rows c) -> dle (sdisc s) t = true).

Lemma expected_batches_iff c :
  match expected_batches c with Some k => Nat.eqb (c_n_batches c) k | None => true end = true <->
  ((forall t maxp, c_form c <> ByThreshold t maxp) ->
   c_n_batches c = fst (initial_objective (c_n c) (c_b c) (c_form c))).
Proof.
  unfold expected_batches. destruct (c_form c) as [t m|ns|q]; rewrite ?Nat.eqb_eq; split; intros H; try reflexivity.
  - intros Hn. exfalso. now apply (Hn t m).
  - intros _. exact H.
  - apply H. intros; discriminate.
  - intros _. exact H.
  - apply H. intros; discriminate.
Qed.

Lemma thr_clause_iff c :
  match form_threshold (c_form c) with
  | Some t => forallb (fun s => dle (sdisc s) t) (c_rows c) | None => true end = true <->
  (forall t, form_threshold (c_form c) = Some t -> forall s, In s (c_rows c) -> dle (sdisc s) t = true).
Proof.
  destruct (form_threshold (c_form c)) as [t|].
  - rewrite forallb_forall. split.
    + intros H t' E. inversion E. subst. exact H.
    + intros H. now apply H.
  - split; [intros _ t E; discriminate | reflexivity].
Qed.

Lemma ok_unfold c :
  ok c =
  Nat.eqb (length (c_rows c)) (c_n c)
  && ascending (c_rows c)
  && match take_all (c_rows c) (consumed_accepted c) with
     | Some rest => forallb (fun d => dle (c_threshold c) (d_disc d)) rest
     | None => false
     end
  && deqb (c_threshold c) (sdisc (last (c_rows c) None))
  && Nat.eqb (c_n_sim c) (c_b c * c_n_batches c)
  && Nat.eqb (c_n_batches c) (length (c_table c))
  && match expected_batches c with Some k => Nat.eqb (c_n_batches c) k | None => true end
  && match form_threshold (c_form c) with
     | Some t => forallb (fun s => dle (sdisc s) t) (c_rows c) | None => true end.
Proof. reflexivity. Qed.

Theorem ok_iff_spec : forall c, ok c = true <-> ok_spec c.
Proof.
  intros c. rewrite ok_unfold. unfold ok_spec. rewrite !andb_true_iff.
  rewrite Nat.eqb_eq, ascending_pairs, deqb_eq, !Nat.eqb_eq, expected_batches_iff, thr_clause_iff.
  split.
  - intros [[[[[[[H1 H2] H3] H4] H5] H6] H7] H8].
    destruct (take_all (c_rows c) (consumed_accepted c)) as [rest|] eqn:E; [|discriminate].
    destruct (take_all_sound _ _ _ E) as [Hall Hperm].
    repeat split; try assumption.
    exists rest. split; [exact Hperm|]. now apply forallb_forall.
  - intros (H1 & H2 & Hall & [rest [Hperm Hrest]] & H4 & H5 & H6 & H7 & H8).
    repeat split; try assumption.
    destruct (take_all_complete _ _ _ Hall Hperm) as [rest' [-> Hp]].
    apply forallb_forall. intros x Hx. apply Hrest. eapply Permutation_in; eassumption.
Qed.

Theorem ok_meaning : forall c, ok c = true -> ok_spec c.
Proof. intros c. apply ok_iff_spec. Qed.

(** consequences a reader may want directly: the threshold reported is the worst returned discrepancy,
    so every returned row is no worse than every accepted consumed draw left out *)
Lemma last_nth {A} (l : list A) d : last l d = nth (length l - 1) l d.
Proof.
  induction l as [|a r IH]; [reflexivity|]. destruct r as [|b r]; [reflexivity|].
  change (last (a :: b :: r) d) with (last (b :: r) d). rewrite IH. simpl. now rewrite Nat.sub_0_r.
Qed.

Theorem ok_rows_best : forall c, ok c = true ->
  exists rest, Permutation (filled (c_rows c) ++ rest) (consumed_accepted c)
               /\ forall x s, In x rest -> In s (c_rows c) -> dle (sdisc s) (d_disc x) = true.
Proof.
  intros c H. apply ok_meaning in H. destruct H as (_ & H2 & _ & [rest [Hperm Hrest]] & H4 & _).
  exists rest. split; [exact Hperm|]. intros x s Hx Hs.
  eapply dle_trans; [|apply Hrest; exact Hx]. rewrite H4, last_nth.
  destruct (In_nth _ _ None Hs) as [k [Hk <-]].
  destruct (Nat.eq_dec k (length (c_rows c) - 1)) as [->|Hne]; [apply dle_refl|].
  change (k < length (c_rows c)) in Hk. apply H2. lia.
Qed.
