(** C04: what [trace_ok maxp tr = Some n] means, in terms of plain list functions over the trace
    (no reference to the checker [chk_step]/[chk_run] in the statements).                        *)
From Coq Require Import List Arith Bool Lia.
From Elfi Require Import Sched.Sched Proofs.C04_Sched.
Import ListNotations.

(** ---- plain functions over traces ---- *)
(** indices of the EGet events, in order *)
Fixpoint gets (tr : list event) : list nat :=
  match tr with
  | [] => []
  | EGet i :: r => i :: gets r
  | _ :: r => gets r
  end.

Fixpoint n_submit (tr : list event) : nat :=
  match tr with [] => 0 | ESubmit _ :: r => S (n_submit r) | _ :: r => n_submit r end.
Fixpoint n_get (tr : list event) : nat :=
  match tr with [] => 0 | EGet _ :: r => S (n_get r) | _ :: r => n_get r end.
Fixpoint n_cancel (tr : list event) : nat :=
  match tr with [] => 0 | ECancel _ :: r => S (n_cancel r) | _ :: r => n_cancel r end.

(** tasks submitted and neither read nor removed *)
Definition outstanding (tr : list event) : nat := n_submit tr - n_get tr - n_cancel tr.

(** the task of index [i] is in the client after [p]: it was submitted, and index [i] was neither
    read nor cancelled since that submission *)
Definition live (i : nat) (p : list event) : Prop :=
  exists p1 p2, p = p1 ++ ESubmit i :: p2 /\ ~ In (ECancel i) p2 /\ ~ In (EGet i) p2.

(** ---- append lemmas ---- *)
Lemma gets_app a b : gets (a ++ b) = gets a ++ gets b.
Proof. induction a as [|[] a IH]; simpl; auto. now rewrite IH. Qed.
Lemma n_submit_app a b : n_submit (a ++ b) = n_submit a + n_submit b.
Proof. induction a as [|[] a IH]; simpl; auto. Qed.
Lemma n_get_app a b : n_get (a ++ b) = n_get a + n_get b.
Proof. induction a as [|[] a IH]; simpl; auto. Qed.
Lemma n_cancel_app a b : n_cancel (a ++ b) = n_cancel a + n_cancel b.
Proof. induction a as [|[] a IH]; simpl; auto. Qed.
Lemma n_get_gets tr : n_get tr = length (gets tr).
Proof. induction tr as [|[] a IH]; simpl; auto. Qed.

Lemma live_snoc i p e : live i p -> e <> ECancel i -> e <> EGet i -> live i (p ++ [e]).
Proof.
  intros [p1 [p2 [E [A B]]]] H1 H2. exists p1, (p2 ++ [e]). subst p. split.
  - now rewrite <- app_assoc.
  - split; intro H; apply in_app_or in H; destruct H as [H|[H|[]]]; auto.
Qed.

Lemma live_submit i p : live i (p ++ [ESubmit i]).
Proof. exists p, []. repeat split; auto. Qed.

Lemma live_In i p : live i p -> In (ESubmit i) p.
Proof. intros [p1 [p2 [E _]]]. subst p. apply in_or_app. right. now left. Qed.

(** ---- the invariant of the checker state after a prefix ---- *)
Definition PInv (maxp : nat) (p : list event) (k : nat) (out : list nat) : Prop :=
  k = n_get p /\
  out = seq k (length out) /\
  n_submit p = n_get p + n_cancel p + length out /\
  length out <= maxp /\
  gets p = seq 0 k /\
  (forall i, In i out -> live i p).

Lemma chk_run_snoc maxp c p e :
  chk_run maxp c (p ++ [e]) =
  match chk_run maxp c p with Some c' => chk_step maxp c' e | None => None end.
Proof.
  rewrite chk_run_app. destruct (chk_run maxp c p) as [c'|]; [|reflexivity].
  simpl. now destruct (chk_step maxp c' e).
Qed.

Lemma PInv_step maxp p k out e k' out' :
  PInv maxp p k out -> chk_step maxp (k, out) e = Some (k', out') -> PInv maxp (p ++ [e]) k' out'.
Proof.
  intros [Hk [Hout [Hcnt [Hmax [Hg Hl]]]]] Hs. unfold PInv.
  rewrite gets_app, n_submit_app, n_get_app, n_cancel_app.
  destruct e as [i|i b|i|i]; simpl in Hs |- *.
  - (* ESubmit *)
    destruct (Nat.eqb i (k + length out) && (length out <? maxp)) eqn:E; [|discriminate].
    apply andb_true_iff in E. destruct E as [E1 E2].
    apply Nat.eqb_eq in E1. apply Nat.ltb_lt in E2. inversion Hs; subst k' out'; clear Hs.
    rewrite app_length. simpl. repeat split; try lia.
    + rewrite Nat.add_1_r, seq_S, <- Hout. now subst i.
    + now rewrite app_nil_r.
    + intros j Hj. apply in_app_or in Hj. destruct Hj as [Hj|[Hj|[]]].
      * apply live_snoc; [auto|discriminate|discriminate].
      * subst j. apply live_submit.
  - (* EAsk *)
    destruct out as [|o r]; [discriminate|].
    destruct (Nat.eqb i o); [|discriminate]. inversion Hs; subst k' out'; clear Hs.
    repeat split; try lia; auto.
    + now rewrite app_nil_r.
    + intros j Hj. apply live_snoc; [auto|discriminate|discriminate].
  - (* EGet *)
    destruct out as [|o r]; [discriminate|].
    destruct (Nat.eqb i o && Nat.eqb i k) eqn:E; [|discriminate].
    apply andb_true_iff in E. destruct E as [E1 E2].
    apply Nat.eqb_eq in E1. apply Nat.eqb_eq in E2. inversion Hs; subst k' out'; clear Hs.
    simpl in Hout. injection Hout as Ho Hr.
    simpl in Hcnt, Hmax. repeat split; try lia; auto.
    + rewrite Hg, seq_S. simpl. now rewrite E2.
    + intros j Hj. apply live_snoc; [apply Hl; now right|discriminate|].
      intro H. injection H as H. rewrite Hr in Hj. apply in_seq in Hj. lia.
  - (* ECancel *)
    destruct (rev out) as [|o r] eqn:Er; [discriminate|].
    destruct (Nat.eqb i o) eqn:E; [|discriminate]. apply Nat.eqb_eq in E. subst o.
    inversion Hs; subst k' out'; clear Hs.
    assert (Eo : out = rev r ++ [i]).
    { rewrite <- (rev_involutive out), Er. reflexivity. }
    assert (El : length out = S (length (rev r))).
    { rewrite Eo, app_length. simpl. lia. }
    rewrite El in Hout, Hcnt, Hmax. rewrite seq_S in Hout. rewrite Eo in Hout.
    apply app_inj_tail in Hout. destruct Hout as [Hr Hi].
    repeat split; try lia; auto.
    + now rewrite app_nil_r.
    + intros j Hj. apply live_snoc; [apply Hl; rewrite Eo; apply in_or_app; now left| |discriminate].
      (* the cancelled index is not among the remaining ones *)
      intro H. injection H as H. rewrite Hr in Hj. apply in_seq in Hj. lia.
Qed.

Lemma PInv_run maxp : forall p k out,
  chk_run maxp (0, []) p = Some (k, out) -> PInv maxp p k out.
Proof.
  induction p as [|e p IH] using rev_ind; intros k out H.
  - simpl in H. inversion H; subst. unfold PInv. simpl. intuition.
  - rewrite chk_run_snoc in H. destruct (chk_run maxp (0, []) p) as [[k0 out0]|]; [|discriminate].
    eapply PInv_step; [apply IH; reflexivity | exact H].
Qed.

(** every prefix of an accepted trace is accepted by the checker (in some state) *)
Lemma trace_ok_prefix maxp p q n :
  trace_ok maxp (p ++ q) = Some n ->
  exists k out, chk_run maxp (0, []) p = Some (k, out) /\ chk_run maxp (k, out) q <> None.
Proof.
  unfold trace_ok. rewrite chk_run_app.
  destruct (chk_run maxp (0, []) p) as [[k out]|]; [|discriminate].
  intros H. exists k, out. split; [reflexivity|]. intro E. now rewrite E in H.
Qed.

Lemma trace_ok_final maxp tr n :
  trace_ok maxp tr = Some n -> chk_run maxp (0, []) tr = Some (n, []).
Proof.
  unfold trace_ok. destruct (chk_run maxp (0, []) tr) as [[k [|o r]]|]; try discriminate.
  now intros [= ->].
Qed.

(** 1. batches are consumed strictly in index order, each exactly once *)
Theorem trace_ok_gets maxp tr n : trace_ok maxp tr = Some n -> gets tr = seq 0 n.
Proof. intros H. apply trace_ok_final, PInv_run in H. apply H. Qed.

(** 2. at every moment: no more reads/removals than submissions, at most [maxp] outstanding *)
Theorem trace_ok_prefix_bound maxp tr n : trace_ok maxp tr = Some n ->
  forall p q, tr = p ++ q -> n_get p + n_cancel p <= n_submit p /\ outstanding p <= maxp.
Proof.
  intros H p q ->. apply trace_ok_prefix in H. destruct H as [k [out [H _]]].
  apply PInv_run in H. destruct H as [_ [_ [Hc [Hm _]]]]. unfold outstanding. lia.
Qed.

(** 3. nothing is left in the client at the end *)
Theorem trace_ok_nothing_left maxp tr n : trace_ok maxp tr = Some n ->
  n_submit tr = n_get tr + n_cancel tr.
Proof.
  intros H. apply trace_ok_final, PInv_run in H. destruct H as [_ [_ [Hc _]]]. simpl in Hc. lia.
Qed.

(** what the event after a prefix [p] says about [p] *)
Lemma trace_ok_next_get maxp tr n p i r : trace_ok maxp tr = Some n -> tr = p ++ EGet i :: r ->
  live i p /\ i = n_get p.
Proof.
  intros H ->. apply trace_ok_prefix in H. destruct H as [k [out [H N]]].
  apply PInv_run in H. destruct H as [Hk [_ [_ [_ [_ Hl]]]]].
  simpl in N. destruct out as [|o out]; [congruence|].
  destruct (Nat.eqb i o && Nat.eqb i k) eqn:E; [|congruence].
  apply andb_true_iff in E. destruct E as [E1 E2]. apply Nat.eqb_eq in E1. apply Nat.eqb_eq in E2.
  split; [apply Hl; now left | congruence].
Qed.

Lemma trace_ok_next_ask maxp tr n p i b r : trace_ok maxp tr = Some n -> tr = p ++ EAsk i b :: r ->
  live i p /\ i = n_get p.
Proof.
  intros H ->. apply trace_ok_prefix in H. destruct H as [k [out [H N]]].
  apply PInv_run in H. destruct H as [Hk [Ho [_ [_ [_ Hl]]]]].
  simpl in N. destruct out as [|o out]; [congruence|].
  destruct (Nat.eqb i o) eqn:E; [|congruence]. apply Nat.eqb_eq in E.
  simpl in Ho. injection Ho as Ho _.
  split; [apply Hl; now left | congruence].
Qed.

Lemma trace_ok_next_cancel maxp tr n p i r : trace_ok maxp tr = Some n -> tr = p ++ ECancel i :: r ->
  live i p /\ S i = n_get p + outstanding p.
Proof.
  intros H ->. apply trace_ok_prefix in H. destruct H as [k [out [H N]]].
  apply PInv_run in H. destruct H as [Hk [Ho [Hc [_ [_ Hl]]]]].
  simpl in N. destruct (rev out) as [|o ro] eqn:Er; [congruence|].
  destruct (Nat.eqb i o) eqn:E; [|congruence]. apply Nat.eqb_eq in E. subst o.
  assert (Eo : out = rev ro ++ [i]) by (rewrite <- (rev_involutive out), Er; reflexivity).
  assert (El : length out = S (length (rev ro))) by (rewrite Eo, app_length; simpl; lia).
  split; [apply Hl; rewrite Eo; apply in_or_app; right; now left|].
  rewrite El, seq_S, Eo in Ho. apply app_inj_tail in Ho. destruct Ho as [_ Hi].
  unfold outstanding. lia.
Qed.

Lemma trace_ok_next_submit maxp tr n p i r : trace_ok maxp tr = Some n -> tr = p ++ ESubmit i :: r ->
  i = n_get p + outstanding p /\ outstanding p < maxp.
Proof.
  intros H ->. apply trace_ok_prefix in H. destruct H as [k [out [H N]]].
  apply PInv_run in H. destruct H as [Hk [_ [Hc _]]].
  simpl in N. destruct (Nat.eqb i (k + length out) && (length out <? maxp)) eqn:E; [|congruence].
  apply andb_true_iff in E. destruct E as [E1 E2]. apply Nat.eqb_eq in E1. apply Nat.ltb_lt in E2.
  unfold outstanding. lia.
Qed.

(** 4. the result of a cancelled batch is never used: a read of index [i] after a cancel of [i]
       reads a task submitted after that cancel *)
Theorem trace_ok_cancelled_never_read maxp tr n p i q r : trace_ok maxp tr = Some n ->
  tr = p ++ ECancel i :: q ++ EGet i :: r ->
  exists q1 q2, q = q1 ++ ESubmit i :: q2 /\ ~ In (ECancel i) q2 /\ ~ In (EGet i) q2.
Proof.
  intros H E.
  assert (E' : tr = (p ++ ECancel i :: q) ++ EGet i :: r) by (rewrite E, <- app_assoc; reflexivity).
  destruct (trace_ok_next_get _ _ _ _ _ _ H E') as [[p1 [p2 [Ep [A B]]]] _].
  apply app_eq_app in Ep. destruct Ep as [l [[E1 E2]|[E1 E2]]].
  - (* the submission lies in p: then the cancel comes after it *)
    exfalso. destruct l as [|e l]; simpl in E2; [discriminate|].
    injection E2 as _ E2. apply A. rewrite E2. apply in_or_app. right. now left.
  - destruct l as [|e l]; simpl in E2; [discriminate|].
    injection E2 as _ E2. exists l, p2. auto.
Qed.

(** ---- the meaning of [trace_ok] ---- *)
Theorem trace_ok_meaning maxp tr n : trace_ok maxp tr = Some n ->
  (* 1 *) gets tr = seq 0 n /\
  (* 2 *) (forall p q, tr = p ++ q -> n_get p + n_cancel p <= n_submit p /\ outstanding p <= maxp) /\
  (* 3 *) n_submit tr = n_get tr + n_cancel tr /\
  (* 4 *) (forall p i q r, tr = p ++ ECancel i :: q ++ EGet i :: r -> In (ESubmit i) q) /\
  (* 5 *) (forall p i r, tr = p ++ EGet i :: r -> In (ESubmit i) p /\ i = n_get p /\ live i p) /\
          (forall p i b r, tr = p ++ EAsk i b :: r -> In (ESubmit i) p /\ i = n_get p /\ live i p) /\
          (forall p i r, tr = p ++ ECancel i :: r -> live i p /\ S i = n_get p + outstanding p) /\
          (forall p i r, tr = p ++ ESubmit i :: r -> i = n_get p + outstanding p /\ outstanding p < maxp).
Proof.
  intros H. split; [|split; [|split; [|split; [|split; [|split; [|split]]]]]].
  - eapply trace_ok_gets; eauto.
  - eapply trace_ok_prefix_bound; eauto.
  - eapply trace_ok_nothing_left; eauto.
  - intros p i q r E. destruct (trace_ok_cancelled_never_read _ _ _ _ _ _ _ H E) as [q1 [q2 [Eq _]]].
    subst q. apply in_or_app. right. now left.
  - intros p i r E. destruct (trace_ok_next_get _ _ _ _ _ _ H E) as [L N]. auto using live_In.
  - intros p i b r E. destruct (trace_ok_next_ask _ _ _ _ _ _ _ H E) as [L N]. auto using live_In.
  - intros p i r E. eapply trace_ok_next_cancel; eauto.
  - intros p i r E. eapply trace_ok_next_submit; eauto.
Qed.

(** ---- the converse: the eight statements characterise [trace_ok] ---- *)
Lemma live_nil i : ~ live i [].
Proof. intros [p1 [p2 [E _]]]. now destruct p1. Qed.

Lemma live_snoc_inv i p e : live i (p ++ [e]) ->
  e = ESubmit i \/ (live i p /\ e <> ECancel i /\ e <> EGet i).
Proof.
  intros [p1 [p2 [E [A B]]]]. destruct p2 as [|x p2 _] using rev_ind.
  - left. apply app_inj_tail in E. now destruct E.
  - right. rewrite app_comm_cons, app_assoc in E. apply app_inj_tail in E. destruct E as [E1 E2].
    subst x. split; [|split].
    + exists p1, p2. split; [exact E1|]. split; intro H; [apply A|apply B]; apply in_or_app; now left.
    + intro H. apply A. apply in_or_app. right. left. exact H.
    + intro H. apply B. apply in_or_app. right. left. exact H.
Qed.

Lemma live_in_out maxp : forall p k out,
  chk_run maxp (0, []) p = Some (k, out) -> forall i, live i p -> In i out.
Proof.
  induction p as [|e p IH] using rev_ind; intros k out H i L.
  - now apply live_nil in L.
  - rewrite chk_run_snoc in H. destruct (chk_run maxp (0, []) p) as [[k0 out0]|] eqn:Hp; [|discriminate].
    specialize (IH _ _ eq_refl i). apply PInv_run in Hp. destruct Hp as [_ [Ho _]].
    apply live_snoc_inv in L.
    destruct e as [j|j b|j|j]; simpl in H.
    + destruct (Nat.eqb j (k0 + length out0) && (length out0 <? maxp)); [|discriminate].
      inversion H; subst. apply in_or_app. destruct L as [L|[L _]]; [right; left; congruence|left; auto].
    + destruct out0 as [|o r]; [discriminate|]. destruct (Nat.eqb j o); [|discriminate].
      inversion H; subst. destruct L as [L|[L _]]; [discriminate|auto].
    + destruct out0 as [|o r]; [discriminate|].
      destruct (Nat.eqb j o && Nat.eqb j k0) eqn:E; [|discriminate].
      apply andb_true_iff in E. destruct E as [E1 _]. apply Nat.eqb_eq in E1.
      inversion H; subst. destruct L as [L|[L [_ N]]]; [discriminate|].
      destruct (IH L) as [F|F]; [|exact F]. subst. now elim N.
    + destruct (rev out0) as [|o r] eqn:Er; [discriminate|].
      destruct (Nat.eqb j o) eqn:E; [|discriminate]. apply Nat.eqb_eq in E. subst o.
      inversion H; subst. destruct L as [L|[L [N _]]]; [discriminate|].
      assert (Eo : out0 = rev r ++ [j]) by (rewrite <- (rev_involutive out0), Er; reflexivity).
      specialize (IH L). rewrite Eo in IH. apply in_app_or in IH.
      destruct IH as [F|[F|[]]]; [exact F|]. subst. now elim N.
Qed.

Theorem trace_ok_complete maxp tr n :
  gets tr = seq 0 n /\
  (forall p q, tr = p ++ q -> n_get p + n_cancel p <= n_submit p /\ outstanding p <= maxp) /\
  n_submit tr = n_get tr + n_cancel tr /\
  (forall p i q r, tr = p ++ ECancel i :: q ++ EGet i :: r -> In (ESubmit i) q) /\
  (forall p i r, tr = p ++ EGet i :: r -> In (ESubmit i) p /\ i = n_get p /\ live i p) /\
  (forall p i b r, tr = p ++ EAsk i b :: r -> In (ESubmit i) p /\ i = n_get p /\ live i p) /\
  (forall p i r, tr = p ++ ECancel i :: r -> live i p /\ S i = n_get p + outstanding p) /\
  (forall p i r, tr = p ++ ESubmit i :: r -> i = n_get p + outstanding p /\ outstanding p < maxp) ->
  trace_ok maxp tr = Some n.
Proof.
  intros [H1 [H2 [H3 [_ [H5 [H6 [H7 H8]]]]]]].
  assert (Hpre : forall p q, tr = p ++ q -> exists k out, chk_run maxp (0, []) p = Some (k, out)).
  { induction p as [|e p IH] using rev_ind; intros q E.
    - exists 0, []. reflexivity.
    - rewrite <- app_assoc in E. simpl in E. destruct (IH _ E) as [k [out Hp]].
      rewrite chk_run_snoc, Hp.
      pose proof (live_in_out _ _ _ _ Hp) as Hlive.
      pose proof (PInv_run _ _ _ _ Hp) as [Hk [Ho [Hc [Hm _]]]].
      assert (Hout : outstanding p = length out) by (unfold outstanding; lia).
      destruct e as [i|i b|i|i]; simpl.
      + destruct (H8 _ _ _ E) as [A B]. rewrite Hout in A, B.
        replace (Nat.eqb i (k + length out)) with true by (symmetry; apply Nat.eqb_eq; lia).
        replace (length out <? maxp) with true by (symmetry; apply Nat.ltb_lt; lia).
        simpl. eauto.
      + destruct (H6 _ _ _ _ E) as [_ [A B]]. apply Hlive in B.
        destruct out as [|o r]; [destruct B|]. simpl in Ho. injection Ho as Ho _.
        replace (Nat.eqb i o) with true by (symmetry; apply Nat.eqb_eq; lia). eauto.
      + destruct (H5 _ _ _ E) as [_ [A B]]. apply Hlive in B.
        destruct out as [|o r]; [destruct B|]. simpl in Ho. injection Ho as Ho _.
        replace (Nat.eqb i o) with true by (symmetry; apply Nat.eqb_eq; lia).
        replace (Nat.eqb i k) with true by (symmetry; apply Nat.eqb_eq; lia). simpl. eauto.
      + destruct (H7 _ _ _ E) as [B A]. apply Hlive in B. rewrite Hout in A.
        destruct out as [|x out' _] using rev_ind; [destruct B|].
        rewrite rev_app_distr. simpl.
        rewrite app_length in Ho, A. simpl in Ho, A. rewrite Nat.add_1_r, seq_S in Ho.
        apply app_inj_tail in Ho. destruct Ho as [_ Ho].
        replace (Nat.eqb i x) with true by (symmetry; apply Nat.eqb_eq; lia). eauto. }
  destruct (Hpre tr [] (eq_sym (app_nil_r tr))) as [k [out Hp]].
  pose proof (PInv_run _ _ _ _ Hp) as [Hk [_ [Hc _]]].
  assert (length out = 0) by lia. destruct out; [|discriminate].
  unfold trace_ok. rewrite Hp. f_equal. rewrite Hk, n_get_gets, H1. apply seq_length.
Qed.
