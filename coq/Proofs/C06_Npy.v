(** Proofs for C06 (model: Store/Npy.v). *)
From Coq Require Import List NArith Arith Bool Lia.
From Elfi Require Import Store.Npy.
Import ListNotations.

(** * Lists *)

Lemma firstn_app_len {A} (a r : list A) n : firstn (length a + n) (a ++ r) = a ++ firstn n r.
Proof. induction a; simpl; [reflexivity | now rewrite IHa]. Qed.

Lemma skipn_app_len {A} (a r : list A) n : skipn (length a + n) (a ++ r) = skipn n r.
Proof. induction a; simpl; [reflexivity | exact IHa]. Qed.

Lemma firstn_add {A} k j (l : list A) : firstn (k + j) l = firstn k l ++ firstn j (skipn k l).
Proof.
  revert l; induction k; intros l; simpl; [reflexivity|].
  destruct l; simpl; [now destruct j | now rewrite IHk].
Qed.

Lemma firstn_app_le {A} n (a b : list A) : n <= length a -> firstn n (a ++ b) = firstn n a.
Proof.
  intros H. rewrite firstn_app. replace (n - length a) with 0 by lia. simpl. apply app_nil_r.
Qed.

Definition uniform (bs : nat) (L : list batch) := Forall (fun b => length b = bs) L.

Lemma length_concat_uniform bs L : uniform bs L -> length (concat L) = bs * length L.
Proof.
  induction 1; simpl; [lia|]. rewrite app_length, IHForall, H. lia.
Qed.

Lemma concat_snoc (L : list batch) (b : batch) : concat (L ++ [b]) = concat L ++ b.
Proof. rewrite concat_app. simpl. now rewrite app_nil_r. Qed.

Lemma write_at_end (b x : list row) : write_at (length x) b x = x ++ b.
Proof.
  unfold write_at. rewrite firstn_all. rewrite skipn_all2 by lia. now rewrite app_nil_r.
Qed.

Lemma concat_removelast bs L : uniform bs L -> L <> [] ->
  firstn (bs * (length L - 1)) (concat L) = concat (removelast L).
Proof.
  intros U N. destruct (exists_last N) as [L0 [b E]]. subst L.
  rewrite removelast_last, concat_snoc, app_length. simpl.
  apply Forall_app in U. destruct U as [U0 _].
  replace (length L0 + 1 - 1) with (length L0) by lia.
  rewrite <- (length_concat_uniform bs L0 U0). rewrite firstn_app_le by lia. apply firstn_all.
Qed.

Lemma uniform_removelast bs L : uniform bs L -> uniform bs (removelast L).
Proof.
  intros U. destruct L as [|x r] using rev_ind; [exact U|].
  rewrite removelast_last. apply Forall_app in U. tauto.
Qed.

Lemma length_removelast {A} (L : list A) : length (removelast L) = length L - 1.
Proof.
  destruct L as [|x r] using rev_ind; [reflexivity|].
  rewrite removelast_last, app_length. simpl. lia.
Qed.

Lemma length_replace {A} i (x : A) L : length (replace i x L) = length L.
Proof. revert i; induction L; intros [|i]; simpl; auto. Qed.

Lemma uniform_replace bs i b L : uniform bs L -> length b = bs -> uniform bs (replace i b L).
Proof.
  unfold uniform. intros U Hb. revert i. induction U; intros [|i]; simpl; constructor; auto.
Qed.

Lemma concat_replace bs i b L : uniform bs L -> length b = bs -> i < length L ->
  write_at (bs * i) b (concat L) = concat (replace i b L).
Proof.
  intros U Hb. revert i. induction U as [|x r Hx U IH]; intros i Hi; simpl in Hi; [lia|].
  destruct i as [|i]; simpl.
  - unfold write_at. rewrite Nat.mul_0_r. simpl.
    rewrite Hb, <- Hx. replace (length x) with (length x + 0) by lia.
    now rewrite skipn_app_len.
  - unfold write_at in *. replace (bs * S i) with (length x + bs * i) by lia.
    rewrite firstn_app_len. rewrite <- Nat.add_assoc, skipn_app_len.
    rewrite <- app_assoc. f_equal. apply IH. lia.
Qed.

Lemma slices_concat bs L : uniform bs L ->
  map (fun i => slice bs i (concat L)) (seq 0 (length L)) = L.
Proof.
  induction 1 as [|x r Hx U IH]; [reflexivity|].
  simpl length. change (seq 0 (S (length r))) with (0 :: seq 1 (length r)).
  rewrite <- seq_shift, map_cons, map_map. f_equal.
  - unfold slice. rewrite Nat.mul_0_r. simpl. rewrite <- Hx.
    rewrite firstn_app_le by lia. apply firstn_all.
  - rewrite <- IH at 2. apply map_ext. intros i. unfold slice. simpl concat.
    replace (bs * S i) with (length x + bs * i) by lia. now rewrite skipn_app_len.
Qed.

(** * The buffered file *)

Lemma commit_app a b d : commit (a ++ b) d = commit b (commit a d).
Proof. apply fold_left_app. Qed.

Definition is_write (op : lop) : bool :=
  match op with LWritePrefix | LWriteHeader _ | LWriteData _ _ => true | _ => false end.

Lemma full_take k f : full (take_commit k f) = full f.
Proof. unfold full, take_commit; simpl. now rewrite <- commit_app, firstn_skipn. Qed.

Lemma take_commit_nil k f : f_buf f = [] -> take_commit k f = f.
Proof. destruct f as [d b]; simpl; intros ->. unfold take_commit; simpl. now destruct k. Qed.

Lemma full_seek k f : full (lstep k LSeek f) = full f.
Proof. apply full_take. Qed.

Lemma full_write k w f : is_write w = true -> full (lstep k w f) = commit1 (full f) w.
Proof.
  destruct w; try discriminate; intros _; simpl; rewrite full_take; unfold full; simpl;
    now rewrite commit_app.
Qed.

Lemma full_flush_all f : full (flush_all f) = full f.
Proof. reflexivity. Qed.

Lemma full_nobuf f : f_buf f = [] -> full f = f_disk f.
Proof. unfold full. now intros ->. Qed.

(** * Crash safety of the file: every committed prefix of the buffer loads to an allowed content *)

Definition good (H : list (list row)) (d : disk) : Prop := exists c, loads d = Some c /\ In c H.

Definition Safe (H : list (list row)) (f : file) : Prop :=
  forall j, j <= length (f_buf f) -> good H (commit (firstn j (f_buf f)) (f_disk f)).

Lemma Safe_full H f : Safe H f -> good H (full f).
Proof. intros S. specialize (S (length (f_buf f)) (le_n _)). now rewrite firstn_all in S. Qed.

Lemma Safe_disk H f : Safe H f -> good H (f_disk f).
Proof. intros S. exact (S 0 (Nat.le_0_l _)). Qed.

Lemma good_mono H H' d : incl H H' -> good H d -> good H' d.
Proof. intros I [c [L C]]. exists c. auto. Qed.

Lemma Safe_mono H H' f : incl H H' -> Safe H f -> Safe H' f.
Proof. intros I S j Hj. eapply good_mono; eauto. Qed.

Lemma Safe_nobuf H f : f_buf f = [] -> good H (f_disk f) -> Safe H f.
Proof. intros E G j Hj. rewrite E in *. simpl in Hj. now destruct j; simpl. Qed.

Lemma Safe_take H k f : Safe H f -> Safe H (take_commit k f).
Proof.
  intros S j Hj. simpl in *. rewrite <- commit_app.
  destruct (le_lt_dec k (length (f_buf f))) as [Hk|Hk].
  - rewrite <- firstn_add. apply S. rewrite skipn_length in Hj. lia.
  - rewrite skipn_all2 in * by lia. simpl in Hj. replace j with 0 by lia. simpl. rewrite app_nil_r.
    rewrite firstn_all2 by lia. apply Safe_full in S. exact S.
Qed.

Lemma Safe_seek H k f : Safe H f -> Safe H (lstep k LSeek f).
Proof. apply Safe_take. Qed.

Lemma Safe_write H k w f : is_write w = true -> Safe H f -> good H (commit1 (full f) w) -> Safe H (lstep k w f).
Proof.
  intros W S G.
  assert (S' : Safe H {| f_disk := f_disk f; f_buf := f_buf f ++ [w] |}).
  { intros j Hj. simpl in *. rewrite app_length in Hj. simpl in Hj.
    destruct (le_lt_dec j (length (f_buf f))) as [Hk|Hk].
    - rewrite firstn_app_le by lia. now apply S.
    - rewrite firstn_all2 by (rewrite app_length; simpl; lia). rewrite commit_app. exact G. }
  destruct w; try discriminate; simpl; now apply Safe_take.
Qed.

Lemma Safe_flush_all H f : Safe H f -> Safe H (flush_all f).
Proof. intros S. apply Safe_nobuf; [reflexivity|]. simpl. now apply Safe_full. Qed.

(** loads of particular disks *)

Lemma good_append H d b : good H d -> good H (set_data d (d_data d ++ b)).
Proof.
  intros [c [L C]]. exists c. split; [|exact C]. unfold loads in *. simpl.
  destruct (d_prefix d); [|discriminate]. destruct (d_hdr d) as [n|]; [|discriminate].
  destruct (n <=? length (d_data d)) eqn:E; [|discriminate]. apply Nat.leb_le in E.
  replace (n <=? length (d_data d ++ b)) with true by (symmetry; apply Nat.leb_le; rewrite app_length; lia).
  rewrite firstn_app_le by lia. exact L.
Qed.

Lemma loads_exact d x : d_prefix d = true -> d_hdr d = Some (length x) -> d_data d = x -> loads d = Some x.
Proof.
  intros P Hd D. unfold loads. rewrite P, Hd, D, Nat.leb_refl. now rewrite firstn_all.
Qed.

Lemma loads_firstn d n x : d_prefix d = true -> d_hdr d = Some n -> d_data d = x -> n <= length x ->
  loads d = Some (firstn n x).
Proof.
  intros P Hd D Hn. unfold loads. rewrite P, Hd, D. apply Nat.leb_le in Hn. now rewrite Hn.
Qed.

Lemma good_header_firstn H d x n : d_prefix d = true -> d_data d = x -> n <= length x -> In (firstn n x) H ->
  good H (commit1 d (LWriteHeader n)).
Proof. intros P D Hn I. exists (firstn n x). split; [|exact I]. now apply loads_firstn. Qed.

Lemma good_header H d x n : d_prefix d = true -> d_data d = x -> n = length x -> In x H ->
  good H (commit1 d (LWriteHeader n)).
Proof. intros P D -> I. exists x. split; [|exact I]. now apply loads_exact. Qed.

Lemma set_data_same d x : d_data d = x -> set_data d x = d.
Proof. destruct d; simpl; now intros <-. Qed.

Lemma flush_all_nil f : f_buf f = [] -> flush_all f = f.
Proof. destruct f as [d b]; simpl; now intros ->. Qed.

Lemma lstep_flush k f : lstep k LFlush f = flush_all f. Proof. reflexivity. Qed.
Lemma lstep_close k f : lstep k LClose f = flush_all f. Proof. reflexivity. Qed.
Lemma lstep_seekend k f : lstep k LSeekEnd f = flush_all f. Proof. reflexivity. Qed.
Lemma lstep_open k f : lstep k (LOpen false) f = f. Proof. reflexivity. Qed.
Lemma lstep_trunc k n f : lstep k (LTruncate n) f =
  {| f_disk := set_data (full f) (firstn n (d_data (full f))); f_buf := [] |}.
Proof. reflexivity. Qed.
Lemma lstep_mem k r b f : lstep k (LMemWrite r b) f =
  {| f_disk := set_data (f_disk f) (write_at r b (d_data (f_disk f))); f_buf := f_buf f |}.
Proof. reflexivity. Qed.

Lemma lexec_app o i a b f : lexec o i (a ++ b) f = lexec o (i + length a) b (lexec o i a f).
Proof.
  revert i f; induction a; intros i f; simpl.
  - now rewrite Nat.add_0_r.
  - rewrite IHa. f_equal. lia.
Qed.

Definition SafeAll (o : oracle) H i l f := forall j, Safe H (lexec o i (firstn j l) f).

Lemma SafeAll_nil o H i f : Safe H f -> SafeAll o H i [] f.
Proof. intros S j. now destruct j. Qed.

Lemma SafeAll_cons o H i op l f : Safe H f -> SafeAll o H (S i) l (lstep (o i) op f) -> SafeAll o H i (op :: l) f.
Proof. intros S A [|j]; simpl; [exact S | apply A]. Qed.

Lemma SafeAll_end o H i l f : SafeAll o H i l f -> Safe H (lexec o i l f).
Proof. intros A. specialize (A (length l)). now rewrite firstn_all in A. Qed.

Lemma SafeAll_app o H i a b f : SafeAll o H i a f -> SafeAll o H (i + length a) b (lexec o i a f) -> SafeAll o H i (a ++ b) f.
Proof.
  intros A B j. rewrite firstn_app. destruct (le_lt_dec j (length a)) as [Hj|Hj].
  - replace (j - length a) with 0 by lia. simpl. rewrite app_nil_r. apply A.
  - rewrite firstn_all2 by lia. rewrite lexec_app. apply B.
Qed.

Lemma SafeAll_mono o H H' i l f : incl H H' -> SafeAll o H i l f -> SafeAll o H' i l f.
Proof. intros I A j. eapply Safe_mono; eauto. Qed.

(** * The store *)

Ltac msimpl := cbn [m_init m_closed m_rows m_pend m_mmap m_nb upd set_nb].

Section Store.
Variable bs : nat.
Hypothesis bs_pos : 0 < bs.
Variable o : oracle.

Record InvA (m : mem) (f : file) (L : list batch) : Prop := {
  ia_init : m_init m = true;
  ia_open : m_closed m = false;
  ia_rows : m_rows m = bs * length L;
  ia_uni : uniform bs L;
  ia_data : d_data (full f) = concat L;
  ia_prefix : d_prefix (full f) = true;
  ia_hdr : m_pend m = None -> d_hdr (full f) = Some (m_rows m);
  ia_pend : forall p, m_pend m = Some p -> p = m_rows m;
  ia_mmap : m_mmap m = true -> f_buf f = []
}.

Definition Inv (m : mem) (f : file) (L : list batch) : Prop :=
  (InvA m f L /\ m_nb m = length L) \/ (m = fresh_mem /\ f = empty_file /\ L = []).

Lemma rows_len m f L : InvA m f L -> m_rows m = length (concat L).
Proof. intros I. rewrite (ia_rows _ _ _ I). symmetry. apply length_concat_uniform, (ia_uni _ _ _ I). Qed.

(** header write-back followed by a committing operation ([fs.flush()] or [fs.close()]) *)
Lemma sync_ok fin m f L i l m1 :
  (forall k g, lstep k fin g = flush_all g) ->
  InvA m f L -> arr_write_header m = (l, m1) ->
  let g := lexec o i (l ++ [fin]) f in
  f_buf g = [] /\ d_prefix (f_disk g) = true /\ d_hdr (f_disk g) = Some (m_rows m) /\ d_data (f_disk g) = concat L
  /\ m1 = upd m (m_rows m) None (m_mmap m)
  /\ (forall H, Safe H f -> In (flat L) H -> SafeAll o H i (l ++ [fin]) f).
Proof.
  intros Hfin I E. unfold arr_write_header in E. destruct (m_pend m) as [p|] eqn:P.
  - inversion E; subst l m1; clear E. pose proof (ia_pend _ _ _ I p P) as Hp. subst p.
    cbn [app lexec]. rewrite Hfin. cbn [flush_all f_buf f_disk].
    change (commit (f_buf ?x) (f_disk ?x)) with (full x).
    rewrite full_write by reflexivity. rewrite full_seek. simpl.
    rewrite (ia_data _ _ _ I), (ia_prefix _ _ _ I). repeat split; try reflexivity.
    intros H Sf HL. apply SafeAll_cons; [exact Sf|]. apply SafeAll_cons; [now apply Safe_seek|].
    assert (Sf2 : Safe H (lstep (o (S i)) (LWriteHeader (m_rows m)) (lstep (o i) LSeek f))).
    { apply Safe_write; [reflexivity | now apply Safe_seek |]. rewrite full_seek.
      apply good_header with (x := concat L); try apply I; [now apply rows_len with f | exact HL]. }
    apply SafeAll_cons; [exact Sf2|]. apply SafeAll_nil. rewrite Hfin. now apply Safe_flush_all.
  - inversion E; subst l m1; clear E. cbn [app lexec]. rewrite Hfin. cbn [flush_all f_buf f_disk].
    change (commit (f_buf f) (f_disk f)) with (full f).
    rewrite (ia_data _ _ _ I), (ia_prefix _ _ _ I), (ia_hdr _ _ _ I P). repeat split.
    + destruct m; simpl in *; now subst.
    + intros H Sf HL. apply SafeAll_cons; [exact Sf|]. apply SafeAll_nil. rewrite Hfin. now apply Safe_flush_all.
Qed.

Lemma InvA_synced m f L g :
  InvA m f L -> f_buf g = [] -> d_prefix (f_disk g) = true -> d_hdr (f_disk g) = Some (m_rows m) ->
  d_data (f_disk g) = concat L -> forall mm, (mm = true -> True) ->
  InvA (upd m (m_rows m) None mm) g L.
Proof.
  intros I B P Hd D mm _. constructor; simpl; try apply I; rewrite ?(full_nobuf g B); auto.
  discriminate.
Qed.

Lemma flush_ok m f L i :
  InvA m f L ->
  exists l m1, arr_flush m = (l, m1, false) /\
    InvA m1 (lexec o i l f) L /\ m_nb m1 = m_nb m /\ m_pend m1 = None /\ m_mmap m1 = m_mmap m /\
    f_buf (lexec o i l f) = [] /\ loads (f_disk (lexec o i l f)) = Some (flat L) /\
    (forall H, Safe H f -> In (flat L) H -> SafeAll o H i l f).
Proof.
  intros I. unfold arr_flush. rewrite (ia_open _ _ _ I).
  destruct (arr_write_header m) as [l m1] eqn:E.
  destruct (sync_ok LFlush m f L i l m1 lstep_flush I E) as (B & P & Hd & D & Em & SA).
  exists (l ++ [LFlush]), m1. split; [reflexivity|]. subst m1.
  split; [now apply InvA_synced with (f := f)|].
  split; [reflexivity|]. split; [reflexivity|]. split; [reflexivity|]. split; [exact B|].
  split; [|exact SA].
  apply loads_exact; auto. rewrite Hd. f_equal. now apply rows_len with f.
Qed.

(** [NpyArray.append] on an initialised array *)
Lemma append_ok m f L i b :
  InvA m f L -> length b = bs ->
  exists l m1, arr_append m true b = (l, m1, false) /\
    InvA m1 (lexec o i l f) (L ++ [b]) /\ m_nb m1 = m_nb m /\
    (forall H, Safe H f -> SafeAll o H i l f).
Proof.
  intros I Hb. unfold arr_append. rewrite (ia_open _ _ _ I), (ia_init _ _ _ I). simpl.
  eexists _, _. split; [reflexivity|]. cbn [lexec].
  pose proof (rows_len _ _ _ I) as RL.
  assert (FD : d_data (full (lstep (o (S i)) (LWriteData (m_rows m) b) (lstep (o i) LSeek f))) = concat (L ++ [b])).
  { rewrite full_write by reflexivity. rewrite full_seek. simpl. rewrite (ia_data _ _ _ I), RL, write_at_end.
    now rewrite concat_snoc. }
  assert (FP : d_prefix (full (lstep (o (S i)) (LWriteData (m_rows m) b) (lstep (o i) LSeek f))) = true).
  { rewrite full_write by reflexivity. rewrite full_seek. simpl. apply I. }
  split; [|split; [reflexivity|]].
  - constructor; msimpl; try apply I.
    + rewrite (ia_rows _ _ _ I), app_length, Hb. simpl. ring.
    + apply Forall_app. split; [apply I | now constructor].
    + exact FD.
    + exact FP.
    + discriminate.
    + intros p Hp. now inversion Hp.
    + discriminate.
  - intros H Sf. apply SafeAll_cons; [exact Sf|]. apply SafeAll_cons; [now apply Safe_seek|].
    apply SafeAll_nil. apply Safe_write; [reflexivity | now apply Safe_seek |].
    rewrite full_seek. simpl. rewrite (ia_data _ _ _ I), RL, write_at_end, <- (ia_data _ _ _ I).
    apply good_append. now apply Safe_full.
Qed.

(** [NpyArray.truncate] to the rows of [L'] *)
Lemma truncate_ok m f L i n L' :
  InvA m f L -> n = bs * length L' -> uniform bs L' -> concat L' = firstn n (concat L) ->
  (n < m_rows m \/ L' = L) ->
  exists l m1, arr_truncate current m n = (l, m1, false) /\
    InvA m1 (lexec o i l f) L' /\ m_nb m1 = m_nb m /\
    (forall H, Safe H f -> SafeAll o (flat L' :: H) i l f).
Proof.
  intros I Hn U' C Hcase. unfold arr_truncate, initialized. rewrite (ia_open _ _ _ I), (ia_init _ _ _ I). simpl.
  pose proof (rows_len _ _ _ I) as RL.
  destruct (n <? m_rows m) eqn:Sh.
  - (* shrinking: header first *)
    apply Nat.ltb_lt in Sh. unfold arr_write_header. simpl.
    eexists _, _. split; [reflexivity|]. cbn [app lexec]. rewrite lstep_trunc, lstep_flush.
    set (f2 := lstep (o (S i)) (LWriteHeader n) (lstep (o i) LSeek f)).
    assert (F2 : full f2 = commit1 (full f) (LWriteHeader n)).
    { unfold f2. rewrite full_write by reflexivity. now rewrite full_seek. }
    rewrite full_seek, full_flush_all, F2. simpl. rewrite (ia_data _ _ _ I), <- C.
    split; [|split; [reflexivity|]].
    + constructor; simpl; auto; try apply I; try discriminate.
    + intros H Sf. apply (Safe_mono H (flat L' :: H)) in Sf; [|now apply incl_tl].
      apply SafeAll_cons; [exact Sf|]. apply SafeAll_cons; [now apply Safe_seek|].
      assert (Sf2 : Safe (flat L' :: H) f2).
      { apply Safe_write; [reflexivity | now apply Safe_seek |]. rewrite full_seek.
        apply good_header_firstn with (x := concat L); try apply I; [lia|]. rewrite <- C. now left. }
      apply SafeAll_cons; [exact Sf2|]. rewrite lstep_flush.
      apply SafeAll_cons; [now apply Safe_flush_all|].
      apply SafeAll_cons; [now apply Safe_seek, Safe_flush_all|].
      apply SafeAll_nil. rewrite lstep_trunc. apply Safe_nobuf; [reflexivity|]. cbn [f_disk].
      rewrite full_seek, full_flush_all. fold f2. rewrite F2. simpl. rewrite (ia_data _ _ _ I), <- C.
      exists (concat L'). split; [|now left]. apply loads_exact; simpl; auto; try apply I.
      rewrite (length_concat_uniform bs L' U'). now rewrite Hn.
  - (* not shrinking: nothing changes in the file *)
    apply Nat.ltb_ge in Sh. destruct Hcase as [Hlt | EL]; [lia|]. subst L'.
    eexists _, _. split; [reflexivity|]. cbn [app lexec]. rewrite lstep_trunc, full_seek.
    assert (FN : firstn n (d_data (full f)) = d_data (full f)).
    { rewrite (ia_data _ _ _ I). symmetry. exact C. }
    rewrite FN, (set_data_same _ _ eq_refl).
    split; [|split; [reflexivity|]].
    + constructor; simpl; auto; try apply I; try discriminate.
      * intros p Hp. now inversion Hp.
    + intros H Sf. apply (Safe_mono H (flat L :: H)) in Sf; [|now apply incl_tl].
      apply SafeAll_cons; [exact Sf|]. apply SafeAll_cons; [now apply Safe_seek|].
      apply SafeAll_nil. rewrite lstep_trunc, full_seek, FN, (set_data_same _ _ eq_refl).
      apply Safe_nobuf; [reflexivity|]. simpl. now apply Safe_full.
Qed.

Lemma memmap_ok m f L i :
  InvA m f L ->
  exists l m1, arr_memmap m = Some (l, m1) /\ InvA m1 (lexec o i l f) L /\ m_nb m1 = m_nb m /\
    m_mmap m1 = true /\ m_pend m1 = m_pend m /\ (forall H, Safe H f -> SafeAll o H i l f).
Proof.
  intros I. unfold arr_memmap, initialized. rewrite (ia_open _ _ _ I), (ia_init _ _ _ I). simpl.
  destruct (m_mmap m) eqn:MM.
  - exists [], m. repeat (split; [solve [auto]|]). intros H Sf. now apply SafeAll_nil.
  - eexists _, _. split; [reflexivity|]. cbn [lexec]. rewrite lstep_seekend.
    split; [|split; [reflexivity|split; [reflexivity|split; [reflexivity|]]]].
    + constructor; msimpl; try apply I; rewrite ?full_flush_all; try apply I. reflexivity.
    + intros H Sf. apply SafeAll_cons; [exact Sf|]. apply SafeAll_nil. rewrite lstep_seekend.
      now apply Safe_flush_all.
Qed.

Lemma setitem_ok m f L i k b :
  InvA m f L -> k < length L -> length b = bs ->
  exists l m1, arr_setitem current m (bs * k) b = Some (l, m1) /\
    InvA m1 (lexec o i l f) (replace k b L) /\ m_nb m1 = m_nb m /\
    (forall H, Safe H f -> In (flat L) H -> SafeAll o (flat (replace k b L) :: H) i l f).
Proof.
  intros I Hk Hb. unfold arr_setitem.
  assert (P0 : exists l0 m0,
     match m_pend m with
     | Some _ => if v_set_flush current then arr_flush m
                 else if v_set_hdr current then (let '(l, m') := arr_write_header m in (l, m', false))
                 else ([], m, false)
     | None => ([], m, false)
     end = (l0, m0, false) /\ InvA m0 (lexec o i l0 f) L /\ m_pend m0 = None /\ m_nb m0 = m_nb m /\
     (forall H, Safe H f -> In (flat L) H -> SafeAll o H i l0 f)).
  { destruct (m_pend m) eqn:P.
    - simpl. destruct (flush_ok m f L i I) as (l & m1 & E & I1 & N1 & P1 & _ & _ & _ & SA).
      exists l, m1. auto.
    - exists [], m. repeat (split; [solve [auto]|]). intros H Sf _. now apply SafeAll_nil. }
  destruct P0 as (l0 & m0 & E0 & I0 & Pn & N0 & SA0). rewrite E0.
  destruct (memmap_ok m0 (lexec o i l0 f) L (i + length l0) I0) as (l1 & m1 & E1 & I1 & N1 & MM & P1 & SA1).
  rewrite E1. eexists _, _. split; [reflexivity|].
  rewrite !lexec_app. cbn [lexec]. rewrite lstep_mem.
  set (g1 := lexec o (i + length l0) l1 (lexec o i l0 f)) in *.
  pose proof (ia_mmap _ _ _ I1 MM) as B1. rewrite <- P1 in Pn.
  pose proof (ia_hdr _ _ _ I1 Pn) as Hd. pose proof (ia_data _ _ _ I1) as D. pose proof (ia_prefix _ _ _ I1) as Pf.
  rewrite (full_nobuf _ B1) in *. rewrite B1, D.
  rewrite (concat_replace bs k b L (ia_uni _ _ _ I) Hb Hk).
  pose proof (uniform_replace bs k b L (ia_uni _ _ _ I) Hb) as U'.
  assert (LD : loads (set_data (f_disk g1) (concat (replace k b L))) = Some (flat (replace k b L))).
  { apply loads_exact; simpl; auto. rewrite Hd. f_equal.
    unfold flat. rewrite (length_concat_uniform bs _ U'), length_replace. apply I1. }
  split; [|split; [lia|]].
  - constructor; try apply I1; cbn [full f_buf f_disk commit fold_left]; simpl; auto.
    rewrite length_replace. apply I1.
  - intros H Sf HL. apply SafeAll_app; [apply SafeAll_mono with H; [now apply incl_tl | now apply SA0]|].
    pose proof (SafeAll_end _ _ _ _ _ (SA0 H Sf HL)) as S0.
    apply SafeAll_app; [apply SafeAll_mono with H; [now apply incl_tl | now apply SA1]|].
    pose proof (SafeAll_end _ _ _ _ _ (SA1 H S0)) as S1. fold g1 in S1.
    apply SafeAll_cons; [apply Safe_mono with H; [now apply incl_tl | exact S1]|].
    apply SafeAll_nil. rewrite lstep_mem. apply Safe_nobuf; [exact B1|]. cbn [f_disk].
    fold g1. rewrite D, (concat_replace bs k b L (ia_uni _ _ _ I) Hb Hk).
    exists (flat (replace k b L)). split; [exact LD | now left].
Qed.

Lemma InvA_set_nb m f L k : InvA m f L -> InvA (set_nb m k) f L.
Proof. intros I. constructor; msimpl; apply I. Qed.

Definition wf_op (op : hop) : Prop :=
  match op with Set_ _ g b => g = true /\ length b = bs | Close => False | Open _ => False | _ => True end.

Definition two_phase (op : hop) : bool := match op with Reopen | Pickle | Open _ => true | _ => false end.

Lemma hstep_simple i m f op : two_phase op = false ->
  hstep current bs o i m f op =
  let '(l, m1, e) := expand current bs m op in
  {| r_mem := m1; r_file := lexec o i l f; r_lops := l; r_err := e |}.
Proof. destruct op; try discriminate; reflexivity. Qed.

Definition StepOK (m : mem) (f : file) (L : list batch) (i : nat) (op : hop) : Prop :=
  let h := hstep current bs o i m f op in
  Inv (r_mem h) (r_file h) (spec_step L op) /\
  r_file h = lexec o i (r_lops h) f /\
  (m_init m = true -> m_init (r_mem h) = true /\
     forall H, Safe H f -> In (flat L) H -> SafeAll o (flat (spec_step L op) :: H) i (r_lops h) f) /\
  (is_flush op = true -> m_init (r_mem h) = true ->
     r_err h = false /\ f_buf (r_file h) = [] /\ loads (f_disk (r_file h)) = Some (flat L)).

Lemma skipn_nil {A} n : skipn n (@nil A) = [].
Proof. now destruct n. Qed.

Lemma SafeAll_tl H x i l f : SafeAll o H i l f -> SafeAll o (x :: H) i l f.
Proof. apply SafeAll_mono. now apply incl_tl. Qed.

Lemma lstep_seek_nil k g : f_buf g = [] -> lstep k LSeek g = g.
Proof. intros B. simpl. now apply take_commit_nil. Qed.

Lemma opened_inv g L h nb :
  f_buf g = [] -> d_prefix (f_disk g) = true -> d_hdr (f_disk g) = Some h -> d_data (f_disk g) = concat L ->
  h = bs * length L -> uniform bs L -> InvA (opened bs h nb) g L.
Proof.
  intros B P Hd D Hh U. constructor; simpl; rewrite ?(full_nobuf g B); auto; discriminate.
Qed.

Lemma spec_flush L op : is_flush op = true -> spec_step L op = L.
Proof. now destruct op. Qed.

(** ** one store operation, initialised store *)

Lemma step_set m f L i k b :
  InvA m f L -> m_nb m = length L -> length b = bs -> StepOK m f L i (Set_ k true b).
Proof.
  intros I N Hb. unfold StepOK. rewrite hstep_simple by reflexivity. cbn [expand spec_step]. unfold st_set.
  rewrite N, (ia_rows _ _ _ I).
  destruct (lt_eq_lt_dec k (length L)) as [[Hlt|Heq]|Hgt].
  - replace (k =? length L) with false by (symmetry; apply Nat.eqb_neq; lia). cbn [andb].
    replace (length L <? k) with false by (symmetry; apply Nat.ltb_ge; lia).
    replace (bs * length L <? bs * k + bs) with false by (symmetry; apply Nat.ltb_ge; nia).
    replace (k <? length L) with true by (symmetry; apply Nat.ltb_lt; lia).
    destruct (setitem_ok m f L i k b I Hlt Hb) as (l & m1 & E & I1 & N1 & SA). rewrite E.
    replace (k =? m_nb m1) with false by (symmetry; apply Nat.eqb_neq; lia).
    cbn [r_mem r_file r_lops r_err]. split; [|split; [reflexivity|split]].
    + left. split; [exact I1|]. rewrite length_replace. lia.
    + intros _. split; [apply I1 | exact SA].
    + discriminate.
  - subst k. rewrite !Nat.eqb_refl. cbn [andb].
    destruct (append_ok m f L i b I Hb) as (l & m1 & E & I1 & N1 & SA). rewrite E.
    cbn [r_mem r_file r_lops r_err]. split; [|split; [reflexivity|split]].
    + left. split; [now apply InvA_set_nb|]. msimpl. rewrite app_length. simpl. lia.
    + intros _. split; [apply I1|]. intros H Sf _. now apply SafeAll_tl, SA.
    + discriminate.
  - replace (k =? length L) with false by (symmetry; apply Nat.eqb_neq; lia). cbn [andb].
    replace (length L <? k) with true by (symmetry; apply Nat.ltb_lt; lia).
    replace (k <? length L) with false by (symmetry; apply Nat.ltb_ge; lia).
    cbn [err r_mem r_file r_lops r_err lexec]. split; [|split; [reflexivity|split]].
    + left. now split.
    + intros Hi. split; [exact Hi|]. intros H Sf _. now apply SafeAll_nil, Safe_mono with H; [apply incl_tl|].
    + discriminate.
Qed.

Lemma step_del m f L i k :
  InvA m f L -> m_nb m = length L -> StepOK m f L i (Del k).
Proof.
  intros I N. unfold StepOK. rewrite hstep_simple by reflexivity. cbn [expand spec_step]. unfold st_del. rewrite N.
  destruct ((0 <? length L) && (k =? length L - 1)) eqn:C.
  - apply andb_prop in C. destruct C as [C1 C2]. apply Nat.ltb_lt in C1. apply Nat.eqb_eq in C2.
    replace (k <? length L) with true by (symmetry; apply Nat.ltb_lt; lia).
    replace (k =? length L - 1) with true by (symmetry; apply Nat.eqb_eq; lia). cbn [negb].
    assert (NE : L <> []) by (intros ->; simpl in C1; lia).
    destruct (truncate_ok (set_nb m (length L - 1)) f L i (bs * k) (removelast L)) as (l & m1 & E & I1 & N1 & SA).
    + now apply InvA_set_nb.
    + rewrite length_removelast. now subst k.
    + apply uniform_removelast, I.
    + subst k. symmetry. apply concat_removelast; [apply I | exact NE].
    + left. msimpl. rewrite (ia_rows _ _ _ I). nia.
    + rewrite E. cbn [r_mem r_file r_lops r_err]. split; [|split; [reflexivity|split]].
      * left. split; [exact I1|]. rewrite N1. msimpl. now rewrite length_removelast.
      * intros _. split; [apply I1|]. intros H Sf _. now apply SA.
      * discriminate.
  - assert (E : (if negb (k <? length L) then err m else
                 if negb (k =? length L - 1) then err m
                 else arr_truncate current (set_nb m (length L - 1)) (bs * k)) = err m).
    { destruct (k <? length L) eqn:K1; [|reflexivity]. cbn [negb]. apply Nat.ltb_lt in K1.
      destruct (k =? length L - 1) eqn:K2; [|reflexivity].
      replace (0 <? length L) with true in C by (symmetry; apply Nat.ltb_lt; lia). discriminate. }
    rewrite E. cbn [err r_mem r_file r_lops r_err lexec]. split; [|split; [reflexivity|split]].
    + left. now split.
    + intros Hi. split; [exact Hi|]. intros H Sf _. now apply SafeAll_nil, Safe_mono with H; [apply incl_tl|].
    + discriminate.
Qed.

Lemma step_clear m f L i :
  InvA m f L -> m_nb m = length L -> StepOK m f L i Clear.
Proof.
  intros I N. unfold StepOK. rewrite hstep_simple by reflexivity. cbn [expand spec_step]. unfold st_clear.
  assert (A1 : 0 = bs * length (@nil batch)) by (simpl; lia).
  assert (A2 : uniform bs []) by constructor.
  assert (A3 : concat (@nil batch) = firstn 0 (concat L)) by reflexivity.
  assert (A4 : 0 < m_rows m \/ [] = L).
  { destruct L; [now right|left]. rewrite (ia_rows _ _ _ I). simpl. nia. }
  destruct (truncate_ok m f L i 0 [] I A1 A2 A3 A4) as (l & m1 & E & I1 & N1 & SA).
  - rewrite E. cbn [r_mem r_file r_lops r_err]. split; [|split; [reflexivity|split]].
    + left. split; [now apply InvA_set_nb|]. reflexivity.
    + intros _. split; [apply I1|]. intros H Sf _. now apply SA.
    + discriminate.
Qed.

Lemma step_flush m f L i :
  InvA m f L -> m_nb m = length L -> StepOK m f L i Flush.
Proof.
  intros I N. unfold StepOK. rewrite hstep_simple by reflexivity. cbn [expand spec_step].
  destruct (flush_ok m f L i I) as (l & m1 & E & I1 & N1 & P1 & MM & B & LD & SA). rewrite E.
  cbn [r_mem r_file r_lops r_err]. split; [|split; [reflexivity|split]].
  - left. split; [exact I1 | lia].
  - intros _. split; [apply I1|]. intros H Sf HL. now apply SafeAll_tl, SA.
  - intros _ _. auto.
Qed.

Lemma step_read m f L i k :
  InvA m f L -> m_nb m = length L -> StepOK m f L i (Read k).
Proof.
  intros I N. unfold StepOK. rewrite hstep_simple by reflexivity. cbn [expand spec_step]. unfold st_read.
  destruct (memmap_ok m f L i I) as (l & m1 & E & I1 & N1 & _ & _ & SA). rewrite E.
  cbn [r_mem r_file r_lops r_err]. split; [|split; [reflexivity|split]].
  - left. split; [exact I1 | lia].
  - intros _. split; [apply I1|]. intros H Sf HL. now apply SafeAll_tl, SA.
  - discriminate.
Qed.

(** a query ([len(store)], [i in store], [len(store.array)]) issues no file operation and leaves
    the object as it is *)
Lemma step_query m f L i :
  InvA m f L -> m_nb m = length L -> StepOK m f L i Query.
Proof.
  intros I N. unfold StepOK. rewrite hstep_simple by reflexivity. cbn [expand spec_step].
  cbn [r_mem r_file r_lops r_err lexec]. split; [|split; [reflexivity|split]].
  - left. now split.
  - intros Hi. split; [exact Hi|]. intros H Sf _. now apply SafeAll_nil, Safe_mono with H; [apply incl_tl|].
  - discriminate.
Qed.

Lemma step_reopen m f L i :
  InvA m f L -> m_nb m = length L -> StepOK m f L i Reopen.
Proof.
  intros I N. unfold StepOK. cbn [hstep spec_step]. unfold arr_close, initialized.
  rewrite (ia_open _ _ _ I), (ia_init _ _ _ I). cbn [negb andb].
  destruct (arr_write_header m) as [l m1] eqn:E.
  destruct (sync_ok LClose m f L i l m1 lstep_close I E) as (B & P & Hd & D & Em & SA).
  set (g := lexec o i (l ++ [LClose]) f) in *.
  assert (F1 : lexec o i ((l ++ [LClose]) ++ [LOpen false; LSeek]) f = g).
  { rewrite lexec_app. fold g. cbn [lexec]. rewrite lstep_open. now apply lstep_seek_nil. }
  rewrite F1. unfold read_header. rewrite P, Hd.
  cbn [r_mem r_file r_lops r_err].
  assert (IO : InvA (opened bs (m_rows m) None) g L).
  { apply opened_inv; auto; apply I. }
  split; [|split; [now rewrite F1|split]].
  - left. split; [exact IO|]. simpl. rewrite (ia_rows _ _ _ I), Nat.mul_comm. apply Nat.div_mul. lia.
  - intros _. split; [reflexivity|]. intros H Sf HL. apply SafeAll_tl.
    apply SafeAll_app; [now apply SA|]. fold g.
    pose proof (SafeAll_end _ _ _ _ _ (SA H Sf HL)) as Sg. fold g in Sg.
    apply SafeAll_cons; [exact Sg|]. rewrite lstep_open. apply SafeAll_cons; [exact Sg|].
    apply SafeAll_nil. now rewrite lstep_seek_nil.
  - intros _ _. split; [reflexivity|]. split; [exact B|].
    apply loads_exact; auto. rewrite Hd. f_equal. now apply rows_len with f.
Qed.

Lemma step_pickle m f L i :
  InvA m f L -> m_nb m = length L -> StepOK m f L i Pickle.
Proof.
  intros I N. unfold StepOK. cbn [hstep spec_step]. rewrite (ia_open _ _ _ I).
  destruct (flush_ok m f L i I) as (l & m1 & E & I1 & N1 & P1 & MM & B & LD & SA). rewrite E.
  set (g := lexec o i l f) in *.
  assert (F1 : lexec o i (l ++ [LOpen false; LSeek]) f = g).
  { rewrite lexec_app. fold g. cbn [lexec]. rewrite lstep_open. now apply lstep_seek_nil. }
  rewrite F1.
  pose proof (ia_prefix _ _ _ I1) as P. pose proof (ia_hdr _ _ _ I1 P1) as Hd. pose proof (ia_data _ _ _ I1) as D.
  rewrite (full_nobuf g B) in *.
  unfold read_header. rewrite P, Hd.
  unfold arr_close, initialized. rewrite (ia_open _ _ _ I1), (ia_init _ _ _ I1). cbn [negb andb].
  unfold arr_write_header. rewrite P1. cbn [app r_mem r_file r_lops r_err lexec]. rewrite lstep_close, (flush_all_nil g B).
  assert (IO : InvA (opened bs (m_rows m1) (Some (m_nb m))) g L).
  { apply opened_inv; auto; apply I1. }
  split; [|split; [|split]].
  - left. split; [exact IO|]. simpl. exact N.
  - rewrite lexec_app, F1. cbn [lexec]. now rewrite lstep_close, (flush_all_nil g B).
  - intros _. split; [reflexivity|]. intros H Sf HL. apply SafeAll_tl.
    pose proof (SafeAll_end _ _ _ _ _ (SA H Sf HL)) as Sg. fold g in Sg.
    apply SafeAll_app; [apply SafeAll_app; [now apply SA|]|].
    + fold g. apply SafeAll_cons; [exact Sg|]. rewrite lstep_open. apply SafeAll_cons; [exact Sg|].
      apply SafeAll_nil. now rewrite lstep_seek_nil.
    + rewrite F1. apply SafeAll_cons; [exact Sg|]. apply SafeAll_nil. now rewrite lstep_close, (flush_all_nil g B).
  - intros _ _. split; [reflexivity|]. split; [exact B | exact LD].
Qed.

(** ** one store operation before initialisation *)

Lemma step_fresh i op : wf_op op -> StepOK fresh_mem empty_file [] i op.
Proof.
  intros W. unfold StepOK.
  assert (NI : forall h L', r_mem h = fresh_mem -> r_file h = empty_file -> L' = [] ->
            r_file h = lexec o i (r_lops h) empty_file ->
            Inv (r_mem h) (r_file h) L' /\ r_file h = lexec o i (r_lops h) empty_file /\
            (m_init fresh_mem = true -> m_init (r_mem h) = true /\
               forall H, Safe H empty_file -> In (flat []) H -> SafeAll o (flat L' :: H) i (r_lops h) empty_file) /\
            (is_flush op = true -> m_init (r_mem h) = true ->
               r_err h = false /\ f_buf (r_file h) = [] /\ loads (f_disk (r_file h)) = Some (flat []))).
  { intros h L' Hm Hf HL Hx. split; [right; auto|]. split; [exact Hx|]. split; [discriminate|].
    intros _ Hi. rewrite Hm in Hi. discriminate. }
  destruct op as [k g b| k | | | | | | k | k |]; simpl in W.
  - destruct W as [-> Hb]. rewrite hstep_simple by reflexivity. cbn [expand spec_step]. unfold st_set.
    cbn [fresh_mem m_nb m_rows length].
    destruct k as [|k].
    + rewrite Nat.mul_0_r. cbn [Nat.eqb andb]. unfold arr_append. cbn [fresh_mem m_closed m_init andb negb app m_rows m_mmap m_nb].
      cbn [r_mem r_file r_lops r_err set_nb upd m_init m_closed m_rows m_pend m_mmap m_nb].
      set (f6 := lexec o i [LSeek; LWritePrefix; LSeek; LWriteHeader 0; LSeek; LWriteData 0 b] empty_file).
      assert (F6 : full f6 = {| d_prefix := true; d_hdr := Some 0; d_data := b |}).
      { unfold f6. cbn [lexec]. rewrite full_write by reflexivity. rewrite full_seek.
        rewrite full_write by reflexivity. rewrite full_seek. rewrite full_write by reflexivity. rewrite full_seek.
        unfold full. simpl. unfold set_data, write_at. simpl. now rewrite skipn_nil, app_nil_r. }
      split; [|split; [reflexivity|split]].
      * left. split; [|reflexivity]. constructor; msimpl; rewrite ?F6; simpl; auto; try discriminate.
        -- lia.
        -- repeat constructor. exact Hb.
        -- now rewrite app_nil_r.
        -- intros p Hp. now inversion Hp.
      * discriminate.
      * discriminate.
    + cbn [Nat.eqb andb Nat.ltb Nat.leb err]. apply NI; auto.
  - rewrite hstep_simple by reflexivity. apply NI; auto.
  - rewrite hstep_simple by reflexivity. apply NI; auto.
  - rewrite hstep_simple by reflexivity. apply NI; auto.
  - contradiction.
  - cbn [hstep]. unfold arr_close. cbn [initialized fresh_mem m_init m_closed andb app lexec].
    rewrite lstep_open, lstep_seek_nil by reflexivity. simpl.
    split; [right; auto|]. split; [now rewrite take_commit_nil|]. split; [discriminate|]. intros _ Hf; discriminate.
  - cbn [hstep fresh_mem m_closed]. unfold arr_flush, arr_write_header. cbn [fresh_mem m_closed m_pend app lexec].
    rewrite lstep_open, lstep_flush, lstep_seek_nil by reflexivity. simpl.
    split; [right; auto|]. split; [now rewrite take_commit_nil|]. split; [discriminate|]. intros _ Hf; discriminate.
  - contradiction.
  - rewrite hstep_simple by reflexivity. apply NI; auto.
  - rewrite hstep_simple by reflexivity. apply NI; auto.
Qed.

Lemma hstep_ok m f L i op : Inv m f L -> wf_op op -> StepOK m f L i op.
Proof.
  intros [[I N]|(-> & -> & ->)] W; [|now apply step_fresh].
  destruct op; simpl in W.
  - destruct W as [-> Hb]. now apply step_set.
  - now apply step_del.
  - now apply step_clear.
  - now apply step_flush.
  - contradiction.
  - now apply step_reopen.
  - now apply step_pickle.
  - contradiction.
  - now apply step_read.
  - now apply step_query.
Qed.

(** ** prefix stores: [n_batches] may be smaller than the number of batches in the file ([Open k]).
    Specification state [(P, n)]: [P] the batches physically in the file, [n = n_batches <= |P|]. *)

Lemma uniform_firstn n L : uniform bs L -> uniform bs (firstn n L).
Proof. unfold uniform. intros U. revert n. induction U; intros [|n]; simpl; constructor; auto. Qed.

Lemma concat_firstn n L : uniform bs L -> n <= length L -> concat (firstn n L) = firstn (bs * n) (concat L).
Proof.
  intros U. revert n. induction U as [|x r Hx U IH]; intros n Hn.
  - destruct n; simpl; now rewrite ?firstn_nil.
  - destruct n as [|n]; simpl.
    + now rewrite Nat.mul_0_r.
    + replace (bs * S n) with (length x + bs * n) by lia. rewrite firstn_app_len. f_equal. apply IH. simpl in Hn. lia.
Qed.

Lemma slices_prefix n L : uniform bs L -> n <= length L ->
  map (fun i => slice bs i (concat L)) (seq 0 n) = firstn n L.
Proof.
  intros U Hn. pose proof (f_equal (firstn n) (slices_concat bs L U)) as E. rewrite <- E, firstn_map. f_equal.
  replace (length L) with (n + (length L - n)) by lia. rewrite seq_app.
  rewrite firstn_app_le by (rewrite seq_length; lia). now rewrite firstn_all2 by (rewrite seq_length; lia).
Qed.

Definition PInv (m : mem) (f : file) (s : pstate) : Prop :=
  (InvA m f (fst s) /\ m_nb m = snd s /\ snd s <= length (fst s)) \/ (m = fresh_mem /\ f = empty_file /\ s = ([], 0)).

Definition wfp_op (s : pstate) (op : hop) : Prop :=
  match op with
  | Set_ _ g b => g = true /\ length b = bs
  | Close => False
  | Open k => k <= length (fst s)
  | _ => True
  end.

(** [store.close()] followed by [NpyArray(filename)]: the header on disk declares the rows *)
Lemma close_open_ok m f L i nb :
  InvA m f L ->
  exists l0 m1, arr_close m = (l0, m1) /\
    read_header (f_disk (lexec o i (l0 ++ [LOpen false; LSeek]) f)) = Some (m_rows m) /\
    InvA (opened bs (m_rows m) nb) (lexec o i (l0 ++ [LOpen false; LSeek]) f) L.
Proof.
  intros I. unfold arr_close, initialized. rewrite (ia_open _ _ _ I), (ia_init _ _ _ I). cbn [negb andb].
  destruct (arr_write_header m) as [l m1] eqn:E.
  destruct (sync_ok LClose m f L i l m1 lstep_close I E) as (B & P & Hd & D & Em & SA).
  eexists _, _. split; [reflexivity|].
  set (g := lexec o i (l ++ [LClose]) f) in *.
  assert (F1 : lexec o i ((l ++ [LClose]) ++ [LOpen false; LSeek]) f = g).
  { rewrite lexec_app. fold g. cbn [lexec]. rewrite lstep_open. now apply lstep_seek_nil. }
  rewrite F1. unfold read_header. rewrite P, Hd. split; [reflexivity|].
  apply opened_inv; auto; apply I.
Qed.

Lemma pstep_init m f P n i op :
  InvA m f P -> m_nb m = n -> n <= length P -> wfp_op (P, n) op ->
  PInv (r_mem (hstep current bs o i m f op)) (r_file (hstep current bs o i m f op)) (pspec_step (P, n) op).
Proof.
  intros I N Hn W. pose proof (ia_rows _ _ _ I) as R.
  destruct op as [k g b| k | | | | | | k | k |]; cbn [wfp_op fst] in W.
  - (* store[k] = b *)
    destruct W as [-> Hb]. rewrite hstep_simple by reflexivity. cbn [expand pspec_step]. unfold st_set. rewrite N, R.
    destruct (n <? k) eqn:K1.
    + apply Nat.ltb_lt in K1. replace (k =? n) with false by (symmetry; apply Nat.eqb_neq; lia). cbn [andb].
      cbn [err r_mem r_file r_lops r_err lexec]. left. cbn [fst snd]. auto.
    + apply Nat.ltb_ge in K1. destruct (k =? length P) eqn:K2.
      * (* nothing hidden: append *)
        apply Nat.eqb_eq in K2. assert (Ek : k = n) by lia.
        replace (k =? n) with true by (symmetry; apply Nat.eqb_eq; lia).
        replace (bs * k =? bs * length P) with true by (symmetry; apply Nat.eqb_eq; now rewrite K2).
        cbn [andb]. destruct (append_ok m f P i b I Hb) as (l & m1 & E & I1 & N1 & _). rewrite E.
        cbn [r_mem r_file r_lops r_err]. left. cbn [fst snd]. split; [now apply InvA_set_nb|].
        split; [msimpl; lia|]. rewrite app_length. simpl. lia.
      * (* a batch of the file at that place: it is overwritten, wherever the end of the file is *)
        apply Nat.eqb_neq in K2. assert (Hk : k < length P) by lia.
        replace (bs * k =? bs * length P) with false by (symmetry; apply Nat.eqb_neq; nia). rewrite Bool.andb_false_r.
        replace (bs * length P <? bs * k + bs) with false by (symmetry; apply Nat.ltb_ge; nia).
        destruct (setitem_ok m f P i k b I Hk Hb) as (l & m1 & E & I1 & N1 & _). rewrite E.
        cbn [r_mem r_file r_lops r_err]. rewrite N1, N.
        destruct (k =? n) eqn:K3; left; cbn [fst snd]; rewrite length_replace.
        -- apply Nat.eqb_eq in K3. split; [now apply InvA_set_nb|]. split; [msimpl; lia | lia].
        -- split; [exact I1|]. split; [lia | lia].
  - (* del store[k] *)
    rewrite hstep_simple by reflexivity. cbn [expand pspec_step]. unfold st_del. rewrite N.
    destruct ((0 <? n) && (k =? n - 1)) eqn:C.
    + apply andb_prop in C. destruct C as [C1 C2]. apply Nat.ltb_lt in C1. apply Nat.eqb_eq in C2.
      replace (k <? n) with true by (symmetry; apply Nat.ltb_lt; lia).
      replace (k =? n - 1) with true by (symmetry; apply Nat.eqb_eq; lia). cbn [negb].
      destruct (truncate_ok (set_nb m (n - 1)) f P i (bs * k) (firstn k P)) as (l & m1 & E & I1 & N1 & _).
      * now apply InvA_set_nb.
      * rewrite firstn_length_le by lia. reflexivity.
      * apply uniform_firstn, I.
      * apply concat_firstn; [apply I | lia].
      * left. msimpl. rewrite R. nia.
      * rewrite E. cbn [r_mem r_file r_lops r_err]. left. cbn [fst snd]. split; [exact I1|].
        rewrite firstn_length_le by lia. split; [rewrite N1; msimpl; lia | lia].
    + assert (E : (if negb (k <? n) then err m else
                   if negb (k =? n - 1) then err m
                   else arr_truncate current (set_nb m (n - 1)) (bs * k)) = err m).
      { destruct (k <? n) eqn:K1; [|reflexivity]. cbn [negb]. apply Nat.ltb_lt in K1.
        destruct (k =? n - 1) eqn:K2; [|reflexivity].
        replace (0 <? n) with true in C by (symmetry; apply Nat.ltb_lt; lia). discriminate. }
      rewrite E. cbn [err r_mem r_file r_lops r_err lexec]. left. cbn [fst snd]. auto.
  - (* clear *)
    rewrite hstep_simple by reflexivity. cbn [expand pspec_step]. unfold st_clear.
    assert (A1 : 0 = bs * length (@nil batch)) by (simpl; lia).
    assert (A2 : uniform bs []) by constructor.
    assert (A3 : concat (@nil batch) = firstn 0 (concat P)) by reflexivity.
    assert (A4 : 0 < m_rows m \/ [] = P).
    { destruct P; [now right|left]. rewrite R. simpl. nia. }
    destruct (truncate_ok m f P i 0 [] I A1 A2 A3 A4) as (l & m1 & E & I1 & N1 & _). rewrite E.
    cbn [r_mem r_file r_lops r_err]. left. cbn [fst snd]. split; [now apply InvA_set_nb|]. split; [reflexivity | simpl; lia].
  - (* flush *)
    rewrite hstep_simple by reflexivity. cbn [expand pspec_step].
    destruct (flush_ok m f P i I) as (l & m1 & E & I1 & N1 & _). rewrite E.
    cbn [r_mem r_file r_lops r_err]. left. cbn [fst snd]. split; [exact I1|]. split; [lia | exact Hn].
  - contradiction.
  - (* reopen: all the batches of the file become visible *)
    cbn [hstep pspec_step]. destruct (close_open_ok m f P i None I) as (l0 & m1 & E & RH & IO). rewrite E, RH.
    cbn [r_mem r_file]. left. cbn [fst snd]. split; [exact IO|]. split; [|lia].
    simpl. rewrite R, Nat.mul_comm. apply Nat.div_mul. lia.
  - (* pickle + unpickle: n_batches travels in the pickle, the array is read from the file *)
    cbn [hstep pspec_step]. rewrite (ia_open _ _ _ I).
    destruct (flush_ok m f P i I) as (l & m1 & E & I1 & N1 & P1 & MM & B & LD & _). rewrite E.
    set (g := lexec o i l f) in *.
    assert (F1 : lexec o i (l ++ [LOpen false; LSeek]) f = g).
    { rewrite lexec_app. fold g. cbn [lexec]. rewrite lstep_open. now apply lstep_seek_nil. }
    rewrite F1.
    pose proof (ia_prefix _ _ _ I1) as Pf. pose proof (ia_hdr _ _ _ I1 P1) as Hd. pose proof (ia_data _ _ _ I1) as D.
    rewrite (full_nobuf g B) in *.
    unfold read_header. rewrite Pf, Hd.
    unfold arr_close, initialized. rewrite (ia_open _ _ _ I1), (ia_init _ _ _ I1). cbn [negb andb].
    unfold arr_write_header. rewrite P1. cbn [app r_mem r_file r_lops r_err lexec]. rewrite lstep_close, (flush_all_nil g B).
    left. cbn [fst snd]. split; [apply opened_inv; auto; apply I1|]. split; [simpl; exact N | exact Hn].
  - (* open with n_batches = k *)
    cbn [hstep pspec_step]. destruct (close_open_ok m f P i (Some k) I) as (l0 & m1 & E & RH & IO). rewrite E, RH.
    cbn [r_mem r_file]. left. cbn [fst snd]. split; [exact IO|]. split; [reflexivity | exact W].
  - (* read *)
    rewrite hstep_simple by reflexivity. cbn [expand pspec_step]. unfold st_read.
    destruct (memmap_ok m f P i I) as (l & m1 & E & I1 & N1 & _). rewrite E.
    cbn [r_mem r_file r_lops r_err]. left. cbn [fst snd]. split; [exact I1|]. split; [lia | exact Hn].
  - (* query *)
    rewrite hstep_simple by reflexivity. cbn [expand pspec_step r_mem r_file r_lops r_err lexec].
    left. cbn [fst snd]. auto.
Qed.

Lemma pspec_fresh op : is_open op = false ->
  pspec_step ([], 0) op = (spec_step [] op, length (spec_step [] op)).
Proof.
  destruct op as [k g b| k | | | | | | k | k |]; intros IO; try reflexivity; try discriminate.
  destruct k; reflexivity.
Qed.

Lemma pstep_fresh i op : wfp_op ([], 0) op ->
  PInv (r_mem (hstep current bs o i fresh_mem empty_file op)) (r_file (hstep current bs o i fresh_mem empty_file op))
       (pspec_step ([], 0) op).
Proof.
  intros W. destruct (is_open op) eqn:IO.
  - destruct op; try discriminate. cbn [wfp_op fst length] in W. assert (k = 0) by lia. subst k.
    cbn [hstep]. unfold arr_close. cbn [initialized fresh_mem m_init m_closed andb app lexec].
    rewrite lstep_open, lstep_seek_nil by reflexivity. simpl. right. auto.
  - assert (W' : wf_op op) by (destruct op; try exact W; discriminate).
    destruct (step_fresh i op W') as (I1 & _). rewrite (pspec_fresh op IO).
    destruct I1 as [[I1 N1]|(E1 & E2 & E3)].
    + left. cbn [fst snd]. split; [exact I1|]. split; [exact N1 | lia].
    + right. rewrite E3. auto.
Qed.

Lemma pstep_ok m f s i op : PInv m f s -> wfp_op s op ->
  PInv (r_mem (hstep current bs o i m f op)) (r_file (hstep current bs o i m f op)) (pspec_step s op).
Proof.
  intros [(I & N & Hn)|(-> & -> & ->)] W; [|now apply pstep_fresh].
  destruct s as [P n]. now apply pstep_init.
Qed.

End Store.

(** * Histories *)

Definition wf (bs : nat) (ops : list hop) : Prop := Forall (wf_op bs) ops.

Lemma run_app v bs o a : forall i m f b,
  run v bs o i m f (a ++ b) = let '(m1, f1, i1) := run v bs o i m f a in run v bs o i1 m1 f1 b.
Proof. induction a; intros; simpl; [reflexivity | apply IHa]. Qed.

Lemma run_inv bs o ops : 0 < bs -> forall i m f L, Inv bs m f L -> wf bs ops ->
  forall m' f' i', run current bs o i m f ops = (m', f', i') -> Inv bs m' f' (fold_left spec_step ops L).
Proof.
  intros Hb. induction ops as [|op r IH]; intros i m f L I W m' f' i' E; simpl in *.
  - now inversion E; subst.
  - inversion W; subst. destruct (hstep_ok bs Hb o m f L i op I H1) as (I1 & _). eapply IH; eauto.
Qed.

Fixpoint hist_after (L : list batch) (ops : list hop) : list (list row) :=
  match ops with
  | [] => []
  | op :: r => flat (spec_step L op) :: hist_after (spec_step L op) r
  end.

Lemma run_safe bs o ops : 0 < bs -> forall i m f L H,
  Inv bs m f L -> m_init m = true -> Safe H f -> In (flat L) H -> wf bs ops ->
  forall m' f' i', run current bs o i m f ops = (m', f', i') ->
  m_init m' = true /\ exists H', Safe H' f' /\ In (flat (fold_left spec_step ops L)) H' /\
                                 incl H' (hist_after L ops ++ H).
Proof.
  intros Hb. induction ops as [|op r IH]; intros i m f L H I Hi Sf HL W m' f' i' E; simpl in *.
  - inversion E; subst. split; [exact Hi|]. exists H. split; [exact Sf|]. split; [exact HL|]. apply incl_refl.
  - inversion W; subst.
    destruct (hstep_ok bs Hb o m f L i op I H2) as (I1 & Ef & Sa & _).
    destruct (Sa Hi) as (Hi1 & SA). specialize (SA H Sf HL). apply SafeAll_end in SA. rewrite <- Ef in SA.
    destruct (IH _ _ _ _ _ I1 Hi1 SA (or_introl eq_refl) H3 _ _ _ E) as (Hi' & H' & S' & In' & Inc).
    split; [exact Hi'|]. exists H'. split; [exact S'|]. split; [exact In'|].
    intros c Hc. apply Inc in Hc. simpl. rewrite in_app_iff in Hc |- *. simpl in Hc. tauto.
Qed.

Lemma hist_after_in c ops : forall L, In c (hist_after L ops) ->
  exists t, 1 <= t <= length ops /\ c = flat (fold_left spec_step (firstn t ops) L).
Proof.
  induction ops as [|op r IH]; intros L Hc; simpl in Hc; [contradiction|].
  destruct Hc as [<-|Hc].
  - exists 1. simpl. split; [lia|]. now destruct r.
  - destruct (IH _ Hc) as (t & Ht & ->). exists (S t). simpl. split; [lia | reflexivity].
Qed.

Lemma view_inv bs m f L : Inv bs m f L -> view bs m f = (length L, Some L).
Proof.
  intros [[I N]|(-> & -> & ->)]; [|reflexivity].
  unfold view, initialized. rewrite (ia_init _ _ _ _ I), (ia_open _ _ _ _ I), N. simpl.
  rewrite Bool.orb_true_r, (ia_data _ _ _ _ I). now rewrite (slices_concat bs L (ia_uni _ _ _ _ I)).
Qed.

Lemma Inv_fresh bs : Inv bs fresh_mem empty_file [].
Proof. right. auto. Qed.

Lemma Inv_init bs m f L : Inv bs m f L -> m_init m = true -> InvA bs m f L /\ m_nb m = length L.
Proof. intros [[I N]|(-> & _)] Hi; [auto | discriminate]. Qed.

(** (1) refinement: whatever the history and the buffering, the store reports the in-memory list *)
Theorem refinement bs o ops : 0 < bs -> wf bs ops ->
  forall m f i, start current bs o ops = (m, f, i) -> view bs m f = (length (spec ops), Some (spec ops)).
Proof.
  intros Hb W m f i E. apply view_inv. unfold start in E. exact (run_inv bs o ops Hb _ _ _ _ (Inv_fresh bs) W _ _ _ E).
Qed.

(** (2) after a flush-like operation nothing is pending and the file loads to the content *)
Theorem flush_loads bs o ops op : 0 < bs -> wf bs (ops ++ [op]) -> is_flush op = true ->
  forall m f i, start current bs o (ops ++ [op]) = (m, f, i) -> m_init m = true ->
  f_buf f = [] /\ loads (f_disk f) = Some (flat (spec (ops ++ [op]))).
Proof.
  intros Hb W Fl m f i E Hi. unfold start in E. rewrite run_app in E.
  destruct (run current bs o 1 fresh_mem empty_file ops) as [[m1 f1] i1] eqn:E1.
  apply Forall_app in W. destruct W as [W1 W2]. inversion W2; subst.
  pose proof (run_inv bs o ops Hb _ _ _ _ (Inv_fresh bs) W1 _ _ _ E1) as I1.
  destruct (hstep_ok bs Hb o m1 f1 _ i1 op I1 H1) as (_ & _ & _ & Fc).
  simpl in E. inversion E; subst. destruct (Fc Fl Hi) as (_ & B & LD).
  split; [exact B|]. unfold spec. rewrite fold_left_app. simpl. now rewrite (spec_flush _ _ Fl).
Qed.

(** [Close] as the last operation of a history *)
Theorem close_loads bs o ops : 0 < bs -> wf bs ops ->
  forall m f i, start current bs o ops = (m, f, i) -> m_init m = true ->
  let h := hstep current bs o i m f Close in
  f_buf (r_file h) = [] /\ loads (f_disk (r_file h)) = Some (flat (spec ops)) /\
  forall H, Safe H f -> In (flat (spec ops)) H -> SafeAll o H i (r_lops h) f.
Proof.
  intros Hb W m f i E Hi. unfold start in E.
  pose proof (run_inv bs o ops Hb _ _ _ _ (Inv_fresh bs) W _ _ _ E) as I0.
  destruct (Inv_init _ _ _ _ I0 Hi) as [I N]. fold (spec ops) in *.
  cbn [hstep expand]. unfold arr_close, initialized. rewrite (ia_open _ _ _ _ I), (ia_init _ _ _ _ I). cbn [negb andb].
  destruct (arr_write_header m) as [l m1] eqn:Ew.
  destruct (sync_ok bs o LClose m f _ i l m1 lstep_close I Ew) as (B & P & Hd & D & _ & SA).
  cbn [r_file r_lops]. split; [exact B|]. split; [|exact SA].
  apply loads_exact; auto. rewrite Hd. f_equal. now apply rows_len with bs f.
Qed.

(** (3) closing and reopening, or pickling and unpickling, restores shape and n_batches from the file *)
Theorem reopen_restores bs o ops op : 0 < bs -> wf bs ops -> op = Reopen \/ op = Pickle ->
  forall m f i, start current bs o ops = (m, f, i) -> m_init m = true ->
  let h := hstep current bs o i m f op in
  r_err h = false /\ m_rows (r_mem h) = m_rows m /\ m_nb (r_mem h) = m_nb m /\
  view bs (r_mem h) (r_file h) = view bs m f.
Proof.
  intros Hb W Hop m f i E Hi. unfold start in E.
  pose proof (run_inv bs o ops Hb _ _ _ _ (Inv_fresh bs) W _ _ _ E) as I0.
  assert (Wop : wf_op bs op) by (destruct Hop; subst; exact I).
  assert (Fl : is_flush op = true) by (destruct Hop; subst; reflexivity).
  destruct (hstep_ok bs Hb o m f _ i op I0 Wop) as (I1 & _ & Sa & Fc).
  destruct (Sa Hi) as (Hi1 & _). destruct (Fc Fl Hi1) as (Er & _).
  rewrite (spec_flush _ _ Fl) in I1.
  destruct (Inv_init _ _ _ _ I0 Hi) as [Ia Na]. destruct (Inv_init _ _ _ _ I1 Hi1) as [Ib Nb].
  cbv zeta. split; [exact Er|]. split; [|split].
  - now rewrite (ia_rows _ _ _ _ Ia), (ia_rows _ _ _ _ Ib).
  - now rewrite Na, Nb.
  - now rewrite (view_inv _ _ _ _ I0), (view_inv _ _ _ _ I1).
Qed.

(** (4) crash safety *)
Theorem crash_safe bs o pre fl mid op j :
  0 < bs -> wf bs (pre ++ fl :: mid ++ [op]) -> is_flush fl = true ->
  (forall m f i, start current bs o (pre ++ [fl]) = (m, f, i) -> m_init m = true) ->
  exists t, t <= length mid + (if j =? 0 then 0 else 1) /\
    loads (crash_disk current bs o (pre ++ fl :: mid) op j)
    = Some (flat (spec (pre ++ fl :: firstn t (mid ++ [op])))).
Proof.
  intros Hb W Fl Hinit.
  apply Forall_app in W. destruct W as [W1 W2]. inversion W2 as [|? ? Wfl W3]; subst.
  apply Forall_app in W3. destruct W3 as [Wmid Wop]. inversion Wop as [|? ? Wop1 _]; subst.
  unfold crash_disk, start in *. rewrite run_app in *.
  destruct (run current bs o 1 fresh_mem empty_file pre) as [[m1 f1] i1] eqn:E1.
  pose proof (run_inv bs o pre Hb _ _ _ _ (Inv_fresh bs) W1 _ _ _ E1) as I1. fold (spec pre) in I1.
  simpl in Hinit. simpl run.
  destruct (hstep_ok bs Hb o m1 f1 _ i1 fl I1 Wfl) as (I2 & _ & _ & Fc).
  set (h2 := hstep current bs o i1 m1 f1 fl) in *.
  specialize (Hinit _ _ _ eq_refl). destruct (Fc Fl Hinit) as (_ & B2 & LD2).
  rewrite (spec_flush _ _ Fl) in I2.
  assert (S2 : Safe [flat (spec pre)] (r_file h2)).
  { apply Safe_nobuf; [exact B2|]. exists (flat (spec pre)). split; [exact LD2 | now left]. }
  destruct (run current bs o (i1 + length (r_lops h2)) (r_mem h2) (r_file h2) mid) as [[m3 f3] i3] eqn:E3.
  pose proof (run_inv bs o mid Hb _ _ _ _ I2 Wmid _ _ _ E3) as I3.
  destruct (run_safe bs o mid Hb _ _ _ _ _ I2 Hinit S2 (or_introl eq_refl) Wmid _ _ _ E3)
    as (Hi3 & H3 & S3 & In3 & Inc3).
  destruct (hstep_ok bs Hb o m3 f3 _ i3 op I3 Wop1) as (_ & _ & Sa & _).
  destruct (Sa Hi3) as (_ & SA). specialize (SA H3 S3 In3).
  set (L3 := fold_left spec_step mid (spec pre)) in *.
  assert (SPEC : forall t, t <= length mid ->
            spec (pre ++ fl :: firstn t (mid ++ [op])) = fold_left spec_step (firstn t mid) (spec pre)).
  { intros t Ht. unfold spec. rewrite fold_left_app. simpl. fold (spec pre). rewrite (spec_flush _ _ Fl).
    now rewrite firstn_app_le by lia. }
  assert (FROM_H3 : forall c, In c H3 -> exists t, t <= length mid /\
            Some c = Some (flat (spec (pre ++ fl :: firstn t (mid ++ [op]))))).
  { intros c Hc. apply Inc3 in Hc. apply in_app_iff in Hc. destruct Hc as [Hc|[<-|[]]].
    - destruct (hist_after_in _ _ _ Hc) as (t & Ht & ->). exists t. split; [lia|]. rewrite SPEC by lia. reflexivity.
    - exists 0. split; [lia|]. rewrite SPEC by lia. reflexivity. }
  destruct j as [|j].
  - simpl firstn. simpl lexec. destruct (Safe_disk _ _ S3) as (c & Lc & Hc).
    destruct (FROM_H3 c Hc) as (t & Ht & Et). exists t. simpl. split; [lia|]. now rewrite Lc.
  - destruct (Safe_disk _ _ (SA (S j))) as (c & Lc & Hc). rewrite Lc. destruct Hc as [<-|Hc].
    + exists (length mid + 1). split; [simpl; lia|]. f_equal. f_equal.
      rewrite firstn_all2 by (rewrite app_length; simpl; lia).
      unfold spec. rewrite fold_left_app. simpl. rewrite fold_left_app. simpl. fold (spec pre).
      now rewrite (spec_flush _ _ Fl).
    + destruct (FROM_H3 c Hc) as (t & Ht & Et). exists t. split; [simpl; lia | exact Et].
Qed.

(** (4b) queries.  [Read k] ([store[k]]) and [Query] ([len(store)], [k in store], [len(store.array)])
    anywhere in a history do not raise on an initialised store, leave what the store reports and
    the file as the process sees it unchanged; [Query] leaves file object and store object
    untouched; the only effect of [Read] is the creation of the memmap, which hands everything
    pending to the OS (nothing stays in the buffer) -- that is why it matters for the order in
    which header and data become durable, and why (4) quantifies over histories containing reads *)
Definition is_query (op : hop) : bool := match op with Read _ | Query => true | _ => false end.

Theorem queries_preserve bs o ops q : 0 < bs -> wf bs ops -> is_query q = true ->
  forall m f i, start current bs o ops = (m, f, i) ->
  let h := hstep current bs o i m f q in
  view bs (r_mem h) (r_file h) = view bs m f /\ full (r_file h) = full f /\
  (m_init m = true -> r_err h = false) /\
  (q = Query -> r_file h = f /\ r_mem h = m /\ r_lops h = []) /\
  (forall k, q = Read k -> m_init m = true -> m_mmap (r_mem h) = true /\ (m_mmap m = false -> f_buf (r_file h) = [])).
Proof.
  intros Hb W Q m f i E. unfold start in E.
  pose proof (run_inv bs o ops Hb _ _ _ _ (Inv_fresh bs) W _ _ _ E) as I0.
  assert (Wq : wf_op bs q) by (destruct q; try discriminate; exact I).
  destruct (hstep_ok bs Hb o m f _ i q I0 Wq) as (I1 & _ & _ & _).
  assert (Sq : spec_step (fold_left spec_step ops []) q = fold_left spec_step ops []) by (destruct q; try discriminate; reflexivity).
  rewrite Sq in I1. cbv zeta.
  split; [now rewrite (view_inv _ _ _ _ I0), (view_inv _ _ _ _ I1)|].
  destruct q as [| | | | | | | |k|]; try discriminate.
  - (* Read *)
    cbn [hstep expand]. unfold st_read, arr_memmap, initialized.
    destruct (m_init m) eqn:Hi; cbn [andb negb].
    + destruct I0 as [[Ia Na]|(-> & _)]; [|discriminate]. rewrite (ia_open _ _ _ _ Ia). cbn [negb].
      destruct (m_mmap m) eqn:MM; cbn [r_file r_lops r_err r_mem lexec].
      * split; [reflexivity|]. split; [reflexivity|]. split; [discriminate|]. intros k' _ _. split; [exact MM | discriminate].
      * rewrite lstep_seekend. split; [apply full_flush_all|]. split; [reflexivity|]. split; [discriminate|].
        intros k' _ _. split; reflexivity.
    + cbn [err r_file r_lops r_err r_mem lexec]. split; [reflexivity|]. split; [discriminate|]. split; [discriminate|].
      intros k' _ Hf. discriminate.
  - (* Query *)
    cbn [hstep expand r_file r_lops r_err r_mem lexec]. split; [reflexivity|]. split; [reflexivity|].
    split; [auto|]. intros k' Hk. discriminate.
Qed.

(** * Prefix stores (histories with [Open k]) *)

Fixpoint wfp (bs : nat) (s : pstate) (ops : list hop) : Prop :=
  match ops with
  | [] => True
  | op :: r => wfp_op bs s op /\ wfp bs (pspec_step s op) r
  end.

Lemma run_pinv bs o ops : 0 < bs -> forall i m f s, PInv bs m f s -> wfp bs s ops ->
  forall m' f' i', run current bs o i m f ops = (m', f', i') -> PInv bs m' f' (fold_left pspec_step ops s).
Proof.
  intros Hb. induction ops as [|op r IH]; intros i m f s I W m' f' i' E; simpl in *.
  - now inversion E; subst.
  - destruct W as [W1 W2]. pose proof (pstep_ok bs Hb o m f s i op I W1) as I1. eapply IH; eauto.
Qed.

Lemma view_pinv bs m f s : 0 < bs -> PInv bs m f s -> view bs m f = (snd s, Some (visible s)).
Proof.
  intros Hb [(I & N & Hn)|(-> & -> & ->)]; [|reflexivity].
  unfold view, initialized, visible. rewrite (ia_init _ _ _ _ I), (ia_open _ _ _ _ I), N. simpl.
  rewrite Bool.orb_true_r, (ia_data _ _ _ _ I). now rewrite (slices_prefix bs Hb _ _ (ia_uni _ _ _ _ I) Hn).
Qed.

(** (5) refinement for histories with [Open k]: the store reports the first [n_batches] batches of
    the specification state, whatever the buffering *)
Theorem prefix_refinement bs o ops : 0 < bs -> wfp bs ([], 0) ops ->
  forall m f i, start current bs o ops = (m, f, i) ->
  view bs m f = (snd (pspec ops), Some (visible (pspec ops))).
Proof.
  intros Hb W m f i E. apply view_pinv; [exact Hb|]. unfold start in E.
  apply (run_pinv bs o ops Hb _ _ _ _ (or_intror (conj eq_refl (conj eq_refl eq_refl))) W _ _ _ E).
Qed.

Lemma firstn_replace_lt {A} n i (x : A) L : i < n -> firstn n (replace i x L) = replace i x (firstn n L).
Proof.
  revert n i. induction L as [|y r IH]; intros [|n] [|i] H; simpl; try reflexivity; try lia.
  f_equal. apply IH. lia.
Qed.

Lemma firstn_replace_at {A} n (x : A) L : n < length L -> firstn (S n) (replace n x L) = firstn n L ++ [x].
Proof.
  revert n. induction L as [|y r IH]; intros [|n] H; simpl in *; try lia; [reflexivity|].
  f_equal. apply IH. lia.
Qed.

(** between two [Reopen]/[Open] the visible batches evolve as the plain list of batches: in
    particular a write at index [n_batches] of a prefix store is an append to the list, a
    delete-last removes its last element, and the other batches stay *)
Lemma visible_step s op : snd s <= length (fst s) -> is_open op = false -> op <> Reopen ->
  visible (pspec_step s op) = spec_step (visible s) op.
Proof.
  destruct s as [P n]. cbn [fst snd]. intros Hn IO NR. unfold visible.
  assert (LV : length (firstn n P) = n) by (apply firstn_length_le; lia).
  destruct op as [k g b| k | | | | | | k | k |]; cbn [pspec_step spec_step fst snd]; try reflexivity; try discriminate; try congruence.
  - rewrite LV. destruct (n <? k) eqn:K1.
    + apply Nat.ltb_lt in K1. cbn [fst snd].
      replace (k =? n) with false by (symmetry; apply Nat.eqb_neq; lia).
      replace (k <? n) with false by (symmetry; apply Nat.ltb_ge; lia). reflexivity.
    + apply Nat.ltb_ge in K1. destruct (k =? length P) eqn:K2.
      * apply Nat.eqb_eq in K2. assert (Ek : k = n) by lia.
        replace (k =? n) with true by (symmetry; apply Nat.eqb_eq; lia). cbn [fst snd].
        rewrite firstn_all2 by (rewrite app_length; simpl; lia). now rewrite firstn_all2 by lia.
      * apply Nat.eqb_neq in K2. destruct (k =? n) eqn:K3; cbn [fst snd].
        -- apply Nat.eqb_eq in K3. subst k. apply firstn_replace_at. lia.
        -- apply Nat.eqb_neq in K3. replace (k <? n) with true by (symmetry; apply Nat.ltb_lt; lia).
           apply firstn_replace_lt. lia.
  - rewrite LV. destruct ((0 <? n) && (k =? n - 1)) eqn:C; cbn [fst snd]; [|reflexivity].
    apply andb_prop in C. destruct C as [C1 C2]. apply Nat.ltb_lt in C1. apply Nat.eqb_eq in C2.
    assert (En : n = S k) by lia. subst n. rewrite firstn_firstn, Nat.min_id. symmetry. apply removelast_firstn. lia.
Qed.

Lemma pspec_step_le bs s op : snd s <= length (fst s) -> wfp_op bs s op ->
  snd (pspec_step s op) <= length (fst (pspec_step s op)).
Proof.
  destruct s as [P n]. cbn [fst snd]. intros Hn W.
  destruct op as [k g b| k | | | | | | k | k |]; cbn [pspec_step wfp_op fst snd] in *; try lia.
  - destruct (n <? k) eqn:K1; cbn [fst snd]; [lia|]. apply Nat.ltb_ge in K1.
    destruct (k =? length P) eqn:K2; cbn [fst snd].
    + rewrite app_length. simpl. lia.
    + apply Nat.eqb_neq in K2. rewrite length_replace. destruct (k =? n) eqn:K3; [apply Nat.eqb_eq in K3|]; lia.
  - destruct ((0 <? n) && (k =? n - 1)) eqn:C; cbn [fst snd]; [|lia].
    apply andb_prop in C. destruct C as [C1 C2]. apply Nat.ltb_lt in C1. apply Nat.eqb_eq in C2.
    rewrite firstn_length_le; lia.
Qed.

(** without [Open] the pair specification is the list specification with nothing hidden *)
Lemma pspec_full L op : is_open op = false ->
  pspec_step (L, length L) op = (spec_step L op, length (spec_step L op)).
Proof.
  intros IO. destruct op as [k g b| k | | | | | | k | k |]; cbn [pspec_step spec_step]; try reflexivity; try discriminate.
  - destruct (length L <? k) eqn:K1.
    + apply Nat.ltb_lt in K1. replace (k =? length L) with false by (symmetry; apply Nat.eqb_neq; lia).
      replace (k <? length L) with false by (symmetry; apply Nat.ltb_ge; lia). reflexivity.
    + apply Nat.ltb_ge in K1. destruct (k =? length L) eqn:K2.
      * rewrite app_length. simpl. f_equal. lia.
      * apply Nat.eqb_neq in K2. replace (k <? length L) with true by (symmetry; apply Nat.ltb_lt; lia).
        now rewrite length_replace.
  - destruct ((0 <? length L) && (k =? length L - 1)) eqn:C; [|reflexivity].
    apply andb_prop in C. destruct C as [C1 C2]. apply Nat.ltb_lt in C1. apply Nat.eqb_eq in C2.
    rewrite length_removelast, <- C2. f_equal.
    rewrite <- (@removelast_firstn _ k L) by lia. now rewrite firstn_all2 by lia.
Qed.

Lemma pspec_no_open ops : forall L, has_open ops = false ->
  fold_left pspec_step ops (L, length L) = (fold_left spec_step ops L, length (fold_left spec_step ops L)).
Proof.
  unfold has_open. induction ops as [|op r IH]; intros L H; [reflexivity|].
  cbn [existsb] in H. apply Bool.orb_false_iff in H. destruct H as [H1 H2].
  cbn [fold_left]. rewrite (pspec_full L op H1). now apply IH.
Qed.

Lemma wf_op_no_open bs op : wf_op bs op -> is_open op = false.
Proof. destruct op; simpl; auto; contradiction. Qed.

Lemma wf_no_open bs ops : wf bs ops -> has_open ops = false.
Proof.
  unfold has_open. induction 1 as [|op r W _ IH]; [reflexivity|]. cbn [existsb]. now rewrite (wf_op_no_open bs op W), IH.
Qed.

Lemma wf_op_wfp bs s op : wf_op bs op -> wfp_op bs s op.
Proof. destruct op; simpl; auto; contradiction. Qed.

Lemma wf_wfp bs ops : wf bs ops -> forall s, wfp bs s ops.
Proof. induction 1 as [|op r W _ IH]; intros s; simpl; [exact I|]. split; [now apply wf_op_wfp | apply IH]. Qed.

Lemma wfp_app bs a : forall s b, wfp bs s a -> wfp bs (fold_left pspec_step a s) b -> wfp bs s (a ++ b).
Proof. induction a as [|op r IH]; intros s b Wa Wb; simpl in *; [exact Wb|]. destruct Wa. split; auto. Qed.

Lemma visible_fold bs post : forall s, snd s <= length (fst s) ->
  Forall (fun op => wf_op bs op /\ op <> Reopen) post ->
  visible (fold_left pspec_step post s) = fold_left spec_step post (visible s) /\
  snd (fold_left pspec_step post s) = length (fold_left spec_step post (visible s)).
Proof.
  induction post as [|op r IH]; intros s Hs W; simpl.
  - split; [reflexivity|]. unfold visible. now rewrite firstn_length_le.
  - inversion W as [|? ? [W1 W2] W3]; subst.
    pose proof (pspec_step_le bs s op Hs (wf_op_wfp bs s op W1)) as Hs'.
    destruct (IH _ Hs' W3) as [E1 E2].
    now rewrite E1, E2, (visible_step s op Hs (wf_op_no_open bs op W1) W2).
Qed.

(** (6) the statement about prefix stores in terms of the plain list of batches: after any
    well-formed history [pre], a store opened over the file with [n_batches = k] (any [k] up to the
    number of batches written) reports, after any further operations [post] (appends = writes at
    index [n_batches], overwrites, delete-last, clear, flush, pickle, reads), exactly what the
    in-memory list started from the first [k] batches reports — under every buffer oracle *)
Theorem prefix_store_refines_list bs o pre k post :
  0 < bs -> wf bs pre -> k <= length (spec pre) ->
  Forall (fun op => wf_op bs op /\ op <> Reopen) post ->
  forall m f i, start current bs o (pre ++ Open k :: post) = (m, f, i) ->
  view bs m f = (length (fold_left spec_step post (firstn k (spec pre))),
                 Some (fold_left spec_step post (firstn k (spec pre)))).
Proof.
  intros Hb Wpre Hk Wpost m f i E.
  assert (Ppre : pspec pre = (spec pre, length (spec pre))).
  { unfold pspec, spec. apply (pspec_no_open pre []). now apply wf_no_open with bs. }
  assert (W : wfp bs ([], 0) (pre ++ Open k :: post)).
  { apply wfp_app; [now apply wf_wfp|]. fold (pspec pre). rewrite Ppre. simpl. split; [exact Hk|].
    apply wf_wfp. eapply Forall_impl; [|exact Wpost]. now intros op [W1 _]. }
  rewrite (prefix_refinement bs o _ Hb W m f i E).
  unfold pspec. rewrite fold_left_app. fold (pspec pre). rewrite Ppre. simpl fold_left.
  destruct (visible_fold bs post (spec pre, k) Hk Wpost) as [E1 E2].
  unfold visible at 2 in E1. unfold visible in E2. cbn [fst snd] in E1, E2. now rewrite E1, E2.
Qed.

(** * Soundness of the decidable crash clause used on the implementation's outputs *)

Lemma eqb_rows_true a b : eqb_rows a b = true -> a = b.
Proof. unfold eqb_rows. destruct (list_eq_dec (list_eq_dec N.eq_dec) a b); [auto | discriminate]. Qed.

Lemma ok_crash1_sound ops errs cont tg k ob t d f :
  ok_crash1 ops errs cont tg (k, ob) = true ->
  last_exec (k - 1) tg None = Some (t, d) ->
  last_flush ops errs t d 0 false None = Some f ->
  exists c l, ob = Some c /\ In l (firstn (t - f + 1) (skipn (S f) cont)) /\ c = flat l.
Proof.
  unfold ok_crash1. cbn [fst snd]. intros Hok E1 E2. rewrite E1, E2 in Hok. destruct ob as [c|]; [|discriminate].
  apply existsb_exists in Hok. destruct Hok as (l & Hl & E). exists c, l. split; [reflexivity|].
  split; [exact Hl | now apply eqb_rows_true].
Qed.

(** * Memory layouts of the batches handed in (Store/Layout.v, proofs of C05 reused)

    The array handed to [store[i] = a] is any strided window into a buffer.  What the model writes
    and what the specification holds is [nd_rows a], the logical content by rows. *)
From Coq Require Import ZArith.
From Elfi Require Import Store.Layout Proofs.C05_Layout.

Lemma nd_rows_length a n rs : nd_shape a = n :: rs -> length (nd_rows a) = n.
Proof. intros E. unfold nd_rows. rewrite E. now rewrite map_length, seq_length. Qed.

(** [array.tobytes('C')], regrouped by rows *)
Lemma nd_rows_concat a n rs : nd_shape a = n :: rs -> concat (nd_rows a) = map code (tobytes_C a).
Proof.
  intros E. unfold nd_rows, tobytes_C. rewrite E. cbn [c_indices].
  rewrite flat_map_concat_map, map_map, concat_map, map_map.
  f_equal. apply map_ext. intros r. now rewrite map_map.
Qed.

Lemma nth_error_seq0 n r : r < n -> nth_error (seq 0 n) r = Some r.
Proof.
  intros H. rewrite (nth_error_nth' (seq 0 n) 0) by now rewrite seq_length.
  now rewrite seq_nth.
Qed.

(** element [(r, idx)] of the array is cell [lin rs idx] of row [r] *)
Lemma nd_rows_cell a n rs r idx : nd_shape a = n :: rs -> r < n -> valid idx rs ->
  exists row, nth_error (nd_rows a) r = Some row /\ nth_error row (lin rs idx) = Some (code (elem a (r :: idx))).
Proof.
  intros E Hr Hv. unfold nd_rows. rewrite E.
  eexists. split.
  - apply map_nth_error. now apply nth_error_seq0.
  - apply (map_nth_error (fun idx0 => code (elem a (r :: idx0)))). now apply c_indices_nth.
Qed.

(** [NpyArray.append] on an open array issues one data write, behind the rows already there, of
    the rows [nd_rows a]: flattened they are [tobytes('C')] of the array, and the element at every
    valid multi-index sits at the row-major position of that index -- whatever the strides, the
    offset and the buffer are. *)
Theorem append_writes_logical_order m a n rs : nd_shape a = n :: rs -> m_closed m = false ->
  (exists l0 r, arr_append m true (nd_rows a) = (l0 ++ [LSeek; LWriteData r (nd_rows a)], upd (if m_init m then m else
       {| m_init := true; m_closed := false; m_rows := 0; m_pend := None; m_mmap := m_mmap m; m_nb := m_nb m |}) (r + n) (Some (r + n)) false, false)) /\
  concat (nd_rows a) = map code (tobytes_C a) /\
  forall idx, valid idx (nd_shape a) ->
    nth_error (concat (nd_rows a)) (lin (nd_shape a) idx) = Some (code (elem a idx)).
Proof.
  intros E Hc. split; [|split].
  - unfold arr_append. rewrite Hc. rewrite (nd_rows_length a n rs E).
    destruct (m_init m) eqn:Ei; cbn [andb negb].
    + exists [], (m_rows m). reflexivity.
    + exists [LSeek; LWritePrefix; LSeek; LWriteHeader 0], 0. reflexivity.
  - now apply nd_rows_concat with n rs.
  - intros idx Hv. rewrite (nd_rows_concat a n rs E). apply map_nth_error. now apply tobytes_C_at.
Qed.

(** two arrays with the same shape and the same element at every valid index have the same
    logical content, however each of them is laid out *)
Definition same_content (a b : ndarray) : Prop :=
  nd_shape a = nd_shape b /\ forall idx, valid idx (nd_shape a) -> elem a idx = elem b idx.

Lemma same_content_rows a b : same_content a b -> nd_rows a = nd_rows b.
Proof.
  intros [Es He]. unfold nd_rows. rewrite <- Es. destruct (nd_shape a) as [|n rs] eqn:E; [reflexivity|].
  apply map_ext_in. intros r Hr. apply map_ext_in. intros idx Hi. f_equal. apply He.
  constructor; [apply in_seq in Hr; lia | now apply c_indices_valid].
Qed.

Inductive same_iop : iop -> iop -> Prop :=
| same_arr i g a b : same_content a b -> same_iop (IArr i g a) (IArr i g b)
| same_op op : same_iop (IOp op) (IOp op).

Theorem layout_irrelevant xs ys : Forall2 same_iop xs ys -> map lower xs = map lower ys.
Proof.
  induction 1 as [|x y xs ys H _ IH]; [reflexivity|]. cbn [map]. rewrite IH. f_equal.
  destruct H as [i g a b H|op]; [|reflexivity]. cbn [lower]. now rewrite (same_content_rows a b H).
Qed.

(** well-formed histories as the caller issues them: every array has [bs] rows *)
Definition iwf_op (bs : nat) (x : iop) : Prop :=
  match x with
  | IArr _ g a => g = true /\ exists rs, nd_shape a = bs :: rs
  | IOp op => wf_op bs op
  end.
Definition iwf (bs : nat) (ins : list iop) : Prop := Forall (iwf_op bs) ins.

Lemma iwf_wf bs ins : iwf bs ins -> wf bs (map lower ins).
Proof.
  induction 1 as [|x r H _ IH]; [constructor|]. cbn [map]. constructor; [|exact IH].
  destruct x as [i g a|op]; [|exact H]. destruct H as (Hg & rs & E). cbn [lower]. split; [exact Hg|].
  now apply nd_rows_length with rs.
Qed.

Theorem layout_refinement bs o ins : 0 < bs -> iwf bs ins ->
  forall m f i, start current bs o (map lower ins) = (m, f, i) ->
    view bs m f = (length (spec (map lower ins)), Some (spec (map lower ins))).
Proof. intros Hb W. apply refinement; [exact Hb | now apply iwf_wf]. Qed.

(** the specification after [store[i] = a] has the logical content of [a] at place [i] *)
Lemma nth_error_replace_same {A} i (x : A) L : i < length L -> nth_error (replace i x L) i = Some x.
Proof. revert i; induction L as [|y L IH]; intros [|i] H; simpl in *; try lia; [reflexivity | apply IH; lia]. Qed.

Lemma spec_step_set_nth l i g b : i <= length l -> nth_error (spec_step l (Set_ i g b)) i = Some b.
Proof.
  intros H. cbn [spec_step]. destruct (i =? length l) eqn:E1.
  - apply Nat.eqb_eq in E1. subst. rewrite nth_error_app2 by lia. now rewrite Nat.sub_diag.
  - apply Nat.eqb_neq in E1. assert (H2 : i < length l) by lia.
    apply Nat.ltb_lt in H2 as H3. rewrite H3. now apply nth_error_replace_same.
Qed.

Lemma eqb_batches_true a b : eqb_batches a b = true -> a = b.
Proof. unfold eqb_batches. destruct (list_eq_dec (list_eq_dec (list_eq_dec N.eq_dec)) a b); [auto | discriminate]. Qed.

(** soundness of the decidable report clause with respect to layouts: when [ok_reports] accepts the
    observation made right after [store[i] = a] (which did not raise, [i] at most the number of
    batches), the store reports at index [i] a batch whose element [(r, idx)] is the element
    [a[r, idx]] of the array that was handed in, for every valid index *)
Theorem ok_reports_logical l i g a ops ob obs n rs :
  ok_reports l (map lower (IArr i g a :: ops)) (ob :: obs) = true -> o_err ob = false -> i <= length l ->
  nd_shape a = n :: rs ->
  exists bt b, o_batches ob = Some bt /\ nth_error bt i = Some b /\
    forall r idx, r < n -> valid idx rs ->
      exists row, nth_error b r = Some row /\ nth_error row (lin rs idx) = Some (code (elem a (r :: idx))).
Proof.
  intros H He Hi E. cbn [map lower ok_reports] in H. rewrite He in H.
  apply andb_prop in H. destruct H as [H _]. apply andb_prop in H. destruct H as [H _].
  apply andb_prop in H. destruct H as [_ H].
  destruct (o_batches ob) as [bt|]; [|discriminate]. apply eqb_batches_true in H. subst bt.
  exists (spec_step l (Set_ i g (nd_rows a))), (nd_rows a). split; [reflexivity|].
  split; [now apply spec_step_set_nth|]. intros r idx Hr Hv. now apply nd_rows_cell with n.
Qed.
