(** Reuse at the level of the user's model: supplying values that equal the pool-free meaning of
    their nodes (what a pool filled by a seeded run holds) changes the meaning of no node, and hence -
    with the end-to-end theorem of C03 - nothing [generate] returns. *)
From Coq Require Import List String ZArith Arith Bool Lia.
From Elfi Require Import Graph.Net Graph.Denote Proofs.C03_Exec Proofs.C03_Compile Proofs.C03_EndToEnd Proofs.C03_Twins.
Import ListNotations.

Lemma all_some_map_imp {A B} (f g : A -> option B) : forall l vs,
  (forall x, In x l -> forall y, f x = Some y -> g x = Some y) ->
  all_some (map f l) = Some vs -> all_some (map g l) = Some vs.
Proof.
  induction l as [|x r IH]; intros vs H Hs; simpl in *; [exact Hs|].
  destruct (f x) as [y|] eqn:Ef; [|discriminate].
  rewrite (H x (or_introl eq_refl) y Ef).
  destruct (all_some (map f r)) as [r'|] eqn:Er; [|discriminate].
  rewrite (IH r' (fun x0 Hx0 => H x0 (or_intror Hx0)) eq_refl). exact Hs.
Qed.

Section Supplied.
  Variables (src : snet) (W W' : list (name * value)).

  (** [W'] answers like [W] wherever [W] answers, and where only [W'] answers it gives the value the
      node has under [W] (for plain node names; twin names are not keys of [W']) *)
  Hypothesis Hext : forall k v, lookup k W = Some v -> lookup k W' = Some v.
  Hypothesis Hnew : forall k w, lookup k W = None -> lookup k W' = Some w ->
                    exists f, den f src W false k = Some w.
  Hypothesis Htwin : forall n, has n (s_nodes src) = true ->
                     lookup (observed_name n) W = None -> lookup (observed_name n) W' = None.

  (** more fuel never changes a meaning *)
  Lemma den_mono : forall f obs n v, den f src W obs n = Some v -> den (S f) src W obs n = Some v.
  Proof.
    induction f as [|f IH]; intros obs n v H; [discriminate|].
    cbn [den] in H. remember (S f) as f1 eqn:Ef1. cbn [den]. subst f1.
    destruct (lookup (if obs then observed_name n else n) W) as [w|]; [exact H|].
    destruct (sstate_of src n) as [st|]; [|discriminate].
    destruct obs.
    - destruct (s_observable st).
      + destruct (lookup n (s_observed src)); [exact H|].
        destruct (s_stochastic st); [exact H|].
        destruct (all_some (map _ (preds (s_edges src) n))) as [vs|] eqn:E; [|discriminate].
        erewrite all_some_map_imp; [exact H | | exact E].
        intros x _ y. cbv beta. destruct (flag src s_observable (fst x)); intros Hy; now apply IH.
      + destruct (s_uses_observed st); [|discriminate].
        destruct (s_stochastic st); [exact H|].
        destruct (all_some (map _ (preds (s_edges src) n))) as [vs|] eqn:E; [|discriminate].
        erewrite all_some_map_imp; [exact H | | exact E].
        intros x _ y. cbv beta. destruct (flag src s_observable (fst x)); intros Hy; now apply IH.
    - destruct (s_output st); [exact H|].
      destruct (all_some (map _ (preds (s_edges src) n))) as [vs|] eqn:E; [|discriminate].
      erewrite all_some_map_imp; [| | exact E].
      2:{ intros x _ y Hy. now apply IH. }
      destruct (s_uses_observed st && negb (s_observable st)); [|exact H].
      destruct (den f src W true n) as [ov|] eqn:Eo; [|discriminate].
      now rewrite (IH true n ov Eo).
  Qed.

  Lemma den_mono_le f f' obs n v : f <= f' -> den f src W obs n = Some v -> den f' src W obs n = Some v.
  Proof. intros Hle. induction Hle as [|m Hm IHm]; intros Hd; [exact Hd|]. apply den_mono. auto. Qed.

  Lemma den_fuel_agree f f' obs n v v' :
    den f src W obs n = Some v -> den f' src W obs n = Some v' -> v = v'.
  Proof.
    intros H H'. apply (den_mono_le f (Nat.max f f')) in H; [|lia].
    apply (den_mono_le f' (Nat.max f f')) in H'; [|lia]. congruence.
  Qed.

  (** supplying more values that equal the meanings under [W] changes no meaning *)
  Theorem den_supplied : forall f obs n v, den f src W obs n = Some v -> den f src W' obs n = Some v.
  Proof.
    induction f as [|f IH]; intros obs n v H; [discriminate|].
    pose proof H as Hfull.
    cbn [den] in H. cbn [den].
    destruct (lookup (if obs then observed_name n else n) W) as [w|] eqn:Ew.
    - rewrite (Hext _ _ Ew). exact H.
    - destruct (sstate_of src n) as [st|] eqn:Es; [|discriminate].
      assert (Hhas : has n (s_nodes src) = true) by (unfold has; unfold sstate_of in Es; now rewrite Es).
      destruct (lookup (if obs then observed_name n else n) W') as [w'|] eqn:Ew'.
      + destruct obs; [rewrite (Htwin n Hhas Ew) in Ew'; discriminate|].
        destruct (Hnew n w' Ew Ew') as [f0 Hf0].
        f_equal. symmetry. exact (den_fuel_agree _ _ _ _ _ _ Hfull Hf0).
      + destruct obs.
        * destruct (s_observable st).
          -- destruct (lookup n (s_observed src)); [exact H|].
             destruct (s_stochastic st); [exact H|].
             destruct (all_some (map _ (preds (s_edges src) n))) as [vs|] eqn:E; [|discriminate].
             erewrite all_some_map_imp; [exact H | | exact E].
             intros x _ y. cbv beta. destruct (flag src s_observable (fst x)); intros Hy; now apply IH.
          -- destruct (s_uses_observed st); [|discriminate].
             destruct (s_stochastic st); [exact H|].
             destruct (all_some (map _ (preds (s_edges src) n))) as [vs|] eqn:E; [|discriminate].
             erewrite all_some_map_imp; [exact H | | exact E].
             intros x _ y. cbv beta. destruct (flag src s_observable (fst x)); intros Hy; now apply IH.
        * destruct (s_output st); [exact H|].
          destruct (all_some (map _ (preds (s_edges src) n))) as [vs|] eqn:E; [|discriminate].
          erewrite all_some_map_imp; [| | exact E].
          2:{ intros x _ y Hy. now apply IH. }
          destruct (s_uses_observed st && negb (s_observable st)); [|exact H].
          destruct (den f src W true n) as [ov|] eqn:Eo; [|discriminate].
          now rewrite (IH true n ov Eo).
  Qed.
End Supplied.

Lemma den_name_supplied src W W' o v :
  (forall k v, lookup k W = Some v -> lookup k W' = Some v) ->
  (forall k w, lookup k W = None -> lookup k W' = Some w -> exists f, den f src W false k = Some w) ->
  (forall n, has n (s_nodes src) = true -> lookup (observed_name n) W = None -> lookup (observed_name n) W' = None) ->
  den_name src W o = Some v -> den_name src W' o = Some v.
Proof.
  intros H1 H2 H3. unfold den_name. destruct (sstate_of src o).
  - apply den_supplied; assumption.
  - destruct (find _ (s_nodes src)) as [[x st]|]; [|discriminate]. apply den_supplied; assumption.
Qed.

(** what a pool holds after seeded runs: values of source nodes equal to their pool-free meaning,
    and no entry named like an observed twin *)
Definition pool_consistent (src : snet) (P : list (name * value)) : Prop :=
  (forall k w, lookup k P = Some w -> has k (s_nodes src) = true /\ den_name src [] k = Some w)
  /\ (forall n, has n (s_nodes src) = true -> lookup (observed_name n) P = None).

(** End to end: whatever [generate] returns with such a pool supplied is the pool-free meaning of the
    requested node - reuse changes no result, whatever the graph (twins included), the stored set,
    the requested outputs. *)
Theorem generate_with_pool_is_pool_free src outs P out log :
  wfsrc src -> NoDup (map fst P) -> (forall k, In k (map fst P) -> ~ In k inames) ->
  pool_consistent src P ->
  generate src outs P = Ok (out, log) ->
  forall o v, In (o, v) out ->
    (has o (s_nodes src) = true
     \/ exists x st, lookup x (s_nodes src) = Some st /\ o = observed_name x
                     /\ (s_observable st = true \/ s_uses_observed st = true)) ->
    forall v0, den_name src [] o = Some v0 -> v = v0.
Proof.
  intros Hwf Hnd Hin [Hc Htw] Hg o v Ho Hshape v0 H0.
  pose proof (generate_sound src outs P out log Hwf Hnd Hin Hg o v Ho Hshape) as Hv.
  assert (H0' : den_name src P o = Some v0).
  { apply (den_name_supplied src [] P o v0); [discriminate | | intros n Hn _; now apply Htw | exact H0].
    intros k w _ Hk. destruct (Hc k w Hk) as [Hhas Hden].
    unfold den_name, sstate_of in Hden. apply has_lookup in Hhas. destruct Hhas as [st Hst].
    rewrite Hst in Hden. eauto. }
  congruence.
Qed.

(** ... and so a run with the pool and the pool-free run return the same values *)
Corollary generate_with_pool_equals_fresh src outs P out log out0 log0 :
  wfsrc src -> NoDup (map fst P) -> (forall k, In k (map fst P) -> ~ In k inames) ->
  pool_consistent src P ->
  generate src outs P = Ok (out, log) -> generate src outs [] = Ok (out0, log0) ->
  forall o v v0, In (o, v) out -> In (o, v0) out0 ->
    (has o (s_nodes src) = true
     \/ exists x st, lookup x (s_nodes src) = Some st /\ o = observed_name x
                     /\ (s_observable st = true \/ s_uses_observed st = true)) ->
    v = v0.
Proof.
  intros Hwf Hnd Hin Hc Hg Hg0 o v v0 Ho Ho0 Hshape.
  eapply generate_with_pool_is_pool_free; eauto.
  apply (generate_sound src outs [] out0 log0 Hwf); auto; try constructor; try (intros k []).
Qed.

(** a decidable form, for concrete nets and pools *)
Definition pool_consistent_b (src : snet) (P : list (name * value)) : bool :=
  forallb (fun kw : name * value =>
             has (fst kw) (s_nodes src)
             && match den_name src [] (fst kw) with Some w => value_eqb (snd kw) w | None => false end) P
  && forallb (fun ns : name * sstate => negb (has (observed_name (fst ns)) P)) (s_nodes src).

Lemma op_eqb_eq a b : op_eqb a b = true -> a = b.
Proof.
  destruct a, b; simpl; try discriminate; intros H; [apply String.eqb_eq in H; now subst | reflexivity].
Qed.

Lemma net_value_eqb_eq : forall a b : value, value_eqb a b = true -> a = b.
Proof.
  fix IH 1. intros a b.
  destruct a as [k| | | |o xs ks], b as [l| | | |p ys ls]; simpl; try discriminate; intros H; try reflexivity.
  - apply Z.eqb_eq in H. now subst.
  - apply andb_true_iff in H. destruct H as [H Hk]. apply andb_true_iff in H. destruct H as [Ho Hx].
    apply op_eqb_eq in Ho. subst p.
    assert (Hxs : xs = ys).
    { clear Hk. revert ys Hx. induction xs as [|x r IHr]; intros [|y s] Hx; try discriminate; [reflexivity|].
      apply andb_true_iff in Hx. destruct Hx as [H1 H2]. f_equal; [now apply IH | now apply IHr]. }
    assert (Hks : ks = ls).
    { clear Hx. revert ls Hk. induction ks as [|[s x] r IHr]; intros [|[t y] q] Hk; try discriminate; [reflexivity|].
      apply andb_true_iff in Hk. destruct Hk as [H1 H2]. apply andb_true_iff in H1. destruct H1 as [Hs Hv].
      apply String.eqb_eq in Hs. subst t. f_equal; [f_equal; now apply IH | now apply IHr]. }
    now subst.
Qed.

Lemma pool_consistent_b_sound src P :
  NoDup (map fst P) -> pool_consistent_b src P = true -> pool_consistent src P.
Proof.
  unfold pool_consistent_b, pool_consistent. intros Hnd H. apply andb_true_iff in H. destruct H as [H1 H2].
  rewrite forallb_forall in H1, H2. split.
  - intros k w Hl. assert (Hin : In (k, w) P).
    { clear -Hl. induction P as [|[m a] r IH]; simpl in *; [discriminate|].
      destruct (String.eqb k m) eqn:E; [apply String.eqb_eq in E; inversion Hl; subst; now left | right; now apply IH]. }
    specialize (H1 (k, w) Hin). simpl in H1. apply andb_true_iff in H1. destruct H1 as [Hh Hd]. split; [exact Hh|].
    destruct (den_name src [] k) as [w'|]; [|discriminate]. apply net_value_eqb_eq in Hd. now subst.
  - intros n Hn. apply has_lookup in Hn. destruct Hn as [st Hst].
    assert (Hin : In (n, st) (s_nodes src)).
    { clear -Hst. induction (s_nodes src) as [|[m a] r IH]; simpl in *; [discriminate|].
      destruct (String.eqb n m) eqn:E; [apply String.eqb_eq in E; inversion Hst; subst; now left | right; now apply IH]. }
    specialize (H2 (n, st) Hin). simpl in H2. apply negb_true_iff in H2. unfold has in H2.
    destruct (lookup (observed_name n) P); [discriminate | reflexivity].
Qed.
