(** C20 — sample mean / covariance plumbing of the synthetic likelihoods (model: Num/Bsl.v). *)
From Coq Require Import ZArith QArith Qfield Qabs List Bool Lia.
From Elfi Require Import Num.Bsl.
Import ListNotations.
Local Open Scope Q_scope.

Lemma qlen_cons x xs : qlen (x :: xs) == qlen xs + 1.
Proof.
  unfold qlen. cbn [length]. rewrite Nat2Z.inj_succ, <- Z.add_1_r, inject_Z_plus. reflexivity.
Qed.

Lemma qlen_nonneg xs : 0 <= qlen xs.
Proof.
  unfold qlen. change 0 with (inject_Z 0). rewrite <- Zle_Qle. lia.
Qed.

Lemma qlen_pos xs : xs <> [] -> 0 < qlen xs.
Proof.
  destruct xs as [|x xs]; [congruence|]. intros _. rewrite qlen_cons.
  pose proof (qlen_nonneg xs) as H.
  apply Qle_lt_trans with (qlen xs + 0); [rewrite Qplus_0_r; exact H|].
  apply Qplus_lt_r. reflexivity.
Qed.

Lemma qlen_eq xs ys : length xs = length ys -> qlen xs = qlen ys.
Proof. unfold qlen. intros ->. reflexivity. Qed.

(** centred cross-product sum, expanded *)
Lemma sum_centered m1 m2 : forall xs ys, length xs = length ys ->
  qsum (map (fun p => (fst p - m1) * (snd p - m2)) (combine xs ys))
  == qsum (map (fun p => fst p * snd p) (combine xs ys)) - m2 * qsum xs - m1 * qsum ys + qlen xs * m1 * m2.
Proof.
  induction xs as [|x xs IH]; intros [|y ys] Hl; try discriminate.
  - unfold qlen; cbn. ring.
  - cbn [combine map qsum fold_right fst snd]. injection Hl as Hl.
    fold (qsum (map (fun p => (fst p - m1) * (snd p - m2)) (combine xs ys))).
    fold (qsum (map (fun p => fst p * snd p) (combine xs ys))). fold (qsum xs). fold (qsum ys).
    rewrite (IH ys Hl), qlen_cons. ring.
Qed.

Lemma sum_centered_sym m1 m2 : forall xs ys,
  qsum (map (fun p => (fst p - m1) * (snd p - m2)) (combine xs ys))
  == qsum (map (fun p => (fst p - m2) * (snd p - m1)) (combine ys xs)).
Proof.
  induction xs as [|x xs IH]; intros [|y ys]; cbn; try reflexivity.
  fold (qsum (map (fun p => (fst p - m1) * (snd p - m2)) (combine xs ys))).
  fold (qsum (map (fun p => (fst p - m2) * (snd p - m1)) (combine ys xs))).
  rewrite (IH ys). ring.
Qed.

(** the sample covariance matrix is symmetric *)
Theorem cov_entry_sym xs ys : length xs = length ys -> cov_entry xs ys == cov_entry ys xs.
Proof.
  intros Hl. unfold cov_entry. rewrite (qlen_eq _ _ Hl).
  unfold Qdiv. rewrite (sum_centered_sym (mean xs) (mean ys) xs ys). reflexivity.
Qed.

(** two-pass (numpy.cov) and one-pass textbook covariance coincide *)
Theorem cov_entry_alt xs ys : length xs = length ys -> xs <> [] -> cov_entry xs ys == cov_alt xs ys.
Proof.
  intros Hl Hne. unfold cov_entry, cov_alt.
  assert (Hn : ~ qlen xs == 0) by (pose proof (qlen_pos xs Hne) as H; intro E; rewrite E in H; discriminate).
  unfold Qdiv. apply Qmult_comp; [|reflexivity].
  rewrite (sum_centered (mean xs) (mean ys) xs ys Hl).
  unfold mean. rewrite <- (qlen_eq _ _ Hl). field. exact Hn.
Qed.

Lemma qsum_affine c e : forall xs, qsum (map (fun x => c * x + e) xs) == c * qsum xs + qlen xs * e.
Proof.
  induction xs as [|x xs IH].
  - unfold qlen; cbn. ring.
  - cbn [map qsum fold_right]. fold (qsum (map (fun x => c * x + e) xs)). fold (qsum xs).
    rewrite IH, qlen_cons. ring.
Qed.

(** mean of affinely transformed data *)
Theorem mean_affine c e xs : xs <> [] -> mean (map (fun x => c * x + e) xs) == c * mean xs + e.
Proof.
  intros Hne. unfold mean.
  assert (Hn : ~ qlen xs == 0) by (pose proof (qlen_pos xs Hne) as H; intro E; rewrite E in H; discriminate).
  rewrite qsum_affine. replace (qlen (map (fun x => c * x + e) xs)) with (qlen xs) by (unfold qlen; rewrite map_length; reflexivity).
  field. exact Hn.
Qed.

(** covariance does not see a shift and scales bilinearly *)
Lemma combine_map_affine c1 e1 c2 e2 : forall (xs ys : list Q),
  combine (map (fun x => c1 * x + e1) xs) (map (fun y => c2 * y + e2) ys)
  = map (fun p => (c1 * fst p + e1, c2 * snd p + e2)) (combine xs ys).
Proof.
  induction xs as [|x xs IH]; intros [|y ys]; cbn; try reflexivity. rewrite IH. reflexivity.
Qed.

Lemma sum_centered_affine c1 e1 c2 e2 m1 m2 : forall (l : list (Q * Q)),
  qsum (map (fun p => (fst p - (c1 * m1 + e1)) * (snd p - (c2 * m2 + e2)))
            (map (fun p => (c1 * fst p + e1, c2 * snd p + e2)) l))
  == c1 * c2 * qsum (map (fun p => (fst p - m1) * (snd p - m2)) l).
Proof.
  induction l as [|p l IH]; cbn.
  - ring.
  - fold (qsum (map (fun p => (fst p - (c1 * m1 + e1)) * (snd p - (c2 * m2 + e2)))
            (map (fun p => (c1 * fst p + e1, c2 * snd p + e2)) l))).
    fold (qsum (map (fun p => (fst p - m1) * (snd p - m2)) l)).
    rewrite IH. ring.
Qed.

Lemma qsum_ext (f g : Q * Q -> Q) : (forall p, f p == g p) -> forall l, qsum (map f l) == qsum (map g l).
Proof.
  intros H. induction l as [|p l IH]; cbn; [reflexivity|].
  fold (qsum (map f l)). fold (qsum (map g l)). rewrite IH, (H p). reflexivity.
Qed.

Theorem cov_affine c1 e1 c2 e2 xs ys : xs <> [] -> ys <> [] ->
  cov_entry (map (fun x => c1 * x + e1) xs) (map (fun y => c2 * y + e2) ys) == c1 * c2 * cov_entry xs ys.
Proof.
  intros Hx Hy. unfold cov_entry.
  replace (qlen (map (fun x => c1 * x + e1) xs)) with (qlen xs) by (unfold qlen; rewrite map_length; reflexivity).
  rewrite combine_map_affine.
  rewrite (qsum_ext _ (fun p => (fst p - (c1 * mean xs + e1)) * (snd p - (c2 * mean ys + e2)))).
  - rewrite sum_centered_affine. unfold Qdiv. ring.
  - intros p. rewrite (mean_affine c1 e1 xs Hx), (mean_affine c2 e2 ys Hy). reflexivity.
Qed.

(** Warton shrinkage as coded (D2 (gamma D1 S D1 + (1-gamma) I) D2) is: off-diagonal entries times gamma,
    diagonal entries gamma*S_ii + (1-gamma)*d_i^2 with d_i^2 = S_ii + eps *)
Theorem warton_off g s di dj : ~ di == 0 -> ~ dj == 0 -> warton_entry g s di dj false == g * s.
Proof. intros H1 H2. unfold warton_entry. field. split; assumption. Qed.

Theorem warton_diag g s di : ~ di == 0 -> warton_entry g s di di true == g * s + (1 - g) * (di * di).
Proof. intros H1. unfold warton_entry. field. assumption. Qed.

Theorem warton_sym g s s' di dj diag : s == s' -> warton_entry g s di dj diag == warton_entry g s' dj di diag.
Proof. intros E. unfold warton_entry. rewrite E. ring. Qed.
