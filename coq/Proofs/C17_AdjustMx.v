(** C17 proofs, matrix level: uniqueness of the least-squares fit, its transport along an
    invertible affine re-expression of the regressors, and the resulting (in)variance of
    [LinearAdjustment._adjust].  Model: Num/AdjustMx.v. *)
From mathcomp Require Import all_ssreflect all_fingroup all_algebra.
From Elfi Require Import Num.AdjustMx.
Set Implicit Arguments.
Unset Strict Implicit.
Unset Printing Implicit Defensive.
Import GRing.Theory Num.Theory.
Local Open Scope ring_scope.

Section Proofs.
Variable F : fieldType.
Variables n k : nat.
Implicit Types (X S : 'M[F]_(n, k)) (A : 'M[F]_k) (c o : 'rV[F]_k) (theta : 'cV[F]_n)
  (b : 'cV[F]_k).

Lemma regressors_affine S o A c :
  regressors (S *m A + ones F n *m c) (o *m A + c) = regressors S o *m A.
Proof.
rewrite /regressors mulmxBl mulmxDr -mulmxA opprD addrACA subrr addr0.
by [].
Qed.

Lemma design_affine X A c :
  design (X *m A + ones F n *m c) = design X *m affine_block A c.
Proof.
rewrite /design /affine_block mul_row_block mulmx1 mulmx0 addr0.
by rewrite [ones F n *m c + _]addrC.
Qed.

Lemma affine_block_unit A c : A \in unitmx -> affine_block A c \in unitmx.
Proof.
by move=> uA; rewrite unitmxE /affine_block det_ublock det1 mul1r -unitmxE.
Qed.

Lemma fitted_affine X A c (b0 : 'M[F]_1) b : A \in unitmx ->
  design (X *m A + ones F n *m c) *m col_mx (b0 - c *m invmx A *m b) (invmx A *m b)
  = design X *m col_mx b0 b.
Proof.
move=> uA; rewrite /design !mul_row_col mulmxBr mulmxDl.
rewrite -[X *m A *m _]mulmxA mulKVmx // -!mulmxA.
by rewrite [X *m b + _]addrC addrA subrK.
Qed.

Lemma fit_transport X theta A c (b0 : 'M[F]_1) b : A \in unitmx ->
  is_fit X theta b0 b ->
  is_fit (X *m A + ones F n *m c) theta (b0 - c *m invmx A *m b) (invmx A *m b).
Proof.
move=> uA; rewrite /is_fit /normal_eq fitted_affine // => H.
by rewrite design_affine trmx_mul -!mulmxA H.
Qed.

Lemma normal_eq_unique p (D : 'M[F]_(n, p)) y (be be' : 'cV[F]_p) :
  gram D \in unitmx -> normal_eq D y be -> normal_eq D y be' -> be = be'.
Proof.
rewrite /gram /normal_eq => uG H H'.
have E : D^T *m D *m be = D^T *m D *m be' by rewrite -!mulmxA H H'.
by rewrite -[be](mulKmx uG) E mulKmx.
Qed.

Lemma fit_unique X theta (b0 : 'M[F]_1) b (b0' : 'M[F]_1) (b' : 'cV[F]_k) :
  gram (design X) \in unitmx -> is_fit X theta b0 b -> is_fit X theta b0' b' ->
  b0 = b0' /\ b = b'.
Proof.
move=> uG H H'; apply: eq_col_mx; exact: (normal_eq_unique uG H H').
Qed.

Lemma gram_affine_unit X A c :
  gram (design X) \in unitmx -> A \in unitmx ->
  gram (design (X *m A + ones F n *m c)) \in unitmx.
Proof.
move=> uG uA; rewrite /gram design_affine trmx_mul -mulmxA [_ *m (_ *m affine_block A c)]mulmxA.
rewrite !unitmx_mul unitmx_tr affine_block_unit //=. by rewrite andbT; exact: uG.
Qed.

(** what the code computes when X itself is shifted: a constant offset (the intercept is
    not subtracted by [_adjust], so it does not absorb the shift) *)
Theorem adjust_affine_shift X theta A c (b0 : 'M[F]_1) b (b0' : 'M[F]_1) (b' : 'cV[F]_k) :
  gram (design X) \in unitmx -> A \in unitmx ->
  is_fit X theta b0 b ->
  is_fit (X *m A + ones F n *m c) theta b0' b' ->
  adjusted theta (X *m A + ones F n *m c) b' = adjusted theta X b - ones F n *m (c *m invmx A *m b).
Proof.
move=> uG uA H H'.
have [_ ->] := fit_unique (gram_affine_unit c uG uA) H' (fit_transport c uA H).
rewrite /adjusted mulmxDl -[X *m A *m _]mulmxA mulKVmx // opprD addrA.
by rewrite -!mulmxA.
Qed.

(** the invariance the code has: re-express simulated AND observed summaries *)
Theorem adjust_affine_invariant S o theta A c (b0 : 'M[F]_1) b (b0' : 'M[F]_1) (b' : 'cV[F]_k) :
  gram (design (regressors S o)) \in unitmx -> A \in unitmx ->
  is_fit (regressors S o) theta b0 b ->
  is_fit (regressors (S *m A + ones F n *m c) (o *m A + c)) theta b0' b' ->
  adjusted theta (regressors (S *m A + ones F n *m c) (o *m A + c)) b'
  = adjusted theta (regressors S o) b.
Proof.
rewrite regressors_affine => uG uA H H'.
have E : regressors S o *m A = regressors S o *m A + ones F n *m 0 by rewrite mulmx0 addr0.
rewrite E in H' *.
by rewrite (adjust_affine_shift uG uA H H') mul0mx mul0mx mulmx0 subr0.
Qed.

(** listing the summaries in another order = permuting the columns of the simulated and of the
    observed summaries alike: a special invertible linear re-expression (A = permutation matrix, c = 0) *)
Lemma invmx_perm (s : 'S_k) : invmx (perm_mx s^-1) = perm_mx s :> 'M[F]_k.
Proof.
by rewrite -[RHS](mulKmx (unitmx_perm F s^-1)) -perm_mxM mulVg perm_mx1 mulmx1.
Qed.

(** the fit of the re-listed design is the re-listed fit (same intercept, slope entries permuted alike) *)
Lemma fit_summary_perm (s : 'S_k) X theta (b0 : 'M[F]_1) b :
  is_fit X theta b0 b -> is_fit (col_perm s X) theta b0 (row_perm s b).
Proof.
move=> H; have := fit_transport 0 (unitmx_perm F s^-1) H.
by rewrite mulmx0 addr0 !mul0mx subr0 -col_permE invmx_perm -row_permE.
Qed.

Theorem adjust_summary_perm (s : 'S_k) S o theta (b0 : 'M[F]_1) b (b0' : 'M[F]_1) (b' : 'cV[F]_k) :
  gram (design (regressors S o)) \in unitmx ->
  is_fit (regressors S o) theta b0 b ->
  is_fit (regressors (col_perm s S) (col_perm s o)) theta b0' b' ->
  adjusted theta (regressors (col_perm s S) (col_perm s o)) b' = adjusted theta (regressors S o) b.
Proof.
move=> uG H.
have -> : col_perm s S = S *m perm_mx s^-1 + ones F n *m 0 by rewrite mulmx0 addr0 col_permE.
have -> : col_perm s o = o *m perm_mx s^-1 + 0 by rewrite addr0 col_permE.
move=> H'; exact: (adjust_affine_invariant uG (unitmx_perm F s^-1) H H').
Qed.

Lemma adjusted_row0 theta X b i : row i X = 0 -> adjusted theta X b i 0 = theta i 0.
Proof.
move=> H; rewrite /adjusted mxE [X in _ + X]mxE.
have -> : (X *m b) i 0 = (row i X *m b) 0 0 by rewrite -row_mul [RHS]mxE.
by rewrite H mul0mx mxE subr0.
Qed.

End Proofs.

(** Over an ordered field, full column rank of the design gives an invertible Gram matrix,
    so the hypothesis [gram D \in unitmx] above is exactly "[1 X] has full column rank". *)
Section RealField.
Variable R : realFieldType.
Variables n p : nat.

Lemma sq_row_eq0 (w : 'rV[R]_n) : w *m w^T = 0 -> w = 0.
Proof.
move=> H; apply/rowP => j; rewrite mxE.
have := congr1 (fun M : 'M[R]_1 => M 0 0) H; rewrite !mxE.
under eq_bigr => l _ do rewrite mxE -expr2.
move/eqP; rewrite psumr_eq0; last by move=> l _; exact: sqr_ge0.
by move/allP/(_ j); rewrite mem_index_enum => /(_ isT); rewrite sqrf_eq0 => /eqP.
Qed.

Lemma full_rank_gram_unit (D : 'M[R]_(n, p)) : \rank D = p -> gram D \in unitmx.
Proof.
move=> rkD; rewrite -row_free_unit -kermx_eq0 -submx0.
apply/row_subP => i; set v := row i _.
have vG : v *m gram D = 0 by apply/sub_kermxP; exact: row_sub.
have vD : v *m D^T = 0.
  apply: sq_row_eq0; rewrite trmx_mul trmxK mulmxA -[v *m D^T *m D]mulmxA.
  by move: vG; rewrite /gram => ->; rewrite mul0mx.
have fD : row_free D^T by rewrite /row_free mxrank_tr rkD.
by move/eqP: vD; rewrite (mulmx_free_eq0 _ fD) => /eqP ->; rewrite sub0mx.
Qed.
End RealField.
