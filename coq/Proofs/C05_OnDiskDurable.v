(** C05 on disk, whole pool, durability: the lift of the per-store statements of Proofs/C05_OnDisk.v
    ([on_disk_flush_loads], [on_disk_reopen_restores], [on_disk_crash_prefix], themselves corollaries
    of the C06 theorems) to the disk pools of Proofs/C05_OnDiskPool.v.

    The per-store statements speak of a store reached FROM A NEW STORE BY A POOL HISTORY
    ([pool_run bs o 1 fresh_mem empty_file ps]); [ds_good] of C05_OnDiskPool.v only remembers a history
    of store operations.  So the lift carries the pool history of every store:
    - [ds_hist n d ps]: store [d] of node [n] is the new store after the pool operations [ps];
      [dp_reach dp]: every store of the pool has such a history (the empty pool has: [empty_dpool_reach];
      [dp_all], [disk_add_with], [step_batch_disk], [run_batches_disk] keep it and only EXTEND the
      history of each store: [dp_ext]);
    - [dpool_flush_loads]: after ArrayPool.flush of all stores, the file of every store that holds a
      batch has nothing pending and loads to exactly the batches the store reports, which are the
      batches [abs_pool dp] holds for that node ([dpool_get_batch_batches]);
    - [dpool_reopen_restores]: flush + close/open of all stores leaves [abs_pool] unchanged, every
      [disk_get_batch] answers as before, and the open of every store that holds a batch does not raise;
    - [dpool_crash_prefix]: run 1, flush of all stores, run 2; for every store and every kill point of
      the part of ITS history that follows the flush, the file left loads to the first m batches the
      store holds at the end of run 2, with m >= the number of batches it held at the flush;
      [dpool_crash_prefix_batches]: for run 1 over batches 0 .. k-1 that number is >= k for every store
      of a node of the net; [abs_store_firstn]: the abstraction of such a prefix answers batch i < m as
      the final pool does and holds nothing else (never a torn or foreign batch).
    - [dpool_crash_restart]: the restart scenario in one statement (run 1 over 0 .. k-1, flush, run 2 of
      the same handler over k .. k+n2-1): both runs are the runs of Pool.v on the abstraction and every
      store of a node of the net keeps at least batches 0 .. k-1 through a kill in run 2.

    Side conditions, all visible in the statements: [0 < bs]; [dp_reach] of the starting pool;
    representability of the stored values at every step of the runs ([run_all repr_at]: this is what
    makes every stored batch a batch of [bs] rows); and PER STORE "the store holds a batch at the
    flush" (a store that never received a batch has no initialised file: the C06 theorems say nothing
    about it, its abstraction is [None]).  No contiguity condition is needed for durability. *)
From Coq Require Import List String NArith ZArith Arith Bool Lia.
From Elfi Require Import Graph.Net Store.Layout Store.Pool Proofs.C03_Exec Proofs.C05_Pool Proofs.C05_Cache
  Store.Npy Proofs.C06_Npy Proofs.C05_OnDisk Proofs.C05_OnDiskPool.
Import ListNotations.

Lemma nth_error_firstn_lt {A} (l : list A) : forall m i,
  nth_error (firstn m l) i = if i <? m then nth_error l i else None.
Proof.
  induction l as [|a r IH]; intros m i.
  - rewrite firstn_nil. destruct (i <? m); now destruct i.
  - destruct m as [|m], i as [|i]; try reflexivity. cbn [firstn nth_error]. rewrite IH. reflexivity.
Qed.

Section Durable.
Variable bs : nat.
Hypothesis Hbs : 0 < bs.
Variable orc : name -> oracle.
Variable enc : name -> batch -> value.

(** ---- pool operations compose ---- *)
Lemma pool_run_app o a : forall i m f b,
  pool_run bs o i m f (a ++ b) = let '(m1, f1, i1) := pool_run bs o i m f a in pool_run bs o i1 m1 f1 b.
Proof.
  induction a as [|p r IH]; intros i m f b; simpl; [reflexivity|].
  destruct (run current bs o i m f (pool_hops (pop_index p <? m_nb m) p)) as [[m1 f1] i1]. apply IH.
Qed.

Lemma ds_run_app n d a b : ds_run bs orc n d (a ++ b) = ds_run bs orc n (ds_run bs orc n d a) b.
Proof.
  unfold ds_run. rewrite pool_run_app.
  destruct (pool_run bs (orc n) (ds_tick d) (ds_mem d) (ds_file d) a) as [[m1 f1] i1]. reflexivity.
Qed.

Lemma dp_all_app dp a b : dp_all bs orc dp (a ++ b) = dp_all bs orc (dp_all bs orc dp a) b.
Proof.
  unfold dp_all. cbn [dp_stores dp_batch_size dp_seed]. f_equal. rewrite map_map.
  apply map_ext. intros [n d]. cbn [fst snd]. now rewrite ds_run_app.
Qed.

Lemma dp_all_stores dp qs n d' : In (n, d') (dp_stores (dp_all bs orc dp qs)) ->
  exists d, In (n, d) (dp_stores dp) /\ d' = ds_run bs orc n d qs.
Proof.
  intros H. cbn [dp_all dp_stores] in H. apply in_map_iff in H. destruct H as ([n0 d] & E & Hin).
  cbn [fst snd] in E. inversion E; subst. now exists d.
Qed.

Lemma dp_all_stores_in dp qs n d : In (n, d) (dp_stores dp) ->
  In (n, ds_run bs orc n d qs) (dp_stores (dp_all bs orc dp qs)).
Proof.
  intros H. cbn [dp_all dp_stores]. apply in_map_iff. exists (n, d). now split.
Qed.

(** ---- a store with its pool history ---- *)
Definition ds_hist (n : name) (d : dstore) (ps : list pop) : Prop :=
  wfpool bs ps /\ pool_run bs (orc n) 1 fresh_mem empty_file ps = (ds_mem d, ds_file d, ds_tick d).

Lemma ds_hist_new n : ds_hist n ds_new [].
Proof. split; [constructor | reflexivity]. Qed.

Lemma ds_hist_run n d ps qs : ds_hist n d ps -> wfpool bs qs -> ds_hist n (ds_run bs orc n d qs) (ps ++ qs).
Proof.
  intros [W E] Wq. split; [apply Forall_app; now split|].
  rewrite pool_run_app, E. unfold ds_run.
  destruct (pool_run bs (orc n) (ds_tick d) (ds_mem d) (ds_file d) qs) as [[m1 f1] i1]. reflexivity.
Qed.

Lemma ds_hist_good n d ps : ds_hist n d ps -> ds_good bs orc n d.
Proof.
  intros [W E]. exists (compile [] ps). split; [now apply wf_compile|].
  rewrite <- (pool_run_start bs (orc n) ps Hbs W). exact E.
Qed.

Lemma ds_hist_batches n d ps : ds_hist n d ps -> ds_batches bs d = fold_left disk_step ps [].
Proof.
  intros [W E]. unfold ds_batches. now rewrite (pool_run_view bs (orc n) ps Hbs W _ _ _ E).
Qed.

Lemma ds_hist_added n d ps : ds_hist n d ps -> ds_batches bs d = added 0 ps.
Proof. intros H. rewrite (ds_hist_batches n d ps H). now rewrite disk_step_added. Qed.

(** every store of the pool is a new store after some pool history *)
Definition dp_reach (dp : dpool) : Prop := forall n d, In (n, d) (dp_stores dp) -> exists ps, ds_hist n d ps.

Lemma dp_reach_good dp : dp_reach dp -> dp_good bs orc dp.
Proof. intros R n d H. destruct (R n d H) as [ps Hp]. exact (ds_hist_good n d ps Hp). Qed.

Lemma empty_dpool_reach keys : dp_reach (empty_dpool keys).
Proof.
  intros n d H. apply in_map_iff in H. destruct H as (k & E & _). inversion E; subst.
  exists []. apply ds_hist_new.
Qed.

(** ---- pool operations only extend the history of each store ---- *)
Definition ds_ext (n : name) (d d' : dstore) : Prop :=
  forall ps, ds_hist n d ps -> exists qs, ds_hist n d' (ps ++ qs).

Definition dp_ext (dp dp' : dpool) : Prop :=
  forall n d', In (n, d') (dp_stores dp') -> exists d, In (n, d) (dp_stores dp) /\ ds_ext n d d'.

Lemma ds_ext_refl n d : ds_ext n d d.
Proof. intros ps H. exists []. now rewrite app_nil_r. Qed.

Lemma ds_ext_run n d qs : wfpool bs qs -> ds_ext n d (ds_run bs orc n d qs).
Proof. intros W ps H. exists qs. now apply ds_hist_run. Qed.

Lemma dp_ext_refl dp : dp_ext dp dp.
Proof. intros n d H. exists d. split; [exact H | apply ds_ext_refl]. Qed.

Lemma dp_ext_trans a b c : dp_ext a b -> dp_ext b c -> dp_ext a c.
Proof.
  intros Hab Hbc n d3 H3. destruct (Hbc n d3 H3) as (d2 & H2 & E23). destruct (Hab n d2 H2) as (d1 & H1 & E12).
  exists d1. split; [exact H1|]. intros ps Hp. destruct (E12 ps Hp) as (q1 & Hq1).
  destruct (E23 _ Hq1) as (q2 & Hq2). exists (q1 ++ q2). now rewrite app_assoc.
Qed.

Lemma dp_ext_reach a b : dp_ext a b -> dp_reach a -> dp_reach b.
Proof.
  intros E R n d' H. destruct (E n d' H) as (d & Hd & X). destruct (R n d Hd) as [ps Hp].
  destruct (X ps Hp) as [qs Hq]. now exists (ps ++ qs).
Qed.

Lemma dp_all_ext dp qs : wfpool bs qs -> dp_ext dp (dp_all bs orc dp qs).
Proof.
  intros W n d' H. apply dp_all_stores in H. destruct H as (d & Hd & ->).
  exists d. split; [exact Hd | now apply ds_ext_run].
Qed.

Lemma disk_add_with_ext fd dp i :
  (forall n d b, In (n, d) (dp_stores dp) -> fd n = Some b -> List.length b = bs) ->
  dp_ext dp (disk_add_with bs orc fd dp i).
Proof.
  intros S n d' H. cbn [disk_add_with dp_stores] in H. apply in_map_iff in H.
  destruct H as ([n0 d] & E & Hin). cbn [fst snd] in E. destruct (fd n0) as [b|] eqn:Ef.
  - inversion E; subst. exists d. split; [exact Hin|]. apply ds_ext_run.
    constructor; [exact (S _ _ _ Hin Ef) | constructor].
  - inversion E; subst. exists d'. split; [exact Hin | apply ds_ext_refl].
Qed.

(** ---- (1) flush of all stores: every file loads to what the abstraction holds ---- *)
(** what [Pool.get_batch] of the abstraction answers, store by store: the i-th reported batch *)
Theorem dpool_get_batch_batches dp i :
  Pool.get_batch (abs_pool bs enc dp) i
  = map (fun nd : name * dstore => (fst nd, option_map (enc (fst nd)) (nth_error (ds_batches bs (snd nd)) i)))
        (dp_stores dp).
Proof.
  unfold Pool.get_batch, abs_pool, abs_stores. cbn [stores]. rewrite map_map.
  apply map_ext. intros [n d]. cbn [fst snd]. f_equal. apply abs_store_get.
Qed.

(** ArrayPool.flush / save: for every store [d'] of the flushed pool there is the store [d] of [dp] it
    comes from; [d'] reports the same batches; the abstraction holds [abs_store n (ds_batches d)] for
    that node, which answers batch i with (the value of) the i-th batch; and when the store holds a
    batch, nothing is pending on its file, and numpy loads the file to exactly these batches *)
Theorem dpool_flush_loads dp : dp_reach dp ->
  let dp' := dp_all bs orc dp [PFlush] in
  dp_reach dp' /\ abs_pool bs enc dp' = abs_pool bs enc dp /\
  forall n d', In (n, d') (dp_stores dp') ->
    exists d, In (n, d) (dp_stores dp) /\ d' = ds_run bs orc n d [PFlush]
      /\ ds_batches bs d' = ds_batches bs d
      /\ In (n, abs_store enc n (ds_batches bs d)) (stores (abs_pool bs enc dp))
      /\ (forall i, store_get (abs_store enc n (ds_batches bs d)) i
                    = option_map (enc n) (nth_error (ds_batches bs d) i))
      /\ (0 < List.length (ds_batches bs d) ->
          f_buf (ds_file d') = [] /\ loads (f_disk (ds_file d')) = Some (flat (ds_batches bs d))).
Proof.
  intros R dp'. assert (W : wfpool bs [PFlush]) by (repeat constructor).
  assert (N : neutral [PFlush]) by (repeat constructor).
  split; [exact (dp_ext_reach _ _ (dp_all_ext dp _ W) R)|].
  split; [exact (proj1 (proj2 (dp_all_neutral bs Hbs orc enc dp _ (dp_reach_good dp R) N)))|].
  intros n d' H. apply dp_all_stores in H. destruct H as (d & Hd & ->).
  destruct (R n d Hd) as [ps Hp]. exists d. split; [exact Hd|]. split; [reflexivity|].
  split; [|split; [|split]].
  - rewrite (proj2 (ds_run_good bs Hbs orc n d _ (ds_hist_good n d ps Hp) W)). reflexivity.
  - unfold abs_pool, abs_stores. cbn [stores]. apply in_map_iff. exists (n, d). now split.
  - intros i. apply abs_store_get.
  - intros Hn. rewrite (ds_hist_added n d ps Hp) in *.
    destruct (ds_hist_run n d ps [PFlush] Hp W) as [_ E].
    exact (on_disk_flush_loads bs (orc n) ps PFlush Hbs (proj1 Hp) (or_introl eq_refl) _ _ _ E Hn).
Qed.

(** ---- (2) flush + close/open of all stores ---- *)
Theorem dpool_reopen_restores dp : dp_reach dp ->
  let dp1 := dp_all bs orc dp [PFlush] in
  let dp2 := dp_all bs orc dp [PFlush; PReopen] in
  dp2 = dp_all bs orc dp1 [PReopen]
  /\ dp_reach dp2
  /\ abs_pool bs enc dp2 = abs_pool bs enc dp
  /\ (forall i, snd (disk_get_batch bs orc dp2 i) = snd (disk_get_batch bs orc dp i))
  /\ (forall i, disk_loaded bs orc enc dp2 i = Pool.get_batch (abs_pool bs enc dp) i)
  /\ (forall n d1, In (n, d1) (dp_stores dp1) -> 0 < List.length (ds_batches bs d1) ->
        let h := hstep current bs (orc n) (ds_tick d1) (ds_mem d1) (ds_file d1) Reopen in
        r_err h = false /\ forall k, disk_get bs (r_mem h) (r_file h) k = ds_get bs d1 k).
Proof.
  intros R dp1 dp2. assert (W : wfpool bs [PFlush; PReopen]) by (repeat constructor).
  assert (N : neutral [PFlush; PReopen]) by (repeat constructor).
  pose proof (dp_reach_good dp R) as G.
  pose proof (dp_ext_reach _ _ (dp_all_ext dp _ W) R) as R2. fold dp2 in R2.
  destruct (dp_all_neutral bs Hbs orc enc dp _ G N) as (G2 & A2 & _). fold dp2 in G2, A2.
  split; [exact (dp_all_app dp [PFlush] [PReopen])|]. split; [exact R2|]. split; [exact A2|].
  split; [|split].
  - intros i. unfold disk_get_batch. cbn [snd]. unfold dp2. cbn [dp_all dp_stores]. rewrite map_map.
    apply map_ext_in. intros [n d] Hin. cbn [fst snd]. f_equal.
    pose proof (G n d Hin) as Gd.
    destruct (ds_run_good bs Hbs orc n d _ Gd W) as [Gd' B].
    rewrite (ds_get_good bs Hbs orc n _ i Gd'), (ds_get_good bs Hbs orc n d i Gd), B.
    now rewrite (neutral_step _ N).
  - intros i. rewrite <- A2. exact (proj1 (disk_get_batch_abs bs Hbs orc enc dp2 i G2)).
  - intros n d1 H1 Hn. apply dp_all_stores in H1. destruct H1 as (d & Hd & ->).
    destruct (R n d Hd) as [ps Hp]. assert (W1 : wfpool bs [PFlush]) by (repeat constructor).
    pose proof (ds_hist_run n d ps [PFlush] Hp W1) as H1. rewrite (ds_hist_added _ _ _ H1) in Hn.
    destruct H1 as [Wp E].
    exact (on_disk_reopen_restores bs (orc n) _ Reopen Hbs Wp (or_introl eq_refl) _ _ _ E Hn).
Qed.

(** ---- (3) a kill after a completed flush ---- *)
(** one store: [ps1] led it to the flush, [qs] follows the flush; a kill [j] low-level operations
    into any store operation [op] of the part that follows the flush leaves a file that loads to the
    first [m] batches the store holds at the end, [m] at least the number held at the flush *)
Lemma ds_crash_prefix n d1 d3 ps1 qs :
  ds_hist n d1 ps1 -> ds_hist n d3 (ps1 ++ PFlush :: qs) -> 0 < List.length (ds_batches bs d1) ->
  forall mid op tail j, compile (ds_batches bs d1) qs = mid ++ op :: tail ->
  exists m, List.length (ds_batches bs d1) <= m /\ m <= List.length (ds_batches bs d3) /\
    loads (crash_disk current bs (orc n) (compile [] ps1 ++ Flush :: mid) op j)
    = Some (flat (firstn m (ds_batches bs d3))).
Proof.
  intros H1 H3 Hn mid op tail j E.
  pose proof (ds_hist_batches _ _ _ H1) as B1. pose proof (ds_hist_added _ _ _ H3) as A3.
  pose proof (ds_hist_batches _ _ _ H3) as B3.
  assert (Ec : compile [] (ps1 ++ PFlush :: qs) = compile [] ps1 ++ Flush :: mid ++ op :: tail).
  { rewrite compile_app. f_equal. cbn [compile pool_hops fold_left spec_step app]. rewrite <- B1.
    simpl. now rewrite E. }
  assert (Sp : spec (compile [] ps1 ++ [Flush]) = ds_batches bs d1).
  { unfold spec. rewrite fold_left_app, compile_spec. simpl. now rewrite B1. }
  assert (Hp : 0 < List.length (spec (compile [] ps1 ++ [Flush]))) by now rewrite Sp.
  destruct (on_disk_crash_prefix bs (orc n) _ _ Flush mid op tail j Hbs (proj1 H3) Ec eq_refl Hp) as (m & Hm & LD).
  rewrite Sp in Hm. rewrite <- A3 in LD.
  assert (Hle : List.length (ds_batches bs d1) <= List.length (ds_batches bs d3)).
  { rewrite B3, fold_left_app, <- B1. cbn [fold_left disk_step]. rewrite disk_step_added, app_length. lia. }
  destruct (le_lt_dec m (List.length (ds_batches bs d3))) as [Hs|Hs].
  - exists m. now repeat split.
  - exists (List.length (ds_batches bs d3)). split; [exact Hle|]. split; [apply le_n|].
    rewrite LD. now rewrite firstn_all, firstn_all2 by lia.
Qed.

(** the abstraction of the first m batches: batch i < m as the whole list, nothing else *)
Lemma abs_store_firstn n L m i :
  store_get (abs_store enc n (firstn m L)) i = if i <? m then store_get (abs_store enc n L) i else None.
Proof. rewrite !abs_store_get, nth_error_firstn_lt. now destruct (i <? m). Qed.

(** what a kill leaves of store [d3] (state at the end of run 2) that was [d1] at the flush *)
Definition kill_safe (n : name) (d1 d3 : dstore) : Prop :=
  exists ps1 qs,
    ds_hist n d1 ps1 /\ ds_hist n d3 (ps1 ++ PFlush :: qs) /\
    (0 < List.length (ds_batches bs d1) ->
     forall mid op tail j, compile (ds_batches bs d1) qs = mid ++ op :: tail ->
     exists m, List.length (ds_batches bs d1) <= m /\ m <= List.length (ds_batches bs d3) /\
       loads (crash_disk current bs (orc n) (compile [] ps1 ++ Flush :: mid) op j)
       = Some (flat (firstn m (ds_batches bs d3))) /\
       forall i, store_get (abs_store enc n (firstn m (ds_batches bs d3))) i
                 = if i <? m then store_get (abs_store enc n (ds_batches bs d3)) i else None).

Variable dec : name -> value -> batch.

Lemma step_batch_disk_ext ds i ds1 out log :
  step_batch_disk bs orc enc dec ds i = Ok (ds1, out, log) -> step_repr bs enc dec (dr_pool ds) out ->
  dp_ext (dr_pool ds) (dr_pool ds1).
Proof.
  intros E R. unfold step_batch_disk in E.
  destruct (execute (load (disk_loaded bs orc enc (dr_pool ds) i) (dr_net ds)) (dr_cache ds)) as [[[out0 log0] c0]|e];
    cbn [bind] in E; [|discriminate].
  inversion E; subst; clear E. cbn [dr_pool].
  apply dp_ext_trans with (dp_all bs orc (dr_pool ds) [PGet i]); [apply dp_all_ext; repeat constructor|].
  unfold disk_add_out, disk_get_batch. cbn [fst]. apply disk_add_with_ext.
  intros n d b Hin Hb. apply dp_all_stores in Hin. destruct Hin as (d0 & Hd0 & _).
  destruct (lookup n out) as [v|] eqn:El; [|discriminate]. inversion Hb; subst.
  exact (proj2 (R n d0 v Hd0 El)).
Qed.

Lemma run_batches_disk_ext : forall idxs ds ds' obs,
  run_all bs orc enc dec (repr_at bs enc dec) ds idxs ->
  run_batches_disk bs orc enc dec ds idxs = Ok (ds', obs) -> dp_ext (dr_pool ds) (dr_pool ds').
Proof.
  induction idxs as [|i r IH]; intros ds ds' obs H E.
  - inversion E; subst. apply dp_ext_refl.
  - cbn [run_batches_disk run_all] in *.
    destruct (step_batch_disk bs orc enc dec ds i) as [[[ds1 out] log]|e] eqn:Es; cbn [bind] in E; [|discriminate].
    destruct H as [R Hr].
    destruct (run_batches_disk bs orc enc dec ds1 r) as [[ds2 rest]|e2] eqn:E2; cbn [bind] in E; [|discriminate].
    inversion E; subst.
    exact (dp_ext_trans _ _ _ (step_batch_disk_ext ds i ds1 out log Es R) (IH ds1 ds' rest Hr E2)).
Qed.

(** Pool-level crash safety.  Run 1 over [idxs1], ArrayPool.flush of all stores, run 2 over [idxs2]
    (any net, any cache; run 2 is taken up to where it got: [idxs2] is the list of batches it
    completed).  For every store [d3] of the final pool there is the store [d1] it was when run 1
    ended, and pool histories [ps1] (up to the flush) and [qs] (after it) of THIS store such that: if
    the store held a batch at the flush, then for every kill point of [qs] - [j] low-level operations
    into store operation [op], after the store operations [mid] - the file left by the kill loads to
    the first [m] batches [d3] reports, [batches held at the flush <= m <= batches held at the end],
    and the abstraction of these [m] batches answers every batch index below [m] as the final pool
    and nothing above. *)
Theorem dpool_crash_prefix idxs1 idxs2 ds ds1 obs1 g2 c2 ds3 obs2 :
  dp_reach (dr_pool ds) ->
  run_all bs orc enc dec (repr_at bs enc dec) ds idxs1 ->
  run_batches_disk bs orc enc dec ds idxs1 = Ok (ds1, obs1) ->
  let ds2 := {| dr_net := g2; dr_pool := dp_all bs orc (dr_pool ds1) [PFlush]; dr_cache := c2 |} in
  run_all bs orc enc dec (repr_at bs enc dec) ds2 idxs2 ->
  run_batches_disk bs orc enc dec ds2 idxs2 = Ok (ds3, obs2) ->
  dp_reach (dr_pool ds3) /\
  forall n d3, In (n, d3) (dp_stores (dr_pool ds3)) ->
    In (n, abs_store enc n (ds_batches bs d3)) (stores (abs_pool bs enc (dr_pool ds3))) /\
    exists d1, In (n, d1) (dp_stores (dr_pool ds1)) /\ kill_safe n d1 d3.
Proof.
  intros R H1 E1 ds2 H2 E2.
  pose proof (run_batches_disk_ext _ _ _ _ H1 E1) as X1.
  pose proof (run_batches_disk_ext _ _ _ _ H2 E2) as X2. cbn [ds2 dr_pool] in X2.
  pose proof (dp_ext_reach _ _ X1 R) as R1.
  assert (W : wfpool bs [PFlush]) by (repeat constructor).
  split; [exact (dp_ext_reach _ _ X2 (dp_ext_reach _ _ (dp_all_ext _ _ W) R1))|].
  intros n d3 H3. split.
  { unfold abs_pool, abs_stores. cbn [stores]. apply in_map_iff. exists (n, d3). now split. }
  destruct (X2 n d3 H3) as (d1f & Hf & Xf). apply dp_all_stores in Hf. destruct Hf as (d1 & Hd1 & ->).
  exists d1. split; [exact Hd1|]. destruct (R1 n d1 Hd1) as [ps1 Hp1].
  destruct (Xf _ (ds_hist_run n d1 ps1 [PFlush] Hp1 W)) as [qs Hq]. rewrite <- app_assoc in Hq. cbn [app] in Hq.
  exists ps1, qs. split; [exact Hp1|]. split; [exact Hq|].
  intros Hn mid op tail j E.
  destruct (ds_crash_prefix n d1 d3 ps1 qs Hp1 Hq Hn mid op tail j E) as (m & Ha & Hb & LD).
  exists m. repeat split; try assumption. intros i. apply abs_store_firstn.
Qed.

(** ... and with run 1 over batches 0 .. k-1 every store of a node of the net (or of the handler's
    output set) holds at least k batches at the flush: the crash leaves at least batches 0 .. k-1 *)
Lemma part_inv_along_run : forall n k ds, dp_good bs orc (dr_pool ds) -> CacheOK (dr_cache ds) -> part_inv bs ds k ->
  run_all bs orc enc dec (repr_at bs enc dec) ds (seq k n) ->
  forall ds' obs, run_batches_disk bs orc enc dec ds (seq k n) = Ok (ds', obs) -> part_inv bs ds' (k + n).
Proof.
  induction n as [|n IH]; intros k ds G Hc PI H ds' obs E.
  - inversion E; subst. now rewrite Nat.add_0_r.
  - cbn [seq run_all run_batches_disk] in *.
    destruct (step_batch_disk bs orc enc dec ds k) as [[[ds1 out] log]|e] eqn:Es; cbn [bind] in E; [|discriminate].
    destruct H as [R Hr].
    destruct (step_contig_inv bs Hbs orc enc dec ds k ds1 out log G Hc PI Es R) as (C & Hc1 & PI1).
    destruct (step_batch_disk_ok bs Hbs orc enc dec ds k ds1 out log G Es R C) as [G1 _].
    destruct (run_batches_disk bs orc enc dec ds1 (seq (S k) n)) as [[ds2 rest]|e2] eqn:E2; cbn [bind] in E; [|discriminate].
    inversion E; subst. rewrite <- Nat.add_succ_comm. exact (IH (S k) ds1 G1 Hc1 PI1 Hr ds' rest E2).
Qed.

Theorem dpool_crash_prefix_batches k ds ds1 obs1 :
  dp_reach (dr_pool ds) -> CacheOK (dr_cache ds) ->
  run_all bs orc enc dec (repr_at bs enc dec) ds (seq 0 k) ->
  run_batches_disk bs orc enc dec ds (seq 0 k) = Ok (ds1, obs1) ->
  forall n d1, In (n, d1) (dp_stores (dr_pool ds1)) ->
    has n (c_nodes (dr_net ds1)) = true \/ In n (c_outputs (dr_net ds1)) ->
    k <= List.length (ds_batches bs d1).
Proof.
  intros R Hc H E n d1 Hin Hn.
  exact (part_inv_along_run k 0 ds (dp_reach_good _ R) Hc (part_inv_zero bs ds) H ds1 obs1 E n d1 Hin Hn).
Qed.

(** The restart scenario in one statement: run 1 over batches 0 .. k-1, ArrayPool.flush of all
    stores, run 2 of the same handler over batches k .. k+n2-1.  Both runs are the runs of Pool.v on
    the abstraction (same outputs, same call logs, final pool = abstraction of the final disk pool),
    and for every store of a node of the net a kill at any point of run 2 leaves a file that loads to
    batches 0 .. m-1 of what the run produced, k <= m. *)
Theorem dpool_crash_restart k n2 ds ds1 obs1 ds3 obs2 :
  dp_reach (dr_pool ds) -> CacheOK (dr_cache ds) ->
  run_all bs orc enc dec (repr_at bs enc dec) ds (seq 0 k) ->
  run_batches_disk bs orc enc dec ds (seq 0 k) = Ok (ds1, obs1) ->
  let ds2 := {| dr_net := dr_net ds1; dr_pool := dp_all bs orc (dr_pool ds1) [PFlush]; dr_cache := dr_cache ds1 |} in
  run_all bs orc enc dec (repr_at bs enc dec) ds2 (seq k n2) ->
  run_batches_disk bs orc enc dec ds2 (seq k n2) = Ok (ds3, obs2) ->
  run_batches (abs_state bs enc ds) (seq 0 k) = Ok (abs_state bs enc ds1, obs1)
  /\ run_batches (abs_state bs enc ds1) (seq k n2) = Ok (abs_state bs enc ds3, obs2)
  /\ forall n d3, In (n, d3) (dp_stores (dr_pool ds3)) ->
       has n (c_nodes (dr_net ds1)) = true \/ In n (c_outputs (dr_net ds1)) ->
       In (n, abs_store enc n (ds_batches bs d3)) (stores (abs_pool bs enc (dr_pool ds3))) /\
       exists d1, In (n, d1) (dp_stores (dr_pool ds1)) /\ k <= List.length (ds_batches bs d1) /\ kill_safe n d1 d3.
Proof.
  intros R Hc H1 E1 ds2 H2 E2. pose proof (dp_reach_good _ R) as G.
  pose proof (run_batches_disk_from_zero bs Hbs orc enc dec k ds G Hc H1) as D1.
  rewrite E1 in D1. cbn [map_res abs_run fst snd] in D1.
  destruct (proj2 (contig_along_run bs Hbs orc enc dec k 0 ds G Hc (part_inv_zero bs ds) H1) ds1 obs1 E1) as [G1 Hc1].
  pose proof (part_inv_along_run k 0 ds G Hc (part_inv_zero bs ds) H1 ds1 obs1 E1) as PI1. cbn [Nat.add] in PI1.
  assert (N : neutral [PFlush]) by (repeat constructor).
  destruct (dp_all_neutral bs Hbs orc enc (dr_pool ds1) [PFlush] G1 N) as (G2 & A2 & B2).
  assert (PI2 : part_inv bs ds2 k).
  { intros n d' Hin Hn. cbn [ds2 dr_pool dr_net] in Hin, Hn. destruct (B2 n d' Hin) as (d & Hd & ->).
    exact (PI1 n d Hd Hn). }
  pose proof (proj1 (contig_along_run bs Hbs orc enc dec n2 k ds2 G2 Hc1 PI2 H2)) as Ok2.
  pose proof (run_batches_disk_abs bs Hbs orc enc dec (seq k n2) ds2 G2 Ok2) as D2.
  rewrite E2 in D2. cbn [map_res abs_run fst snd] in D2.
  assert (Ea : abs_state bs enc ds2 = abs_state bs enc ds1).
  { unfold abs_state. cbn [ds2 dr_net dr_pool dr_cache]. now rewrite A2. }
  rewrite Ea in D2.
  split; [now symmetry|]. split; [now symmetry|].
  intros n d3 H3 Hn.
  destruct (dpool_crash_prefix (seq 0 k) (seq k n2) ds ds1 obs1 (dr_net ds1) (dr_cache ds1) ds3 obs2 R H1 E1 H2 E2)
    as [_ X].
  destruct (X n d3 H3) as (Ha & d1 & Hd1 & K). split; [exact Ha|]. exists d1. split; [exact Hd1|].
  split; [exact (PI1 n d1 Hd1 Hn) | exact K].
Qed.

End Durable.
