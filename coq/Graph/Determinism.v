(** Correspondence interface for C02: one model built in two node-insertion orders, and histories of
    generate calls and in-place edits on one model object. *)
From Coq Require Import List String ZArith Arith Bool.
From Elfi Require Import Graph.Net Graph.Denote.
Import ListNotations.

(** One generate call of a history on ONE model object (earlier steps of the history: other generate
    calls with various outputs and seeds, and edits through the public API - become, observed data,
    runtime flags, parameters, added / removed nodes and edges).  The model has no cross-call state:
    [generate] is a function of the CURRENT source net only, so the model's answer for the step is
    its answer for [h_src], whatever came before. *)
Record hstep := {
  h_src : snet;                 (* source net of the edited object as introspected at this call *)
  h_fresh : snet;               (* a freshly built model object with the same nodes, edges and observed
                                   data (inserted in another order), on which nothing was computed *)
  h_outputs : list name;
  h_impl : impl_result;         (* generate(seed=s) on the object with the history *)
  h_impl_fresh : impl_result    (* generate(seed=s) on the fresh build *)
}.

Record case := {
  d_src1 : snet;                (* source net as introspected after building in creation order *)
  d_src2 : snet;                (* the same model built in another valid insertion order *)
  d_outputs : list name;
  d_impl1 : impl_result;        (* generate(seed=s) on the first *)
  d_impl2 : impl_result;        (* generate(seed=s) on the second, after unrelated computations *)
  d_hist : list hstep           (* the generate calls of a history of calls and edits on the first *)
}.

Definition impl_eqb (a b : impl_result) : bool :=
  match a, b with
  | ImplErr, ImplErr => true
  | ImplOk o1 l1, ImplOk o2 l2 => outs_eqb o1 o2 && names_eqb l1 l2
  | _, _ => false
  end.

Definition model_result (src : snet) (outs : list name) : impl_result :=
  match generate src outs [] with
  | Ok (out, log) => ImplOk out (op_log src log)
  | Err _ => ImplErr
  end.

(** the model reproduces both runs of a history step: the run on the edited object from the object's
    CURRENT graph alone, and the run on the fresh build *)
Definition step_agree (s : hstep) : bool :=
  impl_eqb (model_result (h_src s) (h_outputs s)) (h_impl s)
  && impl_eqb (model_result (h_fresh s) (h_outputs s)) (h_impl_fresh s).

(** a generate call returns what a freshly built equivalent model returns: it does not depend on
    earlier generate calls or edits of the same object beyond the current graph *)
Definition step_ok (s : hstep) : bool :=
  impl_eqb (h_impl s) (h_impl_fresh s).

(** the model reproduces both runs, and every step of the history *)
Definition agree (c : case) : bool :=
  impl_eqb (model_result (d_src1 c) (d_outputs c)) (d_impl1 c)
  && impl_eqb (model_result (d_src2 c) (d_outputs c)) (d_impl2 c)
  && forallb step_agree (d_hist c).

(** the property: results and the order of operation calls (hence of draws from the single
    batch generator) do not depend on insertion order or on what was computed before - neither in
    the process nor on the same model object *)
Definition ok (c : case) : bool :=
  impl_eqb (d_impl1 c) (d_impl2 c)
  && forallb step_ok (d_hist c).
