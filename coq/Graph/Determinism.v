(** Correspondence interface for C02: one model built in two node-insertion orders. *)
From Coq Require Import List String ZArith Arith Bool.
From Elfi Require Import Graph.Net Graph.Denote.
Import ListNotations.

Record case := {
  d_src1 : snet;                (* source net as introspected after building in creation order *)
  d_src2 : snet;                (* the same model built in another valid insertion order *)
  d_outputs : list name;
  d_impl1 : impl_result;        (* generate(seed=s) on the first *)
  d_impl2 : impl_result         (* generate(seed=s) on the second, after unrelated computations *)
}.

Definition impl_eqb (a b : impl_result) : bool :=
  match a, b with
  | ImplErr, ImplErr => true
  | ImplOk o1 l1, ImplOk o2 l2 => outs_eqb o1 o2 && names_eqb l1 l2
  | _, _ => false
  end.

Definition model_result (src : snet) (outs : list name) : impl_result :=
  match generate src outs [] with
  | Ok (out, log) => ImplOk out (op_log src log)
  | Err _ => ImplErr
  end.

(** the model reproduces both runs *)
Definition agree (c : case) : bool :=
  impl_eqb (model_result (d_src1 c) (d_outputs c)) (d_impl1 c)
  && impl_eqb (model_result (d_src2 c) (d_outputs c)) (d_impl2 c).

(** the property: results and the order of operation calls (hence of draws from the single
    batch generator) do not depend on insertion order or on what was computed before *)
Definition ok (c : case) : bool :=
  impl_eqb (d_impl1 c) (d_impl2 c).
