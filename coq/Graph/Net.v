(** The ELFI graph calculus: source nets, compilation (elfi/compiler.py), loading
    (elfi/loader.py) and execution (elfi/executor.py) as executable Gallina functions.

    Values flowing through a graph are symbolic terms: an operation is uninterpreted and its
    result records exactly what it was called with.  Names are ASCII strings ordered by
    [String.compare] (= Python's [sorted] on ASCII [str]).                                    *)
From Coq Require Import List String Ascii ZArith Arith Bool.
Import ListNotations.

Definition name := string.

Inductive param := PInt (i : nat) | PStr (s : string).

Inductive op := OpUser (n : name) | OpTuple.   (* a user operation (named by its node) | args_to_tuple *)

Inductive value :=
| VConst (k : Z)                      (* a constant / an observation / a supplied value *)
| VBatch                              (* context.batch_size *)
| VMeta                               (* the run metadata dict *)
| VRng                                (* the batch generator RandomState(sub_seed(seed, batch_index)) *)
| VApp (o : op) (args : list value) (kwargs : list (string * value)).

(** ---- decidable equalities ---- *)
Definition param_eqb (a b : param) : bool :=
  match a, b with
  | PInt i, PInt j => Nat.eqb i j
  | PStr s, PStr t => String.eqb s t
  | _, _ => false
  end.

Definition op_eqb (a b : op) : bool :=
  match a, b with
  | OpUser n, OpUser m => String.eqb n m
  | OpTuple, OpTuple => true
  | _, _ => false
  end.

Fixpoint value_eqb (a b : value) {struct a} : bool :=
  match a, b with
  | VConst k, VConst l => Z.eqb k l
  | VBatch, VBatch => true
  | VMeta, VMeta => true
  | VRng, VRng => true
  | VApp o xs ks, VApp p ys ls =>
      op_eqb o p
      && (fix eql (l1 l2 : list value) {struct l1} : bool :=
            match l1, l2 with
            | [], [] => true
            | x :: r1, y :: r2 => value_eqb x y && eql r1 r2
            | _, _ => false
            end) xs ys
      && (fix eqk (l1 l2 : list (string * value)) {struct l1} : bool :=
            match l1, l2 with
            | [], [] => true
            | (s, x) :: r1, (t, y) :: r2 => String.eqb s t && value_eqb x y && eqk r1 r2
            | _, _ => false
            end) ks ls
  | _, _ => false
  end.

(** ---- association lists in insertion order (Python dicts / networkx node dicts) ---- *)
Section Assoc.
  Context {A : Type}.
  Fixpoint lookup (n : name) (l : list (name * A)) : option A :=
    match l with
    | [] => None
    | (m, a) :: r => if String.eqb n m then Some a else lookup n r
    end.
  Definition has (n : name) (l : list (name * A)) : bool :=
    match lookup n l with Some _ => true | None => false end.
  (** update an existing key in place, or append *)
  Fixpoint set (n : name) (a : A) (l : list (name * A)) : list (name * A) :=
    match l with
    | [] => [(n, a)]
    | (m, b) :: r => if String.eqb n m then (m, a) :: r else (m, b) :: set n a r
    end.
  Definition remove (n : name) (l : list (name * A)) : list (name * A) :=
    filter (fun p => negb (String.eqb n (fst p))) l.
End Assoc.

Definition mem (n : name) (l : list name) : bool := existsb (String.eqb n) l.

(** sorted(names): insertion sort by [String.leb] *)
Fixpoint insert_name (n : name) (l : list name) : list name :=
  match l with
  | [] => [n]
  | m :: r => if String.leb n m then n :: l else m :: insert_name n r
  end.
Definition sort_names (l : list name) : list name := fold_right insert_name [] l.

Fixpoint dedup_names (l : list name) : list name :=
  match l with
  | [] => []
  | n :: r => if mem n r then dedup_names r else n :: dedup_names r
  end.

(** ---- edges: networkx DiGraph semantics (one edge per ordered pair; re-adding updates) ---- *)
Definition edge := (name * name * param)%type.
Definition e_src (e : edge) : name := fst (fst e).
Definition e_dst (e : edge) : name := snd (fst e).
Definition e_par (e : edge) : param := snd e.

Fixpoint add_edge (u v : name) (p : param) (es : list edge) : list edge :=
  match es with
  | [] => [(u, v, p)]
  | e :: r => if String.eqb u (e_src e) && String.eqb v (e_dst e) then (u, v, p) :: r
              else e :: add_edge u v p r
  end.

Definition preds (es : list edge) (n : name) : list (name * param) :=
  map (fun e => (e_src e, e_par e)) (filter (fun e => String.eqb n (e_dst e)) es).
Definition succs (es : list edge) (n : name) : list name :=
  map e_dst (filter (fun e => String.eqb n (e_src e)) es).

(** ---- source net (ElfiModel.source_net) ---- *)
Record sstate := {
  s_output : option value;       (* _output *)
  s_has_op : bool;               (* _operation present *)
  s_stochastic : bool;
  s_observable : bool;
  s_uses_observed : bool;
  s_uses_batch_size : bool;
  s_uses_meta : bool;
  s_parameter : bool;
  s_opid : name                 (* identity of the operation callable (survives NodeReference.become) *)
}.

Record snet := {
  s_nodes : list (name * sstate);
  s_edges : list edge;
  s_observed : list (name * value)
}.

(** ---- compiled / loaded net ---- *)
Record cnode := { c_out : option value; c_op : option op }.

Record cnet := {
  c_nodes : list (name * cnode);
  c_edges : list edge;
  c_outputs : list name;               (* graph['outputs'] *)
  c_observed : list (name * value)     (* graph['observed'] *)
}.

Inductive err :=
| EBothOutputAndOp (n : name)
| ENoOutputOrOp (n : name)
| EObservedExists (n : name)
| EStochasticObserved (n : name)
| ECycle
| EMissingNode (n : name)
| EMissingOutput (n : name)
| EBadCall (n : name)
| EFuel.

Inductive res (A : Type) := Ok (a : A) | Err (e : err).
Arguments Ok {A} a.
Arguments Err {A} e.

Definition bind {A B} (r : res A) (f : A -> res B) : res B :=
  match r with Ok a => f a | Err e => Err e end.
Notation "'do' x <- r ; k" := (bind r (fun x => k)) (at level 200, x pattern, r at level 100, k at level 200).

Definition observed_name (n : name) : name := String.append "_"%string (String.append n "_observed"%string).

(** add_node(n, **attrs): networkx updates the dict of an existing node *)
Definition add_node (n : name) (c : cnode) (g : cnet) : cnet :=
  {| c_nodes := set n c (c_nodes g); c_edges := c_edges g;
     c_outputs := c_outputs g; c_observed := c_observed g |}.

(** add_node(n) without attributes: keeps an existing node *)
Definition ensure_node (n : name) (g : cnet) : cnet :=
  if has n (c_nodes g) then g else add_node n {| c_out := None; c_op := None |} g.

(** add_edge(u, v, param=p): creates missing end points as attribute-less nodes *)
Definition add_cedge (u v : name) (p : param) (g : cnet) : cnet :=
  let g1 := ensure_node v (ensure_node u g) in
  {| c_nodes := c_nodes g1; c_edges := add_edge u v p (c_edges g1);
     c_outputs := c_outputs g1; c_observed := c_observed g1 |}.

(** remove_node: the node and its edges *)
Definition remove_cnode (n : name) (g : cnet) : cnet :=
  {| c_nodes := remove n (c_nodes g);
     c_edges := filter (fun e => negb (String.eqb n (e_src e)) && negb (String.eqb n (e_dst e))) (c_edges g);
     c_outputs := c_outputs g; c_observed := c_observed g |}.

(** ---- reachability: nx.ancestors ---- *)
(** one closure step: add every source of an edge whose target is in [acc] *)
Definition anc_step (es : list edge) (acc : list name) : list name :=
  fold_left (fun a e => if mem (e_dst e) a && negb (mem (e_src e) a) then a ++ [e_src e] else a) es acc.

Fixpoint anc_iter (fuel : nat) (es : list edge) (acc : list name) : list name :=
  match fuel with
  | O => acc
  | S f => let acc' := anc_step es acc in
           if Nat.eqb (List.length acc') (List.length acc) then acc else anc_iter f es acc'
  end.

(** set of [roots] and all their ancestors (nbunch_ancestors) *)
Definition ancestors_incl (es : list edge) (roots : list name) : list name :=
  anc_iter (S (List.length es)) es (dedup_names roots).

(** ---- the five compilers ---- *)

(** OutputCompiler *)
Fixpoint compile_outputs (ns : list (name * sstate)) : res (list (name * cnode)) :=
  match ns with
  | [] => Ok []
  | (n, st) :: r =>
      do rest <- compile_outputs r;
      match s_output st, s_has_op st with
      | Some _, true => Err (EBothOutputAndOp n)
      | Some v, false => Ok ((n, {| c_out := Some v; c_op := None |}) :: rest)
      | None, true => Ok ((n, {| c_out := None; c_op := Some (OpUser (s_opid st)) |}) :: rest)
      | None, false => Err (ENoOutputOrOp n)
      end
  end.

(** make_observed_copy *)
Definition make_observed_copy (n : name) (operation : option op) (g : cnet) : res cnet :=
  let on := observed_name n in
  if has on (c_nodes g) then Err (EObservedExists on) else
  match operation with
  | None => match lookup n (c_nodes g) with
            | Some c => Ok (add_node on c g)
            | None => Err (EMissingNode n)
            end
  | Some o => Ok (add_node on {| c_out := None; c_op := Some o |} g)
  end.

(** the "Copy the edges" loop for one node *)
Definition copy_observed_edges (src : snet) (observable : list name) (n : name) (g : cnet) : cnet :=
  fold_left (fun g1 (pp : name * param) =>
               let link := if mem (fst pp) observable then observed_name (fst pp) else fst pp in
               add_cedge link (observed_name n) (snd pp) g1)
            (preds (s_edges src) n) g.

(** ObservedCompiler main loop over the nodes in a topological order [topo] of the source net *)
Fixpoint compile_observed (src : snet) (topo : list name) (observable uses : list name) (g : cnet)
  : res (cnet * list name * list name) :=
  match topo with
  | [] => Ok (g, observable, uses)
  | n :: r =>
      match lookup n (s_nodes src) with
      | None => Err (EMissingNode n)
      | Some st =>
          if s_observable st then
            do g1 <- make_observed_copy n None g;
            let g2 := if s_stochastic st then g1 else copy_observed_edges src (observable ++ [n]) n g1 in
            compile_observed src r (observable ++ [n]) uses g2
          else if s_uses_observed st then
            do g1 <- make_observed_copy n (Some OpTuple) g;
            let g1' := add_cedge (observed_name n) n (PStr "observed"%string) g1 in
            let g2 := if s_stochastic st then g1' else copy_observed_edges src observable n g1' in
            compile_observed src r observable (uses ++ [n]) g2
          else compile_observed src r observable uses g
      end
  end.

Definition is_stochastic (src : snet) (n : name) : bool :=
  match lookup n (s_nodes src) with Some st => s_stochastic st | None => false end.

(** "Check that there are no stochastic nodes in the ancestors" *)
Fixpoint check_stochastic (src : snet) (g : cnet) (uses : list name) : res unit :=
  match uses with
  | [] => Ok tt
  | n :: r =>
      let anc := ancestors_incl (c_edges g) [observed_name n] in
      match find (is_stochastic src) (tl anc) with
      | Some a => Err (EStochasticObserved a)
      | None => check_stochastic src g r
      end
  end.

(** AdditionalNodesCompiler for one instruction *)
Definition compile_instruction (src : snet) (flag : sstate -> bool) (inode : name) (g : cnet) : cnet :=
  fold_left (fun g1 (ns : name * sstate) =>
               if flag (snd ns) then add_cedge inode (fst ns) (PStr (substring 1 (String.length inode) inode)) g1 else g1)
            (s_nodes src) g.

(** ReduceCompiler *)
Definition compile_reduce (g : cnet) : cnet :=
  let keep := ancestors_incl (c_edges g) (c_outputs g) in
  fold_left (fun g1 (nc : name * cnode) => if mem (fst nc) keep then g1 else remove_cnode (fst nc) g1)
            (c_nodes g) g.

(** a topological order of the source net (the order only fixes insertion order of twins) *)
Fixpoint topo_iter (fuel : nat) (es : list edge) (todo done : list name) : list name :=
  match fuel with
  | O => done ++ todo
  | S f =>
      let ready := filter (fun n => forallb (fun pp => mem (fst pp) done) (preds es n)) todo in
      match ready with
      | [] => done ++ todo
      | _ => topo_iter f es (filter (fun n => negb (mem n ready)) todo) (done ++ ready)
      end
  end.
Definition topo_order (src : snet) : list name :=
  topo_iter (S (List.length (s_nodes src))) (s_edges src) (map fst (s_nodes src)) [].

(** the names before the first occurrence of [n] in [l] *)
Fixpoint firstn_before (n : name) (l : list name) : list name :=
  match l with
  | [] => []
  | m :: r => if String.eqb n m then [] else m :: firstn_before n r
  end.

Definition compile (src : snet) (outputs : list name) : res cnet :=
  do cn <- compile_outputs (s_nodes src);
  let g0 := {| c_nodes := cn; c_edges := s_edges src; c_outputs := outputs; c_observed := s_observed src |} in
  do topo <- (let t := topo_order src in
              if forallb (fun n => forallb (fun pp => mem (fst pp) (firstn_before n t)) (preds (s_edges src) n)) t
              then Ok t else Err ECycle);
  do r <- compile_observed src topo [] [] g0;
  let '(g1, _, uses) := r in
  do _ <- check_stochastic src g1 uses;
  let g2 := compile_instruction src s_uses_batch_size "_batch_size"%string g1 in
  let g3 := compile_instruction src s_uses_meta "_meta"%string g2 in
  let g4 := compile_instruction src s_stochastic "_random_state"%string g3 in
  Ok (compile_reduce g4).

(** ---- the loaders ---- *)
Definition set_output (n : name) (v : value) (drop_op : bool) (g : cnet) : cnet :=
  match lookup n (c_nodes g) with
  | None => g
  | Some c => add_node n {| c_out := Some v; c_op := if drop_op then None else c_op c |} g
  end.

(** ObservedLoader *)
Definition load_observed (g : cnet) : cnet :=
  fold_left (fun g1 (nv : name * value) => set_output (observed_name (fst nv)) (snd nv) true g1)
            (c_observed g) g.

(** AdditionalNodesLoader + RandomStateLoader (integer seed) *)
Definition load_runtime (g : cnet) : cnet :=
  set_output "_random_state"%string VRng false (set_output "_meta"%string VMeta false (set_output "_batch_size"%string VBatch false g)).

(** PoolLoader: [pool] lists the pool's stores; [Some v] = the batch holds a value, [None] = the
    store exists but holds nothing for this batch (the node is added to the outputs). *)
Definition load_pool (pool : list (name * option value)) (g : cnet) : cnet :=
  fold_left (fun g1 (nv : name * option value) =>
               if has (fst nv) (c_nodes g1) then
                 match snd nv with
                 | Some v => set_output (fst nv) v true g1
                 | None => if mem (fst nv) (c_outputs g1) then g1 else
                           {| c_nodes := c_nodes g1; c_edges := c_edges g1;
                              c_outputs := c_outputs g1 ++ [fst nv]; c_observed := c_observed g1 |}
                 end
               else g1)
            pool g.

Definition load (pool : list (name * option value)) (g : cnet) : cnet :=
  load_pool pool (load_runtime (load_observed g)).

(** ---- the executor ---- *)

(** nx_constant_topological_sort: name-sorted DFS with an explicit stack (head = top) *)
Fixpoint dfs (fuel : nat) (es : list edge) (fringe seen explored order : list name)
  : res (list name * list name * list name) :=
  match fringe with
  | [] => Ok (seen, explored, order)
  | w :: rest =>
      match fuel with
      | O => Err EFuel
      | S f =>
          if mem w explored then dfs f es rest seen explored order else
          let seen' := if mem w seen then seen else w :: seen in
          let cand := filter (fun n => negb (mem n explored)) (sort_names (succs es w)) in
          if existsb (fun n => mem n seen') cand then Err ECycle else
          match cand with
          | [] => dfs f es rest seen' (w :: explored) (order ++ [w])
          | _ => dfs f es (rev cand ++ fringe) seen' explored order
          end
      end
  end.

Fixpoint dfs_all (fuel : nat) (es : list edge) (nbunch seen explored order : list name) : res (list name) :=
  match nbunch with
  | [] => Ok (rev order)
  | v :: r =>
      if mem v explored then dfs_all fuel es r seen explored order else
      do st <- dfs fuel es [v] seen explored order;
      let '(seen', explored', order') := st in
      dfs_all fuel es r seen' explored' order'
  end.

Definition sort_order (g : cnet) : res (list name) :=
  dfs_all (2 * (List.length (c_nodes g) + List.length (c_edges g)) + 2) (c_edges g)
          (sort_names (map fst (c_nodes g))) [] [] [].

Definition has_op (g : cnet) (n : name) : bool :=
  match lookup n (c_nodes g) with Some c => match c_op c with Some _ => true | None => false end | None => false end.
Definition has_out (g : cnet) (n : name) : bool :=
  match lookup n (c_nodes g) with Some c => match c_out c with Some _ => true | None => false end | None => false end.

Definition names_eqb (a b : list name) : bool :=
  if list_eq_dec string_dec a b then true else false.

(** the executor cache shared by all loaded nets of one context: the name-sorted topological order,
    and the execution order per (requested outputs that still have an operation, nodes whose output
    is loaded) *)
Definition okey := (list name * list name)%type.
Record ecache := { ec_sort : option (list name); ec_orders : list (okey * list name) }.
Definition empty_cache : ecache := {| ec_sort := None; ec_orders := [] |}.

Definition okey_eqb (a b : okey) : bool := names_eqb (fst a) (fst b) && names_eqb (snd a) (snd b).

Fixpoint lookup_order (k : okey) (l : list (okey * list name)) : option (list name) :=
  match l with
  | [] => None
  | (k', o) :: r => if okey_eqb k k' then Some o else lookup_order k r
  end.

(** frozenset(node for node in G.nodes if 'output' in G.nodes[node]), in canonical (sorted) form *)
Definition loaded_names (g : cnet) : list name := sort_names (filter (has_out g) (map fst (c_nodes g))).

(** the validity scan of get_execution_order over sort_order *)
Fixpoint scan_nodes (g : cnet) (order : list name) : res unit :=
  match order with
  | [] => Ok tt
  | n :: r =>
      match lookup n (c_nodes g) with
      | None => Err (EMissingNode n)
      | Some c => match c_out c, c_op c with
                  | Some _, Some _ => Err (EBothOutputAndOp n)
                  | None, None => Err (ENoOutputOrOp n)
                  | _, _ => scan_nodes g r
                  end
      end
  end.

Definition get_execution_order (g : cnet) (cache : ecache) : res (list name * ecache) :=
  let needed := sort_names (dedup_names (filter (has_op g) (c_outputs g))) in
  match needed with
  | [] => Ok ([], cache)
  | _ =>
      let key := (needed, loaded_names g) in
      match lookup_order key (ec_orders cache) with
      | Some o => Ok (o, cache)
      | None =>
          do so <- match ec_sort cache with Some so => Ok so | None => sort_order g end;
          do _ <- scan_nodes g so;
          (* dependency graph: nodes whose output is present are removed with their edges *)
          let dep := filter (fun e => negb (has_out g (e_src e)) && negb (has_out g (e_dst e))) (c_edges g) in
          let exec := ancestors_incl dep needed in
          let o := filter (fun n => mem n exec) so in
          Ok (o, {| ec_sort := Some so; ec_orders := ec_orders cache ++ [(key, o)] |})
      end
  end.

(** stable insertion sort of positional arguments by index *)
Fixpoint insert_arg (a : nat * value) (l : list (nat * value)) : list (nat * value) :=
  match l with
  | [] => [a]
  | b :: r => if Nat.ltb (fst a) (fst b) then a :: l else b :: insert_arg a r
  end.

(** kwargs dict: a later parent with the same name overwrites the value, keeps the position *)
Definition mk_call (o : op) (pv : list (param * value)) : value :=
  let args := fold_left (fun acc (x : param * value) =>
                           match fst x with PInt i => acc ++ [(i, snd x)] | PStr _ => acc end) pv [] in
  let kwargs := fold_left (fun acc (x : param * value) =>
                           match fst x with PStr s => set s (snd x) acc | PInt _ => acc end) pv [] in
  VApp o (map snd (fold_left (fun acc a => insert_arg a acc) args []))
       (map (fun s => (s, match lookup s kwargs with Some v => v | None => VBatch end)) (sort_names (map fst kwargs))).

(** Executor._run *)
Fixpoint gather (g : cnet) (ps : list (name * param)) : res (list (param * value)) :=
  match ps with
  | [] => Ok []
  | (u, p) :: r =>
      match lookup u (c_nodes g) with
      | None => Err (EMissingNode u)
      | Some c => match c_out c with
                  | None => Err (EMissingOutput u)
                  | Some v => do rest <- gather g r; Ok ((p, v) :: rest)
                  end
      end
  end.

(** args_to_tuple takes positional arguments only: a named parent makes the call fail *)
Definition call_ok (o : op) (pv : list (param * value)) : bool :=
  match o with
  | OpTuple => forallb (fun x : param * value => match fst x with PInt _ => true | PStr _ => false end) pv
  | OpUser _ => true
  end.

(** the execution loop; the log records every operation call in order *)
Fixpoint run_order (g : cnet) (order : list name) (log : list name) : res (cnet * list name) :=
  match order with
  | [] => Ok (g, log)
  | n :: r =>
      match lookup n (c_nodes g) with
      | None => Err (EMissingNode n)
      | Some c =>
          match c_out c, c_op c with
          | Some _, Some _ => Err (EBothOutputAndOp n)
          | _, Some o =>
              do pv <- gather g (preds (c_edges g) n);
              if negb (call_ok o pv) then Err (EBadCall n) else
              run_order (add_node n {| c_out := Some (mk_call o pv); c_op := None |} g) r (log ++ [n])
          | Some _, None => run_order g r log
          | None, None => Err (ENoOutputOrOp n)
          end
      end
  end.

Fixpoint collect (g : cnet) (outs : list name) : res (list (name * value)) :=
  match outs with
  | [] => Ok []
  | n :: r =>
      match lookup n (c_nodes g) with
      | None => Err (EMissingNode n)
      | Some c => match c_out c with
                  | None => Err (EMissingOutput n)
                  | Some v => do rest <- collect g r; Ok ((n, v) :: rest)
                  end
      end
  end.

(** Executor.execute: results for the (sorted, distinct) outputs, the call log, the new cache *)
Definition execute (g : cnet) (cache : ecache) : res (list (name * value) * list name * ecache) :=
  do oc <- get_execution_order g cache;
  let '(order, cache') := oc in
  do gl <- run_order g order [];
  let '(g', log) := gl in
  do out <- collect g' (sort_names (dedup_names (c_outputs g)));
  Ok (out, log, cache').

(** ElfiModel.generate(outputs, with_values) on a fresh context *)
Definition generate (src : snet) (outputs : list name) (with_values : list (name * value))
  : res (list (name * value) * list name) :=
  do g <- compile src outputs;
  let lg := load (map (fun nv => (fst nv, Some (snd nv))) with_values) g in
  do r <- execute lg empty_cache;
  let '(out, log, _) := r in Ok (out, log).
