(** The user-level dataflow meaning of an ELFI model graph (the specification side of C03):
    what every node "should" evaluate to, written directly over the source net, without
    compilation, loading or an execution order.                                              *)
From Coq Require Import List String ZArith Arith Bool.
From Elfi Require Import Graph.Net.
Import ListNotations.

Definition sstate_of (src : snet) (n : name) : option sstate := lookup n (s_nodes src).

Definition flag (src : snet) (f : sstate -> bool) (n : name) : bool :=
  match sstate_of src n with Some st => f st | None => false end.

(** the node a twin links to for parent [p]: the parent's twin when [p] is observable *)
Definition link (src : snet) (p : name) : name :=
  if flag src s_observable p then observed_name p else p.

Fixpoint all_some {A} (l : list (option A)) : option (list A) :=
  match l with
  | [] => Some []
  | Some a :: r => match all_some r with Some r' => Some (a :: r') | None => None end
  | None :: _ => None
  end.

(** [den fuel src W obs n]: meaning of node [n] ([obs = false]) or of its observed twin
    ([obs = true]); [W] holds supplied values (keys may be twin names). *)
Fixpoint den (fuel : nat) (src : snet) (W : list (name * value)) (obs : bool) (n : name) : option value :=
  match fuel with
  | O => None
  | S f =>
      let key := if obs then observed_name n else n in
      match lookup key W with
      | Some v => Some v
      | None =>
          match sstate_of src n with
          | None => None
          | Some st =>
              let parents := preds (s_edges src) n in
              if obs then
                if s_observable st then
                  match lookup n (s_observed src) with
                  | Some v => Some v
                  | None =>
                      if s_stochastic st then Some (VApp (OpUser (s_opid st)) [] [])
                      else
                        match all_some (map (fun pp : name * param =>
                                               if flag src s_observable (fst pp) then den f src W true (fst pp)
                                               else den f src W false (fst pp)) parents) with
                        | Some vs => Some (mk_call (OpUser (s_opid st)) (combine (map snd parents) vs))
                        | None => None
                        end
                  end
                else if s_uses_observed st then
                  if s_stochastic st then Some (mk_call OpTuple [])
                  else
                    match all_some (map (fun pp : name * param =>
                                           if flag src s_observable (fst pp) then den f src W true (fst pp)
                                           else den f src W false (fst pp)) parents) with
                    | Some vs => Some (mk_call OpTuple (combine (map snd parents) vs))
                    | None => None
                    end
                else None
              else
                match s_output st with
                | Some v => Some v
                | None =>
                    match all_some (map (fun pp : name * param => den f src W false (fst pp)) parents) with
                    | None => None
                    | Some vs =>
                        let base := combine (map snd parents) vs in
                        let obs_kw :=
                          if s_uses_observed st && negb (s_observable st) then
                            match den f src W true n with
                            | Some v => Some [(PStr "observed"%string, v)]
                            | None => None
                            end
                          else Some [] in
                        match obs_kw with
                        | None => None
                        | Some okw =>
                            Some (mk_call (OpUser (s_opid st))
                                    (base ++ okw
                                     ++ (if s_uses_batch_size st then [(PStr "batch_size"%string, VBatch)] else [])
                                     ++ (if s_uses_meta st then [(PStr "meta"%string, VMeta)] else [])
                                     ++ (if s_stochastic st then [(PStr "random_state"%string, VRng)] else [])))
                        end
                    end
                end
          end
      end
  end.

Definition den_fuel (src : snet) : nat := 2 * List.length (s_nodes src) + 3.

(** meaning of a requested output name (plain node, or the twin name of a node) *)
Definition den_name (src : snet) (W : list (name * value)) (o : name) : option value :=
  match sstate_of src o with
  | Some _ => den (den_fuel src) src W false o
  | None =>
      (* a twin name "_x_observed" *)
      match find (fun ns : name * sstate => String.eqb (observed_name (fst ns)) o) (s_nodes src) with
      | Some (x, _) => den (den_fuel src) src W true x
      | None => None
      end
  end.

(** ---- the user-level dependency relation (edges [dependency -> dependent]) ---- *)
Definition twin_edges (src : snet) : list edge :=
  flat_map (fun ns : name * sstate =>
              let n := fst ns in let st := snd ns in
              if (s_observable st || s_uses_observed st) && negb (s_stochastic st) then
                map (fun pp : name * param => (link src (fst pp), observed_name n, snd pp)) (preds (s_edges src) n)
              else [])
           (s_nodes src)
  ++ flat_map (fun ns : name * sstate =>
              if s_uses_observed (snd ns) && negb (s_observable (snd ns))
              then [(observed_name (fst ns), fst ns, PStr "observed"%string)] else [])
           (s_nodes src).

Definition dep_edges (src : snet) : list edge := s_edges src ++ twin_edges src.

(** is there a value for this name without running anything? *)
Definition given (src : snet) (W : list (name * value)) (n : name) : bool :=
  has n W
  || match sstate_of src n with
     | Some st => match s_output st with Some _ => true | None => false end
     | None =>
         existsb (fun ns : name * sstate =>
                    String.eqb (observed_name (fst ns)) n && s_observable (snd ns) && has (fst ns) (s_observed src))
                 (s_nodes src)
     end.

(** the operations that must run for outputs [O]: everything [O] depends on, cut at given values *)
Definition needed_ops (src : snet) (W : list (name * value)) (O : list name) : list name :=
  let cut := filter (fun e => negb (given src W (e_dst e))) (dep_edges src) in
  filter (fun n => negb (given src W n)) (ancestors_incl cut O).

(** observed data would depend on a stochastic node (the coded rejection rule, user level) *)
Definition stochastic_observed (src : snet) : bool :=
  existsb (fun ns : name * sstate =>
             s_uses_observed (snd ns) && negb (s_observable (snd ns))
             && existsb (fun a => flag src s_stochastic a)
                        (tl (ancestors_incl (twin_edges src ++ s_edges src) [observed_name (fst ns)])))
          (s_nodes src).

(** stricter: also an unobserved stochastic observable twin among the observed dependencies *)
Definition stochastic_twin_observed (src : snet) : bool :=
  existsb (fun ns : name * sstate =>
             s_uses_observed (snd ns) && negb (s_observable (snd ns))
             && existsb (fun a => existsb (fun ms : name * sstate =>
                                             String.eqb (observed_name (fst ms)) a && s_observable (snd ms)
                                             && s_stochastic (snd ms) && negb (has (fst ms) (s_observed src)))
                                          (s_nodes src))
                        (ancestors_incl (twin_edges src ++ s_edges src) [observed_name (fst ns)]))
          (s_nodes src).

(** ---- correspondence-check interface ---- *)
Inductive impl_result :=
| ImplErr                                                   (* the implementation raised *)
| ImplOk (outs : list (name * value)) (log : list name).    (* outputs sorted by name, call order *)

Record case := {
  k_src : snet;
  k_outputs : list name;
  k_with : list (name * value);
  k_impl : impl_result
}.

Fixpoint outs_eqb (a b : list (name * value)) : bool :=
  match a, b with
  | [], [] => true
  | (n, v) :: r, (m, w) :: s => String.eqb n m && value_eqb v w && outs_eqb r s
  | _, _ => false
  end.

Definition subset (a b : list name) : bool := forallb (fun x => mem x b) a.
Fixpoint nodup_b (l : list name) : bool :=
  match l with [] => true | x :: r => negb (mem x r) && nodup_b r end.

(** the user operation a (plain or twin) node name runs: the recording operations of the
    harness log their own name, also when invoked for the observed twin; args_to_tuple is silent *)
Definition op_name_of (src : snet) (n : name) : list name :=
  match sstate_of src n with
  | Some st => [s_opid st]
  | None =>
      match find (fun ns : name * sstate => String.eqb (observed_name (fst ns)) n) (s_nodes src) with
      | Some (x, st) => if s_observable st then [s_opid st] else []
      | None => []
      end
  end.
Definition op_log (src : snet) (log : list name) : list name := flat_map (op_name_of src) log.

Definition count (n : name) (l : list name) : nat := List.length (filter (String.eqb n) l).
Definition same_multiset (a b : list name) : bool :=
  forallb (fun n => Nat.eqb (count n a) (count n b)) (a ++ b).

(** model = implementation: same outputs, same call order (or both fail) *)
Definition agree (c : case) : bool :=
  match generate (k_src c) (k_outputs c) (k_with c), k_impl c with
  | Err _, ImplErr => true
  | Ok (out, log), ImplOk iout ilog => outs_eqb out iout && names_eqb (op_log (k_src c) log) ilog
  | _, _ => false
  end.

(** names of the runtime nodes ELFI adds to every compiled net itself (batch size, meta data,
    random state): a user node with such a name would be overwritten by the loaders *)
Definition reserved_names : list name := ["_batch_size"; "_meta"; "_random_state"]%string.

(** at most one edge per ordered pair of nodes (a networkx DiGraph stores one edge per pair) *)
Fixpoint edge_pairs_distinct (es : list edge) : bool :=
  match es with
  | [] => true
  | e :: r =>
      negb (existsb (fun e' => String.eqb (e_src e) (e_src e') && String.eqb (e_dst e) (e_dst e')) r)
      && edge_pairs_distinct r
  end.

(** the graphs the property speaks about: named DAGs whose nodes carry exactly one of
    output / operation, without a node already named like an observed twin; requested outputs
    are nodes or twins; plus the conditions below under which ELFI (and the model) accept a run
    ([Proofs/C03_Refusal.v]: [wf_case] and no stochastic observed data => the model succeeds) *)
Definition wf_case (c : case) : bool :=
  let src := k_src c in
  let ns := s_nodes src in
  nodup_b (map fst ns)
  && forallb (fun x : name * sstate =>
                xorb (match s_output (snd x) with Some _ => true | None => false end) (s_has_op (snd x))) ns
  && forallb (fun e => has (e_src e) ns && has (e_dst e) ns) (s_edges src)
  && forallb (fun x : name * sstate =>
                if s_observable (snd x) || s_uses_observed (snd x) then negb (has (observed_name (fst x)) ns) else true) ns
  && (let t := topo_order src in
      forallb (fun n => forallb (fun pp : name * param => mem (fst pp) (firstn_before n t)) (preds (s_edges src) n)) t)
  && forallb (fun o => has o ns
                       || existsb (fun x : name * sstate =>
                                     String.eqb (observed_name (fst x)) o
                                     && (s_observable (snd x) || s_uses_observed (snd x))) ns)
             (k_outputs c)
  (* one edge per ordered pair of nodes: the source net is a networkx DiGraph *)
  && edge_pairs_distinct (s_edges src)
  (* no user node carries a reserved runtime name: ELFI adds "_batch_size", "_meta" and
     "_random_state" itself and its loaders set their outputs *)
  && forallb (fun i => negb (has i ns)) reserved_names
  (* an observable node is an operation (Simulator, Summary, Distance, ...), never a constant:
     it has no "_output"; its observed twin gets the observed data or re-runs the operation *)
  && forallb (fun x : name * sstate =>
                if s_observable (snd x) then match s_output (snd x) with None => true | Some _ => false end
                else true) ns
  (* [model.observed] is a dict (distinct keys) ... *)
  && nodup_b (map fst (s_observed src))
  (* ... filled by the constructors of observable nodes only ([observed=] argument) *)
  && forallb (fun kv : name * value => flag src s_observable (fst kv)) (s_observed src)
  (* args_to_tuple takes positional arguments only: the parents of an observed-using,
     not observable, not stochastic node are copied to its args_to_tuple twin, so a named
     parent makes the twin's call raise (Proofs/C03_Succeeds.v, tuple_named_parent_refused) *)
  && forallb (fun x : name * sstate =>
                if negb (s_observable (snd x)) && s_uses_observed (snd x) && negb (s_stochastic (snd x))
                then forallb (fun pp : name * param => match snd pp with PInt _ => true | PStr _ => false end)
                             (preds (s_edges src) (fst x))
                else true) ns
  (* [with_values] is a dict: distinct keys ... *)
  && nodup_b (map fst (k_with c))
  (* ... holding outputs of user nodes (or their twins); the runtime nodes are set by the loaders *)
  && forallb (fun kv : name * value => negb (mem (fst kv) reserved_names)) (k_with c).

(** the property on the implementation's result *)
Definition ok (c : case) : bool :=
  match k_impl c with
  | ImplErr =>
      (* a run may only be refused for a malformed graph or for observed data that would
         depend on a stochastic node *)
      negb (wf_case c) || stochastic_observed (k_src c)
  | ImplOk iout ilog =>
      negb (stochastic_observed (k_src c))
      && forallb (fun nv : name * value =>
                    match den_name (k_src c) (k_with c) (fst nv) with
                    | Some v => value_eqb v (snd nv)
                    | None => false
                    end) iout
      && names_eqb (map fst iout) (sort_names (dedup_names (k_outputs c)))
      && same_multiset ilog (op_log (k_src c) (needed_ops (k_src c) (k_with c) (k_outputs c)))
  end.

(** the stricter reading: an unobserved stochastic observable feeding observed data is rejected *)
Definition ok_strict (c : case) : bool :=
  match k_impl c with
  | ImplErr => true
  | ImplOk _ _ => negb (stochastic_twin_observed (k_src c))
  end.
