(** The joint model prior (elfi/model/augmenter.py add_pdf_nodes/_add_distribution_nodes/
    add_reduce_node, ModelPrior._evaluate_pdf) over the graph calculus (C08). *)
From Coq Require Import List String Ascii ZArith Arith Bool.
From Elfi Require Import Graph.Net Graph.Edit.
Import ListNotations.

Definition pdf_attr (log : bool) : string := if log then "logpdf"%string else "pdf"%string.

(** '_{}_{}'.format(n, attr) *)
Definition pdf_node (log : bool) (p : name) : name :=
  String.append "_" (String.append p (String.append "_" (pdf_attr log))).

(** identity of the bound method distribution.pdf of a distribution with identity d *)
Definition pdf_opid (log : bool) (d : name) : name := String.append (pdf_attr log) (String.append ":" d).

(** identity of the distribution object held by parameter node p (node.distribution): it is part of
    the node's state, so it follows the node through become(...) and is NOT a function of the name *)
Definition dist_id (m : snet) (p : name) : name :=
  match lookup p (s_nodes m) with Some st => s_opid st | None => p end.

Definition joint_node : name := "_joint"%string.

Definition op_state (id : name) : sstate :=
  {| s_output := None; s_has_op := true; s_stochastic := false; s_observable := false; s_uses_observed := false;
     s_uses_batch_size := false; s_uses_meta := false; s_parameter := false; s_opid := id |}.

(** _add_distribution_nodes: Operation(op, *([node] + node.parents), name='_n_attr') for every n *)
Fixpoint add_distribution_nodes (m : snet) (P : list name) (log : bool) : res snet :=
  match P with
  | [] => Ok m
  | p :: r =>
      if negb (has p (s_nodes m)) then Err (EMissingNode p) else
      do m1 <- step_model m (EAddNode 0 (pdf_node log p) (op_state (pdf_opid log (dist_id m p))) (p :: get_parents m p) None);
      add_distribution_nodes m1 r log
  end.

(** add_pdf_nodes(model, joint=True, log, nodes=P): pdf nodes, then the reduce node over them *)
Definition augment (m : snet) (P : list name) (log : bool) : res snet :=
  do m1 <- add_distribution_nodes m P log;
  step_model m1 (EAddNode 0 joint_node (op_state "reduce"%string) (map (pdf_node log) P) None).

(** what the reduce operation computes from its arguments: functools.reduce(mul | add, args) *)
Definition binop (log : bool) (a b : value) : value :=
  VApp (OpUser (if log then "add" else "mul")%string) [a; b] [].

Definition reduce_args (log : bool) (args : list value) : option value :=
  match args with
  | [] => None
  | a :: r => Some (fold_left (binop log) r a)
  end.

Definition interp_reduce (log : bool) (v : value) : option value :=
  match v with
  | VApp (OpUser o) args [] => if String.eqb o "reduce" then reduce_args log args else None
  | _ => None
  end.

(** ModelPrior._evaluate_pdf: the joint node with the parameter columns supplied.  [evaluate_in] is
    the part that runs on every call (load the compiled net, override the parameter nodes, execute);
    the augmented net [a] is prepared once, in ModelPrior.__init__.  Nothing is carried from one
    call to the next: the result is a function of the augmented net and the supplied point only. *)
Definition evaluate_in (a : snet) (log : bool) (x : list (name * value)) : res value :=
  do r <- generate a [joint_node] x;
  match lookup joint_node (fst r) with
  | Some v => match interp_reduce log v with Some t => Ok t | None => Err (EMissingOutput joint_node) end
  | None => Err (EMissingOutput joint_node)
  end.

Definition evaluate (m : snet) (P : list name) (log : bool) (x : list (name * value)) : res value :=
  do a <- augment m P log;
  evaluate_in a log x.

(** ---- the specification: product (sum of logs) of the conditional densities ---- *)
(** value of a parent of a parameter at the point x: the supplied column, or the constant *)
Definition arg_value (m : snet) (x : list (name * value)) (q : name) : option value :=
  match lookup q x with
  | Some v => Some v
  | None => match lookup q (s_nodes m) with
            | Some st => s_output st
            | None => None
            end
  end.

Fixpoint all_some {A} (l : list (option A)) : option (list A) :=
  match l with
  | [] => Some []
  | Some a :: r => match all_some r with Some r' => Some (a :: r') | None => None end
  | None :: _ => None
  end.

(** density factor of parameter p: pdf_p(x_p; parents' values) *)
Definition factor (m : snet) (log : bool) (x : list (name * value)) (p : name) : option value :=
  match lookup p x, all_some (map (arg_value m x) (get_parents m p)) with
  | Some xp, Some args => Some (VApp (OpUser (pdf_opid log (dist_id m p))) (xp :: args) [])
  | _, _ => None
  end.

Definition joint_spec (m : snet) (P : list name) (log : bool) (x : list (name * value)) : option value :=
  match all_some (map (factor m log x) P) with
  | Some fs => reduce_args log fs
  | None => None
  end.

(** well-formed request: distinct requested parameters, each a parameter node whose positional
    parents are constants or requested parameters (closed under parameter parents) *)
Definition wf_request (m : snet) (P : list name) : bool :=
  nodup_names P
  && negb (match P with [] => true | _ => false end)
  && forallb (fun p => match lookup p (s_nodes m) with
                       | Some st => s_parameter st
                                    && forallb (fun q => mem q P || match lookup q (s_nodes m) with
                                                                   | Some sq => match s_output sq with Some _ => true | None => false end
                                                                   | None => false
                                                                   end) (get_parents m p)
                       | None => false
                       end) P.

(** ---- correspondence-check interface ---- *)
Record case := {
  p_model : snet;                        (* the user's model (introspected) *)
  p_params : list name;                  (* requested parameter names, in order *)
  p_log : bool;
  p_augmented : snet;                    (* source net after the real add_pdf_nodes (joint node renamed) *)
  p_point : list (name * value);         (* the supplied columns *)
  p_impl : option value                  (* symbolic value returned by ModelPrior._evaluate_pdf, None = raised *)
}.

Definition opt_eqb (a b : option value) : bool :=
  match a, b with Some x, Some y => value_eqb x y | None, None => true | _, _ => false end.

Definition agree (c : case) : bool :=
  match augment (p_model c) (p_params c) (p_log c) with
  | Ok a => snet_eqb a (p_augmented c)
  | Err _ => false
  end
  && opt_eqb (match evaluate (p_model c) (p_params c) (p_log c) (p_point c) with Ok v => Some v | Err _ => None end)
             (p_impl c).

Definition ok (c : case) : bool :=
  negb (wf_request (p_model c) (p_params c))
  || opt_eqb (joint_spec (p_model c) (p_params c) (p_log c) (p_point c)) (p_impl c).

(** ---- histories: several joint-prior objects, several calls on each (wave 2) ----
    ModelPrior.pdf/logpdf on an array: x.reshape((-1, dim)), column i feeds parameter i, every row
    is one point; a 0-d input, and a 1-d input when dim > 1, is a single point whose answer is
    val[0] (no axes); every other input gives one answer per row (one axis).  The model keeps
    nothing between two calls and nothing between two objects: each call is evaluated from the
    graph the object was built from and the call's own array, whatever happened before. *)
Record call := {
  c_log : bool;
  c_shape : list nat;                          (* shape of the array handed to pdf / logpdf *)
  c_data : list Z;                             (* its elements in C order *)
  c_impl : option (list nat * list value)      (* observed shape and elements of the answer, None = raised *)
}.

Record epoch := {
  e_model : snet;                              (* the user's model when this ModelPrior was built (introspected then) *)
  e_params : list name;
  e_calls : list call                          (* the calls made on this object, at any later time of the history *)
}.

Fixpoint take_row (d : nat) (l : list Z) : option (list Z * list Z) :=
  match d with
  | O => Some ([], l)
  | S d' => match l with
            | [] => None
            | z :: r => match take_row d' r with Some (row, rest) => Some (z :: row, rest) | None => None end
            end
  end.

(** reshape((-1, d)) of the flat data; None = the size is not a multiple of d *)
Fixpoint rows_of (fuel d : nat) (l : list Z) : option (list (list Z)) :=
  match l with
  | [] => Some []
  | _ :: _ =>
      match fuel with
      | O => None
      | S f => match take_row d l with
               | Some (row, rest) => match rows_of f d rest with Some rs => Some (row :: rs) | None => None end
               | None => None
               end
      end
  end.

Fixpoint map_res {A B} (f : A -> res B) (l : list A) : res (list B) :=
  match l with
  | [] => Ok []
  | a :: r => do b <- f a; do bs <- map_res f r; Ok (b :: bs)
  end.

(** _to_batch: column i of the row is the value of requested parameter i *)
Definition point_of (P : list name) (row : list Z) : list (name * value) := combine P (map VConst row).

(** ndim == 0 or (ndim == 1 and dim > 1) *)
Definition single_point_form (dim : nat) (shape : list nat) : bool :=
  match shape with [] => true | [_] => Nat.ltb 1 dim | _ => false end.

Definition eval_rows (m : snet) (P : list name) (log : bool) (rows : list (list Z)) : res (list value) :=
  do a <- augment m P log;
  map_res (fun r => evaluate_in a log (point_of P r)) rows.

Definition eval_call (m : snet) (P : list name) (c : call) : option (list nat * list value) :=
  let dim := List.length P in
  match rows_of (List.length (c_data c)) dim (c_data c) with
  | None => None
  | Some rows =>
      match eval_rows m P (c_log c) rows with
      | Err _ => None
      | Ok vs => if single_point_form dim (c_shape c)
                 then match vs with v :: _ => Some ([], [v]) | [] => None end
                 else Some ([List.length vs], vs)
      end
  end.

Fixpoint values_eqb (a b : list value) : bool :=
  match a, b with
  | [], [] => true
  | x :: r, y :: s => value_eqb x y && values_eqb r s
  | _, _ => false
  end.

Fixpoint shape_eqb (a b : list nat) : bool :=
  match a, b with
  | [], [] => true
  | x :: r, y :: s => Nat.eqb x y && shape_eqb r s
  | _, _ => false
  end.

Definition answer_eqb (a b : option (list nat * list value)) : bool :=
  match a, b with
  | Some (s, v), Some (t, w) => shape_eqb s t && values_eqb v w
  | None, None => true
  | _, _ => false
  end.

Definition agree_call (m : snet) (P : list name) (c : call) : bool := answer_eqb (eval_call m P c) (c_impl c).

Definition agree_epoch (e : epoch) : bool := forallb (agree_call (e_model e) (e_params e)) (e_calls e).

(** the forms of input the property speaks about: a scalar (one parameter), a vector that is one point
    (several parameters) or a list of points (one parameter), a matrix with one point per row; the
    number of points and whether the answer has an axis *)
Definition proper_form (dim : nat) (shape : list nat) : option (nat * bool) :=
  match shape with
  | [] => if Nat.eqb dim 1 then Some (1, false) else None
  | [k] => if Nat.eqb dim 1 then (if Nat.eqb k 0 then None else Some (k, true))
           else if Nat.eqb k dim then Some (1, false) else None
  | [n; d] => if Nat.eqb d dim && negb (Nat.eqb n 0) then Some (n, true) else None
  | _ => None
  end.

Definition spec_rows (m : snet) (P : list name) (log : bool) (rows : list (list Z)) : option (list value) :=
  all_some (map (fun r => joint_spec m P log (point_of P r)) rows).

(** the property on one call: a proper input of n points is answered with exactly n values (no axis
    for a single point given as scalar / vector), each the product (sum of logs) of the conditional
    densities at its own row *)
Definition ok_call (m : snet) (P : list name) (c : call) : bool :=
  let dim := List.length P in
  match proper_form dim (c_shape c) with
  | None => true
  | Some (n, axis) =>
      negb (Nat.eqb (List.length (c_data c)) (n * dim))
      || match rows_of (List.length (c_data c)) dim (c_data c), c_impl c with
         | Some rows, Some (sh, vs) =>
             shape_eqb sh (if axis then [n] else [])
             && match spec_rows m P (c_log c) rows with Some ws => values_eqb ws vs | None => false end
         | _, _ => false
         end
  end.

Definition ok_epoch (e : epoch) : bool :=
  negb (wf_request (e_model e) (e_params e)) || forallb (ok_call (e_model e) (e_params e)) (e_calls e).

(** ---- gradient_logpdf (wave 3) ----
    ModelPrior.gradient_logpdf(x, stepsize): x.reshape((-1, dim)); for EVERY ROW ON ITS OWN
    numgrad(self.logpdf, row, h=stepsize): the 3*dim stencil points row + s*h_d*e_d (s = -1, 0, 1), one
    logpdf evaluation of them, zeros when some stencil value OF THAT ROW is -inf, else the central
    differences (f[2] - f[0]) / (2*h); infinite / nan entries are then set to 0; a 0-d input, and a 1-d
    input when dim > 1, is a single point whose answer is grads[0] (shape (dim,)); every other input
    gives one gradient per row (shape (n, dim)).  Computed in binary64 (PrimFloat), as the code does;
    the log density is a parameter of the model: a function of the point (row-wise, which is what
    C08_matrix_rows says about the model of logpdf on a matrix). *)
From Coq Require Import PrimFloat.

Fixpoint take_rowA {A} (d : nat) (l : list A) : option (list A * list A) :=
  match d with
  | O => Some ([], l)
  | S d' => match l with
            | [] => None
            | z :: r => match take_rowA d' r with Some (row, rest) => Some (z :: row, rest) | None => None end
            end
  end.

Fixpoint rows_ofA {A} (fuel d : nat) (l : list A) : option (list (list A)) :=
  match l with
  | [] => Some []
  | _ :: _ =>
      match fuel with
      | O => None
      | S f => match take_rowA d l with
               | Some (row, rest) => match rows_ofA f d rest with Some rs => Some (row :: rs) | None => None end
               | None => None
               end
      end
  end.

Definition fpoint := list float.
Definition logdens := fpoint -> option float.          (* None = not defined / not supplied *)

(** h = 0.00001 if h is None *)
Definition default_step : float := 0x1.4f8b588e368f1p-17%float.

(** h.reshape(-1) broadcast against the dim coordinates: one stepsize, or one per dimension *)
Definition expand_h (dim : nat) (h : list float) : option (list float) :=
  match h with
  | [a] => Some (repeat a dim)
  | _ => if Nat.eqb (List.length h) dim then Some h else None
  end.

(** Xi.diagonal() + (i - 1) * h on row d of the tile: coordinate d moved by s * h_d *)
Fixpoint shift_at (x : fpoint) (hs : list float) (d : nat) (s : float) : fpoint :=
  match x, hs with
  | xv :: xr, hv :: hr => match d with
                          | O => PrimFloat.add xv (PrimFloat.mul s hv) :: xr
                          | S d' => xv :: shift_at xr hr d' s
                          end
  | _, _ => x
  end.

Definition stencil_row (x : fpoint) (hs : list float) (s : float) : list fpoint :=
  map (fun d => shift_at x hs d s) (seq 0 (List.length x)).

(** the 3*dim evaluation points of numgrad for the point x *)
Definition stencil_points (x : fpoint) (hs : list float) : list fpoint :=
  stencil_row x hs (-1)%float ++ stencil_row x hs 0%float ++ stencil_row x hs 1%float.

Definition is_neginf (f : float) : bool := PrimFloat.eqb f neg_infinity.

Definition cdiff_f (f2 f0 h : float) : float := PrimFloat.div (PrimFloat.sub f2 f0) (PrimFloat.mul 2%float h).

Fixpoint cdiffs (f2 f0 hs : list float) : list float :=
  match f2, f0, hs with
  | a :: r, b :: s, h :: t => cdiff_f a b h :: cdiffs r s t
  | _, _, _ => []
  end.

(** the stencil values of the point x: (f[0], f[1], f[2]) *)
Definition stencil_values (lp : logdens) (hs : list float) (x : fpoint) : option (list float * list float * list float) :=
  match all_some (map lp (stencil_row x hs (-1)%float)), all_some (map lp (stencil_row x hs 0%float)),
        all_some (map lp (stencil_row x hs 1%float)) with
  | Some f0, Some f1, Some f2 => Some (f0, f1, f2)
  | _, _, _ => None
  end.

(** elfi.methods.utils.numgrad(fn, x, h) with replace_neg_inf *)
Definition numgrad (lp : logdens) (hs : list float) (x : fpoint) : option (list float) :=
  match stencil_values lp hs x with
  | Some (f0, f1, f2) =>
      if existsb is_neginf (f0 ++ f1 ++ f2) then Some (repeat 0%float (List.length x))
      else Some (cdiffs f2 f0 hs)
  | None => None
  end.

(** grads[np.isinf(grads)] = 0; grads[np.isnan(grads)] = 0 *)
Definition clean (g : float) : float := if is_infinity g || is_nan g then 0%float else g.

(** the gradient row of ONE point: a function of the log density on that point's own stencil only *)
Definition grad_point (lp : logdens) (hs : list float) (x : fpoint) : option (list float) :=
  option_map (map clean) (numgrad lp hs x).

Record gcall := {
  g_step : option (list float);                (* stepsize: None, or the elements of asanyarray(stepsize).reshape(-1) *)
  g_shape : list nat;                          (* shape of the array handed to gradient_logpdf *)
  g_data : list float;                         (* its elements in C order *)
  g_analytic : list (option float);            (* oracle: analytic derivative of the joint log density, entry by entry
                                                  (C order), where the harness vouches for it; [] = none *)
  g_impl : option (list nat * list float)      (* observed shape and elements of the answer, None = raised *)
}.

Definition grad_call (lp : logdens) (dim : nat) (c : gcall) : option (list nat * list float) :=
  match expand_h dim (match g_step c with Some h => h | None => [default_step] end) with
  | None => None
  | Some hs =>
      match rows_ofA (List.length (g_data c)) dim (g_data c) with
      | None => None
      | Some rows =>
          match all_some (map (grad_point lp hs) rows) with
          | None => None
          | Some gs => if single_point_form dim (g_shape c)
                       then match gs with g :: _ => Some ([dim], g) | [] => None end
                       else Some ([List.length gs; dim], List.concat gs)
          end
      end
  end.

(** comparison of binary64 values: |a - b| <= tol * max(1, |b|); a nan never agrees with anything *)
Definition fclose (tol a b : float) : bool :=
  PrimFloat.leb (abs (PrimFloat.sub a b))
                (PrimFloat.mul tol (if PrimFloat.ltb (abs b) 1%float then 1%float else abs b)).

Fixpoint fclose_list (tol : float) (a b : list float) : bool :=
  match a, b with
  | [], [] => true
  | x :: r, y :: s => fclose tol x y && fclose_list tol r s
  | _, _ => false
  end.

Definition tol_stencil : float := 0x1.0c6f7a0b5ed8dp-20%float.      (* 1e-6 *)
Definition tol_analytic : float := 0x1.0624dd2f1a9fcp-10%float.     (* 1e-3 *)

Definition ganswer_close (a b : option (list nat * list float)) : bool :=
  match a, b with
  | Some (s, v), Some (t, w) => shape_eqb s t && fclose_list tol_stencil w v
  | None, None => true
  | _, _ => false
  end.

Definition agree_gcall (lp : logdens) (dim : nat) (c : gcall) : bool := ganswer_close (grad_call lp dim c) (g_impl c).

(** an observed entry against the analytic derivative, where one is supplied *)
Fixpoint analytic_ok (g : list float) (an : list (option float)) : bool :=
  match g, an with
  | x :: r, Some a :: s => fclose tol_analytic x a && analytic_ok r s
  | _ :: r, None :: s => analytic_ok r s
  | _, _ => true
  end.

(** the property on one row of the answer: the row is judged by the log density on ITS OWN stencil -
    zero where that stencil reaches a point of zero density (the convention of the code for "no
    derivative"), the central difference of the log density (and the analytic derivative where
    supplied) where the log density is finite on the whole stencil; nothing is demanded where the log
    density itself is nan / +inf (reported under the finding of pdf/logpdf) *)
Definition row_ok (lp : logdens) (hs : list float) (x g : list float) (an : list (option float)) : bool :=
  match stencil_values lp hs x with
  | Some (f0, f1, f2) =>
      let all := f0 ++ f1 ++ f2 in
      if existsb is_neginf all then Nat.eqb (List.length g) (List.length x) && forallb (fun v => PrimFloat.eqb v 0%float) g
      else if forallb is_finite all then fclose_list tol_stencil g (cdiffs f2 f0 hs) && analytic_ok g an
      else Nat.eqb (List.length g) (List.length x)
  | None => false
  end.

Fixpoint rows_ok (lp : logdens) (hs : list float) (rows grows : list (list float)) (ans : list (list (option float))) : bool :=
  match rows, grows with
  | [], [] => true
  | x :: r, g :: s => row_ok lp hs x g (hd [] ans) && rows_ok lp hs r s (tl ans)
  | _, _ => false
  end.

(** the property on one call: a proper input of n points is answered with n gradient rows of dim
    entries (a single point given as scalar / vector: one row, no points axis), row i judged by the
    log density around point i alone *)
Definition ok_gcall (lp : logdens) (dim : nat) (c : gcall) : bool :=
  match proper_form dim (g_shape c) with
  | None => true
  | Some (n, axis) =>
      negb (Nat.eqb (List.length (g_data c)) (n * dim))
      || match expand_h dim (match g_step c with Some h => h | None => [default_step] end),
               rows_ofA (List.length (g_data c)) dim (g_data c), g_impl c with
         | Some hs, Some rows, Some (sh, vs) =>
             shape_eqb sh (if axis then [n; dim] else [dim])
             && match rows_ofA (List.length vs) dim vs with
                | Some grows =>
                    rows_ok lp hs rows grows
                            (match rows_ofA (List.length (g_analytic c)) dim (g_analytic c) with Some a => a | None => [] end)
                | None => false
                end
         | None, _, _ => true                       (* stepsizes that fit neither form: outside the property *)
         | _, _, _ => false
         end
  end.

(** the log density as the harness supplies it: a table point -> value obtained from the
    implementation's own logpdf, one evaluation per stencil of a single row *)
Fixpoint fpoint_eqb (a b : fpoint) : bool :=
  match a, b with
  | [], [] => true
  | x :: r, y :: s => PrimFloat.eqb x y && fpoint_eqb r s
  | _, _ => false
  end.

Fixpoint table_lookup (t : list (fpoint * float)) (p : fpoint) : option float :=
  match t with
  | [] => None
  | (q, v) :: r => if fpoint_eqb q p then Some v else table_lookup r p
  end.

Record gcase := {
  gc_dim : nat;                                (* number of requested parameters *)
  gc_table : list (fpoint * float);            (* the log density of the object on the stencils of all rows used *)
  gc_calls : list gcall                        (* calls on one object: a matrix, its rows alone, other forms / stepsizes *)
}.

Definition agree_gcase (c : gcase) : bool := forallb (agree_gcall (table_lookup (gc_table c)) (gc_dim c)) (gc_calls c).
Definition ok_gcase (c : gcase) : bool := forallb (ok_gcall (table_lookup (gc_table c)) (gc_dim c)) (gc_calls c).

(** one correspondence case: a single evaluation with the augmented net introspected (wave 1), a
    history of edits, objects and calls (wave 2), or gradient calls on one object (wave 3) *)
Inductive tcase := Single (c : case) | History (h : list epoch) | Gradient (g : gcase).

Definition agree_t (t : tcase) : bool :=
  match t with Single c => agree c | History h => forallb agree_epoch h | Gradient g => agree_gcase g end.

Definition ok_t (t : tcase) : bool :=
  match t with Single c => ok c | History h => forallb ok_epoch h | Gradient g => ok_gcase g end.
