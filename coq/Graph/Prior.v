(** The joint model prior (elfi/model/augmenter.py add_pdf_nodes/_add_distribution_nodes/
    add_reduce_node, ModelPrior._evaluate_pdf) over the graph calculus (C08). *)
From Coq Require Import List String Ascii ZArith Arith Bool.
From Elfi Require Import Graph.Net Graph.Edit.
Import ListNotations.

Definition pdf_attr (log : bool) : string := if log then "logpdf"%string else "pdf"%string.

(** '_{}_{}'.format(n, attr) *)
Definition pdf_node (log : bool) (p : name) : name :=
  String.append "_" (String.append p (String.append "_" (pdf_attr log))).

(** identity of the bound method distribution.pdf of parameter p *)
Definition pdf_opid (log : bool) (p : name) : name := String.append (pdf_attr log) (String.append ":" p).

Definition joint_node : name := "_joint"%string.

Definition op_state (id : name) : sstate :=
  {| s_output := None; s_has_op := true; s_stochastic := false; s_observable := false; s_uses_observed := false;
     s_uses_batch_size := false; s_uses_meta := false; s_parameter := false; s_opid := id |}.

(** _add_distribution_nodes: Operation(op, *([node] + node.parents), name='_n_attr') for every n *)
Fixpoint add_distribution_nodes (m : snet) (P : list name) (log : bool) : res snet :=
  match P with
  | [] => Ok m
  | p :: r =>
      if negb (has p (s_nodes m)) then Err (EMissingNode p) else
      do m1 <- step_model m (EAddNode 0 (pdf_node log p) (op_state (pdf_opid log p)) (p :: get_parents m p) None);
      add_distribution_nodes m1 r log
  end.

(** add_pdf_nodes(model, joint=True, log, nodes=P): pdf nodes, then the reduce node over them *)
Definition augment (m : snet) (P : list name) (log : bool) : res snet :=
  do m1 <- add_distribution_nodes m P log;
  step_model m1 (EAddNode 0 joint_node (op_state "reduce"%string) (map (pdf_node log) P) None).

(** what the reduce operation computes from its arguments: functools.reduce(mul | add, args) *)
Definition binop (log : bool) (a b : value) : value :=
  VApp (OpUser (if log then "add" else "mul")%string) [a; b] [].

Definition reduce_args (log : bool) (args : list value) : option value :=
  match args with
  | [] => None
  | a :: r => Some (fold_left (binop log) r a)
  end.

Definition interp_reduce (log : bool) (v : value) : option value :=
  match v with
  | VApp (OpUser o) args [] => if String.eqb o "reduce" then reduce_args log args else None
  | _ => None
  end.

(** ModelPrior._evaluate_pdf: the joint node with the parameter columns supplied *)
Definition evaluate (m : snet) (P : list name) (log : bool) (x : list (name * value)) : res value :=
  do a <- augment m P log;
  do r <- generate a [joint_node] x;
  match lookup joint_node (fst r) with
  | Some v => match interp_reduce log v with Some t => Ok t | None => Err (EMissingOutput joint_node) end
  | None => Err (EMissingOutput joint_node)
  end.

(** ---- the specification: product (sum of logs) of the conditional densities ---- *)
(** value of a parent of a parameter at the point x: the supplied column, or the constant *)
Definition arg_value (m : snet) (x : list (name * value)) (q : name) : option value :=
  match lookup q x with
  | Some v => Some v
  | None => match lookup q (s_nodes m) with
            | Some st => s_output st
            | None => None
            end
  end.

Fixpoint all_some {A} (l : list (option A)) : option (list A) :=
  match l with
  | [] => Some []
  | Some a :: r => match all_some r with Some r' => Some (a :: r') | None => None end
  | None :: _ => None
  end.

(** density factor of parameter p: pdf_p(x_p; parents' values) *)
Definition factor (m : snet) (log : bool) (x : list (name * value)) (p : name) : option value :=
  match lookup p x, all_some (map (arg_value m x) (get_parents m p)) with
  | Some xp, Some args => Some (VApp (OpUser (pdf_opid log p)) (xp :: args) [])
  | _, _ => None
  end.

Definition joint_spec (m : snet) (P : list name) (log : bool) (x : list (name * value)) : option value :=
  match all_some (map (factor m log x) P) with
  | Some fs => reduce_args log fs
  | None => None
  end.

(** well-formed request: distinct requested parameters, each a parameter node whose positional
    parents are constants or requested parameters (closed under parameter parents) *)
Definition wf_request (m : snet) (P : list name) : bool :=
  nodup_names P
  && negb (match P with [] => true | _ => false end)
  && forallb (fun p => match lookup p (s_nodes m) with
                       | Some st => s_parameter st
                                    && forallb (fun q => mem q P || match lookup q (s_nodes m) with
                                                                   | Some sq => match s_output sq with Some _ => true | None => false end
                                                                   | None => false
                                                                   end) (get_parents m p)
                       | None => false
                       end) P.

(** ---- correspondence-check interface ---- *)
Record case := {
  p_model : snet;                        (* the user's model (introspected) *)
  p_params : list name;                  (* requested parameter names, in order *)
  p_log : bool;
  p_augmented : snet;                    (* source net after the real add_pdf_nodes (joint node renamed) *)
  p_point : list (name * value);         (* the supplied columns *)
  p_impl : option value                  (* symbolic value returned by ModelPrior._evaluate_pdf, None = raised *)
}.

Definition opt_eqb (a b : option value) : bool :=
  match a, b with Some x, Some y => value_eqb x y | None, None => true | _, _ => false end.

Definition agree (c : case) : bool :=
  match augment (p_model c) (p_params c) (p_log c) with
  | Ok a => snet_eqb a (p_augmented c)
  | Err _ => false
  end
  && opt_eqb (match evaluate (p_model c) (p_params c) (p_log c) (p_point c) with Ok v => Some v | Err _ => None end)
             (p_impl c).

Definition ok (c : case) : bool :=
  negb (wf_request (p_model c) (p_params c))
  || opt_eqb (joint_spec (p_model c) (p_params c) (p_log c) (p_point c)) (p_impl c).
