(** The joint model prior (elfi/model/augmenter.py add_pdf_nodes/_add_distribution_nodes/
    add_reduce_node, ModelPrior._evaluate_pdf) over the graph calculus (C08). *)
From Coq Require Import List String Ascii ZArith Arith Bool.
From Elfi Require Import Graph.Net Graph.Edit.
Import ListNotations.

Definition pdf_attr (log : bool) : string := if log then "logpdf"%string else "pdf"%string.

(** '_{}_{}'.format(n, attr) *)
Definition pdf_node (log : bool) (p : name) : name :=
  String.append "_" (String.append p (String.append "_" (pdf_attr log))).

(** identity of the bound method distribution.pdf of a distribution with identity d *)
Definition pdf_opid (log : bool) (d : name) : name := String.append (pdf_attr log) (String.append ":" d).

(** identity of the distribution object held by parameter node p (node.distribution): it is part of
    the node's state, so it follows the node through become(...) and is NOT a function of the name *)
Definition dist_id (m : snet) (p : name) : name :=
  match lookup p (s_nodes m) with Some st => s_opid st | None => p end.

Definition joint_node : name := "_joint"%string.

Definition op_state (id : name) : sstate :=
  {| s_output := None; s_has_op := true; s_stochastic := false; s_observable := false; s_uses_observed := false;
     s_uses_batch_size := false; s_uses_meta := false; s_parameter := false; s_opid := id |}.

(** _add_distribution_nodes: Operation(op, *([node] + node.parents), name='_n_attr') for every n *)
Fixpoint add_distribution_nodes (m : snet) (P : list name) (log : bool) : res snet :=
  match P with
  | [] => Ok m
  | p :: r =>
      if negb (has p (s_nodes m)) then Err (EMissingNode p) else
      do m1 <- step_model m (EAddNode 0 (pdf_node log p) (op_state (pdf_opid log (dist_id m p))) (p :: get_parents m p) None);
      add_distribution_nodes m1 r log
  end.

(** add_pdf_nodes(model, joint=True, log, nodes=P): pdf nodes, then the reduce node over them *)
Definition augment (m : snet) (P : list name) (log : bool) : res snet :=
  do m1 <- add_distribution_nodes m P log;
  step_model m1 (EAddNode 0 joint_node (op_state "reduce"%string) (map (pdf_node log) P) None).

(** what the reduce operation computes from its arguments: functools.reduce(mul | add, args) *)
Definition binop (log : bool) (a b : value) : value :=
  VApp (OpUser (if log then "add" else "mul")%string) [a; b] [].

Definition reduce_args (log : bool) (args : list value) : option value :=
  match args with
  | [] => None
  | a :: r => Some (fold_left (binop log) r a)
  end.

Definition interp_reduce (log : bool) (v : value) : option value :=
  match v with
  | VApp (OpUser o) args [] => if String.eqb o "reduce" then reduce_args log args else None
  | _ => None
  end.

(** ModelPrior._evaluate_pdf: the joint node with the parameter columns supplied.  [evaluate_in] is
    the part that runs on every call (load the compiled net, override the parameter nodes, execute);
    the augmented net [a] is prepared once, in ModelPrior.__init__.  Nothing is carried from one
    call to the next: the result is a function of the augmented net and the supplied point only. *)
Definition evaluate_in (a : snet) (log : bool) (x : list (name * value)) : res value :=
  do r <- generate a [joint_node] x;
  match lookup joint_node (fst r) with
  | Some v => match interp_reduce log v with Some t => Ok t | None => Err (EMissingOutput joint_node) end
  | None => Err (EMissingOutput joint_node)
  end.

Definition evaluate (m : snet) (P : list name) (log : bool) (x : list (name * value)) : res value :=
  do a <- augment m P log;
  evaluate_in a log x.

(** ---- the specification: product (sum of logs) of the conditional densities ---- *)
(** value of a parent of a parameter at the point x: the supplied column, or the constant *)
Definition arg_value (m : snet) (x : list (name * value)) (q : name) : option value :=
  match lookup q x with
  | Some v => Some v
  | None => match lookup q (s_nodes m) with
            | Some st => s_output st
            | None => None
            end
  end.

Fixpoint all_some {A} (l : list (option A)) : option (list A) :=
  match l with
  | [] => Some []
  | Some a :: r => match all_some r with Some r' => Some (a :: r') | None => None end
  | None :: _ => None
  end.

(** density factor of parameter p: pdf_p(x_p; parents' values) *)
Definition factor (m : snet) (log : bool) (x : list (name * value)) (p : name) : option value :=
  match lookup p x, all_some (map (arg_value m x) (get_parents m p)) with
  | Some xp, Some args => Some (VApp (OpUser (pdf_opid log (dist_id m p))) (xp :: args) [])
  | _, _ => None
  end.

Definition joint_spec (m : snet) (P : list name) (log : bool) (x : list (name * value)) : option value :=
  match all_some (map (factor m log x) P) with
  | Some fs => reduce_args log fs
  | None => None
  end.

(** well-formed request: distinct requested parameters, each a parameter node whose positional
    parents are constants or requested parameters (closed under parameter parents) *)
Definition wf_request (m : snet) (P : list name) : bool :=
  nodup_names P
  && negb (match P with [] => true | _ => false end)
  && forallb (fun p => match lookup p (s_nodes m) with
                       | Some st => s_parameter st
                                    && forallb (fun q => mem q P || match lookup q (s_nodes m) with
                                                                   | Some sq => match s_output sq with Some _ => true | None => false end
                                                                   | None => false
                                                                   end) (get_parents m p)
                       | None => false
                       end) P.

(** ---- correspondence-check interface ---- *)
Record case := {
  p_model : snet;                        (* the user's model (introspected) *)
  p_params : list name;                  (* requested parameter names, in order *)
  p_log : bool;
  p_augmented : snet;                    (* source net after the real add_pdf_nodes (joint node renamed) *)
  p_point : list (name * value);         (* the supplied columns *)
  p_impl : option value                  (* symbolic value returned by ModelPrior._evaluate_pdf, None = raised *)
}.

Definition opt_eqb (a b : option value) : bool :=
  match a, b with Some x, Some y => value_eqb x y | None, None => true | _, _ => false end.

Definition agree (c : case) : bool :=
  match augment (p_model c) (p_params c) (p_log c) with
  | Ok a => snet_eqb a (p_augmented c)
  | Err _ => false
  end
  && opt_eqb (match evaluate (p_model c) (p_params c) (p_log c) (p_point c) with Ok v => Some v | Err _ => None end)
             (p_impl c).

Definition ok (c : case) : bool :=
  negb (wf_request (p_model c) (p_params c))
  || opt_eqb (joint_spec (p_model c) (p_params c) (p_log c) (p_point c)) (p_impl c).

(** ---- histories: several joint-prior objects, several calls on each (wave 2) ----
    ModelPrior.pdf/logpdf on an array: x.reshape((-1, dim)), column i feeds parameter i, every row
    is one point; a 0-d input, and a 1-d input when dim > 1, is a single point whose answer is
    val[0] (no axes); every other input gives one answer per row (one axis).  The model keeps
    nothing between two calls and nothing between two objects: each call is evaluated from the
    graph the object was built from and the call's own array, whatever happened before. *)
Record call := {
  c_log : bool;
  c_shape : list nat;                          (* shape of the array handed to pdf / logpdf *)
  c_data : list Z;                             (* its elements in C order *)
  c_impl : option (list nat * list value)      (* observed shape and elements of the answer, None = raised *)
}.

Record epoch := {
  e_model : snet;                              (* the user's model when this ModelPrior was built (introspected then) *)
  e_params : list name;
  e_calls : list call                          (* the calls made on this object, at any later time of the history *)
}.

Fixpoint take_row (d : nat) (l : list Z) : option (list Z * list Z) :=
  match d with
  | O => Some ([], l)
  | S d' => match l with
            | [] => None
            | z :: r => match take_row d' r with Some (row, rest) => Some (z :: row, rest) | None => None end
            end
  end.

(** reshape((-1, d)) of the flat data; None = the size is not a multiple of d *)
Fixpoint rows_of (fuel d : nat) (l : list Z) : option (list (list Z)) :=
  match l with
  | [] => Some []
  | _ :: _ =>
      match fuel with
      | O => None
      | S f => match take_row d l with
               | Some (row, rest) => match rows_of f d rest with Some rs => Some (row :: rs) | None => None end
               | None => None
               end
      end
  end.

Fixpoint map_res {A B} (f : A -> res B) (l : list A) : res (list B) :=
  match l with
  | [] => Ok []
  | a :: r => do b <- f a; do bs <- map_res f r; Ok (b :: bs)
  end.

(** _to_batch: column i of the row is the value of requested parameter i *)
Definition point_of (P : list name) (row : list Z) : list (name * value) := combine P (map VConst row).

(** ndim == 0 or (ndim == 1 and dim > 1) *)
Definition single_point_form (dim : nat) (shape : list nat) : bool :=
  match shape with [] => true | [_] => Nat.ltb 1 dim | _ => false end.

Definition eval_rows (m : snet) (P : list name) (log : bool) (rows : list (list Z)) : res (list value) :=
  do a <- augment m P log;
  map_res (fun r => evaluate_in a log (point_of P r)) rows.

Definition eval_call (m : snet) (P : list name) (c : call) : option (list nat * list value) :=
  let dim := List.length P in
  match rows_of (List.length (c_data c)) dim (c_data c) with
  | None => None
  | Some rows =>
      match eval_rows m P (c_log c) rows with
      | Err _ => None
      | Ok vs => if single_point_form dim (c_shape c)
                 then match vs with v :: _ => Some ([], [v]) | [] => None end
                 else Some ([List.length vs], vs)
      end
  end.

Fixpoint values_eqb (a b : list value) : bool :=
  match a, b with
  | [], [] => true
  | x :: r, y :: s => value_eqb x y && values_eqb r s
  | _, _ => false
  end.

Fixpoint shape_eqb (a b : list nat) : bool :=
  match a, b with
  | [], [] => true
  | x :: r, y :: s => Nat.eqb x y && shape_eqb r s
  | _, _ => false
  end.

Definition answer_eqb (a b : option (list nat * list value)) : bool :=
  match a, b with
  | Some (s, v), Some (t, w) => shape_eqb s t && values_eqb v w
  | None, None => true
  | _, _ => false
  end.

Definition agree_call (m : snet) (P : list name) (c : call) : bool := answer_eqb (eval_call m P c) (c_impl c).

Definition agree_epoch (e : epoch) : bool := forallb (agree_call (e_model e) (e_params e)) (e_calls e).

(** the forms of input the property speaks about: a scalar (one parameter), a vector that is one point
    (several parameters) or a list of points (one parameter), a matrix with one point per row; the
    number of points and whether the answer has an axis *)
Definition proper_form (dim : nat) (shape : list nat) : option (nat * bool) :=
  match shape with
  | [] => if Nat.eqb dim 1 then Some (1, false) else None
  | [k] => if Nat.eqb dim 1 then (if Nat.eqb k 0 then None else Some (k, true))
           else if Nat.eqb k dim then Some (1, false) else None
  | [n; d] => if Nat.eqb d dim && negb (Nat.eqb n 0) then Some (n, true) else None
  | _ => None
  end.

Definition spec_rows (m : snet) (P : list name) (log : bool) (rows : list (list Z)) : option (list value) :=
  all_some (map (fun r => joint_spec m P log (point_of P r)) rows).

(** the property on one call: a proper input of n points is answered with exactly n values (no axis
    for a single point given as scalar / vector), each the product (sum of logs) of the conditional
    densities at its own row *)
Definition ok_call (m : snet) (P : list name) (c : call) : bool :=
  let dim := List.length P in
  match proper_form dim (c_shape c) with
  | None => true
  | Some (n, axis) =>
      negb (Nat.eqb (List.length (c_data c)) (n * dim))
      || match rows_of (List.length (c_data c)) dim (c_data c), c_impl c with
         | Some rows, Some (sh, vs) =>
             shape_eqb sh (if axis then [n] else [])
             && match spec_rows m P (c_log c) rows with Some ws => values_eqb ws vs | None => false end
         | _, _ => false
         end
  end.

Definition ok_epoch (e : epoch) : bool :=
  negb (wf_request (e_model e) (e_params e)) || forallb (ok_call (e_model e) (e_params e)) (e_calls e).

(** one correspondence case: a single evaluation with the augmented net introspected (wave 1), or a
    history of edits, objects and calls (wave 2) *)
Inductive tcase := Single (c : case) | History (h : list epoch).

Definition agree_t (t : tcase) : bool :=
  match t with Single c => agree c | History h => forallb agree_epoch h end.

Definition ok_t (t : tcase) : bool :=
  match t with Single c => ok c | History h => forallb ok_epoch h end.
