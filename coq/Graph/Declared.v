(** C03, the declaration side: the user DECLARES dependencies (parent, child, parameter) - through a
    node constructor (argument index = position), through GraphicalModel.add_edge with an explicit
    position / name, or with the implicit "next free position".  The property speaks about the
    declared parameters ("positional parents in declared order, named parents by name"), so the
    decidable check is evaluated on the DECLARED graph, and the net the implementation built from the
    declaration must carry exactly the declared triples.  Model file: no proofs here
    (Proofs/C03_Declared.v). *)
From Coq Require Import List String ZArith Arith Bool.
From Elfi Require Import Graph.Net Graph.Denote.
Import ListNotations.

Definition edge_eqb (a b : edge) : bool :=
  String.eqb (e_src a) (e_src b) && String.eqb (e_dst a) (e_dst b) && param_eqb (e_par a) (e_par b).
Definition edge_mem (e : edge) (l : list edge) : bool := existsb (edge_eqb e) l.

(** a case of the correspondence check together with the declaration the harness issued *)
Record dcase := {
  d_case : case;           (* introspected source net of the implementation + its run *)
  d_decl : list edge       (* the declared (parent, child, parameter) triples *)
}.

(** the implementation's source net carries exactly the declared triples *)
Definition decl_kept (c : dcase) : bool :=
  let es := s_edges (k_src (d_case c)) in
  forallb (fun e => edge_mem e es) (d_decl c) && forallb (fun e => edge_mem e (d_decl c)) es.

(** declarations the property speaks about: one declaration per ordered pair of nodes, and the
    parameters declared for one child pairwise distinct (two parents on one position / one name make
    the call depend on dictionary iteration order, DESIGN.md 11.5) *)
Fixpoint distinct_params (ps : list param) : bool :=
  match ps with
  | [] => true
  | p :: r => negb (existsb (param_eqb p) r) && distinct_params r
  end.
Fixpoint distinct_pairs (d : list edge) : bool :=
  match d with
  | [] => true
  | e :: r => negb (existsb (fun x => String.eqb (e_src e) (e_src x) && String.eqb (e_dst e) (e_dst x)) r)
              && distinct_pairs r
  end.
Definition decl_wf (d : list edge) : bool :=
  distinct_pairs d && forallb (fun e => distinct_params (map snd (preds d (e_dst e)))) d.

(** the graph the user declared: the nodes (states, observed data) with the DECLARED edges *)
Definition declared_src (c : dcase) : snet :=
  {| s_nodes := s_nodes (k_src (d_case c)); s_edges := d_decl c; s_observed := s_observed (k_src (d_case c)) |}.
Definition declared_case (c : dcase) : case :=
  {| k_src := declared_src c; k_outputs := k_outputs (d_case c); k_with := k_with (d_case c); k_impl := k_impl (d_case c) |}.

(** model = implementation (the model compiles the net the implementation holds) *)
Definition dagree (c : dcase) : bool := agree (d_case c).

(** the property: the declaration is well formed, the net carries it, and the implementation's result is
    the dataflow meaning of the DECLARED graph (and of the net it holds) *)
Definition dok (c : dcase) : bool :=
  decl_wf (d_decl c) && decl_kept c && ok (declared_case c) && ok (d_case c).

Definition dok_strict (c : dcase) : bool := ok_strict (d_case c).

(** ---- building a net from a declaration through GraphicalModel.add_edge ---- *)
Definition with_edges (m : snet) es := {| s_nodes := s_nodes m; s_edges := es; s_observed := s_observed m |}.

(** GraphicalModel.get_parents: positional parents in index order (stable) *)
Fixpoint insert_parent (a : nat * name) (l : list (nat * name)) : list (nat * name) :=
  match l with
  | [] => [a]
  | b :: r => if Nat.ltb (fst a) (fst b) then a :: l else b :: insert_parent a r
  end.
Definition get_parents (m : snet) (c : name) : list name :=
  map snd (fold_left (fun acc a => insert_parent a acc)
                     (flat_map (fun up : name * param => match snd up with PInt i => [(i, fst up)] | PStr _ => [] end)
                               (preds (s_edges m) c)) []).

(** GraphicalModel.add_edge(parent, child, param): [None] = the next free position, an explicit
    parameter (ANY int, 0 included, or a name) is stored as given *)
Definition add_edge_m (m : snet) (p c : name) (par : option param) : res snet :=
  if negb (has c (s_nodes m)) then Err (EMissingNode c) else
  let prm := match par with Some x => x | None => PInt (List.length (get_parents m c)) end in
  if negb (has p (s_nodes m)) then Err (EMissingNode p) else
  Ok (with_edges m (add_edge p c prm (s_edges m))).

(** one call [add_edge(parent, child, param)] with an explicit parameter *)
Definition attach (r : res snet) (e : edge) : res snet :=
  match r with
  | Ok m => add_edge_m m (e_src e) (e_dst e) (Some (e_par e))
  | Err x => Err x
  end.
Definition attach_all (m : snet) (d : list edge) : res snet := fold_left attach d (Ok m).
