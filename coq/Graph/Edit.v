(** Model editing (elfi/model/graphical_model.py, ElfiModel.update_node/remove_node/copy/
    parameter_names) as functions on source nets, over several live model handles (C14). *)
From Coq Require Import List String Ascii ZArith Arith Bool.
From Elfi Require Import Graph.Net.
Import ListNotations.

Definition with_nodes (m : snet) ns := {| s_nodes := ns; s_edges := s_edges m; s_observed := s_observed m |}.
Definition with_edges (m : snet) es := {| s_nodes := s_nodes m; s_edges := es; s_observed := s_observed m |}.
Definition with_observed (m : snet) ob := {| s_nodes := s_nodes m; s_edges := s_edges m; s_observed := ob |}.

Definition empty_net : snet := {| s_nodes := []; s_edges := []; s_observed := [] |}.

(** get_parents: positional parents in index order (stable) *)
Fixpoint insert_parent (a : nat * name) (l : list (nat * name)) : list (nat * name) :=
  match l with
  | [] => [a]
  | b :: r => if Nat.ltb (fst a) (fst b) then a :: l else b :: insert_parent a r
  end.
Definition get_parents (m : snet) (c : name) : list name :=
  map snd (fold_left (fun acc a => insert_parent a acc)
                     (flat_map (fun up : name * param => match snd up with PInt i => [(i, fst up)] | PStr _ => [] end)
                               (preds (s_edges m) c)) []).

Definition degree (m : snet) (n : name) : nat :=
  List.length (filter (fun e => String.eqb n (e_src e) || String.eqb n (e_dst e)) (s_edges m)).

Definition is_private (n : name) : bool :=
  match n with String c _ => Ascii.eqb c "_"%char | EmptyString => false end.

(** GraphicalModel.add_node *)
Definition add_node (m : snet) (n : name) (st : sstate) : res snet :=
  if has n (s_nodes m) then Err (EObservedExists n) else Ok (with_nodes m (s_nodes m ++ [(n, st)])).

(** GraphicalModel.add_edge (param None = next positional index) *)
Definition add_edge_m (m : snet) (p c : name) (par : option param) : res snet :=
  if negb (has c (s_nodes m)) then Err (EMissingNode c) else
  let prm := match par with Some x => x | None => PInt (List.length (get_parents m c)) end in
  if negb (has p (s_nodes m)) then Err (EMissingNode p) else
  Ok (with_edges m (add_edge p c prm (s_edges m))).

(** source_net.remove_node *)
Definition drop_node (m : snet) (n : name) : snet :=
  {| s_nodes := remove n (s_nodes m);
     s_edges := filter (fun e => negb (String.eqb n (e_src e)) && negb (String.eqb n (e_dst e))) (s_edges m);
     s_observed := s_observed m |}.

(** ElfiModel.remove_node: observed data go, then sole private parents recursively *)
Fixpoint remove_node (fuel : nat) (m : snet) (n : name) : snet :=
  let m0 := with_observed m (remove n (s_observed m)) in
  let parents := get_parents m0 n in
  let m1 := drop_node m0 n in
  match fuel with
  | O => m1
  | S f =>
      fold_left (fun m' p => if is_private p && has p (s_nodes m') && Nat.eqb (degree m' p) 0
                             then remove_node f m' p else m')
                parents m1
  end.

Definition remove_node_checked (m : snet) (n : name) : res snet :=
  if has n (s_nodes m) then Ok (remove_node (List.length (s_nodes m)) m n) else Err (EMissingNode n).

(** ElfiModel.update_node (NodeReference.become) *)
Definition update_node (m : snet) (n u : name) : res snet :=
  if negb (has n (s_nodes m)) then Err (EMissingNode n) else
  if negb (has u (s_nodes m)) then Err (EMissingNode u) else
  let obs_u := lookup u (s_observed m) in
  let m0 := with_observed m (remove u (s_observed m)) in
  let out_edges := filter (fun e => String.eqb n (e_src e)) (s_edges m0) in
  let m1 := remove_node (List.length (s_nodes m0)) m0 n in
  match lookup u (s_nodes m1) with
  | None => Err (EMissingNode u)
  | Some stu =>
      let m2 := with_nodes m1 (set n stu (s_nodes m1)) in
      if negb (forallb (fun e => has (e_dst e) (s_nodes m2)) out_edges) then Err (EMissingNode n) else
      let m3 := with_edges m2 (fold_left (fun es e => add_edge (e_src e) (e_dst e) (e_par e) es) out_edges (s_edges m2)) in
      let in_u := filter (fun e => String.eqb u (e_dst e)) (s_edges m3) in
      let m4 := with_edges m3 (fold_left (fun es e => add_edge (e_src e) n (e_par e) es) in_u (s_edges m3)) in
      let m5 := remove_node (List.length (s_nodes m4)) m4 u in
      Ok (match obs_u with Some v => with_observed m5 (set n v (s_observed m5)) | None => m5 end)
  end.

(** parameter_names getter / setter *)
Definition parameter_names (m : snet) : list name :=
  sort_names (map fst (filter (fun ns : name * sstate => s_parameter (snd ns)) (s_nodes m))).

Definition set_param (st : sstate) (b : bool) : sstate :=
  {| s_output := s_output st; s_has_op := s_has_op st; s_stochastic := s_stochastic st;
     s_observable := s_observable st; s_uses_observed := s_uses_observed st;
     s_uses_batch_size := s_uses_batch_size st; s_uses_meta := s_uses_meta st;
     s_parameter := b; s_opid := s_opid st |}.

Definition set_parameter_names (m : snet) (ps : list name) : res snet :=
  if forallb (fun p => has p (s_nodes m)) ps
  then Ok (with_nodes m (map (fun ns : name * sstate => (fst ns, set_param (snd ns) (mem (fst ns) ps))) (s_nodes m)))
  else Err (EMissingNode ""%string).

(** In-place writes to one node state through a reference: [model[n].uses_meta = b] (the
    InstructionsMapper setter, as elfi/examples/bdm.py does), [model.get_state(n)['attr_dict'][key] = b] /
    [model.source_net.nodes[n]['attr_dict'][key] = b] (as Prior.__init__ does for '_parameter').  The
    state is a value of the model it belongs to: nothing else changes. *)
Inductive sflag := FUsesMeta | FUsesBatchSize | FUsesObserved | FParameter.

Definition set_flag (st : sstate) (f : sflag) (b : bool) : sstate :=
  {| s_output := s_output st; s_has_op := s_has_op st; s_stochastic := s_stochastic st;
     s_observable := s_observable st;
     s_uses_observed := match f with FUsesObserved => b | _ => s_uses_observed st end;
     s_uses_batch_size := match f with FUsesBatchSize => b | _ => s_uses_batch_size st end;
     s_uses_meta := match f with FUsesMeta => b | _ => s_uses_meta st end;
     s_parameter := match f with FParameter => b | _ => s_parameter st end;
     s_opid := s_opid st |}.

Definition write_flag (m : snet) (n : name) (f : sflag) (b : bool) : snet :=
  with_nodes m (map (fun ns : name * sstate =>
                       if String.eqb (fst ns) n then (fst ns, set_flag (snd ns) f b) else ns) (s_nodes m)).

Definition set_node_flag (m : snet) (n : name) (f : sflag) (b : bool) : res snet :=
  if has n (s_nodes m) then Ok (write_flag m n f b) else Err (EMissingNode n).

(** ---- edit scripts over several live models ---- *)
Inductive eop :=
| EAddNode (h : nat) (n : name) (st : sstate) (parents : list name) (obs : option value)
| EAddEdge (h : nat) (p c : name) (par : option param)
| ERemove (h : nat) (n : name)
| EBecome (h : nat) (n u : name)
| ESetParams (h : nat) (ps : list name)
| ESetObserved (h : nat) (n : name) (v : value)
| ECopy (h : nat)
| ESaveLoad (h : nat)
| ESetFlag (h : nat) (n : name) (f : sflag) (b : bool).

Definition handle_of (o : eop) : nat :=
  match o with
  | EAddNode h _ _ _ _ | EAddEdge h _ _ _ | ERemove h _ | EBecome h _ _ | ESetParams h _
  | ESetObserved h _ _ | ECopy h | ESaveLoad h | ESetFlag h _ _ _ => h
  end.

Fixpoint set_nth {A} (i : nat) (a : A) (l : list A) : list A :=
  match l, i with
  | [], _ => []
  | _ :: r, O => a :: r
  | x :: r, S j => x :: set_nth j a r
  end.

Definition step_model (m : snet) (o : eop) : res snet :=
  match o with
  | EAddNode _ n st parents obs =>
      do m1 <- add_node m n st;
      do m2 <- fold_left (fun r p => do mm <- r; add_edge_m mm p n None) parents (Ok m1);
      Ok (match obs with Some v => with_observed m2 (set n v (s_observed m2)) | None => m2 end)
  | EAddEdge _ p c par => add_edge_m m p c par
  | ERemove _ n => remove_node_checked m n
  | EBecome _ n u => update_node m n u
  | ESetParams _ ps => set_parameter_names m ps
  | ESetObserved _ n v => Ok (with_observed m (set n v (s_observed m)))   (* a plain dict write *)
  | ECopy _ | ESaveLoad _ => Ok m
  | ESetFlag _ n f b => set_node_flag m n f b
  end.

(** one step on the list of live models; a copy / reload appends a new handle *)
Definition step (ms : list snet) (o : eop) : res (list snet) :=
  match nth_error ms (handle_of o) with
  | None => Err (EMissingNode "handle"%string)
  | Some m =>
      do m' <- step_model m o;
      match o with
      | ECopy _ | ESaveLoad _ => Ok (ms ++ [m'])
      | _ => Ok (set_nth (handle_of o) m' ms)
      end
  end.

Fixpoint run (ms : list snet) (ops : list eop) : res (list snet) :=
  match ops with
  | [] => Ok ms
  | o :: r => do ms' <- step ms o; run ms' r
  end.

(** ---- consistency (decidable) ---- *)
Fixpoint nodup_names (l : list name) : bool :=
  match l with [] => true | x :: r => negb (mem x r) && nodup_names r end.

Fixpoint nodup_params (l : list param) : bool :=
  match l with [] => true | x :: r => negb (existsb (param_eqb x) r) && nodup_params r end.

Definition acyclic_b (m : snet) : bool :=
  let t := topo_order m in
  forallb (fun n => forallb (fun pp : name * param => mem (fst pp) (firstn_before n t)) (preds (s_edges m) n)) t.

Definition consistent_b (m : snet) : bool :=
  nodup_names (map fst (s_nodes m))
  && forallb (fun e => has (e_src e) (s_nodes m) && has (e_dst e) (s_nodes m)) (s_edges m)
  && forallb (fun kv : name * value => has (fst kv) (s_nodes m)) (s_observed m)
  && forallb (fun ns : name * sstate => nodup_params (map snd (preds (s_edges m) (fst ns)))) (s_nodes m)
  && acyclic_b m.

(** ---- canonical dumps for comparison with the implementation ---- *)
Definition edge_key (e : edge) : string := String.append (e_src e) (String.append "|" (e_dst e)).

Fixpoint insert_by {A} (key : A -> string) (a : A) (l : list A) : list A :=
  match l with
  | [] => [a]
  | b :: r => if String.leb (key a) (key b) then a :: l else b :: insert_by key a r
  end.
Definition sort_by {A} (key : A -> string) (l : list A) : list A := fold_right (insert_by key) [] l.

Definition opt_value_eqb (a b : option value) : bool :=
  match a, b with Some x, Some y => value_eqb x y | None, None => true | _, _ => false end.

Definition sstate_eqb (a b : sstate) : bool :=
  opt_value_eqb (s_output a) (s_output b) && Bool.eqb (s_has_op a) (s_has_op b)
  && Bool.eqb (s_stochastic a) (s_stochastic b) && Bool.eqb (s_observable a) (s_observable b)
  && Bool.eqb (s_uses_observed a) (s_uses_observed b) && Bool.eqb (s_uses_batch_size a) (s_uses_batch_size b)
  && Bool.eqb (s_uses_meta a) (s_uses_meta b) && Bool.eqb (s_parameter a) (s_parameter b)
  && String.eqb (s_opid a) (s_opid b).

Fixpoint list_eqb {A} (eqb : A -> A -> bool) (a b : list A) : bool :=
  match a, b with
  | [], [] => true
  | x :: r, y :: s => eqb x y && list_eqb eqb r s
  | _, _ => false
  end.

Fixpoint all2 {A B} (f : A -> B -> bool) (a : list A) (b : list B) : bool :=
  match a, b with
  | [], [] => true
  | x :: r, y :: s => f x y && all2 f r s
  | _, _ => false
  end.

Definition snet_eqb (a b : snet) : bool :=
  list_eqb (fun x y : name * sstate => String.eqb (fst x) (fst y) && sstate_eqb (snd x) (snd y))
           (sort_by fst (s_nodes a)) (sort_by fst (s_nodes b))
  && list_eqb (fun x y : edge => String.eqb (e_src x) (e_src y) && String.eqb (e_dst x) (e_dst y) && param_eqb (e_par x) (e_par y))
              (sort_by edge_key (s_edges a)) (sort_by edge_key (s_edges b))
  && list_eqb (fun x y : name * value => String.eqb (fst x) (fst y) && value_eqb (snd x) (snd y))
              (sort_by fst (s_observed a)) (sort_by fst (s_observed b)).

(** ---- the property clauses, evaluated on two consecutive dumps of the live models ---- *)
Definition children (m : snet) (n : name) : list (name * param) :=
  map (fun e => (e_dst e, e_par e)) (filter (fun e => String.eqb n (e_src e)) (s_edges m)).

Definition same_pairs (a b : list (name * param)) : bool :=
  forallb (fun x => existsb (fun y => String.eqb (fst x) (fst y) && param_eqb (snd x) (snd y)) b) a
  && forallb (fun x => existsb (fun y => String.eqb (fst x) (fst y) && param_eqb (snd x) (snd y)) a) b.

(** what one edit must have done to the edited model ([before] -> [after]) *)
Definition op_ok (o : eop) (before after : snet) : bool :=
  match o with
  | EBecome _ n u =>
      negb (has u (s_nodes after))
      && same_pairs (children before n) (children after n)                         (* keeps its children *)
      && match lookup u (s_nodes before), lookup n (s_nodes after) with           (* takes the replacement's state *)
         | Some su, Some sn => sstate_eqb su sn
         | _, _ => false
         end
      && same_pairs (preds (s_edges before) u) (preds (s_edges after) n)          (* ... its parents *)
      && opt_value_eqb (lookup u (s_observed before)) (lookup n (s_observed after)) (* ... its observed data *)
      && negb (has u (s_observed after))
  | ERemove _ n =>
      negb (has n (s_nodes after)) && negb (has n (s_observed after))
      (* private constants that only served removed nodes are gone *)
      && forallb (fun p => negb (is_private p && has p (s_nodes after) && Nat.eqb (degree after p) 0))
                 (get_parents before n)
      (* nothing else disappears except private nodes left without any edge *)
      && forallb (fun ns : name * sstate =>
                    has (fst ns) (s_nodes after) || String.eqb (fst ns) n || is_private (fst ns)) (s_nodes before)
  | ESetFlag _ n f b =>
      (* a write to one node state changes that flag of that node and nothing else of the model *)
      snet_eqb (write_flag before n f b) after
  | _ => true
  end.

Definition params_ok (m : snet) (reported : list name) : bool := names_eqb reported (parameter_names m).

(** ---- correspondence-check interface ---- *)
(** after every operation the harness dumps every live model (None = the operation raised) *)
Record step_obs := {
  so_op : eop;
  so_after : option (list snet);             (* implementation dumps of all live models *)
  so_params : list (list name)               (* model.parameter_names as reported, per live model *)
}.

(** a seeded generate(all nodes) on one live model at the end of the script *)
Record impl_gen := { g_handle : nat; g_outputs : list (name * value); g_log : list name; g_raised : bool }.

Record case := {
  e_steps : list step_obs;
  e_generated : list impl_gen
}.

Fixpoint dumps_eqb (a b : list snet) : bool :=
  match a, b with
  | [], [] => true
  | x :: r, y :: s => snet_eqb x y && dumps_eqb r s
  | _, _ => false
  end.

(** model = implementation after every step (a raising step ends the script) *)
Fixpoint agree_steps (ms : list snet) (steps : list step_obs) : bool :=
  match steps with
  | [] => true
  | s :: r =>
      match step ms (so_op s), so_after s with
      | Err _, None => true
      | Ok ms', Some dumps => dumps_eqb ms' dumps && agree_steps ms' r
      | _, _ => false
      end
  end.

Fixpoint final_models (ms : list snet) (steps : list step_obs) : list snet :=
  match steps with
  | [] => ms
  | s :: r => match so_after s with Some d => final_models d r | None => ms end
  end.

Fixpoint outs_eqb (a b : list (name * value)) : bool :=
  match a, b with
  | [], [] => true
  | (n, v) :: r, (m, w) :: s => String.eqb n m && value_eqb v w && outs_eqb r s
  | _, _ => false
  end.

Definition gen_agrees (ms : list snet) (g : impl_gen) : bool :=
  match nth_error ms (g_handle g) with
  | None => false
  | Some m =>
      (* two parents sharing one positional index (only reachable through the deprecated explicit
         add_edge) make the argument order depend on networkx iteration order: outside the model *)
      if negb (forallb (fun ns : name * sstate => nodup_params (map snd (preds (s_edges m) (fst ns)))) (s_nodes m)) then true else
      match generate m (map fst (s_nodes m)) [] with
      | Ok (out, _) => negb (g_raised g) && outs_eqb out (g_outputs g)
      | Err _ => g_raised g
      end
  end.

Definition agree (c : case) : bool :=
  agree_steps [empty_net] (e_steps c)
  && forallb (gen_agrees (final_models [empty_net] (e_steps c))) (e_generated c).

(** two live models with equal dumps generate the same outputs (checked on the implementation) *)
Definition gens_consistent (c : case) : bool :=
  let ms := final_models [empty_net] (e_steps c) in
  forallb (fun g1 => forallb (fun g2 =>
     match nth_error ms (g_handle g1), nth_error ms (g_handle g2) with
     | Some m1, Some m2 => negb (snet_eqb m1 m2) || (Bool.eqb (g_raised g1) (g_raised g2) && outs_eqb (g_outputs g1) (g_outputs g2))
     | _, _ => false
     end) (e_generated c)) (e_generated c).

(** Steps outside the property's statement: the deprecated explicit add_edge when it produces a
    duplicate positional index or a cycle; [become] onto the node itself or one of its descendants
    (the replacement would be its own ancestor). *)
Definition edge_hazard (o : eop) (before : snet) : bool :=
  match o with
  | EAddEdge _ p c par =>
      match add_edge_m before p c par with
      | Ok m' => negb (forallb (fun ns : name * sstate => nodup_params (map snd (preds (s_edges m') (fst ns)))) (s_nodes m'))
                 || negb (acyclic_b m')
      | Err _ => false
      end
  | _ => false
  end.
Definition become_hazard (o : eop) (before : snet) : bool :=
  match o with
  | EBecome _ n u => mem n (ancestors_incl (s_edges before) [u])
  | _ => false
  end.

(** the property, on the implementation's dumps only; [strict = false] stops checking at a
    become-onto-descendant step *)
Fixpoint ok_steps (strict : bool) (ms : list snet) (steps : list step_obs) : bool :=
  match steps with
  | [] => true
  | s :: r =>
      match so_after s with
      | None => true
      | Some dumps =>
          let h := handle_of (so_op s) in
          let before := nth h ms empty_net in
          if edge_hazard (so_op s) before || (negb strict && become_hazard (so_op s) before) then true else
          (* every live model stays consistent *)
          forallb consistent_b dumps
          (* the edited model changed as stated *)
          && match nth_error ms h, nth_error dumps h with
             | Some b, Some a => op_ok (so_op s) b a
             | _, _ => false
             end
          (* no other live model changed (copies and originals are independent) *)
          && (fix others (i : nat) (bs as_ : list snet) {struct bs} : bool :=
                match bs, as_ with
                | [], _ => true
                | b :: br, a :: ar => (Nat.eqb i h || snet_eqb b a) && others (S i) br ar
                | _ :: _, [] => false
                end) 0 ms dumps
          (* a copy / a reloaded model equals its source *)
          && match so_op s with
             | ECopy _ | ESaveLoad _ =>
                 match nth_error ms h, nth_error dumps (List.length ms) with
                 | Some b, Some a => snet_eqb b a && Nat.eqb (List.length dumps) (S (List.length ms))
                 | _, _ => false
                 end
             | _ => Nat.eqb (List.length dumps) (List.length ms)
             end
          (* parameter_names lists exactly the parameter nodes, sorted *)
          && all2 params_ok dumps (so_params s)
          && ok_steps strict dumps r
      end
  end.

Definition ok (c : case) : bool := ok_steps false [empty_net] (e_steps c) && gens_consistent c.
Definition ok_strict (c : case) : bool := ok_steps true [empty_net] (e_steps c).

(** debugging aid for the harness: the first step where model and implementation differ *)
Fixpoint first_disagree (ms : list snet) (steps : list step_obs) (i : nat) : option (nat * res (list snet)) :=
  match steps with
  | [] => None
  | s :: r =>
      match step ms (so_op s), so_after s with
      | Err _, None => None
      | Ok ms', Some dumps => if dumps_eqb ms' dumps then first_disagree ms' r (S i) else Some (i, Ok ms')
      | x, _ => Some (i, x)
      end
  end.
