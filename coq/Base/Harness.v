(** Helpers used by the generated case files of the correspondence check. *)
From Coq Require Import List Arith.
Import ListNotations.

Fixpoint failing_from {A} (f : A -> bool) (l : list A) (i : nat) : list nat :=
  match l with
  | [] => []
  | x :: r => if f x then failing_from f r (S i) else i :: failing_from f r (S i)
  end.

(** indices of the cases on which the predicate is [false] *)
Definition failing {A} (f : A -> bool) (l : list A) : list nat := failing_from f l 0.
